(** Machine-checked proofs for the session / processing-time window managers and the
    clocked keyed operator (C14). *)
From Noir Require Import Proofs.WinClockSpec.
From Coq Require Import ZifyBool.
Open Scope Z_scope.

(** the machine of a clocked manager over clocked inputs *)
Definition cm_machine {A C : Type} (M : cmgr A C) : machine (@cin A) (wres C) :=
  Build_machine _ _ (cst M) (cinit M) (fun s (x : cin) => cstep M s (fst x) (snd x)).

Lemma cno_end_tail {A} (x : @cin A) (l : list (@cin A)) : cno_end (x :: l) -> cno_end l.
Proof. intros H t e Hin. apply (H t e). now right. Qed.

Lemma cno_end_head {A} (t : Z) (e : elem A) (l : list (@cin A)) :
  cno_end ((t, e) :: l) -> e <> FAR /\ e <> Terminate.
Proof. intros H. apply (H t e). now left. Qed.

Lemma cdata_cons_data {A} (t : Z) (e : elem A) (x : A) (l : list (@cin A)) :
  payload e = Some x -> cdata ((t, e) :: l) = x :: cdata l.
Proof. intros H. unfold cdata. cbn [map snd payloads]. now rewrite H. Qed.

Lemma cdata_cons_ctl {A} (t : Z) (e : elem A) (l : list (@cin A)) :
  payload e = None -> cdata ((t, e) :: l) = cdata l.
Proof. intros H. unfold cdata. cbn [map snd payloads]. now rewrite H. Qed.

(** * General list facts used for the processing-time proofs *)
Definition isnil {X} (g : list X) : bool := match g with [] => true | _ => false end.
Definition nonnil {X} (g : list X) : bool := negb (isnil g).
Definition has (i : nat) (g : list nat) : bool := existsb (Nat.eqb i) g.
Definition cnt (i : nat) (G : list (list nat)) : nat := length (filter (has i) G).

Lemma nonnil_true {X} (g : list X) : nonnil g = true -> g <> [].
Proof. destruct g; [discriminate|discriminate]. Qed.

Lemma incr_snoc (n : nat) : forall g,
  increasing g -> Forall (fun i => (i < n)%nat) g -> increasing (g ++ [n]).
Proof.
  induction g as [|a g IH]; intros Hi Hf; [exact I|].
  destruct g as [|b g].
  - cbn. inversion Hf; subst. split; [assumption|exact I].
  - destruct Hi as [Hab Hi]. inversion Hf; subst.
    change ((a < b)%nat /\ increasing ((b :: g) ++ [n])). split; [assumption|]. now apply IH.
Qed.

Lemma pick_ext {X} (xs ys : list X) : forall g,
  Forall (fun i => (i < length xs)%nat) g -> pick (xs ++ ys) g = pick xs g.
Proof.
  induction g as [|i g IH]; intros Hf; [reflexivity|].
  inversion Hf; subst. unfold pick in *. cbn [flat_map].
  rewrite nth_error_app1 by assumption. now rewrite IH.
Qed.

Lemma pick_snoc {X} (xs : list X) (x : X) (g : list nat) :
  Forall (fun i => (i < length xs)%nat) g ->
  pick (xs ++ [x]) (g ++ [length xs]) = pick xs g ++ [x].
Proof.
  intros Hf. unfold pick. rewrite flat_map_app. fold (pick (xs ++ [x]) g).
  rewrite (pick_ext xs [x] g Hf). cbn [flat_map].
  rewrite nth_error_app2 by lia. rewrite Nat.sub_diag. reflexivity.
Qed.

Lemma has_snoc i g n : has i (g ++ [n]) = has i g || Nat.eqb i n.
Proof. unfold has. rewrite existsb_app. cbn [existsb]. now rewrite orb_false_r. Qed.

Lemma has_lt n g : Forall (fun i => (i < n)%nat) g -> has n g = false.
Proof.
  induction 1 as [|i g Hi Hf IH]; [reflexivity|].
  unfold has in *. cbn [existsb]. rewrite IH.
  destruct (Nat.eqb_spec n i); [lia|reflexivity].
Qed.

Lemma cnt_cons i g G : cnt i (g :: G) = ((if has i g then 1 else 0) + cnt i G)%nat.
Proof. unfold cnt. cbn [filter]. now destruct (has i g). Qed.

Lemma cnt_app i G1 G2 : cnt i (G1 ++ G2) = (cnt i G1 + cnt i G2)%nat.
Proof. unfold cnt. now rewrite filter_app, app_length. Qed.

Lemma cnt_repeat_nil i k : cnt i (repeat [] k) = 0%nat.
Proof. induction k as [|k IH]; [reflexivity|]. cbn [repeat]. rewrite cnt_cons, IH. reflexivity. Qed.

Lemma cnt_filter_nonnil i G : cnt i (filter nonnil G) = cnt i G.
Proof.
  induction G as [|g G IH]; [reflexivity|]. cbn [filter].
  destruct g as [|a g].
  - cbn [nonnil isnil negb]. rewrite cnt_cons. exact IH.
  - cbn [nonnil isnil negb]. now rewrite !cnt_cons, IH.
Qed.

Lemma cnt_lt n G : Forall (fun g => Forall (fun i => (i < n)%nat) g) G -> cnt n G = 0%nat.
Proof.
  induction 1 as [|g G Hg HG IH]; [reflexivity|].
  now rewrite cnt_cons, IH, (has_lt n g Hg).
Qed.

Lemma concat_filter_nonnil {X} (G : list (list X)) : concat (filter nonnil G) = concat G.
Proof.
  induction G as [|g G IH]; [reflexivity|]. cbn [filter].
  destruct g as [|a g]; cbn [nonnil isnil negb concat]; [exact IH|now rewrite IH].
Qed.

Lemma Forall2_weaken {X Y} (P Q : X -> Y -> Prop) (l1 : list X) (l2 : list Y) :
  (forall a b, P a b -> Q a b) -> Forall2 P l1 l2 -> Forall2 Q l1 l2.
Proof. intros H. induction 1; constructor; eauto. Qed.

Lemma Forall2_right {X Y} (P : X -> Y -> Prop) (Q : Y -> Prop) (l1 : list X) (l2 : list Y) :
  (forall a b, P a b -> Q b) -> Forall2 P l1 l2 -> Forall Q l2.
Proof. intros H. induction 1; constructor; eauto. Qed.

Section Acc.
  Context {A B C : Type}.
  Variable (acc0 : B) (proc : B -> A -> B) (out : B -> C).

  Local Notation wf := (wfold acc0 proc out).

  (** * P1: session windows *)
  Section SessionProofs.
    Variable gap : Z.
    Let SM : machine (@cin A) (wres C) :=
      Build_machine _ _ (cst (se_mgr acc0 proc out gap)) (cinit (se_mgr acc0 proc out gap))
        (fun s (x : cin) => cstep (se_mgr acc0 proc out gap) s (fst x) (snd x)).

    (** the open session holds exactly the elements [cur] *)
    Definition sinv (w : option (@sslot B)) (cur : list A) : Prop :=
      match w with
      | None => cur = []
      | Some s => cur <> [] /\ ss_acc s = fold_left proc cur acc0
      end.

    Lemma session_gen (t : Z) (e : elem A) (rest : list (@cin A)) :
      e = FAR \/ e = Terminate ->
      forall (l : list (@cin A)) (w : option (@sslot B)) (cur : list A),
        sinv w cur -> cno_end l ->
        exists segs, is_partition (cur ++ cdata l) segs /\
          snd (run_from SM w (l ++ (t, e) :: rest)) = map wf segs ++ run SM rest.
    Proof.
      intros He. induction l as [|[t' e'] l IH]; intros w cur Hw Hne.
      - (* the end-of-round marker *)
        cbn [app run_from]. rewrite app_nil_r.
        change (mstep SM w (t, e)) with (se_step acc0 proc out gap w t e).
        assert (Hstep : se_step acc0 proc out gap w t e =
                 (None, match w with Some s => [(out (ss_acc s), None)] | None => [] end)).
        { unfold se_step. destruct w as [s|].
          - destruct (gap <? t - ss_last s); destruct He; subst e; reflexivity.
          - destruct He; subst e; reflexivity. }
        rewrite Hstep. change (run_from SM None rest) with (run_from SM (minit SM) rest).
        unfold run. destruct (run_from SM (minit SM) rest) as [s2 o2]. cbn [snd].
        destruct w as [s|]; cbn [sinv] in Hw.
        + destruct Hw as [Hc Ha]. exists [cur]. split.
          * split; [cbn [concat]; now rewrite app_nil_r|]. constructor; [assumption|constructor].
          * cbn [map]. unfold wfold. now rewrite Ha.
        + subst cur. exists []. split; [split; [reflexivity|constructor]|reflexivity].
      - pose proof (cno_end_head _ _ _ Hne) as [Hnf Hnt].
        pose proof (cno_end_tail _ _ Hne) as Hne'.
        cbn [app run_from].
        change (mstep SM w (t', e')) with (se_step acc0 proc out gap w t' e').
        destruct (payload e') as [x|] eqn:Hp.
        + (* a data element *)
          rewrite (cdata_cons_data _ _ _ _ Hp).
          assert (Hstep : exists cur' pre,
                   sinv (fst (se_step acc0 proc out gap w t' e')) cur' /\
                   snd (se_step acc0 proc out gap w t' e') = map wf pre /\
                   Forall (fun g => g <> []) pre /\
                   concat pre ++ cur' = cur ++ [x]).
          { unfold se_step. destruct w as [s|]; cbn [sinv] in Hw.
            - destruct Hw as [Hc Ha]. destruct (gap <? t' - ss_last s).
              + exists [x], [cur].
                destruct e'; try discriminate Hp; injection Hp as ->; cbn [fst snd];
                  (split; [split; [discriminate|reflexivity]|]);
                  (split; [cbn [map]; unfold wfold; now rewrite Ha|]);
                  (split; [constructor; [assumption|constructor]|]);
                  cbn [concat]; now rewrite app_nil_r.
              + exists (cur ++ [x]), [].
                destruct e'; try discriminate Hp; injection Hp as ->; cbn [fst snd];
                  (split; [split; [now destruct cur|]; cbn [ss_acc]; rewrite fold_left_app, Ha; reflexivity|]);
                  (split; [reflexivity|]); (split; [constructor|reflexivity]).
            - subst cur. exists [x], [].
              destruct e'; try discriminate Hp; injection Hp as ->; cbn [fst snd];
                (split; [split; [discriminate|reflexivity]|]);
                (split; [reflexivity|]); (split; [constructor|reflexivity]). }
          destruct Hstep as (cur' & pre & Hi & Ho & Hpre & Hcat).
          destruct (se_step acc0 proc out gap w t' e') as [w1 o1]. cbn [fst snd] in *.
          destruct (IH w1 cur' Hi Hne') as (segs & [Hc Hf] & Hrun).
          destruct (run_from SM w1 (l ++ (t, e) :: rest)) as [s2 o2]. cbn [snd] in *.
          exists (pre ++ segs). split.
          * split; [|now apply Forall_app].
            rewrite concat_app, Hc, app_assoc, Hcat, <- app_assoc. reflexivity.
          * now rewrite Ho, Hrun, map_app, app_assoc.
        + (* a control element that is not an end-of-round marker *)
          rewrite (cdata_cons_ctl _ _ _ Hp).
          assert (Hstep : exists cur' pre,
                   sinv (fst (se_step acc0 proc out gap w t' e')) cur' /\
                   snd (se_step acc0 proc out gap w t' e') = map wf pre /\
                   Forall (fun g => g <> []) pre /\
                   concat pre ++ cur' = cur).
          { unfold se_step. destruct w as [s|]; cbn [sinv] in Hw.
            - destruct Hw as [Hc Ha]. destruct (gap <? t' - ss_last s).
              + exists [], [cur].
                destruct e'; try discriminate Hp; try congruence; cbn [fst snd];
                  (split; [reflexivity|]);
                  (split; [cbn [map]; unfold wfold; now rewrite Ha|]);
                  (split; [constructor; [assumption|constructor]|]);
                  cbn [concat]; now rewrite !app_nil_r.
              + exists cur, [].
                destruct e'; try discriminate Hp; try congruence; cbn [fst snd];
                  (split; [split; assumption|]);
                  (split; [reflexivity|]); (split; [constructor|reflexivity]).
            - subst cur. exists [], [].
              destruct e'; try discriminate Hp; try congruence; cbn [fst snd];
                (split; [reflexivity|]);
                (split; [reflexivity|]); (split; [constructor|reflexivity]). }
          destruct Hstep as (cur' & pre & Hi & Ho & Hpre & Hcat).
          destruct (se_step acc0 proc out gap w t' e') as [w1 o1]. cbn [fst snd] in *.
          destruct (IH w1 cur' Hi Hne') as (segs & [Hc Hf] & Hrun).
          destruct (run_from SM w1 (l ++ (t, e) :: rest)) as [s2 o2]. cbn [snd] in *.
          exists (pre ++ segs). split.
          * split; [|now apply Forall_app].
            rewrite concat_app, Hc, app_assoc, Hcat. reflexivity.
          * now rewrite Ho, Hrun, map_app, app_assoc.
    Qed.

    Theorem session_partition :
      forall (l : list (@cin A)) (t : Z) (rest : list (@cin A)),
        cno_end l ->
        exists segs, is_partition (cdata l) segs /\
          run SM (l ++ (t, FAR) :: rest) = map wf segs ++ run SM rest.
    Proof.
      intros l t rest Hne.
      exact (session_gen t FAR rest (or_introl eq_refl) l None [] eq_refl Hne).
    Qed.

    Theorem session_partition_terminate :
      forall (l : list (@cin A)) (t : Z) (rest : list (@cin A)),
        cno_end l ->
        exists segs, is_partition (cdata l) segs /\
          run SM (l ++ (t, Terminate) :: rest) = map wf segs ++ run SM rest.
    Proof.
      intros l t rest Hne.
      exact (session_gen t Terminate rest (or_intror eq_refl) l None [] eq_refl Hne).
    Qed.
  End SessionProofs.

  (** * Processing-time windows: structure of the slot list *)
  Section ProcTime.
    Variable size slide : Z.
    Hypothesis Hslide : 0 < slide.
    Hypothesis Hss : slide <= size.

    Local Notation slotT := (@pslot B).

    (** the slot receives an element read at [now] *)
    Definition infeed (now : Z) (w : slotT) : bool := (now <? p_end w) && (p_start w <=? now).
    Definition updw (x : A) (w : slotT) : slotT :=
      {| p_acc := proc (p_acc w) x; p_start := p_start w; p_end := p_end w; p_active := true |}.
    Definition feedw (now : Z) (x : A) (w : slotT) : slotT :=
      if infeed now w then updw x w else w.
    Definition fresh (s : Z) : slotT :=
      {| p_acc := acc0; p_start := s; p_end := s + size; p_active := false |}.
    Definition isfresh (w : slotT) : Prop := p_acc w = acc0 /\ p_active w = false.

    (** consecutive slots [a, a+size), [a+slide, a+slide+size), ... *)
    Fixpoint chain (a : Z) (ws : list slotT) : Prop :=
      match ws with
      | [] => True
      | w :: ws' => p_start w = a /\ p_end w = a + size /\ chain (a + slide) ws'
      end.
    Definition cend (a : Z) (ws : list slotT) : Z := a + slide * Z.of_nat (length ws).

    Lemma chain_app (ws1 : list slotT) : forall a ws2,
      chain a (ws1 ++ ws2) <-> chain a ws1 /\ chain (cend a ws1) ws2.
    Proof.
      induction ws1 as [|w ws1 IH]; intros a ws2; cbn [app chain].
      - unfold cend. cbn [length]. replace (a + slide * Z.of_nat 0) with a by lia. tauto.
      - rewrite IH. unfold cend. cbn [length].
        replace (a + slide + slide * Z.of_nat (length ws1))
          with (a + slide * Z.of_nat (S (length ws1))) by lia. tauto.
    Qed.

    Lemma cend_app a (ws1 ws2 : list slotT) : cend a (ws1 ++ ws2) = cend (cend a ws1) ws2.
    Proof. unfold cend. rewrite app_length. lia. Qed.

    Lemma feed_id x now : forall (ws : list slotT) a,
      chain a ws -> now < a -> map (feedw now x) ws = ws.
    Proof.
      induction ws as [|w ws IH]; intros a Hc Hlt; [reflexivity|].
      destruct Hc as (Hs & He & Hc). cbn [map]. f_equal.
      - unfold feedw, infeed. destruct (Z.leb_spec (p_start w) now); [lia|].
        now rewrite andb_false_r.
      - apply (IH (a + slide)); [assumption|lia].
    Qed.

    Lemma pfeed_take_map x now : forall (ws : list slotT) a,
      chain a ws -> now < a + size -> pfeed_take proc ws x now = map (feedw now x) ws.
    Proof.
      induction ws as [|w ws IH]; intros a Hc Hlt; [reflexivity|].
      pose proof Hc as (Hs & He & Hc'). cbn [pfeed_take].
      destruct (Z.leb_spec (p_start w) now) as [Hle|Hgt].
      - cbn [map]. f_equal.
        + unfold feedw, infeed. destruct (Z.ltb_spec now (p_end w)); [|lia].
          destruct (Z.leb_spec (p_start w) now); [reflexivity|lia].
        + apply (IH (a + slide)); [assumption|lia].
      - symmetry. apply (feed_id x now (w :: ws) a); [assumption|lia].
    Qed.

    Lemma pfeed_map x now : forall (ws : list slotT) a,
      chain a ws -> pfeed proc ws x now = map (feedw now x) ws.
    Proof.
      induction ws as [|w ws IH]; intros a Hc; [reflexivity|].
      pose proof Hc as (Hs & He & Hc'). cbn [pfeed].
      destruct (Z.leb_spec (p_end w) now) as [Hle|Hgt].
      - cbn [map]. f_equal.
        + unfold feedw, infeed. destruct (Z.ltb_spec now (p_end w)); [lia|reflexivity].
        + apply (IH (a + slide)); assumption.
      - apply (pfeed_take_map x now (w :: ws) a); [assumption|lia].
    Qed.

    Lemma feedw_start now x w : p_start (feedw now x w) = p_start w.
    Proof. unfold feedw. now destruct (infeed now w). Qed.
    Lemma feedw_end now x w : p_end (feedw now x w) = p_end w.
    Proof. unfold feedw. now destruct (infeed now w). Qed.

    Lemma chain_feed now x : forall (ws : list slotT) a,
      chain a ws -> chain a (map (feedw now x) ws).
    Proof.
      induction ws as [|w ws IH]; intros a Hc; [exact I|].
      destruct Hc as (Hs & He & Hc). cbn [map chain].
      rewrite feedw_start, feedw_end. auto.
    Qed.

    (** ** allocation *)
    Lemma plast_snoc (ws : list slotT) w : plast_start (ws ++ [w]) = Some (p_start w).
    Proof. unfold plast_start. now rewrite rev_unit. Qed.

    Lemma plast_cons (w : slotT) ws : ws <> [] -> plast_start (w :: ws) = plast_start ws.
    Proof.
      intros H. unfold plast_start. cbn [rev]. destruct (rev ws) eqn:E; [|reflexivity].
      exfalso. apply H. apply (f_equal (@rev _)) in E. now rewrite rev_involutive in E.
    Qed.

    Lemma plast_chain : forall (ws : list slotT) a,
      chain a ws -> ws <> [] -> plast_start ws = Some (cend a ws - slide).
    Proof.
      induction ws as [|w ws IH]; intros a Hc Hne; [congruence|].
      destruct Hc as (Hs & He & Hc). destruct ws as [|w1 ws].
      - unfold plast_start, cend. cbn [rev app length]. f_equal. lia.
      - rewrite plast_cons by discriminate. rewrite (IH (a + slide) Hc) by discriminate.
        f_equal. unfold cend. cbn [length]. lia.
    Qed.

    Lemma palloc_grow now : forall (f : nat) (ws : list slotT) a,
      chain a ws -> ws <> [] -> now - (cend a ws - slide) < Z.of_nat f * slide ->
      exists ex, palloc acc0 size slide f ws now = ws ++ ex /\ Forall isfresh ex /\
                 chain a (ws ++ ex) /\ now <= cend a (ws ++ ex) - slide.
    Proof.
      induction f as [|f IH]; intros ws a Hc Hne Hf.
      - exists []. rewrite app_nil_r. cbn [palloc]. repeat split; [constructor|assumption|lia].
      - cbn [palloc]. rewrite (plast_chain ws a Hc Hne).
        destruct (Z.ltb_spec (cend a ws - slide) now) as [Hlt|Hge].
        + replace (cend a ws - slide + slide) with (cend a ws) by lia.
          change {| p_acc := acc0; p_start := cend a ws; p_end := cend a ws + size;
                    p_active := false |} with (fresh (cend a ws)).
          assert (Hc1 : chain a (ws ++ [fresh (cend a ws)])).
          { apply chain_app. split; [assumption|]. cbn [chain fresh p_start p_end]. auto. }
          destruct (IH (ws ++ [fresh (cend a ws)]) a Hc1) as (ex & E1 & E2 & E3 & E4).
          * now destruct ws.
          * rewrite cend_app. unfold cend at 1. cbn [length]. lia.
          * exists (fresh (cend a ws) :: ex). rewrite <- app_assoc in E1, E3, E4.
            cbn [app] in E1, E3, E4. repeat split; try assumption.
            constructor; [split; reflexivity|assumption].
        + exists []. rewrite app_nil_r. repeat split; [constructor|assumption|lia].
    Qed.

    Lemma palloc_fuel_ok (ws : list slotT) a now :
      chain a ws -> ws <> [] ->
      now - (cend a ws - slide) < Z.of_nat (palloc_fuel slide ws now) * slide.
    Proof.
      intros Hc Hne. unfold palloc_fuel. rewrite (plast_chain ws a Hc Hne).
      set (d := now - (cend a ws - slide)).
      replace (Z.max slide 1) with slide by lia.
      rewrite Nat2Z.inj_add, Z2Nat.id.
      - change (Z.of_nat 2) with 2. destruct (Z.max_spec d 0) as [[Hd ->]|[Hd ->]].
        + rewrite Z.quot_0_l by lia. lia.
        + rewrite Z.quot_div_nonneg by lia.
          pose proof (Z.mod_pos_bound d slide Hslide). pose proof (Z.div_mod d slide). nia.
      - apply Z.quot_pos; lia.
    Qed.

    (** the slot list is empty or a chain whose first slot started in the past *)
    Definition wfc (clk : Z) (ws : list slotT) : Prop :=
      ws = [] \/ exists a, a <= clk /\ chain a ws.

    Lemma palloc_inv (ws : list slotT) clk now :
      wfc clk ws -> clk <= now ->
      exists ex a, palloc acc0 size slide (palloc_fuel slide ws now) ws now = ws ++ ex /\
                   Forall isfresh ex /\ chain a (ws ++ ex) /\ a <= now /\ ws ++ ex <> [] /\
                   now <= cend a (ws ++ ex) - slide.
    Proof.
      intros [->|(a & Ha & Hc)] Hclk.
      - exists [fresh now], now. cbn [app]. repeat split.
        + unfold palloc_fuel. cbn [plast_start rev palloc].
          change (plast_start ([] ++ [ {| p_acc := acc0; p_start := now; p_end := now + size;
                                          p_active := false |} ])) with (Some now).
          cbv beta iota. now rewrite Z.ltb_irrefl.
        + constructor; [split; reflexivity|constructor].
        + lia.
        + discriminate.
        + unfold cend. cbn [length]. lia.
      - destruct ws as [|w ws].
        + exists [fresh now], now. cbn [app]. repeat split.
          * unfold palloc_fuel. cbn [plast_start rev palloc].
            change (plast_start ([] ++ [ {| p_acc := acc0; p_start := now; p_end := now + size;
                                            p_active := false |} ])) with (Some now).
            cbv beta iota. now rewrite Z.ltb_irrefl.
          * constructor; [split; reflexivity|constructor].
          * lia.
          * discriminate.
          * unfold cend. cbn [length]. lia.
        + assert (Hne : w :: ws <> []) by discriminate.
          destruct (palloc_grow now _ _ a Hc Hne (palloc_fuel_ok _ a now Hc Hne))
            as (ex & E1 & E2 & E3 & E4).
          exists ex, a. split; [assumption|]. split; [assumption|]. split; [assumption|].
          split; [lia|]. split; [discriminate|assumption].
    Qed.

    (** ** how many slots receive an element *)
    Definition nfed (now : Z) (ws : list slotT) : nat := length (filter (infeed now) ws).
    Definition bound : Z := (size + slide - 1) / slide.

    Lemma nfed_upper1 now : forall (ws : list slotT) a,
      chain a ws -> now - size < a ->
      Z.of_nat (nfed now ws) * slide <= Z.max 0 (now - a + slide).
    Proof.
      induction ws as [|w ws IH]; intros a Hc Ha; [cbn; lia|].
      destruct Hc as (Hs & He & Hc). specialize (IH (a + slide) Hc).
      unfold nfed in *. cbn [filter]. unfold infeed at 1.
      destruct (Z.ltb_spec now (p_end w)); destruct (Z.leb_spec (p_start w) now);
        cbn [andb length]; try lia.
    Qed.

    Lemma nfed_upper now : forall (ws : list slotT) a,
      chain a ws -> Z.of_nat (nfed now ws) <= bound.
    Proof.
      induction ws as [|w ws IH]; intros a Hc.
      - unfold bound. cbn. apply Z.div_pos; lia.
      - destruct (Z_lt_le_dec (now - size) a) as [Hlt|Hge].
        + pose proof (nfed_upper1 now (w :: ws) a Hc Hlt) as H.
          unfold bound. apply Z.div_le_lower_bound; [assumption|]. lia.
        + destruct Hc as (Hs & He & Hc). specialize (IH (a + slide) Hc).
          unfold nfed in *. cbn [filter]. unfold infeed at 1.
          destruct (Z.ltb_spec now (p_end w)); [lia|]. cbn [andb]. exact IH.
    Qed.

    Lemma nfed_lower now : forall (ws : list slotT) a,
      chain a ws -> ws <> [] -> a <= now -> now <= cend a ws - slide ->
      (1 <= nfed now ws)%nat.
    Proof.
      induction ws as [|w ws IH]; intros a Hc Hne Ha Hl; [congruence|].
      destruct Hc as (Hs & He & Hc).
      unfold nfed in *. cbn [filter]. unfold infeed at 1.
      destruct (Z.leb_spec (p_start w) now); [|lia].
      destruct (Z.ltb_spec now (p_end w)); cbn [andb length]; [lia|].
      apply (IH (a + slide) Hc).
      - intros ->. unfold cend in Hl. cbn [length] in Hl. lia.
      - lia.
      - unfold cend in *. cbn [length] in Hl. lia.
    Qed.

    (** ** firing *)
    Lemma pfire_split now : forall (ws : list slotT) a f r,
      chain a ws -> a <= now -> pfire ws now = (f, r) ->
      ws = f ++ r /\ wfc now r.
    Proof.
      induction ws as [|w ws IH]; intros a f r Hc Ha E; cbn [pfire] in E.
      - injection E as <- <-. split; [reflexivity|now left].
      - pose proof Hc as (Hs & He & Hc').
        destruct (Z.ltb_spec (p_end w) now).
        + destruct (pfire ws now) as [f1 r1] eqn:E1. injection E as <- <-.
          destruct (IH (a + slide) f1 r1 Hc') as [-> Hw]; [lia|reflexivity|].
          split; [reflexivity|assumption].
        + injection E as <- <-. split; [reflexivity|]. right. exists a. split; assumption.
    Qed.

    (** ** P3: every slot holds the fold of an increasing list of positions *)
    Definition slot_ok (xs : list A) (w : slotT) (g : list nat) : Prop :=
      p_acc w = fold_left proc (pick xs g) acc0 /\ p_active w = nonnil g /\
      increasing g /\ Forall (fun i => (i < length xs)%nat) g.

    Fixpoint gfeed (now : Z) (n : nat) (ws : list slotT) (gs : list (list nat)) : list (list nat) :=
      match ws, gs with
      | w :: ws', g :: gs' => (if infeed now w then g ++ [n] else g) :: gfeed now n ws' gs'
      | _, _ => []
      end.

    Lemma slot_ok_ext xs ys w g : slot_ok xs w g -> slot_ok (xs ++ ys) w g.
    Proof.
      intros (H1 & H2 & H3 & H4). repeat split; try assumption.
      - now rewrite pick_ext.
      - eapply Forall_impl; [|exact H4]. cbv beta. intros i Hi. rewrite app_length. lia.
    Qed.

    Lemma slot_ok_fresh xs w : isfresh w -> slot_ok xs w [].
    Proof. intros [H1 H2]. repeat split; try assumption; constructor. Qed.

    Lemma feed_ok xs x now ws gs :
      Forall2 (slot_ok xs) ws gs ->
      Forall2 (slot_ok (xs ++ [x])) (map (feedw now x) ws) (gfeed now (length xs) ws gs).
    Proof.
      induction 1 as [|w g ws gs Hw Hr IH]; [constructor|].
      cbn [map gfeed]. constructor; [|exact IH].
      unfold feedw. destruct (infeed now w).
      - destruct Hw as (H1 & H2 & H3 & H4). repeat split.
        + cbn [updw p_acc]. rewrite pick_snoc by assumption.
          rewrite fold_left_app. cbn [fold_left]. now rewrite H1.
        + now destruct g.
        + now apply incr_snoc.
        + apply Forall_app. split.
          * eapply Forall_impl; [|exact H4]. cbv beta. intros i Hi. rewrite app_length. cbn. lia.
          * constructor; [|constructor]. rewrite app_length. cbn. lia.
      - now apply slot_ok_ext.
    Qed.

    Lemma results_ok xs ws gs :
      Forall2 (slot_ok xs) ws gs ->
      presults out ws = map (fun g => wf (pick xs g)) (filter nonnil gs).
    Proof.
      induction 1 as [|w g ws gs Hw Hr IH]; [reflexivity|].
      unfold presults in *. cbn [filter]. destruct Hw as (H1 & H2 & _). rewrite H2.
      destruct (nonnil g); [|exact IH]. cbn [map]. f_equal; [|exact IH].
      unfold wfold. now rewrite H1.
    Qed.

    Lemma feed_cnt_new xs now ws gs :
      Forall2 (slot_ok xs) ws gs ->
      cnt (length xs) (gfeed now (length xs) ws gs) = nfed now ws.
    Proof.
      induction 1 as [|w g ws gs Hw Hr IH]; [reflexivity|].
      cbn [gfeed]. rewrite cnt_cons, IH. unfold nfed. cbn [filter].
      destruct Hw as (_ & _ & _ & H4). destruct (infeed now w).
      - rewrite has_snoc, Nat.eqb_refl, orb_true_r. reflexivity.
      - now rewrite (has_lt _ _ H4).
    Qed.

    Lemma feed_cnt_old xs i now n ws gs :
      Forall2 (slot_ok xs) ws gs -> i <> n -> cnt i (gfeed now n ws gs) = cnt i gs.
    Proof.
      intros H Hi. induction H as [|w g ws gs Hw Hr IH]; [reflexivity|].
      cbn [gfeed]. rewrite !cnt_cons, IH. destruct (infeed now w); [|reflexivity].
      rewrite has_snoc. destruct (Nat.eqb_spec i n); [congruence|]. now rewrite orb_false_r.
    Qed.

    Definition GInv (n : nat) (G : list (list nat)) : Prop :=
      Forall (fun g => increasing g /\ Forall (fun i => (i < n)%nat) g) G /\
      forall i, (i < n)%nat -> 1 <= Z.of_nat (cnt i G) <= bound.

    Lemma GInv_covers n G : GInv n G -> covers n (filter nonnil G) bound.
    Proof.
      intros [H1 H2]. split.
      - apply Forall_forall. intros g Hg. apply filter_In in Hg. destruct Hg as [Hg Hn].
        rewrite Forall_forall in H1. destruct (H1 g Hg). split; [now apply nonnil_true|now split].
      - intros i Hi. cbv zeta. fold (has i). fold (cnt i (filter nonnil G)).
        rewrite cnt_filter_nonnil. now apply H2.
    Qed.

    Lemma GInv_alloc n dn gs k : GInv n (dn ++ gs) -> GInv n (dn ++ gs ++ repeat [] k).
    Proof.
      intros [H1 H2]. split.
      - rewrite app_assoc. apply Forall_app. split; [assumption|].
        apply Forall_forall. intros g Hg. apply repeat_spec in Hg. subst g. split; [exact I|constructor].
      - intros i Hi. rewrite app_assoc, cnt_app, cnt_repeat_nil, Nat.add_0_r. now apply H2.
    Qed.

    Lemma GInv_feed xs x now dn ws gs :
      Forall2 (slot_ok xs) ws gs -> GInv (length xs) (dn ++ gs) ->
      (1 <= nfed now ws)%nat -> Z.of_nat (nfed now ws) <= bound ->
      GInv (length (xs ++ [x])) (dn ++ gfeed now (length xs) ws gs).
    Proof.
      intros HF [H1 H2] Hlo Hhi. apply Forall_app in H1. destruct H1 as [Hdn Hgs].
      split.
      - apply Forall_app. split.
        + eapply Forall_impl; [|exact Hdn]. cbv beta. intros g [Ha Hb]. split; [assumption|].
          eapply Forall_impl; [|exact Hb]. cbv beta. intros i Hi. rewrite app_length. lia.
        + eapply Forall2_right; [|exact (feed_ok xs x now ws gs HF)].
          cbv beta. intros a b (_ & _ & Hc & Hd). now split.
      - intros i Hi. rewrite app_length in Hi. cbn [length] in Hi. rewrite cnt_app.
        destruct (Nat.eq_dec i (length xs)) as [->|Hne].
        + rewrite (feed_cnt_new xs now ws gs HF). rewrite cnt_lt; [lia|].
          eapply Forall_impl; [|exact Hdn]. cbv beta. now intros g [_ Hb].
        + rewrite (feed_cnt_old xs i now _ ws gs HF Hne). rewrite <- cnt_app. apply H2. lia.
    Qed.

    Lemma wfc_mono clk now (ws : list slotT) : wfc clk ws -> clk <= now -> wfc now ws.
    Proof. intros [->|(a & Ha & Hc)] H; [now left|]. right. exists a. split; [lia|assumption]. Qed.

    Lemma fire_phase xs ws gs now :
      Forall2 (slot_ok xs) ws gs -> wfc now ws ->
      forall f r, pfire ws now = (f, r) ->
      exists gf gr, gs = gf ++ gr /\ Forall2 (slot_ok xs) r gr /\ wfc now r /\
        presults out f = map (fun g => wf (pick xs g)) (filter nonnil gf) /\
        Forall (fun g => Forall (fun i => (i < length xs)%nat) g) gf.
    Proof.
      intros HF Hw f r E. destruct Hw as [->|(a & Ha & Hc)].
      - inversion HF; subst. cbn [pfire] in E. injection E as <- <-.
        exists [], []. repeat split; [constructor|now left|constructor].
      - destruct (pfire_split now ws a f r Hc Ha E) as [-> Hr].
        apply Forall2_app_inv_l in HF. destruct HF as (gf & gr & Hf & Hg & ->).
        exists gf, gr. repeat split; try assumption.
        + now apply results_ok.
        + eapply Forall2_right; [|exact Hf]. cbv beta. now intros a0 b (_ & _ & _ & Hd).
    Qed.

    Local Notation PT := (cm_machine (pt_mgr acc0 proc out size slide)).

    Lemma pt_step_data (ws : list slotT) now (e : elem A) x :
      payload e = Some x ->
      pt_step acc0 proc out size slide ws now e =
        let '(f, r) := pfire (pfeed proc (palloc acc0 size slide (palloc_fuel slide ws now) ws now) x now) now in
        (r, presults out f).
    Proof. intros H. destruct e; try discriminate H; injection H as ->; reflexivity. Qed.

    Lemma pt_step_ctl (ws : list slotT) now (e : elem A) :
      payload e = None -> e <> FAR -> e <> Terminate ->
      pt_step acc0 proc out size slide ws now e =
        let '(f, r) := pfire ws now in (r, presults out f).
    Proof. intros H H1 H2. destruct e; try discriminate H; try congruence; reflexivity. Qed.

    Lemma pt_step_inv clk xs ws gs dn now (e : elem A) :
      Forall2 (slot_ok xs) ws gs -> wfc clk ws -> GInv (length xs) (dn ++ gs) ->
      clk <= now -> e <> FAR -> e <> Terminate ->
      forall xs', xs' = match payload e with Some x => xs ++ [x] | None => xs end ->
      exists gf gr,
        Forall2 (slot_ok xs') (fst (pt_step acc0 proc out size slide ws now e)) gr /\
        wfc now (fst (pt_step acc0 proc out size slide ws now e)) /\
        GInv (length xs') ((dn ++ gf) ++ gr) /\
        snd (pt_step acc0 proc out size slide ws now e) =
          map (fun g => wf (pick xs' g)) (filter nonnil gf) /\
        Forall (fun g => Forall (fun i => (i < length xs')%nat) g) gf.
    Proof.
      intros HF Hw HG Hclk Hnf Hnt xs' ->. destruct (payload e) as [x|] eqn:Hp.
      - rewrite (pt_step_data ws now e x Hp).
        destruct (palloc_inv ws clk now Hw Hclk) as (ex & a & E1 & E2 & E3 & E4 & E5 & E6).
        rewrite E1. rewrite (pfeed_map x now (ws ++ ex) a E3).
        set (gs1 := gs ++ repeat [] (length ex)).
        assert (HF1 : Forall2 (slot_ok xs) (ws ++ ex) gs1).
        { apply Forall2_app; [assumption|]. clear -E2. induction E2 as [|w ex Hw He IH]; [constructor|].
          cbn [length repeat]. constructor; [now apply slot_ok_fresh|exact IH]. }
        assert (HG1 : GInv (length xs) (dn ++ gs1)) by (now apply GInv_alloc).
        pose proof (feed_ok xs x now _ _ HF1) as HF2.
        pose proof (GInv_feed xs x now dn _ _ HF1 HG1
                      (nfed_lower now _ a E3 E5 E4 E6) (nfed_upper now _ a E3)) as HG2.
        assert (Hw2 : wfc now (map (feedw now x) (ws ++ ex))).
        { right. exists a. split; [assumption|now apply chain_feed]. }
        destruct (pfire (map (feedw now x) (ws ++ ex)) now) as [f r] eqn:E.
        destruct (fire_phase _ _ _ now HF2 Hw2 f r E) as (gf & gr & Eg & K1 & K2 & K3 & K4).
        exists gf, gr. cbn [fst snd]. rewrite <- app_assoc, <- Eg. auto.
      - rewrite (pt_step_ctl ws now e Hp Hnf Hnt).
        destruct (pfire ws now) as [f r] eqn:E.
        destruct (fire_phase _ _ _ now HF (wfc_mono _ _ _ Hw Hclk) f r E)
          as (gf & gr & Eg & K1 & K2 & K3 & K4).
        exists gf, gr. cbn [fst snd]. rewrite <- app_assoc, <- Eg. auto.
    Qed.

    Lemma pt_gen (t : Z) (e : elem A) (rest : list (@cin A)) :
      e = FAR \/ e = Terminate ->
      forall (l : list (@cin A)) clk xs ws gs dn,
        Forall2 (slot_ok xs) ws gs -> wfc clk ws -> GInv (length xs) (dn ++ gs) ->
        cno_end l -> clock_mono clk (l ++ [(t, e)]) ->
        exists more,
          covers (length (xs ++ cdata l)) (filter nonnil dn ++ more) bound /\
          snd (run_from PT ws (l ++ (t, e) :: rest)) =
            map (fun g => wf (pick (xs ++ cdata l) g)) more ++ run PT rest.
    Proof.
      intros He. induction l as [|[t' e'] l IH]; intros clk xs ws gs dn HF Hw HG Hne Hmono.
      - cbn [app run_from].
        change (mstep PT ws (t, e)) with (pt_step acc0 proc out size slide ws t e).
        assert (Hstep : pt_step acc0 proc out size slide ws t e = ([], presults out ws))
          by (destruct He; subst e; reflexivity).
        rewrite Hstep. change (run_from PT [] rest) with (run_from PT (minit PT) rest).
        unfold run. destruct (run_from PT (minit PT) rest) as [s2 o2]. cbn [snd].
        exists (filter nonnil gs). unfold cdata. cbn [map payloads]. rewrite app_nil_r. split.
        + rewrite <- filter_app. now apply GInv_covers.
        + now rewrite (results_ok xs ws gs HF).
      - pose proof (cno_end_head _ _ _ Hne) as [Hnf Hnt].
        pose proof (cno_end_tail _ _ Hne) as Hne'.
        cbn [app clock_mono] in Hmono. destruct Hmono as [Hclk Hmono].
        cbn [app run_from].
        change (mstep PT ws (t', e')) with (pt_step acc0 proc out size slide ws t' e').
        set (xs' := match payload e' with Some x => xs ++ [x] | None => xs end).
        assert (Hxs : xs ++ cdata (@cons (@cin A) (t', e') l) = xs' ++ cdata l).
        { subst xs'. destruct (payload e') as [x|] eqn:Hp.
          - rewrite (cdata_cons_data _ _ _ _ Hp), <- app_assoc. reflexivity.
          - now rewrite (cdata_cons_ctl _ _ _ Hp). }
        destruct (pt_step_inv clk xs ws gs dn t' e' HF Hw HG Hclk Hnf Hnt xs' eq_refl)
          as (gf & gr & K1 & K2 & K3 & K4 & K5).
        destruct (pt_step acc0 proc out size slide ws t' e') as [ws1 o1]. cbn [fst snd] in *.
        destruct (IH t' xs' ws1 gr (dn ++ gf) K1 K2 K3 Hne' Hmono) as (more & M1 & M2).
        destruct (run_from PT ws1 (l ++ (t, e) :: rest)) as [s2 o2]. cbn [snd] in *.
        exists (filter nonnil gf ++ more). rewrite Hxs. split.
        + rewrite filter_app, <- app_assoc in M1. exact M1.
        + rewrite M2, K4, map_app, <- app_assoc. f_equal.
          apply map_ext_in. intros g Hg. apply filter_In in Hg. destruct Hg as [Hg _].
          rewrite Forall_forall in K5. now rewrite (pick_ext xs' (cdata l) g (K5 g Hg)).
    Qed.

    Let PM' : machine (@cin A) (wres C) :=
      Build_machine _ _ (cst (pt_mgr acc0 proc out size slide)) (cinit (pt_mgr acc0 proc out size slide))
        (fun s (x : cin) => cstep (pt_mgr acc0 proc out size slide) s (fst x) (snd x)).

    Theorem proctime_sliding_cover :
      forall (l : list (@cin A)) (t0 t : Z) (rest : list (@cin A)),
        cno_end l -> clock_mono t0 (l ++ [(t, FAR)]) ->
        exists groups,
          covers (length (cdata l)) groups ((size + slide - 1) / slide) /\
          run PM' (l ++ (t, FAR) :: rest) =
            map (fun g => wf (pick (cdata l) g)) groups ++ run PM' rest.
    Proof.
      intros l t0 t rest Hne Hmono.
      destruct (pt_gen t FAR rest (or_introl eq_refl) l t0 [] [] [] [])
        as (more & M1 & M2); try assumption.
      - constructor.
      - now left.
      - split; [constructor|]. intros i Hi. inversion Hi.
      - exists more. split; [exact M1|exact M2].
    Qed.

    Theorem proctime_sliding_cover_terminate :
      forall (l : list (@cin A)) (t0 t : Z) (rest : list (@cin A)),
        cno_end l -> clock_mono t0 (l ++ [(t, Terminate)]) ->
        exists groups,
          covers (length (cdata l)) groups ((size + slide - 1) / slide) /\
          run PM' (l ++ (t, Terminate) :: rest) =
            map (fun g => wf (pick (cdata l) g)) groups ++ run PM' rest.
    Proof.
      intros l t0 t rest Hne Hmono.
      destruct (pt_gen t Terminate rest (or_intror eq_refl) l t0 [] [] [] [])
        as (more & M1 & M2); try assumption.
      - constructor.
      - now left.
      - split; [constructor|]. intros i Hi. inversion Hi.
      - exists more. split; [exact M1|exact M2].
    Qed.

    (** ** P2: tumbling windows ([slide = size]): every slot holds a consecutive segment *)
    Definition slot_ok2 (clk : Z) (w : slotT) (g : list A) : Prop :=
      p_acc w = fold_left proc g acc0 /\ p_active w = nonnil g /\ (g <> [] -> p_start w <= clk).

    Fixpoint vfeed (now : Z) (x : A) (ws : list slotT) (gs : list (list A)) : list (list A) :=
      match ws, gs with
      | w :: ws', g :: gs' => (if infeed now w then g ++ [x] else g) :: vfeed now x ws' gs'
      | _, _ => []
      end.

    Lemma slot_ok2_mono clk now w g : clk <= now -> slot_ok2 clk w g -> slot_ok2 now w g.
    Proof. intros H (H1 & H2 & H3). repeat split; try assumption. intros Hg. specialize (H3 Hg). lia. Qed.

    Lemma slot_ok2_fresh clk w : isfresh w -> slot_ok2 clk w [].
    Proof. intros [H1 H2]. repeat split; try assumption. congruence. Qed.

    Lemma vfeed_ok clk now x ws gs :
      clk <= now -> Forall2 (slot_ok2 clk) ws gs ->
      Forall2 (slot_ok2 now) (map (feedw now x) ws) (vfeed now x ws gs).
    Proof.
      intros Hclk. induction 1 as [|w g ws gs Hw Hr IH]; [constructor|].
      cbn [map vfeed]. constructor; [|exact IH].
      unfold feedw. destruct (infeed now w) eqn:E.
      - destruct Hw as (H1 & H2 & H3). repeat split.
        + cbn [updw p_acc]. rewrite fold_left_app. cbn [fold_left]. now rewrite H1.
        + now destruct g.
        + intros _. cbn [updw p_start]. unfold infeed in E.
          apply andb_true_iff in E. destruct E as [_ E]. now apply Z.leb_le in E.
      - now apply (slot_ok2_mono clk).
    Qed.

    Lemma results_ok2 clk ws gs :
      Forall2 (slot_ok2 clk) ws gs -> presults out ws = map wf (filter nonnil gs).
    Proof.
      induction 1 as [|w g ws gs Hw Hr IH]; [reflexivity|].
      unfold presults in *. cbn [filter]. destruct Hw as (H1 & H2 & _). rewrite H2.
      destruct (nonnil g); [|exact IH]. cbn [map]. f_equal; [|exact IH].
      unfold wfold. now rewrite H1.
    Qed.

    (** slots that start after [now] are empty and receive nothing *)
    Lemma vfeed_after clk now x : forall ws gs a,
      chain a ws -> now < a -> clk <= now -> Forall2 (slot_ok2 clk) ws gs ->
      vfeed now x ws gs = gs /\ concat gs = [].
    Proof.
      induction ws as [|w ws IH]; intros gs a Hc Ha Hclk HF; inversion HF as [|? g ? gs' Hw Hr]; subst.
      - now split.
      - destruct Hc as (Hs & He & Hc).
        destruct (IH gs' (a + slide) Hc) as [I1 I2]; [lia|assumption|assumption|].
        cbn [vfeed concat]. rewrite I1, I2.
        assert (Hg : g = []).
        { destruct g as [|y g]; [reflexivity|]. destruct Hw as (_ & _ & H3).
          assert (p_start w <= clk) by (apply H3; discriminate). lia. }
        subst g. unfold infeed. destruct (Z.leb_spec (p_start w) now); [lia|].
        rewrite andb_false_r. now split.
    Qed.

    Lemma vfeed_concat (Heq : slide = size) clk now x : forall ws gs a,
      chain a ws -> Forall2 (slot_ok2 clk) ws gs -> clk <= now -> a <= now ->
      ws <> [] -> now <= cend a ws - slide ->
      concat (vfeed now x ws gs) = concat gs ++ [x].
    Proof.
      induction ws as [|w ws IH]; intros gs a Hc HF Hclk Ha Hne Hl; [congruence|].
      inversion HF as [|? g ? gs' Hw Hr]; subst. pose proof Hc as (Hs & He & Hc').
      cbn [vfeed concat]. unfold infeed.
      destruct (Z.ltb_spec now (p_end w)) as [Hlt|Hge].
      - destruct (Z.leb_spec (p_start w) now); [|lia]. cbn [andb].
        destruct (vfeed_after clk now x ws gs' (a + slide) Hc') as [I1 I2];
          [lia|assumption|assumption|].
        rewrite I1, I2, !app_nil_r. reflexivity.
      - cbn [andb]. rewrite (IH gs' (a + slide) Hc' Hr Hclk).
        + now rewrite app_assoc.
        + lia.
        + intros ->. unfold cend in Hl. cbn [length] in Hl. lia.
        + unfold cend in *. cbn [length] in Hl. lia.
    Qed.

    Lemma fire_phase2 clk ws gs now :
      Forall2 (slot_ok2 clk) ws gs -> wfc now ws ->
      forall f r, pfire ws now = (f, r) ->
      exists gf gr, gs = gf ++ gr /\ Forall2 (slot_ok2 clk) r gr /\ wfc now r /\
        presults out f = map wf (filter nonnil gf).
    Proof.
      intros HF Hw f r E. destruct Hw as [->|(a & Ha & Hc)].
      - inversion HF; subst. cbn [pfire] in E. injection E as <- <-.
        exists [], []. repeat split; [constructor|now left].
      - destruct (pfire_split now ws a f r Hc Ha E) as [-> Hr].
        apply Forall2_app_inv_l in HF. destruct HF as (gf & gr & Hf & Hg & ->).
        exists gf, gr. repeat split; try assumption. now apply (results_ok2 clk).
    Qed.

    Lemma concat_repeat_nil {X} k : concat (repeat (@nil X) k) = [].
    Proof. induction k; [reflexivity|exact IHk]. Qed.

    Lemma pt_step_inv2 (Heq : slide = size) clk xs ws gs dn now (e : elem A) :
      Forall2 (slot_ok2 clk) ws gs -> wfc clk ws -> concat (dn ++ gs) = xs ->
      clk <= now -> e <> FAR -> e <> Terminate ->
      forall xs', xs' = match payload e with Some x => xs ++ [x] | None => xs end ->
      exists gf gr,
        Forall2 (slot_ok2 now) (fst (pt_step acc0 proc out size slide ws now e)) gr /\
        wfc now (fst (pt_step acc0 proc out size slide ws now e)) /\
        concat ((dn ++ gf) ++ gr) = xs' /\
        snd (pt_step acc0 proc out size slide ws now e) = map wf (filter nonnil gf).
    Proof.
      intros HF Hw HG Hclk Hnf Hnt xs' ->. destruct (payload e) as [x|] eqn:Hp.
      - rewrite (pt_step_data ws now e x Hp).
        destruct (palloc_inv ws clk now Hw Hclk) as (ex & a & E1 & E2 & E3 & E4 & E5 & E6).
        rewrite E1. rewrite (pfeed_map x now (ws ++ ex) a E3).
        set (gs1 := gs ++ repeat [] (length ex)).
        assert (HF1 : Forall2 (slot_ok2 clk) (ws ++ ex) gs1).
        { apply Forall2_app; [assumption|]. clear -E2. induction E2 as [|w ex Hw He IH]; [constructor|].
          cbn [length repeat]. constructor; [now apply slot_ok2_fresh|exact IH]. }
        assert (HG1 : concat gs1 = concat gs).
        { subst gs1. now rewrite concat_app, concat_repeat_nil, app_nil_r. }
        pose proof (vfeed_ok clk now x _ _ Hclk HF1) as HF2.
        pose proof (vfeed_concat Heq clk now x _ _ a E3 HF1 Hclk E4 E5 E6) as HG2.
        assert (Hw2 : wfc now (map (feedw now x) (ws ++ ex))).
        { right. exists a. split; [assumption|now apply chain_feed]. }
        destruct (pfire (map (feedw now x) (ws ++ ex)) now) as [f r] eqn:E.
        destruct (fire_phase2 _ _ _ now HF2 Hw2 f r E) as (gf & gr & Eg & K1 & K2 & K3).
        exists gf, gr. cbn [fst snd]. rewrite <- app_assoc, <- Eg.
        split; [assumption|]. split; [assumption|]. split; [|assumption].
        rewrite concat_app, HG2, HG1, app_assoc, <- concat_app, HG. reflexivity.
      - rewrite (pt_step_ctl ws now e Hp Hnf Hnt).
        destruct (pfire ws now) as [f r] eqn:E.
        assert (HF1 : Forall2 (slot_ok2 now) ws gs).
        { eapply Forall2_weaken; [|exact HF]. intros a b. now apply slot_ok2_mono. }
        destruct (fire_phase2 _ _ _ now HF1 (wfc_mono _ _ _ Hw Hclk) f r E)
          as (gf & gr & Eg & K1 & K2 & K3).
        exists gf, gr. cbn [fst snd]. rewrite <- app_assoc, <- Eg. auto.
    Qed.

    Lemma pt_gen2 (Heq : slide = size) (t : Z) (e : elem A) (rest : list (@cin A)) :
      e = FAR \/ e = Terminate ->
      forall (l : list (@cin A)) clk xs ws gs dn,
        Forall2 (slot_ok2 clk) ws gs -> wfc clk ws -> concat (dn ++ gs) = xs ->
        cno_end l -> clock_mono clk (l ++ [(t, e)]) ->
        exists more,
          is_partition (xs ++ cdata l) (filter nonnil dn ++ more) /\
          snd (run_from PT ws (l ++ (t, e) :: rest)) = map wf more ++ run PT rest.
    Proof.
      intros He. induction l as [|[t' e'] l IH]; intros clk xs ws gs dn HF Hw HG Hne Hmono.
      - cbn [app run_from].
        change (mstep PT ws (t, e)) with (pt_step acc0 proc out size slide ws t e).
        assert (Hstep : pt_step acc0 proc out size slide ws t e = ([], presults out ws))
          by (destruct He; subst e; reflexivity).
        rewrite Hstep. change (run_from PT [] rest) with (run_from PT (minit PT) rest).
        unfold run. destruct (run_from PT (minit PT) rest) as [s2 o2]. cbn [snd].
        exists (filter nonnil gs). unfold cdata. cbn [map payloads]. rewrite app_nil_r. split.
        + rewrite <- filter_app. split; [now rewrite concat_filter_nonnil|].
          apply Forall_forall. intros g Hg. apply filter_In in Hg. now apply nonnil_true.
        + now rewrite (results_ok2 clk ws gs HF).
      - pose proof (cno_end_head _ _ _ Hne) as [Hnf Hnt].
        pose proof (cno_end_tail _ _ Hne) as Hne'.
        cbn [app clock_mono] in Hmono. destruct Hmono as [Hclk Hmono].
        cbn [app run_from].
        change (mstep PT ws (t', e')) with (pt_step acc0 proc out size slide ws t' e').
        set (xs' := match payload e' with Some x => xs ++ [x] | None => xs end).
        assert (Hxs : xs ++ cdata (@cons (@cin A) (t', e') l) = xs' ++ cdata l).
        { subst xs'. destruct (payload e') as [x|] eqn:Hp.
          - rewrite (cdata_cons_data _ _ _ _ Hp), <- app_assoc. reflexivity.
          - now rewrite (cdata_cons_ctl _ _ _ Hp). }
        destruct (pt_step_inv2 Heq clk xs ws gs dn t' e' HF Hw HG Hclk Hnf Hnt xs' eq_refl)
          as (gf & gr & K1 & K2 & K3 & K4).
        destruct (pt_step acc0 proc out size slide ws t' e') as [ws1 o1]. cbn [fst snd] in *.
        destruct (IH t' xs' ws1 gr (dn ++ gf) K1 K2 K3 Hne' Hmono) as (more & M1 & M2).
        destruct (run_from PT ws1 (l ++ (t, e) :: rest)) as [s2 o2]. cbn [snd] in *.
        exists (filter nonnil gf ++ more). rewrite Hxs. split.
        + rewrite filter_app, <- app_assoc in M1. exact M1.
        + now rewrite M2, K4, map_app, <- app_assoc.
    Qed.

    Lemma proctime_tumbling_gen (Heq : slide = size) (e : elem A) :
      e = FAR \/ e = Terminate ->
      forall (l : list (@cin A)) (t0 t : Z) (rest : list (@cin A)),
        cno_end l -> clock_mono t0 (l ++ [(t, e)]) ->
        exists segs, is_partition (cdata l) segs /\
          run PT (l ++ (t, e) :: rest) = map wf segs ++ run PT rest.
    Proof.
      intros He l t0 t rest Hne Hmono.
      destruct (pt_gen2 Heq t e rest He l t0 [] [] [] []) as (more & M1 & M2); try assumption.
      - constructor.
      - now left.
      - reflexivity.
      - exists more. split; [exact M1|exact M2].
    Qed.
  End ProcTime.

  Section Tumbling.
    Variable size : Z.
    Hypothesis Hsize : 0 < size.
    Let PM : machine (@cin A) (wres C) :=
      Build_machine _ _ (cst (pt_mgr acc0 proc out size size)) (cinit (pt_mgr acc0 proc out size size))
        (fun s (x : cin) => cstep (pt_mgr acc0 proc out size size) s (fst x) (snd x)).

    Theorem proctime_tumbling_partition :
      forall (l : list (@cin A)) (t0 t : Z) (rest : list (@cin A)),
        cno_end l -> clock_mono t0 (l ++ [(t, FAR)]) ->
        exists segs, is_partition (cdata l) segs /\
          run PM (l ++ (t, FAR) :: rest) = map wf segs ++ run PM rest.
    Proof.
      intros l t0 t rest H1 H2.
      exact (proctime_tumbling_gen size size Hsize (Z.le_refl size) eq_refl FAR
               (or_introl eq_refl) l t0 t rest H1 H2).
    Qed.

    Theorem proctime_tumbling_partition_terminate :
      forall (l : list (@cin A)) (t0 t : Z) (rest : list (@cin A)),
        cno_end l -> clock_mono t0 (l ++ [(t, Terminate)]) ->
        exists segs, is_partition (cdata l) segs /\
          run PM (l ++ (t, Terminate) :: rest) = map wf segs ++ run PM rest.
    Proof.
      intros l t0 t rest H1 H2.
      exact (proctime_tumbling_gen size size Hsize (Z.le_refl size) eq_refl Terminate
               (or_intror eq_refl) l t0 t rest H1 H2).
    Qed.
  End Tumbling.
End Acc.

(** * P4: the clocked keyed operator, per key *)

(** what key [k]'s manager sees: its own data (key stripped) and every control element
    except FlushBatch, each with its clock reading *)
Fixpoint cproj_in {A : Type} (k : Z) (l : list (Z * elem (Z * A))) : list (Z * elem A) :=
  match l with
  | [] => []
  | (t, e) :: l' =>
      match key_of e with
      | Some k' => if Z.eqb k k' then (t, strip_key e) :: cproj_in k l' else cproj_in k l'
      | None => if is_flush_batch e then cproj_in k l' else (t, strip_key e) :: cproj_in k l'
      end
  end.

Section ClockedOpProofs.
  Context {A C : Type} (M : cmgr A C).

  (** a control element does nothing to a manager that has seen nothing *)
  Hypothesis Hnoop : forall t (e : elem A),
    is_data e = false -> cstep M (cinit M) t e = (cinit M, []).

  Let KM : machine (Z * elem A) (wres C) :=
    Build_machine _ _ (cst M) (cinit M) (fun s x => cstep M s (fst x) (snd x)).

  Definition cstate (k : Z) (m : cmap M) : cst M :=
    match clookup M k m with Some s => s | None => cinit M end.

  Lemma cproj_out_app (k : Z) (l1 l2 : list (elem (Z * C))) :
    proj_out k (l1 ++ l2) = proj_out k l1 ++ proj_out k l2.
  Proof.
    induction l1 as [|e l1 IH]; [reflexivity|].
    cbn [app proj_out]. destruct (key_of e) as [k'|]; [|exact IH].
    destruct (Z.eqb k k'); [|exact IH]. cbn [app]. now rewrite IH.
  Qed.

  Lemma cproj_out_add_key_same (k : Z) (rs : list (wres C)) :
    proj_out k (map (add_key k) rs) = map wres_elem rs.
  Proof.
    induction rs as [|[c [t|]] rs IH]; [reflexivity| |];
      cbn [map add_key proj_out key_of wres_elem]; rewrite Z.eqb_refl, IH; reflexivity.
  Qed.

  Lemma cproj_out_add_key_diff (k k0 : Z) (rs : list (wres C)) :
    k <> k0 -> proj_out k (map (add_key k0) rs) = [].
  Proof.
    intros Hk. apply Z.eqb_neq in Hk.
    induction rs as [|[c [t|]] rs IH]; [reflexivity| |];
      cbn [map add_key proj_out key_of]; rewrite Hk; exact IH.
  Qed.

  Lemma clookup_cset_same (k : Z) (s : cst M) (m : cmap M) :
    clookup M k (cset M k s m) = Some s.
  Proof.
    induction m as [|[k' s'] m IH]; cbn [cset clookup].
    - now rewrite Z.eqb_refl.
    - destruct (Z.eqb_spec k k') as [E|E]; cbn [clookup].
      + now rewrite Z.eqb_refl.
      + apply Z.eqb_neq in E. now rewrite E.
  Qed.

  Lemma clookup_cset_other (k k' : Z) (s : cst M) (m : cmap M) :
    k <> k' -> clookup M k (cset M k' s m) = clookup M k m.
  Proof.
    intros Hk. induction m as [|[k0 s0] m IH]; cbn [cset clookup].
    - apply Z.eqb_neq in Hk. now rewrite Hk.
    - destruct (Z.eqb_spec k' k0) as [E|E]; cbn [clookup].
      + subst k0. apply Z.eqb_neq in Hk. now rewrite Hk.
      + destruct (Z.eqb k k0); [reflexivity|exact IH].
  Qed.

  Lemma cset_keys (k k0 : Z) (s : cst M) (m : cmap M) :
    In k0 (map fst (cset M k s m)) -> k0 = k \/ In k0 (map fst m).
  Proof.
    induction m as [|[k' s'] m IH]; cbn [cset map fst In].
    - intros [H|[]]. now left.
    - destruct (Z.eqb_spec k k') as [E|E]; cbn [map fst In].
      + intros [H|H]; [now left|right; now right].
      + intros [H|H]; [right; now left|]. destruct (IH H); [now left|right; now right].
  Qed.

  Lemma cset_nodup (k : Z) (s : cst M) (m : cmap M) :
    NoDup (map fst m) -> NoDup (map fst (cset M k s m)).
  Proof.
    induction m as [|[k' s'] m IH]; intros H; cbn [cset map fst].
    - constructor; [intros []|constructor].
    - cbn [map fst] in H. inversion H as [|? ? Hni Hnd]; subst.
      destruct (Z.eqb_spec k k') as [E|E]; cbn [map fst].
      + subst k'. constructor; assumption.
      + constructor; [|now apply IH]. intro Hin. apply cset_keys in Hin.
        destruct Hin as [Hin|Hin]; [now apply E|now apply Hni].
  Qed.

  Lemma cstate_cset_same (k : Z) (s : cst M) (m : cmap M) : cstate k (cset M k s m) = s.
  Proof. unfold cstate. now rewrite clookup_cset_same. Qed.

  Lemma cstate_cset_other (k k' : Z) (s : cst M) (m : cmap M) :
    k <> k' -> cstate k (cset M k' s m) = cstate k m.
  Proof. intros. unfold cstate. now rewrite clookup_cset_other. Qed.

  Lemma cctl_keys (now : Z) (e : elem A) (m : cmap M) :
    map fst (fst (cctl M now e m)) = map fst m.
  Proof.
    induction m as [|[k0 s0] m IH]; cbn [cctl]; [reflexivity|].
    destruct (cstep M s0 now e) as [s1 rs]. destruct (cctl M now e m) as [m1 o1].
    cbn [fst map] in *. now rewrite IH.
  Qed.

  Lemma cctl_notin_out (now : Z) (e : elem A) (m : cmap M) (k : Z) :
    ~ In k (map fst m) -> proj_out k (snd (cctl M now e m)) = [].
  Proof.
    induction m as [|[k0 s0] m IH]; intros H; cbn [cctl]; [reflexivity|].
    cbn [map fst In] in H.
    assert (Hk : k <> k0) by (intro; apply H; left; congruence).
    assert (Hn : ~ In k (map fst m)) by (intro; apply H; now right).
    specialize (IH Hn).
    destruct (cstep M s0 now e) as [s1 rs]. destruct (cctl M now e m) as [m1 o1].
    cbn [snd] in *. now rewrite cproj_out_app, cproj_out_add_key_diff, IH.
  Qed.

  Lemma cctl_st (k : Z) (now : Z) (e : elem A) (m : cmap M) :
    NoDup (map fst m) -> is_data e = false ->
    cstate k (fst (cctl M now e m)) = fst (cstep M (cstate k m) now e) /\
    proj_out k (snd (cctl M now e m)) = map wres_elem (snd (cstep M (cstate k m) now e)).
  Proof.
    intros Hnd He. induction m as [|[k0 s0] m IH].
    - unfold cstate. cbn [cctl clookup fst snd proj_out]. rewrite (Hnoop now e He). now split.
    - cbn [map fst] in Hnd. inversion Hnd as [|? ? Hni Hnd']; subst.
      specialize (IH Hnd'). cbn [cctl].
      assert (Hst : cstate k ((k0, s0) :: m) = if Z.eqb k k0 then s0 else cstate k m).
      { unfold cstate. cbn [clookup]. now destruct (Z.eqb k k0). }
      rewrite Hst. clear Hst.
      destruct (Z.eqb_spec k k0) as [E|E].
      + subst k0. clear IH.
        pose proof (cctl_notin_out now e m k Hni) as Ho.
        destruct (cstep M s0 now e) as [s1 rs]. destruct (cctl M now e m) as [m1 o1].
        cbn [fst snd] in *. split.
        * unfold cstate. cbn [clookup]. now rewrite Z.eqb_refl.
        * now rewrite cproj_out_app, cproj_out_add_key_same, Ho, app_nil_r.
      + destruct IH as [IH1 IH2].
        destruct (cstep M s0 now e) as [s1 rs]. destruct (cctl M now e m) as [m1 o1].
        cbn [fst snd] in *. split.
        * rewrite <- IH1. unfold cstate. cbn [clookup]. apply Z.eqb_neq in E. now rewrite E.
        * now rewrite cproj_out_app, cproj_out_add_key_diff, IH2.
  Qed.

  Lemma cop_gen (k : Z) : forall (l : list (Z * elem (Z * A))) (m : cmap M),
    NoDup (map fst m) ->
    proj_out k (snd (run_from (cop_machine M) m l)) =
      map wres_elem (snd (run_from KM (cstate k m) (cproj_in k l))).
  Proof.
    assert (Hdata : forall now (e : elem (Z * A)) k0 l m,
      key_of e = Some k0 ->
      (forall m, NoDup (map fst m) ->
         proj_out k (snd (run_from (cop_machine M) m l)) =
           map wres_elem (snd (run_from KM (cstate k m) (cproj_in k l)))) ->
      NoDup (map fst m) ->
      cop_step M m (now, e) =
        (let '(s1, rs) := cstep M (cstate k0 m) now (strip_key e) in
         (cset M k0 s1 m, map (add_key k0) rs)) ->
      proj_out k (snd (run_from (cop_machine M) m ((now, e) :: l))) =
        map wres_elem (snd (run_from KM (cstate k m) (cproj_in k ((now, e) :: l))))).
    { intros now e k0 l m Hkey IH Hnd Hstep. cbn [run_from cproj_in]. rewrite Hkey.
      change (mstep (cop_machine M) m (now, e)) with (cop_step M m (now, e)). rewrite Hstep.
      destruct (Z.eqb_spec k k0) as [E|E].
      - subst k0. cbn [run_from].
        change (mstep KM (cstate k m) (now, strip_key e))
          with (cstep M (cstate k m) now (strip_key e)).
        destruct (cstep M (cstate k m) now (strip_key e)) as [s1 rs].
        specialize (IH (cset M k s1 m) (cset_nodup k s1 m Hnd)).
        rewrite cstate_cset_same in IH.
        destruct (run_from (cop_machine M) (cset M k s1 m) l) as [m2 o2].
        destruct (run_from KM s1 (cproj_in k l)) as [s2 o2'].
        cbn [snd] in *. now rewrite cproj_out_app, cproj_out_add_key_same, IH, map_app.
      - destruct (cstep M (cstate k0 m) now (strip_key e)) as [s1 rs].
        specialize (IH (cset M k0 s1 m) (cset_nodup k0 s1 m Hnd)).
        rewrite cstate_cset_other in IH by assumption.
        destruct (run_from (cop_machine M) (cset M k0 s1 m) l) as [m2 o2].
        cbn [snd] in *. now rewrite cproj_out_app, cproj_out_add_key_diff, IH. }
    assert (Hctl : forall now (e : elem (Z * A)) l m,
      key_of e = None -> is_flush_batch e = false ->
      (forall m, NoDup (map fst m) ->
         proj_out k (snd (run_from (cop_machine M) m l)) =
           map wres_elem (snd (run_from KM (cstate k m) (cproj_in k l)))) ->
      NoDup (map fst m) ->
      (exists e' : elem (Z * C), key_of e' = None /\
        cop_step M m (now, e) =
          (let '(m1, o) := cctl M now (strip_key e) m in (m1, o ++ [e']))) ->
      is_data (strip_key e) = false ->
      proj_out k (snd (run_from (cop_machine M) m ((now, e) :: l))) =
        map wres_elem (snd (run_from KM (cstate k m) (cproj_in k ((now, e) :: l))))).
    { intros now e l m Hkey Hfb IH Hnd (e' & Hk' & Hstep) Hd. cbn [run_from cproj_in].
      rewrite Hkey, Hfb. cbn [run_from].
      change (mstep (cop_machine M) m (now, e)) with (cop_step M m (now, e)). rewrite Hstep.
      destruct (cctl_st k now (strip_key e) m Hnd Hd) as [H1 H2].
      assert (H3 : NoDup (map fst (fst (cctl M now (strip_key e) m))))
        by (now rewrite cctl_keys).
      destruct (cctl M now (strip_key e) m) as [m1 o]. cbn [fst snd] in *.
      specialize (IH m1 H3).
      change (mstep KM (cstate k m) (now, strip_key e))
        with (cstep M (cstate k m) now (strip_key e)).
      destruct (cstep M (cstate k m) now (strip_key e)) as [s1 rs]. cbn [fst snd] in *.
      rewrite H1 in IH.
      destruct (run_from (cop_machine M) m1 l) as [m2 o2].
      destruct (run_from KM s1 (cproj_in k l)) as [s2 o2'].
      cbn [snd] in *. rewrite !cproj_out_app, H2, IH, map_app.
      cbn [proj_out]. rewrite Hk'. cbn [proj_out]. now rewrite app_nil_r. }
    induction l as [|[now e] l IH]; intros m Hnd; [reflexivity|].
    destruct e as [[k0 v]|[k0 v] t|t| | |].
    - apply (Hdata _ _ k0); auto.
    - apply (Hdata _ _ k0); auto.
    - apply Hctl; auto. exists (Wm t). split; [reflexivity|]. reflexivity.
    - cbn [run_from cproj_in key_of is_flush_batch].
      change (mstep (cop_machine M) m (now, FlushBatch)) with (m, [@FlushBatch (Z * C)]).
      cbv beta iota.
      specialize (IH m Hnd). destruct (run_from (cop_machine M) m l) as [m2 o2].
      cbn [snd app proj_out key_of] in *. exact IH.
    - apply Hctl; auto. exists Terminate. split; reflexivity.
    - apply Hctl; auto. exists FAR. split; reflexivity.
  Qed.

  Theorem cop_per_key : forall (l : list (Z * elem (Z * A))) (k : Z),
    proj_out k (run (cop_machine M) l) =
      map wres_elem
        (run (Build_machine _ _ (cst M) (cinit M) (fun s x => cstep M s (fst x) (snd x)))
             (cproj_in k l)).
  Proof.
    intros l k. exact (cop_gen k l [] (NoDup_nil _)).
  Qed.
End ClockedOpProofs.

(** both managers satisfy the hypothesis of [cop_per_key] *)
Lemma se_noop {A B C : Type} (acc0 : B) (proc : B -> A -> B) (out : B -> C) (gap : Z) :
  forall t (e : elem A), is_data e = false ->
    cstep (se_mgr acc0 proc out gap) (cinit (se_mgr acc0 proc out gap)) t e =
      (cinit (se_mgr acc0 proc out gap), []).
Proof. intros t e He. destruct e; try discriminate He; reflexivity. Qed.

Lemma pt_noop {A B C : Type} (acc0 : B) (proc : B -> A -> B) (out : B -> C) (size slide : Z) :
  forall t (e : elem A), is_data e = false ->
    cstep (pt_mgr acc0 proc out size slide) (cinit (pt_mgr acc0 proc out size slide)) t e =
      (cinit (pt_mgr acc0 proc out size slide), []).
Proof. intros t e He. destruct e; try discriminate He; reflexivity. Qed.

(** Statement-level definitions for the operator theorems (C05, C06, C07, C16). *)
From Noir Require Export Base.Elem Model.Start Model.Ops Proofs.StartSpec Proofs.WinCountSpec.
From Coq Require Export Permutation.
Open Scope Z_scope.

(** optional-maximum of the timestamps / watermarks of a stream *)
Definition max_ts {X} (l : list (elem X)) : option Z :=
  fold_left (fun acc e => match e with Tst _ t => omax acc (Some t) | _ => acc end) l None.
Definition max_wm {X} (l : list (elem X)) : option Z :=
  fold_left (fun acc e => match e with Wm t => omax acc (Some t) | _ => acc end) l None.

Section Defs.
  Context {A O : Type}.

  Definition stamp {X} (x : X) (t : option Z) : elem X :=
    match t with Some u => Tst x u | None => Item x end.

  (** what a global fold must output for one round [l] (closed by [marker]):
      nothing for an empty round, otherwise the sequential fold of all elements stamped
      with the maximum input timestamp; then the held-back watermark; then the marker *)
  Definition fold_round_out (init : O) (f : O -> A -> O) (l : list (elem A)) (marker : elem O) : list (elem O) :=
    (match payloads l with
     | [] => []
     | xs => [stamp (fold_left f xs init) (max_ts l)] end)
    ++ (match max_wm l with Some w => [Wm w] | None => [] end)
    ++ [marker].

  (** keys of a keyed round in order of first occurrence *)
  Fixpoint first_keys (seen : list Z) (l : list (elem (Z * A))) : list Z :=
    match l with
    | [] => []
    | e :: l' =>
        match payload e with
        | Some (k, _) => if existsb (Z.eqb k) seen then first_keys seen l' else k :: first_keys (k :: seen) l'
        | None => first_keys seen l'
        end
    end.
  (** key [k]'s sub-stream (key stripped) *)
  Definition of_key (k : Z) (l : list (elem (Z * A))) : list (elem A) :=
    flat_map (fun e => match e with
                       | Item (k', v) => if Z.eqb k k' then [Item v] else []
                       | Tst (k', v) t => if Z.eqb k k' then [Tst v t] else []
                       | _ => [] end) l.
  Definition kfold_round_out (init : O) (f : O -> A -> O) (l : list (elem (Z * A))) (marker : elem (Z * O))
    : list (elem (Z * O)) :=
    map (fun k => stamp (k, fold_left f (payloads (of_key k l)) init) (max_ts (of_key k l)))
        (first_keys [] l)
    ++ (match max_wm l with Some w => [Wm w] | None => [] end)
    ++ [marker].
End Defs.

(** σ is an interleaving of the per-sender streams [ss] (each stream keeps its order) *)
Definition interleaving {X} (ss : list (list X)) (l : list (nat * X)) : Prop :=
  (forall s x, In (s, x) l -> (s < length ss)%nat) /\
  forall s, (s < length ss)%nat -> map snd (filter (fun x => Nat.eqb (fst x) s) l) = nth s ss [].

(** commutative monoid / two-phase laws *)
Record comm_monoid {O} (op : O -> O -> O) (e : O) : Prop := {
  cm_assoc : forall a b c, op a (op b c) = op (op a b) c;
  cm_comm : forall a b, op a b = op b a;
  cm_neutral : forall a, op e a = a
}.

(** sortedness of the timestamps of the timestamped elements of a round *)
Fixpoint ts_nondecreasing {A} (last : option Z) (l : list (elem A)) : bool :=
  match l with
  | [] => true
  | Tst _ t :: l' => match last with Some u => (u <=? t) | None => true end && ts_nondecreasing (Some t) l'
  | FAR :: l' => ts_nondecreasing None l'
  | _ :: l' => ts_nondecreasing last l'
  end.

(** Machine-checked proofs for the count-window manager model (C12 family):
    the outputs of [wc_machine] are exactly the complete sliding groups, each emitted
    at the arrival of its last element; end markers flush the oldest incomplete group
    (unless [exact]) and reset the state. *)
From Noir Require Import Base.Elem Model.WinCount Model.WindowOp Proofs.WinCountSpec.
From Coq Require Import Arith Lia ZifyNat.
Ltac Zify.zify_post_hook ::= Z.div_mod_to_equations.
Open Scope nat_scope.

Section WinCountProofs.
  Context {A B C : Type}.
  Variable (acc0 : B) (proc : B -> A -> B) (out : B -> C).
  Variable (size slide : nat) (exact : bool).
  Hypothesis Hslide : 1 <= slide.
  Hypothesis Hsize : slide <= size.

  Let M := wc_machine acc0 proc out size slide exact.

  (** ** Arithmetic of [complete] and [nslots] *)

  Lemma complete_spec : forall c j, j < complete size slide c <-> j * slide + size <= c.
  Proof using Hslide. clear Hsize.
    intros c j. unfold complete. destruct (Nat.ltb_spec c size) as [H|H].
    - lia.
    - split; intro H1.
      + assert (H2 : j <= (c - size) / slide) by lia.
        assert (H3 : slide * j <= c - size).
        { etransitivity; [apply Nat.mul_le_mono_l, H2|]. apply Nat.mul_div_le. lia. }
        lia.
      + assert (H2 : j <= (c - size) / slide).
        { apply Nat.div_le_lower_bound; lia. }
        lia.
  Qed.

  Lemma complete_facts c :
    c < complete size slide c * slide + size /\
    (complete size slide c = 0 \/ (complete size slide c - 1) * slide + size <= c).
  Proof using Hslide. clear Hsize.
    pose proof (complete_spec c (complete size slide c)) as H1.
    pose proof (complete_spec c (complete size slide c - 1)) as H2.
    split; [lia|]. destruct (complete size slide c); [now left|right]. apply H2. lia.
  Qed.

  Lemma complete_unique c q :
    c < q * slide + size -> (q = 0 \/ (q - 1) * slide + size <= c) ->
    complete size slide c = q.
  Proof using Hslide. clear Hsize.
    intros H1 H2.
    pose proof (complete_spec c q) as S1.
    pose proof (complete_spec c (q - 1)) as S2.
    destruct H2 as [->|H2]; lia.
  Qed.

  Lemma complete_start c : complete size slide c * slide <= c.
  Proof.
    destruct (complete_facts c) as [_ [H|H]]; [rewrite H; lia|].
    destruct (complete size slide c) as [|q]; [lia|].
    replace (S q - 1) with q in H by lia. cbn [Nat.mul]. lia.
  Qed.

  Lemma complete_succ c :
    complete size slide (c + 1) =
      if c + 1 - complete size slide c * slide =? size
      then S (complete size slide c) else complete size slide c.
  Proof.
    destruct (complete_facts c) as [F1 F2]. pose proof (complete_start c) as F3.
    destruct (Nat.eqb_spec (c + 1 - complete size slide c * slide) size) as [E|E];
      apply complete_unique.
    - cbn [Nat.mul]. lia.
    - right. replace (S (complete size slide c) - 1) with (complete size slide c) by lia. lia.
    - lia.
    - destruct F2 as [F2|F2]; [now left|right; lia].
  Qed.

  Lemma cond_spec c :
    andb (Nat.leb size (c + 1)) (Nat.eqb ((c + 1 - size) mod slide) 0) =
      (c + 1 - complete size slide c * slide =? size).
  Proof.
    destruct (complete_facts c) as [F1 F2]. pose proof (complete_start c) as F3.
    set (q := complete size slide c) in *.
    destruct (Nat.eqb_spec (c + 1 - q * slide) size) as [E|E].
    - apply andb_true_intro; split.
      + apply Nat.leb_le. lia.
      + apply Nat.eqb_eq. replace (c + 1 - size) with (q * slide) by lia.
        apply Nat.mod_mul. lia.
    - apply andb_false_iff.
      destruct (Nat.leb_spec size (c + 1)) as [L|L]; [right|now left].
      apply Nat.eqb_neq. intro Hm.
      pose proof (Nat.div_mod (c + 1 - size) slide ltac:(lia)) as Hd.
      rewrite Hm in Hd. set (r := (c + 1 - size) / slide) in *.
      assert (Hr : r * slide + size = c + 1) by lia.
      assert (r <> q) by (intro; subst r; lia).
      assert (r <= q) by nia.
      destruct F2 as [F2|F2]; [lia|].
      assert (r * slide <= (q - 1) * slide) by (apply Nat.mul_le_mono_r; lia).
      lia.
  Qed.

  Lemma nslots_mul : size <= nslots size slide * slide.
  Proof. unfold nslots. nia. Qed.

  Lemma nslots_bound a : a < size -> a / slide + 1 <= nslots size slide.
  Proof. unfold nslots. intros. nia. Qed.

  (** ** Slices and groups under extension by one element *)

  Lemma slice_snoc (xs : list (@tel A)) x a n :
    a + n <= length xs -> slice (xs ++ [x]) a n = slice xs a n.
  Proof.
    intros H. unfold slice. rewrite skipn_app, firstn_app, skipn_length.
    replace (n - (length xs - a)) with 0 by lia. cbn [firstn]. now rewrite app_nil_r.
  Qed.

  Definition newg (xs : list (@tel A)) (x : @tel A) : list (list (@tel A)) :=
    if andb (Nat.leb size (length xs + 1)) (Nat.eqb ((length xs + 1 - size) mod slide) 0)
    then [slice (xs ++ [x]) (length xs + 1 - size) size] else [].

  Lemma groups_snoc (xs : list (@tel A)) x :
    groups size slide (xs ++ [x]) = groups size slide xs ++ newg xs x.
  Proof.
    unfold groups, newg. rewrite app_length. cbn [length].
    rewrite complete_succ, cond_spec.
    pose proof (complete_start (length xs)) as F3.
    assert (Hpre : map (fun j => slice (xs ++ [x]) (j * slide) size)
                     (seq 0 (complete size slide (length xs))) =
                   map (fun j => slice xs (j * slide) size)
                     (seq 0 (complete size slide (length xs)))).
    { apply map_ext_in. intros j Hj. apply in_seq in Hj. apply slice_snoc.
      apply complete_spec. lia. }
    destruct (Nat.eqb_spec (length xs + 1 - complete size slide (length xs) * slide) size)
      as [E|E].
    - rewrite seq_S, map_app, Hpre. cbn [map Nat.add].
      replace (length xs + 1 - size) with (complete size slide (length xs) * slide) by lia.
      reflexivity.
    - rewrite Hpre, app_nil_r. reflexivity.
  Qed.

  (** ** The state invariant *)

  Definition slot_of (xs : list (@tel A)) (j : nat) : @slot B :=
    {| cnt := length xs - j * slide;
       sacc := fold_left proc (map fst (skipn (j * slide) xs)) acc0;
       sts := omax_list (map snd (skipn (j * slide) xs)) |}.

  Lemma slot_of_empty xs j : length xs <= j * slide -> slot_of xs j = empty_slot acc0.
  Proof.
    intros H. unfold slot_of, empty_slot. rewrite skipn_all2 by lia.
    replace (length xs - j * slide) with 0 by lia. reflexivity.
  Qed.

  Lemma slot_of_snoc_started xs v t j :
    j * slide <= length xs ->
    slot_of (xs ++ [(v, t)]) j = upd1 proc (slot_of xs j) v t.
  Proof.
    intros H. unfold slot_of, upd1. cbn [cnt sacc sts].
    rewrite skipn_app. replace (j * slide - length xs) with 0 by lia. cbn [skipn].
    rewrite !map_app, fold_left_app, app_length. cbn [map fst snd length fold_left].
    unfold omax_list. rewrite fold_left_app. cbn [fold_left].
    f_equal. unfold tel in *. lia.
  Qed.

  Lemma slot_of_snoc_unstarted xs x j :
    length xs < j * slide -> slot_of (xs ++ [x]) j = slot_of xs j.
  Proof.
    intros H. rewrite !slot_of_empty; [reflexivity|lia|].
    rewrite app_length. cbn [length]. lia.
  Qed.

  Lemma map_slot_of_empty xs d : forall s,
    length xs <= s * slide ->
    map (slot_of xs) (seq s d) = repeat (empty_slot acc0) d.
  Proof.
    induction d as [|d IH]; intros s H; cbn [seq map repeat]; [reflexivity|].
    rewrite slot_of_empty by exact H. f_equal. apply IH. cbn [Nat.mul]. lia.
  Qed.

  Lemma ensure_inv xs q m :
    length xs <= (q + m) * slide -> m <= nslots size slide ->
    ensure acc0 size slide (map (slot_of xs) (seq q m)) =
      map (slot_of xs) (seq q (nslots size slide)).
  Proof.
    intros H1 H2. unfold ensure. rewrite map_length, seq_length.
    replace (nslots size slide) with (m + (nslots size slide - m)) at 2 by lia.
    rewrite seq_app, map_app. f_equal. symmetry. apply map_slot_of_empty. exact H1.
  Qed.

  Lemma upd_inv xs v t : forall n k q,
    (forall j, q <= j < q + n -> (j < q + k <-> j * slide <= length xs)) ->
    upd proc k v t (map (slot_of xs) (seq q n)) =
      map (slot_of (xs ++ [(v, t)])) (seq q n).
  Proof.
    induction n as [|n IH]; intros k q H.
    - destruct k; reflexivity.
    - destruct k as [|k].
      + cbn [upd]. apply map_ext_in. intros j Hj. apply in_seq in Hj.
        symmetry. apply slot_of_snoc_unstarted.
        specialize (H j ltac:(lia)). lia.
      + cbn [seq map upd]. f_equal.
        * symmetry. apply slot_of_snoc_started. apply (H q); lia.
        * apply IH. intros j Hj. specialize (H j ltac:(lia)). lia.
  Qed.

  Definition Inv (xs : list (@tel A)) (ws : list (@slot B)) : Prop :=
    exists m, ws = map (slot_of xs) (seq (complete size slide (length xs)) m) /\
              length xs <= (complete size slide (length xs) + m) * slide /\
              m <= nslots size slide.

  Lemma gres_slot xs q :
    length xs - q * slide <= size ->
    gres acc0 proc out (slice xs (q * slide) size) = slot_res out (slot_of xs q).
  Proof.
    intros H. unfold slice. rewrite firstn_all2 by (rewrite skipn_length; lia).
    reflexivity.
  Qed.

  Lemma step_inv xs ws v t :
    Inv xs ws ->
    exists ws',
      step_data acc0 proc out size slide ws v t =
        (ws', map (gres acc0 proc out) (newg xs (v, t))) /\
      Inv (xs ++ [(v, t)]) ws'.
  Proof.
    intros (m & -> & Hc & Hm).
    destruct (complete_facts (length xs)) as [F1 F2].
    pose proof (complete_start (length xs)) as F3.
    pose proof nslots_mul as N1.
    pose proof (complete_succ (length xs)) as CS.
    unfold newg. rewrite cond_spec.
    unfold Inv. rewrite app_length. cbn [length]. rewrite CS. clear CS.
    set (q := complete size slide (length xs)) in *.
    pose proof (nslots_bound (length xs - q * slide) ltac:(lia)) as N2.
    unfold step_data. rewrite ensure_inv by assumption.
    destruct (nslots size slide) as [|n] eqn:En; [lia|].
    cbn [seq map]. cbn [slot_of cnt].
    change (slot_of xs q :: map (slot_of xs) (seq (S q) n))
      with (map (slot_of xs) (seq q (S n))).
    rewrite upd_inv.
    2:{ intros j Hj. set (d := length xs - q * slide) in *.
        split; intro Hj1.
        - assert (j - q <= d / slide) by lia.
          assert (slide * (j - q) <= d).
          { etransitivity; [apply Nat.mul_le_mono_l; eassumption|].
            apply Nat.mul_div_le. lia. }
          nia.
        - assert (j - q <= d / slide).
          { apply Nat.div_le_lower_bound; [lia|]. nia. }
          lia. }
    cbn [seq map]. cbn [slot_of cnt]. rewrite app_length. cbn [length].
    destruct (Nat.eqb_spec (length xs + 1 - q * slide) size) as [E|E].
    - eexists; split.
      + cbn [map]. replace (length xs + 1 - size) with (q * slide) by lia.
        rewrite gres_slot.
        2:{ rewrite app_length. cbn [length]. unfold tel in *. lia. }
        reflexivity.
      + exists n. split; [reflexivity|]. split; [nia|lia].
    - eexists; split.
      + reflexivity.
      + exists (S n). split; [reflexivity|]. split; [nia|lia].
  Qed.

  Lemma mstep_to_elem ws (x : @tel A) :
    mstep M ws (to_elem x) = step_data acc0 proc out size slide ws (fst x) (snd x).
  Proof. destruct x as [v [t|]]; reflexivity. Qed.

  Lemma run_data_inv : forall xs : list (@tel A),
    exists ws, run_from M [] (map to_elem xs) =
                 (ws, map (gres acc0 proc out) (groups size slide xs)) /\ Inv xs ws.
  Proof.
    induction xs as [|x xs IH] using rev_ind.
    - exists []. split.
      + cbn [map run_from]. unfold groups. cbn [length].
        replace (complete size slide 0) with 0; [reflexivity|].
        symmetry. apply complete_unique; [lia|now left].
      + exists 0. cbn [seq map length]. repeat split; lia.
    - destruct IH as (ws & Hrun & Hinv).
      destruct x as [v t].
      destruct (step_inv xs ws v t Hinv) as (ws' & Hstep & Hinv').
      exists ws'. split; [|exact Hinv'].
      rewrite map_app, run_from_app, Hrun. cbn [map run_from].
      rewrite mstep_to_elem. cbn [fst snd]. rewrite Hstep.
      rewrite groups_snoc, map_app, app_nil_r. reflexivity.
  Qed.

  (** ** Main theorems *)

  Theorem wc_run_data : forall xs : list (@tel A),
    run M (map to_elem xs) = map (gres acc0 proc out) (groups size slide xs).
  Proof.
    intros xs. destruct (run_data_inv xs) as (ws & Hrun & _).
    unfold run. change (minit M) with (@nil (@slot B)). now rewrite Hrun.
  Qed.

  Theorem wc_emission : forall (xs : list (@tel A)) (x : @tel A),
    run M (map to_elem (xs ++ [x])) =
      run M (map to_elem xs) ++
      (if andb (Nat.leb size (length xs + 1)) (Nat.eqb ((length xs + 1 - size) mod slide) 0)
       then [gres acc0 proc out (slice (xs ++ [x]) (length xs + 1 - size) size)] else []).
  Proof.
    intros xs x. rewrite !wc_run_data, groups_snoc, map_app. f_equal.
    unfold newg.
    destruct (andb (Nat.leb size (length xs + 1))
                   (Nat.eqb ((length xs + 1 - size) mod slide) 0)); reflexivity.
  Qed.

  Lemma run_from_data_of : forall (s1 : list (elem A)) ws,
    no_end s1 -> run_from M ws s1 = run_from M ws (map to_elem (data_of s1)).
  Proof.
    induction s1 as [|e s1 IH]; intros ws Hne; [reflexivity|].
    assert (Hne' : no_end s1) by (intros e' He'; apply Hne; now right).
    destruct e as [v|v t| t | | |].
    - cbn [data_of map to_elem run_from]. destruct (mstep M ws (Item v)) as [w1 o1].
      now rewrite IH.
    - cbn [data_of map to_elem run_from]. destruct (mstep M ws (Tst v t)) as [w1 o1].
      now rewrite IH.
    - cbn [data_of run_from]. change (mstep M ws (Wm t)) with (ws, @nil (wres C)).
      cbv beta iota. rewrite IH by assumption. destruct (run_from M ws _). reflexivity.
    - cbn [data_of run_from]. change (mstep M ws FlushBatch) with (ws, @nil (wres C)).
      cbv beta iota. rewrite IH by assumption. destruct (run_from M ws _). reflexivity.
    - exfalso. destruct (Hne Terminate (or_introl eq_refl)) as [_ H]. now apply H.
    - exfalso. destruct (Hne FAR (or_introl eq_refl)) as [H _]. now apply H.
  Qed.

  Lemma flush_inv xs ws :
    Inv xs ws ->
    flush out exact ws =
      if exact then [] else map (gres acc0 proc out) (tail_group size slide xs).
  Proof.
    intros (m & -> & Hc & Hm). unfold flush. destruct exact; [reflexivity|].
    destruct (complete_facts (length xs)) as [F1 F2].
    pose proof (complete_start (length xs)) as F3.
    unfold tail_group.
    set (q := complete size slide (length xs)) in *.
    destruct m as [|m].
    - cbn [seq map]. rewrite skipn_all2 by lia. reflexivity.
    - cbn [seq map]. cbn [slot_of cnt].
      destruct (Nat.ltb_spec 0 (length xs - q * slide)) as [L|L].
      + destruct (skipn (q * slide) xs) as [|y g] eqn:Eg.
        * apply (f_equal (@length _)) in Eg. rewrite skipn_length in Eg.
          cbn [length] in Eg. lia.
        * cbn [map]. unfold slot_res, gres, slot_of. cbn [sacc sts]. rewrite Eg.
          reflexivity.
      + rewrite skipn_all2 by lia. reflexivity.
  Qed.

  Lemma wc_round_gen : forall (e : elem A) (s1 rest : list (elem A)),
    e = FAR \/ e = Terminate ->
    no_end s1 ->
    run M (s1 ++ e :: rest) =
      map (gres acc0 proc out) (groups size slide (data_of s1)) ++
      (if exact then [] else map (gres acc0 proc out) (tail_group size slide (data_of s1))) ++
      run M rest.
  Proof.
    intros e s1 rest He Hne. unfold run. change (minit M) with (@nil (@slot B)).
    rewrite run_from_app, run_from_data_of by assumption.
    destruct (run_data_inv (data_of s1)) as (ws & Hrun & Hinv). rewrite Hrun.
    cbn [run_from].
    assert (Hst : mstep M ws e = ([], flush out exact ws)) by (destruct He; subst e; reflexivity).
    rewrite Hst. rewrite (flush_inv _ _ Hinv).
    destruct (run_from M [] rest) as [w2 o2]. reflexivity.
  Qed.

  Theorem wc_round : forall (s1 rest : list (elem A)),
    no_end s1 ->
    run M (s1 ++ FAR :: rest) =
      map (gres acc0 proc out) (groups size slide (data_of s1)) ++
      (if exact then [] else map (gres acc0 proc out) (tail_group size slide (data_of s1))) ++
      run M rest.
  Proof. intros. apply wc_round_gen; auto. Qed.

  Theorem wc_round_terminate : forall (s1 rest : list (elem A)),
    no_end s1 ->
    run M (s1 ++ Terminate :: rest) =
      map (gres acc0 proc out) (groups size slide (data_of s1)) ++
      (if exact then [] else map (gres acc0 proc out) (tail_group size slide (data_of s1))) ++
      run M rest.
  Proof. intros. apply wc_round_gen; auto. Qed.

  Lemma tail_group_incomplete : forall xs : list (@tel A), forall g,
    In g (tail_group size slide xs) ->
    g <> [] /\ length g < size /\ g = skipn (complete size slide (length xs) * slide) xs.
  Proof using Hslide. clear Hsize.
    intros xs g. unfold tail_group.
    destruct (complete_facts (length xs)) as [F1 _].
    pose proof (skipn_length (complete size slide (length xs) * slide) xs) as HL.
    destruct (skipn (complete size slide (length xs) * slide) xs) as [|y g'] eqn:Eg.
    - intros [].
    - intros [<-|[]]. split; [discriminate|]. split; [|reflexivity]. cbn [length] in *. lia.
  Qed.

  Lemma wc_ctrl_init_noop : forall e : elem A,
    is_data e = false -> wc_step acc0 proc out size slide exact [] e = ([], []).
  Proof.
    intros e He. destruct e; try discriminate He; cbn [wc_step]; try reflexivity;
      unfold flush; destruct exact; reflexivity.
  Qed.
End WinCountProofs.

(** Statement-level definitions for the two-input Start with a cached side (C11). *)
From Noir Require Export Base.Elem Model.Start Model.BinaryStart Corr.BinCorr.
From Coq Require Import NArith.
Open Scope Z_scope.

Fixpoint split_rounds (cur : list (elem bz)) (l : list (elem bz)) : list (list (elem bz)) * list (elem bz) :=
  match l with
  | [] => ([], rev cur)
  | FAR :: l' => let '(rs, t) := split_rounds [] l' in (rev cur :: rs, t)
  | e :: l' => split_rounds (e :: cur) l'
  end.

Definition zout_eqb := list_eqb (elem_eqb Z.eqb).

(** The property of C11 as a decidable predicate on (deliveries, output of the block input):
    as many rounds as the loop side ran, then Terminate and nothing else; in every round the
    whole side input, exactly once, in its original order, and each end-of-side marker
    exactly once; the loop side's own data all there, in order. *)
Definition c11_pred (nl nr : nat) (lc rc : bool) (ds : list del) (out0 : list (elem bz)) : bool :=
  let out := strip_fb out0 in
  let '(rs, trailing) := split_rounds [] out in
  let cached_left := lc in
  let cached := lc || rc in
  let loop_inst := if cached_left then nr else nl in
  let k := Nat.div (side_fars (negb cached_left) ds) loop_inst in
  let side := side_data cached_left ds in
  if negb cached then true else
  Nat.eqb (length rs) k &&
  match trailing with [Terminate] => true | _ => false end &&
  forallb (fun r =>
    zout_eqb (map unbin (filter (if cached_left then is_left else is_right)
                                (filter is_data r))) side
    && Nat.eqb (count_item BLEnd r) 1 && Nat.eqb (count_item BREnd r) 1) rs
  && zout_eqb (map unbin (filter (if cached_left then is_right else is_left)
                                 (filter is_data out)))
              (side_data (negb cached_left) ds).

(** ** Shape of a consumable delivery sequence: left = cached side input, right = loop side
    with ONE replica *)

(** a batch of plain stream content (no markers) *)
Definition plain_batch (b : list (elem Z)) : bool :=
  forallb (fun e => match e with Item _ | Tst _ _ | Wm _ => true | _ => false end) b.
(** a batch as `End`+`Batcher` close a round: plain content then one FAR, last *)
Definition closing_batch (b : list (elem Z)) : bool :=
  match rev b with FAR :: p => plain_batch p | _ => false end.
Definition wm_below_max (b : list (elem Z)) : bool :=
  forallb (fun e => match e with Wm t => t <? TS_MAX | _ => true end) b.

(** one left sender's deliveries, in order: plain batches, a closing batch, [Terminate] *)
Fixpoint side_sender_ok (bs : list (list (elem Z))) : bool :=
  match bs with
  | [b; t] => closing_batch b && wm_below_max b && match t with [Terminate] => true | _ => false end
  | b :: bs' => plain_batch b && wm_below_max b && side_sender_ok bs'
  | [] => false
  end.

(** one round of the loop side: plain batches then a closing batch *)
Fixpoint loop_round_ok (bs : list (list (elem Z))) : bool :=
  match bs with
  | [b] => closing_batch b && wm_below_max b
  | b :: bs' => plain_batch b && wm_below_max b && loop_round_ok bs'
  | [] => false
  end.

Definition left_of (s : nat) (ds : list del) : list (list (elem Z)) :=
  flat_map (fun d => match d with DL s' b => if Nat.eqb s s' then [b] else [] | _ => [] end) ds.
Definition right_all (ds : list del) : list (list (elem Z)) :=
  flat_map (fun d => match d with DR _ b => [b] | _ => [] end) ds.
Definition senders_ok (nl : nat) (ds : list del) : bool :=
  forallb (fun d => match d with DL s _ => Nat.ltb s nl | DR s _ => Nat.eqb s 0 end) ds.

(** [c11_shape nl first later ds]: [ds] = (an interleaving of all side-input deliveries with
    the loop side's first round [first]) ++ the later rounds ++ the loop side's Terminate *)
Definition c11_shape (nl : nat) (round1 : list del) (later : list (list (list (elem Z)))) : bool :=
  senders_ok nl round1 &&
  forallb (fun s => side_sender_ok (left_of s round1)) (seq 0 nl) &&
  loop_round_ok (right_all round1) &&
  forallb loop_round_ok later.

Definition c11_deliveries (round1 : list del) (later : list (list (list (elem Z)))) : list del :=
  round1 ++ map (DR 0%nat) (concat later) ++ [DR 0%nat [Terminate]].

(** Sequential paths (C16): any cutting of one producer's stream into batches is delivered
    to the consumer's operators unchanged and in order. *)
From Noir Require Import Base.Elem Model.Start Model.Ops Proofs.StartSpec Proofs.OpsSpec Proofs.OpsProofs.
Open Scope Z_scope.

Lemma flatten_single {A} (bs : list (list (elem A))) :
  flatten_batches (map (fun b => (0%nat, b)) bs) = map (fun e => (0%nat, e)) (concat bs).
Proof.
  unfold flatten_batches. induction bs as [|b bs IH]; cbn [map flat_map concat].
  - reflexivity.
  - rewrite IH, map_app. reflexivity.
Qed.

Theorem seq_path_identity {A} (l : list (elem A)) (bs : list (list (elem A))) :
  concat bs = l -> wf l = true -> wm_safe l = true ->
  (forall e, In e l -> e <> FlushBatch) -> (forall t, In (Wm t) l -> t < TS_MAX) ->
  run (start_machine A 1) (flatten_batches (map (fun b => (0%nat, b)) bs)) = l.
Proof.
  intros Hc Hwf Hwm Hfb Hts. rewrite flatten_single, Hc.
  apply start_single_identity; assumption.
Qed.

(** C04 for LOOPS: the two loop constructs of the engine as networks of replicas over bounded
    channels (Model/Net.v).

    The job graph of a loop is cyclic (feedback edges), so it has no topological numbering:
    [net_ok] fails and neither the generic theorem [no_deadlock] (NetProofs.v) nor the theorem
    for acyclic networks (NetDagProofs.v) applies. What is proved here, on small concrete
    instances with capacity-1 channels:

    - ITERATE (finding F9): a model-level deadlock of `iterate` whose body expands every
      element into k = 2 elements ([iterate_feedback_deadlock], by an executable schedule that
      takes the head's non-blocking step only when `try_recv` would really fail, and the shape
      of the blocked state [iter_dead_shape]); the control: the same network with k = 1 has no
      reachable stuck state and terminates (exhaustive enumeration);
    - REPLAY: a `replay` loop with a shuffled body of 2 replicas, 2 rounds: no reachable stuck
      state, and it terminates, for every routing of the data by the shuffle (exhaustive
      enumeration).

    The enumeration does not go through [closed]/[checked_safe] of NetProofs.v (they are stated
    under [net_ok]); it uses the same executable successor function [succs] and the lemma
    [step_exec] (complete w.r.t. [step] under the two LENGTH invariants only), on a LAYERED
    exploration: layer 0 is the initial state, layer d+1 the successors of layer d; the check
    [layers_ok] (every successor of a member of a layer is a member of the next one, every
    member is well-sized and is final or can move, the last layer has no successors) gives
    [terminating] directly, and with it the absence of reachable stuck states. A variant of
    [closed_reachable] that needs only the length invariants is also given
    ([closed_reachable_len]). *)
From Noir Require Import Model.Net Proofs.NetProofs.
From Coq Require Import List Arith Bool Lia.
Import ListNotations.
Local Open Scope nat_scope.

(** * Generic part: enumeration without [net_ok] *)
Section LoopCheck.
  Context {msg st : Type} (NW : net msg st).
  Notation State := (state msg st).
  Variable seqb : State -> State -> bool.
  Hypothesis seqb_sound : forall a b, seqb a b = true -> a = b.

  (** the two length invariants: all that [step_exec] needs *)
  Definition sized (s : State) : Prop :=
    length (nodes s) = n_nodes NW /\ length (chans s) = n_chans NW.
  Definition sized_b (s : State) : bool :=
    Nat.eqb (length (nodes s)) (n_nodes NW) && Nat.eqb (length (chans s)) (n_chans NW).

  Lemma sized_b_spec : forall s, sized_b s = true -> sized s.
  Proof.
    intros s H. apply andb_true_iff in H. destruct H as [H1 H2].
    apply Nat.eqb_eq in H1. apply Nat.eqb_eq in H2. split; auto.
  Qed.

  Lemma step_sized : forall s s', sized s -> step NW s s' -> sized s'.
  Proof.
    intros s s' [H1 H2] Hs. destruct (step_lengths NW _ _ Hs) as [E1 E2]. split; congruence.
  Qed.

  Lemma reachable_sized : sized (n_init NW) -> forall s, reachable NW s -> sized s.
  Proof. intros H0 s Hr. induction Hr; auto. eapply step_sized; eauto. Qed.

  Lemma step_in_succs : forall s s', sized s -> step NW s s' -> In s' (succs NW s).
  Proof.
    intros s s' [H1 H2] Hs. destruct (step_exec NW s s' H1 H2 Hs) as [a [Ha He]].
    unfold succs. apply in_flat_map. exists a. split; auto. rewrite He. left; reflexivity.
  Qed.

  Lemma succs_step : forall s s', In s' (succs NW s) -> step NW s s'.
  Proof.
    intros s s' H. unfold succs in H. apply in_flat_map in H. destruct H as [a [_ H]].
    destruct (exec NW s a) as [s1|] eqn:E; [|destruct H].
    destruct H as [<-|[]]. eapply exec_sound; eauto.
  Qed.

  (** [closed_reachable] of NetProofs.v with the length invariants instead of [net_ok] *)
  Lemma closed_reachable_len : sized (n_init NW) ->
    forall L, closed NW seqb L = true -> forall s, reachable NW s -> In s L.
  Proof.
    intros H0 L Hc s Hr. apply andb_true_iff in Hc. destruct Hc as [Hi Hcl].
    induction Hr as [|s s' Hr IH Hs].
    - eapply smem_In; eauto.
    - rewrite forallb_forall in Hcl. specialize (Hcl s IH). rewrite forallb_forall in Hcl.
      eapply smem_In; eauto. apply Hcl. apply step_in_succs; auto. apply reachable_sized; auto.
  Qed.

  (** ** everybody has finished, as a boolean *)
  Definition final_b (s : State) : bool :=
    forallb (fun i => match node_at s i with
                      | Some x => finished (n_sem NW i) x
                      | None => true end) (seq 0 (length (nodes s))).

  Lemma final_b_spec : forall s, final_b s = true -> final NW s.
  Proof.
    intros s H i x Hx. unfold final_b in H. rewrite forallb_forall in H.
    assert (Hi : In i (seq 0 (length (nodes s)))).
    { apply in_seq. assert (i < length (nodes s)) by (apply nth_error_Some; unfold node_at in *; congruence). lia. }
    specialize (H i Hi). rewrite Hx in H. exact H.
  Qed.

  (** a state is final or somebody can move *)
  Definition progress_b (s : State) : bool :=
    final_b s || existsb (enabled NW s) (seq 0 (length (nodes s))).

  Lemma progress_b_spec : forall s, progress_b s = true -> final NW s \/ exists s', step NW s s'.
  Proof.
    intros s H. apply orb_true_iff in H. destruct H as [H|H].
    - left. apply final_b_spec; auto.
    - right. apply existsb_exists in H. destruct H as [i [_ Hi]]. eapply enabled_step; eauto.
  Qed.

  (** ** layered exploration, for an arbitrary executable successor function [sc] and an
      arbitrary per-state check [good] *)
  Fixpoint dedup (l acc : list State) : list State :=
    match l with
    | [] => rev acc
    | s :: l' => if smem seqb s acc then dedup l' acc else dedup l' (s :: acc)
    end.

  Section Layers.
    Variable sc : State -> list State.
    Variable good : State -> bool.

    Fixpoint layers (fuel : nat) (frontier : list State) : list (list State) :=
      match fuel with
      | 0 => [frontier]
      | S f =>
          match frontier with
          | [] => []
          | _ => frontier :: layers f (dedup (flat_map sc frontier) [])
          end
      end.

    (** every member of [A] passes [good] and every successor of it is a member of [B] *)
    Definition layer_step_b (A B : list State) : bool :=
      forallb (fun s => good s && forallb (fun s' => smem seqb s' B) (sc s)) A.

    Fixpoint layers_ok (Ls : list (list State)) : bool :=
      match Ls with
      | [] => true
      | A :: rest => layer_step_b A (hd [] rest) && layers_ok rest
      end.

    Definition in_layers (s : State) (Ls : list (list State)) : Prop := exists A, In A Ls /\ In s A.

    (** the union of the layers passes [good] and is closed under [sc] *)
    Lemma layers_ok_closed : forall Ls, layers_ok Ls = true ->
      forall s, in_layers s Ls -> good s = true /\ forall s', In s' (sc s) -> in_layers s' Ls.
    Proof.
      induction Ls as [|A rest IH]; intros Hok s [A0 [HA0 Hs]]; [destruct HA0|].
      cbn [layers_ok] in Hok. apply andb_true_iff in Hok. destruct Hok as [HA Hrest].
      destruct HA0 as [<-|HA0].
      - unfold layer_step_b in HA. rewrite forallb_forall in HA. specialize (HA s Hs).
        apply andb_true_iff in HA. destruct HA as [Hg Hsucc]. split; auto.
        intros s' Hs'. rewrite forallb_forall in Hsucc. specialize (Hsucc s' Hs').
        apply (smem_In seqb seqb_sound) in Hsucc.
        destruct rest as [|B rest']; [destruct Hsucc|]. cbn [hd] in Hsucc.
        exists B. split; [right; left; reflexivity | exact Hsucc].
      - destruct (IH Hrest s) as [Hg Hcl]; [exists A0; split; auto|]. split; auto.
        intros s' Hs'. destruct (Hcl s' Hs') as [B [HB HsB]]. exists B. split; [right; exact HB | exact HsB].
    Qed.
  End Layers.

  Definition good_b (s : State) : bool := sized_b s && progress_b s.

  (** ** the layers of the network: [sc := succs NW] *)
  Theorem layers_terminating : forall Ls, layers_ok (succs NW) good_b Ls = true ->
    forall s, In s (hd [] Ls) -> terminating NW s.
  Proof.
    induction Ls as [|A rest IH]; intros Hok s Hin; [destruct Hin|].
    cbn [hd] in Hin. cbn [layers_ok] in Hok. apply andb_true_iff in Hok. destruct Hok as [HA Hrest].
    unfold layer_step_b in HA. rewrite forallb_forall in HA. specialize (HA s Hin).
    apply andb_true_iff in HA. destruct HA as [Hg Hsucc].
    apply andb_true_iff in Hg. destruct Hg as [Hsz Hpr].
    apply sized_b_spec in Hsz. constructor.
    - apply progress_b_spec; auto.
    - intros s' Hs. apply IH; auto.
      rewrite forallb_forall in Hsucc. eapply smem_In; eauto. apply Hsucc.
      apply step_in_succs; auto.
  Qed.

  (** [terminating] is inherited by everything reachable, and contains "no deadlock" *)
  Lemma terminating_step : forall s s', terminating NW s -> step NW s s' -> terminating NW s'.
  Proof. intros s s' H Hs. inversion H; subst. auto. Qed.

  Lemma terminating_reachable : terminating NW (n_init NW) -> forall s, reachable NW s -> terminating NW s.
  Proof. intros H0 s Hr. induction Hr; auto. eapply terminating_step; eauto. Qed.

  Lemma terminating_not_stuck : forall s, terminating NW s -> ~ stuck NW s.
  Proof.
    intros s H [Hnf Hno]. inversion H as [s0 Hp _]; subst.
    destruct Hp as [Hf|[s' Hs]]; [auto | exact (Hno s' Hs)].
  Qed.

  Theorem layers_checked : forall Ls, layers_ok (succs NW) good_b Ls = true ->
    smem seqb (n_init NW) (hd [] Ls) = true ->
    terminating NW (n_init NW) /\
    (forall s, reachable NW s -> ~ final NW s -> exists s', step NW s s') /\
    (forall s, reachable NW s -> ~ stuck NW s).
  Proof.
    intros Ls Hok Hi.
    assert (Ht : terminating NW (n_init NW)).
    { eapply layers_terminating; eauto. eapply smem_In; eauto. }
    split; [exact Ht|]. split.
    - intros s Hr Hnf. pose proof (terminating_reachable Ht s Hr) as H.
      inversion H as [s0 Hp _]; subst. destruct Hp as [Hf|Hp]; [contradiction | exact Hp].
    - intros s Hr. apply terminating_not_stuck. apply terminating_reachable; auto.
  Qed.

  (** every reachable state is in one of the layers (used to count / inspect them) *)
  Theorem layers_cover : forall Ls, layers_ok (succs NW) good_b Ls = true ->
    smem seqb (n_init NW) (hd [] Ls) = true ->
    forall s, reachable NW s -> in_layers s Ls.
  Proof.
    intros Ls Hok Hi s Hr. induction Hr as [|s s' Hr IH Hs].
    - destruct Ls as [|A rest]; [discriminate|]. cbn [hd] in Hi.
      exists A. split; [left; reflexivity | eapply smem_In; eauto].
    - destruct (layers_ok_closed _ _ Ls Hok s IH) as [Hg Hcl]. apply Hcl.
      apply andb_true_iff in Hg. destruct Hg as [Hsz _]. apply step_in_succs; auto.
      apply sized_b_spec; auto.
  Qed.

  (** ** a restricted ("guarded") semantics: only the actions allowed by [guard] are taken.
      Used to cut the over-approximation of a non-blocking `try_recv` loop (the internal step
      that leaves the loop is allowed only while the channel is empty). Every guarded step is
      a step, so guarded-reachable states are reachable and a stuck state is guarded-stuck. *)
  Section Guarded.
    Variable guard : State -> action -> bool.

    Definition gsuccs (s : State) : list State :=
      flat_map (fun a => if guard s a then match exec NW s a with Some s' => [s'] | None => [] end else [])
               (all_actions NW).

    Inductive greachable : State -> Prop :=
    | greach_init : greachable (n_init NW)
    | greach_step : forall s s', greachable s -> In s' (gsuccs s) -> greachable s'.

    Definition gstuck (s : State) : Prop := ~ final NW s /\ gsuccs s = [].

    Lemma gsuccs_step : forall s s', In s' (gsuccs s) -> step NW s s'.
    Proof.
      intros s s' H. unfold gsuccs in H. apply in_flat_map in H. destruct H as [a [_ H]].
      destruct (guard s a); [|destruct H].
      destruct (exec NW s a) as [s1|] eqn:E; [|destruct H].
      destruct H as [<-|[]]. eapply exec_sound; eauto.
    Qed.

    Lemma greachable_reachable : forall s, greachable s -> reachable NW s.
    Proof. intros s H. induction H; [constructor|]. econstructor; eauto. apply gsuccs_step; auto. Qed.

    Lemma stuck_gstuck : forall s, stuck NW s -> gstuck s.
    Proof.
      intros s [Hnf Hno]. split; auto. destruct (gsuccs s) as [|s' l] eqn:E; auto.
      exfalso. apply (Hno s'). apply gsuccs_step. rewrite E. left; reflexivity.
    Qed.

    Definition gprogress_b (s : State) : bool :=
      final_b s || match gsuccs s with [] => false | _ => true end.

    Theorem glayers_checked : forall Ls, layers_ok gsuccs gprogress_b Ls = true ->
      smem seqb (n_init NW) (hd [] Ls) = true ->
      forall s, greachable s -> ~ gstuck s.
    Proof.
      intros Ls Hok Hi s Hr.
      assert (Hin : in_layers s Ls).
      { induction Hr as [|s s' Hr IH Hs].
        - destruct Ls as [|A rest]; [discriminate|]. cbn [hd] in Hi.
          exists A. split; [left; reflexivity | eapply smem_In; eauto].
        - destruct (layers_ok_closed _ _ Ls Hok s IH) as [_ Hcl]. apply Hcl; auto. }
      destruct (layers_ok_closed _ _ Ls Hok s Hin) as [Hg _].
      intros [Hnf He]. unfold gprogress_b in Hg. apply orb_true_iff in Hg. destruct Hg as [Hg|Hg].
      - apply Hnf. apply final_b_spec; auto.
      - rewrite He in Hg. discriminate.
    Qed.

    (** replaying a schedule, checking the guard at every step *)
    Fixpoint gexec_all (s : State) (l : list action) : option State :=
      match l with
      | [] => Some s
      | a :: l' => if guard s a then match exec NW s a with Some s' => gexec_all s' l' | None => None end
                   else None
      end.

    Lemma gexec_all_greachable : forall l s s', greachable s -> gexec_all s l = Some s' ->
      (forall a, In a l -> In a (all_actions NW)) -> greachable s'.
    Proof.
      induction l as [|a l IH]; intros s s' Hr H Hall; cbn [gexec_all] in H.
      - inversion H; subst; auto.
      - destruct (guard s a) eqn:G; [|discriminate].
        destruct (exec NW s a) as [s1|] eqn:E; [|discriminate].
        apply (IH s1 s'); auto.
        + econstructor; eauto. unfold gsuccs. apply in_flat_map. exists a. split.
          * apply Hall. left; reflexivity.
          * rewrite G, E. left; reflexivity.
        + intros b Hb. apply Hall. right; auto.
    Qed.

    Lemma gexec_all_exec_all : forall l s s', gexec_all s l = Some s' -> exec_all NW s l = Some s'.
    Proof.
      induction l as [|a l IH]; intros s s' H; cbn [gexec_all exec_all] in *; auto.
      destruct (guard s a); [|discriminate].
      destruct (exec NW s a) as [s1|]; [auto | discriminate].
    Qed.
  End Guarded.
End LoopCheck.

(** * Loop replicas: a concrete instance of the node interface

    Messages are batches; with `BatchMode::single` every stream element travels alone
    (`Batcher::enqueue` sends at once), End sends FlushAndRestart and Terminate as batches of
    their own. [LD] a data batch, [LF] FlushAndRestart, [LT] Terminate, [LDelta] the DeltaUpdate
    of an `IterationEnd` replica, [LCont]/[LFin] the leader's `(Continue|Finished, state)`. *)
Inductive lmsg := LD | LF | LT | LDelta | LCont | LFin.

(** One state type for all kinds of replicas; how a kind uses the fields:
    - all: [l_q] the blocking sends still to do, in order (a replica pulls its next element
      only when this is empty); [l_done]: Terminate has been pulled, the replica leaves its
      loop once [l_q] is empty;
    - `Iterate` head: [l_pc] where `Iterate::next` stands (0 top of its loop = the `try_recv`
      loop, 1 `input_or_feedback` with an empty stash, 2 `input_or_feedback` until the feedback
      of the round is complete, 3 `wait_update`), [l_stash] = `input_stash`, [l_content] =
      `content`, [l_fbc] = `feedback_content`, [l_infin] = `input_finished`;
    - `Replay` head: [l_pc] (0 in `Replay::next`, 1 `wait_update`), [l_stash] what the chain
      in front of Replay (`prev.next()`) will still return, [l_content] = `content`, [l_n1] =
      `content_index`, [l_n2] the number of data elements sent so far (indexes the routing of
      the shuffle), [l_infin] = `input_finished`;
    - leader: [l_n1] = `iteration_index`, [l_n2] = `missing_state_updates`, [l_n3] =
      `missing_terminate` of its inner Start;
    - sinks: [l_n3] = `missing_terminate`. *)
Record lstate := {
  l_q : list (nat * lmsg);
  l_pc : nat;
  l_stash : list lmsg;
  l_content : list lmsg;
  l_fbc : list lmsg;
  l_infin : bool;
  l_n1 : nat; l_n2 : nat; l_n3 : nat;
  l_done : bool
}.

Definition lst0 : lstate :=
  {| l_q := []; l_pc := 0; l_stash := []; l_content := []; l_fbc := []; l_infin := false;
     l_n1 := 0; l_n2 := 0; l_n3 := 0; l_done := false |}.

Definition set_q (x : lstate) (q : list (nat * lmsg)) : lstate :=
  {| l_q := q; l_pc := l_pc x; l_stash := l_stash x; l_content := l_content x; l_fbc := l_fbc x;
     l_infin := l_infin x; l_n1 := l_n1 x; l_n2 := l_n2 x; l_n3 := l_n3 x; l_done := l_done x |}.
Definition set_pc (x : lstate) (pc : nat) : lstate :=
  {| l_q := l_q x; l_pc := pc; l_stash := l_stash x; l_content := l_content x; l_fbc := l_fbc x;
     l_infin := l_infin x; l_n1 := l_n1 x; l_n2 := l_n2 x; l_n3 := l_n3 x; l_done := l_done x |}.
Definition set_stash (x : lstate) (l : list lmsg) : lstate :=
  {| l_q := l_q x; l_pc := l_pc x; l_stash := l; l_content := l_content x; l_fbc := l_fbc x;
     l_infin := l_infin x; l_n1 := l_n1 x; l_n2 := l_n2 x; l_n3 := l_n3 x; l_done := l_done x |}.
Definition set_content (x : lstate) (l : list lmsg) : lstate :=
  {| l_q := l_q x; l_pc := l_pc x; l_stash := l_stash x; l_content := l; l_fbc := l_fbc x;
     l_infin := l_infin x; l_n1 := l_n1 x; l_n2 := l_n2 x; l_n3 := l_n3 x; l_done := l_done x |}.
Definition set_fbc (x : lstate) (l : list lmsg) : lstate :=
  {| l_q := l_q x; l_pc := l_pc x; l_stash := l_stash x; l_content := l_content x; l_fbc := l;
     l_infin := l_infin x; l_n1 := l_n1 x; l_n2 := l_n2 x; l_n3 := l_n3 x; l_done := l_done x |}.
Definition set_infin (x : lstate) (b : bool) : lstate :=
  {| l_q := l_q x; l_pc := l_pc x; l_stash := l_stash x; l_content := l_content x; l_fbc := l_fbc x;
     l_infin := b; l_n1 := l_n1 x; l_n2 := l_n2 x; l_n3 := l_n3 x; l_done := l_done x |}.
Definition set_n (x : lstate) (a b c : nat) : lstate :=
  {| l_q := l_q x; l_pc := l_pc x; l_stash := l_stash x; l_content := l_content x; l_fbc := l_fbc x;
     l_infin := l_infin x; l_n1 := a; l_n2 := b; l_n3 := c; l_done := l_done x |}.
Definition set_done (x : lstate) : lstate :=
  {| l_q := l_q x; l_pc := l_pc x; l_stash := l_stash x; l_content := l_content x; l_fbc := l_fbc x;
     l_infin := l_infin x; l_n1 := l_n1 x; l_n2 := l_n2 x; l_n3 := l_n3 x; l_done := true |}.

Definition is_LF (m : lmsg) : bool := match m with LF => true | _ => false end.
Definition to_all (cs : list nat) (m : lmsg) : list (nat * lmsg) := map (fun c => (c, m)) cs.

Inductive lkind :=
| KSource
    (* the block in front of the loop: its whole output is in [l_q] initially *)
| KIterHead (k cin cfb cst cb cout : nat)
    (* block `Iterate -> flat_map (k outputs per element) -> End`: input channel, feedback
       (data) channel, state channel from the leader, channel into the body, channel to the
       block that receives the output of the loop *)
| KFwd (cin : nat) (douts fouts touts : list nat)
    (* block `Start -> End` with one producer: forwards a data batch to [douts], the
       FlushAndRestart to [fouts], the Terminate to [touts], in this order *)
| KFoldEnd (cin cd : nat)
    (* block `Start -> [map] -> key_by -> fold -> IterationEnd` with one producer: data is
       absorbed by the fold; at FlushAndRestart ONE DeltaUpdate goes to the leader (the folded
       one, or the default one if the round was empty); Terminate goes to the leader *)
| KLeader (cd nrecv : nat) (csts : list nat) (clo maxit : nat)
    (* `IterationLeader -> End`: delta channel fed by [nrecv] `IterationEnd` replicas, state
       channels of the heads, channel of the block downstream of the loop, bound *)
| KSink (cin : nat)
    (* a block downstream of the loop: reads everything, leaves at Terminate *)
| KReplayHead (rt : list nat) (cst : nat) (cbs : list nat).
    (* block `source -> Replay -> End (shuffle)`: the i-th data element sent goes to channel
       [nth i rt]; markers go to all of [cbs]; state channel from the leader *)

(** ** `Iterate` (src/operator/iteration/iterate.rs)

    `Iterate::next` is
      loop {
        (pc 0)  while let Ok(m) = feedback.try_recv() { feedback_content.extend(m) }
                if !input_finished {
        (pc 1)      while input_stash.is_empty() { input_or_feedback() }   // select(input, feedback)
                    return next_input()           // pop the stash; F: input_finished = true;
                }                                 // T: send Terminate to the output block, return T
                if !content.is_empty() { return next_stored() }            // pop content
        (pc 2)  while !feedback_finished() { input_or_feedback() }         // last of feedback_content is F
                swap(content, feedback_content)
        (pc 3)  wait_update()                     // select(state, input), early input is stashed
                if Finished { input_finished = false; send content (one batch) to the output block }
      }
    and an element it returns goes through flat_map (k outputs per data element) and End, which
    does one blocking send per output into the body; only then `Iterate::next` is called again.
    So: the head reads the feedback channel at pc 0 (without blocking), 1 and 2, and NOT while
    it is blocked in a send of End.

    pc 0 is modelled with [wants = [cfb]] AND an internal step (leave the `try_recv` loop):
    the model may leave the loop although the feedback channel is not empty, which the engine
    does only if the message arrives just after the failed `try_recv` (an over-approximation:
    harmless for the no-deadlock / termination results; the deadlock schedule below takes the
    internal step only when the feedback channel is empty, see [iter_schedule_faithful]). *)
Definition head_emit (k cb cout : nat) (m : lmsg) (x : lstate) : lstate :=
  match m with
  | LD => set_q x (repeat (cb, LD) k)
  | LF => set_q x [(cb, LF)]
  | LT => set_done (set_q x [(cout, LT); (cb, LT)])
  | _ => x
  end.

Definition head_decide (k cb cout : nat) (x : lstate) : lstate :=
  if negb (l_infin x) then
    match l_stash x with
    | m :: rest => head_emit k cb cout m (set_infin (set_stash x rest) (is_LF m))
    | [] => set_pc x 1
    end
  else
    match l_content x with
    | m :: rest => head_emit k cb cout m (set_content x rest)
    | [] =>
        if is_LF (last (l_fbc x) LD)
        then set_pc (set_fbc (set_content x (l_fbc x)) []) 3
        else set_pc x 2
    end.

Definition head_recv (k cin cfb cst cb cout : nat) (x : lstate) (c : nat) (m : lmsg) : lstate :=
  match l_pc x with
  | 0 => set_fbc x (l_fbc x ++ [m])
  | 1 => if Nat.eqb c cin
         then head_emit k cb cout m (set_pc (set_infin x (is_LF m)) 0)
         else set_fbc x (l_fbc x ++ [m])
  | 2 => if Nat.eqb c cin then set_stash x (l_stash x ++ [m])
         else if is_LF m
              then set_pc (set_fbc (set_content x (l_fbc x ++ [m])) []) 3
              else set_fbc x (l_fbc x ++ [m])
  | _ => if Nat.eqb c cin then set_stash x (l_stash x ++ [m])
         else match m with
              | LFin => set_q (set_pc (set_content (set_infin x false) []) 0) [(cout, LD)]
              | _ => set_pc x 0
              end
  end.

(** ** `Replay` (src/operator/iteration/replay.rs)
      loop {
        (pc 0)  if !input_finished { match prev.next() { D: content.push(D), return D;
                    F: input_finished = true, content.push(F), content_index = len, return F;
                    T: return T } }
                if content_index < content.len() { return content[content_index++] }
                content_index = 0
        (pc 1)  wait_update()                     // recv on the state channel ONLY
                if Finished { content.clear(); input_finished = false }
      } *)
Definition replay_emit (rt cbs : list nat) (m : lmsg) (x : lstate) : lstate :=
  match m with
  | LD => set_n (set_q x [(nth (l_n2 x) rt 0, LD)]) (l_n1 x) (S (l_n2 x)) (l_n3 x)
  | LF => set_q x (to_all cbs LF)
  | LT => set_done (set_q x (to_all cbs LT))
  | _ => x
  end.

Definition replay_decide (rt cbs : list nat) (x : lstate) : lstate :=
  if negb (l_infin x) then
    match l_stash x with
    | LD :: rest => replay_emit rt cbs LD (set_content (set_stash x rest) (l_content x ++ [LD]))
    | LF :: rest =>
        let x1 := set_infin (set_content (set_stash x rest) (l_content x ++ [LF])) true in
        replay_emit rt cbs LF (set_n x1 (length (l_content x1)) (l_n2 x1) (l_n3 x1))
    | LT :: rest => replay_emit rt cbs LT (set_stash x rest)
    | _ => set_done x
    end
  else if l_n1 x <? length (l_content x)
  then replay_emit rt cbs (nth (l_n1 x) (l_content x) LD) (set_n x (S (l_n1 x)) (l_n2 x) (l_n3 x))
  else set_pc (set_n x 0 (l_n2 x) (l_n3 x)) 1.

(** ** the node semantics *)
Definition l_finished (x : lstate) : bool :=
  l_done x && match l_q x with [] => true | _ => false end.
Definition l_pending (x : lstate) : option (nat * lmsg) :=
  match l_q x with [] => None | p :: _ => Some p end.
Definition l_on_send (x : lstate) : lstate := set_q x (tl (l_q x)).

Definition l_wants (kd : lkind) (x : lstate) : list nat :=
  match kd with
  | KSource => []
  | KIterHead _ cin cfb cst _ _ =>
      match l_pc x with 0 => [cfb] | 1 | 2 => [cin; cfb] | _ => [cst; cin] end
  | KFwd cin _ _ _ => [cin]
  | KFoldEnd cin _ => [cin]
  | KLeader cd _ _ _ _ => [cd]
  | KSink cin => [cin]
  | KReplayHead _ cst _ => match l_pc x with 0 => [] | _ => [cst] end
  end.

Definition l_on_recv (kd : lkind) (x : lstate) (c : nat) (m : lmsg) : lstate :=
  match kd with
  | KSource => x
  | KIterHead k cin cfb cst cb cout => head_recv k cin cfb cst cb cout x c m
  | KFwd _ douts fouts touts =>
      match m with
      | LD => set_q x (to_all douts LD)
      | LF => set_q x (to_all fouts LF)
      | LT => set_done (set_q x (to_all touts LT))
      | _ => x
      end
  | KFoldEnd _ cd =>
      match m with
      | LF => set_q x [(cd, LDelta)]
      | LT => set_done (set_q x [(cd, LT)])
      | _ => x
      end
  | KLeader _ nrecv csts clo maxit =>
      match m with
      | LDelta =>
          if Nat.eqb (pred (l_n2 x)) 0 then
            if S (l_n1 x) <? maxit
            then set_n (set_q x (to_all csts LCont)) (S (l_n1 x)) nrecv (l_n3 x)
            else set_n (set_q x (to_all csts LFin ++ [(clo, LD); (clo, LF)])) 0 nrecv (l_n3 x)
          else set_n x (l_n1 x) (pred (l_n2 x)) (l_n3 x)
      | LT =>
          if Nat.eqb (pred (l_n3 x)) 0
          then set_done (set_n (set_q x [(clo, LT)]) (l_n1 x) (l_n2 x) 0)
          else set_n x (l_n1 x) (l_n2 x) (pred (l_n3 x))
      | _ => x
      end
  | KSink _ =>
      match m with
      | LT => if Nat.eqb (pred (l_n3 x)) 0 then set_done (set_n x (l_n1 x) (l_n2 x) 0)
              else set_n x (l_n1 x) (l_n2 x) (pred (l_n3 x))
      | _ => x
      end
  | KReplayHead _ _ _ =>
      match m with
      | LFin => set_pc (set_infin (set_content x []) false) 0
      | _ => set_pc x 0
      end
  end.

Definition l_on_tau (kd : lkind) (x : lstate) : option lstate :=
  match kd with
  | KIterHead k _ _ _ cb cout => match l_pc x with 0 => Some (head_decide k cb cout x) | _ => None end
  | KReplayHead rt _ cbs => match l_pc x with 0 => Some (replay_decide rt cbs x) | _ => None end
  | _ => None
  end.

Definition l_sem (kd : lkind) : node_sem lmsg lstate :=
  {| finished := l_finished; pending := l_pending; wants := l_wants kd;
     on_send := l_on_send; on_recv := l_on_recv kd; on_tau := l_on_tau kd |}.

(** initial states *)
Definition src_init (c ndata : nat) : lstate :=
  set_done (set_q lst0 (repeat (c, LD) ndata ++ [(c, LF); (c, LT)])).
Definition leader_init (nrecv : nat) : lstate := set_n lst0 0 nrecv nrecv.
Definition sink_init (nprod : nat) : lstate := set_n lst0 0 0 nprod.
Definition replay_head_init (ndata : nat) : lstate := set_stash lst0 (repeat LD ndata ++ [LF; LT]).

(** equality test on states *)
Definition lmsg_eqb (a b : lmsg) : bool :=
  match a, b with
  | LD, LD | LF, LF | LT, LT | LDelta, LDelta | LCont, LCont | LFin, LFin => true
  | _, _ => false
  end.
Definition lout_eqb (a b : nat * lmsg) : bool := Nat.eqb (fst a) (fst b) && lmsg_eqb (snd a) (snd b).
Definition lstate_eqb (a b : lstate) : bool :=
  list_eqb lout_eqb (l_q a) (l_q b) && Nat.eqb (l_pc a) (l_pc b) &&
  list_eqb lmsg_eqb (l_stash a) (l_stash b) && list_eqb lmsg_eqb (l_content a) (l_content b) &&
  list_eqb lmsg_eqb (l_fbc a) (l_fbc b) && Bool.eqb (l_infin a) (l_infin b) &&
  Nat.eqb (l_n1 a) (l_n1 b) && Nat.eqb (l_n2 a) (l_n2 b) && Nat.eqb (l_n3 a) (l_n3 b) &&
  Bool.eqb (l_done a) (l_done b).
Definition ls_eqb (a b : state lmsg lstate) : bool :=
  list_eqb lstate_eqb (nodes a) (nodes b) && list_eqb (list_eqb lmsg_eqb) (chans a) (chans b).

Lemma lmsg_eqb_sound : forall a b, lmsg_eqb a b = true -> a = b.
Proof. intros [] []; cbn; congruence. Qed.
Lemma lout_eqb_sound : forall a b, lout_eqb a b = true -> a = b.
Proof.
  intros [a1 a2] [b1 b2] H. unfold lout_eqb in H. cbn [fst snd] in H.
  apply andb_true_iff in H. destruct H as [H1 H2]. apply Nat.eqb_eq in H1. apply lmsg_eqb_sound in H2.
  subst. reflexivity.
Qed.
Lemma lstate_eqb_sound : forall a b, lstate_eqb a b = true -> a = b.
Proof.
  intros [q1 p1 s1 c1 f1 i1 a1 b1 d1 e1] [q2 p2 s2 c2 f2 i2 a2 b2 d2 e2] H. unfold lstate_eqb in H.
  cbn [l_q l_pc l_stash l_content l_fbc l_infin l_n1 l_n2 l_n3 l_done] in H.
  repeat (apply andb_true_iff in H; destruct H as [H ?]).
  apply (list_eqb_sound lout_eqb lout_eqb_sound) in H.
  repeat match goal with E : list_eqb lmsg_eqb _ _ = true |- _ =>
    apply (list_eqb_sound lmsg_eqb lmsg_eqb_sound) in E end.
  repeat match goal with E : Nat.eqb _ _ = true |- _ => apply Nat.eqb_eq in E end.
  repeat match goal with E : Bool.eqb _ _ = true |- _ => apply Bool.eqb_prop in E end.
  subst. reflexivity.
Qed.
Lemma ls_eqb_sound : forall a b, ls_eqb a b = true -> a = b.
Proof.
  intros [n1 c1] [n2 c2] H. unfold ls_eqb in H. cbn [nodes chans] in H.
  apply andb_true_iff in H. destruct H as [H1 H2].
  apply (list_eqb_sound lstate_eqb lstate_eqb_sound) in H1.
  apply (list_eqb_sound _ (list_eqb_sound lmsg_eqb lmsg_eqb_sound)) in H2.
  subst. reflexivity.
Qed.

(** checking a concrete network: the layers are computed and checked in one go *)
Definition check_net (NW : net lmsg lstate) (fuel : nat) : bool :=
  let Ls := layers ls_eqb (succs NW) fuel [n_init NW] in
  layers_ok ls_eqb (succs NW) (good_b NW) Ls && smem ls_eqb (n_init NW) (hd [] Ls).

Theorem check_net_sound : forall NW fuel, check_net NW fuel = true ->
  terminating NW (n_init NW) /\
  (forall s, reachable NW s -> ~ final NW s -> exists s', step NW s s') /\
  (forall s, reachable NW s -> ~ stuck NW s).
Proof.
  intros NW fuel H. unfold check_net in H. apply andb_true_iff in H. destruct H as [H1 H2].
  eapply (layers_checked NW ls_eqb ls_eqb_sound); eauto.
Qed.

(** the same for the guarded semantics (safety only) *)
Definition gcheck_net (NW : net lmsg lstate) (guard : state lmsg lstate -> action -> bool) (fuel : nat) : bool :=
  let Ls := layers ls_eqb (gsuccs NW guard) fuel [n_init NW] in
  layers_ok ls_eqb (gsuccs NW guard) (gprogress_b NW guard) Ls && smem ls_eqb (n_init NW) (hd [] Ls).

Theorem gcheck_net_sound : forall NW guard fuel, gcheck_net NW guard fuel = true ->
  forall s, greachable NW guard s -> ~ gstuck NW guard s.
Proof.
  intros NW guard fuel H. unfold gcheck_net in H. apply andb_true_iff in H. destruct H as [H1 H2].
  eapply (glayers_checked NW ls_eqb ls_eqb_sound); eauto.
Qed.

(** the number of distinct states met by the exploration (= the number of reachable states
    when the check succeeds: the layers consist of reachable states and, by [layers_cover],
    contain all of them) *)
Definition count_states (sc : state lmsg lstate -> list (state lmsg lstate)) (s0 : state lmsg lstate)
  (fuel : nat) : nat :=
  length (dedup ls_eqb (concat (layers ls_eqb sc fuel [s0])) []).

(** number of layers and sum of their sizes (each layer is duplicate-free; an upper bound of
    the number of distinct states, cheaper to compute) *)
Definition layer_total (sc : state lmsg lstate -> list (state lmsg lstate)) (s0 : state lmsg lstate)
  (fuel : nat) : nat * nat :=
  let Ls := layers ls_eqb sc fuel [s0] in (length Ls, list_sum (map (@length _) Ls)).

(** schedules mention only actions of the network *)
Definition action_eqb (a b : action) : bool :=
  match a, b with
  | ASend i, ASend j => Nat.eqb i j
  | ARecv i c, ARecv j d => Nat.eqb i j && Nat.eqb c d
  | ATau i, ATau j => Nat.eqb i j
  | _, _ => false
  end.
Lemma action_eqb_sound : forall a b, action_eqb a b = true -> a = b.
Proof.
  intros [i|i c|i] [j|j d|j] H; cbn in H; try discriminate.
  - apply Nat.eqb_eq in H. congruence.
  - apply andb_true_iff in H. destruct H as [H1 H2]. apply Nat.eqb_eq in H1. apply Nat.eqb_eq in H2. congruence.
  - apply Nat.eqb_eq in H. congruence.
Qed.
Definition acts_ok {msg st} (NW : net msg st) (l : list action) : bool :=
  forallb (fun a => existsb (action_eqb a) (all_actions NW)) l.
Lemma acts_ok_spec {msg st} (NW : net msg st) : forall l, acts_ok NW l = true ->
  forall a, In a l -> In a (all_actions NW).
Proof.
  intros l H a Ha. unfold acts_ok in H. rewrite forallb_forall in H. specialize (H a Ha).
  apply existsb_exists in H. destruct H as [b [Hb He]]. apply action_eqb_sound in He. subst. exact Hb.
Qed.

(** * ITERATE (finding F9)

    The job: `source.iterate(n, ..., |s, _| s.flat_map(k outputs per element), ...)` on one
    host with ONE replica per block. `Stream::iterate` (iterate.rs) builds the blocks

      IN  = source -> End                          (the block in front of the loop)
      H   = Iterate -> flat_map -> End             (the head; End ignores the output block)
      B   = Start -> End                           (`split_block` + `mark_feedback`: the end of
                                                    the body; sends to H's feedback receiver AND
                                                    to S; Terminate is not sent to the feedback)
      S   = Start -> key_by -> fold -> IterationEnd
      L   = IterationLeader -> End
      O   = Start -> ...                           (receives the output of the loop from H)
      LO  = Start -> ...                           (receives the final state from L)

    nodes  0 = IN  1 = H  2 = B  3 = S  4 = L  5 = O  6 = LO
    chans  0 = IN->H (input)   1 = H->B (into the body)   2 = B->H (FEEDBACK, data)
           3 = B->S            4 = S->L (delta)           5 = L->H (state feedback)
           6 = H->O            7 = L->LO

    The data cycle is 1 -> B -> 2 -> H -> 1; the control cycle 1 -> B -> 3 -> S -> 4 -> L -> 5 -> H.

    Abstracted (stated precisely):
    - data values, the state values and the loop condition (always true: the bound decides);
    - every stream element is a batch of its own (`BatchMode::single`); the content H sends to
      O at the end is ONE batch, as in the engine;
    - the order in which B's End serves its two destination blocks is the iteration order of
      a HashMap in the engine; [b_outs] fixes it ([2; 3]: feedback first, [3; 2]: S first);
    - `IterationStateLock` / the barrier of `wait_sync_state` (shared memory between the
      threads of a host, no channel): with one head replica the barrier is trivial, and a
      `wait_for_update` is reached only through a message that H emitted after `unlock`;
    - O and LO are sinks that read everything; the leader's inner `Start` is folded into L;
    - watermarks, timeouts (`FlushBatch`), and the disconnection of the input channel (after
      Terminate nothing more arrives on it: same as an empty channel). *)
Section IterateNet.
  Definition iter_kind (b_outs : list nat) (k maxit : nat) (i : nat) : lkind :=
    match i with
    | 0 => KSource
    | 1 => KIterHead k 0 2 5 1 6
    | 2 => KFwd 1 b_outs b_outs [3]
    | 3 => KFoldEnd 3 4
    | 4 => KLeader 4 1 [5] 7 maxit
    | 5 => KSink 6
    | _ => KSink 7
    end.

  (** [k] outputs per element, [ndata] input elements, capacity [cap], at most [maxit] rounds *)
  Definition iter_gen (b_outs : list nat) (k ndata cap maxit : nat) : net lmsg lstate :=
    {| n_nodes := 7; n_chans := 8;
       n_cons := fun c => match c with 0 => 1 | 1 => 2 | 2 => 1 | 3 => 3 | 4 => 4 | 5 => 1 | 6 => 5 | _ => 6 end;
       n_prod := fun c i => match c with
                            | 0 => Nat.eqb i 0 | 1 => Nat.eqb i 1 | 2 | 3 => Nat.eqb i 2
                            | 4 => Nat.eqb i 3 | 5 => Nat.eqb i 4 | 6 => Nat.eqb i 1 | _ => Nat.eqb i 4
                            end;
       n_cap := fun _ => cap;
       n_sem := fun i => l_sem (iter_kind b_outs k maxit i);
       n_init := {| nodes := [src_init 0 ndata; lst0; lst0; lst0; leader_init 1; sink_init 1; sink_init 1];
                    chans := [[]; []; []; []; []; []; []; []] |} |}.

  (** the witness of F9: k = 2, ONE input element, capacity 1, 2 rounds *)
  Definition iter_net : net lmsg lstate := iter_gen [2; 3] 2 1 1 2.

  (** a loop has no topological numbering: the feedback channel 2 goes from node 2 to node 1 *)
  Lemma iter_net_not_ok : ~ net_ok iter_net.
  Proof.
    intros [_ [Htopo _]]. specialize (Htopo 2 2). cbn in Htopo.
    specialize (Htopo ltac:(lia) eq_refl). lia.
  Qed.

  (** the engine leaves the `try_recv` loop of `Iterate::next` only when the feedback channel
      is empty: H's internal step is faithful only then *)
  Definition iter_guard (s : state lmsg lstate) (a : action) : bool :=
    match a with
    | ATau 1 => match nth 2 (chans s) [] with [] => true | _ => false end
    | _ => true
    end.

  Definition iter_schedule : list action :=
    [ (* round 1: H leaves try_recv, waits in select(input, feedback), pulls the input element,
         End sends its 2 outputs into the body one after the other; B forwards each to the
         feedback channel and to S; H takes them from the feedback channel *)
      ATau 1; ASend 0; ARecv 1 0;
      ASend 1; ARecv 2 1; ASend 1; ASend 2; ASend 2; ARecv 3 3;
      ARecv 1 2; ARecv 2 1; ASend 2; ASend 2; ARecv 3 3; ARecv 1 2;
      (* the input ends: FlushAndRestart goes round the loop, S sends its delta, the leader
         answers Continue (1 < 2) *)
      ATau 1; ASend 0; ARecv 1 0;
      ASend 1; ARecv 2 1; ASend 2; ASend 2; ARecv 3 3; ASend 3; ARecv 4 4; ASend 4;
      (* H completes the feedback of round 1: content = [D; D; F]; it waits for the state,
         stashes the Terminate of the input and gets Continue *)
      ARecv 1 2; ATau 1; ASend 0; ARecv 1 0; ARecv 1 5;
      (* round 2, first stored element: 2 outputs; B has taken the first and is about to
         forward it, the second is in channel 1 *)
      ATau 1; ASend 1; ARecv 2 1; ASend 1;
      (* `Iterate::next` again: the feedback channel is still EMPTY, try_recv fails, H returns the
         second stored element and goes into End's sends *)
      ATau 1;
      (* B forwards the first output (feedback channel full now), takes the second and blocks
         on the full feedback channel; H puts the third output into channel 1 and blocks with
         the fourth *)
      ASend 2; ASend 2; ARecv 3 3; ARecv 2 1; ASend 1 ].

  Definition iter_dead : state lmsg lstate :=
    Eval vm_compute in
      match exec_all iter_net (n_init iter_net) iter_schedule with Some s => s | None => n_init iter_net end.

  Lemma iter_dead_reached : exec_all iter_net (n_init iter_net) iter_schedule = Some iter_dead.
  Proof. vm_compute. reflexivity. Qed.

  (** every internal step of H in the schedule is taken with an empty feedback channel *)
  Lemma iter_schedule_faithful :
    gexec_all iter_net iter_guard (n_init iter_net) iter_schedule = Some iter_dead.
  Proof. vm_compute. reflexivity. Qed.

  Lemma iter_dead_stuck : stuck iter_net iter_dead.
  Proof.
    apply disabled_stuck.
    - vm_compute. reflexivity.
    - intros Hfin. specialize (Hfin 1 _ eq_refl). vm_compute in Hfin. discriminate.
  Qed.

  Theorem iterate_feedback_deadlock : exists s, reachable iter_net s /\ stuck iter_net s.
  Proof.
    exists iter_dead. split.
    - eapply exec_all_reachable. exact iter_dead_reached.
    - exact iter_dead_stuck.
  Qed.

  (** the same with the faithful `try_recv` *)
  Theorem iterate_feedback_deadlock_faithful :
    exists s, greachable iter_net iter_guard s /\ stuck iter_net s.
  Proof.
    exists iter_dead. split.
    - eapply gexec_all_greachable; [constructor | exact iter_schedule_faithful |].
      apply acts_ok_spec. vm_compute. reflexivity.
    - exact iter_dead_stuck.
  Qed.

  (** the blocked state: IN has left; H (round 2, [content] = [F] left, the Terminate of the
      input stashed) is pending with the 4th output of the round on the full channel 1 into
      the body; B is pending with the 2nd output on the full FEEDBACK channel 2, whose only
      reader is H; S, L, O, LO wait on their empty input channels *)
  Lemma iter_dead_shape :
    map l_pending (nodes iter_dead) = [None; Some (1, LD); Some (2, LD); None; None; None; None] /\
    chans iter_dead = [[]; [LD]; [LD]; []; []; []; []; []] /\
    n_cons iter_net 1 = 2 /\ n_cons iter_net 2 = 1 /\
    map (fun i => finished (n_sem iter_net i) (nth i (nodes iter_dead) lst0)) [0; 1; 2; 3; 4; 5; 6] =
      [true; false; false; false; false; false; false] /\
    map (fun i => wants (n_sem iter_net i) (nth i (nodes iter_dead) lst0)) [3; 4; 5; 6] =
      [[3]; [4]; [6]; [7]] /\
    (let h := nth 1 (nodes iter_dead) lst0 in
     l_content h = [LF] /\ l_stash h = [LT] /\ l_infin h = true /\ l_fbc h = []) /\
    l_n1 (nth 4 (nodes iter_dead) lst0) = 1.
  Proof. vm_compute. repeat split. Qed.

  (** ** other witnesses *)

  (** B's End serving S first: same deadlock *)
  Definition iter_net_sfirst : net lmsg lstate := iter_gen [3; 2] 2 1 1 2.
  Definition iter_schedule_sfirst : list action :=
    [ ATau 1; ASend 0; ARecv 1 0;
      ASend 1; ARecv 2 1; ASend 1; ASend 2; ASend 2; ARecv 3 3;
      ARecv 1 2; ARecv 2 1; ASend 2; ASend 2; ARecv 3 3; ARecv 1 2;
      ATau 1; ASend 0; ARecv 1 0;
      ASend 1; ARecv 2 1; ASend 2; ASend 2; ARecv 3 3; ASend 3; ARecv 4 4; ASend 4;
      ARecv 1 2; ATau 1; ASend 0; ARecv 1 0; ARecv 1 5;
      ATau 1; ASend 1; ARecv 2 1; ASend 1;
      ATau 1;
      ASend 2; ASend 2; ARecv 3 3; ARecv 2 1; ASend 2; ARecv 3 3; ASend 1 ].

  Theorem iterate_feedback_deadlock_sfirst :
    exists s, greachable iter_net_sfirst iter_guard s /\ stuck iter_net_sfirst s /\
              map l_pending (nodes s) = [None; Some (1, LD); Some (2, LD); None; None; None; None] /\
              chans s = [[]; [LD]; [LD]; []; []; []; []; []].
  Proof.
    destruct (gexec_all iter_net_sfirst iter_guard (n_init iter_net_sfirst) iter_schedule_sfirst)
      as [s|] eqn:E; [|vm_compute in E; discriminate].
    exists s. split; [|split].
    - eapply gexec_all_greachable; [constructor | exact E |]. apply acts_ok_spec. vm_compute. reflexivity.
    - vm_compute in E. inversion E; subst s. apply disabled_stuck.
      + vm_compute. reflexivity.
      + intros Hfin. specialize (Hfin 1 _ eq_refl). vm_compute in Hfin. discriminate.
    - vm_compute in E. inversion E; subst s. vm_compute. split; reflexivity.
  Qed.

  (** TWO input elements: the deadlock happens already in the first round (one round only) *)
  Definition iter_net_round1 : net lmsg lstate := iter_gen [2; 3] 2 2 1 1.
  Definition iter_schedule_round1 : list action :=
    [ ATau 1; ASend 0; ARecv 1 0; ASend 1; ARecv 2 1; ASend 1; ATau 1; ASend 2; ASend 2; ASend 0;
      ARecv 1 0; ARecv 2 1; ASend 0; ARecv 3 3; ASend 1 ].

  Theorem iterate_feedback_deadlock_round1 :
    exists s, greachable iter_net_round1 iter_guard s /\ stuck iter_net_round1 s /\
              map l_pending (nodes s) = [Some (0, LT); Some (1, LD); Some (2, LD); None; None; None; None] /\
              chans s = [[LF]; [LD]; [LD]; []; []; []; []; []].
  Proof.
    destruct (gexec_all iter_net_round1 iter_guard (n_init iter_net_round1) iter_schedule_round1)
      as [s|] eqn:E; [|vm_compute in E; discriminate].
    exists s. split; [|split].
    - eapply gexec_all_greachable; [constructor | exact E |]. apply acts_ok_spec. vm_compute. reflexivity.
    - vm_compute in E. inversion E; subst s. apply disabled_stuck.
      + vm_compute. reflexivity.
      + intros Hfin. specialize (Hfin 1 _ eq_refl). vm_compute in Hfin. discriminate.
    - vm_compute in E. inversion E; subst s. vm_compute. split; reflexivity.
  Qed.

  (** ** CONTROL: the body does not expand (k = 1): exhaustive enumeration, 574 states *)
  Definition iter_net_k1 : net lmsg lstate := iter_gen [2; 3] 1 1 1 2.

  Lemma iter_net_k1_checked : check_net iter_net_k1 200 = true.
  Proof. vm_compute. reflexivity. Qed.

  Lemma iter_net_k1_states : count_states (succs iter_net_k1) (n_init iter_net_k1) 200 = 574.
  Proof. vm_compute. reflexivity. Qed.

  Theorem iter_net_k1_no_deadlock : forall s, reachable iter_net_k1 s -> ~ stuck iter_net_k1 s.
  Proof. apply (check_net_sound _ _ iter_net_k1_checked). Qed.

  Theorem iter_net_k1_progress :
    forall s, reachable iter_net_k1 s -> ~ final iter_net_k1 s -> exists s', step iter_net_k1 s s'.
  Proof. apply (check_net_sound _ _ iter_net_k1_checked). Qed.

  Theorem iter_net_k1_terminates : terminating iter_net_k1 (n_init iter_net_k1).
  Proof. apply (check_net_sound _ _ iter_net_k1_checked). Qed.

  (** the same with 2 input elements and 3 rounds (1205 states) *)
  Definition iter_net_k1_big : net lmsg lstate := iter_gen [2; 3] 1 2 1 3.

  Lemma iter_net_k1_big_checked : check_net iter_net_k1_big 300 = true.
  Proof. vm_compute. reflexivity. Qed.

  Lemma iter_net_k1_big_states : count_states (succs iter_net_k1_big) (n_init iter_net_k1_big) 300 = 1205.
  Proof. vm_compute. reflexivity. Qed.

  Theorem iter_net_k1_big_safe :
    terminating iter_net_k1_big (n_init iter_net_k1_big) /\
    forall s, reachable iter_net_k1_big s -> ~ stuck iter_net_k1_big s.
  Proof. destruct (check_net_sound _ _ iter_net_k1_big_checked) as [H1 [_ H2]]. split; assumption. Qed.

  (** k = 2 with ONE pulled element in the whole run (1 input element, 1 round): nothing is
      left in the cycle from a previous element, the 2 outputs fit: no deadlock (463 states).
      So the smallest witnesses with capacity 1 are k = 2 with two pulled elements: 1 input
      element and 2 rounds ([iter_net]), or 2 input elements and 1 round ([iter_net_round1]) *)
  Definition iter_net_one_pull : net lmsg lstate := iter_gen [2; 3] 2 1 1 1.

  Lemma iter_net_one_pull_checked : check_net iter_net_one_pull 200 = true.
  Proof. vm_compute. reflexivity. Qed.

  Lemma iter_net_one_pull_states :
    count_states (succs iter_net_one_pull) (n_init iter_net_one_pull) 200 = 463.
  Proof. vm_compute. reflexivity. Qed.

  Theorem iter_net_one_pull_safe :
    terminating iter_net_one_pull (n_init iter_net_one_pull) /\
    forall s, reachable iter_net_one_pull s -> ~ stuck iter_net_one_pull s.
  Proof. destruct (check_net_sound _ _ iter_net_one_pull_checked) as [H1 [_ H2]]. split; assumption. Qed.

  (** ** the threshold, with the faithful `try_recv` and capacity C = 2

      The cycle (channel 1, B's hand, channel 2) holds 2C + 1 messages; H is blocked for good
      when it holds one more. When H passes through `Iterate::next` it empties the feedback
      channel, so at most C + 1 outputs of earlier elements are still in the cycle (channel 1
      full, one in B's hand) when it pulls the next element: the deadlock needs
      (C + 1) + k >= 2C + 2, i.e. k >= C + 1 outputs per pulled element. With C = 16 (engine):
      k >= 17 (the witness reproduced on the engine uses 18: then a full channel 1 is enough,
      B need not be caught with a message in its hand). With C = 2: k = 2 is safe whatever the
      number of stored elements (below: 3 rounds, 4 stored elements in the last), k = 3 deadlocks. *)
  Definition iter_net_c2_k2 : net lmsg lstate := iter_gen [2; 3] 2 1 2 3.

  Lemma iter_net_c2_k2_checked : gcheck_net iter_net_c2_k2 iter_guard 400 = true.
  Proof. vm_compute. reflexivity. Qed.

  (** 151 layers, 4606 states in total (sum of the sizes of the layers) *)
  Lemma iter_net_c2_k2_states :
    layer_total (gsuccs iter_net_c2_k2 iter_guard) (n_init iter_net_c2_k2) 400 = (151, 4606).
  Proof. vm_compute. reflexivity. Qed.

  Theorem iter_net_c2_k2_faithful_no_deadlock :
    forall s, greachable iter_net_c2_k2 iter_guard s -> ~ gstuck iter_net_c2_k2 iter_guard s.
  Proof. apply (gcheck_net_sound _ _ _ iter_net_c2_k2_checked). Qed.

  (** (the over-approximated `try_recv` does deadlock here: H may leave the loop without
      reading, so that more than C + 1 old outputs stay in the cycle) *)
  Lemma iter_net_c2_k2_overapprox_stuck : check_net iter_net_c2_k2 400 = false.
  Proof. vm_compute. reflexivity. Qed.

  Definition iter_net_c2_k3 : net lmsg lstate := iter_gen [2; 3] 3 1 2 2.
  Definition iter_schedule_c2_k3 : list action :=
    [ ATau 1; ASend 0; ARecv 1 0; ASend 1; ARecv 2 1; ASend 1; ASend 1; ATau 1; ASend 2; ASend 2;
      ARecv 2 1; ASend 2; ASend 2; ARecv 2 1; ARecv 1 2; ASend 2; ASend 0; ARecv 1 0;
      ARecv 3 3; ASend 1; ASend 2; ARecv 2 1; ARecv 1 2; ASend 2; ARecv 3 3; ASend 2;
      ARecv 3 3; ARecv 3 3; ASend 3; ARecv 4 4; ARecv 1 2; ARecv 1 2; ASend 4; ATau 1; ARecv 1 5;
      ATau 1; ASend 1; ARecv 2 1; ASend 1; ASend 1; ATau 1; ASend 2; ASend 2; ARecv 2 1; ASend 2;
      ASend 2; ASend 1; ASend 0; ARecv 2 1; ARecv 3 3; ASend 1; ARecv 3 3 ].

  Theorem iter_net_c2_k3_faithful_deadlock :
    exists s, greachable iter_net_c2_k3 iter_guard s /\ stuck iter_net_c2_k3 s /\
              map l_pending (nodes s) = [None; Some (1, LD); Some (2, LD); None; None; None; None] /\
              chans s = [[LT]; [LD; LD]; [LD; LD]; []; []; []; []; []].
  Proof.
    destruct (gexec_all iter_net_c2_k3 iter_guard (n_init iter_net_c2_k3) iter_schedule_c2_k3)
      as [s|] eqn:E; [|vm_compute in E; discriminate].
    exists s. split; [|split].
    - eapply gexec_all_greachable; [constructor | exact E |]. apply acts_ok_spec. vm_compute. reflexivity.
    - vm_compute in E. inversion E; subst s. apply disabled_stuck.
      + vm_compute. reflexivity.
      + intros Hfin. specialize (Hfin 1 _ eq_refl). vm_compute in Hfin. discriminate.
    - vm_compute in E. inversion E; subst s. vm_compute. split; reflexivity.
  Qed.
End IterateNet.

(** * REPLAY

    The job: `source.replay(2, ..., |s, _| s.shuffle().map(..), ...)` with ONE replica of the
    head block and TWO replicas of the body block. `Stream::replay` (replay.rs) builds

      H      = source -> Replay -> End (shuffle)       (Replay is added to the current block)
      B0, B1 = Start -> map -> key_by -> fold -> IterationEnd      (IterationEnd sends to L)
      L      = IterationLeader -> End                  (2 `IterationEnd` replicas to wait for)
      LO     = Start -> ...                            (receives the final state)

    nodes  0 = H   1 = B0   2 = B1   3 = L   4 = LO
    chans  0 = H->B0   1 = H->B1   2 = B0,B1->L (deltas; one channel, two producers)
           3 = L->H (state feedback)   4 = L->LO

    No data flows back; the cycle is H -> B -> L -> H. The head holds 2 data elements; in
    every round it sends each of them to ONE body replica chosen by the shuffle ([rt]: the
    destination channel of the i-th data element sent, over all rounds), then FlushAndRestart
    to both, then blocks in `wait_update` on the state channel; on Continue it replays, on
    Finished it pulls Terminate from the source and sends it to both. The leader answers
    Continue after round 1 and Finished after round 2 (bound n = 2), then forwards the final
    state and FlushAndRestart to LO, and Terminate when both `IterationEnd` have terminated.
    Abstractions as for iterate (values, batches of one element, state lock and barrier,
    sinks). *)
Section ReplayNet.
  Definition replay_kind (rt : list nat) (maxit : nat) (i : nat) : lkind :=
    match i with
    | 0 => KReplayHead rt 3 [0; 1]
    | 1 => KFoldEnd 0 2
    | 2 => KFoldEnd 1 2
    | 3 => KLeader 2 2 [3] 4 maxit
    | _ => KSink 4
    end.

  Definition replay_gen (rt : list nat) (ndata cap maxit : nat) : net lmsg lstate :=
    {| n_nodes := 5; n_chans := 5;
       n_cons := fun c => match c with 0 => 1 | 1 => 2 | 2 => 3 | 3 => 0 | _ => 4 end;
       n_prod := fun c i => match c with
                            | 0 | 1 => Nat.eqb i 0
                            | 2 => Nat.eqb i 1 || Nat.eqb i 2
                            | _ => Nat.eqb i 3
                            end;
       n_cap := fun _ => cap;
       n_sem := fun i => l_sem (replay_kind rt maxit i);
       n_init := {| nodes := [replay_head_init ndata; lst0; lst0; leader_init 2; sink_init 1];
                    chans := [[]; []; []; []; []] |} |}.

  (** 2 data elements, capacity 1, 2 rounds; the shuffle alternates between the replicas *)
  Definition replay_net : net lmsg lstate := replay_gen [0; 1; 0; 1] 2 1 2.

  (** no topological numbering: the state channel 3 goes from node 3 to node 0 *)
  Lemma replay_net_not_ok : ~ net_ok replay_net.
  Proof.
    intros [_ [Htopo _]]. specialize (Htopo 3 3). cbn in Htopo.
    specialize (Htopo ltac:(lia) eq_refl). lia.
  Qed.

  Lemma replay_net_checked : check_net replay_net 200 = true.
  Proof. vm_compute. reflexivity. Qed.

  Lemma replay_net_states : count_states (succs replay_net) (n_init replay_net) 200 = 193.
  Proof. vm_compute. reflexivity. Qed.

  Theorem replay_net_no_deadlock : forall s, reachable replay_net s -> ~ stuck replay_net s.
  Proof. apply (check_net_sound _ _ replay_net_checked). Qed.

  Theorem replay_net_progress :
    forall s, reachable replay_net s -> ~ final replay_net s -> exists s', step replay_net s s'.
  Proof. apply (check_net_sound _ _ replay_net_checked). Qed.

  Theorem replay_net_terminates : terminating replay_net (n_init replay_net).
  Proof. apply (check_net_sound _ _ replay_net_checked). Qed.

  (** non-vacuity: the run does enter round 2: a reachable state in which the head, after the
      leader's Continue (`iteration_index` = 1), replays its first element (the third data
      element it sends) *)
  Definition replay_round2_schedule : list action :=
    [ ATau 0; ASend 0; ARecv 1 0; ATau 0; ASend 0; ARecv 2 1; ATau 0; ASend 0; ASend 0;
      ARecv 1 0; ARecv 2 1; ASend 1; ARecv 3 2; ASend 2; ARecv 3 2; ASend 3; ATau 0; ARecv 0 3; ATau 0 ].

  Lemma replay_round2_reached :
    exists s, reachable replay_net s /\
              l_pending (nth 0 (nodes s) lst0) = Some (0, LD) /\ l_n2 (nth 0 (nodes s) lst0) = 3 /\
              l_n1 (nth 3 (nodes s) lst0) = 1.
  Proof.
    destruct (exec_all replay_net (n_init replay_net) replay_round2_schedule) as [s|] eqn:E;
      [|vm_compute in E; discriminate].
    exists s. split; [eapply exec_all_reachable; exact E|].
    vm_compute in E. inversion E; subst s. vm_compute. repeat split.
  Qed.

  (** ** every routing of the shuffle: 2 data elements x 2 rounds = 4 choices, 16 networks *)
  Fixpoint all_rt (n : nat) : list (list nat) :=
    match n with
    | 0 => [[]]
    | S n' => flat_map (fun l => [0 :: l; 1 :: l]) (all_rt n')
    end.

  Lemma all_rt_complete : forall n rt, length rt = n -> Forall (fun c => c < 2) rt -> In rt (all_rt n).
  Proof.
    induction n as [|n IH]; intros rt Hl Hf.
    - destruct rt; [left; reflexivity | discriminate].
    - destruct rt as [|c rt]; [discriminate|]. inversion Hf; subst. cbn [all_rt].
      apply in_flat_map. exists rt. split; [apply IH; auto|].
      destruct c as [|[|c]]; [left; reflexivity | right; left; reflexivity | lia].
  Qed.

  Lemma replay_all_checked : forallb (fun rt => check_net (replay_gen rt 2 1 2) 200) (all_rt 4) = true.
  Proof. vm_compute. reflexivity. Qed.

  Theorem replay_any_routing : forall rt, length rt = 4 -> Forall (fun c => c < 2) rt ->
    terminating (replay_gen rt 2 1 2) (n_init (replay_gen rt 2 1 2)) /\
    (forall s, reachable (replay_gen rt 2 1 2) s -> ~ stuck (replay_gen rt 2 1 2) s).
  Proof.
    intros rt Hl Hf. pose proof replay_all_checked as H. rewrite forallb_forall in H.
    specialize (H rt (all_rt_complete 4 rt Hl Hf)).
    destruct (check_net_sound _ _ H) as [H1 [_ H2]]. split; assumption.
  Qed.

  (** ... and with 3 rounds (6 choices, 64 networks) *)
  Lemma replay_all_checked_3 : forallb (fun rt => check_net (replay_gen rt 2 1 3) 300) (all_rt 6) = true.
  Proof. vm_compute. reflexivity. Qed.

  Theorem replay_any_routing_3 : forall rt, length rt = 6 -> Forall (fun c => c < 2) rt ->
    terminating (replay_gen rt 2 1 3) (n_init (replay_gen rt 2 1 3)) /\
    (forall s, reachable (replay_gen rt 2 1 3) s -> ~ stuck (replay_gen rt 2 1 3) s).
  Proof.
    intros rt Hl Hf. pose proof replay_all_checked_3 as H. rewrite forallb_forall in H.
    specialize (H rt (all_rt_complete 6 rt Hl Hf)).
    destruct (check_net_sound _ _ H) as [H1 [_ H2]]. split; assumption.
  Qed.
End ReplayNet.

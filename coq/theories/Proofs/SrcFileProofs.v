(** C15 (file sources): the replicas of `FileSource` emit every line of the file exactly
    once, in order; the byte ranges of `CsvSource` are contiguous, cover exactly the body
    and are aligned on record boundaries. *)
From Noir Require Import Model.SrcFile.
From Coq Require Import ZArith List Lia Bool Arith.
Import ListNotations.
Open Scope nat_scope.

(** ** generic list facts *)
Lemma skipn_add {A} (x y : nat) (l : list A) : skipn x (skipn y l) = skipn (y + x) l.
Proof.
  revert l; induction y as [|y IH]; intros l.
  - reflexivity.
  - destruct l as [|b l]; cbn [skipn Nat.add].
    + apply skipn_nil.
    + apply IH.
Qed.

Lemma firstn_add {A} (x y : nat) (l : list A) :
  firstn x l ++ firstn y (skipn x l) = firstn (x + y) l.
Proof.
  revert l; induction x as [|x IH]; intros l.
  - reflexivity.
  - destruct l as [|b l]; cbn [firstn skipn Nat.add app].
    + rewrite firstn_nil. reflexivity.
    + f_equal. apply IH.
Qed.

Lemma firstn_telescope {A} (l : list A) (a b c : nat) :
  a <= b -> b <= c ->
  firstn (b - a) (skipn a l) ++ firstn (c - b) (skipn b l) = firstn (c - a) (skipn a l).
Proof.
  intros Hab Hbc.
  replace (skipn b l) with (skipn (b - a) (skipn a l))
    by (rewrite skipn_add; f_equal; lia).
  replace (c - a) with ((b - a) + (c - b)) by lia.
  apply firstn_add.
Qed.

Lemma nth_error_mid {A} (l1 l2 l3 : list A) (x : A) :
  nth_error (l1 ++ l2 ++ x :: l3) (length l1 + length l2) = Some x.
Proof.
  rewrite nth_error_app2 by lia.
  replace (length l1 + length l2 - length l1) with (length l2) by lia.
  rewrite nth_error_app2 by lia.
  rewrite Nat.sub_diag. reflexivity.
Qed.

Lemma cons_ne (b : Z) (l : list Z) : b :: l <> [].
Proof. discriminate. Qed.

(** ** [read_until] *)
Lemma read_until_app l a r : read_until l = (a, r) -> l = a ++ r.
Proof.
  revert a r; induction l as [|b l IH]; intros a r H; cbn [read_until] in H.
  - inversion H; reflexivity.
  - destruct (Z.eqb b NL).
    + inversion H; reflexivity.
    + destruct (read_until l) as [a' r'] eqn:E. inversion H; subst.
      cbn [app]. f_equal. apply IH; reflexivity.
Qed.

Lemma read_until_len l a r : read_until l = (a, r) -> length l = length a + length r.
Proof. intros H. rewrite (read_until_app _ _ _ H). apply app_length. Qed.

Lemma read_until_nonempty l a r : read_until l = (a, r) -> l <> [] -> 1 <= length a.
Proof.
  destruct l as [|b l]; intros H Hne; [congruence|].
  cbn [read_until] in H. destruct (Z.eqb b NL).
  - inversion H; cbn; lia.
  - destruct (read_until l) as [a' r']. inversion H; cbn; lia.
Qed.

(** resuming inside the line that [read_until] would read yields the rest of that line *)
Lemma read_until_skip l a r k :
  read_until l = (a, r) -> k < length a -> read_until (skipn k l) = (skipn k a, r).
Proof.
  revert a r k; induction l as [|b l IH]; intros a r k H Hk.
  - cbn [read_until] in H. inversion H; subst. cbn in Hk; lia.
  - destruct k as [|k].
    + cbn [skipn]. exact H.
    + cbn [read_until] in H. destruct (Z.eqb b NL).
      * inversion H; subst. cbn in Hk; lia.
      * destruct (read_until l) as [a' r'] eqn:E. inversion H; subst.
        cbn [skipn]. apply IH; [reflexivity|]. cbn in Hk; lia.
Qed.

(** [read_until] stops just after a newline, or at the end of the input *)
Lemma read_until_end l a r :
  read_until l = (a, r) -> r = [] \/ exists a', a = a' ++ [NL].
Proof.
  revert a r; induction l as [|b l IH]; intros a r H; cbn [read_until] in H.
  - inversion H; auto.
  - destruct (Z.eqb b NL) eqn:Eb.
    + apply Z.eqb_eq in Eb. inversion H; subst. right. exists []. reflexivity.
    + destruct (read_until l) as [a' r'] eqn:E. inversion H; subst.
      destruct (IH a' r eq_refl) as [Hr | [a'' Ha]]; [auto|].
      right. exists (b :: a''). subst a'. reflexivity.
Qed.

(** ** [lines] *)
Lemma lines_fuel_indep f1 : forall f2 l,
  length l <= f1 -> length l <= f2 -> lines_fuel f1 l = lines_fuel f2 l.
Proof.
  induction f1 as [|f1 IH]; intros f2 l H1 H2.
  - destruct l; [|cbn in H1; lia]. destruct f2; reflexivity.
  - destruct l as [|b l]; [destruct f2; reflexivity|].
    destruct f2 as [|f2]; [cbn in H2; lia|].
    cbn [lines_fuel].
    destruct (read_until (b :: l)) as [a r] eqn:E.
    f_equal.
    pose proof (read_until_len _ _ _ E).
    pose proof (read_until_nonempty _ _ _ E (cons_ne _ _)).
    apply IH; lia.
Qed.

Lemma lines_nil : lines [] = [].
Proof. reflexivity. Qed.

Lemma lines_cons l a r : l <> [] -> read_until l = (a, r) -> lines l = a :: lines r.
Proof.
  intros Hne E. unfold lines. destruct l as [|b l]; [congruence|].
  cbn [length lines_fuel]. rewrite E. f_equal.
  pose proof (read_until_len _ _ _ E).
  pose proof (read_until_nonempty _ _ _ E (cons_ne _ _)).
  cbn [length] in *.
  apply lines_fuel_indep; lia.
Qed.

Lemma concat_lines_fuel f : forall l, length l <= f -> concat (lines l) = l.
Proof.
  induction f as [|f IH]; intros l Hl.
  - destruct l; [reflexivity|cbn in Hl; lia].
  - destruct l as [|b l]; [reflexivity|].
    destruct (read_until (b :: l)) as [a r] eqn:E.
    rewrite (lines_cons _ _ _ (cons_ne _ _) E).
    cbn [concat].
    pose proof (read_until_len _ _ _ E).
    pose proof (read_until_nonempty _ _ _ E (cons_ne _ _)).
    rewrite IH by lia.
    symmetry. apply read_until_app. exact E.
Qed.

Lemma concat_lines l : concat (lines l) = l.
Proof. apply (concat_lines_fuel (length l)). lia. Qed.

(** ** selecting the lines whose start position lies in [lo, hi];
       [cur] is the position of the first line of [L] *)
Fixpoint sel (cur lo hi : nat) (L : list (list Z)) : list (list Z) :=
  match L with
  | [] => []
  | a :: L' =>
      (if (lo <=? cur) && (cur <=? hi) then [a] else []) ++ sel (cur + length a) lo hi L'
  end.

Lemma sel_above L : forall cur lo hi, hi < cur -> sel cur lo hi L = [].
Proof.
  induction L as [|a L IH]; intros cur lo hi H; cbn [sel]; [reflexivity|].
  replace (cur <=? hi) with false by (symmetry; apply Nat.leb_gt; lia).
  rewrite andb_false_r. cbn [app]. apply IH. lia.
Qed.

Lemma sel_lo_irrel L : forall cur lo lo' hi,
  lo <= cur -> lo' <= cur -> sel cur lo hi L = sel cur lo' hi L.
Proof.
  induction L as [|a L IH]; intros cur lo lo' hi H H'; cbn [sel]; [reflexivity|].
  replace (lo <=? cur) with true by (symmetry; apply Nat.leb_le; lia).
  replace (lo' <=? cur) with true by (symmetry; apply Nat.leb_le; lia).
  f_equal. apply IH; lia.
Qed.

Lemma sel_split L : forall cur lo m hi,
  lo <= m + 1 -> m <= hi ->
  sel cur lo m L ++ sel cur (m + 1) hi L = sel cur lo hi L.
Proof.
  induction L as [|a L IH]; intros cur lo m hi H1 H2; [reflexivity|].
  destruct (Nat.le_gt_cases cur m) as [Hc | Hc].
  - cbn [sel].
    replace (m + 1 <=? cur) with false by (symmetry; apply Nat.leb_gt; lia).
    replace (cur <=? m) with true by (symmetry; apply Nat.leb_le; lia).
    replace (cur <=? hi) with true by (symmetry; apply Nat.leb_le; lia).
    cbn [andb app]. rewrite <- app_assoc. f_equal. apply IH; lia.
  - rewrite (sel_above (a :: L) cur lo m) by lia. cbn [app].
    apply sel_lo_irrel; lia.
Qed.

Lemma sel_all L : forall cur hi, cur + length (concat L) <= hi -> sel cur 0 hi L = L.
Proof.
  induction L as [|a L IH]; intros cur hi H; cbn [sel]; [reflexivity|].
  cbn [concat] in H. rewrite app_length in H.
  replace (cur <=? hi) with true by (symmetry; apply Nat.leb_le; lia).
  cbn [Nat.leb andb app]. f_equal. apply IH. lia.
Qed.

(** ** the reading loop emits exactly the lines starting in [cur, endp] *)
Lemma read_lines_sel fuel : forall cur lo endp rest,
  length rest < fuel -> lo <= cur ->
  read_lines fuel cur endp rest = sel cur lo endp (lines rest).
Proof.
  induction fuel as [|f IH]; intros cur lo endp rest Hf Hlo; [lia|].
  cbn [read_lines].
  destruct (Nat.leb cur endp) eqn:Ec.
  - destruct rest as [|b rest]; [reflexivity|].
    destruct (read_until (b :: rest)) as [line r] eqn:E.
    rewrite (lines_cons _ _ _ (cons_ne _ _) E).
    cbn [sel]. rewrite Ec.
    replace (lo <=? cur) with true by (symmetry; apply Nat.leb_le; lia).
    cbn [andb app]. f_equal.
    pose proof (read_until_len _ _ _ E).
    pose proof (read_until_nonempty _ _ _ E (cons_ne _ _)).
    apply IH; lia.
  - apply Nat.leb_gt in Ec. rewrite sel_above by lia. reflexivity.
Qed.

(** ** skipping the partial first line resumes at the first line start > [s] *)
Lemma resume_sel f : forall l cur s endp d r,
  length l <= f -> cur <= s ->
  read_until (skipn (s - cur) l) = (d, r) ->
  sel (s + length d) (s + 1) endp (lines r) = sel cur (s + 1) endp (lines l).
Proof.
  induction f as [|f IH]; intros l cur s endp d r Hf Hcs E.
  - destruct l; [|cbn in Hf; lia].
    rewrite skipn_nil in E. cbn in E. inversion E; subst. reflexivity.
  - destruct l as [|b l].
    + rewrite skipn_nil in E. cbn in E. inversion E; subst. reflexivity.
    + destruct (read_until (b :: l)) as [a r0] eqn:Ea.
      rewrite (lines_cons _ _ _ (cons_ne _ _) Ea).
      cbn [sel].
      replace (s + 1 <=? cur) with false by (symmetry; apply Nat.leb_gt; lia).
      cbn [andb app].
      pose proof (read_until_len _ _ _ Ea) as Hlen.
      pose proof (read_until_nonempty _ _ _ Ea (cons_ne _ _)) as Hne.
      destruct (Nat.lt_ge_cases (s - cur) (length a)) as [Hk | Hk].
      * rewrite (read_until_skip _ _ _ _ Ea Hk) in E. inversion E; subst.
        rewrite skipn_length.
        replace (s + (length a - (s - cur))) with (cur + length a) by lia.
        reflexivity.
      * rewrite (read_until_app _ _ _ Ea) in E.
        rewrite skipn_app in E.
        rewrite (skipn_all2 a) in E by lia. cbn [app] in E.
        replace (s - cur - length a) with (s - (cur + length a)) in E by lia.
        cbn [length] in Hf, Hlen.
        apply (IH r0 (cur + length a) s endp d r); [lia|lia|exact E].
Qed.

(** ** what one replica emits *)
Definition rep_lo (size n id : nat) : nat :=
  if Nat.eqb id 0 then 0 else size / n * id + 1.
Definition rep_hi (size n id : nat) : nat :=
  if Nat.eqb id (n - 1) then size else size / n * id + size / n.

Lemma file_replica_sel bytes n id :
  file_replica bytes n id =
  sel 0 (rep_lo (length bytes) n id) (rep_hi (length bytes) n id) (lines bytes).
Proof.
  unfold file_replica, rep_lo, rep_hi. cbv zeta.
  set (size := length bytes). set (rs := size / n).
  set (endp := if Nat.eqb id (n - 1) then size else rs * id + rs).
  destruct (Nat.eqb id 0) eqn:E0.
  - apply Nat.eqb_eq in E0. subst id. rewrite Nat.mul_0_r. cbn [skipn].
    apply read_lines_sel; unfold size; lia.
  - apply Nat.eqb_neq in E0.
    destruct (read_until (skipn (rs * id) bytes)) as [d r] eqn:Er.
    rewrite <- (resume_sel (length bytes) bytes 0 (rs * id) endp d r);
      [| lia | lia | rewrite Nat.sub_0_r; exact Er].
    destruct (skipn (rs * id) bytes) as [|b l] eqn:Es.
    + cbn in Er. inversion Er; subst.
      cbn [read_lines]. destruct (Nat.leb _ _); reflexivity.
    + pose proof (read_until_len _ _ _ Er) as Hlen.
      pose proof (read_until_nonempty _ _ _ Er (cons_ne _ _)) as Hne.
      assert (Hsk : length (b :: l) <= size)
        by (rewrite <- Es, skipn_length; unfold size; lia).
      apply read_lines_sel; lia.
Qed.

Lemma div_mul_le_size size n : 1 <= n -> size / n * n <= size.
Proof. intros. rewrite Nat.mul_comm. apply Nat.mul_div_le. lia. Qed.

Lemma replicas_prefix bytes n m :
  1 <= n -> m < n ->
  concat (map (file_replica bytes n) (seq 0 (S m))) =
  sel 0 0 (rep_hi (length bytes) n m) (lines bytes).
Proof.
  intros Hn. induction m as [|m IH]; intros Hm.
  - cbn [seq map concat]. rewrite app_nil_r. apply file_replica_sel.
  - rewrite seq_S, map_app, concat_app, IH by lia.
    cbn [Nat.add map concat]. rewrite app_nil_r.
    rewrite file_replica_sel.
    pose proof (div_mul_le_size (length bytes) n Hn) as Hdiv.
    set (size := length bytes) in *. set (rs := size / n) in *.
    assert (Hhi : rep_hi size n m = rs * S m).
    { unfold rep_hi. fold rs.
      destruct (Nat.eqb_spec m (n - 1)); [lia|]. lia. }
    assert (Hlo : rep_lo size n (S m) = rs * S m + 1) by reflexivity.
    assert (Hle : rs * S m <= rep_hi size n (S m)).
    { unfold rep_hi. fold rs.
      destruct (Nat.eqb_spec (S m) (n - 1)); [|lia].
      assert (rs * S m <= rs * n) by (apply Nat.mul_le_mono_l; lia). lia. }
    rewrite Hhi, Hlo.
    apply sel_split; lia.
Qed.

(** ** B1 *)
Theorem file_lines_partition : forall (bytes : list Z) (n : nat),
  1 <= n ->
  concat (map (file_replica bytes n) (seq 0 n)) = lines bytes.
Proof.
  intros bytes n Hn.
  replace n with (S (n - 1)) at 2 by lia.
  rewrite replicas_prefix by lia.
  unfold rep_hi. rewrite Nat.eqb_refl.
  apply sel_all. rewrite concat_lines. lia.
Qed.

(** ** CSV *)
Lemma until_len_le bytes pos :
  pos <= length bytes -> pos + until_len bytes pos <= length bytes.
Proof.
  intros H. unfold until_len.
  destruct (read_until (skipn pos bytes)) as [a r] eqn:E. cbn [fst].
  pose proof (read_until_len _ _ _ E) as Hlen. rewrite skipn_length in Hlen. lia.
Qed.

Lemma until_len_mono bytes p q :
  p <= q -> p + until_len bytes p <= q + until_len bytes q.
Proof.
  intros Hpq.
  destruct (Nat.lt_ge_cases q (p + until_len bytes p)) as [Hq | Hq]; [|lia].
  unfold until_len in *.
  destruct (read_until (skipn p bytes)) as [a r] eqn:E. cbn [fst] in *.
  replace (skipn q bytes) with (skipn (q - p) (skipn p bytes))
    by (rewrite skipn_add; f_equal; lia).
  rewrite (read_until_skip _ _ _ (q - p) E) by lia. cbn [fst].
  rewrite skipn_length. lia.
Qed.

Lemma boundary_aux (l1 l2 : list Z) :
  let a := fst (read_until l2) in
  length l1 + length a = length (l1 ++ l2) \/
  (0 < length l1 + length a /\
   nth_error (l1 ++ l2) (length l1 + length a - 1) = Some NL).
Proof.
  destruct (read_until l2) as [a r] eqn:E. cbn [fst]. cbv zeta.
  pose proof (read_until_app _ _ _ E) as Happ.
  destruct (read_until_end _ _ _ E) as [Hr | [a' Ha]].
  - left. subst r. rewrite app_nil_r in Happ. subst l2. rewrite app_length. reflexivity.
  - right. subst a. rewrite app_length. cbn [length]. split; [lia|].
    replace (length l1 + (length a' + 1) - 1) with (length l1 + length a') by lia.
    subst l2. rewrite <- app_assoc. cbn [app].
    apply nth_error_mid.
Qed.

Lemma until_len_boundary bytes hs pos :
  pos <= length bytes -> at_boundary bytes hs (pos + until_len bytes pos).
Proof.
  intros H. unfold at_boundary, until_len.
  pose proof (boundary_aux (firstn pos bytes) (skipn pos bytes)) as B. cbv zeta in B.
  rewrite firstn_skipn, firstn_length_le in B by lia.
  tauto.
Qed.

Lemma csv_header_size_le bytes h : csv_header_size bytes h <= length bytes.
Proof.
  unfold csv_header_size. destruct h; [|lia].
  pose proof (until_len_le bytes 0 ltac:(lia)). lia.
Qed.

(** the unaligned start of replica [i] stays inside the file *)
Lemma csv_raw_bound bytes h n i :
  1 <= n -> i < n ->
  let hs := csv_header_size bytes h in
  let rs := (length bytes - hs) / n in
  hs + rs * i + rs <= length bytes.
Proof.
  intros Hn Hi hs rs.
  pose proof (csv_header_size_le bytes h). fold hs in H.
  pose proof (div_mul_le_size (length bytes - hs) n Hn) as Hdiv. fold rs in Hdiv.
  assert (rs * i + rs <= rs * n).
  { replace (rs * i + rs) with (rs * S i) by lia. apply Nat.mul_le_mono_l. lia. }
  lia.
Qed.

Lemma csv_range_bounds bytes h n i :
  1 <= n -> i < n ->
  csv_header_size bytes h <= fst (csv_range bytes h n i) /\
  fst (csv_range bytes h n i) <= snd (csv_range bytes h n i) /\
  snd (csv_range bytes h n i) <= length bytes.
Proof.
  intros Hn Hi.
  pose proof (csv_raw_bound bytes h n i Hn Hi) as Hraw. cbv zeta in Hraw.
  unfold csv_range. cbv zeta. cbn [fst snd].
  set (hs := csv_header_size bytes h) in *.
  set (rs := (length bytes - hs) / n) in *.
  pose proof (until_len_le bytes (hs + rs * i) ltac:(lia)).
  pose proof (until_len_le bytes (hs + rs * i + rs) ltac:(lia)).
  pose proof (until_len_mono bytes (hs + rs * i) (hs + rs * i + rs) ltac:(lia)).
  destruct (Nat.eqb i 0); destruct (Nat.eqb i (n - 1)); lia.
Qed.

(** ** B2 *)
Theorem csv_ranges_contiguous : forall (bytes : list Z) (h : bool) (n : nat),
  1 <= n ->
  fst (csv_range bytes h n 0) = csv_header_size bytes h /\
  snd (csv_range bytes h n (n - 1)) = length bytes /\
  (forall i, i + 1 < n ->
     snd (csv_range bytes h n i) = fst (csv_range bytes h n (i + 1))) /\
  (forall i, i < n ->
     fst (csv_range bytes h n i) <= snd (csv_range bytes h n i) <= length bytes).
Proof.
  intros bytes h n Hn. split; [|split; [|split]].
  - unfold csv_range. cbv zeta. cbn [fst Nat.eqb]. lia.
  - unfold csv_range. cbv zeta. cbn [snd]. rewrite Nat.eqb_refl. reflexivity.
  - intros i Hi. unfold csv_range. cbv zeta. cbn [fst snd].
    destruct (Nat.eqb_spec i (n - 1)); [lia|].
    destruct (Nat.eqb_spec (i + 1) 0); [lia|].
    set (rs := (length bytes - csv_header_size bytes h) / n).
    replace (csv_header_size bytes h + rs * (i + 1))
      with (csv_header_size bytes h + rs * i + rs) by lia.
    reflexivity.
  - intros i Hi. pose proof (csv_range_bounds bytes h n i Hn Hi). lia.
Qed.

(** ** B3 *)
Lemma csv_bytes_eq bytes h n i :
  csv_bytes bytes h n i =
  firstn (snd (csv_range bytes h n i) - fst (csv_range bytes h n i))
         (skipn (fst (csv_range bytes h n i)) bytes).
Proof. unfold csv_bytes. destruct (csv_range bytes h n i). reflexivity. Qed.

Lemma csv_prefix bytes h n m :
  1 <= n -> m < n ->
  concat (map (csv_bytes bytes h n) (seq 0 (S m))) =
  firstn (snd (csv_range bytes h n m) - csv_header_size bytes h)
         (skipn (csv_header_size bytes h) bytes).
Proof.
  intros Hn.
  destruct (csv_ranges_contiguous bytes h n Hn) as (H0 & _ & Hc & _).
  induction m as [|m IH]; intros Hm.
  - cbn [seq map concat]. rewrite app_nil_r, csv_bytes_eq, H0. reflexivity.
  - rewrite seq_S, map_app, concat_app, IH by lia.
    cbn [Nat.add map concat]. rewrite app_nil_r, csv_bytes_eq.
    rewrite (Hc m) by lia. rewrite Nat.add_1_r.
    pose proof (csv_range_bounds bytes h n (S m) Hn Hm).
    apply firstn_telescope; lia.
Qed.

Theorem csv_bytes_partition : forall (bytes : list Z) (h : bool) (n : nat),
  1 <= n ->
  concat (map (csv_bytes bytes h n) (seq 0 n)) = skipn (csv_header_size bytes h) bytes.
Proof.
  intros bytes h n Hn.
  replace n with (S (n - 1)) at 2 by lia.
  rewrite csv_prefix by lia.
  destruct (csv_ranges_contiguous bytes h n Hn) as (_ & He & _).
  rewrite He. apply firstn_all2. rewrite skipn_length. lia.
Qed.

(** ** B4 *)
Theorem csv_ranges_aligned : forall (bytes : list Z) (h : bool) (n i : nat),
  1 <= n -> i < n ->
  at_boundary bytes (csv_header_size bytes h) (fst (csv_range bytes h n i)) /\
  at_boundary bytes (csv_header_size bytes h) (snd (csv_range bytes h n i)).
Proof.
  intros bytes h n i Hn Hi.
  pose proof (csv_raw_bound bytes h n i Hn Hi) as Hraw. cbv zeta in Hraw.
  unfold csv_range. cbv zeta. cbn [fst snd].
  set (hs := csv_header_size bytes h) in *.
  set (rs := (length bytes - hs) / n) in *.
  split.
  - destruct (Nat.eqb_spec i 0) as [-> | _].
    + left. lia.
    + apply until_len_boundary. lia.
  - destruct (Nat.eqb_spec i (n - 1)) as [_ | _].
    + right. left. reflexivity.
    + apply until_len_boundary. lia.
Qed.

(** * C18 — batching never withholds data: proofs over Model/Idle.v *)
From Coq Require Import Arith Bool List Lia.
From Noir Require Import Model.Idle.
Import ListNotations.

Section Machines.
  Context {A : Type}.
  Notation act := (@act A).

  Definition is_flush (a : act) : Prop := a = OutFlush \/ a = OutEnd.

  Lemma idle_ok_outs : forall (b : list A) (l : list act),
    idle_ok false (map Out b ++ l) <-> idle_ok false l.
  Proof. intros b l. induction b as [|x b IH]; cbn; tauto. Qed.

  (** the checker says what it should: before every [Block] there is a flush with nothing
      received in between *)
  Lemma idle_ok_split : forall (pre post : list act) f, idle_ok f (pre ++ Block :: post) ->
    (f = true /\ Forall quiet pre) \/
    (exists a x b, pre = a ++ x :: b /\ is_flush x /\ Forall quiet b).
  Proof.
    induction pre as [|x pre IH]; intros post f H.
    - left. cbn in H. split; [apply H | constructor].
    - assert (Hflush : forall y, is_flush y -> idle_ok true (pre ++ Block :: post) ->
                (exists a x0 b, y :: pre = a ++ x0 :: b /\ is_flush x0 /\ Forall quiet b)).
      { intros y Hy H'. destruct (IH post true H') as [[_ Hq] | [a [x0 [b [E [Hx Hq]]]]]].
        - exists [], y, pre. auto.
        - exists (y :: a), x0, b. subst pre. auto. }
      assert (Hrecv : forall y, idle_ok false (pre ++ Block :: post) ->
                (exists a x0 b, y :: pre = a ++ x0 :: b /\ is_flush x0 /\ Forall quiet b)).
      { intros y H'. destruct (IH post false H') as [[Hf _] | [a [x0 [b [E [Hx Hq]]]]]]; [discriminate|].
        exists (y :: a), x0, b. subst pre. auto. }
      assert (Hkeep : forall y, quiet y -> idle_ok f (pre ++ Block :: post) ->
                (f = true /\ Forall quiet (y :: pre)) \/
                (exists a x0 b, y :: pre = a ++ x0 :: b /\ is_flush x0 /\ Forall quiet b)).
      { intros y Hy H'. destruct (IH post f H') as [[Hf Hq] | [a [x0 [b [E [Hx Hq]]]]]].
        - left. split; [assumption | constructor; assumption].
        - right. exists (y :: a), x0, b. subst pre. auto. }
      destruct x; cbn in H.
      + apply Hkeep; [exact I | assumption].
      + apply Hkeep; [exact I | assumption].
      + apply Hkeep; [exact I | apply H].
      + right. apply Hrecv; assumption.
      + right. apply Hrecv; assumption.
      + right. apply Hflush; [now left | assumption].
      + right. apply Hflush; [now right | assumption].
  Qed.

  (** ** Start *)
  Lemma start_run_ok : forall evs (st : start_state), max_delay st = true ->
    idle_ok (already_timed_out st) (@start_run A st evs).
  Proof.
    induction evs as [|ev evs IH]; intros st Hmd; [exact I|].
    destruct st as [md ato]. cbn in Hmd. subst md.
    destruct ato; destruct ev as [b|]; cbn -[idle_ok].
    - (* blocked after a flush, a batch arrives *)
      cbn. split; [reflexivity|]. apply idle_ok_outs. apply (IH {| max_delay := true; already_timed_out := false |}). reflexivity.
    - apply (IH {| max_delay := true; already_timed_out := true |}). reflexivity.
    - cbn. apply idle_ok_outs. apply (IH {| max_delay := true; already_timed_out := false |}). reflexivity.
    - cbn. apply (IH {| max_delay := true; already_timed_out := true |}). reflexivity.
  Qed.

  Lemma start_run_no_end : forall evs (st : start_state), ~ In OutEnd (@start_run A st evs).
  Proof.
    induction evs as [|ev evs IH]; intros st; [intros []|].
    cbn. destruct (start_step st ev) as [st' acts] eqn:E. intros Hin. apply in_app_or in Hin.
    destruct Hin as [Hin | Hin]; [|eapply IH; eassumption].
    unfold start_step in E. destruct (start_wait st); destruct ev; inversion E; subst; cbn in Hin;
      repeat (destruct Hin as [Hin | Hin]; [discriminate|]); try contradiction;
      try (apply in_map_iff in Hin; destruct Hin as [? [? _]]; discriminate).
  Qed.

  (** With adaptive batching the Start performs an untimed blocking receive only if it has
      returned `FlushBatch` since the last batch it received. *)
  Theorem start_flush_before_block : forall evs (pre post : list act),
    start_run (start_init true) evs = pre ++ Block :: post ->
    exists a b, pre = a ++ OutFlush :: b /\ Forall quiet b.
  Proof.
    intros evs pre post E.
    pose proof (start_run_ok evs (start_init true) eq_refl) as H. rewrite E in H.
    destruct (idle_ok_split _ _ _ H) as [[Hf _] | [a [x [b [Ep [Hx Hq]]]]]]; [discriminate|].
    destruct Hx as [-> | ->]; [exists a, b; auto|].
    exfalso. apply (start_run_no_end evs (start_init true)). rewrite E, Ep.
    apply in_or_app. left. apply in_or_app. right. now left.
  Qed.

  (** ** Channel source *)
  Lemma src_run_ok : forall evs (st : src_state) f, (MAX_RETRY < retry st -> f = true) ->
    idle_ok f (@src_run A st evs).
  Proof.
    induction evs as [|ev evs IH]; intros st f J; [exact I|].
    destruct st as [rc inr tm]. cbn in J. cbn -[idle_ok Nat.ltb Nat.eqb MAX_RETRY]. unfold src_step.
    cbn -[idle_ok Nat.ltb Nat.eqb MAX_RETRY].
    destruct tm; [apply IH; exact J|].
    destruct inr.
    - destruct ev; cbn -[MAX_RETRY].
      + apply IH. cbn. unfold MAX_RETRY. lia.
      + apply IH. exact J.
      + apply IH. reflexivity.
    - destruct ev; cbn -[idle_ok Nat.ltb Nat.eqb MAX_RETRY].
      + cbn -[MAX_RETRY]. apply IH. cbn. unfold MAX_RETRY. lia.
      + destruct (Nat.ltb_spec rc MAX_RETRY).
        * cbn -[MAX_RETRY]. apply IH. cbn. lia.
        * destruct (Nat.eqb_spec rc MAX_RETRY).
          -- cbn -[MAX_RETRY]. apply IH. reflexivity.
          -- cbn -[MAX_RETRY]. split; [apply J; lia|]. apply IH. cbn. unfold MAX_RETRY. lia.
      + cbn -[MAX_RETRY]. apply IH. reflexivity.
  Qed.

  (** The channel source blocks in `recv()` only after having returned `FlushBatch` (or the
      end of the stream) since the last item. *)
  Theorem source_flush_before_block : forall evs (pre post : list act),
    src_run src_init evs = pre ++ Block :: post ->
    exists a x b, pre = a ++ x :: b /\ is_flush x /\ Forall quiet b.
  Proof.
    intros evs pre post E.
    assert (H : idle_ok false (@src_run A src_init evs)).
    { apply src_run_ok. cbn. unfold MAX_RETRY. lia. }
    rewrite E in H.
    destruct (idle_ok_split _ _ _ H) as [[Hf _] | Hex]; [discriminate | exact Hex].
  Qed.
End Machines.

(** ** Depth-k composition *)
Section Pipeline.
  Context {A : Type}.
  Variable k : nat.
  Hypothesis k_pos : 1 <= k.
  Notation pstate := (@pstate A).
  Notation pstep := (@pstep A k).
  Notation pexec := (@pexec A k).
  Notation quiescent := (@quiescent A k).

  (** everything in the pipeline, the most advanced element first:
      held k ++ inq k ++ held (k-1) ++ ... ++ held 0 ++ inq 0 *)
  Fixpoint full (s : pstate) (j : nat) : list A :=
    match j with O => [] | S j' => held s j' ++ inq s j' ++ full s j' end.
  Definition contents (s : pstate) : list A := inq s (S k) ++ full s (S k).

  Lemma full_ext : forall (s s' : pstate) j,
    (forall m, m < j -> held s' m = held s m /\ inq s' m = inq s m) -> full s' j = full s j.
  Proof.
    intros s s' j H. induction j as [|j IH]; [reflexivity|]. cbn.
    destruct (H j) as [-> ->]; [lia|]. rewrite IH; [reflexivity|]. intros m Hm. apply H. lia.
  Qed.

  Lemma full_empty : forall (s : pstate) j,
    (forall m, m < j -> held s m = [] /\ inq s m = []) -> full s j = [].
  Proof.
    intros s j H. induction j as [|j IH]; [reflexivity|]. cbn.
    destruct (H j) as [-> ->]; [lia|]. cbn. apply IH. intros m Hm. apply H. lia.
  Qed.

  (** a rearrangement around block [i] that keeps
      inq (i+1) ++ held i ++ inq i  leaves the whole content unchanged *)
  Lemma full_local : forall (s s' : pstate) i,
    (forall m, m <> i -> held s' m = held s m) ->
    (forall m, m <> i -> m <> S i -> inq s' m = inq s m) ->
    inq s' (S i) ++ held s' i ++ inq s' i = inq s (S i) ++ held s i ++ inq s i ->
    forall j, i < j -> inq s' j ++ full s' j = inq s j ++ full s j.
  Proof.
    intros s s' i Hh Hi Hc j. induction j as [|j IH]; intros Hj; [lia|].
    destruct (Nat.eq_dec j i) as [->|Hne].
    - cbn. rewrite (full_ext s s' i).
      + rewrite (app_assoc (held s' i)), (app_assoc (inq s' (S i))), Hc.
        now rewrite <- !app_assoc.
      + intros m Hm. split; [apply Hh | apply Hi]; lia.
    - cbn. rewrite (Hi (S j)), (Hh j); try lia. rewrite IH; [reflexivity | lia].
  Qed.

  Lemma upd_same : forall X (f : nat -> X) i v, upd f i v i = v.
  Proof. intros. unfold upd. now rewrite Nat.eqb_refl. Qed.
  Lemma upd_other : forall X (f : nat -> X) i v j, j <> i -> upd f i v j = f j.
  Proof. intros X f i v j H. unfold upd. destruct (Nat.eqb_spec j i); [contradiction | reflexivity]. Qed.

  Lemma moved_contents : forall s i b rest out keep s', i <= k ->
    moved k s i b rest out keep s' -> contents s' = contents s.
  Proof.
    intros s i b rest out keep s' Hi (Hin & _ & Hsplit & _ & Hinq & Hheld).
    unfold contents. apply (full_local s s' i); [| | |lia].
    - intros m Hm. rewrite Hheld. now apply upd_other.
    - intros m H1 H2. rewrite Hinq. rewrite upd_other, upd_other; auto.
    - rewrite Hinq, Hheld, upd_same, upd_same, upd_other, upd_same, Hin by lia.
      rewrite <- (app_assoc (inq s (S i))), (app_assoc out), <- Hsplit.
      now rewrite <- !app_assoc.
  Qed.

  Lemma flushed_contents : forall s i s', i <= k -> flushed_at k s i s' -> contents s' = contents s.
  Proof.
    intros s i s' Hi [Hinq Hheld]. unfold contents. apply (full_local s s' i); [| | |lia].
    - intros m Hm. rewrite Hheld. destruct (i <? k); [now apply upd_other | reflexivity].
    - intros m H1 H2. rewrite Hinq. now apply upd_other.
    - rewrite Hinq, Hheld, upd_same, upd_other by lia.
      destruct (i <? k); [rewrite upd_same | rewrite app_nil_r]; [|reflexivity].
      now rewrite <- app_assoc.
  Qed.

  (** ** Invariant of the pipeline once the input has stopped *)
  Definition pinv (xs : list A) (s : pstate) : Prop :=
    contents s = xs /\
    inq s (S k) = [] /\
    terminated (src s) = false /\
    (* a source that has flushed and read nothing since holds nothing *)
    (MAX_RETRY < retry (src s) \/ in_recv (src s) = true -> held s 0 = []) /\
    (* a Start that has flushed and received nothing since: the block holds nothing *)
    (forall i, 1 <= i < k -> ato s i = true -> held s i = []).

  Lemma pinv_start : forall xs, pinv xs (pstart xs).
  Proof.
    intros xs. unfold pinv, contents. cbn -[full MAX_RETRY]. repeat split; try reflexivity.
    - replace (full (pstart xs) (S k)) with (full (pstart xs) 1 ++ []).
      + cbn. now rewrite !app_nil_r.
      + rewrite app_nil_r. clear k_pos. induction k as [|k' IH]; [reflexivity|].
        cbn in IH |- *. exact IH.
  Qed.

  Lemma contents_same : forall (s s' : pstate), inq s' = inq s -> held s' = held s -> contents s' = contents s.
  Proof.
    intros s s' Hi Hh. unfold contents. rewrite Hi. f_equal. apply full_ext. intros m _.
    now rewrite Hi, Hh.
  Qed.

  (** facts about the two machines used by the pipeline rules *)
  Lemma src_item_state : forall (st : src_state) (x : A), terminated st = false ->
    fst (src_step st (PItem x)) = {| retry := 0; in_recv := false; terminated := false |}.
  Proof. intros [rc inr tm] x H. cbn in H. subst tm. unfold src_step. cbn. destruct inr; reflexivity. Qed.

  Lemma src_empty_cases : forall (st : src_state), terminated st = false -> in_recv st = false ->
    (retry st < MAX_RETRY /\
     @src_step A st PEmpty = ({| retry := S (retry st); in_recv := false; terminated := false |}, [Poll])) \/
    (retry st = MAX_RETRY /\
     @src_step A st PEmpty = ({| retry := S (retry st); in_recv := false; terminated := false |}, [Poll; OutFlush])) \/
    (MAX_RETRY < retry st /\
     @src_step A st PEmpty = ({| retry := 0; in_recv := true; terminated := false |}, [Poll; Block])).
  Proof.
    intros [rc inr tm] H1 H2. cbn in H1, H2. subst tm inr. unfold src_step.
    cbn -[Nat.ltb Nat.eqb MAX_RETRY].
    destruct (Nat.ltb_spec rc MAX_RETRY); [left; auto|].
    destruct (Nat.eqb_spec rc MAX_RETRY); [right; left; auto | right; right; split; [lia | reflexivity]].
  Qed.

  Lemma start_arrive_ato : forall a (b : list A),
    already_timed_out (fst (start_step {| max_delay := true; already_timed_out := a |} (SArrive b))) = false.
  Proof. intros [] b; reflexivity. Qed.

  Lemma start_timeout_ato : forall a,
    start_wait {| max_delay := true; already_timed_out := a |} = @WaitTimed A ->
    a = false /\
    already_timed_out (fst (@start_step A {| max_delay := true; already_timed_out := a |} STimeout)) = true.
  Proof. intros [] H; [discriminate H | split; reflexivity]. Qed.

  Lemma pstep_pinv : forall xs s l s', pstep s l s' -> pinv xs s -> pinv xs s'.
  Proof.
    intros xs s l s' H (Ic & Ik & It & Is & Ib). inversion H; subst; clear H.
    - (* the source reads an item *)
      match goal with Hm : moved _ _ _ _ _ _ _ _ |- _ =>
        pose proof (moved_contents _ _ _ _ _ _ _ (Nat.le_0_l k) Hm) as Hcont;
        destruct Hm as (Hin & _ & Hsplit & _ & Hinq & Hheld) end.
      match goal with Hs : src s' = _ |- _ => rewrite src_item_state in Hs by assumption; rename Hs into Hsrc end.
      unfold pinv. rewrite Hsrc. cbn -[MAX_RETRY]. repeat split.
      + congruence.
      + rewrite Hinq, !upd_other by lia. assumption.
      + intros [Hc | Hc]; [unfold MAX_RETRY in Hc; lia | discriminate].
      + intros i Hi Ha. rewrite Hheld, upd_other by lia. apply Ib; [assumption | congruence].
    - (* the source polls an empty channel *)
      match goal with Hs : src s' = _, Hf : if _ then _ else _ |- _ =>
        rename Hs into Hsrc; rename Hf into Heff end.
      destruct (src_empty_cases (src s)) as [[Hrc E] | [[Hrc E] | [Hrc E]]]; try assumption;
        rewrite E in Hsrc, Heff; cbn -[MAX_RETRY] in Hsrc, Heff.
      + destruct Heff as [Hinq Hheld]. unfold pinv. rewrite Hsrc, Hinq, Hheld, (contents_same s s') by assumption.
        cbn -[MAX_RETRY]. repeat split; try assumption.
        * intros [Hc | Hc]; [lia | discriminate].
        * intros i Hi Ha. apply Ib; [assumption | congruence].
      + pose proof (flushed_contents _ _ _ (Nat.le_0_l k) Heff) as Hcont.
        destruct Heff as [Hinq Hheld]. unfold pinv. rewrite Hsrc, Hcont. cbn -[MAX_RETRY].
        assert (Hk : (0 <? k) = true) by (apply Nat.ltb_lt; lia). rewrite Hk in Hinq, Hheld.
        repeat split; try assumption.
        * rewrite Hinq, upd_other by lia. assumption.
        * intros _. rewrite Hheld. apply upd_same.
        * intros i Hi Ha. rewrite Hheld, upd_other by lia. apply Ib; [assumption | congruence].
      + destruct Heff as [Hinq Hheld]. unfold pinv. rewrite Hsrc, Hinq, Hheld, (contents_same s s') by assumption.
        cbn -[MAX_RETRY]. repeat split; try assumption.
        * intros _. apply Is. now left.
        * intros i Hi Ha. apply Ib; [assumption | congruence].
    - (* a Start receives *)
      match goal with Hm : moved _ _ _ _ _ _ _ _, Ha : ato s' = _, Hs : src s' = _, Hr : 1 <= i <= k |- _ =>
        assert (Hik : i <= k) by lia;
        pose proof (moved_contents _ _ _ _ _ _ _ Hik Hm) as Hcont;
        destruct Hm as (Hin & _ & Hsplit & Hlast & Hinq & Hheld);
        rename Ha into Hato; rename Hs into Hsrc; rename Hr into Hi1 end.
      unfold pinv. rewrite Hsrc, Hcont. repeat split; try assumption.
      + rewrite Hinq. destruct (Nat.eq_dec i k) as [->|Hne].
        * rewrite upd_same, Ik, (Hlast eq_refl). reflexivity.
        * rewrite !upd_other by lia. assumption.
      + intros Hc. rewrite Hheld, upd_other by lia. apply Is, Hc.
      + intros j Hj Ha. rewrite Hato in Ha. destruct (Nat.eq_dec j i) as [->|Hne].
        * rewrite upd_same, start_arrive_ato in Ha. discriminate.
        * rewrite upd_other in Ha by assumption. rewrite Hheld, upd_other by assumption. now apply Ib.
    - (* a timed wait expires *)
      match goal with Hf : flushed_at _ _ _ _, Ha : ato s' = _, Hs : src s' = _, Hr : 1 <= i <= k |- _ =>
        assert (Hik : i <= k) by lia;
        pose proof (flushed_contents _ _ _ Hik Hf) as Hcont;
        destruct Hf as (Hinq & Hheld);
        rename Ha into Hato; rename Hs into Hsrc; rename Hr into Hi1 end.
      unfold pinv. rewrite Hsrc, Hcont. repeat split; try assumption.
      + rewrite Hinq. destruct (Nat.ltb_spec i k).
        * rewrite upd_other by lia. assumption.
        * assert (i = k) by lia. subst i. rewrite upd_same, Ik. reflexivity.
      + intros Hc. rewrite Hheld. destruct (i <? k); [rewrite upd_other by lia|]; apply Is, Hc.
      + intros j Hj Ha. rewrite Hheld. destruct (Nat.ltb_spec i k).
        * destruct (Nat.eq_dec j i) as [->|Hne]; [apply upd_same|].
          rewrite upd_other by assumption. apply Ib; [assumption|].
          rewrite Hato, upd_other in Ha by assumption. assumption.
        * apply Ib; [assumption|]. rewrite Hato, upd_other in Ha by lia. assumption.
  Qed.

  Lemma pexec_pinv : forall xs s ls s', pexec s ls s' -> pinv xs s -> pinv xs s'.
  Proof. intros xs s ls s' H. induction H; intros Hi; [assumption|]. eapply IHpexec, pstep_pinv; eauto. Qed.

  (** ** What a quiescent pipeline looks like: every rule is disabled *)
  Definition with_fields (inq' held' : nat -> list A) (src' : src_state) (ato' : nat -> bool) : pstate :=
    {| inq := inq'; held := held'; src := src'; ato := ato' |}.

  (** any block with a non-empty channel can receive *)
  Lemma can_recv : forall s i, 1 <= i <= k -> inq s i <> [] -> exists s', pstep s (LRecv i) s'.
  Proof.
    intros s i Hi Hne.
    exists (with_fields (upd (upd (inq s) i []) (S i) (inq s (S i) ++ []))
                        (upd (held s) i (held s i ++ inq s i)) (src s)
                        (upd (ato s) i (already_timed_out (fst (start_step
                           {| max_delay := true; already_timed_out := ato s i |} (SArrive (inq s i))))))).
    apply (P_recv k s i (inq s i) [] [] (held s i ++ inq s i)); try reflexivity; [assumption|].
    unfold moved. cbn. repeat split; try reflexivity; try assumption. now rewrite app_nil_r.
  Qed.

  Lemma can_read : forall s x rest, inq s 0 = x :: rest -> terminated (src s) = false ->
    exists s', pstep s LSrc s'.
  Proof.
    intros s x rest Hin Ht.
    exists (with_fields (upd (upd (inq s) 0 rest) 1 (inq s 1 ++ []))
                        (upd (held s) 0 (held s 0 ++ [x])) (fst (src_step (src s) (PItem x))) (ato s)).
    apply (P_src_item k s x rest [] (held s 0 ++ [x])); try reflexivity; [|assumption].
    unfold moved. cbn. repeat split; try reflexivity; try assumption; try discriminate; try lia.
  Qed.

  Lemma can_poll : forall s, inq s 0 = [] -> in_recv (src s) = false -> terminated (src s) = false ->
    exists s', pstep s LSrc s'.
  Proof.
    intros s Hin Hr Ht.
    destruct (existsb (fun a : act => match a with OutFlush => true | _ => false end)
                      (snd (@src_step A (src s) PEmpty))) eqn:E.
    - exists (with_fields (upd (inq s) 1 (inq s 1 ++ (if 0 <? k then held s 0 else [])))
                          (if 0 <? k then upd (held s) 0 [] else held s)
                          (fst (@src_step A (src s) PEmpty)) (ato s)).
      apply P_src_empty; try assumption; try reflexivity. rewrite E. split; reflexivity.
    - exists (with_fields (inq s) (held s) (fst (@src_step A (src s) PEmpty)) (ato s)).
      apply P_src_empty; try assumption; try reflexivity. rewrite E. split; reflexivity.
  Qed.

  Lemma can_timeout : forall s i, 1 <= i <= k -> inq s i = [] -> ato s i = false ->
    exists s', pstep s (LTimeout i) s'.
  Proof.
    intros s i Hi Hin Ha.
    exists (with_fields (upd (inq s) (S i) (inq s (S i) ++ (if i <? k then held s i else [])))
                        (if i <? k then upd (held s) i [] else held s) (src s)
                        (upd (ato s) i (already_timed_out (fst (@start_step A
                           {| max_delay := true; already_timed_out := ato s i |} STimeout))))).
    apply P_timeout; try assumption; try reflexivity; [|split; reflexivity].
    rewrite Ha. reflexivity.
  Qed.

  Lemma quiescent_shape : forall s, terminated (src s) = false -> quiescent s ->
    inq s 0 = [] /\ in_recv (src s) = true /\
    forall i, 1 <= i <= k -> inq s i = [] /\ ato s i = true.
  Proof.
    intros s Ht Hq.
    assert (H0 : inq s 0 = []).
    { destruct (inq s 0) as [|x rest] eqn:E; [reflexivity|].
      destruct (can_read s x rest E Ht) as [s' Hs]. exfalso. exact (Hq _ _ Hs). }
    split; [assumption|]. split.
    - destruct (in_recv (src s)) eqn:E; [reflexivity|].
      destruct (can_poll s H0 E Ht) as [s' Hs]. exfalso. exact (Hq _ _ Hs).
    - intros i Hi.
      assert (Hi0 : inq s i = []).
      { destruct (inq s i) as [|x rest] eqn:E; [reflexivity|].
        destruct (can_recv s i Hi) as [s' Hs]; [rewrite E; discriminate|]. exfalso. exact (Hq _ _ Hs). }
      split; [assumption|].
      destruct (ato s i) eqn:E; [reflexivity|].
      destruct (can_timeout s i Hi Hi0 E) as [s' Hs]. exfalso. exact (Hq _ _ Hs).
  Qed.

  (** conversely, a pipeline in which everybody is blocked is quiescent (so quiescent states
      are exactly the "all replicas block indefinitely" states) *)
  Lemma blocked_quiescent : forall s, inq s 0 = [] -> in_recv (src s) = true ->
    (forall i, 1 <= i <= k -> inq s i = [] /\ ato s i = true) -> quiescent s.
  Proof.
    intros s H0 Hr Hb l s' H. inversion H; subst; clear H.
    - match goal with Hm : moved _ _ _ _ _ _ _ _ |- _ => destruct Hm as (Hin & _) end.
      rewrite H0 in Hin. discriminate.
    - congruence.
    - match goal with Hm : moved _ _ _ _ _ _ _ _, Hr' : 1 <= i <= k |- _ =>
        destruct Hm as (Hin & Hne & _); destruct (Hb i Hr') as [Hi0 _] end.
      rewrite Hi0 in Hin. destruct b; [contradiction | discriminate].
    - match goal with Hw : start_wait _ = _, Hr' : 1 <= i <= k |- _ =>
        destruct (Hb i Hr') as [_ Ha]; rewrite Ha in Hw; discriminate end.
  Qed.

  (** When the input stops after [xs] and nothing can happen any more - every replica is
      blocked in an untimed receive - every element handed to the source has been delivered
      to the last block, in order; no batcher and no channel holds anything. *)
  Theorem quiescent_delivered : forall xs ls s, pexec (pstart xs) ls s -> quiescent s ->
    held s k = xs /\ (forall i, i < k -> held s i = []) /\ (forall i, i <= k -> inq s i = []).
  Proof.
    intros xs ls s Hex Hq.
    destruct (pexec_pinv xs _ _ _ Hex (pinv_start xs)) as (Ic & Ik & It & Is & Ib).
    destruct (quiescent_shape s It Hq) as (H0 & Hr & Hblk).
    assert (Hheld : forall i, i < k -> held s i = []).
    { intros i Hi. destruct i as [|i]; [apply Is; now right|].
      apply Ib; [lia|]. apply Hblk. lia. }
    assert (Hinq : forall i, i <= k -> inq s i = []).
    { intros i Hi. destruct i as [|i]; [assumption|]. apply Hblk. lia. }
    split; [|split; assumption].
    unfold contents in Ic. rewrite Ik in Ic. cbn in Ic.
    rewrite (Hinq k (le_n k)), full_empty, app_nil_r in Ic; [assumption|].
    intros m Hm. split; [apply Hheld | apply Hinq]; lia.
  Qed.

  (** ** At most one expired timed wait per block boundary.
      Once blocks 0 .. j-1 are blocked for good with nothing pending, they stay so, and
      block j times out at most once more: that timeout flushes it and leaves it blocked
      for good as well (upstream of j+1 settled). The source does no timed wait at all (it
      returns `FlushBatch` after MAX_RETRY empty polls). Hence an element is withheld by
      batching for at most one `max_delay` per block boundary after its predecessor block
      went idle. *)
  Notation upstream_settled := (@upstream_settled A).

  Definition idle_for_good (s : pstate) (j : nat) : Prop :=
    upstream_settled s j /\ inq s j = [] /\ ato s j = true.

  Lemma settled_stable : forall s l s' j, pstep s l s' -> upstream_settled s j -> upstream_settled s' j.
  Proof.
    intros s l s' j H (Hr & Ht & H0 & Hh0 & Hb). inversion H; subst; clear H.
    - match goal with Hm : moved _ _ _ _ _ _ _ _ |- _ => destruct Hm as (Hin & _) end.
      rewrite H0 in Hin. discriminate.
    - congruence.
    - match goal with Hm : moved _ _ _ _ _ _ _ _, Ha : ato s' = _, Hs : src s' = _, Hr : 1 <= i <= k |- _ =>
        destruct Hm as (Hin & Hne & _ & _ & Hinq & Hheld);
        rename Ha into Hato; rename Hs into Hsrc; rename Hr into Hi1 end.
      destruct (Nat.lt_ge_cases i j) as [Hlt | Hge].
      + destruct (Hb i) as (Hi0 & _); [lia|]. rewrite Hi0 in Hin.
        destruct b; [contradiction | discriminate].
      + unfold Idle.upstream_settled. rewrite Hsrc, Hinq, Hheld, Hato, !upd_other by lia.
        repeat split; try assumption; rewrite !upd_other by lia; apply Hb; assumption.
    - match goal with Hf : flushed_at _ _ _ _, Ha : ato s' = _, Hs : src s' = _, Hr : 1 <= i <= k,
                       Hw : start_wait _ = _ |- _ =>
        destruct Hf as (Hinq & Hheld);
        rename Ha into Hato; rename Hs into Hsrc; rename Hr into Hi1; rename Hw into Hwait end.
      destruct (Nat.lt_ge_cases i j) as [Hlt | Hge].
      + destruct (Hb i) as (_ & _ & Ha); [lia|]. rewrite Ha in Hwait. discriminate.
      + assert (Hheld' : forall m, m < i -> held s' m = held s m).
        { intros m Hm. rewrite Hheld. destruct (i <? k); [apply upd_other; lia | reflexivity]. }
        unfold Idle.upstream_settled. rewrite Hsrc, Hinq, Hato, !upd_other by lia.
        repeat split; try assumption.
        * rewrite Hheld' by lia. assumption.
        * rewrite upd_other by lia. apply Hb; assumption.
        * rewrite Hheld' by lia. apply Hb; assumption.
        * rewrite upd_other by lia. apply Hb; assumption.
  Qed.

  Lemma idle_stable : forall s l s' j, 1 <= j -> pstep s l s' -> idle_for_good s j ->
    idle_for_good s' j /\ l <> LTimeout j.
  Proof.
    intros s l s' j Hj H (Hset & Hin & Ha).
    pose proof (settled_stable _ _ _ _ H Hset) as Hset'.
    destruct Hset as (Hr & Ht & H0 & Hh0 & Hb). inversion H; subst; clear H.
    - match goal with Hm : moved _ _ _ _ _ _ _ _ |- _ => destruct Hm as (Hin' & _) end.
      rewrite H0 in Hin'. discriminate.
    - congruence.
    - match goal with Hm : moved _ _ _ _ _ _ _ _, Ha' : ato s' = _, Hr' : 1 <= i <= k |- _ =>
        destruct Hm as (Hin' & Hne & _ & _ & Hinq & Hheld); rename Ha' into Hato; rename Hr' into Hi1 end.
      assert (Hij : j < i).
      { destruct (Nat.lt_trichotomy i j) as [Hlt | [-> | Hgt]]; [| |assumption].
        - destruct (Hb i) as (Hi0 & _); [lia|]. rewrite Hi0 in Hin'. destruct b; [contradiction | discriminate].
        - rewrite Hin in Hin'. destruct b; [contradiction | discriminate]. }
      split; [|discriminate]. split; [assumption|].
      rewrite Hinq, Hato, !upd_other by lia. auto.
    - match goal with Hf : flushed_at _ _ _ _, Ha' : ato s' = _, Hr' : 1 <= i <= k,
                       Hw : start_wait _ = _ |- _ =>
        destruct Hf as (Hinq & Hheld); rename Ha' into Hato; rename Hr' into Hi1; rename Hw into Hwait end.
      assert (Hij : j < i).
      { destruct (Nat.lt_trichotomy i j) as [Hlt | [-> | Hgt]]; [| |assumption].
        - destruct (Hb i) as (_ & _ & Ha'); [lia|]. rewrite Ha' in Hwait. discriminate.
        - rewrite Ha in Hwait. discriminate. }
      split; [|intros E; inversion E; lia]. split; [assumption|].
      rewrite Hinq, Hato, !upd_other by lia. auto.
  Qed.

  (** the timeout of block [j] after its upstream settled leaves [j] idle for good, with
      nothing pending: the upstream of [j+1] is settled *)
  Lemma timeout_settles : forall s s' j, pstep s (LTimeout j) s' -> upstream_settled s j ->
    idle_for_good s' j /\ (j < k -> upstream_settled s' (S j)).
  Proof.
    intros s s' j H Hset. pose proof (settled_stable _ _ _ _ H Hset) as Hset'.
    inversion H; subst; clear H.
    match goal with Hf : flushed_at _ _ _ _, Ha' : ato s' = _, Hw : start_wait _ = _, Hi0 : inq s j = [] |- _ =>
      destruct Hf as (Hinq & Hheld); rename Ha' into Hato; rename Hw into Hwait; rename Hi0 into Hin end.
    destruct (start_timeout_ato _ Hwait) as [_ Htrue].
    assert (Hin' : inq s' j = []) by (rewrite Hinq, upd_other by lia; assumption).
    assert (Ha' : ato s' j = true) by (rewrite Hato, upd_same; assumption).
    split; [split; [assumption | split; assumption]|].
    intros Hjk. destruct Hset' as (Hr & Ht & H0 & Hh0 & Hb).
    repeat split; try assumption; destruct (Nat.eq_dec i j) as [->|Hne];
      try assumption; try (apply Hb; lia).
    rewrite Hheld. apply Nat.ltb_lt in Hjk. rewrite Hjk. apply upd_same.
  Qed.

  Definition is_timeout (j : nat) (l : label) : bool :=
    match l with LTimeout i => i =? j | _ => false end.
  Definition timeouts (j : nat) (ls : list label) : nat := length (filter (is_timeout j) ls).

  Lemma idle_no_timeout : forall s ls s' j, 1 <= j -> pexec s ls s' -> idle_for_good s j ->
    timeouts j ls = 0.
  Proof.
    intros s ls s' j Hj H. induction H as [|s l s1 ls s2 Hst _ IH]; intros Hidle; [reflexivity|].
    destruct (idle_stable _ _ _ _ Hj Hst Hidle) as [Hidle' Hl].
    unfold timeouts in *. cbn. destruct l as [|i|i]; cbn; try (apply IH; assumption).
    destruct (Nat.eqb_spec i j) as [->|]; [contradiction | apply IH; assumption].
  Qed.

  Theorem one_timeout_per_boundary : forall s ls s' j, 1 <= j -> pexec s ls s' ->
    upstream_settled s j -> timeouts j ls <= 1.
  Proof.
    intros s ls s' j Hj H. induction H as [|s l s1 ls s2 Hst Hex IH]; intros Hset; [cbn; lia|].
    pose proof (settled_stable _ _ _ _ Hst Hset) as Hset'.
    unfold timeouts in *. cbn. destruct l as [|i|i]; cbn; try (apply IH; assumption).
    destruct (Nat.eqb_spec i j) as [->|]; [|apply IH; assumption].
    destruct (timeout_settles _ _ _ Hst Hset) as [Hidle _].
    pose proof (idle_no_timeout _ _ _ _ Hj Hex Hidle) as H0. unfold timeouts in H0. cbn. lia.
  Qed.
End Pipeline.

(** Proofs for the aggregation operators (C07): global fold, keyed fold, the monoid
    algebra behind two-phase aggregation, and the end-to-end two-phase fold through the
    real Start operator. *)
From Noir Require Import Proofs.OpsSpec Proofs.StartProofs.
From Coq Require Import Permutation Lia.
Open Scope Z_scope.

(** * Generalised running maxima *)
Definition ts_from {X} (t0 : option Z) (l : list (elem X)) : option Z :=
  fold_left (fun acc e => match e with Tst _ t => omax acc (Some t) | _ => acc end) l t0.
Definition wm_from {X} (t0 : option Z) (l : list (elem X)) : option Z :=
  fold_left (fun acc e => match e with Wm t => omax acc (Some t) | _ => acc end) l t0.

Lemma max_ts_from : forall X (l : list (elem X)), max_ts l = ts_from None l.
Proof. reflexivity. Qed.
Lemma max_wm_from : forall X (l : list (elem X)), max_wm l = wm_from None l.
Proof. reflexivity. Qed.

Lemma omax_some_run : forall (o : option Z) t,
  Some (match o with Some u => Z.max u t | None => t end) = omax o (Some t).
Proof. intros [u|] t; reflexivity. Qed.

Lemma no_end_tail : forall A (x : elem A) l, no_end (x :: l) -> no_end l.
Proof. intros A x l H y Hy. apply H. now right. Qed.

Lemma no_end_head : forall A (x : elem A) l, no_end (x :: l) -> x <> FAR /\ x <> Terminate.
Proof. intros A x l H. apply H. now left. Qed.

(** * A1: global fold *)
Section FoldRound.
  Context {A O : Type}.
  Variable (init : O) (f : O -> A -> O).

  Definition acc_from (a : option O) (l : list (elem A)) : option O :=
    match payloads l with
    | [] => a
    | xs => Some (fold_left f xs (match a with Some x => x | None => init end))
    end.

  Lemma fold_run_noend : forall l (s : @fstate O), no_end l ->
    run_from (fold_machine init f) s l =
      ({| f_acc := acc_from (f_acc s) l; f_ts := ts_from (f_ts s) l; f_wm := wm_from (f_wm s) l |}, []).
  Proof.
    induction l as [|x l IH]; intros s Hn.
    - destruct s; reflexivity.
    - pose proof (no_end_tail _ _ _ Hn) as Hn'.
      pose proof (no_end_head _ _ _ Hn) as [Hx1 Hx2].
      cbn [run_from fold_machine mstep].
      destruct x as [v|v t|t| | |]; cbn [fold_step]; try congruence;
        rewrite (IH _ Hn'); cbn [f_acc f_ts f_wm app]; f_equal; f_equal.
      + unfold acc_from. cbn [payloads payload]. destruct (payloads l); reflexivity.
      + unfold acc_from. cbn [payloads payload]. destruct (payloads l); reflexivity.
      + unfold ts_from. cbn [fold_left]. now rewrite omax_some_run.
      + unfold wm_from. cbn [fold_left]. now rewrite omax_some_run.
  Qed.

  Lemma fold_round_marker : forall (m : elem A) (m' : elem O),
    (forall s, fold_step init f s m = (finit, fold_flush s m')) ->
    forall l rest, no_end l ->
    run (fold_machine init f) (l ++ m :: rest) =
      fold_round_out init f l m' ++ run (fold_machine init f) rest.
  Proof.
    intros m m' Hm l rest Hn. unfold run. rewrite run_from_app, (fold_run_noend _ _ Hn).
    cbn [run_from fold_machine mstep minit]. rewrite Hm.
    change (run_from {| mstate := fstate; minit := finit; mstep := fold_step init f |} finit rest)
      with (run_from (fold_machine init f) finit rest).
    destruct (run_from (fold_machine init f) finit rest) as [s2 o2].
    cbn [snd app]. f_equal.
    unfold fold_flush, fold_round_out, acc_from. cbn [f_acc f_ts f_wm finit].
    rewrite <- max_ts_from, <- max_wm_from.
    destruct (payloads l) as [|a q]; [reflexivity|].
    unfold stamp. destruct (max_ts l); reflexivity.
  Qed.

  Theorem fold_round : forall (l rest : list (elem A)), no_end l ->
    run (fold_machine init f) (l ++ FAR :: rest) =
      fold_round_out init f l FAR ++ run (fold_machine init f) rest.
  Proof. apply fold_round_marker. reflexivity. Qed.

  Theorem fold_round_terminate : forall (l rest : list (elem A)), no_end l ->
    run (fold_machine init f) (l ++ Terminate :: rest) =
      fold_round_out init f l Terminate ++ run (fold_machine init f) rest.
  Proof. apply fold_round_marker. reflexivity. Qed.
End FoldRound.

(** * A3: the algebra of two-phase aggregation *)
Section Algebra.
  Context {O : Type}.
  Variable (op : O -> O -> O) (e : O).
  Hypothesis CM : comm_monoid op e.

  Lemma cm_neutral_r : forall a, op a e = a.
  Proof. intros a. rewrite (cm_comm _ _ CM). apply (cm_neutral _ _ CM). Qed.

  Theorem fold_perm_acc : forall l l', Permutation l l' ->
    forall a, fold_left op l a = fold_left op l' a.
  Proof.
    induction 1 as [|x l l' _ IH|x y l|l l' l'' _ IH1 _ IH2]; intros a; cbn [fold_left].
    - reflexivity.
    - apply IH.
    - f_equal. rewrite <- !(cm_assoc _ _ CM). f_equal. apply (cm_comm _ _ CM).
    - now rewrite IH1.
  Qed.

  Theorem fold_perm : forall l l', Permutation l l' -> fold_left op l e = fold_left op l' e.
  Proof. intros l l' H. now apply fold_perm_acc. Qed.

  (** folding from [a] = [a] combined with the fold from the neutral element *)
  Lemma fold_left_shift : forall l a, fold_left op l a = op a (fold_left op l e).
  Proof.
    induction l as [|x l IH]; intros a; cbn [fold_left].
    - now rewrite cm_neutral_r.
    - rewrite (IH (op a x)), (IH (op e x)), (cm_neutral _ _ CM), (cm_assoc _ _ CM). reflexivity.
  Qed.

  Theorem fold_partition_acc : forall (parts : list (list O)) a,
    fold_left op (concat parts) a = fold_left op (map (fun p => fold_left op p e) parts) a.
  Proof.
    induction parts as [|p parts IH]; intros a; cbn [concat map fold_left].
    - reflexivity.
    - rewrite fold_left_app, IH. f_equal. apply fold_left_shift.
  Qed.

  Theorem fold_partition : forall parts : list (list O),
    fold_left op (concat parts) e = fold_left op (map (fun p => fold_left op p e) parts) e.
  Proof. intros. apply fold_partition_acc. Qed.
End Algebra.

Section TwoPhase.
  Context {A O : Type}.
  Variable (local : O -> A -> O) (global : O -> O -> O) (init : O).
  Hypothesis Hhom : forall acc xs, global acc (fold_left local xs init) = fold_left local xs acc.

  Theorem two_phase_eq_acc : forall (parts : list (list A)) acc,
    fold_left global (map (fun p => fold_left local p init) parts) acc =
    fold_left local (concat parts) acc.
  Proof.
    induction parts as [|p parts IH]; intros acc; cbn [concat map fold_left].
    - reflexivity.
    - now rewrite Hhom, IH, fold_left_app.
  Qed.

  Theorem two_phase_eq : forall parts : list (list A),
    fold_left global (map (fun p => fold_left local p init) parts) init =
    fold_left local (concat parts) init.
  Proof. intros. apply two_phase_eq_acc. Qed.
End TwoPhase.

(** the hypothesis of [two_phase_eq] holds for "map then combine" over a commutative monoid *)
Lemma monoid_hom : forall {A O} (op : O -> O -> O) (e : O) (h : A -> O),
  comm_monoid op e ->
  forall acc xs,
    op acc (fold_left (fun a x => op a (h x)) xs e) = fold_left (fun a x => op a (h x)) xs acc.
Proof.
  intros A O op e h CM acc xs.
  assert (Hmap : forall xs a, fold_left (fun a x => op a (h x)) xs a = fold_left op (map h xs) a).
  { induction xs0 as [|x xs0 IH]; intros a; cbn [fold_left map]; [reflexivity|apply IH]. }
  rewrite !Hmap. symmetry. now apply fold_left_shift.
Qed.

Corollary two_phase_monoid : forall {A O} (op : O -> O -> O) (e : O) (h : A -> O),
  comm_monoid op e ->
  forall parts : list (list A),
    fold_left op (map (fun p => fold_left (fun a x => op a (h x)) p e) parts) e =
    fold_left (fun a x => op a (h x)) (concat parts) e.
Proof. intros A O op e h CM. apply two_phase_eq. now apply monoid_hom. Qed.

(** lifting of a semigroup operation to options, [None] neutral: reduce/sum/min/max/count *)
Definition olift {A} (g : A -> A -> A) (a b : option A) : option A :=
  match a, b with
  | Some x, Some y => Some (g x y)
  | Some x, None | None, Some x => Some x
  | None, None => None
  end.

Theorem option_lift_monoid : forall {A} (g : A -> A -> A),
  (forall a b c, g a (g b c) = g (g a b) c) -> (forall a b, g a b = g b a) ->
  comm_monoid (olift g) None.
Proof.
  intros A g Ha Hc. split.
  - intros [a|] [b|] [c|]; cbn [olift]; try reflexivity. now rewrite Ha.
  - intros [a|] [b|]; cbn [olift]; try reflexivity. now rewrite Hc.
  - intros [a|]; reflexivity.
Qed.

(** * A2: keyed fold *)
Section AssocLemmas.
  Context {V : Type}.

  Lemma aget_aupd : forall k k' (upd : option V -> V) m,
    aget k (aupd k' upd m) = if Z.eqb k k' then Some (upd (aget k' m)) else aget k m.
  Proof.
    intros k k' upd m. induction m as [|[k1 v1] m IH]; cbn [aupd aget].
    - destruct (Z.eqb k k'); reflexivity.
    - destruct (Z.eqb_spec k' k1) as [E1|E1]; cbn [aget].
      + subst k1. destruct (Z.eqb k k'); reflexivity.
      + rewrite IH. destruct (Z.eqb_spec k k1) as [E2|E2]; [|reflexivity].
        subst k1. destruct (Z.eqb_spec k k'); [congruence|reflexivity].
  Qed.

  Lemma aupd_new : forall k (upd : option V -> V) m,
    existsb (Z.eqb k) (map fst m) = false -> aupd k upd m = m ++ [(k, upd None)].
  Proof.
    intros k upd m. induction m as [|[k1 v1] m IH]; cbn [aupd map fst existsb app]; intros H.
    - reflexivity.
    - apply orb_false_iff in H as [H1 H2]. rewrite H1. now rewrite IH.
  Qed.

  Lemma aupd_keys_seen : forall k (upd : option V -> V) m,
    existsb (Z.eqb k) (map fst m) = true -> map fst (aupd k upd m) = map fst m.
  Proof.
    intros k upd m. induction m as [|[k1 v1] m IH]; cbn [aupd map fst existsb]; intros H.
    - discriminate.
    - destruct (Z.eqb_spec k k1) as [E|E]; cbn [map fst].
      + now subst.
      + cbn [orb] in H. now rewrite IH.
  Qed.
End AssocLemmas.

Lemma existsb_eqb_In : forall k l, existsb (Z.eqb k) l = true <-> In k l.
Proof.
  intros k l. rewrite existsb_exists. split.
  - intros [x [Hx E]]. apply Z.eqb_eq in E. now subst.
  - intros H. exists k. split; [exact H|apply Z.eqb_refl].
Qed.

Lemma existsb_eqb_nIn : forall k l, existsb (Z.eqb k) l = false <-> ~ In k l.
Proof.
  intros k l. rewrite <- existsb_eqb_In. destruct (existsb (Z.eqb k) l); split; congruence.
Qed.

Section KFoldRound.
  Context {A O : Type}.
  Variable (init : O) (f : O -> A -> O).

  Definition kupd (v : A) : option O -> O :=
    fun o => f (match o with Some a => a | None => init end) v.
  Definition tupd (t : Z) : option Z -> Z :=
    fun o => match o with Some u => Z.max u t | None => t end.

  (** [xs k] = the payloads still to come for key [k] *)
  Definition Pf (xs : Z -> list A) (p : Z * O) : Z * O := (fst p, fold_left f (xs (fst p)) (snd p)).
  Definition Gf (xs : Z -> list A) (k : Z) : Z * O := (k, fold_left f (xs k) init).

  Lemma first_keys_ext : forall (l : list (elem (Z * A))) seen seen',
    (forall k, existsb (Z.eqb k) seen = existsb (Z.eqb k) seen') ->
    first_keys seen l = first_keys seen' l.
  Proof.
    induction l as [|x l IH]; intros seen seen' H; cbn [first_keys]; [reflexivity|].
    destruct (payload x) as [[k v]|]; [|now apply IH].
    rewrite <- (H k). destruct (existsb (Z.eqb k) seen) eqn:E; [now apply IH|].
    f_equal. apply IH. intros k'. cbn [existsb]. now rewrite H.
  Qed.

  Lemma first_keys_fresh : forall (l : list (elem (Z * A))) seen k,
    In k (first_keys seen l) -> existsb (Z.eqb k) seen = false.
  Proof.
    induction l as [|x l IH]; intros seen k; cbn [first_keys]; [intros []|].
    destruct (payload x) as [[k1 v]|]; [|apply IH].
    destruct (existsb (Z.eqb k1) seen) eqn:E; [apply IH|].
    intros [H|H].
    - now subst.
    - apply IH in H. cbn [existsb] in H. now apply orb_false_iff in H.
  Qed.

  Lemma first_keys_not_head : forall (l : list (elem (Z * A))) seen k,
    In k (first_keys (k :: seen) l) -> False.
  Proof.
    intros l seen k H. apply first_keys_fresh in H. cbn [existsb] in H.
    rewrite Z.eqb_refl in H. discriminate.
  Qed.

  Lemma payloads_of_key_cons : forall (x : elem (Z * A)) k v l k',
    payload x = Some (k, v) ->
    payloads (of_key k' (x :: l)) =
      if Z.eqb k' k then v :: payloads (of_key k' l) else payloads (of_key k' l).
  Proof.
    intros x k v l k' H. unfold of_key. cbn [flat_map].
    destruct x as [[k1 v1]|[k1 v1] t|t| | |]; cbn [payload] in H; try discriminate;
      injection H as -> ->; destruct (Z.eqb k' k); reflexivity.
  Qed.

  Lemma aupd_seen : forall xs k v (m : list (Z * O)),
    NoDup (map fst m) -> existsb (Z.eqb k) (map fst m) = true ->
    map (Pf xs) (aupd k (kupd v) m) =
    map (Pf (fun k' => if Z.eqb k' k then v :: xs k' else xs k')) m.
  Proof.
    intros xs k v m. induction m as [|[k1 a1] m IH]; cbn [map fst existsb aupd]; intros Hnd H.
    - discriminate.
    - inversion Hnd as [|? ? Hni Hnd']; subst.
      destruct (Z.eqb_spec k k1) as [E|E]; cbn [map].
      + subst k1. f_equal.
        * unfold Pf, kupd. cbn [fst snd]. rewrite Z.eqb_refl. reflexivity.
        * apply map_ext_in. intros [k2 a2] Hin. unfold Pf. cbn [fst snd].
          destruct (Z.eqb_spec k2 k) as [E2|E2]; [|reflexivity].
          subst k2. exfalso. apply Hni. apply in_map_iff. now exists (k, a2).
      + f_equal.
        * unfold Pf. cbn [fst snd]. destruct (Z.eqb_spec k1 k); [congruence|reflexivity].
        * apply IH; [exact Hnd'|]. cbn [orb] in H. exact H.
  Qed.

  Lemma accs_step : forall (x : elem (Z * A)) k v l (m : list (Z * O)),
    payload x = Some (k, v) -> NoDup (map fst m) ->
    NoDup (map fst (aupd k (kupd v) m)) /\
    map (Pf (fun k' => payloads (of_key k' l))) (aupd k (kupd v) m)
      ++ map (Gf (fun k' => payloads (of_key k' l))) (first_keys (map fst (aupd k (kupd v) m)) l)
    = map (Pf (fun k' => payloads (of_key k' (x :: l)))) m
      ++ map (Gf (fun k' => payloads (of_key k' (x :: l)))) (first_keys (map fst m) (x :: l)).
  Proof.
    intros x k v l m Hp Hnd.
    cbn [first_keys]. rewrite Hp.
    destruct (existsb (Z.eqb k) (map fst m)) eqn:E.
    - rewrite (aupd_keys_seen _ _ _ E). split; [exact Hnd|].
      rewrite (aupd_seen _ _ _ _ Hnd E). f_equal.
      + apply map_ext. intros [k2 a2]. unfold Pf. cbn [fst snd].
        now rewrite (payloads_of_key_cons _ _ _ _ _ Hp).
      + apply map_ext_in. intros k2 Hin. unfold Gf.
        rewrite (payloads_of_key_cons _ _ _ _ _ Hp).
        destruct (Z.eqb_spec k2 k) as [E2|E2]; [|reflexivity].
        subst k2. apply first_keys_fresh in Hin. congruence.
    - rewrite (aupd_new _ _ _ E). rewrite map_app. cbn [map fst].
      assert (Hni : ~ In k (map fst m)) by now apply existsb_eqb_nIn.
      split.
      { eapply Permutation_NoDup; [apply Permutation_cons_append|]. now constructor. }
      rewrite map_app, <- app_assoc. cbn [map app]. f_equal.
      + apply map_ext_in. intros [k2 a2] Hin. unfold Pf. cbn [fst snd].
        rewrite (payloads_of_key_cons _ _ _ _ _ Hp).
        destruct (Z.eqb_spec k2 k) as [E2|E2]; [|reflexivity].
        subst k2. exfalso. apply Hni. apply in_map_iff. now exists (k, a2).
      + f_equal.
        * unfold Pf, Gf, kupd. cbn [fst snd].
          rewrite (payloads_of_key_cons _ _ _ _ _ Hp), Z.eqb_refl. reflexivity.
        * rewrite (first_keys_ext l (map fst m ++ [k]) (k :: map fst m)).
          2:{ intros k'. rewrite existsb_app. cbn [existsb]. rewrite orb_false_r. apply orb_comm. }
          apply map_ext_in. intros k2 Hin. unfold Gf.
          rewrite (payloads_of_key_cons _ _ _ _ _ Hp).
          destruct (Z.eqb_spec k2 k) as [E2|E2]; [|reflexivity].
          subst k2. exfalso. eapply first_keys_not_head; eauto.
  Qed.

  Lemma ts_from_of_key_cons_item : forall k' k v (l : list (elem (Z * A))) t0,
    ts_from t0 (of_key k' (Item (k, v) :: l)) = ts_from t0 (of_key k' l).
  Proof.
    intros. unfold of_key. cbn [flat_map]. destruct (Z.eqb k' k); reflexivity.
  Qed.

  Lemma kfold_run_noend : forall l (s : @kstate O), no_end l -> NoDup (map fst (k_accs s)) ->
    exists s', run_from (kfold_machine init f) s l = (s', []) /\
      k_accs s' = map (Pf (fun k => payloads (of_key k l))) (k_accs s)
                  ++ map (Gf (fun k => payloads (of_key k l))) (first_keys (map fst (k_accs s)) l) /\
      (forall k, aget k (k_tss s') = ts_from (aget k (k_tss s)) (of_key k l)) /\
      k_wm s' = wm_from (k_wm s) l.
  Proof.
    induction l as [|x l IH]; intros s Hn Hnd.
    - exists s. repeat split.
      cbn [first_keys map]. rewrite app_nil_r. symmetry.
      erewrite map_ext; [apply map_id|]. intros [k a]. reflexivity.
    - pose proof (no_end_tail _ _ _ Hn) as Hn'.
      pose proof (no_end_head _ _ _ Hn) as [Hx1 Hx2].
      cbn [run_from kfold_machine mstep].
      destruct x as [[k v]|[k v] t|t| | |]; cbn [kfold_step]; try congruence.
      + destruct (accs_step (Item (k, v)) k v l (k_accs s) eq_refl Hnd) as [Hnd1 Hacc].
        match goal with |- context [run_from _ ?s1 l] =>
          destruct (IH s1 Hn' Hnd1) as [s' [Hr [Ha [Ht Hw]]]] end.
        exists s'. cbn [k_accs k_tss k_wm] in *.
        change (run_from {| mstate := kstate; minit := kinit; mstep := kfold_step init f |})
          with (run_from (kfold_machine init f)).
        rewrite Hr. repeat split.
        * rewrite Ha. exact Hacc.
        * intros k'. rewrite Ht. now rewrite ts_from_of_key_cons_item.
        * exact Hw.
      + destruct (accs_step (Tst (k, v) t) k v l (k_accs s) eq_refl Hnd) as [Hnd1 Hacc].
        match goal with |- context [run_from _ ?s1 l] =>
          destruct (IH s1 Hn' Hnd1) as [s' [Hr [Ha [Ht Hw]]]] end.
        exists s'. cbn [k_accs k_tss k_wm] in *.
        change (run_from {| mstate := kstate; minit := kinit; mstep := kfold_step init f |})
          with (run_from (kfold_machine init f)).
        rewrite Hr. repeat split.
        * rewrite Ha. exact Hacc.
        * intros k'. rewrite Ht, aget_aupd. unfold of_key. cbn [flat_map].
          destruct (Z.eqb k' k) eqn:E; [|reflexivity].
          apply Z.eqb_eq in E. subst k'. cbn [app]. unfold ts_from. cbn [fold_left].
          now rewrite omax_some_run.
        * exact Hw.
      + match goal with |- context [run_from _ ?s1 l] =>
          destruct (IH s1 Hn' Hnd) as [s' [Hr [Ha [Ht Hw]]]] end.
        exists s'. cbn [k_accs k_tss k_wm] in *.
        change (run_from {| mstate := kstate; minit := kinit; mstep := kfold_step init f |})
          with (run_from (kfold_machine init f)).
        rewrite Hr. repeat split; try assumption.
        rewrite Hw. unfold wm_from. cbn [fold_left]. now rewrite omax_some_run.
      + destruct (IH s Hn' Hnd) as [s' [Hr [Ha [Ht Hw]]]].
        exists s'.
        change (run_from {| mstate := kstate; minit := kinit; mstep := kfold_step init f |})
          with (run_from (kfold_machine init f)).
        rewrite Hr. repeat split; assumption.
  Qed.

  Lemma kfold_round_marker : forall (m : elem (Z * A)) (m' : elem (Z * O)),
    (forall s, kfold_step init f s m = (kinit, kfold_flush s m')) ->
    forall l rest, no_end l ->
    run (kfold_machine init f) (l ++ m :: rest) =
      kfold_round_out init f l m' ++ run (kfold_machine init f) rest.
  Proof.
    intros m m' Hm l rest Hn. unfold run. rewrite run_from_app.
    destruct (kfold_run_noend l kinit Hn) as [s' [Hr [Ha [Ht Hw]]]]; [constructor|].
    change (minit (kfold_machine init f)) with (@kinit O).
    rewrite Hr.
    cbn [run_from kfold_machine mstep minit]. rewrite Hm.
    change (run_from {| mstate := kstate; minit := kinit; mstep := kfold_step init f |} kinit rest)
      with (run_from (kfold_machine init f) kinit rest).
    destruct (run_from (kfold_machine init f) kinit rest) as [s2 o2].
    cbn [snd app]. f_equal.
    unfold kfold_flush, kfold_round_out.
    cbn [kinit k_accs k_tss k_wm map app] in Ha, Ht, Hw.
    rewrite Ha, Hw, <- max_wm_from, map_map. f_equal.
    apply map_ext. intros k. unfold Gf. rewrite Ht. cbn [aget].
    rewrite <- max_ts_from. unfold stamp. destruct (max_ts (of_key k l)); reflexivity.
  Qed.

  Theorem kfold_round : forall (l rest : list (elem (Z * A))), no_end l ->
    run (kfold_machine init f) (l ++ FAR :: rest) =
      kfold_round_out init f l FAR ++ run (kfold_machine init f) rest.
  Proof. apply kfold_round_marker. reflexivity. Qed.

  Theorem kfold_round_terminate : forall (l rest : list (elem (Z * A))), no_end l ->
    run (kfold_machine init f) (l ++ Terminate :: rest) =
      kfold_round_out init f l Terminate ++ run (kfold_machine init f) rest.
  Proof. apply kfold_round_marker. reflexivity. Qed.
End KFoldRound.

(** * A4: two-phase aggregation through the real Start *)
Section CountLemmas.
  Local Open Scope nat_scope.
  Context {T : Type}.

  Definition cnt (c : T -> bool) (l : list T) : nat := length (filter c l).
  Definition b2n (b : bool) : nat := if b then 1 else 0.

  Lemma cnt_cons : forall c x l, cnt c (x :: l) = b2n (c x) + cnt c l.
  Proof. intros c x l. unfold cnt. cbn [filter]. destruct (c x); reflexivity. Qed.

  Lemma cnt_set_nth : forall c (l : list T) s v d, s < length l ->
    cnt c (set_nth s v l) + b2n (c (nth s l d)) = cnt c l + b2n (c v).
  Proof.
    intros c. induction l as [|x l IH]; intros [|s] v d Hs; cbn [length] in Hs; try lia;
      cbn [set_nth nth]; rewrite !cnt_cons.
    - lia.
    - specialize (IH s v d). lia.
  Qed.

  Lemma cnt_pos : forall c (l : list T) s d, s < length l -> c (nth s l d) = true -> 1 <= cnt c l.
  Proof.
    intros c. induction l as [|x l IH]; intros [|s] d Hs H; cbn [length] in Hs; try lia;
      cbn [nth] in H; rewrite cnt_cons.
    - rewrite H. cbn [b2n]. lia.
    - assert (s < length l) as Hs' by lia. specialize (IH s d Hs' H). lia.
  Qed.

  Lemma cnt_le : forall (c1 c2 : T -> bool) l, (forall x, c1 x = true -> c2 x = true) ->
    cnt c1 l <= cnt c2 l.
  Proof.
    intros c1 c2 l H. induction l as [|x l IH]; [reflexivity|]. rewrite !cnt_cons.
    specialize (H x). destruct (c1 x); cbn [b2n].
    - rewrite H by reflexivity. cbn [b2n]. lia.
    - destruct (c2 x); cbn [b2n]; lia.
  Qed.

  Lemma cnt_all : forall c (l : list T), (forall x, In x l -> c x = true) -> cnt c l = length l.
  Proof.
    intros c. induction l as [|x l IH]; intros H; [reflexivity|]. rewrite cnt_cons, IH.
    - rewrite (H x) by now left. reflexivity.
    - intros y Hy. apply H. now right.
  Qed.
End CountLemmas.

Section Interleave.
  Local Open Scope nat_scope.
  Context {X : Type}.

  Lemma interleaving_cons : forall (ss : list (list X)) s x l,
    interleaving ss ((s, x) :: l) ->
    s < length ss /\ exists tl, nth s ss [] = x :: tl /\ interleaving (set_nth s tl ss) l.
  Proof.
    intros ss s x l [H1 H2].
    assert (Hs : s < length ss) by (apply (H1 s x); now left).
    split; [exact Hs|].
    exists (map snd (filter (fun y => Nat.eqb (fst y) s) l)). split.
    - rewrite <- (H2 s Hs). cbn [filter fst]. rewrite Nat.eqb_refl. reflexivity.
    - split.
      + intros s' x' Hin. rewrite set_nth_length. apply (H1 s' x'). now right.
      + intros s'. rewrite set_nth_length. intros Hs'.
        destruct (Nat.eq_dec s s') as [E|E].
        * subst s'. now rewrite nth_set_nth_eq.
        * rewrite nth_set_nth_neq by exact E. rewrite <- (H2 s' Hs').
          cbn [filter fst]. destruct (Nat.eqb_spec s s'); [congruence|reflexivity].
  Qed.

  Lemma interleaving_nil : forall (ss : list (list X)) s,
    interleaving ss [] -> s < length ss -> nth s ss [] = [].
  Proof. intros ss s [_ H2] Hs. now rewrite <- (H2 s Hs). Qed.
End Interleave.

Section StartNoWm.
  Local Open Scope nat_scope.
  Context {O : Type}.

  (** what a sender still has to deliver: partial results then FAR, Terminate / Terminate / nothing *)
  Inductive phase := P0 (rs : list O) | P1 | P2.
  Definition stream_of (p : phase) : list (elem O) :=
    match p with P0 rs => map Item rs ++ [FAR; Terminate] | P1 => [Terminate] | P2 => [] end.
  Definition data_ph (p : phase) : list O := match p with P0 rs => rs | _ => [] end.
  Definition is_f (p : phase) : bool := match p with P0 _ => true | _ => false end.
  Definition is_t (p : phase) : bool := match p with P2 => false | _ => true end.

  Fixpoint items_of (l : list (nat * elem O)) : list O :=
    match l with
    | [] => []
    | (_, Item v) :: l' => v :: items_of l'
    | _ :: l' => items_of l'
    end.

  Lemma interleaving_phase_cons : forall phs s x l,
    interleaving (map stream_of phs) ((s, x) :: l) ->
    s < length phs /\ exists p', interleaving (map stream_of (set_nth s p' phs)) l /\
      ((exists r rs, nth s phs P2 = P0 (r :: rs) /\ x = Item r /\ p' = P0 rs) \/
       (nth s phs P2 = P0 [] /\ x = FAR /\ p' = P1) \/
       (nth s phs P2 = P1 /\ x = Terminate /\ p' = P2)).
  Proof.
    intros phs s x l H. apply interleaving_cons in H as [Hs [tl [Hn Hi]]].
    rewrite map_length in Hs. split; [exact Hs|].
    change (@nil (elem O)) with (stream_of P2) in Hn. rewrite map_nth in Hn.
    destruct (nth s phs P2) as [[|r rs]| |] eqn:E; cbn [stream_of map app] in Hn.
    - injection Hn as <- <-. exists P1. split.
      + rewrite <- map_set_nth. exact Hi.
      + right; left. auto.
    - injection Hn as <- <-. exists (P0 rs). split.
      + rewrite <- map_set_nth. exact Hi.
      + left. exists r, rs. auto.
    - injection Hn as <- <-. exists P2. split.
      + rewrite <- map_set_nth. exact Hi.
      + right; right. auto.
    - discriminate.
  Qed.

  Lemma data_set_nth_cons : forall phs s p' r d,
    s < length phs -> data_ph (nth s phs d) = r :: data_ph p' ->
    Permutation (r :: concat (map data_ph (set_nth s p' phs))) (concat (map data_ph phs)).
  Proof.
    induction phs as [|q phs IH]; intros [|s] p' r d Hs Hd; cbn [length] in Hs; try lia;
      cbn [nth] in Hd; cbn [set_nth map concat].
    - rewrite Hd. reflexivity.
    - etransitivity; [apply Permutation_middle|]. apply Permutation_app_head.
      apply (IH s p' r d); [lia|exact Hd].
  Qed.

  Lemma data_set_nth_same : forall phs s p' d,
    s < length phs -> data_ph (nth s phs d) = data_ph p' ->
    concat (map data_ph (set_nth s p' phs)) = concat (map data_ph phs).
  Proof.
    induction phs as [|q phs IH]; intros [|s] p' d Hs Hd; cbn [length] in Hs; try lia;
      cbn [nth] in Hd; cbn [set_nth map concat].
    - now rewrite Hd.
    - f_equal. apply (IH s p' d); [lia|exact Hd].
  Qed.

  Lemma cnt_f_zero_data : forall phs, cnt is_f phs = 0 -> concat (map data_ph phs) = [].
  Proof.
    induction phs as [|q phs IH]; [reflexivity|]. rewrite cnt_cons. intros H.
    cbn [map concat]. destruct q; cbn [is_f b2n data_ph] in *; try lia; apply IH; lia.
  Qed.

  Lemma interleaving_items_perm : forall sigma phs,
    interleaving (map stream_of phs) sigma ->
    Permutation (items_of sigma) (concat (map data_ph phs)).
  Proof.
    induction sigma as [|[s x] l IH]; intros phs H.
    - cbn [items_of]. rewrite cnt_f_zero_data; [constructor|].
      assert (Hall : forall p, In p phs -> is_f p = false).
      { intros p Hin. apply (In_nth _ _ P2) in Hin as [s [Hs Hp]].
        pose proof (interleaving_nil _ s H) as Hn. rewrite map_length in Hn. specialize (Hn Hs).
        change (@nil (elem O)) with (stream_of P2) in Hn at 1. rewrite map_nth, Hp in Hn.
        destruct p as [[|r rs]| |]; cbn [stream_of map app] in Hn; try discriminate; reflexivity. }
      clear H. induction phs as [|q phs IHp]; [reflexivity|]. rewrite cnt_cons.
      rewrite (Hall q) by now left. rewrite IHp; [reflexivity|]. intros p Hp. apply Hall. now right.
    - apply interleaving_phase_cons in H as [Hs [p' [Hi Hc]]].
      specialize (IH _ Hi).
      destruct Hc as [[r [rs [Hn [-> ->]]]]|[[Hn [-> ->]]|[Hn [-> ->]]]]; cbn [items_of].
      + etransitivity; [apply perm_skip, IH|].
        apply (data_set_nth_cons phs s (P0 rs) r P2 Hs). now rewrite Hn.
      + rewrite (data_set_nth_same phs s P1 P2 Hs) in IH; [exact IH|now rewrite Hn].
      + rewrite (data_set_nth_same phs s P2 P2 Hs) in IH; [exact IH|now rewrite Hn].
  Qed.

  (** The Start on a watermark-free arrival sequence of senders that each deliver partial
      results, then FAR, then Terminate: every Item is forwarded at once, FAR leaves when the
      last FAR arrives, Terminate when the last Terminate arrives. *)
  Lemma start_nowm_run : forall sigma phs n mt mf fr,
    interleaving (map stream_of phs) sigma -> 1 <= n ->
    mt = cnt is_t phs ->
    mf = (if cnt is_f phs =? 0 then n else cnt is_f phs) ->
    snd (run_from (start_machine O n)
           {| s_n := n; s_mterm := mt; s_mfar := mf; s_front := fr; s_done := false |} sigma) =
    map Item (items_of sigma)
      ++ (if cnt is_f phs =? 0 then [] else [FAR])
      ++ (if cnt is_t phs =? 0 then [] else [Terminate]).
  Proof.
    induction sigma as [|[s x] l IH]; intros phs n mt mf fr H Hn Hmt Hmf.
    - cbn [run_from snd items_of map app].
      pose proof (interleaving_items_perm _ _ H) as Hp. cbn [items_of] in Hp.
      assert (Hft : cnt is_f phs <= cnt is_t phs).
      { apply cnt_le. intros [| |]; cbn; congruence. }
      assert (Ht : cnt is_t phs = 0).
      { destruct (cnt is_t phs) eqn:E; [reflexivity|exfalso].
        assert (Hex : exists s, s < length phs /\ is_t (nth s phs P2) = true).
        { clear -E. induction phs as [|q phs IHp]; [discriminate|].
          rewrite cnt_cons in E. destruct (is_t q) eqn:Eq.
          - exists 0. cbn [length nth]. split; [lia|exact Eq].
          - cbn [b2n] in E. destruct (IHp E) as [s [Hs Hq]]. exists (S s). cbn [length nth].
            split; [lia|exact Hq]. }
        destruct Hex as [s [Hs Hq]].
        pose proof (interleaving_nil _ s H) as Hnil. rewrite map_length in Hnil. specialize (Hnil Hs).
        change (@nil (elem O)) with (stream_of P2) in Hnil at 1. rewrite map_nth in Hnil.
        destruct (nth s phs P2) as [[|r rs]| |]; cbn [stream_of map app is_t] in *; discriminate. }
      rewrite Ht in *. assert (Hf : cnt is_f phs = 0) by lia. rewrite Hf. reflexivity.
    - pose proof (interleaving_items_perm _ _ H) as Hperm.
      apply interleaving_phase_cons in H as [Hs [p' [Hi Hc]]].
      pose proof (interleaving_items_perm _ _ Hi) as Hperm'.
      pose proof (cnt_set_nth is_f phs s p' P2 Hs) as Hcf.
      pose proof (cnt_set_nth is_t phs s p' P2 Hs) as Hct.
      assert (Hft' : cnt is_f (set_nth s p' phs) <= cnt is_t (set_nth s p' phs)).
      { apply cnt_le. intros [| |]; cbn; congruence. }
      cbn [run_from start_machine mstep].
      change (run_from {| mstate := sstate; minit := start_init n; mstep := start_step |})
        with (run_from (start_machine O n)).
      destruct Hc as [[r [rs [Hnth [-> ->]]]]|[[Hnth [-> ->]]|[Hnth [-> ->]]]];
        rewrite Hnth in Hcf, Hct; cbn [is_f is_t b2n] in Hcf, Hct.
      + (* Item *)
        unfold start_step. cbn [s_done].
        specialize (IH _ n mt mf fr Hi Hn).
        destruct (run_from (start_machine O n) _ l) as [s2 o2]. cbn [snd] in *.
        assert (Ef : cnt is_f (set_nth s (P0 rs) phs) = cnt is_f phs) by lia.
        assert (Et : cnt is_t (set_nth s (P0 rs) phs) = cnt is_t phs) by lia.
        rewrite IH; rewrite ?Ef, ?Et; [|assumption|assumption].
        reflexivity.
      + (* FAR *)
        unfold start_step. cbn [s_done s_front].
        destruct (frontier_update fr s TS_MAX) as [fr' o'].
        unfold settle. cbn [s_n s_mterm s_mfar s_front].
        assert (Hf1 : cnt is_f phs = S (cnt is_f (set_nth s P1 phs))) by lia.
        assert (Ht1 : 1 <= cnt is_t (set_nth s P1 phs)).
        { apply (cnt_pos is_t _ s P2); [now rewrite set_nth_length|].
          now rewrite nth_set_nth_eq. }
        rewrite Hf1 in Hmf. cbn [Nat.eqb] in Hmf. subst mf mt.
        destruct (Nat.eqb_spec (cnt is_t phs) 0) as [E|E]; [lia|].
        cbn [Nat.pred]. cbn [items_of].
        destruct (Nat.eqb_spec (cnt is_f (set_nth s P1 phs)) 0) as [E2|E2].
        * specialize (IH _ n (cnt is_t phs) n (frontier_reset fr') Hi Hn).
          destruct (run_from (start_machine O n) _ l) as [s2 o2]. cbn [snd] in *.
          rewrite IH; [|lia|rewrite E2; reflexivity].
          rewrite (cnt_f_zero_data _ E2) in Hperm'. apply Permutation_sym, Permutation_nil in Hperm'.
          rewrite Hperm', E2, Hf1. cbn [map app Nat.eqb].
          replace (cnt is_t (set_nth s P1 phs)) with (cnt is_t phs) by lia.
          destruct (Nat.eqb_spec (cnt is_t phs) 0); [lia|]. reflexivity.
        * specialize (IH _ n (cnt is_t phs) (cnt is_f (set_nth s P1 phs)) fr' Hi Hn).
          destruct (run_from (start_machine O n) _ l) as [s2 o2]. cbn [snd] in *.
          rewrite IH; [|lia|]. 
          2:{ destruct (Nat.eqb_spec (cnt is_f (set_nth s P1 phs)) 0); [lia|reflexivity]. }
          rewrite Hf1. cbn [app Nat.eqb].
          destruct (Nat.eqb_spec (cnt is_f (set_nth s P1 phs)) 0); [lia|].
          replace (cnt is_t (set_nth s P1 phs)) with (cnt is_t phs) by lia.
          destruct (Nat.eqb_spec (cnt is_t phs) 0); [lia|]. reflexivity.
      + (* Terminate *)
        unfold start_step. cbn [s_done].
        unfold settle. cbn [s_n s_mterm s_mfar s_front].
        assert (Ht1 : cnt is_t phs = S (cnt is_t (set_nth s P2 phs))) by lia.
        assert (Hf1 : cnt is_f (set_nth s P2 phs) = cnt is_f phs) by lia.
        subst mt. rewrite Ht1. cbn [Nat.pred]. cbn [items_of].
        destruct (Nat.eqb_spec (cnt is_t (set_nth s P2 phs)) 0) as [E|E].
        * rewrite start_done_run by reflexivity. cbn [snd].
          assert (Hf0 : cnt is_f (set_nth s P2 phs) = 0) by lia.
          rewrite (cnt_f_zero_data _ Hf0) in Hperm'. apply Permutation_sym, Permutation_nil in Hperm'.
          rewrite Hperm'. rewrite <- Hf1, Hf0. reflexivity.
        * assert (Hmf0 : mf <> 0).
          { subst mf. destruct (Nat.eqb_spec (cnt is_f phs) 0); lia. }
          destruct (Nat.eqb_spec mf 0) as [E3|E3]; [lia|].
          specialize (IH _ n (cnt is_t (set_nth s P2 phs)) mf fr Hi Hn).
          destruct (run_from (start_machine O n) _ l) as [s2 o2]. cbn [snd] in *.
          rewrite IH; [|reflexivity|now rewrite Hf1].
          rewrite Hf1. cbn [app].
          destruct (Nat.eqb_spec (cnt is_t (set_nth s P2 phs)) 0); [lia|]. reflexivity.
  Qed.
End StartNoWm.

(** a round made only of plain items, then FAR, Terminate *)
Lemma payloads_items : forall A (p : list A), payloads (items p) = p.
Proof. induction p as [|x p IH]; cbn [items map payloads payload]; [reflexivity|]. f_equal. exact IH. Qed.

Lemma ts_from_items : forall A (p : list A) t0, ts_from t0 (items p) = t0.
Proof. induction p as [|x p IH]; intros t0; [reflexivity|]. apply IH. Qed.

Lemma wm_from_items : forall A (p : list A) t0, wm_from t0 (items p) = t0.
Proof. induction p as [|x p IH]; intros t0; [reflexivity|]. apply IH. Qed.

Lemma no_end_items : forall A (p : list A), no_end (items p).
Proof.
  intros A p x Hin. unfold items in Hin. apply in_map_iff in Hin as [v [<- _]]. split; discriminate.
Qed.

Lemma fold_items_round : forall {A O} (init : O) (f : O -> A -> O) (p : list A),
  run (fold_machine init f) (items p ++ [FAR; Terminate]) =
  (match p with [] => [] | _ => [Item (fold_left f p init)] end) ++ [FAR; Terminate].
Proof.
  intros A O init f p.
  change (items p ++ [FAR; Terminate]) with (items p ++ FAR :: ([] ++ Terminate :: [])).
  rewrite fold_round by apply no_end_items.
  rewrite fold_round_terminate by (intros x []).
  unfold fold_round_out. rewrite payloads_items, max_ts_from, max_wm_from, ts_from_items, wm_from_items.
  cbn [payloads max_wm max_ts fold_left app]. unfold run. cbn [run_from snd app].
  destruct p; reflexivity.
Qed.

Definition local_of {A O} (op : O -> O -> O) (h : A -> O) : O -> A -> O :=
  fun acc x => op acc (h x).

Section TwoPhaseFold.
  Context {A O : Type}.
  Variable (op : O -> O -> O) (e : O) (h : A -> O).
  Hypothesis CM : comm_monoid op e.
  Notation local := (local_of op h).

  (** the partial result a replica emits for its part: nothing for an empty part *)
  Definition res (p : list A) : list O :=
    match p with [] => [] | _ => [fold_left local p e] end.

  Lemma concat_res_nil : forall parts : list (list A),
    concat (map res parts) = [] <-> concat parts = [].
  Proof.
    induction parts as [|p parts IH]; cbn [map concat]; [tauto|].
    split; intros H; apply app_eq_nil in H as [H1 H2].
    - apply IH in H2. rewrite H2. destruct p; [reflexivity|discriminate].
    - apply IH in H2. rewrite H1, H2. reflexivity.
  Qed.

  Lemma res_fold_eq : forall (parts : list (list A)) rs,
    Permutation rs (concat (map res parts)) ->
    fold_left op rs e = fold_left local (concat parts) e.
  Proof.
    intros parts rs Hp.
    rewrite (fold_perm op e CM _ _ Hp), (fold_partition op e CM), map_map.
    unfold local_of. rewrite <- (two_phase_monoid op e h CM parts). f_equal.
    apply map_ext. intros [|x p]; unfold res, local_of; cbn [fold_left]; [reflexivity|].
    now rewrite !(cm_neutral _ _ CM).
  Qed.

  Lemma res_out_eq : forall (parts : list (list A)) rs,
    Permutation rs (concat (map res parts)) ->
    match rs with [] => [] | _ => [Item (fold_left op rs e)] end =
    match concat parts with [] => [] | xs => [Item (fold_left local xs e)] end.
  Proof.
    intros parts rs Hp. pose proof (res_fold_eq parts rs Hp) as H1.
    destruct rs as [|r rs].
    - apply Permutation_nil in Hp. apply concat_res_nil in Hp. now rewrite Hp.
    - destruct (concat parts) as [|x xs] eqn:E.
      + apply concat_res_nil in E. rewrite E in Hp. apply Permutation_sym, Permutation_nil in Hp.
        discriminate.
      + now rewrite H1.
  Qed.

  Theorem two_phase_fold : forall (parts : list (list A)) (sigma : list (nat * elem O)),
    (1 <= length parts)%nat ->
    interleaving (map (fun p => run (fold_machine e local) (items p ++ [FAR; Terminate])) parts) sigma ->
    run (fold_machine e op) (run (start_machine O (length parts)) sigma) =
    (match concat parts with [] => [] | xs => [Item (fold_left local xs e)] end) ++ [FAR; Terminate].
  Proof.
    intros parts sigma Hn Hint.
    rewrite (map_ext _ (fun p => stream_of (P0 (res p)))) in Hint.
    2:{ intros p. rewrite fold_items_round. unfold stream_of, res. destruct p; reflexivity. }
    rewrite <- (map_map (fun p => P0 (res p)) stream_of) in Hint.
    set (phs := map (fun p => P0 (res p)) parts) in *.
    assert (Hlen : length phs = length parts) by apply map_length.
    assert (Hf : cnt is_f phs = length parts).
    { rewrite cnt_all; [exact Hlen|]. intros x Hx. apply in_map_iff in Hx as [p [<- _]]. reflexivity. }
    assert (Ht : cnt is_t phs = length parts).
    { rewrite cnt_all; [exact Hlen|]. intros x Hx. apply in_map_iff in Hx as [p [<- _]]. reflexivity. }
    pose proof (interleaving_items_perm _ _ Hint) as Hperm.
    unfold phs in Hperm. rewrite map_map in Hperm. cbn [data_ph] in Hperm.
    unfold run at 2. cbn [start_machine minit]. unfold start_init.
    change (run_from {| mstate := sstate; minit := _; mstep := start_step |})
      with (run_from (start_machine O (length parts))).
    rewrite (start_nowm_run sigma phs (length parts) _ _ _ Hint Hn).
    2:{ now rewrite Ht. }
    2:{ rewrite Hf. destruct (Nat.eqb (length parts) 0); reflexivity. }
    rewrite Hf, Ht. destruct (Nat.eqb_spec (length parts) 0) as [E0|E0]; [lia|].
    change (map Item (items_of sigma) ++ [FAR] ++ [Terminate])
      with (items (items_of sigma) ++ [FAR; Terminate]).
    rewrite fold_items_round. f_equal. now apply res_out_eq.
  Qed.
End TwoPhaseFold.

(** the same statement with the local step written out *)
Corollary two_phase_fold_explicit : forall {A O} (op : O -> O -> O) (e : O) (h : A -> O),
  comm_monoid op e ->
  forall (parts : list (list A)) (sigma : list (nat * elem O)),
    (1 <= length parts)%nat ->
    interleaving (map (fun p => run (fold_machine e (fun acc x => op acc (h x)))
                                    (items p ++ [FAR; Terminate])) parts) sigma ->
    run (fold_machine e op) (run (start_machine O (length parts)) sigma) =
    (match concat parts with
     | [] => []
     | xs => [Item (fold_left (fun acc x => op acc (h x)) xs e)] end) ++ [FAR; Terminate].
Proof. intros A O op e h CM. exact (two_phase_fold op e h CM). Qed.

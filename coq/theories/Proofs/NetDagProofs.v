(** C04 for EVERY acyclic one-host job: the obligations of [safe_state] (Model/Net.v) hold in
    every reachable state of every acyclic network of marker-level replicas without
    demultiplexers, for every capacity >= 1, every finite amount of data, every schedule.
    Hence (generic theorems of NetProofs.v) such a network never deadlocks and terminates.

    The heart is a global inductive invariant [Inv]. Messages in a channel do not carry the
    identity of the producer, so the accounting is per channel and per kind of marker:
      [owe k cf x c]   how many markers of kind k node x still has to put on channel c
                       (those in its send queue, plus - if it has not yet started the
                       corresponding broadcast - one per occurrence of c in its [r_outs]);
      [tot s k c]      the sum of [owe] over all nodes plus the markers of kind k in flight
                       in channel c.
    For the consumer of c, the counter of the side fed by c (missing FlushAndRestart,
    missing Terminate) equals [tot], and after the consumer has ended the round (has emitted
    Terminate) [tot] is 0. Two facts about the FIFO order are needed in addition, stated on the
    suffixes of the channel content: behind every data batch there is still a FlushAndRestart
    (in flight or owed), and (counting) no Terminate overtakes the FlushAndRestart of its
    sender. *)
From Noir Require Import Model.Net Proofs.NetProofs.
From Coq Require Import List Arith Bool Lia Wf_nat.
Import ListNotations.
Local Open Scope nat_scope.

(** * Sums over 0..n-1 *)
Fixpoint sumn (n : nat) (f : nat -> nat) : nat :=
  match n with 0 => 0 | S k => sumn k f + f k end.

Lemma sumn_ext : forall n f g, (forall i, i < n -> f i = g i) -> sumn n f = sumn n g.
Proof. induction n as [|n IH]; intros f g H; cbn [sumn]; auto. rewrite (IH f g), H; auto. Qed.

Lemma sumn_le : forall n f g, (forall i, i < n -> f i <= g i) -> sumn n f <= sumn n g.
Proof.
  induction n as [|n IH]; intros f g H; cbn [sumn]; auto.
  pose proof (IH f g ltac:(intros; apply H; lia)). pose proof (H n ltac:(lia)). lia.
Qed.

Lemma sumn_elem : forall n f i, i < n -> f i <= sumn n f.
Proof.
  induction n as [|n IH]; intros f i H; [lia|]. cbn [sumn].
  destruct (Nat.eq_dec i n) as [->|Hne]; [lia|]. pose proof (IH f i ltac:(lia)). lia.
Qed.

Lemma sumn_pos : forall n f, 1 <= sumn n f -> exists i, i < n /\ 1 <= f i.
Proof.
  induction n as [|n IH]; intros f H; cbn [sumn] in H; [lia|].
  destruct (le_lt_dec 1 (f n)) as [Hn|Hn].
  - exists n. split; auto.
  - destruct (IH f ltac:(lia)) as [i [Hi Hf]]. exists i. split; auto.
Qed.

Lemma sumn_except : forall n f g i, i < n -> (forall k, k < n -> k <> i -> f k = g k) ->
  sumn n f + g i = sumn n g + f i.
Proof.
  induction n as [|n IH]; intros f g i Hi H; [lia|]. cbn [sumn].
  destruct (Nat.eq_dec i n) as [->|Hne].
  - rewrite (sumn_ext n f g); [lia|]. intros k Hk. apply H; lia.
  - pose proof (IH f g i ltac:(lia) ltac:(intros; apply H; lia)).
    rewrite (H n) by lia. lia.
Qed.

Lemma sumn_zero : forall n f, (forall i, i < n -> f i = 0) -> sumn n f = 0.
Proof. induction n as [|n IH]; intros f H; cbn [sumn]; auto. rewrite IH, H; auto. Qed.

Lemma filter_seq_sumn : forall (p : nat -> bool) n,
  length (filter p (seq 0 n)) = sumn n (fun i => if p i then 1 else 0).
Proof.
  intros p. induction n as [|n IH]; [reflexivity|].
  rewrite seq_S, filter_app, app_length, IH. cbn [sumn plus filter]. destruct (p n); reflexivity.
Qed.

(** * Counting in lists *)
Definition cntb {X} (p : X -> bool) (l : list X) : nat := length (filter p l).

Lemma cntb_app {X} : forall (p : X -> bool) l1 l2, cntb p (l1 ++ l2) = cntb p l1 + cntb p l2.
Proof. intros. unfold cntb. rewrite filter_app, app_length. reflexivity. Qed.

Lemma cntb_cons {X} : forall (p : X -> bool) a l, cntb p (a :: l) = (if p a then 1 else 0) + cntb p l.
Proof. intros. unfold cntb. cbn [filter]. destruct (p a); reflexivity. Qed.

Lemma cntb_zero {X} : forall (p : X -> bool) l, (forall a, In a l -> p a = false) -> cntb p l = 0.
Proof.
  intros p. induction l as [|a l IH]; intros H; [reflexivity|].
  rewrite cntb_cons, IH, (H a); auto; intros; [left; auto | apply H; right; auto].
Qed.

Lemma cntb_in {X} : forall (p : X -> bool) l a, In a l -> p a = true -> 1 <= cntb p l.
Proof.
  intros p. induction l as [|b l IH]; intros a Hin Hp; [destruct Hin|].
  rewrite cntb_cons. destruct Hin as [->|Hin]; [rewrite Hp; lia|].
  pose proof (IH a Hin Hp). lia.
Qed.

Lemma cntb_pos {X} : forall (p : X -> bool) l, 1 <= cntb p l -> exists a, In a l /\ p a = true.
Proof.
  intros p. induction l as [|b l IH]; intros H; [cbn in H; lia|].
  rewrite cntb_cons in H. destruct (p b) eqn:E.
  - exists b. split; [left; auto | auto].
  - destruct (IH ltac:(lia)) as [a [Hin Hp]]. exists a. split; [right; auto | auto].
Qed.

Lemma app_snoc_split {X} : forall (l q1 q2 : list X) m, l ++ [m] = q1 ++ q2 ->
  (q2 = [] /\ q1 = l ++ [m]) \/ (exists q2', q2 = q2' ++ [m] /\ l = q1 ++ q2').
Proof.
  intros l q1 q2 m H. destruct q2 as [|b q2] using rev_ind.
  - left. rewrite app_nil_r in H. auto.
  - right. clear IHq2. rewrite app_assoc in H. apply app_inj_tail in H. destruct H as [H1 H2].
    subst. exists q2. auto.
Qed.

(** * Accounting of the markers *)
Definition chs (l : list (nat * nat)) : list nat := map fst l.
Definition memb (c : nat) (l : list nat) : bool := existsb (Nat.eqb c) l.
Definition cnt (c : nat) (l : list nat) : nat := cntb (fun w => Nat.eqb w c) l.
Definition mk (e : nat * emsg) : marker := snd (snd e).
Definition qsel (c : nat) (k : marker) (e : nat * emsg) : bool := Nat.eqb (fst e) c && marker_eqb (mk e) k.
Definition qcount (c : nat) (k : marker) (q : list (nat * emsg)) : nat := cntb (qsel c k) q.
Definition msel (k : marker) (m : emsg) : bool := marker_eqb (snd m) k.
Definition mcount (k : marker) (q : list emsg) : nat := cntb (msel k) q.

Lemma memb_In : forall c l, memb c l = true <-> In c l.
Proof.
  intros c l. unfold memb. rewrite existsb_exists. split.
  - intros [x [Hin He]]. apply Nat.eqb_eq in He. subst. auto.
  - intros H. exists c. split; auto. apply Nat.eqb_refl.
Qed.

Lemma cnt_in : forall c l, In c l -> 1 <= cnt c l.
Proof. intros c l H. unfold cnt. eapply cntb_in; eauto. cbv beta. apply Nat.eqb_refl. Qed.

Lemma cnt_pos : forall c l, 1 <= cnt c l -> In c l.
Proof.
  intros c l H. apply cntb_pos in H. destruct H as [a [Hin He]]. apply Nat.eqb_eq in He. subst. auto.
Qed.

Lemma cnt_nodup : forall c l, NoDup l -> cnt c l = if memb c l then 1 else 0.
Proof.
  intros c l H. induction H as [|a l Hnin Hnd IH]; [reflexivity|].
  unfold cnt in *. rewrite cntb_cons, IH. unfold memb. cbn [existsb].
  rewrite (Nat.eqb_sym c a). destruct (Nat.eqb a c) eqn:E; cbn [orb]; auto.
  apply Nat.eqb_eq in E. subst a.
  destruct (existsb (Nat.eqb c) l) eqn:E2; auto. exfalso. apply Hnin. apply memb_In. exact E2.
Qed.

Lemma marker_eqb_refl : forall k, marker_eqb k k = true.
Proof. destruct k; reflexivity. Qed.
Lemma marker_eqb_eq : forall a b, marker_eqb a b = true <-> a = b.
Proof. destruct a, b; cbn; split; intros; congruence. Qed.

Lemma qcount_bcast : forall c k k' outs,
  qcount c k (bcast outs k') = if marker_eqb k' k then cnt c (chs outs) else 0.
Proof.
  intros c k k'. induction outs as [|[w d] outs IH].
  - cbn. destruct (marker_eqb k' k); reflexivity.
  - unfold qcount, cnt in *. cbn [bcast map chs fst]. rewrite !cntb_cons.
    unfold bcast, chs in IH. rewrite IH. unfold qsel, mk. cbn [fst snd].
    destruct (marker_eqb k' k); [|rewrite andb_false_r; reflexivity].
    rewrite andb_true_r. reflexivity.
Qed.

Lemma bcast_in : forall e outs k, In e (bcast outs k) -> mk e = k /\ In (fst e) (chs outs).
Proof.
  intros e outs k H. unfold bcast in H. apply in_map_iff in H. destruct H as [[w d] [He Hin]].
  subst e. split; [reflexivity|]. cbn [fst]. unfold chs. apply in_map_iff. exists (w, d). auto.
Qed.

(** what a node still owes: the [gate] says that the broadcast of the marker has not been
    queued yet *)
Definition gate (k : marker) (x : rstate) : bool :=
  match k with MD => false | MF => Nat.eqb (r_rounds x) 0 | MT => negb (r_done x) end.

Definition owe (k : marker) (cf : rcfg) (x : rstate) (c : nat) : nat :=
  (if gate k x then cnt c (chs (r_outs cf)) else 0) + qcount c k (r_outq x).

(** * Node invariant *)
Definition rank (m : marker) : nat := match m with MD => 0 | MF => 1 | MT => 2 end.

Fixpoint mono (q : list (nat * emsg)) : Prop :=
  match q with
  | [] => True
  | a :: q' => (forall b, In b q' -> rank (mk a) <= rank (mk b)) /\ mono q'
  end.

Lemma mono_app : forall q1 q2, mono q1 -> mono q2 ->
  (forall a b, In a q1 -> In b q2 -> rank (mk a) <= rank (mk b)) -> mono (q1 ++ q2).
Proof.
  induction q1 as [|a q1 IH]; intros q2 H1 H2 H; cbn [app]; auto.
  destruct H1 as [Ha H1]. split.
  - intros b Hb. apply in_app_or in Hb. destruct Hb as [Hb|Hb]; [auto|]. apply H; [left|]; auto.
  - apply IH; auto. intros; apply H; auto. right; auto.
Qed.

Lemma mono_bcast : forall outs k, mono (bcast outs k).
Proof.
  intros outs k. induction outs as [|[w d] outs IH]; cbn; auto. split; auto.
  intros b Hb. apply (bcast_in b outs k) in Hb. destruct Hb as [-> _]. unfold mk. cbn. lia.
Qed.

Definition kind_inv (cf : rcfg) (x : rstate) : Prop :=
  match r_kind cf with
  | KSrc => r_rounds x = 1 /\ r_done x = true
  | KOp1 c k => r_mfr x = 0 /\ r_mtr x = 0 /\ (r_rounds x = 0 -> 1 <= r_mfl x) /\
                (r_rounds x = 1 -> r_mfl x = k) /\ (r_done x = false -> 1 <= r_mtl x)
  | KOp2 l kl r kr => (r_rounds x = 0 -> 1 <= r_mfl x + r_mfr x) /\
                      (r_rounds x = 1 -> r_mfl x = kl /\ r_mfr x = kr) /\
                      (r_done x = false -> 1 <= r_mtl x + r_mtr x)
  | KDemux _ => False
  end.

Record node_inv (cf : rcfg) (x : rstate) : Prop := {
  ni_mono : mono (r_outq x);
  ni_rounds : r_rounds x = 0 \/ r_rounds x = 1;
  ni_done : r_done x = true -> r_rounds x = 1;
  ni_r0 : r_rounds x = 0 -> forall e, In e (r_outq x) -> mk e = MD;
  ni_nd : r_done x = false -> forall e, In e (r_outq x) -> mk e <> MT;
  ni_outs : forall e, In e (r_outq x) -> In (fst e) (chs (r_outs cf));
  ni_kind : kind_inv cf x;
  ni_n0 : forall e, In e (r_outq x) -> mk e = MD -> 1 <= owe MF cf x (fst e);
  ni_n1 : forall c, owe MF cf x c <= owe MT cf x c
}.

(** static facts about a configuration used by the node lemmas *)
Definition cfg_ok (cf : rcfg) : Prop :=
  (forall e, In e (bcast (r_douts cf) MD) -> In (fst e) (chs (r_outs cf))) /\
  match r_kind cf with
  | KSrc => True
  | KOp1 _ k => 1 <= k
  | KOp2 l kl r kr => 1 <= kl /\ 1 <= kr /\ l <> r
  | KDemux _ => False
  end.

(** ** sending *)
Lemma owe_send : forall k cf x e rest c, r_outq x = e :: rest ->
  owe k cf x c = owe k cf (r_on_send x) c + (if qsel c k e then 1 else 0).
Proof.
  intros k cf x e rest c Hq. unfold owe.
  assert (Hg : gate k (r_on_send x) = gate k x) by (destruct k; reflexivity).
  rewrite Hg. cbn [r_on_send r_outq]. rewrite Hq. cbn [tl].
  unfold qcount. rewrite cntb_cons. lia.
Qed.

Lemma node_inv_send : forall cf x e rest, node_inv cf x -> r_outq x = e :: rest ->
  node_inv cf (r_on_send x).
Proof.
  intros cf x e rest H Hq. destruct H as [Hm Hr Hd Hr0 Hnd Ho Hk Hn0 Hn1].
  rewrite Hq in *. destruct Hm as [Hhead Hm].
  assert (Hsub : forall e', In e' rest -> In e' (e :: rest)) by (intros; right; auto).
  split; try (cbn [r_on_send r_outq r_rounds r_done]; rewrite ?Hq; cbn [tl]; now auto).
  - intros e' Hin Hmd. cbn [r_on_send r_outq] in Hin. rewrite Hq in Hin. cbn [tl] in Hin.
    pose proof (Hn0 e' (Hsub _ Hin) Hmd) as H0.
    rewrite (owe_send MF cf x e rest (fst e') Hq) in H0.
    destruct (qsel (fst e') MF e) eqn:E; [|lia].
    exfalso. unfold qsel in E. apply andb_true_iff in E. destruct E as [_ E].
    apply marker_eqb_eq in E. pose proof (Hhead e' Hin) as Hrk. rewrite E, Hmd in Hrk. cbn in Hrk. lia.
  - intros c. pose proof (Hn1 c) as H1.
    rewrite (owe_send MF cf x e rest c Hq), (owe_send MT cf x e rest c Hq) in H1.
    destruct (qsel c MT e) eqn:ET; [|lia].
    unfold qsel in ET. apply andb_true_iff in ET. destruct ET as [_ ET]. apply marker_eqb_eq in ET.
    (* the head is a Terminate: nothing but Terminates behind it, and the round is over *)
    assert (Hdone : r_done x = true).
    { destruct (r_done x) eqn:Ed; auto. exfalso. apply (Hnd eq_refl e); [left; auto | auto]. }
    assert (Hz : owe MF cf (r_on_send x) c = 0).
    { unfold owe. cbn [gate r_on_send r_rounds r_outq]. rewrite Hq. cbn [tl].
      rewrite (Hd Hdone). cbn [Nat.eqb]. unfold qcount. rewrite cntb_zero; auto.
      intros a Ha. unfold qsel. pose proof (Hhead a Ha) as Hrk. rewrite ET in Hrk.
      destruct (mk a); cbn in Hrk; try lia. cbn. apply andb_false_r. }
    lia.
Qed.

(** ** receiving (the send queue is empty: a replica pulls only when it has nothing to send) *)
Lemma owe_nil_gate : forall k cf x c, r_outq x = [] ->
  owe k cf x c = if gate k x then cnt c (chs (r_outs cf)) else 0.
Proof. intros. unfold owe. rewrite H. cbn. lia. Qed.

Lemma node_inv_count : forall cf kl kr sd m x,
  cfg_ok cf -> node_inv cf x -> r_outq x = [] -> r_done x = false ->
  (m <> MT -> r_rounds x = 0) ->
  (m = MT -> r_done (r_count cf kl kr sd m x) = true -> r_rounds x = 1) ->
  kind_inv cf (r_count cf kl kr sd m x) ->
  node_inv cf (r_count cf kl kr sd m x) /\
  (forall k c, k <> MD -> owe k cf (r_count cf kl kr sd m x) c = owe k cf x c).
Proof.
  intros cf kl kr sd m x [Hdo _] H Hq Hd Hr0' HrT Hk'.
  destruct H as [Hm Hr Hdn Hr0 Hnd Ho Hk Hn0 Hn1].
  assert (Howe : forall k c, k <> MD -> owe k cf (r_count cf kl kr sd m x) c = owe k cf x c).
  { intros k c Hkd. rewrite (owe_nil_gate k cf x c Hq). unfold owe, r_count.
    destruct m.
    - cbn [r_outq r_rounds r_done gate]. rewrite Hq. cbn [app].
      fold (qcount c k (bcast (r_douts cf) MD)). rewrite qcount_bcast.
      destruct k; try congruence; cbn [marker_eqb gate r_rounds r_done]; lia.
    - specialize (Hr0' ltac:(discriminate)).
      destruct (Nat.eqb _ 0); cbn [r_outq r_rounds r_done gate]; rewrite ?Hq; cbn [app].
      + rewrite qcount_bcast. destruct k; try congruence; cbn [marker_eqb gate r_rounds r_done];
          rewrite ?Hr0', ?Hd; cbn; lia.
      + destruct k; try congruence; cbn [gate r_rounds r_done]; cbn; lia.
    - destruct (Nat.eqb _ 0); cbn [r_outq r_rounds r_done gate]; rewrite ?Hq; cbn [app].
      + rewrite qcount_bcast. destruct k; try congruence; cbn [marker_eqb gate r_rounds r_done];
          rewrite ?Hd; cbn; lia.
      + destruct k; try congruence; cbn [gate r_rounds r_done]; cbn; lia. }
  split; [|exact Howe].
  assert (Hn1' : forall c, owe MF cf (r_count cf kl kr sd m x) c <= owe MT cf (r_count cf kl kr sd m x) c).
  { intros c. rewrite !Howe by discriminate. apply Hn1. }
  assert (Hbc : forall e outs k, In e (bcast outs k) -> mk e = k /\ In (fst e) (chs outs)) by apply bcast_in.
  destruct m.
  - (* data *)
    specialize (Hr0' ltac:(discriminate)).
    split; auto; unfold r_count in *; cbn [r_outq r_rounds r_done] in *; rewrite ?Hq; cbn [app]; auto.
    all: try apply mono_bcast.
    all: try (intros; match goal with He : In _ (bcast _ _) |- _ => apply Hbc in He; destruct He as [He1 He2] end;
              solve [tauto | congruence]).
    intros e He _. unfold owe. cbn [gate r_rounds]. rewrite Hr0'. cbn [Nat.eqb].
    pose proof (cnt_in _ _ (Hdo e He)). lia.
  - (* FlushAndRestart *)
    specialize (Hr0' ltac:(discriminate)).
    unfold r_count in *. destruct (Nat.eqb _ 0).
    + split; auto; cbn [r_outq r_rounds r_done] in *; rewrite ?Hq; cbn [app]; auto.
      all: try apply mono_bcast.
      all: try (intros; lia).
      all: try (intros; match goal with He : In _ (bcast _ _) |- _ => apply Hbc in He; destruct He as [He1 He2] end;
                solve [tauto | congruence]).
    + split; auto; cbn [r_outq r_rounds r_done] in *; rewrite ?Hq; auto; intros; contradiction.
  - (* Terminate *)
    specialize (HrT eq_refl).
    unfold r_count in *. destruct (Nat.eqb _ 0).
    + cbn [r_done] in HrT. specialize (HrT eq_refl).
      split; auto; cbn [r_outq r_rounds r_done] in *; rewrite ?Hq; cbn [app]; auto.
      all: try apply mono_bcast.
      all: try (intros; lia).
      all: try (intros; discriminate).
      all: try (intros; match goal with He : In _ (bcast _ _) |- _ => apply Hbc in He; destruct He as [He1 He2] end;
                solve [tauto | congruence]).
    + split; auto; cbn [r_outq r_rounds r_done] in *; rewrite ?Hq; auto; intros; contradiction.
Qed.

(** ** the input channels of a replica *)
Definition is_input (cf : rcfg) (c : nat) : Prop :=
  match r_kind cf with KOp1 c' _ => c = c' | KOp2 l _ r _ => c = l \/ c = r | _ => False end.

Lemma wants_input : forall cf x c, cfg_ok cf -> In c (r_wants cf x) -> is_input cf c.
Proof.
  intros cf x c [_ Hc] H. unfold r_wants, is_input in *. destruct (r_kind cf) as [|c' k|l kl r kr|p].
  - destruct H.
  - destruct H as [H|[]]. auto.
  - repeat match type of H with context [if ?b then _ else _] => destruct b end;
      cbn [In] in H; intuition.
  - destruct Hc.
Qed.

Ltac eqb0 :=
  match goal with
  | |- context [Nat.eqb ?a 0] =>
      let E := fresh "E" in destruct (Nat.eqb a 0) eqn:E; [apply Nat.eqb_eq in E | apply Nat.eqb_neq in E]
  end.

Lemma kind_inv_recv : forall cf x c m, cfg_ok cf -> kind_inv cf x -> is_input cf c ->
  r_done x = false -> (snd m <> MT -> r_rounds x = 0) -> kind_inv cf (r_on_recv cf x c m).
Proof.
  intros cf x c [d mm] [_ Hc] Hk Hin Hd Hr. cbn [snd] in Hr.
  unfold kind_inv, r_on_recv, is_input in *. destruct (r_kind cf) as [|c' k|l kl r kr|p]; try contradiction.
  - cbn [snd]. unfold r_count. destruct Hk as [H1 [H2 [H3 [H4 H5]]]].
    destruct mm; [| specialize (Hr ltac:(discriminate)) |]; try eqb0;
      cbn [r_mfl r_mfr r_mtl r_mtr r_rounds r_done]; repeat split; intros; try lia; try discriminate; auto.
  - cbn [snd]. unfold r_count. destruct Hk as [H1 [H2 H3]].
    destruct (Nat.eqb c l); (destruct mm; [| specialize (Hr ltac:(discriminate)) |]; try eqb0;
      cbn [r_mfl r_mfr r_mtl r_mtr r_rounds r_done]; repeat split; intros; try lia; try discriminate; auto).
Qed.

Lemma node_inv_recv : forall cf x c m, cfg_ok cf -> node_inv cf x -> is_input cf c ->
  r_outq x = [] -> r_done x = false ->
  (snd m <> MT -> r_rounds x = 0) ->
  (snd m = MT -> r_done (r_on_recv cf x c m) = true -> r_rounds x = 1) ->
  node_inv cf (r_on_recv cf x c m) /\
  (forall k c0, k <> MD -> owe k cf (r_on_recv cf x c m) c0 = owe k cf x c0).
Proof.
  intros cf x c m Hcf Hn Hin Hq Hd Hr HrT.
  pose proof (kind_inv_recv cf x c m Hcf (ni_kind _ _ Hn) Hin Hd Hr) as Hk'.
  unfold r_on_recv, is_input in *. destruct (r_kind cf) as [|c' k|l kl r kr|p] eqn:Ek; try contradiction.
  - apply node_inv_count; auto.
  - apply node_inv_count; auto.
Qed.

(** ** the counters of the side fed by a channel *)
Definition sidef (cf : rcfg) (y : rstate) (c : nat) : nat :=
  match r_kind cf with
  | KOp1 _ _ => r_mfl y
  | KOp2 l _ _ _ => if Nat.eqb c l then r_mfl y else r_mfr y
  | _ => 0
  end.
Definition sidet (cf : rcfg) (y : rstate) (c : nat) : nat :=
  match r_kind cf with
  | KOp1 _ _ => r_mtl y
  | KOp2 l _ _ _ => if Nat.eqb c l then r_mtl y else r_mtr y
  | _ => 0
  end.

Definition side_conj (cf : rcfg) (y : rstate) (c TF TT : nat) : Prop :=
  (r_rounds y = 0 -> sidef cf y c = TF) /\ (r_rounds y <> 0 -> TF = 0) /\
  (r_done y = false -> sidet cf y c = TT) /\ (r_done y = true -> TT = 0).

Lemma side_conj_recv : forall cf y c m c0 TF TT TF' TT',
  cfg_ok cf -> is_input cf c -> is_input cf c0 -> r_done y = false ->
  side_conj cf y c0 TF TT ->
  TF' + (if Nat.eqb c0 c && msel MF m then 1 else 0) = TF ->
  TT' + (if Nat.eqb c0 c && msel MT m then 1 else 0) = TT ->
  (snd m = MF -> r_rounds y = 0) ->
  side_conj cf (r_on_recv cf y c m) c0 TF' TT'.
Proof.
  intros cf y c [d mm] c0 TF TT TF' TT' [_ Hc] Hin Hin0 Hd [S1 [S2 [S3 S4]]] HF HT Hr.
  specialize (S3 Hd). clear S4. cbn [snd] in Hr. unfold msel in HF, HT. cbn [snd] in HF, HT.
  unfold side_conj, sidef, sidet, r_on_recv, is_input in *.
  destruct (r_kind cf) as [|c' k|l kl r kr|p]; try contradiction.
  - subst c c0. rewrite Nat.eqb_refl in *. cbn [snd andb]. unfold r_count.
    destruct mm; cbn [marker_eqb andb] in HF, HT; [| specialize (Hr eq_refl) |]; try eqb0;
      cbn [r_mfl r_mfr r_mtl r_mtr r_rounds r_done]; repeat split; intros; try lia; try congruence;
      try (specialize (S1 ltac:(lia)); lia).
  - destruct Hc as [Hkl [Hkr Hlr]].
    assert (Erl : Nat.eqb r l = false) by (apply Nat.eqb_neq; auto).
    assert (Elr : Nat.eqb l r = false) by (apply Nat.eqb_neq; auto).
    cbn [snd]. unfold r_count.
    destruct Hin as [->| ->]; destruct Hin0 as [->| ->];
      rewrite ?Nat.eqb_refl, ?Erl, ?Elr in *; cbn [andb] in HF, HT;
      (destruct mm; cbn [marker_eqb andb] in HF, HT; [| specialize (Hr eq_refl) |]; try eqb0;
       cbn [r_mfl r_mfr r_mtl r_mtr r_rounds r_done]; repeat split; intros; try lia; try congruence;
       try (specialize (S1 ltac:(lia)); lia)).
Qed.

(** * Acyclic networks of marker-level replicas without demultiplexers *)
Record dag := {
  d_n : nat;                                (* number of nodes (replicas) *)
  d_nc : nat;                               (* number of channels *)
  d_cfg : nat -> rcfg;                      (* configuration of each node *)
  d_data : nat -> list (nat * nat);         (* sources: the data batches it sends, in order *)
  d_cons : nat -> nat;                      (* consumer of each channel *)
  d_cap : nat -> nat                        (* capacity of each channel *)
}.

(** node i writes to channel c *)
Definition d_prod (D : dag) (c i : nat) : bool :=
  (i <? d_n D) && memb c (chs (r_outs (d_cfg D i))).

Definition d_init_node (D : dag) (i : nat) : rstate :=
  match r_kind (d_cfg D i) with
  | KSrc => r_src_init (d_data D i) (d_cfg D i)
  | _ => r_op_init (d_cfg D i)
  end.

Definition net_of (D : dag) : net emsg rstate :=
  {| n_nodes := d_n D; n_chans := d_nc D; n_cons := d_cons D; n_prod := d_prod D; n_cap := d_cap D;
     n_sem := fun i => r_sem (d_cfg D i);
     n_init := {| nodes := map (d_init_node D) (seq 0 (d_n D)); chans := repeat [] (d_nc D) |} |}.

(** number of producers of a channel *)
Definition nprod (D : dag) (c : nat) : nat := length (filter (d_prod D c) (seq 0 (d_n D))).

(** ** well-formedness *)
Record node_ok (D : dag) (i : nat) : Prop := {
  (* every output goes directly to its destination channel (no demultiplexer), which exists
     and whose consumer has a larger index (topological numbering) *)
  no_outs : forall w d, In (w, d) (r_outs (d_cfg D i)) -> w < d_nc D /\ w = d /\ i < d_cons D w;
  (* one sender per destination channel *)
  no_nodup : NoDup (chs (r_outs (d_cfg D i)));
  (* data is forwarded on output channels only *)
  no_douts : forall w d, In (w, d) (r_douts (d_cfg D i)) -> w = d /\ In w (chs (r_outs (d_cfg D i)));
  no_kind :
    match r_kind (d_cfg D i) with
    | KSrc => forall w d, In (w, d) (d_data D i) -> w = d /\ In w (chs (r_outs (d_cfg D i)))
    | KOp1 c k => c < d_nc D /\ d_cons D c = i /\ k = nprod D c /\ 1 <= k
    | KOp2 l kl r kr => l < d_nc D /\ r < d_nc D /\ l <> r /\ d_cons D l = i /\ d_cons D r = i /\
                        kl = nprod D l /\ kr = nprod D r /\ 1 <= kl /\ 1 <= kr
    | KDemux _ => False
    end
}.

(** the consumer of a channel is a node, reads it, and the capacity is at least 1 *)
Definition chan_ok (D : dag) (c : nat) : Prop :=
  d_cons D c < d_n D /\ 1 <= d_cap D c /\
  match r_kind (d_cfg D (d_cons D c)) with
  | KOp1 c' _ => c' = c
  | KOp2 l _ r _ => l = c \/ r = c
  | _ => False
  end.

Definition dag_ok (D : dag) : Prop :=
  (forall i, i < d_n D -> node_ok D i) /\ (forall c, c < d_nc D -> chan_ok D c).

(** ** the same as a boolean check *)
Fixpoint nodupb (l : list nat) : bool :=
  match l with [] => true | a :: l' => negb (memb a l') && nodupb l' end.

Definition pairs_okb (outs : list nat) (l : list (nat * nat)) : bool :=
  forallb (fun p => Nat.eqb (fst p) (snd p) && memb (fst p) outs) l.

Definition node_okb (D : dag) (i : nat) : bool :=
  let cf := d_cfg D i in
  let oc := chs (r_outs cf) in
  forallb (fun p => (fst p <? d_nc D) && Nat.eqb (fst p) (snd p) && (i <? d_cons D (fst p))) (r_outs cf) &&
  nodupb oc && pairs_okb oc (r_douts cf) &&
  match r_kind cf with
  | KSrc => pairs_okb oc (d_data D i)
  | KOp1 c k => (c <? d_nc D) && Nat.eqb (d_cons D c) i && Nat.eqb k (nprod D c) && (1 <=? k)
  | KOp2 l kl r kr =>
      (l <? d_nc D) && (r <? d_nc D) && negb (Nat.eqb l r) && Nat.eqb (d_cons D l) i && Nat.eqb (d_cons D r) i &&
      Nat.eqb kl (nprod D l) && Nat.eqb kr (nprod D r) && (1 <=? kl) && (1 <=? kr)
  | KDemux _ => false
  end.

Definition chan_okb (D : dag) (c : nat) : bool :=
  (d_cons D c <? d_n D) && (1 <=? d_cap D c) &&
  match r_kind (d_cfg D (d_cons D c)) with
  | KOp1 c' _ => Nat.eqb c' c
  | KOp2 l _ r _ => Nat.eqb l c || Nat.eqb r c
  | _ => false
  end.

Definition dag_okb (D : dag) : bool :=
  forallb (node_okb D) (seq 0 (d_n D)) && forallb (chan_okb D) (seq 0 (d_nc D)).

Lemma nodupb_NoDup : forall l, nodupb l = true <-> NoDup l.
Proof.
  induction l as [|a l IH]; cbn [nodupb].
  - split; [constructor | auto].
  - rewrite andb_true_iff, negb_true_iff, IH. split.
    + intros [H1 H2]. constructor; auto. intros Hin. apply memb_In in Hin. congruence.
    + intros H. inversion H; subst. split; auto.
      destruct (memb a l) eqn:E; auto. apply memb_In in E. contradiction.
Qed.

Lemma pairs_okb_spec : forall outs l, pairs_okb outs l = true <->
  (forall w d, In (w, d) l -> w = d /\ In w outs).
Proof.
  intros outs l. unfold pairs_okb. rewrite forallb_forall. split.
  - intros H w d Hin. specialize (H _ Hin). cbn [fst snd] in H. apply andb_true_iff in H.
    destruct H as [H1 H2]. apply Nat.eqb_eq in H1. apply memb_In in H2. auto.
  - intros H [w d] Hin. destruct (H w d Hin) as [H1 H2]. cbn [fst snd]. apply andb_true_iff.
    split; [apply Nat.eqb_eq; auto | apply memb_In; auto].
Qed.

Ltac b2p :=
  repeat match goal with
  | H : _ && _ = true |- _ => apply andb_true_iff in H; destruct H
  | H : _ || _ = true |- _ => apply orb_true_iff in H
  | H : negb _ = true |- _ => apply negb_true_iff in H
  | H : Nat.eqb _ _ = true |- _ => apply Nat.eqb_eq in H
  | H : Nat.eqb _ _ = false |- _ => apply Nat.eqb_neq in H
  | H : Nat.ltb _ _ = true |- _ => apply Nat.ltb_lt in H
  | H : Nat.leb _ _ = true |- _ => apply Nat.leb_le in H
  end.

Ltac p2b :=
  repeat match goal with
  | |- _ && _ = true => apply andb_true_iff; split
  | |- negb _ = true => apply negb_true_iff
  | |- Nat.eqb _ _ = true => apply Nat.eqb_eq
  | |- Nat.eqb _ _ = false => apply Nat.eqb_neq
  | |- Nat.ltb _ _ = true => apply Nat.ltb_lt
  | |- Nat.leb _ _ = true => apply Nat.leb_le
  end.

Lemma node_okb_spec : forall D i, node_okb D i = true <-> node_ok D i.
Proof.
  intros D i. unfold node_okb. split.
  - intros H. b2p. split.
    + intros w d Hin. rewrite forallb_forall in H. specialize (H _ Hin). cbn [fst snd] in H. b2p. auto.
    + apply nodupb_NoDup. auto.
    + apply pairs_okb_spec. auto.
    + destruct (r_kind (d_cfg D i)); try discriminate.
      * apply pairs_okb_spec. auto.
      * b2p. auto.
      * b2p. repeat split; auto.
  - intros [H1 H2 H3 H4]. p2b.
    + apply forallb_forall. intros [w d] Hin. destruct (H1 w d Hin) as [? [? ?]]. cbn [fst snd]. p2b; auto.
    + apply nodupb_NoDup. auto.
    + apply pairs_okb_spec. auto.
    + destruct (r_kind (d_cfg D i)); try contradiction.
      * apply pairs_okb_spec. auto.
      * destruct H4 as [? [? [? ?]]]. p2b; auto.
      * destruct H4 as [? [? [? [? [? [? [? [? ?]]]]]]]]. p2b; auto.
Qed.

Lemma chan_okb_spec : forall D c, chan_okb D c = true <-> chan_ok D c.
Proof.
  intros D c. unfold chan_okb, chan_ok. split.
  - intros H. b2p. repeat split; auto.
    destruct (r_kind (d_cfg D (d_cons D c))); try discriminate; b2p; auto.
    destruct H0; b2p; auto.
  - intros [H1 [H2 H3]]. p2b; auto.
    destruct (r_kind (d_cfg D (d_cons D c))); try contradiction.
    + apply Nat.eqb_eq. auto.
    + apply orb_true_iff. destruct H3; [left|right]; apply Nat.eqb_eq; auto.
Qed.

Theorem dag_okb_spec : forall D, dag_okb D = true <-> dag_ok D.
Proof.
  intros D. unfold dag_okb, dag_ok. rewrite andb_true_iff, !forallb_forall. split.
  - intros [H1 H2]. split.
    + intros i Hi. apply node_okb_spec. apply H1. apply in_seq. lia.
    + intros c Hc. apply chan_okb_spec. apply H2. apply in_seq. lia.
  - intros [H1 H2]. split.
    + intros i Hi. apply node_okb_spec. apply H1. apply in_seq in Hi. lia.
    + intros c Hc. apply chan_okb_spec. apply H2. apply in_seq in Hc. lia.
Qed.

(** * The global invariant *)
Definition dflt : rstate := r_demux_init 0.
Definition nd (s : state emsg rstate) (i : nat) : rstate := nth i (nodes s) dflt.

Lemma side_conj_send : forall cf x c TF TT, side_conj cf x c TF TT -> side_conj cf (r_on_send x) c TF TT.
Proof.
  intros cf x c TF TT H. unfold side_conj, sidef, sidet in *.
  destruct (r_kind cf); cbn [r_on_send r_mfl r_mfr r_mtl r_mtr r_rounds r_done]; exact H.
Qed.

Lemma mt_complete_sides : forall cf y c m, cfg_ok cf -> kind_inv cf y -> is_input cf c ->
  r_done y = false -> snd m = MT -> r_done (r_on_recv cf y c m) = true ->
  forall c0, is_input cf c0 -> sidet cf y c0 = if Nat.eqb c0 c then 1 else 0.
Proof.
  intros cf y c [d mm] [_ Hc] Hk Hin Hd Hm Hdone c0 Hin0. cbn [snd] in Hm. subst mm.
  unfold kind_inv, is_input, sidet, r_on_recv in *.
  destruct (r_kind cf) as [|c' k|l kl r kr|p]; try contradiction.
  - subst c c0. rewrite Nat.eqb_refl. cbn [snd] in Hdone. unfold r_count in Hdone.
    destruct Hk as [_ [H2 [_ [_ H5]]]]. specialize (H5 Hd).
    destruct (Nat.eqb (Nat.pred (r_mtl y) + r_mtr y) 0) eqn:E; cbn [r_done] in Hdone; [|congruence].
    apply Nat.eqb_eq in E. lia.
  - destruct Hc as [_ [_ Hlr]]. destruct Hk as [_ [_ H3]]. specialize (H3 Hd).
    assert (Erl : Nat.eqb r l = false) by (apply Nat.eqb_neq; auto).
    assert (Elr : Nat.eqb l r = false) by (apply Nat.eqb_neq; auto).
    cbn [snd] in Hdone. unfold r_count in Hdone.
    destruct Hin as [->| ->]; destruct Hin0 as [->| ->]; rewrite ?Nat.eqb_refl, ?Erl, ?Elr in *;
      match type of Hdone with context [Nat.eqb ?a 0] => destruct (Nat.eqb a 0) eqn:E end;
      cbn [r_done] in Hdone; try congruence; apply Nat.eqb_eq in E; lia.
Qed.

Lemma sidef_pos : forall cf y, cfg_ok cf -> kind_inv cf y -> r_done y = false -> r_rounds y = 0 ->
  exists c0, is_input cf c0 /\ 1 <= sidef cf y c0.
Proof.
  intros cf y [_ Hc] Hk Hd Hr. unfold kind_inv, is_input, sidef in *.
  destruct (r_kind cf) as [|c' k|l kl r kr|p]; try contradiction.
  - destruct Hk as [Hk _]. lia.
  - exists c'. split; auto. destruct Hk as [_ [_ [H3 _]]]. auto.
  - destruct Hc as [_ [_ Hlr]]. destruct Hk as [H1 _]. specialize (H1 Hr).
    destruct (le_lt_dec 1 (r_mfl y)).
    + exists l. rewrite Nat.eqb_refl. auto.
    + exists r. assert (Erl : Nat.eqb r l = false) by (apply Nat.eqb_neq; auto). rewrite Erl.
      split; auto. lia.
Qed.

Section Dag.
  Variable D : dag.
  Notation N := (d_n D).
  Notation C := (d_nc D).
  Notation cfg := (d_cfg D).
  Notation cons := (d_cons D).
  Notation NW := (net_of D).
  Hypothesis Hok : dag_ok D.

  (** ** static facts *)
  Lemma cfg_ok_of : forall i, i < N -> cfg_ok (cfg i).
  Proof.
    intros i Hi. destruct Hok as [Hn _]. destruct (Hn i Hi) as [H1 H2 H3 H4]. split.
    - intros e He. unfold bcast in He. apply in_map_iff in He. destruct He as [[w d] [<- Hin]].
      cbn [fst]. apply (H3 w d Hin).
    - destruct (r_kind (cfg i)); auto.
      + tauto.
      + tauto.
  Qed.

  Lemma outs_valid : forall i c, i < N -> In c (chs (r_outs (cfg i))) -> c < C /\ i < cons c.
  Proof.
    intros i c Hi Hin. destruct Hok as [Hn _]. destruct (Hn i Hi) as [H1 _ _ _].
    unfold chs in Hin. apply in_map_iff in Hin. destruct Hin as [[w d] [Hw Hin]]. cbn [fst] in Hw. subst w.
    destruct (H1 c d Hin) as [? [? ?]]. auto.
  Qed.

  Lemma input_cons : forall i c, i < N -> is_input (cfg i) c -> c < C /\ cons c = i.
  Proof.
    intros i c Hi Hin. destruct Hok as [Hn _]. destruct (Hn i Hi) as [_ _ _ H4].
    unfold is_input in Hin. destruct (r_kind (cfg i)); try contradiction.
    - subst c. tauto.
    - destruct Hin as [->| ->]; tauto.
  Qed.

  Lemma chan_input : forall c, c < C -> cons c < N /\ is_input (cfg (cons c)) c /\ 1 <= d_cap D c.
  Proof.
    intros c Hc. destruct Hok as [_ Hch]. destruct (Hch c Hc) as [H1 [H2 H3]].
    split; auto. split; auto. unfold is_input. destruct (r_kind (cfg (cons c))); try contradiction; auto.
    destruct H3; auto.
  Qed.

  Lemma nprod_sum : forall c, nprod D c = sumn N (fun i => cnt c (chs (r_outs (cfg i)))).
  Proof.
    intros c. unfold nprod. rewrite filter_seq_sumn. apply sumn_ext. intros i Hi.
    destruct Hok as [Hn _]. destruct (Hn i Hi) as [_ H2 _ _]. rewrite (cnt_nodup c _ H2).
    unfold d_prod. assert (E : (i <? N) = true) by (apply Nat.ltb_lt; auto). rewrite E. reflexivity.
  Qed.

  Lemma net_of_ok : net_ok NW.
  Proof.
    split; [|split; [|split]].
    - intros c Hc. cbn in Hc |- *. destruct (chan_input c Hc) as [? [? ?]]. auto.
    - intros c i Hc Hp. cbn in Hc, Hp |- *. unfold d_prod in Hp. apply andb_true_iff in Hp.
      destruct Hp as [Hi Hm]. apply Nat.ltb_lt in Hi. apply memb_In in Hm.
      destruct (outs_valid i c Hi Hm). auto.
    - cbn. rewrite map_length, seq_length. reflexivity.
    - cbn. rewrite repeat_length. reflexivity.
  Qed.

  (** ** the invariant *)
  Definition cntk (s : state emsg rstate) (k : marker) (c : nat) : nat :=
    sumn N (fun i => owe k (cfg i) (nd s i) c).
  Definition tot (s : state emsg rstate) (k : marker) (c : nat) : nat :=
    cntk s k c + mcount k (chan s c).

  Definition chan_inv (s : state emsg rstate) (c : nat) : Prop :=
    side_conj (cfg (cons c)) (nd s (cons c)) c (tot s MF c) (tot s MT c) /\
    (forall q1 q2, chan s c = q1 ++ q2 ->
       cntk s MF c + mcount MF q2 <= cntk s MT c + mcount MT q2) /\
    (forall q1 m q2, chan s c = q1 ++ m :: q2 -> snd m = MD ->
       1 <= cntk s MF c + mcount MF q2).

  Record Inv (s : state emsg rstate) : Prop := {
    inv_ln : length (nodes s) = N;
    inv_lc : length (chans s) = C;
    inv_nodes : forall i, i < N -> node_inv (cfg i) (nd s i);
    inv_chans : forall c, c < C -> chan_inv s c
  }.

  (** ** initially *)
  Lemma nd_init : forall i, i < N -> nd (n_init NW) i = d_init_node D i.
  Proof.
    intros i Hi. unfold nd. cbn [n_init net_of nodes].
    rewrite (nth_indep _ dflt (d_init_node D 0)) by (rewrite map_length, seq_length; auto).
    rewrite map_nth. rewrite seq_nth by auto. reflexivity.
  Qed.

  Lemma chan_init : forall c, chan (n_init NW) c = [].
  Proof.
    intros c. unfold chan. cbn [n_init net_of chans].
    destruct (lt_dec c C) as [Hc|Hc].
    - apply nth_repeat.
    - apply nth_overflow. rewrite repeat_length. lia.
  Qed.

  Lemma qcount_app : forall c k q1 q2, qcount c k (q1 ++ q2) = qcount c k q1 + qcount c k q2.
  Proof. intros. unfold qcount. apply cntb_app. Qed.

  Lemma owe_init : forall i k c, i < N -> k <> MD ->
    owe k (cfg i) (d_init_node D i) c = cnt c (chs (r_outs (cfg i))).
  Proof.
    intros i k c Hi Hk. pose proof (cfg_ok_of i Hi) as [_ Hc].
    unfold owe, d_init_node, r_op_init. destruct (r_kind (cfg i)); try contradiction.
    - unfold r_src_init. cbn [r_outq r_rounds r_done]. rewrite !qcount_app, !qcount_bcast.
      destruct k; try congruence; cbn; lia.
    - cbn [r_outq r_rounds r_done]. destruct k; try congruence; cbn; lia.
    - cbn [r_outq r_rounds r_done]. destruct k; try congruence; cbn; lia.
  Qed.

  Lemma node_inv_init : forall i, i < N -> node_inv (cfg i) (d_init_node D i).
  Proof.
    intros i Hi. pose proof (cfg_ok_of i Hi) as [Hdo Hc].
    destruct Hok as [Hn _]. destruct (Hn i Hi) as [_ _ _ H4].
    assert (Hn1 : forall c, owe MF (cfg i) (d_init_node D i) c <= owe MT (cfg i) (d_init_node D i) c).
    { intros c. rewrite !owe_init by (auto; discriminate). lia. }
    unfold d_init_node in *. unfold kind_inv, r_op_init in *.
    destruct (r_kind (cfg i)) as [|c' k|l kl r kr|p] eqn:Ek; try contradiction.
    - (* source *)
      assert (Hdata : forall e, In e (bcast (d_data D i) MD) -> In (fst e) (chs (r_outs (cfg i)))).
      { intros e He. unfold bcast in He. apply in_map_iff in He. destruct He as [[w d] [<- Hin]].
        cbn [fst]. apply (H4 w d Hin). }
      assert (Hcase : forall e, In e (r_outq (r_src_init (d_data D i) (cfg i))) ->
                (mk e = MD /\ In e (bcast (d_data D i) MD)) \/
                (mk e = MF /\ In (fst e) (chs (r_outs (cfg i)))) \/
                (mk e = MT /\ In (fst e) (chs (r_outs (cfg i))))).
      { intros e He. cbn [r_src_init r_outq] in He.
        apply in_app_or in He. destruct He as [He|He].
        - left. split; auto. apply bcast_in in He. tauto.
        - apply in_app_or in He. destruct He as [He|He]; apply bcast_in in He; tauto. }
      split; auto.
      + cbn [r_src_init r_outq]. apply mono_app; [apply mono_bcast | apply mono_app; try apply mono_bcast |].
        * intros a b Ha Hb. apply bcast_in in Ha. apply bcast_in in Hb. destruct Ha as [-> _], Hb as [-> _]. cbn; lia.
        * intros a b Ha Hb. apply bcast_in in Ha. destruct Ha as [-> _]. cbn [rank]. lia.
      + cbn. intros; discriminate.
      + cbn [r_src_init r_done]. intros; discriminate.
      + intros e He. destruct (Hcase e He) as [[_ H]|[[_ H]|[_ H]]]; auto.
      + unfold kind_inv. rewrite Ek. cbn. auto.
      + intros e He Hmd. destruct (Hcase e He) as [[_ H]|[[H _]|[H _]]]; try congruence.
        pose proof (owe_init i MF (fst e) Hi ltac:(discriminate)) as Ho.
        unfold d_init_node in Ho. rewrite Ek in Ho. rewrite Ho. apply cnt_in. auto.
    - split; cbn [r_outq r_rounds r_done]; auto; try exact I; try (intros; contradiction); try (intros; discriminate).
      unfold kind_inv. rewrite Ek. cbn [r_mfl r_mfr r_mtl r_mtr r_rounds r_done].
      repeat split; intros; try lia; try discriminate.
    - split; cbn [r_outq r_rounds r_done]; auto; try exact I; try (intros; contradiction); try (intros; discriminate).
      unfold kind_inv. rewrite Ek. cbn [r_mfl r_mfr r_mtl r_mtr r_rounds r_done].
      repeat split; intros; try lia; try discriminate.
  Qed.

  Lemma inv_init : Inv (n_init NW).
  Proof.
    assert (Hcnt : forall k c, k <> MD -> cntk (n_init NW) k c = nprod D c).
    { intros k c Hk. unfold cntk. rewrite nprod_sum. apply sumn_ext. intros i Hi.
      rewrite nd_init by auto. apply owe_init; auto. }
    split.
    - cbn. rewrite map_length, seq_length. reflexivity.
    - cbn. rewrite repeat_length. reflexivity.
    - intros i Hi. rewrite nd_init by auto. apply node_inv_init. auto.
    - intros c Hc. destruct (chan_input c Hc) as [Hj [Hin _]].
      unfold chan_inv, tot. rewrite chan_init. rewrite !Hcnt by discriminate.
      split; [|split].
      + rewrite nd_init by auto. cbn [mcount cntb filter length]. rewrite Nat.add_0_r.
        destruct Hok as [Hn _]. destruct (Hn _ Hj) as [_ _ _ H4].
        unfold side_conj, sidef, sidet, d_init_node, r_op_init, is_input in *.
        destruct (r_kind (cfg (cons c))) as [|c' k|l kl r kr|p]; try contradiction.
        * subst c'. cbn [r_mfl r_mfr r_mtl r_mtr r_rounds r_done].
          repeat split; intros; try lia; try discriminate; tauto.
        * cbn [r_mfl r_mfr r_mtl r_mtr r_rounds r_done].
          destruct H4 as [_ [_ [Hlr [_ [_ [Hkl [Hkr _]]]]]]].
          destruct Hin as [->| ->].
          -- rewrite Nat.eqb_refl. repeat split; intros; try lia; try discriminate; auto.
          -- assert (Erl : Nat.eqb r l = false) by (apply Nat.eqb_neq; auto). rewrite Erl.
             repeat split; intros; try lia; try discriminate; auto.
      + intros q1 q2 Hs. symmetry in Hs. apply app_eq_nil in Hs. destruct Hs as [_ ->]. cbn. lia.
      + intros q1 m q2 Hs. destruct q1; discriminate.
  Qed.

  (** ** a send preserves the invariant *)
  Lemma node_at_nd : forall s i x, node_at s i = Some x -> i < length (nodes s) /\ nd s i = x.
  Proof.
    intros s i x H. unfold node_at in H. split.
    - apply nth_error_Some. congruence.
    - unfold nd. apply nth_error_nth. exact H.
  Qed.

  Lemma mcount_snoc : forall k q m, mcount k (q ++ [m]) = mcount k q + (if msel k m then 1 else 0).
  Proof. intros. unfold mcount. rewrite cntb_app, cntb_cons. cbn. lia. Qed.

  Lemma mcount_cons : forall k q m, mcount k (m :: q) = (if msel k m then 1 else 0) + mcount k q.
  Proof. intros. unfold mcount. apply cntb_cons. Qed.

  Lemma inv_send : forall s i x c m, Inv s -> node_at s i = Some x -> r_pending x = Some (c, m) ->
    Inv {| nodes := upd i (r_on_send x) (nodes s); chans := upd c (chan s c ++ [m]) (chans s) |}.
  Proof.
    intros s i x c m HI Hx Hp. destruct HI as [Hln Hlc Hnodes Hchans].
    destruct (node_at_nd s i x Hx) as [Hi Hxi]. rewrite Hln in Hi.
    unfold r_pending in Hp. destruct (r_outq x) as [|e rest] eqn:Hq; [discriminate|].
    inversion Hp; subst e. clear Hp.
    pose proof (Hnodes i Hi) as Hni. rewrite Hxi in Hni.
    assert (Hcin : In c (chs (r_outs (cfg i)))).
    { apply (ni_outs _ _ Hni (c, m)). rewrite Hq. left; auto. }
    destruct (outs_valid i c Hi Hcin) as [Hc Hlt].
    set (s' := {| nodes := upd i (r_on_send x) (nodes s); chans := upd c (chan s c ++ [m]) (chans s) |}).
    assert (Hnd_i : nd s' i = r_on_send x).
    { unfold nd, s'. cbn [nodes]. apply nth_upd_eq. lia. }
    assert (Hnd_o : forall i', i' <> i -> nd s' i' = nd s i').
    { intros i' Hne. unfold nd, s'. cbn [nodes]. apply nth_upd_neq. auto. }
    assert (Hch_c : chan s' c = chan s c ++ [m]).
    { unfold chan, s'. cbn [chans]. apply nth_upd_eq. lia. }
    assert (Hch_o : forall c0, c0 <> c -> chan s' c0 = chan s c0).
    { intros c0 Hne. unfold chan, s'. cbn [chans]. apply nth_upd_neq. auto. }
    assert (Hnodes' : forall i', i' < N -> node_inv (cfg i') (nd s' i')).
    { intros i' Hi'. destruct (Nat.eq_dec i' i) as [->|Hne].
      - rewrite Hnd_i. eapply node_inv_send; eauto.
      - rewrite Hnd_o by auto. auto. }
    assert (Hcnt : forall k c0, cntk s k c0 = cntk s' k c0 + (if qsel c0 k (c, m) then 1 else 0)).
    { intros k c0. unfold cntk.
      pose proof (sumn_except N (fun i0 => owe k (cfg i0) (nd s i0) c0)
                    (fun i0 => owe k (cfg i0) (nd s' i0) c0) i Hi) as HS.
      cbv beta in HS. rewrite Hnd_i, Hxi in HS.
      rewrite (owe_send k (cfg i) x (c, m) rest c0 Hq) in HS.
      assert (Hext : forall k0, k0 < N -> k0 <> i ->
                owe k (cfg k0) (nd s k0) c0 = owe k (cfg k0) (nd s' k0) c0).
      { intros k0 _ Hne. rewrite Hnd_o by auto. reflexivity. }
      specialize (HS Hext). lia. }
    assert (Hqc : forall k, qsel c k (c, m) = msel k m).
    { intros k. unfold qsel, msel, mk. cbn [fst snd]. rewrite Nat.eqb_refl. reflexivity. }
    assert (Hqo : forall k c0, c0 <> c -> qsel c0 k (c, m) = false).
    { intros k c0 Hne. unfold qsel. cbn [fst].
      assert (E : Nat.eqb c c0 = false) by (apply Nat.eqb_neq; auto). rewrite E. reflexivity. }
    assert (Htot : forall k c0, tot s' k c0 = tot s k c0).
    { intros k c0. unfold tot. rewrite (Hcnt k c0). destruct (Nat.eq_dec c0 c) as [->|Hne].
      - rewrite Hch_c, mcount_snoc, Hqc. lia.
      - rewrite Hch_o, Hqo by auto. lia. }
    split; auto.
    - unfold s'. cbn [nodes]. rewrite upd_length. auto.
    - unfold s'. cbn [chans]. rewrite upd_length. auto.
    - intros c0 Hc0. destruct (Hchans c0 Hc0) as [Hsc [H1 H0]]. split; [|split].
      + rewrite !Htot. destruct (Nat.eq_dec (cons c0) i) as [E|E].
        * rewrite E, Hnd_i. apply side_conj_send. rewrite <- Hxi, <- E. exact Hsc.
        * rewrite Hnd_o by auto. exact Hsc.
      + intros q1 q2 Hs. destruct (Nat.eq_dec c0 c) as [->|Hne].
        * rewrite Hch_c in Hs. apply app_snoc_split in Hs. destruct Hs as [[-> _] | [q2' [-> Hs]]].
          -- cbn [mcount cntb filter length]. rewrite !Nat.add_0_r. unfold cntk. apply sumn_le.
             intros i' Hi'. apply (ni_n1 _ _ (Hnodes' i' Hi')).
          -- pose proof (H1 q1 q2' Hs) as H. rewrite (Hcnt MF c), (Hcnt MT c), !Hqc in H.
             rewrite !mcount_snoc. lia.
        * rewrite Hch_o in Hs by auto. pose proof (H1 q1 q2 Hs) as H.
          rewrite (Hcnt MF c0), (Hcnt MT c0), !Hqo in H by auto. lia.
      + intros q1 m0 q2 Hs Hmd. destruct (Nat.eq_dec c0 c) as [->|Hne].
        * rewrite Hch_c in Hs. apply app_snoc_split in Hs. destruct Hs as [[Hs _] | [q2' [Hs2 Hs]]]; [discriminate|].
          destruct q2' as [|m1 q2'].
          -- cbn [app] in Hs2. inversion Hs2; subst m0 q2.
             cbn [mcount cntb filter length]. rewrite Nat.add_0_r.
             pose proof (ni_n0 _ _ Hni (c, m)) as Hn0. rewrite Hq in Hn0.
             specialize (Hn0 ltac:(left; reflexivity) Hmd). cbn [fst] in Hn0.
             rewrite (owe_send MF (cfg i) x (c, m) rest c Hq), Hqc in Hn0.
             assert (Em : msel MF m = false).
             { unfold msel. unfold mk in Hmd. cbn [snd] in Hmd. rewrite Hmd. reflexivity. }
             rewrite Em in Hn0.
             pose proof (sumn_elem N (fun i0 => owe MF (cfg i0) (nd s' i0) c) i Hi) as Hel.
             cbv beta in Hel. rewrite Hnd_i in Hel. unfold cntk. lia.
          -- cbn [app] in Hs2. inversion Hs2; subst m1 q2.
             pose proof (H0 q1 m0 q2' Hs Hmd) as H. rewrite (Hcnt MF c), Hqc in H.
             rewrite mcount_snoc. lia.
        * rewrite Hch_o in Hs by auto. pose proof (H0 q1 m0 q2 Hs Hmd) as H.
          rewrite (Hcnt MF c0), Hqo in H by auto. lia.
  Qed.

  (** ** a receive preserves the invariant *)
  Lemma inv_recv : forall s j y c m q, Inv s -> node_at s j = Some y -> r_finished y = false ->
    r_pending y = None -> In c (r_wants (cfg j) y) -> chan s c = m :: q ->
    Inv {| nodes := upd j (r_on_recv (cfg j) y c m) (nodes s); chans := upd c q (chans s) |}.
  Proof.
    intros s j y c m q HI Hy Hfin Hp Hw Hch. destruct HI as [Hln Hlc Hnodes Hchans].
    destruct (node_at_nd s j y Hy) as [Hj Hyj]. rewrite Hln in Hj.
    unfold r_pending in Hp. destruct (r_outq y) as [|e rest] eqn:Hq; [|discriminate]. clear Hp.
    assert (Hd : r_done y = false).
    { unfold r_finished in Hfin. rewrite Hq in Hfin. rewrite andb_true_r in Hfin. exact Hfin. }
    pose proof (cfg_ok_of j Hj) as Hcf.
    pose proof (wants_input _ _ _ Hcf Hw) as Hin.
    destruct (input_cons j c Hj Hin) as [Hc Hcj].
    pose proof (Hnodes j Hj) as Hnj. rewrite Hyj in Hnj.
    destruct (Hchans c Hc) as [Hsc [H1c H0c]]. rewrite Hcj, Hyj in Hsc.
    destruct Hsc as [S1 [S2 [S3 S4]]].
    assert (Htc : forall k, tot s k c = cntk s k c + (if msel k m then 1 else 0) + mcount k q).
    { intros k. unfold tot. rewrite Hch, mcount_cons. lia. }
    (* a data batch or a FlushAndRestart arrives in round 0 *)
    assert (PF : snd m <> MT -> r_rounds y = 0).
    { intros Hm. destruct (ni_rounds _ _ Hnj) as [R|R]; auto. exfalso.
      specialize (S2 ltac:(lia)). rewrite Htc in S2.
      destruct (snd m) eqn:Em; try congruence.
      - pose proof (H0c [] m q Hch Em). lia.
      - unfold msel in S2. rewrite Em in S2. cbn in S2. lia. }
    (* the last Terminate arrives after the round has ended *)
    assert (PT : snd m = MT -> r_done (r_on_recv (cfg j) y c m) = true -> r_rounds y = 1).
    { intros Hm Hdone. destruct (ni_rounds _ _ Hnj) as [R|R]; auto. exfalso.
      pose proof (mt_complete_sides _ y c m Hcf (ni_kind _ _ Hnj) Hin Hd Hm Hdone) as Hsides.
      destruct (sidef_pos _ y Hcf (ni_kind _ _ Hnj) Hd R) as [c0 [Hin0 Hpos]].
      destruct (input_cons j c0 Hj Hin0) as [Hc0 Hc0j].
      destruct (Hchans c0 Hc0) as [Hsc0 [H10 _]]. rewrite Hc0j, Hyj in Hsc0.
      destruct Hsc0 as [T1 [_ [T3 _]]]. specialize (T1 R). specialize (T3 Hd).
      rewrite (Hsides c0 Hin0) in T3.
      destruct (Nat.eq_dec c0 c) as [->|Hne].
      - rewrite Nat.eqb_refl in T3. rewrite Htc in T3, T1.
        unfold msel in T3, T1. rewrite Hm in T3, T1. cbn [marker_eqb] in T3, T1.
        pose proof (H1c [m] q Hch). lia.
      - assert (E : Nat.eqb c0 c = false) by (apply Nat.eqb_neq; auto). rewrite E in T3.
        pose proof (H10 [] (chan s c0) eq_refl). unfold tot in T3, T1. lia. }
    destruct (node_inv_recv _ y c m Hcf Hnj Hin Hq Hd PF PT) as [Hnj' Howe].
    set (s' := {| nodes := upd j (r_on_recv (cfg j) y c m) (nodes s); chans := upd c q (chans s) |}).
    assert (Hnd_j : nd s' j = r_on_recv (cfg j) y c m).
    { unfold nd, s'. cbn [nodes]. apply nth_upd_eq. lia. }
    assert (Hnd_o : forall i', i' <> j -> nd s' i' = nd s i').
    { intros i' Hne. unfold nd, s'. cbn [nodes]. apply nth_upd_neq. auto. }
    assert (Hch_c : chan s' c = q).
    { unfold chan, s'. cbn [chans]. apply nth_upd_eq. lia. }
    assert (Hch_o : forall c0, c0 <> c -> chan s' c0 = chan s c0).
    { intros c0 Hne. unfold chan, s'. cbn [chans]. apply nth_upd_neq. auto. }
    assert (Hcnt : forall k c0, k <> MD -> cntk s' k c0 = cntk s k c0).
    { intros k c0 Hk. unfold cntk. apply sumn_ext. intros i Hi.
      destruct (Nat.eq_dec i j) as [->|Hne].
      - rewrite Hnd_j, Hyj. apply Howe. auto.
      - rewrite Hnd_o by auto. reflexivity. }
    assert (Htot : forall k c0, k <> MD ->
              tot s' k c0 + (if Nat.eqb c0 c && msel k m then 1 else 0) = tot s k c0).
    { intros k c0 Hk. unfold tot. rewrite Hcnt by auto. destruct (Nat.eq_dec c0 c) as [->|Hne].
      - rewrite Nat.eqb_refl, Hch_c, Hch, mcount_cons. cbn [andb]. lia.
      - assert (E : Nat.eqb c0 c = false) by (apply Nat.eqb_neq; auto).
        rewrite E, Hch_o by auto. cbn [andb]. lia. }
    split.
    - unfold s'. cbn [nodes]. rewrite upd_length. auto.
    - unfold s'. cbn [chans]. rewrite upd_length. auto.
    - intros i Hi. destruct (Nat.eq_dec i j) as [->|Hne].
      + rewrite Hnd_j. exact Hnj'.
      + rewrite Hnd_o by auto. auto.
    - intros c0 Hc0. destruct (Hchans c0 Hc0) as [Hsc0 [H10 H00]]. split; [|split].
      + destruct (Nat.eq_dec (cons c0) j) as [E|E].
        * rewrite E, Hnd_j. destruct (chan_input c0 Hc0) as [_ [Hin0 _]]. rewrite E in Hin0.
          rewrite E, Hyj in Hsc0.
          apply (side_conj_recv _ y c m c0 (tot s MF c0) (tot s MT c0)); auto.
          -- apply Htot. discriminate.
          -- apply Htot. discriminate.
          -- intros Hm. apply PF. congruence.
        * rewrite Hnd_o by auto.
          assert (Hne : c0 <> c) by (intros ->; auto).
          pose proof (Htot MF c0 ltac:(discriminate)) as HF.
          pose proof (Htot MT c0 ltac:(discriminate)) as HT.
          assert (E2 : Nat.eqb c0 c = false) by (apply Nat.eqb_neq; auto).
          rewrite E2 in HF, HT. cbn [andb] in HF, HT. rewrite Nat.add_0_r in HF, HT.
          rewrite HF, HT. exact Hsc0.
      + intros q1 q2 Hs. rewrite !Hcnt by discriminate. destruct (Nat.eq_dec c0 c) as [->|Hne].
        * rewrite Hch_c in Hs. apply (H10 (m :: q1) q2). rewrite Hch, Hs. reflexivity.
        * rewrite Hch_o in Hs by auto. apply (H10 q1 q2 Hs).
      + intros q1 m0 q2 Hs Hmd. rewrite Hcnt by discriminate. destruct (Nat.eq_dec c0 c) as [->|Hne].
        * rewrite Hch_c in Hs. apply (H00 (m :: q1) m0 q2); auto. rewrite Hch, Hs. reflexivity.
        * rewrite Hch_o in Hs by auto. apply (H00 q1 m0 q2 Hs Hmd).
  Qed.

  (** ** the invariant holds in every reachable state *)
  Lemma inv_step : forall s s', Inv s -> step NW s s' -> Inv s'.
  Proof.
    intros s s' HI Hs. inversion Hs; subst.
    - cbn [net_of n_sem r_sem on_send pending] in *. apply inv_send; auto.
    - cbn [net_of n_sem r_sem on_recv pending finished wants] in *. apply inv_recv; auto.
    - cbn [net_of n_sem r_sem on_tau] in *. discriminate.
  Qed.

  Theorem inv_reachable : forall s, reachable NW s -> Inv s.
  Proof.
    intros s Hr. induction Hr.
    - apply inv_init.
    - eapply inv_step; eauto.
  Qed.
End Dag.

(** * From the invariant to the obligations *)
Lemma r_level_le1 : forall cf x, node_inv cf x -> r_level x <= 1.
Proof.
  intros cf x H. unfold r_level. destruct (ni_rounds _ _ H) as [R|R]; rewrite R;
    destruct (existsb is_mf (r_outq x)); cbn; lia.
Qed.

Lemma r_level_round0 : forall x, r_rounds x = 0 -> r_level x = 0.
Proof. intros x R. unfold r_level. rewrite R. destruct (existsb is_mf (r_outq x)); reflexivity. Qed.

Lemma finished_nonempty : forall x e q, r_outq x = e :: q -> r_finished x = false.
Proof. intros x e q H. unfold r_finished. rewrite H. apply andb_false_r. Qed.

Lemma finished_not_done : forall x, r_done x = false -> r_finished x = false.
Proof. intros x H. unfold r_finished. rewrite H. reflexivity. Qed.

(** a node that owes a marker on c is a producer of c, has not finished, and - if it owes a
    FlushAndRestart - is at level 0 *)
Lemma owe_pos_facts : forall k cf x c, node_inv cf x -> k <> MD -> 1 <= owe k cf x c ->
  r_finished x = false /\ In c (chs (r_outs cf)) /\ (k = MF -> r_level x = 0).
Proof.
  intros k cf x c H Hk Ho. unfold owe in Ho.
  destruct (le_lt_dec 1 (qcount c k (r_outq x))) as [Hq|Hq].
  - apply cntb_pos in Hq. destruct Hq as [e [Hin Hs]]. unfold qsel in Hs.
    apply andb_true_iff in Hs. destruct Hs as [Hc Hm]. apply Nat.eqb_eq in Hc. apply marker_eqb_eq in Hm.
    split; [|split].
    + destruct (r_outq x) eqn:E; [destruct Hin|]. eapply finished_nonempty; eauto.
    + rewrite <- Hc. apply (ni_outs _ _ H e Hin).
    + intros ->. unfold r_level.
      assert (Hex : existsb is_mf (r_outq x) = true).
      { apply existsb_exists. exists e. split; auto. unfold is_mf. unfold mk in Hm. rewrite Hm. reflexivity. }
      rewrite Hex. destruct (ni_rounds _ _ H) as [R|R]; rewrite R; reflexivity.
  - destruct (gate k x) eqn:Eg; [|lia]. assert (Hc : 1 <= cnt c (chs (r_outs cf))) by lia.
    apply cnt_pos in Hc. split; [|split]; auto.
    + apply finished_not_done. destruct k; try congruence; cbn [gate] in Eg.
      * apply Nat.eqb_eq in Eg. destruct (r_done x) eqn:Ed; auto.
        pose proof (ni_done _ _ H Ed). lia.
      * apply negb_true_iff in Eg. exact Eg.
    + intros ->. cbn [gate] in Eg. apply Nat.eqb_eq in Eg. apply r_level_round0. exact Eg.
Qed.

(** what a pending send tells about the sender *)
Lemma pending_facts : forall cf x c m, node_inv cf x -> r_pending x = Some (c, m) ->
  1 <= owe MT cf x c /\ (snd m <> MT -> 1 <= owe MF cf x c) /\ (snd m = MT -> r_level x = 1) /\
  In c (chs (r_outs cf)).
Proof.
  intros cf x c m H Hp. unfold r_pending in Hp. destruct (r_outq x) as [|e rest] eqn:Hq; [discriminate|].
  inversion Hp; subst e. clear Hp.
  assert (Hhead : forall k, snd m = k -> 1 <= qcount c k (r_outq x)).
  { intros k Hk. rewrite Hq. unfold qcount. rewrite cntb_cons. unfold qsel, mk. cbn [fst snd].
    rewrite Nat.eqb_refl, Hk, marker_eqb_refl. cbn. lia. }
  assert (HF : snd m <> MT -> 1 <= owe MF cf x c).
  { intros Hm. destruct (snd m) eqn:Em; try congruence.
    - pose proof (ni_n0 _ _ H (c, m)) as Hn0. rewrite Hq in Hn0. apply Hn0; [left; auto | exact Em].
    - pose proof (Hhead MF eq_refl). unfold owe. lia. }
  split; [|split; [|split]]; auto.
  - destruct (snd m) eqn:Em.
    + pose proof (HF ltac:(discriminate)). pose proof (ni_n1 _ _ H c). lia.
    + pose proof (HF ltac:(discriminate)). pose proof (ni_n1 _ _ H c). lia.
    + pose proof (Hhead MT eq_refl). unfold owe. lia.
  - intros Hm. unfold r_level.
    assert (Hex : existsb is_mf (r_outq x) = false).
    { destruct (existsb is_mf (r_outq x)) eqn:E; auto. exfalso.
      apply existsb_exists in E. destruct E as [e [Hin He]]. rewrite Hq in Hin.
      pose proof (ni_mono _ _ H) as Hmono. rewrite Hq in Hmono. destruct Hmono as [Hh _].
      unfold is_mf in He. destruct Hin as [<-|Hin].
      - cbn [snd] in He. rewrite Hm in He. discriminate.
      - specialize (Hh e Hin). unfold mk in Hh. cbn [snd] in Hh. rewrite Hm in Hh.
        destruct (snd (snd e)); try discriminate. cbn in Hh. lia. }
    rewrite Hex.
    assert (Hd : r_done x = true).
    { destruct (r_done x) eqn:Ed; auto. exfalso.
      apply (ni_nd _ _ H Ed (c, m)); [rewrite Hq; left; auto | exact Hm]. }
    apply (ni_done _ _ H Hd).
  - apply (ni_outs _ _ H (c, m)). rewrite Hq. left; auto.
Qed.

(** a replica that sits in a receive reads a side that still misses a marker of the current
    phase *)
Lemma wants_owed : forall cf x, cfg_ok cf -> kind_inv cf x -> r_done x = false ->
  exists c, In c (r_wants cf x) /\ (r_rounds x = 0 -> 1 <= sidef cf x c) /\
            (r_rounds x = 1 -> 1 <= sidet cf x c).
Proof.
  intros cf x [_ Hc] Hk Hd. unfold kind_inv, r_wants, sidef, sidet in *.
  destruct (r_kind cf) as [|c' k|l kl r kr|p]; try contradiction.
  - destruct Hk. congruence.
  - destruct Hk as [_ [_ [H3 [_ H5]]]]. exists c'. split; [left; auto|]. split; auto.
  - destruct Hc as [Hkl [Hkr Hlr]]. destruct Hk as [H1 [H2 H3]]. specialize (H3 Hd).
    assert (Erl : Nat.eqb r l = false) by (apply Nat.eqb_neq; auto).
    destruct (Nat.eqb (r_mfl x) 0) eqn:E1; [apply Nat.eqb_eq in E1 | apply Nat.eqb_neq in E1].
    { exists r. rewrite Erl. split; [left; auto|]. split; intros R; [specialize (H1 R) | specialize (H2 R)]; lia. }
    destruct (Nat.eqb (r_mfr x) 0) eqn:E2; [apply Nat.eqb_eq in E2 | apply Nat.eqb_neq in E2].
    { exists l. rewrite Nat.eqb_refl. split; [left; auto|]. split; intros R; [specialize (H1 R) | specialize (H2 R)]; lia. }
    destruct (Nat.eqb (r_mtl x) 0) eqn:E3; [apply Nat.eqb_eq in E3 | apply Nat.eqb_neq in E3].
    { exists r. rewrite Erl. split; [left; auto|]. split; intros R; lia. }
    destruct (Nat.eqb (r_mtr x) 0) eqn:E4; [apply Nat.eqb_eq in E4 | apply Nat.eqb_neq in E4].
    { exists l. rewrite Nat.eqb_refl. split; [left; auto|]. split; intros R; lia. }
    exists l. rewrite Nat.eqb_refl. split; [left; auto|]. split; intros R; lia.
Qed.

(** a replica refuses an input only if that side has ended the round (round 0) or has
    delivered all its Terminates *)
Lemma refusal_cases : forall cf y c, cfg_ok cf -> kind_inv cf y -> is_input cf c ->
  ~ In c (r_wants cf y) ->
  (r_rounds y <> 1 /\ sidef cf y c = 0) \/ sidet cf y c = 0.
Proof.
  intros cf y c [_ Hc] Hk Hin Hnw. unfold kind_inv, r_wants, sidef, sidet, is_input in *.
  destruct (r_kind cf) as [|c' k|l kl r kr|p]; try contradiction.
  - exfalso. apply Hnw. left; auto.
  - destruct Hc as [Hkl [Hkr Hlr]]. destruct Hk as [H1 [H2 H3]].
    assert (Erl : Nat.eqb r l = false) by (apply Nat.eqb_neq; auto).
    destruct (Nat.eqb (r_mfl y) 0) eqn:E1; [apply Nat.eqb_eq in E1 | apply Nat.eqb_neq in E1].
    { destruct Hin as [->| ->]; [|exfalso; apply Hnw; left; auto].
      rewrite Nat.eqb_refl. left. split; auto. intros R. specialize (H2 R). lia. }
    destruct (Nat.eqb (r_mfr y) 0) eqn:E2; [apply Nat.eqb_eq in E2 | apply Nat.eqb_neq in E2].
    { destruct Hin as [->| ->]; [exfalso; apply Hnw; left; auto|].
      rewrite Erl. left. split; auto. intros R. specialize (H2 R). lia. }
    destruct (Nat.eqb (r_mtl y) 0) eqn:E3; [apply Nat.eqb_eq in E3 | apply Nat.eqb_neq in E3].
    { destruct Hin as [->| ->]; [|exfalso; apply Hnw; left; auto].
      rewrite Nat.eqb_refl. right. auto. }
    destruct (Nat.eqb (r_mtr y) 0) eqn:E4; [apply Nat.eqb_eq in E4 | apply Nat.eqb_neq in E4].
    { destruct Hin as [->| ->]; [exfalso; apply Hnw; left; auto|].
      rewrite Erl. right. auto. }
    exfalso. apply Hnw. destruct Hin as [->| ->]; [left; auto | right; left; auto].
Qed.

Section Safe.
  Variable D : dag.
  Notation N := (d_n D).
  Notation C := (d_nc D).
  Notation cfg := (d_cfg D).
  Notation cons := (d_cons D).
  Notation NW := (net_of D).
  Hypothesis Hok : dag_ok D.

  Lemma nd_node_at : forall s i, i < length (nodes s) -> node_at s i = Some (nd s i).
  Proof. intros s i Hi. unfold node_at, nd. apply nth_error_nth'. exact Hi. Qed.

  Lemma cntk_pos : forall s k c, Inv D s -> k <> MD -> 1 <= cntk D s k c ->
    exists p, p < N /\ d_prod D c p = true /\ node_at s p = Some (nd s p) /\
              r_finished (nd s p) = false /\ (k = MF -> r_level (nd s p) = 0) /\ r_level (nd s p) <= 1.
  Proof.
    intros s k c HI Hk Hpos. unfold cntk in Hpos. apply sumn_pos in Hpos. destruct Hpos as [p [Hp Ho]].
    pose proof (inv_nodes D s HI p Hp) as Hnp.
    destruct (owe_pos_facts k _ _ c Hnp Hk Ho) as [Hf [Hin Hl]].
    exists p. split; auto. split; [|split; [|split; [|split]]]; auto.
    - unfold d_prod. apply andb_true_iff. split; [apply Nat.ltb_lt; auto | apply memb_In; auto].
    - apply nd_node_at. rewrite (inv_ln D s HI). exact Hp.
    - eapply r_level_le1; eauto.
  Qed.

  Lemma inv_safe : forall s, Inv D s -> safe_state NW (fun _ => r_level) s.
  Proof.
    intros s HI. pose proof HI as [Hln Hlc Hnodes Hchans].
    split; [|split; [|split]].
    - (* locality *)
      intros i x Hx Hf. destruct (node_at_nd s i x Hx) as [Hi Hxi]. rewrite Hln in Hi.
      pose proof (Hnodes i Hi) as Hni. rewrite Hxi in Hni. cbn [net_of n_sem r_sem pending wants n_chans n_prod n_cons].
      split.
      + intros c m Hp. destruct (pending_facts _ x c m Hni Hp) as [_ [_ [_ Hin]]].
        destruct (outs_valid D Hok i c Hi Hin) as [Hc _]. split; auto.
        unfold d_prod. apply andb_true_iff. split; [apply Nat.ltb_lt; auto | apply memb_In; auto].
      + intros c Hw. apply (input_cons D Hok i c Hi). eapply wants_input; eauto. apply cfg_ok_of; auto.
    - (* receive-liveness *)
      intros i x Hx Hf Hp _ Hempty. destruct (node_at_nd s i x Hx) as [Hi Hxi]. rewrite Hln in Hi.
      pose proof (Hnodes i Hi) as Hni. rewrite Hxi in Hni.
      cbn [net_of n_sem r_sem pending wants finished n_prod] in *.
      unfold r_pending in Hp. destruct (r_outq x) as [|e rest] eqn:Hq; [|discriminate].
      assert (Hd : r_done x = false).
      { unfold r_finished in Hf. rewrite Hq, andb_true_r in Hf. exact Hf. }
      pose proof (cfg_ok_of D Hok i Hi) as Hcf.
      destruct (wants_owed _ x Hcf (ni_kind _ _ Hni) Hd) as [c [Hw [HF HT]]].
      destruct (input_cons D Hok i c Hi (wants_input _ _ _ Hcf Hw)) as [Hc Hci].
      destruct (Hchans c Hc) as [[S1 [_ [S3 _]]] _]. rewrite Hci, Hxi in S1, S3.
      unfold tot in S1, S3. rewrite (Hempty c Hw) in S1, S3. cbn [mcount cntb filter length] in S1, S3.
      assert (Hlx : r_level x = r_rounds x).
      { unfold r_level. rewrite Hq. reflexivity. }
      destruct (ni_rounds _ _ Hni) as [R|R].
      + specialize (S1 R). specialize (HF R).
        destruct (cntk_pos s MF c HI ltac:(discriminate) ltac:(lia)) as [p [Hp' [Hpr [Hy [Hfy [Hl0 _]]]]]].
        exists c, p, (nd s p). repeat split; auto. rewrite (Hl0 eq_refl). lia.
      + specialize (S3 Hd). specialize (HT R).
        destruct (cntk_pos s MT c HI ltac:(discriminate) ltac:(lia)) as [p [Hp' [Hpr [Hy [Hfy [_ Hl1]]]]]].
        exists c, p, (nd s p). repeat split; auto. lia.
    - (* the consumer of a channel somebody still writes to is alive *)
      intros i x c m Hx Hf Hp _. destruct (node_at_nd s i x Hx) as [Hi Hxi]. rewrite Hln in Hi.
      pose proof (Hnodes i Hi) as Hni. rewrite Hxi in Hni.
      cbn [net_of n_sem r_sem pending wants finished n_prod n_cons] in *.
      destruct (pending_facts _ x c m Hni Hp) as [HoT [HoF [HlT Hin]]].
      destruct (outs_valid D Hok i c Hi Hin) as [Hc _].
      destruct (chan_input D Hok c Hc) as [Hj _].
      destruct (Hchans c Hc) as [[_ [S2 [_ S4]]] _].
      pose proof (Hnodes _ Hj) as Hnj.
      assert (HcT : 1 <= tot D s MT c).
      { unfold tot, cntk. pose proof (sumn_elem N (fun i0 => owe MT (cfg i0) (nd s i0) c) i Hi) as He.
        cbv beta in He. rewrite Hxi in He. lia. }
      exists (nd s (cons c)). split; [apply nd_node_at; lia|]. split.
      + apply finished_not_done. destruct (r_done (nd s (cons c))) eqn:Ed; auto. specialize (S4 eq_refl). lia.
      + destruct (snd m) eqn:Em; try (rewrite (HlT eq_refl); eapply r_level_le1; eauto).
        all: assert (HcF : 1 <= tot D s MF c)
          by (unfold tot, cntk; pose proof (sumn_elem N (fun i0 => owe MF (cfg i0) (nd s i0) c) i Hi) as He;
              cbv beta in He; rewrite Hxi in He; specialize (HoF ltac:(discriminate)); lia).
        all: destruct (ni_rounds _ _ Hnj) as [R|R]; [rewrite (r_level_round0 _ R); lia|];
          specialize (S2 ltac:(lia)); lia.
    - (* refusal *)
      intros i x c m y Hx Hf Hp _ Hy Hfy Hpy _ Hnw. destruct (node_at_nd s i x Hx) as [Hi Hxi]. rewrite Hln in Hi.
      pose proof (Hnodes i Hi) as Hni. rewrite Hxi in Hni.
      cbn [net_of n_sem r_sem pending wants finished n_prod n_cons] in *.
      destruct (pending_facts _ x c m Hni Hp) as [HoT [HoF [HlT Hin]]].
      destruct (outs_valid D Hok i c Hi Hin) as [Hc _].
      destruct (chan_input D Hok c Hc) as [Hj [Hinp _]].
      destruct (node_at_nd s _ y Hy) as [_ Hyj].
      pose proof (Hnodes _ Hj) as Hnj. rewrite Hyj in Hnj.
      destruct (Hchans c Hc) as [[S1 [S2 [S3 _]]] _]. rewrite Hyj in S1, S2, S3.
      unfold r_pending in Hpy. destruct (r_outq y) as [|e rest] eqn:Hq; [|discriminate].
      assert (Hd : r_done y = false).
      { unfold r_finished in Hfy. rewrite Hq, andb_true_r in Hfy. exact Hfy. }
      assert (HcT : 1 <= tot D s MT c).
      { unfold tot, cntk. pose proof (sumn_elem N (fun i0 => owe MT (cfg i0) (nd s i0) c) i Hi) as He.
        cbv beta in He. rewrite Hxi in He. lia. }
      specialize (S3 Hd).
      pose proof (cfg_ok_of D Hok _ Hj) as Hcf.
      destruct (refusal_cases _ y c Hcf (ni_kind _ _ Hnj) Hinp Hnw) as [[R Hz] | Hz]; [|lia].
      destruct (ni_rounds _ _ Hnj) as [R'|R']; [|contradiction].
      specialize (S1 R'). rewrite (r_level_round0 _ R').
      destruct (snd m) eqn:Em; try (rewrite (HlT eq_refl); lia).
      all: exfalso; specialize (HoF ltac:(discriminate));
        unfold tot, cntk in S1; pose proof (sumn_elem N (fun i0 => owe MF (cfg i0) (nd s i0) c) i Hi) as He;
        cbv beta in He; rewrite Hxi in He; lia.
  Qed.
End Safe.

(** * Termination measure
    A queued send of node i weighs K^(2(N-i)), a message in flight to node j weighs
    K^(2(N-j)+1), where K exceeds the number of sends one received message can cause.
    A send moves a message from node i to a channel of a later node (lighter); a receive
    replaces a message in flight to j by fewer than K queued sends of j (lighter). *)
Lemma bcast_length : forall outs k, length (bcast outs k) = length outs.
Proof. intros. unfold bcast. apply map_length. Qed.

Lemma recv_outq_len : forall cf x c m, r_outq x = [] ->
  length (r_outq (r_on_recv cf x c m)) <= length (r_outs cf) + length (r_douts cf) + 1.
Proof.
  intros cf x c [d mm] Hq. unfold r_on_recv, r_count. cbn [snd].
  destruct (r_kind cf); try (rewrite Hq; cbn; lia).
  - destruct mm; try (destruct (Nat.eqb _ 0)); cbn [r_outq]; rewrite Hq; cbn [app length];
      rewrite ?bcast_length; lia.
  - destruct mm; try (destruct (Nat.eqb _ 0)); cbn [r_outq]; rewrite Hq; cbn [app length];
      rewrite ?bcast_length; lia.
Qed.

Section Measure.
  Variable D : dag.
  Notation N := (d_n D).
  Notation C := (d_nc D).
  Notation cfg := (d_cfg D).
  Notation cons := (d_cons D).
  Notation NW := (net_of D).
  Hypothesis Hok : dag_ok D.

  Definition dag_K : nat := 2 + sumn N (fun i => length (r_outs (cfg i)) + length (r_douts (cfg i))).
  Definition dag_W (i : nat) : nat := dag_K ^ (2 * (N - i)).
  Definition dag_V (j : nat) : nat := dag_K ^ (2 * (N - j) + 1).
  Definition dag_mu (s : state emsg rstate) : nat :=
    sumn N (fun i => length (r_outq (nd s i)) * dag_W i) +
    sumn C (fun c => length (chan s c) * dag_V (cons c)).

  Lemma dag_K_gt1 : 1 < dag_K.
  Proof. unfold dag_K. lia. Qed.

  Lemma dag_W_pos : forall i, 1 <= dag_W i.
  Proof.
    intros i. unfold dag_W. pose proof dag_K_gt1.
    assert (dag_K ^ (2 * (N - i)) <> 0) by (apply Nat.pow_nonzero; lia). lia.
  Qed.

  Lemma dag_V_W : forall j, dag_V j = dag_K * dag_W j.
  Proof. intros j. unfold dag_V, dag_W. rewrite Nat.add_1_r. apply Nat.pow_succ_r'. Qed.

  Lemma dag_V_lt_W : forall i j, i < j -> j < N -> dag_V j < dag_W i.
  Proof.
    intros i j Hij Hj. unfold dag_V, dag_W. apply Nat.pow_lt_mono_r; [apply dag_K_gt1 | lia].
  Qed.

  Lemma dag_mu_decreases : forall s s', Inv D s -> step NW s s' -> dag_mu s' < dag_mu s.
  Proof.
    intros s s' HI Hs. pose proof HI as [Hln Hlc Hnodes Hchans].
    inversion Hs; subst; cbn [net_of n_sem r_sem on_send on_recv on_tau pending finished wants n_cap] in *;
      [| |discriminate].
    - (* send *)
      destruct (node_at_nd s i x H) as [Hi Hxi]. rewrite Hln in Hi.
      pose proof (Hnodes i Hi) as Hni. rewrite Hxi in Hni.
      destruct (pending_facts _ x c m Hni H1) as [_ [_ [_ Hin]]].
      destruct (outs_valid D Hok i c Hi Hin) as [Hc Hlt].
      destruct (chan_input D Hok c Hc) as [Hj _].
      unfold r_pending in H1. destruct (r_outq x) as [|e rest] eqn:Hq; [discriminate|].
      set (s' := {| nodes := upd i (r_on_send x) (nodes s); chans := upd c (chan s c ++ [m]) (chans s) |}).
      assert (Hnd_i : nd s' i = r_on_send x).
      { unfold nd, s'. cbn [nodes]. apply nth_upd_eq. lia. }
      assert (Hnd_o : forall i', i' <> i -> nd s' i' = nd s i').
      { intros i' Hne. unfold nd, s'. cbn [nodes]. apply nth_upd_neq. auto. }
      assert (Hch_c : chan s' c = chan s c ++ [m]).
      { unfold chan, s'. cbn [chans]. apply nth_upd_eq. lia. }
      assert (Hch_o : forall c0, c0 <> c -> chan s' c0 = chan s c0).
      { intros c0 Hne. unfold chan, s'. cbn [chans]. apply nth_upd_neq. auto. }
      unfold dag_mu.
      pose proof (sumn_except N (fun i0 => length (r_outq (nd s i0)) * dag_W i0)
                    (fun i0 => length (r_outq (nd s' i0)) * dag_W i0) i Hi) as HS1.
      cbv beta in HS1. rewrite Hnd_i, Hxi in HS1. cbn [r_on_send r_outq] in HS1. rewrite Hq in HS1.
      cbn [tl length] in HS1. rewrite Nat.mul_succ_l in HS1.
      specialize (HS1 ltac:(intros k0 _ Hne; rewrite Hnd_o by auto; reflexivity)).
      pose proof (sumn_except C (fun c0 => length (chan s c0) * dag_V (cons c0))
                    (fun c0 => length (chan s' c0) * dag_V (cons c0)) c Hc) as HS2.
      cbv beta in HS2. rewrite Hch_c in HS2. rewrite app_length in HS2. cbn [length] in HS2.
      rewrite Nat.mul_add_distr_r, Nat.mul_1_l in HS2.
      specialize (HS2 ltac:(intros k0 _ Hne; rewrite Hch_o by auto; reflexivity)).
      pose proof (dag_V_lt_W i (cons c) Hlt Hj). lia.
    - (* receive *)
      destruct (node_at_nd s i x H) as [Hi Hxi]. rewrite Hln in Hi.
      pose proof (cfg_ok_of D Hok i Hi) as Hcf.
      destruct (input_cons D Hok i c Hi (wants_input _ _ _ Hcf H2)) as [Hc Hci].
      unfold r_pending in H1. destruct (r_outq x) as [|e rest] eqn:Hq; [|discriminate].
      set (s' := {| nodes := upd i (r_on_recv (cfg i) x c m) (nodes s); chans := upd c q (chans s) |}).
      assert (Hnd_i : nd s' i = r_on_recv (cfg i) x c m).
      { unfold nd, s'. cbn [nodes]. apply nth_upd_eq. lia. }
      assert (Hnd_o : forall i', i' <> i -> nd s' i' = nd s i').
      { intros i' Hne. unfold nd, s'. cbn [nodes]. apply nth_upd_neq. auto. }
      assert (Hch_c : chan s' c = q).
      { unfold chan, s'. cbn [chans]. apply nth_upd_eq. lia. }
      assert (Hch_o : forall c0, c0 <> c -> chan s' c0 = chan s c0).
      { intros c0 Hne. unfold chan, s'. cbn [chans]. apply nth_upd_neq. auto. }
      unfold dag_mu.
      pose proof (sumn_except N (fun i0 => length (r_outq (nd s i0)) * dag_W i0)
                    (fun i0 => length (r_outq (nd s' i0)) * dag_W i0) i Hi) as HS1.
      cbv beta in HS1. rewrite Hnd_i, Hxi in HS1. rewrite Hq in HS1. cbn [length] in HS1.
      rewrite Nat.mul_0_l in HS1.
      specialize (HS1 ltac:(intros k0 _ Hne; rewrite Hnd_o by auto; reflexivity)).
      pose proof (sumn_except C (fun c0 => length (chan s c0) * dag_V (cons c0))
                    (fun c0 => length (chan s' c0) * dag_V (cons c0)) c Hc) as HS2.
      cbv beta in HS2. rewrite Hch_c, H3 in HS2. cbn [length] in HS2. rewrite Nat.mul_succ_l in HS2.
      specialize (HS2 ltac:(intros k0 _ Hne; rewrite Hch_o by auto; reflexivity)).
      rewrite Hci in HS2.
      pose proof (recv_outq_len (cfg i) x c m Hq) as Hlen.
      pose proof (sumn_elem N (fun i0 => length (r_outs (cfg i0)) + length (r_douts (cfg i0))) i Hi) as Hel.
      cbv beta in Hel.
      assert (Hlt : length (r_outq (r_on_recv (cfg i) x c m)) * dag_W i < dag_V i).
      { rewrite dag_V_W. apply Nat.mul_lt_mono_pos_r; [pose proof (dag_W_pos i); lia|].
        unfold dag_K. lia. }
      lia.
  Qed.
End Measure.

(** * Main theorems *)
Theorem dag_safe : forall D, dag_ok D ->
  forall s, reachable (net_of D) s -> safe_state (net_of D) (fun _ => r_level) s.
Proof. intros D Hok s Hr. apply inv_safe; auto. apply inv_reachable; auto. Qed.

Theorem dag_no_deadlock : forall D, dag_ok D ->
  forall s, reachable (net_of D) s -> ~ final (net_of D) s -> exists s', step (net_of D) s s'.
Proof.
  intros D Hok. apply (no_deadlock (net_of D) (fun _ => r_level) (net_of_ok D Hok) (dag_safe D Hok)).
Qed.

Corollary dag_never_stuck : forall D, dag_ok D -> forall s, reachable (net_of D) s -> ~ stuck (net_of D) s.
Proof.
  intros D Hok. apply (never_stuck (net_of D) (fun _ => r_level) (net_of_ok D Hok) (dag_safe D Hok)).
Qed.

Lemma dag_mu_reachable : forall D, dag_ok D ->
  forall s s', reachable (net_of D) s -> step (net_of D) s s' -> dag_mu D s' < dag_mu D s.
Proof. intros D Hok s s' Hr Hs. apply dag_mu_decreases; auto. apply inv_reachable; auto. Qed.

Theorem dag_terminates : forall D, dag_ok D -> terminating (net_of D) (n_init (net_of D)).
Proof.
  intros D Hok.
  apply (terminates (net_of D) (fun _ => r_level) (net_of_ok D Hok) (dag_safe D Hok) (dag_mu D)
           (dag_mu_reachable D Hok)).
  constructor.
Qed.

(** a final state is reachable, there is no infinite execution, and a reachable state
    without steps is final *)
Theorem dag_job_terminates : forall D, dag_ok D ->
  (exists s', steps (net_of D) (n_init (net_of D)) s' /\ final (net_of D) s') /\
  (forall f : nat -> state emsg rstate, f 0 = n_init (net_of D) ->
     ~ (forall k, step (net_of D) (f k) (f (S k)))) /\
  (forall s, reachable (net_of D) s -> (forall s', ~ step (net_of D) s s') -> final (net_of D) s).
Proof.
  intros D Hok.
  apply (job_terminates (net_of D) (fun _ => r_level) (net_of_ok D Hok) (dag_safe D Hok) (dag_mu D)
           (dag_mu_reachable D Hok)).
Qed.

(** the boolean check is enough *)
Corollary dag_okb_terminates : forall D, dag_okb D = true -> terminating (net_of D) (n_init (net_of D)).
Proof. intros D H. apply dag_terminates. apply dag_okb_spec. exact H. Qed.

(** * Instances (non-vacuity) *)
(** the one-host diamond of NetProofs.v ([dia_net]) *)
Definition dia_dag : dag :=
  {| d_n := 4; d_nc := 3; d_cfg := dia_cfg;
     d_data := fun i => match i with 0 | 1 => [(0, 0); (2, 2)] | _ => [] end;
     d_cons := fun c => match c with 0 => 3 | 1 => 3 | _ => 2 end;
     d_cap := fun _ => 1 |}.

Lemma dia_dag_ok : dag_ok dia_dag.
Proof. apply dag_okb_spec. vm_compute. reflexivity. Qed.

Lemma dia_dag_same : n_init (net_of dia_dag) = n_init dia_net /\
  (forall c, c < 3 -> n_cons (net_of dia_dag) c = n_cons dia_net c /\
                      n_cap (net_of dia_dag) c = n_cap dia_net c /\
                      forall i, i < 4 -> n_prod (net_of dia_dag) c i = n_prod dia_net c i) /\
  (forall i, n_sem (net_of dia_dag) i = n_sem dia_net i).
Proof.
  split; [reflexivity|]. split; [|reflexivity].
  intros c Hc. do 3 (destruct c as [|c]; [split; [reflexivity|split; [reflexivity|]];
    intros i Hi; do 4 (destruct i as [|i]; [reflexivity|]); lia|]). lia.
Qed.

(** three levels, capacity 1 everywhere: three source replicas S0,S1,S2 feed the one-input
    replica P (3 producers on one channel); P feeds BOTH inputs of the two-input replica J
    (a self-join, `p.join(p)`), and also - like S2 - the one-input replica Q; J feeds the sink K.
    nodes 0,1,2 = S0,S1,S2  3 = P  4 = J  5 = Q  6 = K
    chans 0 = P.in (S0,S1,S2)  1 = J.left (P)  2 = J.right (P)  3 = Q.in (S2, P)  4 = K.in (J, Q) *)
Definition sj_cfg (i : nat) : rcfg :=
  match i with
  | 0 | 1 => {| r_kind := KSrc; r_outs := [(0, 0)]; r_douts := [] |}
  | 2 => {| r_kind := KSrc; r_outs := [(3, 3); (0, 0)]; r_douts := [] |}
  | 3 => {| r_kind := KOp1 0 3; r_outs := [(2, 2); (1, 1); (3, 3)]; r_douts := [(1, 1); (2, 2); (3, 3)] |}
  | 4 => {| r_kind := KOp2 1 1 2 1; r_outs := [(4, 4)]; r_douts := [(4, 4)] |}
  | 5 => {| r_kind := KOp1 3 2; r_outs := [(4, 4)]; r_douts := [(4, 4)] |}
  | _ => {| r_kind := KOp1 4 2; r_outs := []; r_douts := [] |}
  end.

Definition sj_dag : dag :=
  {| d_n := 7; d_nc := 5; d_cfg := sj_cfg;
     d_data := fun i => match i with 0 => [(0, 0); (0, 0)] | 1 => [(0, 0)] | 2 => [(0, 0); (3, 3); (0, 0)] | _ => [] end;
     d_cons := fun c => match c with 0 => 3 | 1 => 4 | 2 => 4 | 3 => 5 | _ => 6 end;
     d_cap := fun _ => 1 |}.

Lemma sj_dag_ok : dag_ok sj_dag.
Proof. apply dag_okb_spec. vm_compute. reflexivity. Qed.

Theorem sj_terminates : terminating (net_of sj_dag) (n_init (net_of sj_dag)).
Proof. apply dag_terminates. exact sj_dag_ok. Qed.

Theorem sj_no_deadlock : forall s, reachable (net_of sj_dag) s -> ~ stuck (net_of sj_dag) s.
Proof. apply dag_never_stuck. exact sj_dag_ok. Qed.

Theorem dia_dag_terminates : terminating (net_of dia_dag) (n_init (net_of dia_dag)).
Proof. apply dag_terminates. exact dia_dag_ok. Qed.

(** the well-formedness check does reject ill-formed descriptions: a wrong producer count,
    a channel nobody reads, a backward edge *)
Example bad_count : dag_okb {| d_n := 2; d_nc := 1;
    d_cfg := fun i => match i with 0 => {| r_kind := KSrc; r_outs := [(0, 0)]; r_douts := [] |}
                                 | _ => {| r_kind := KOp1 0 2; r_outs := []; r_douts := [] |} end;
    d_data := fun _ => []; d_cons := fun _ => 1; d_cap := fun _ => 1 |} = false.
Proof. vm_compute. reflexivity. Qed.

(** the main theorems depend on no axiom *)
Print Assumptions dag_safe.
Print Assumptions dag_no_deadlock.
Print Assumptions dag_terminates.
Print Assumptions dag_job_terminates.

(** Proofs about the single-input Start: equivalence with the ideal Start outside the
    known defect class (S1), refutation of the unconditional equivalence (S2),
    well-formedness of the output stream (S3) and watermark safety (S4). *)
From Noir Require Import Base.Elem Model.Start Proofs.StartSpec.
From Coq Require Import List ZArith Bool Lia Arith.
Import ListNotations.
Open Scope Z_scope.

(** * S2: the unconditional equivalence is false (defect F1) *)
Theorem start_ideal_refuted :
  exists (l : list (nat * elem Z)),
    arrivals_ok 2 l /\ run (start_machine Z 2) l <> run (ispec_machine Z 2) l.
Proof.
  exists [(0%nat, Wm 20); (1%nat, Wm 100); (0%nat, FAR); (1%nat, Tst 5 105); (1%nat, FAR)].
  split.
  - intros s e HIn. cbn [In] in HIn.
    repeat (destruct HIn as [HIn | HIn];
            [ inversion HIn; subst; clear HIn;
              (split; [lia | split; [intros t Ht; try discriminate Ht; inversion Ht; subst; vm_compute; reflexivity
                                    | discriminate]]) | ]).
    contradiction.
  - vm_compute. discriminate.
Qed.

Local Opaque TS_MAX.

(** * Generic list lemmas *)
Section ListLemmas.
  Context {X : Type}.

  Lemma set_nth_length : forall (i : nat) (v : X) l, length (set_nth i v l) = length l.
  Proof.
    induction i as [|i IH]; intros v [|x l]; cbn [set_nth length]; auto.
  Qed.

  Lemma nth_set_nth_eq : forall (i : nat) (v d : X) l, (i < length l)%nat -> nth i (set_nth i v l) d = v.
  Proof.
    induction i as [|i IH]; intros v d [|x l] Hlt; cbn [set_nth nth length] in *; try lia; auto.
    apply IH. lia.
  Qed.

  Lemma nth_set_nth_neq : forall (i j : nat) (v d : X) l, i <> j -> nth j (set_nth i v l) d = nth j l d.
  Proof.
    induction i as [|i IH]; intros j v d [|x l] Hne; cbn [set_nth]; auto.
    - destruct j; [lia | reflexivity].
    - destruct j; cbn [nth]; auto.
  Qed.

  Lemma set_nth_same : forall (i : nat) (v d : X) l, nth i l d = v -> (i < length l)%nat -> set_nth i v l = l.
  Proof.
    induction i as [|i IH]; intros v d [|x l] Hn Hlt; cbn [set_nth nth length] in *; try lia; auto.
    - now subst.
    - f_equal. apply (IH v d); auto. lia.
  Qed.

  Lemma map_const_repeat : forall {Y} (c : Y) (l : list X), map (fun _ => c) l = repeat c (length l).
  Proof.
    induction l as [|x l IH]; cbn [map repeat length]; congruence.
  Qed.

  Lemma Forall_nth_d : forall (P : X -> Prop) l d (i : nat), Forall P l -> P d -> P (nth i l d).
  Proof.
    intros P l d i HF Hd. revert i. induction HF as [|x l Hx HF IH]; intros [|i]; cbn [nth]; auto.
  Qed.

  Lemma Forall_set_nth : forall (P : X -> Prop) l (i : nat) v, Forall P l -> P v -> Forall P (set_nth i v l).
  Proof.
    intros P l i v HF Hv. revert i. induction HF as [|x l Hx HF IH]; intros [|i]; cbn [set_nth]; auto.
  Qed.
End ListLemmas.

(** * compute_frontier *)
Definition cstep : bool * option Z -> option Z -> bool * option Z :=
  fun '(all, mn) x => (all && match x with Some _ => true | None => false end, omin mn x).

Lemma compute_frontier_eq : forall m,
  compute_frontier m = let '(c, mn) := fold_left cstep m (true, None) in if c then mn else None.
Proof. reflexivity. Qed.

Lemma cstep_false : forall m mn, fst (fold_left cstep m (false, mn)) = false.
Proof.
  induction m as [|x m IH]; intros mn; cbn [fold_left cstep andb]; auto.
Qed.

Lemma compute_frontier_None_cons : forall m, compute_frontier (None :: m) = None.
Proof.
  intros m. rewrite compute_frontier_eq. cbn [fold_left cstep andb].
  pose proof (cstep_false m (omin None None)) as Hf.
  destruct (fold_left cstep m (false, omin None None)) as [c mn]. cbn [fst] in Hf. now subst.
Qed.

Lemma compute_frontier_repeat_None : forall n, (1 <= n)%nat -> compute_frontier (repeat None n) = None.
Proof.
  intros [|n] Hn; [lia|]. cbn [repeat]. apply compute_frontier_None_cons.
Qed.

(** [lower_bound]: characterisation used for monotonicity (S4) *)
Definition all_ge (f : Z) (m : list (option Z)) : Prop :=
  Forall (fun o => match o with Some x => f <= x | None => False end) m.

Lemma cstep_fold_char : forall m c mn,
  let '(c', mn') := fold_left cstep m (c, mn) in
  (c' = true ->
     c = true /\
     (forall f, mn' = Some f -> all_ge f m /\ (match mn with Some a => f <= a | None => True end)
                /\ (mn = Some f \/ In (Some f) m)) /\
     (mn' = None -> mn = None /\ m = [])).
Proof.
  induction m as [|x m IH]; intros c mn; cbn [fold_left].
  - intros Hc. split; auto. split.
    + intros f Hf. subst. split; [constructor|]. split; [lia | now left].
    + auto.
  - specialize (IH (fst (cstep (c, mn) x)) (snd (cstep (c, mn) x))).
    rewrite <- surjective_pairing in IH.
    destruct (fold_left cstep m (cstep (c, mn) x)) as [c' mn'].
    intros Hc'. specialize (IH Hc'). destruct IH as [Hc1 [Hsome Hnone]].
    cbn [cstep fst snd] in *.
    apply andb_true_iff in Hc1. destruct Hc1 as [Hc Hx].
    destruct x as [x|]; [|discriminate]. split; auto. split.
    + intros f Hf. specialize (Hsome f Hf). destruct Hsome as [Hge [Hle Hin]].
      destruct mn as [a|]; cbn [omin] in *.
      * split; [constructor; [lia|auto]|]. split; [lia|].
        destruct Hin as [Hin|Hin].
        -- inversion Hin. destruct (Z.min_spec a x) as [[_ Hm]|[_ Hm]]; rewrite Hm; [now left | right; now left].
        -- right; now right.
      * split; [constructor; [lia|auto]|]. split; [exact I|].
        destruct Hin as [Hin|Hin]; [inversion Hin; right; now left | right; now right].
    + intros Hn. specialize (Hnone Hn). destruct Hnone as [Hmn _].
      destruct mn; discriminate.
Qed.

Lemma compute_frontier_some : forall m f, compute_frontier m = Some f -> all_ge f m /\ In (Some f) m.
Proof.
  intros m f H. rewrite compute_frontier_eq in H.
  pose proof (cstep_fold_char m true None) as Hc.
  destruct (fold_left cstep m (true, None)) as [c mn].
  destruct c; [|discriminate]. subst mn.
  destruct (Hc eq_refl) as [_ [Hs _]]. destruct (Hs f eq_refl) as [Hge [_ Hin]].
  split; auto. destruct Hin as [Hin|Hin]; [discriminate|auto].
Qed.

Lemma cstep_fold_all_some : forall m c mn,
  Forall (fun o => o <> None) m -> fst (fold_left cstep m (c, mn)) = c.
Proof.
  induction m as [|x m IH]; intros c mn HF; cbn [fold_left]; auto.
  inversion HF as [|? ? Hx HF']; subst. destruct x as [x|]; [|congruence].
  cbn [cstep]. rewrite IH; auto. apply andb_true_r.
Qed.

Lemma cstep_fold_snd_some : forall m c a, exists b, snd (fold_left cstep m (c, Some a)) = Some b.
Proof.
  induction m as [|x m IH]; intros c a; cbn [fold_left].
  - now exists a.
  - destruct x as [x|]; cbn [cstep omin]; apply IH.
Qed.

(** all entries reported and at least one entry: the frontier exists *)
Lemma compute_frontier_all_some : forall m,
  m <> [] -> Forall (fun o => o <> None) m -> exists f, compute_frontier m = Some f.
Proof.
  intros m Hne HF. rewrite compute_frontier_eq.
  pose proof (cstep_fold_all_some m true None HF) as Hc.
  destruct m as [|x m]; [congruence|].
  inversion HF as [|? ? Hx HF']; subst. destruct x as [x|]; [|congruence].
  cbn [fold_left cstep omin andb] in *.
  destruct (cstep_fold_snd_some m true x) as [b Hb].
  destruct (fold_left cstep m (true, Some x)) as [c mn]. cbn [fst snd] in *. subst. now exists b.
Qed.

(** * frontier_update *)
Definition upd_out (x y : option Z) : option Z :=
  match x, y with
  | None, Some n => Some n
  | Some o, Some n => if Z.eqb o n then None else Some n
  | _, _ => None
  end.

Lemma frontier_update_spec : forall f s ts,
  (frontier_update f s ts = (f, None) /\ exists t0, nth s (fmap f) None = Some t0 /\ ts <= t0)
  \/
  (frontier_update f s ts =
     ({| fmap := set_nth s (Some ts) (fmap f); ffront := compute_frontier (set_nth s (Some ts) (fmap f)) |},
      upd_out (ffront f) (compute_frontier (set_nth s (Some ts) (fmap f))))
   /\ forall t0, nth s (fmap f) None = Some t0 -> t0 < ts).
Proof.
  intros f s ts. unfold frontier_update, upd_out.
  destruct (nth s (fmap f) None) as [t0|] eqn:Hn.
  - destruct (ts <=? t0) eqn:Hle.
    + left. split; auto. exists t0. split; auto. apply Z.leb_le; auto.
    + right. split; auto. intros t1 Ht1. inversion Ht1; subst. apply Z.leb_gt; auto.
  - right. split; auto. intros t1 Ht1. discriminate.
Qed.

(** * The frontier map as a function of the abstract view *)
Fixpoint fv (lat : list (option Z)) (en : list bool) : list (option Z) :=
  match lat, en with
  | l :: lat', e :: en' => (if e then Some TS_MAX else l) :: fv lat' en'
  | _, _ => []
  end.

Lemma fv_length : forall lat en, length lat = length en -> length (fv lat en) = length lat.
Proof.
  induction lat as [|l lat IH]; intros [|e en] H; cbn [fv length] in *; try lia.
  rewrite IH; lia.
Qed.

Lemma nth_fv : forall lat en (s : nat), (s < length lat)%nat -> length lat = length en ->
  nth s (fv lat en) None = if nth s en false then Some TS_MAX else nth s lat None.
Proof.
  induction lat as [|l lat IH]; intros [|e en] s Hs H; cbn [fv length] in *; try lia.
  destruct s as [|s]; cbn [nth]; auto. apply IH; lia.
Qed.

Lemma fv_set_lat_active : forall lat en (s : nat) x, nth s en false = false ->
  set_nth s x (fv lat en) = fv (set_nth s x lat) en.
Proof.
  induction lat as [|l lat IH]; intros [|e en] s x H; destruct s as [|s]; cbn [fv set_nth nth] in *; auto.
  - now subst.
  - f_equal. apply IH; auto.
Qed.

Lemma fv_set_lat_ended : forall lat en (s : nat) x, nth s en false = true ->
  fv (set_nth s x lat) en = fv lat en.
Proof.
  induction lat as [|l lat IH]; intros [|e en] s x H; destruct s as [|s]; cbn [fv set_nth nth] in *; auto.
  - now subst.
  - f_equal. apply IH; auto.
Qed.

Lemma fv_set_en : forall lat en (s : nat),
  set_nth s (Some TS_MAX) (fv lat en) = fv lat (set_nth s true en).
Proof.
  induction lat as [|l lat IH]; intros [|e en] s; destruct s as [|s]; cbn [fv set_nth]; auto.
  f_equal. apply IH.
Qed.

Lemma fv_init : forall n, fv (repeat None n) (repeat false n) = repeat None n.
Proof.
  induction n as [|n IH]; cbn [repeat fv]; congruence.
Qed.

(** * active_min versus compute_frontier *)
Definition ltmax (o : option Z) : Prop := match o with Some t => t < TS_MAX | None => True end.

Definition accrel (p : bool * option Z) (acc : option (option Z)) : Prop :=
  match acc with
  | None => fst p = true /\ (snd p = None \/ snd p = Some TS_MAX)
  | Some None => fst p = false
  | Some (Some m) => fst p = true /\ snd p = Some m /\ m < TS_MAX
  end.

Lemma cf_aux : forall lat en p acc,
  length lat = length en -> Forall ltmax lat -> accrel p acc ->
  accrel (fold_left cstep (fv lat en) p) (active_min_aux lat en acc).
Proof.
  induction lat as [|l lat IH]; intros [|e en] p acc Hlen HF Hacc; cbn [fv fold_left active_min_aux length] in *;
    try lia; auto.
  inversion HF as [|? ? Hl HF']; subst.
  destruct p as [c mn]. cbn [cstep].
  destruct e.
  - apply IH; [lia | assumption | ].
    destruct acc as [[m|]|]; cbn [accrel fst snd] in *.
    + destruct Hacc as [Hc [Hm Hlt]]. subst. cbn [omin andb]. repeat split; auto; try (f_equal; lia).
    + subst. reflexivity.
    + destruct Hacc as [Hc [Hm|Hm]]; subst; cbn [omin andb]; split; auto;
        try (right; f_equal; lia).
  - destruct l as [t|]; cbn [ltmax] in Hl.
    + destruct acc as [[m|]|]; (apply IH; [lia | assumption | ]); cbn [accrel fst snd] in *.
      * destruct Hacc as [Hc [Hm Hlt]]. subst. cbn [omin andb]. repeat split; auto; try (f_equal; lia); try lia.
      * subst. reflexivity.
      * destruct Hacc as [Hc [Hm|Hm]]; subst; cbn [omin andb]; repeat split; auto;
          try (f_equal; lia).
    + assert (Hgoal : accrel (c && false, omin mn None) (Some None)).
      { cbn [accrel fst]. apply andb_false_r. }
      destruct acc as [[m|]|]; (apply IH; [lia | assumption | exact Hgoal]).
Qed.

Lemma am_acc_some : forall lat en acc, acc <> None -> active_min_aux lat en acc <> None.
Proof.
  induction lat as [|l lat IH]; intros [|e en] acc Hacc; cbn [active_min_aux]; auto.
  destruct e; auto.
  destruct acc as [[m|]|], l as [t|]; try congruence; apply IH; discriminate.
Qed.

Lemma am_active : forall lat en (s : nat) acc,
  (s < length lat)%nat -> length lat = length en -> nth s en false = false ->
  active_min_aux lat en acc <> None.
Proof.
  induction lat as [|l lat IH]; intros [|e en] s acc Hs Hlen Hn; cbn [length] in *; try lia.
  destruct s as [|s]; cbn [nth] in Hn.
  - subst e. cbn [active_min_aux].
    destruct acc as [[m|]|], l as [t|]; apply am_acc_some; discriminate.
  - cbn [active_min_aux]. destruct e.
    + apply (IH en s); auto; lia.
    + destruct acc as [[m|]|], l as [t|]; apply am_acc_some; discriminate.
Qed.

Lemma am_set_ended : forall lat en (s : nat) x acc, nth s en false = true ->
  active_min_aux (set_nth s x lat) en acc = active_min_aux lat en acc.
Proof.
  induction lat as [|l lat IH]; intros [|e en] s x acc H; destruct s as [|s];
    cbn [active_min_aux set_nth nth] in *; auto; try discriminate.
  - now subst.
  - destruct e; [apply IH; auto|].
    destruct acc as [[m|]|], l as [t|]; apply IH; auto.
Qed.

Lemma cf_eq_active : forall lat en (s : nat),
  (s < length lat)%nat -> length lat = length en -> Forall ltmax lat -> nth s en false = false ->
  compute_frontier (fv lat en) = active_min {| a_lat := lat; a_ended := en |}.
Proof.
  intros lat en s Hs Hlen HF Hn. unfold active_min. cbn [a_lat a_ended].
  pose proof (am_active lat en s None Hs Hlen Hn) as Hne.
  pose proof (cf_aux lat en (true, None) None Hlen HF) as Hc.
  rewrite compute_frontier_eq.
  destruct (fold_left cstep (fv lat en) (true, None)) as [c mn].
  destruct (active_min_aux lat en None) as [[m|]|]; [| |congruence].
  - destruct Hc as [Hc [Hm _]]; [cbn; auto|]. cbn [fst snd] in *. now subst.
  - cbn [accrel fst] in Hc. rewrite Hc; [reflexivity | cbn; auto].
Qed.

(** * S1: simulation between the real Start and the ideal Start *)
Definition isWm {A} (e : elem A) : bool := match e with Wm _ => true | _ => false end.

Definition wm_of {A} (before after : option Z) : list (elem A) :=
  match before, after with
  | None, Some m => [Wm m]
  | Some a, Some m => if Z.eqb a m then [] else [Wm m]
  | _, None => []
  end.

Lemma wm_of_same : forall A x, @wm_of A x x = [].
Proof. intros A [x|]; cbn [wm_of]; auto. now rewrite Z.eqb_refl. Qed.

Lemma wm_of_upd_out : forall A x y,
  match upd_out x y with Some t' => [@Wm A t'] | None => [] end = wm_of x y.
Proof.
  intros A [x|] [y|]; cbn [upd_out wm_of]; auto. destruct (x =? y); auto.
Qed.

Lemma ispec_step_unfold : forall A (st : ispec) s (e : elem A),
  i_done st = false ->
  ispec_step st (s, e) =
  let v1 := match e with
            | FAR => {| a_lat := a_lat (i_view st); a_ended := set_nth s true (a_ended (i_view st)) |}
            | _ => aview_step (i_view st) (s, e)
            end in
  let wm := wm_of (active_min (i_view st)) (active_min v1) in
  match e with
  | Wm _ => ({| i_view := v1; i_mterm := i_mterm st; i_mfar := i_mfar st; i_n := i_n st; i_done := false |}, wm)
  | FAR =>
      let mfar := pred (i_mfar st) in
      if Nat.eqb mfar 0 then
        ({| i_view := aview_init (i_n st); i_mterm := i_mterm st; i_mfar := i_n st; i_n := i_n st; i_done := false |},
         wm ++ [FAR])
      else ({| i_view := v1; i_mterm := i_mterm st; i_mfar := mfar; i_n := i_n st; i_done := false |}, wm)
  | Terminate =>
      let mt := pred (i_mterm st) in
      if Nat.eqb mt 0 then
        ({| i_view := i_view st; i_mterm := 0; i_mfar := i_mfar st; i_n := i_n st; i_done := true |}, [Terminate])
      else ({| i_view := i_view st; i_mterm := mt; i_mfar := i_mfar st; i_n := i_n st; i_done := false |}, [])
  | _ => (st, [e])
  end.
Proof.
  intros A st s e Hd. unfold ispec_step. rewrite Hd. reflexivity.
Qed.

Record R (n : nat) (a : sstate) (b : ispec) : Prop := mkR {
  R_n : s_n a = n;
  R_in : i_n b = n;
  R_mterm : s_mterm a = i_mterm b;
  R_mt1 : (1 <= s_mterm a)%nat;
  R_mfar : s_mfar a = i_mfar b;
  R_mf1 : (1 <= s_mfar a)%nat;
  R_done : s_done a = false;
  R_idone : i_done b = false;
  R_llat : length (a_lat (i_view b)) = n;
  R_len : length (a_ended (i_view b)) = n;
  R_lt : Forall ltmax (a_lat (i_view b));
  R_fmap : fmap (s_front a) = fv (a_lat (i_view b)) (a_ended (i_view b));
  R_ff : ffront (s_front a) = compute_frontier (fmap (s_front a))
}.

Lemma R_init : forall n, (1 <= n)%nat -> R n (start_init n) (ispec_init n).
Proof.
  intros n Hn. constructor; cbn; auto.
  - apply repeat_length.
  - apply repeat_length.
  - apply Forall_forall. intros x Hx. apply repeat_spec in Hx. subst. exact I.
  - symmetry. apply fv_init.
  - symmetry. apply compute_frontier_repeat_None; auto.
Qed.

Lemma start_done_run : forall A n l a, s_done a = true ->
  run_from (start_machine A n) a l = (a, []).
Proof.
  intros A n. induction l as [|x l IH]; intros a Hd; cbn [run_from]; auto.
  cbn [mstep start_machine]. unfold start_step. rewrite Hd. rewrite IH; auto.
Qed.

Lemma ispec_done_run : forall A n l b, i_done b = true ->
  run_from (ispec_machine A n) b l = (b, []).
Proof.
  intros A n. induction l as [|x l IH]; intros b Hd; cbn [run_from]; auto.
  cbn [mstep ispec_machine]. unfold ispec_step. rewrite Hd. rewrite IH; auto.
Qed.

Lemma ltmax_omaxz : forall o t, ltmax o -> t < TS_MAX -> ltmax (omaxz o t).
Proof. intros [x|] t Ho Ht; cbn [omaxz ltmax] in *; lia. Qed.

Lemma sim_step_wm : forall A n a b (s : nat) t,
  R n a b -> (s < n)%nat -> t < TS_MAX ->
  exists a' b' o, @start_step A a (s, Wm t) = (a', o) /\ ispec_step b (s, Wm t) = (b', o) /\ R n a' b'.
Proof.
  intros A n a b s t HR Hs Ht.
  destruct a as [sn smt smf [fm ff] sd], b as [[lat en] imt imf inn idn].
  destruct HR as [Hn Hin Hmt Hmt1 Hmf Hmf1 Hd Hid Hllat Hlen Hlt Hfm Hff].
  cbn [s_n s_mterm s_mfar s_front s_done i_view i_mterm i_mfar i_n i_done a_lat a_ended fmap ffront] in *.
  subst sn inn smt smf sd idn fm.
  rewrite ispec_step_unfold by reflexivity.
  cbn [aview_step i_view i_mterm i_mfar i_n a_lat a_ended].
  unfold start_step. cbn [s_done s_front s_n s_mterm s_mfar].
  assert (Hnth : nth s (fv lat en) None = if nth s en false then Some TS_MAX else nth s lat None).
  { apply nth_fv; lia. }
  destruct (frontier_update_spec {| fmap := fv lat en; ffront := ff |} s t) as [[Hu [t0 [Hn0 Hle]]] | [Hu Hgt]];
    rewrite Hu; cbn [fmap ffront] in *; rewrite Hnth in *.
  - (* the real frontier ignores the watermark *)
    destruct (nth s en false) eqn:Hen.
    + (* sender already ended *)
      do 3 eexists. split; [reflexivity|]. split.
      * f_equal. unfold active_min. cbn [a_lat a_ended]. rewrite am_set_ended by auto.
        apply wm_of_same.
      * constructor; cbn [s_n s_mterm s_mfar s_front s_done i_view i_mterm i_mfar i_n i_done a_lat a_ended fmap ffront]; auto.
        -- rewrite set_nth_length; auto.
        -- apply Forall_set_nth; auto. apply ltmax_omaxz; auto. apply Forall_nth_d; auto. exact I.
        -- rewrite fv_set_lat_ended; auto.
    + rewrite Hn0. cbn [omaxz]. replace (Z.max t0 t) with t0 by lia.
      rewrite (set_nth_same s (Some t0) None lat) by (auto; lia).
      do 3 eexists. split; [reflexivity|]. split.
      * f_equal. apply wm_of_same.
      * constructor; cbn [s_n s_mterm s_mfar s_front s_done i_view i_mterm i_mfar i_n i_done a_lat a_ended fmap ffront]; auto.
  - (* the real frontier records the watermark *)
    destruct (nth s en false) eqn:Hen.
    + specialize (Hgt TS_MAX eq_refl). lia.
    + assert (Hom : omaxz (nth s lat None) t = Some t).
      { destruct (nth s lat None) as [t0|]; cbn [omaxz]; auto.
        specialize (Hgt t0 eq_refl). f_equal. lia. }
      rewrite Hom.
      assert (HF' : Forall ltmax (set_nth s (Some t) lat)).
      { apply Forall_set_nth; auto. }
      rewrite fv_set_lat_active by auto.
      rewrite Hff.
      rewrite (cf_eq_active lat en s) by (auto; lia).
      rewrite (cf_eq_active (set_nth s (Some t) lat) en s) by (auto; rewrite ?set_nth_length; lia).
      rewrite wm_of_upd_out.
      do 3 eexists. split; [reflexivity|]. split; [reflexivity|].
      constructor; cbn [s_n s_mterm s_mfar s_front s_done i_view i_mterm i_mfar i_n i_done a_lat a_ended fmap ffront]; auto.
      * rewrite set_nth_length; auto.
      * rewrite (cf_eq_active (set_nth s (Some t) lat) en s) by (auto; rewrite ?set_nth_length; lia).
        reflexivity.
Qed.

Lemma wm_of_nowm : forall A x y, existsb isWm (@wm_of A x y) = false -> @wm_of A x y = [].
Proof.
  intros A [x|] [y|]; cbn [wm_of]; auto.
  - destruct (x =? y); auto. cbn. discriminate.
  - cbn. discriminate.
Qed.

Lemma far_update_R : forall lat en ff (s : nat) n,
  length lat = n -> length en = n -> (s < n)%nat -> Forall ltmax lat ->
  ff = compute_frontier (fv lat en) ->
  exists f' o', frontier_update {| fmap := fv lat en; ffront := ff |} s TS_MAX = (f', o') /\
    fmap f' = fv lat (set_nth s true en) /\ ffront f' = compute_frontier (fmap f').
Proof.
  intros lat en ff s n Hllat Hlen Hs Hlt Hff.
  assert (Hnth : nth s (fv lat en) None = if nth s en false then Some TS_MAX else nth s lat None).
  { apply nth_fv; lia. }
  destruct (frontier_update_spec {| fmap := fv lat en; ffront := ff |} s TS_MAX) as [[Hu [t0 [Hn0 Hle]]] | [Hu Hgt]];
    rewrite Hu; cbn [fmap ffront] in *; rewrite Hnth in *.
  - do 2 eexists. split; [reflexivity|]. cbn [fmap ffront]. split; auto.
    destruct (nth s en false) eqn:Hen.
    + rewrite (set_nth_same s true false en); auto; lia.
    + pose proof (Forall_nth_d ltmax lat None s Hlt I) as Hl. rewrite Hn0 in Hl. cbn [ltmax] in Hl. lia.
  - do 2 eexists. split; [reflexivity|]. cbn [fmap ffront]. split; auto.
    apply fv_set_en.
Qed.

Lemma sim_step_far : forall A n a b (s : nat),
  (1 <= n)%nat -> R n a b -> (s < n)%nat ->
  existsb isWm (snd (@ispec_step A b (s, FAR))) = false ->
  exists a' b' o, @start_step A a (s, FAR) = (a', o) /\ ispec_step b (s, FAR) = (b', o) /\ R n a' b'.
Proof.
  intros A n a b s Hn1 HR Hs.
  destruct a as [sn smt smf [fm ff] sd], b as [[lat en] imt imf inn idn].
  destruct HR as [Hn Hin Hmt Hmt1 Hmf Hmf1 Hd Hid Hllat Hlen Hlt Hfm Hff].
  cbn [s_n s_mterm s_mfar s_front s_done i_view i_mterm i_mfar i_n i_done a_lat a_ended fmap ffront] in *.
  subst sn inn smt smf sd idn fm.
  rewrite ispec_step_unfold by reflexivity.
  cbn [i_view i_mterm i_mfar i_n a_lat a_ended].
  unfold start_step. cbn [s_done s_front s_n s_mterm s_mfar].
  destruct (far_update_R lat en ff s n Hllat Hlen Hs Hlt Hff) as [f' [o' [Hu [Hfm' Hff']]]].
  rewrite Hu. unfold settle. cbn [s_n s_mterm s_mfar s_front s_done].
  assert (Himt : Nat.eqb imt 0 = false) by (apply Nat.eqb_neq; lia).
  rewrite Himt.
  set (wm := wm_of _ _).
  destruct (Nat.eqb (pred imf) 0) eqn:Hmf0; cbn [snd]; intros Hex.
  - rewrite existsb_app in Hex. apply orb_false_iff in Hex. destruct Hex as [Hex _].
    apply wm_of_nowm in Hex. fold wm in Hex. rewrite Hex. cbn [app].
    do 3 eexists. split; [reflexivity|]. split; [reflexivity|].
    constructor; cbn [s_n s_mterm s_mfar s_front s_done i_view i_mterm i_mfar i_n i_done a_lat a_ended fmap ffront
                      frontier_reset aview_init]; auto.
    + apply repeat_length.
    + apply repeat_length.
    + apply Forall_forall. intros x Hx. apply repeat_spec in Hx. subst. exact I.
    + rewrite map_const_repeat. rewrite Hfm', fv_length by (rewrite set_nth_length; lia).
      rewrite Hllat. symmetry. apply fv_init.
    + rewrite map_const_repeat. rewrite Hfm', fv_length by (rewrite set_nth_length; lia).
      rewrite Hllat. symmetry. apply compute_frontier_repeat_None; auto.
  - apply wm_of_nowm in Hex. fold wm in Hex. rewrite Hex.
    apply Nat.eqb_neq in Hmf0.
    do 3 eexists. split; [reflexivity|]. split; [reflexivity|].
    constructor; cbn [s_n s_mterm s_mfar s_front s_done i_view i_mterm i_mfar i_n i_done a_lat a_ended fmap ffront]; auto.
    + lia.
    + rewrite set_nth_length; auto.
Qed.

Lemma sim_step_term : forall A n a b (s : nat),
  R n a b ->
  exists a' b' o, @start_step A a (s, Terminate) = (a', o) /\ ispec_step b (s, Terminate) = (b', o) /\
    (R n a' b' \/ (s_done a' = true /\ i_done b' = true)).
Proof.
  intros A n a b s HR.
  destruct a as [sn smt smf [fm ff] sd], b as [[lat en] imt imf inn idn].
  destruct HR as [Hn Hin Hmt Hmt1 Hmf Hmf1 Hd Hid Hllat Hlen Hlt Hfm Hff].
  cbn [s_n s_mterm s_mfar s_front s_done i_view i_mterm i_mfar i_n i_done a_lat a_ended fmap ffront] in *.
  subst sn inn smt smf sd idn fm.
  rewrite ispec_step_unfold by reflexivity.
  cbn [i_view i_mterm i_mfar i_n a_lat a_ended].
  unfold start_step. cbn [s_done s_front s_n s_mterm s_mfar].
  unfold settle. cbn [s_n s_mterm s_mfar s_front s_done].
  destruct (Nat.eqb (pred imt) 0) eqn:Hmt0.
  - do 3 eexists. split; [reflexivity|]. split; [reflexivity|]. right. split; reflexivity.
  - assert (Himf : Nat.eqb imf 0 = false) by (apply Nat.eqb_neq; lia).
    rewrite Himf. apply Nat.eqb_neq in Hmt0.
    do 3 eexists. split; [reflexivity|]. split; [reflexivity|]. left.
    constructor; cbn [s_n s_mterm s_mfar s_front s_done i_view i_mterm i_mfar i_n i_done a_lat a_ended fmap ffront]; auto.
    lia.
Qed.

Lemma sim_run : forall A n (l : list (nat * elem A)) a b,
  (1 <= n)%nat -> R n a b -> arrivals_ok n l -> far_raises_min_from b l = false ->
  snd (run_from (start_machine A n) a l) = snd (run_from (ispec_machine A n) b l).
Proof.
  intros A n. induction l as [|[s e] l IH]; intros a b Hn HR Hok Hfar; [reflexivity|].
  assert (Hok' : arrivals_ok n l).
  { intros s' e' Hin. apply Hok. now right. }
  destruct (Hok s e (or_introl eq_refl)) as [Hs [Hwm _]].
  cbn [run_from]. cbn [mstep start_machine ispec_machine].
  cbn [far_raises_min_from snd] in Hfar.
  assert (Hstep : exists a' b' o, start_step a (s, e) = (a', o) /\ ispec_step b (s, e) = (b', o) /\
            (R n a' b' \/ (s_done a' = true /\ i_done b' = true))).
  { destruct e as [v|v t|t| | |].
    - exists a, b, [Item v]. unfold start_step, ispec_step. rewrite (R_done _ _ _ HR), (R_idone _ _ _ HR). auto.
    - exists a, b, [Tst v t]. unfold start_step, ispec_step. rewrite (R_done _ _ _ HR), (R_idone _ _ _ HR). auto.
    - destruct (sim_step_wm A n a b s t HR Hs (Hwm t eq_refl)) as [a' [b' [o [H1 [H2 H3]]]]].
      exists a', b', o. auto.
    - exists a, b, [FlushBatch]. unfold start_step, ispec_step. rewrite (R_done _ _ _ HR), (R_idone _ _ _ HR). auto.
    - apply sim_step_term; auto.
    - destruct (sim_step_far A n a b s Hn HR Hs) as [a' [b' [o [H1 [H2 H3]]]]].
      { destruct (ispec_step b (s, FAR)) as [b1 o1]. cbn [snd].
        apply orb_false_iff in Hfar. destruct Hfar as [Hfar _]. exact Hfar. }
      exists a', b', o. auto. }
  destruct Hstep as [a' [b' [o [H1 [H2 H3]]]]].
  rewrite H1. rewrite H2 in *.
  assert (Hfar' : far_raises_min_from b' l = false).
  { destruct e; auto. apply orb_false_iff in Hfar. destruct Hfar as [_ Hfar]. exact Hfar. }
  destruct H3 as [HR' | [Hd1 Hd2]].
  - specialize (IH a' b' Hn HR' Hok' Hfar').
    destruct (run_from (start_machine A n) a' l) as [a2 o2].
    destruct (run_from (ispec_machine A n) b' l) as [b2 o2'].
    cbn [snd] in *. now subst.
  - rewrite start_done_run by auto. rewrite ispec_done_run by auto. reflexivity.
Qed.

Theorem start_eq_ideal : forall (A : Type) (n : nat) (l : list (nat * elem A)),
  (1 <= n)%nat -> arrivals_ok n l -> far_raises_min n l = false ->
  run (start_machine A n) l = run (ispec_machine A n) l.
Proof.
  intros A n l Hn Hok Hfar. unfold run. cbn [minit start_machine ispec_machine].
  apply sim_run; auto. apply R_init; auto.
Qed.

(** * Shared infrastructure for S3 / S4: round bookkeeping *)
Fixpoint count_false (l : list bool) : nat :=
  match l with
  | [] => 0
  | b :: l' => (if b then 0 else 1) + count_false l'
  end.

Lemma count_false_repeat : forall n, count_false (repeat false n) = n.
Proof. induction n as [|n IH]; cbn [repeat count_false]; lia. Qed.

Lemma count_false_set : forall l (s : nat), (s < length l)%nat -> nth s l false = false ->
  count_false l = S (count_false (set_nth s true l)).
Proof.
  induction l as [|b l IH]; intros s Hs Hn; cbn [length] in *; [lia|].
  destruct s as [|s]; cbn [nth set_nth count_false] in *.
  - subst. reflexivity.
  - rewrite (IH s) by (auto; lia). destruct b; lia.
Qed.

Lemma count_false_zero : forall l, count_false l = 0%nat -> forall s : nat, (s < length l)%nat -> nth s l false = true.
Proof.
  induction l as [|b l IH]; intros H s Hs; cbn [length count_false] in *; [lia|].
  destruct b; [|lia]. destruct s as [|s]; cbn [nth]; auto. apply IH; lia.
Qed.

Lemma count_false_zero_forallb : forall l, count_false l = 0%nat <-> forallb (fun b => b) l = true.
Proof.
  induction l as [|b l IH]; cbn [count_false forallb]; [tauto|].
  destruct b; cbn [andb]; [rewrite <- IH; lia | split; [lia | discriminate]].
Qed.

Lemma count_false_pos : forall l, (1 <= count_false l)%nat ->
  exists s : nat, (s < length l)%nat /\ nth s l false = false.
Proof.
  induction l as [|b l IH]; intros H; cbn [count_false length] in *; [lia|].
  destruct b.
  - destruct IH as [s [Hs Hn]]; [lia|]. exists (S s). split; [lia | exact Hn].
  - exists 0%nat. split; [lia | reflexivity].
Qed.

Definition cnt_of (r : nat) (en : list bool) : list nat := map (fun b : bool => if b then S r else r) en.

Lemma nth_cnt_of : forall r en (s : nat), (s < length en)%nat ->
  nth s (cnt_of r en) 0%nat = if nth s en false then S r else r.
Proof.
  intros r en s Hs. unfold cnt_of.
  rewrite (nth_indep _ 0%nat ((fun b : bool => if b then S r else r) false)) by (rewrite map_length; auto).
  apply (map_nth (fun b : bool => if b then S r else r) en false s).
Qed.

Lemma map_set_nth : forall {X Y} (f : X -> Y) l (s : nat) v, set_nth s (f v) (map f l) = map f (set_nth s v l).
Proof.
  induction l as [|x l IH]; intros [|s] v; cbn [map set_nth]; auto. f_equal. apply IH.
Qed.

Lemma cnt_of_set : forall r en (s : nat), (s < length en)%nat -> nth s en false = false ->
  set_nth s (S (nth s (cnt_of r en) 0%nat)) (cnt_of r en) = cnt_of r (set_nth s true en).
Proof.
  intros r en s Hs Hn. rewrite nth_cnt_of by auto. rewrite Hn. unfold cnt_of.
  apply (map_set_nth (fun b : bool => if b then S r else r) en s true).
Qed.

Lemma cnt_of_forallb : forall r en,
  forallb (fun c => Nat.eqb c (S r)) (cnt_of r en) = forallb (fun b => b) en.
Proof.
  intros r. induction en as [|b en IH]; cbn [cnt_of map forallb]; auto.
  fold (cnt_of r en). rewrite IH. destruct b.
  - rewrite Nat.eqb_refl. reflexivity.
  - replace (Nat.eqb r (S r)) with false; auto. symmetry. apply Nat.eqb_neq. lia.
Qed.

Lemma cnt_of_all_ended : forall r en, forallb (fun b => b) en = true ->
  cnt_of r en = cnt_of (S r) (repeat false (length en)).
Proof.
  intros r. induction en as [|b en IH]; intros H; cbn [cnt_of map forallb length repeat] in *; auto.
  apply andb_true_iff in H. destruct H as [Hb H]. subst b. f_equal. apply IH; auto.
Qed.

Lemma cnt_of_active : forall r en (s : nat), (s < length en)%nat ->
  Nat.eqb (nth s (cnt_of r en) 0%nat) r = true -> nth s en false = false.
Proof.
  intros r en s Hs H. rewrite nth_cnt_of in H by auto.
  destruct (nth s en false); auto. apply Nat.eqb_eq in H. lia.
Qed.

Lemma from_sender_cons : forall A (s s' : nat) (e : elem A) l,
  from_sender s' ((s, e) :: l) = if Nat.eqb s s' then e :: from_sender s' l else from_sender s' l.
Proof.
  intros A s s' e l. unfold from_sender. cbn [filter fst]. destruct (Nat.eqb s s'); reflexivity.
Qed.

Definition plain {A} (e : elem A) : bool := match e with FAR | Terminate => false | _ => true end.

Lemma wf_from_plain : forall A b (x : elem A) l, plain x = true -> wf_from b (x :: l) = wf_from false l.
Proof. intros A b [v|v t|t| | |] l H; try discriminate H; reflexivity. Qed.

Lemma fars_plain : forall A (x : elem A) l, plain x = true -> fars (x :: l) = fars l.
Proof. intros A [v|v t|t| | |] l H; try discriminate H; reflexivity. Qed.

Lemma round_sync_plain : forall A n r cnt (s : nat) (e : elem A) l, plain e = true ->
  round_sync_from n r cnt ((s, e) :: l) = Nat.eqb (nth s cnt 0%nat) r && round_sync_from n r cnt l.
Proof. intros A n r cnt s [v|v t|t| | |] l H; try discriminate H; reflexivity. Qed.

Lemma wf_from_fars : forall A (l : list (elem A)) b, wf_from b l = true -> b = true \/ (1 <= fars l)%nat.
Proof.
  intros A. induction l as [|x l IH]; intros b H; cbn [wf_from] in H; [discriminate|].
  destruct x as [v|v t|t| | |].
  - right. rewrite fars_plain by reflexivity. destruct (IH false H) as [Hf|Hf]; [discriminate|auto].
  - right. rewrite fars_plain by reflexivity. destruct (IH false H) as [Hf|Hf]; [discriminate|auto].
  - right. rewrite fars_plain by reflexivity. destruct (IH false H) as [Hf|Hf]; [discriminate|auto].
  - right. rewrite fars_plain by reflexivity. destruct (IH false H) as [Hf|Hf]; [discriminate|auto].
  - left. apply andb_true_iff in H. tauto.
  - right. unfold fars. cbn [filter length]. lia.
Qed.

Lemma start_step_plain : forall A (a : sstate) (s : nat) (e : elem A),
  plain e = true -> s_done a = false ->
  exists f' o, start_step a (s, e) =
    ({| s_n := s_n a; s_mterm := s_mterm a; s_mfar := s_mfar a; s_front := f'; s_done := false |}, o)
    /\ (o = [] \/ exists x, o = [x] /\ plain x = true).
Proof.
  intros A a s e Hp Hd. unfold start_step. rewrite Hd.
  destruct a as [sn mt mf f d]. cbn [s_done s_n s_mterm s_mfar s_front] in *. subst d.
  destruct e as [v|v t|t| | |]; try discriminate Hp.
  - do 2 eexists. split; [reflexivity|]. right. eexists. split; reflexivity.
  - do 2 eexists. split; [reflexivity|]. right. eexists. split; reflexivity.
  - destruct (frontier_update f s t) as [f' [w|]].
    + do 2 eexists. split; [reflexivity|]. right. eexists. split; reflexivity.
    + do 2 eexists. split; [reflexivity|]. left. reflexivity.
  - do 2 eexists. split; [reflexivity|]. right. eexists. split; reflexivity.
Qed.

(** * S3: the output stream is well formed *)
Lemma wf_run : forall A n K (l : list (nat * elem A)) a r en tm (bS : nat -> bool) b,
  (1 <= n)%nat ->
  s_n a = n -> s_done a = false ->
  length en = n -> s_mfar a = count_false en -> (1 <= s_mfar a)%nat ->
  length tm = n -> s_mterm a = count_false tm -> (1 <= s_mterm a)%nat ->
  (b = false -> (r < K)%nat) ->
  arrivals_ok n l ->
  (forall s, (s < n)%nat ->
     if nth s tm false then from_sender s l = [] else wf_from (bS s) (from_sender s l) = true) ->
  (forall s, (s < n)%nat -> (nth s (cnt_of r en) 0 + fars (from_sender s l))%nat = K) ->
  round_sync_from n r (cnt_of r en) l = true ->
  wf_from b (snd (run_from (start_machine A n) a l)) = true.
Proof.
  intros A n K. induction l as [|[s e] l IH];
    intros a r en tm bS b Hn Hsn Hdone Hlen Hmf Hmf1 Hltm Hmt Hmt1 Hb Hok Hwf Hf Hrs.
  - exfalso. rewrite Hmt in Hmt1. destruct (count_false_pos tm Hmt1) as [s [Hs Hts]].
    rewrite Hltm in Hs. specialize (Hwf s Hs). rewrite Hts in Hwf. cbn in Hwf. discriminate.
  - assert (Hok' : arrivals_ok n l).
    { intros s' e' Hin. apply Hok. now right. }
    destruct (Hok s e (or_introl eq_refl)) as [Hs _].
    pose proof (Hwf s Hs) as Hws. rewrite from_sender_cons, Nat.eqb_refl in Hws.
    destruct (nth s tm false) eqn:Htm; [discriminate|].
    assert (Hlcnt : length (cnt_of r en) = n) by (unfold cnt_of; rewrite map_length; auto).
    destruct (plain e) eqn:Hp.
    + (* data or watermark *)
      destruct (start_step_plain A a s e Hp Hdone) as [f' [o [Hstep Ho]]].
      rewrite round_sync_plain in Hrs by auto.
      apply andb_true_iff in Hrs. destruct Hrs as [Hc Hrs].
      rewrite wf_from_plain in Hws by auto.
      assert (HrK : (r < K)%nat).
      { pose proof (Hf s Hs) as Hfs. rewrite from_sender_cons, Nat.eqb_refl in Hfs.
        rewrite fars_plain in Hfs by auto. apply Nat.eqb_eq in Hc.
        destruct (wf_from_fars A _ _ Hws) as [Hx|Hx]; [discriminate|]. lia. }
      cbn [run_from mstep start_machine]. rewrite Hstep.
      assert (Hcl : forall b', wf_from b'
                (snd (run_from (start_machine A n)
                   {| s_n := s_n a; s_mterm := s_mterm a; s_mfar := s_mfar a; s_front := f'; s_done := false |} l)) = true).
      { intros b'.
        apply (IH _ r en tm (fun s' => if Nat.eqb s' s then false else bS s') b'); auto.
        - intros s' Hs'. specialize (Hwf s' Hs'). rewrite from_sender_cons in Hwf.
          destruct (Nat.eqb s s') eqn:E.
          + apply Nat.eqb_eq in E. subst s'. rewrite Htm in *. rewrite Nat.eqb_refl. exact Hws.
          + destruct (Nat.eqb s' s) eqn:E2.
            * apply Nat.eqb_eq in E2. subst s'. rewrite Nat.eqb_refl in E. discriminate.
            * exact Hwf.
        - intros s' Hs'. specialize (Hf s' Hs'). rewrite from_sender_cons in Hf.
          destruct (Nat.eqb s s'); [rewrite fars_plain in Hf by auto|]; exact Hf. }
      destruct (run_from (start_machine A n) _ l) as [a2 o2]. cbn [snd] in *.
      destruct Ho as [Ho | [x [Ho Hx]]]; subst o; cbn [app].
      * apply Hcl.
      * rewrite wf_from_plain by auto. apply Hcl.
    + destruct e as [v|v t|t| | |]; try discriminate Hp.
      * (* Terminate *)
        cbn [wf_from] in Hws. apply andb_true_iff in Hws. destruct Hws as [HbS Hnil].
        assert (Hnil' : from_sender s l = []) by (destruct (from_sender s l); [reflexivity | discriminate]).
        clear Hnil. cbn [round_sync_from] in Hrs.
        pose proof (count_false_set tm s ltac:(lia) Htm) as Hcnt.
        cbn [run_from mstep start_machine]. unfold start_step. rewrite Hdone.
        unfold settle. cbn [s_n s_mterm s_mfar s_front s_done].
        destruct (Nat.eqb (pred (s_mterm a)) 0) eqn:E.
        -- (* last Terminate *)
           rewrite start_done_run by reflexivity. cbn [snd app wf_from].
           destruct b; [reflexivity|]. exfalso. specialize (Hb eq_refl).
           apply Nat.eqb_eq in E.
           assert (Hz : count_false (set_nth s true tm) = 0%nat) by lia.
           rewrite Hmf in Hmf1. destruct (count_false_pos en Hmf1) as [s0 [Hs0 Hen0]].
           rewrite Hlen in Hs0.
           pose proof (Hf s0 Hs0) as Hf0. rewrite nth_cnt_of in Hf0 by lia. rewrite Hen0 in Hf0.
           assert (Hfz : fars (from_sender s0 ((s, Terminate) :: l)) = 0%nat).
           { destruct (Nat.eq_dec s s0) as [Heq|Hne].
             - subst s0. rewrite from_sender_cons, Nat.eqb_refl, Hnil'. reflexivity.
             - pose proof (count_false_zero _ Hz s0) as Ht0.
               rewrite set_nth_length, nth_set_nth_neq in Ht0 by auto.
               specialize (Ht0 ltac:(lia)). specialize (Hwf s0 Hs0). rewrite Ht0 in Hwf.
               rewrite Hwf. reflexivity. }
           lia.
        -- apply Nat.eqb_neq in E.
           assert (Emf : Nat.eqb (s_mfar a) 0 = false) by (apply Nat.eqb_neq; lia).
           rewrite Emf.
           match goal with |- context [run_from _ ?a' l] =>
             specialize (IH a' r en (set_nth s true tm) bS b) end.
           destruct (run_from (start_machine A n) _ l) as [a2 o2]. cbn [snd app] in *.
           apply IH; cbn [s_n s_mterm s_mfar s_front s_done]; auto; try lia.
           ++ rewrite set_nth_length; auto.
           ++ intros s' Hs'. specialize (Hwf s' Hs'). rewrite from_sender_cons in Hwf.
              destruct (Nat.eq_dec s s') as [Heq|Hne].
              ** subst s'. rewrite nth_set_nth_eq by lia. exact Hnil'.
              ** rewrite nth_set_nth_neq by auto.
                 destruct (Nat.eqb s s') eqn:E2; [apply Nat.eqb_eq in E2; contradiction|]. exact Hwf.
           ++ intros s' Hs'. specialize (Hf s' Hs'). rewrite from_sender_cons in Hf.
              destruct (Nat.eqb s s'); exact Hf.
      * (* FAR *)
        cbn [wf_from] in Hws. cbn [round_sync_from] in Hrs.
        apply andb_true_iff in Hrs. destruct Hrs as [Hc Hrs].
        pose proof (cnt_of_active r en s ltac:(lia) Hc) as Hen.
        assert (Hf' : forall s', (s' < n)%nat ->
                  (nth s' (set_nth s (S (nth s (cnt_of r en) 0%nat)) (cnt_of r en)) 0 + fars (from_sender s' l))%nat = K).
        { intros s' Hs'. specialize (Hf s' Hs'). rewrite from_sender_cons in Hf.
          destruct (Nat.eq_dec s s') as [Heq|Hne].
          - subst s'. rewrite nth_set_nth_eq by lia. rewrite Nat.eqb_refl in Hf.
            unfold fars in *. cbn [filter length] in Hf. lia.
          - rewrite nth_set_nth_neq by auto.
            destruct (Nat.eqb s s') eqn:E2; [apply Nat.eqb_eq in E2; contradiction|]. exact Hf. }
        rewrite cnt_of_set in Hf', Hrs by (auto; lia).
        rewrite cnt_of_forallb in Hrs.
        pose proof (count_false_set en s ltac:(lia) Hen) as Hcnt.
        assert (Hws' : forall s', (s' < n)%nat ->
                  if nth s' tm false then from_sender s' l = []
                  else wf_from (if Nat.eqb s' s then true else bS s') (from_sender s' l) = true).
        { intros s' Hs'. specialize (Hwf s' Hs'). rewrite from_sender_cons in Hwf.
          destruct (Nat.eqb s s') eqn:E.
          + apply Nat.eqb_eq in E. subst s'. rewrite Htm in *. rewrite Nat.eqb_refl. exact Hws.
          + destruct (Nat.eqb s' s) eqn:E2.
            * apply Nat.eqb_eq in E2. subst s'. rewrite Nat.eqb_refl in E. discriminate.
            * exact Hwf. }
        cbn [run_from mstep start_machine]. unfold start_step. rewrite Hdone.
        destruct (frontier_update (s_front a) s TS_MAX) as [f' o'].
        unfold settle. cbn [s_n s_mterm s_mfar s_front s_done].
        assert (Emt : Nat.eqb (s_mterm a) 0 = false) by (apply Nat.eqb_neq; lia).
        rewrite Emt.
        destruct (Nat.eqb (pred (s_mfar a)) 0) eqn:E.
        -- (* round completed *)
           apply Nat.eqb_eq in E.
           assert (Hz : count_false (set_nth s true en) = 0%nat) by lia.
           apply count_false_zero_forallb in Hz. rewrite Hz in Hrs.
           rewrite (cnt_of_all_ended r _ Hz) in Hrs, Hf'. rewrite set_nth_length, Hlen in Hrs, Hf'.
           match goal with |- context [run_from _ ?a' l] =>
             specialize (IH a' (S r) (repeat false n) tm (fun s' => if Nat.eqb s' s then true else bS s') true) end.
           destruct (run_from (start_machine A n) _ l) as [a2 o2]. cbn [snd app wf_from] in *.
           apply IH; cbn [s_n s_mterm s_mfar s_front s_done]; auto; try lia.
           ++ apply repeat_length.
           ++ rewrite count_false_repeat. auto.
        -- apply Nat.eqb_neq in E.
           destruct (forallb (fun b0 : bool => b0) (set_nth s true en)) eqn:Hfa.
           { apply count_false_zero_forallb in Hfa. lia. }
           match goal with |- context [run_from _ ?a' l] =>
             specialize (IH a' r (set_nth s true en) tm (fun s' => if Nat.eqb s' s then true else bS s') b) end.
           destruct (run_from (start_machine A n) _ l) as [a2 o2]. cbn [snd app] in *.
           apply IH; cbn [s_n s_mterm s_mfar s_front s_done]; auto; try lia.
           rewrite set_nth_length; auto.
Qed.

Lemma cnt_of_repeat_false : forall r n, cnt_of r (repeat false n) = repeat r n.
Proof. intros r. induction n as [|n IH]; cbn [repeat cnt_of map]; auto. f_equal. exact IH. Qed.

(** S3 as first stated (without the hypothesis that all upstream replicas run the same
    number of rounds) is false: replica 0 terminates after one round, replica 1 runs a
    second round with data; the output Terminate then follows data, not a FAR. *)
Theorem start_wf_needs_equal_rounds :
  exists (l : list (nat * elem Z)),
    arrivals_ok 2 l /\
    (forall s, (s < 2)%nat -> wf (from_sender s l) = true) /\
    round_sync 2 l = true /\
    wf (run (start_machine Z 2) l) = false.
Proof.
  exists [(0%nat, FAR); (1%nat, FAR); (0%nat, Terminate); (1%nat, Item 7); (1%nat, FAR); (1%nat, Terminate)].
  split; [|split; [|split]].
  - intros s e HIn. cbn [In] in HIn.
    repeat (destruct HIn as [HIn | HIn];
            [ inversion HIn; subst; clear HIn;
              (split; [lia | split; [intros t Ht; discriminate Ht | discriminate]]) | ]).
    contradiction.
  - intros s Hs. destruct s as [|[|s]]; [reflexivity | reflexivity | lia].
  - reflexivity.
  - vm_compute. reflexivity.
Qed.

Theorem start_wf : forall (A : Type) (n : nat) (l : list (nat * elem A)),
  (1 <= n)%nat -> arrivals_ok n l ->
  (forall s, (s < n)%nat -> wf (from_sender s l) = true) ->
  round_sync n l = true ->
  (* extra hypothesis, see [start_wf_needs_equal_rounds] *)
  (forall s s', (s < n)%nat -> (s' < n)%nat -> fars (from_sender s l) = fars (from_sender s' l)) ->
  wf (run (start_machine A n) l) = true.
Proof.
  intros A n l Hn Hok Hwf Hrs Heq.
  unfold wf, run. cbn [minit start_machine].
  apply (wf_run A n (fars (from_sender 0%nat l)) l (start_init n) 0%nat (repeat false n) (repeat false n)
           (fun _ => false) false); cbn [start_init s_n s_mterm s_mfar s_front s_done]; auto.
  - apply repeat_length.
  - symmetry. apply count_false_repeat.
  - apply repeat_length.
  - symmetry. apply count_false_repeat.
  - intros _. specialize (Hwf 0%nat ltac:(lia)). unfold wf in Hwf.
    destruct (wf_from_fars A _ _ Hwf) as [Hx|Hx]; [discriminate | lia].
  - intros s Hs. rewrite nth_repeat. apply Hwf; auto.
  - intros s Hs. rewrite cnt_of_repeat_false.
    rewrite nth_repeat.
    cbn [Nat.add]. apply Heq; auto; lia.
  - rewrite cnt_of_repeat_false. exact Hrs.
Qed.

(** * S4: watermark safety of the output *)
Lemma all_ge_nth : forall f m (s : nat), all_ge f m -> (s < length m)%nat ->
  exists x, nth s m None = Some x /\ f <= x.
Proof.
  intros f m s Hge Hs. unfold all_ge in Hge. rewrite Forall_forall in Hge.
  specialize (Hge (nth s m None) (nth_In m None Hs)).
  destruct (nth s m None) as [x|]; [|contradiction]. exists x. auto.
Qed.

Lemma cf_mono : forall m f (s : nat) t,
  compute_frontier m = Some f -> (s < length m)%nat ->
  (forall t0, nth s m None = Some t0 -> t0 < t) ->
  exists f', compute_frontier (set_nth s (Some t) m) = Some f' /\ f <= f'.
Proof.
  intros m f s t Hcf Hs Hlt.
  destruct (compute_frontier_some m f Hcf) as [Hge _].
  assert (Hall : Forall (fun o : option Z => o <> None) (set_nth s (Some t) m)).
  { apply Forall_set_nth; [|discriminate].
    unfold all_ge in Hge. rewrite Forall_forall in *. intros o Ho. specialize (Hge o Ho).
    destruct o; [discriminate | contradiction]. }
  assert (Hne : set_nth s (Some t) m <> []).
  { intros Heq. apply (f_equal (@length _)) in Heq. rewrite set_nth_length in Heq. cbn in Heq. lia. }
  destruct (compute_frontier_all_some _ Hne Hall) as [f' Hf'].
  exists f'. split; auto.
  destruct (compute_frontier_some _ f' Hf') as [_ Hin].
  destruct (In_nth _ _ None Hin) as [i [Hi Hnth]]. rewrite set_nth_length in Hi.
  destruct (all_ge_nth f m s Hge Hs) as [x [Hx Hfx]].
  destruct (Nat.eq_dec s i) as [Heq|Hneq].
  - subst i. rewrite nth_set_nth_eq in Hnth by auto. inversion Hnth; subst.
    specialize (Hlt x Hx). lia.
  - rewrite nth_set_nth_neq in Hnth by auto.
    destruct (all_ge_nth f m i Hge Hi) as [y [Hy Hfy]]. congruence.
Qed.

Definition mkF (fm : list (option Z)) : frontier := {| fmap := fm; ffront := compute_frontier fm |}.
Definition mkS (n mt mf : nat) (fm : list (option Z)) : sstate :=
  {| s_n := n; s_mterm := mt; s_mfar := mf; s_front := mkF fm; s_done := false |}.

Lemma start_step_wm_mk : forall A n mt mf fm (s : nat) t,
  (@start_step A (mkS n mt mf fm) (s, Wm t) = (mkS n mt mf fm, []) /\
     exists t0, nth s fm None = Some t0 /\ t <= t0)
  \/
  (@start_step A (mkS n mt mf fm) (s, Wm t) =
     (mkS n mt mf (set_nth s (Some t) fm),
      match upd_out (compute_frontier fm) (compute_frontier (set_nth s (Some t) fm)) with
      | Some t' => [Wm t'] | None => [] end)
   /\ forall t0, nth s fm None = Some t0 -> t0 < t).
Proof.
  intros A n mt mf fm s t. unfold start_step, mkS. cbn [s_done s_front s_n s_mterm s_mfar].
  destruct (frontier_update_spec (mkF fm) s t) as [[Hu Hex] | [Hu Hlt]]; rewrite Hu; cbn [mkF fmap ffront] in *.
  - left. split; auto.
  - right. split; auto.
Qed.

Lemma start_step_far_mk : forall A n mt mf fm (s : nat),
  (1 <= n)%nat -> (1 <= mt)%nat -> length fm = n ->
  exists fm',
    (fm' = fm \/ (fm' = set_nth s (Some TS_MAX) fm /\ forall t0, nth s fm None = Some t0 -> t0 < TS_MAX)) /\
    @start_step A (mkS n mt mf fm) (s, FAR) =
      if Nat.eqb (pred mf) 0 then (mkS n mt n (repeat None n), [FAR]) else (mkS n mt (pred mf) fm', []).
Proof.
  intros A n mt mf fm s Hn Hmt Hlen. unfold start_step, mkS. cbn [s_done s_front s_n s_mterm s_mfar].
  assert (Emt : Nat.eqb mt 0 = false) by (apply Nat.eqb_neq; lia).
  assert (Hreset : forall fm', length fm' = n -> frontier_reset (mkF fm') = mkF (repeat None n)).
  { intros fm' Hl. unfold frontier_reset, mkF. cbn [fmap]. rewrite map_const_repeat, Hl.
    rewrite compute_frontier_repeat_None by auto. reflexivity. }
  destruct (frontier_update_spec (mkF fm) s TS_MAX) as [[Hu Hex] | [Hu Hlt]]; rewrite Hu; cbn [mkF fmap ffront] in *.
  - exists fm. split; [now left|]. unfold settle. cbn [s_n s_mterm s_mfar s_front s_done]. rewrite Emt.
    destruct (Nat.eqb (pred mf) 0); auto. fold (mkF fm). rewrite Hreset by auto. reflexivity.
  - exists (set_nth s (Some TS_MAX) fm). split; [right; split; auto|].
    unfold settle. cbn [s_n s_mterm s_mfar s_front s_done]. rewrite Emt.
    destruct (Nat.eqb (pred mf) 0); auto.
    fold (mkF (set_nth s (Some TS_MAX) fm)). rewrite Hreset by (rewrite set_nth_length; auto). reflexivity.
Qed.

Lemma start_step_term_mk : forall A n mt mf fm (s : nat),
  (1 <= mf)%nat ->
  exists a', (@start_step A (mkS n mt mf fm) (s, Terminate) =
    if Nat.eqb (pred mt) 0 then (a', [Terminate]) else (mkS n (pred mt) mf fm, []))
    /\ s_done a' = true.
Proof.
  intros A n mt mf fm s Hmf. unfold start_step, mkS. cbn [s_done s_front s_n s_mterm s_mfar].
  unfold settle. cbn [s_n s_mterm s_mfar s_front s_done].
  assert (Emf : Nat.eqb mf 0 = false) by (apply Nat.eqb_neq; lia).
  rewrite Emf.
  exists {| s_n := n; s_mterm := 0; s_mfar := mf; s_front := mkF fm; s_done := true |}.
  destruct (Nat.eqb (pred mt) 0); split; reflexivity.
Qed.

Lemma wms_run : forall A n (l : list (nat * elem A)) mt mf fm r en ls lastO,
  (1 <= n)%nat -> (1 <= mt)%nat -> length en = n -> mf = count_false en -> (1 <= mf)%nat ->
  length fm = n -> length ls = n ->
  (forall s, (s < n)%nat -> nth s en false = false -> nth s fm None = nth s ls None) ->
  (forall s, (s < n)%nat -> nth s en false = true -> nth s ls None = None) ->
  (forall w, lastO = Some w -> exists f, compute_frontier fm = Some f /\ w <= f) ->
  arrivals_ok n l ->
  (forall s, (s < n)%nat -> wm_safe_from (nth s ls None) (from_sender s l) = true) ->
  round_sync_from n r (cnt_of r en) l = true ->
  wm_safe_from lastO (snd (run_from (start_machine A n) (mkS n mt mf fm) l)) = true.
Proof.
  intros A n. induction l as [|[s e] l IH];
    intros mt mf fm r en ls lastO Hn Hmt Hlen Hmf Hmf1 Hlfm Hlls Hfm Hend HlastO Hok Hsafe Hrs;
    [reflexivity|].
  assert (Hok' : arrivals_ok n l).
  { intros s' e' Hin. apply Hok. now right. }
  destruct (Hok s e (or_introl eq_refl)) as [Hs _].
  pose proof (Hsafe s Hs) as Hss. rewrite from_sender_cons, Nat.eqb_refl in Hss.
  assert (Hupd : forall ls', (forall s', s' <> s -> nth s' ls' None = nth s' ls None) ->
            wm_safe_from (nth s ls' None) (from_sender s l) = true ->
            forall s', (s' < n)%nat -> wm_safe_from (nth s' ls' None) (from_sender s' l) = true).
  { intros ls' Hoth Hself s' Hs'. destruct (Nat.eq_dec s' s) as [Heq|Hne].
    - subst s'. exact Hself.
    - rewrite Hoth by auto. specialize (Hsafe s' Hs'). rewrite from_sender_cons in Hsafe.
      destruct (Nat.eqb s s') eqn:E; [apply Nat.eqb_eq in E; congruence | exact Hsafe]. }
  cbn [run_from mstep start_machine].
  destruct e as [v|v t|t| | |].
  - (* Item *)
    change (start_step (mkS n mt mf fm) (s, Item v)) with (mkS n mt mf fm, [Item v]).
    cbn [round_sync_from] in Hrs. apply andb_true_iff in Hrs. destruct Hrs as [Hc Hrs].
    specialize (IH mt mf fm r en ls lastO Hn Hmt Hlen Hmf Hmf1 Hlfm Hlls Hfm Hend HlastO Hok'
                  (Hupd ls (fun _ _ => eq_refl) Hss) Hrs).
    destruct (run_from (start_machine A n) (mkS n mt mf fm) l) as [a2 o2]. cbn [snd app wm_safe_from] in *. exact IH.
  - (* Tst *)
    change (start_step (mkS n mt mf fm) (s, Tst v t)) with (mkS n mt mf fm, [Tst v t]).
    cbn [round_sync_from] in Hrs. apply andb_true_iff in Hrs. destruct Hrs as [Hc Hrs].
    cbn [wm_safe_from] in Hss. apply andb_true_iff in Hss. destruct Hss as [Hlt Hss].
    specialize (IH mt mf fm r en ls lastO Hn Hmt Hlen Hmf Hmf1 Hlfm Hlls Hfm Hend HlastO Hok'
                  (Hupd ls (fun _ _ => eq_refl) Hss) Hrs).
    destruct (run_from (start_machine A n) (mkS n mt mf fm) l) as [a2 o2]. cbn [snd app wm_safe_from] in *.
    rewrite IH, andb_true_r.
    destruct lastO as [w|]; [|reflexivity].
    destruct (HlastO w eq_refl) as [f [Hcf Hwf]].
    destruct (compute_frontier_some fm f Hcf) as [Hge _].
    destruct (all_ge_nth f fm s Hge ltac:(lia)) as [x [Hx Hfx]].
    pose proof (cnt_of_active r en s ltac:(lia) Hc) as Hen.
    rewrite (Hfm s Hs Hen) in Hx. rewrite Hx in Hlt. apply Z.ltb_lt in Hlt. apply Z.ltb_lt. lia.
  - (* Wm *)
    cbn [round_sync_from] in Hrs. apply andb_true_iff in Hrs. destruct Hrs as [Hc Hrs].
    cbn [wm_safe_from] in Hss. apply andb_true_iff in Hss. destruct Hss as [Hlt Hss].
    pose proof (cnt_of_active r en s ltac:(lia) Hc) as Hen.
    destruct (start_step_wm_mk A n mt mf fm s t) as [[Hstep [t0 [Ht0 Hle]]] | [Hstep Hgt]]; rewrite Hstep.
    + exfalso. rewrite (Hfm s Hs Hen) in Ht0. rewrite Ht0 in Hlt. apply Z.ltb_lt in Hlt. lia.
    + assert (Hcl : forall lastO',
                (forall w, lastO' = Some w ->
                   exists f, compute_frontier (set_nth s (Some t) fm) = Some f /\ w <= f) ->
                wm_safe_from lastO'
                  (snd (run_from (start_machine A n) (mkS n mt mf (set_nth s (Some t) fm)) l)) = true).
      { intros lastO' HlastO'.
        apply (IH mt mf _ r en (set_nth s (Some t) ls) lastO'); auto.
        - rewrite set_nth_length; auto.
        - rewrite set_nth_length; auto.
        - intros s' Hs' Hen'. destruct (Nat.eq_dec s s') as [Heq|Hne].
          + subst s'. rewrite !nth_set_nth_eq by lia. reflexivity.
          + rewrite !nth_set_nth_neq by auto. apply Hfm; auto.
        - intros s' Hs' Hen'. destruct (Nat.eq_dec s s') as [Heq|Hne]; [congruence|].
          rewrite nth_set_nth_neq by auto. apply Hend; auto.
        - apply Hupd.
          + intros s' Hne. apply nth_set_nth_neq. auto.
          + rewrite nth_set_nth_eq by lia. exact Hss. }
      destruct (run_from (start_machine A n) (mkS n mt mf (set_nth s (Some t) fm)) l) as [a2 o2].
      cbn [snd] in *.
      destruct (compute_frontier fm) as [o|] eqn:Hff.
      * destruct (cf_mono fm o s t Hff ltac:(lia) Hgt) as [f' [Hf' Hof']].
        rewrite Hf' in *. cbn [upd_out].
        destruct (o =? f') eqn:Eo.
        -- cbn [app]. apply Hcl. intros w Hw. destruct (HlastO w Hw) as [f [Hf Hwf]].
           inversion Hf; subst f. exists f'. split; auto. lia.
        -- apply Z.eqb_neq in Eo. cbn [app wm_safe_from].
           rewrite Hcl.
           ++ rewrite andb_true_r. destruct lastO as [w|]; [|reflexivity].
              destruct (HlastO w eq_refl) as [f [Hf Hwf]]. inversion Hf; subst f.
              apply Z.ltb_lt. lia.
           ++ intros w Hw. inversion Hw; subst w. exists f'. split; auto. lia.
      * assert (HlO : lastO = None).
        { destruct lastO as [w|]; auto. destruct (HlastO w eq_refl) as [f [Hf _]]. discriminate. }
        subst lastO.
        destruct (compute_frontier (set_nth s (Some t) fm)) as [f'|] eqn:Hf'; cbn [upd_out app wm_safe_from].
        -- rewrite Hcl; [reflexivity|].
           intros w Hw. inversion Hw; subst w. exists f'. split; auto. lia.
        -- apply Hcl. intros w Hw. discriminate.
  - (* FlushBatch *)
    change (start_step (mkS n mt mf fm) (s, FlushBatch)) with (mkS n mt mf fm, [@FlushBatch A]).
    cbn [round_sync_from] in Hrs. apply andb_true_iff in Hrs. destruct Hrs as [Hc Hrs].
    specialize (IH mt mf fm r en ls lastO Hn Hmt Hlen Hmf Hmf1 Hlfm Hlls Hfm Hend HlastO Hok'
                  (Hupd ls (fun _ _ => eq_refl) Hss) Hrs).
    destruct (run_from (start_machine A n) (mkS n mt mf fm) l) as [a2 o2]. cbn [snd app wm_safe_from] in *. exact IH.
  - (* Terminate *)
    cbn [round_sync_from] in Hrs. cbn [wm_safe_from] in Hss.
    destruct (start_step_term_mk A n mt mf fm s Hmf1) as [a' [Hstep Hd]]. rewrite Hstep.
    destruct (Nat.eqb (pred mt) 0) eqn:E.
    + rewrite start_done_run by auto. reflexivity.
    + apply Nat.eqb_neq in E.
      specialize (IH (pred mt) mf fm r en ls lastO Hn ltac:(lia) Hlen Hmf Hmf1 Hlfm Hlls Hfm Hend HlastO Hok'
                    (Hupd ls (fun _ _ => eq_refl) Hss) Hrs).
      destruct (run_from (start_machine A n) (mkS n (pred mt) mf fm) l) as [a2 o2]. cbn [snd app] in *. exact IH.
  - (* FAR *)
    cbn [round_sync_from] in Hrs. apply andb_true_iff in Hrs. destruct Hrs as [Hc Hrs].
    cbn [wm_safe_from] in Hss.
    pose proof (cnt_of_active r en s ltac:(lia) Hc) as Hen.
    rewrite cnt_of_set in Hrs by (auto; lia). rewrite cnt_of_forallb in Hrs.
    pose proof (count_false_set en s ltac:(lia) Hen) as Hcnt.
    destruct (start_step_far_mk A n mt mf fm s Hn Hmt Hlfm) as [fm' [Hfm' Hstep]]. rewrite Hstep.
    assert (Hsafe' : forall s', (s' < n)%nat ->
              wm_safe_from (nth s' (set_nth s None ls) None) (from_sender s' l) = true).
    { apply Hupd.
      - intros s' Hne. apply nth_set_nth_neq. auto.
      - rewrite nth_set_nth_eq by lia. exact Hss. }
    destruct (Nat.eqb (pred mf) 0) eqn:E.
    + (* round completed *)
      apply Nat.eqb_eq in E.
      assert (Hz : count_false (set_nth s true en) = 0%nat) by lia.
      pose proof (count_false_zero _ Hz) as Hall. rewrite set_nth_length in Hall.
      apply count_false_zero_forallb in Hz. rewrite Hz in Hrs.
      rewrite (cnt_of_all_ended r _ Hz) in Hrs. rewrite set_nth_length, Hlen in Hrs.
      specialize (IH mt n (repeat None n) (S r) (repeat false n) (set_nth s None ls) None).
      destruct (run_from (start_machine A n) (mkS n mt n (repeat None n)) l) as [a2 o2].
      cbn [snd app wm_safe_from] in *.
      apply IH; auto.
      * apply repeat_length.
      * symmetry. apply count_false_repeat.
      * apply repeat_length.
      * rewrite set_nth_length; auto.
      * intros s' Hs' _. rewrite nth_repeat.
        destruct (Nat.eq_dec s s') as [Heq|Hne].
        -- subst s'. rewrite nth_set_nth_eq by lia. reflexivity.
        -- rewrite nth_set_nth_neq by auto. symmetry. apply Hend; auto.
           specialize (Hall s' ltac:(lia)). rewrite nth_set_nth_neq in Hall by auto. exact Hall.
      * intros s' Hs' Hen'. rewrite nth_repeat in Hen'. discriminate.
      * intros w Hw. discriminate.
    + apply Nat.eqb_neq in E.
      destruct (forallb (fun b0 : bool => b0) (set_nth s true en)) eqn:Hfa.
      { apply count_false_zero_forallb in Hfa. lia. }
      specialize (IH mt (pred mf) fm' r (set_nth s true en) (set_nth s None ls) lastO).
      destruct (run_from (start_machine A n) (mkS n mt (pred mf) fm') l) as [a2 o2].
      cbn [snd app] in *.
      assert (Hlfm' : length fm' = n).
      { destruct Hfm' as [Hx | [Hx _]]; subst fm'; rewrite ?set_nth_length; auto. }
      apply IH; auto; try lia.
      * rewrite set_nth_length; auto.
      * rewrite set_nth_length; auto.
      * intros s' Hs' Hen'. destruct (Nat.eq_dec s s') as [Heq|Hne].
        -- subst s'. rewrite nth_set_nth_eq in Hen' by lia. discriminate.
        -- rewrite nth_set_nth_neq in Hen' by auto. rewrite (nth_set_nth_neq s s' None) by auto.
           rewrite <- (Hfm s' Hs' Hen').
           destruct Hfm' as [Hx | [Hx _]]; subst fm'; [reflexivity | apply nth_set_nth_neq; auto].
      * intros s' Hs' Hen'. destruct (Nat.eq_dec s s') as [Heq|Hne].
        -- subst s'. apply nth_set_nth_eq. lia.
        -- rewrite nth_set_nth_neq in Hen' by auto. rewrite nth_set_nth_neq by auto. apply Hend; auto.
      * intros w Hw. destruct (HlastO w Hw) as [f [Hf Hwf]].
        destruct Hfm' as [Hx | [Hx Hgt]]; subst fm'.
        -- exists f. auto.
        -- destruct (cf_mono fm f s TS_MAX Hf ltac:(lia) Hgt) as [f' [Hf' Hff']].
           exists f'. split; auto. lia.
Qed.

(** watermark safety needs neither per-sender well-formedness nor equal round counts *)
Theorem start_wm_safe_strong : forall (A : Type) (n : nat) (l : list (nat * elem A)),
  (1 <= n)%nat -> arrivals_ok n l ->
  (forall s, (s < n)%nat -> wm_safe (from_sender s l) = true) ->
  round_sync n l = true ->
  wm_safe (run (start_machine A n) l) = true.
Proof.
  intros A n l Hn Hok Hsafe Hrs.
  unfold wm_safe, run. cbn [minit start_machine].
  assert (Hinit : start_init n = mkS n n n (repeat None n)).
  { unfold start_init, mkS, mkF, frontier_new. rewrite compute_frontier_repeat_None by auto. reflexivity. }
  rewrite Hinit.
  apply (wms_run A n l n n (repeat None n) 0%nat (repeat false n) (repeat None n) None); auto.
  - apply repeat_length.
  - symmetry. apply count_false_repeat.
  - apply repeat_length.
  - apply repeat_length.
  - intros s Hs Hen. rewrite nth_repeat in Hen. discriminate.
  - intros w Hw. discriminate.
  - intros s Hs. rewrite nth_repeat. apply Hsafe; auto.
  - rewrite cnt_of_repeat_false. exact Hrs.
Qed.

Theorem start_wm_safe : forall (A : Type) (n : nat) (l : list (nat * elem A)),
  (1 <= n)%nat -> arrivals_ok n l ->
  (forall s, (s < n)%nat -> wm_safe (from_sender s l) = true) ->
  (forall s, (s < n)%nat -> wf (from_sender s l) = true) ->
  round_sync n l = true ->
  wm_safe (run (start_machine A n) l) = true.
Proof.
  intros A n l Hn Hok Hsafe _ Hrs. apply start_wm_safe_strong; auto.
Qed.

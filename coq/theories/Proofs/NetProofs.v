(** C04, proofs: deadlock freedom and termination of acyclic networks of replicas connected
    by bounded channels (Model/Net.v), and the operator-level facts that discharge the node
    obligations for the single-input Start (Model/Start.v) and the two-input Start
    (Model/BinaryStart.v). *)
From Noir Require Import Base.Elem Model.Start Model.BinaryStart Proofs.StartSpec Proofs.StartProofs.
From Noir Require Import Model.Net.
From Coq Require Import List Arith Bool Lia Wf_nat.
Import ListNotations.
Local Open Scope nat_scope.

(** * List plumbing *)
Lemma upd_length {X} : forall (l : list X) i v, length (upd i v l) = length l.
Proof. induction l as [|a l IH]; intros [|i] v; cbn [upd length]; auto. Qed.

Lemma nth_error_upd_eq {X} : forall (l : list X) i v, i < length l -> nth_error (upd i v l) i = Some v.
Proof.
  induction l as [|a l IH]; intros [|i] v H; cbn [length] in H; try lia; cbn [upd nth_error]; auto.
  apply IH. lia.
Qed.

Lemma nth_error_upd_neq {X} : forall (l : list X) i j v, i <> j -> nth_error (upd i v l) j = nth_error l j.
Proof.
  induction l as [|a l IH]; intros [|i] [|j] v H; cbn [upd nth_error]; auto; try lia.
Qed.

Lemma nth_upd_eq {X} : forall (l : list X) i v d, i < length l -> nth i (upd i v l) d = v.
Proof.
  induction l as [|a l IH]; intros [|i] v d H; cbn [length] in H; try lia; cbn [upd nth]; auto.
  apply IH. lia.
Qed.

Lemma nth_upd_neq {X} : forall (l : list X) i j v d, i <> j -> nth j (upd i v l) d = nth j l d.
Proof.
  induction l as [|a l IH]; intros [|i] [|j] v d H; cbn [upd nth]; auto; try lia.
Qed.

Section Generic.
  Context {msg st : Type} (NW : net msg st).
  Notation State := (state msg st).
  Notation sem := (n_sem NW).

  (** * Basic facts about the step relation *)
  Lemma exec_sound : forall s a s', exec NW s a = Some s' -> step NW s s'.
  Proof.
    intros s [i|i c|i] s' H; cbn [exec] in H.
    - destruct (node_at s i) as [x|] eqn:Hx; [|discriminate].
      destruct (finished (sem i) x) eqn:Hf; [discriminate|].
      destruct (pending (sem i) x) as [[c m]|] eqn:Hp; [|discriminate].
      destruct (length (chan s c) <? n_cap NW c) eqn:Hl; [|discriminate].
      inversion H; subst s'. apply Nat.ltb_lt in Hl. eapply step_send; eauto.
    - destruct (node_at s i) as [x|] eqn:Hx; [|discriminate].
      destruct (finished (sem i) x) eqn:Hf; [discriminate|].
      destruct (pending (sem i) x) as [[c' m]|] eqn:Hp; [discriminate|].
      destruct (existsb (Nat.eqb c) (wants (sem i) x)) eqn:Hw; [|discriminate].
      destruct (chan s c) as [|m q] eqn:Hq; [discriminate|].
      inversion H; subst s'. apply existsb_exists in Hw. destruct Hw as [c' [Hin Heq]].
      apply Nat.eqb_eq in Heq. subst c'. eapply step_recv; eauto.
    - destruct (node_at s i) as [x|] eqn:Hx; [|discriminate].
      destruct (finished (sem i) x) eqn:Hf; [discriminate|].
      destruct (pending (sem i) x) as [[c' m]|] eqn:Hp; [discriminate|].
      destruct (on_tau (sem i) x) as [x'|] eqn:Ht; [|discriminate].
      inversion H; subst s'. eapply step_tau; eauto.
  Qed.

  Lemma exec_all_steps : forall l s s', exec_all NW s l = Some s' -> steps NW s s'.
  Proof.
    induction l as [|a l IH]; intros s s' H; cbn [exec_all] in H.
    - inversion H; subst. constructor.
    - destruct (exec NW s a) as [s1|] eqn:E; [|discriminate].
      econstructor; [eapply exec_sound; eauto | apply IH; auto].
  Qed.

  Lemma reachable_steps : forall s s', reachable NW s -> steps NW s s' -> reachable NW s'.
  Proof.
    intros s s' Hr Hs. induction Hs; auto. apply IHHs. econstructor; eauto.
  Qed.

  Lemma exec_all_reachable : forall l s', exec_all NW (n_init NW) l = Some s' -> reachable NW s'.
  Proof.
    intros l s' H. eapply reachable_steps; [constructor | eapply exec_all_steps; eauto].
  Qed.

  Lemma final_no_step : forall s s', final NW s -> ~ step NW s s'.
  Proof.
    intros s s' Hf Hs. inversion Hs; subst;
      match goal with H : node_at _ _ = Some _ |- _ => apply Hf in H end; congruence.
  Qed.

  Lemma step_lengths : forall s s', step NW s s' ->
    length (nodes s') = length (nodes s) /\ length (chans s') = length (chans s).
  Proof.
    intros s s' H. inversion H; subst; cbn [nodes chans]; rewrite ?upd_length; auto.
  Qed.

  Lemma reachable_lengths : net_ok NW -> forall s, reachable NW s ->
    length (nodes s) = n_nodes NW /\ length (chans s) = n_chans NW.
  Proof.
    intros [_ [_ [Hn Hc]]] s Hr. induction Hr; auto.
    destruct (step_lengths _ _ H) as [H1 H2]. lia.
  Qed.

  Lemma enabled_step : forall s i, enabled NW s i = true -> exists s', step NW s s'.
  Proof.
    intros s i H. unfold enabled in H.
    destruct (node_at s i) as [x|] eqn:Hx; [|discriminate].
    destruct (finished (sem i) x) eqn:Hf; [discriminate|].
    destruct (pending (sem i) x) as [[c m]|] eqn:Hp.
    - apply Nat.ltb_lt in H. eexists. eapply step_send; eauto.
    - destruct (on_tau (sem i) x) as [x'|] eqn:Ht.
      + eexists. eapply step_tau; eauto.
      + apply existsb_exists in H. destruct H as [c [Hin Hc]].
        destruct (chan s c) as [|m q] eqn:Hq; [discriminate|].
        eexists. eapply step_recv; eauto.
  Qed.

  (** a node that cannot move and has not finished is blocked in a send on a full channel or
      in a receive on empty channels *)
  Lemma disabled_cases : forall s i x, enabled NW s i = false -> node_at s i = Some x ->
    finished (sem i) x = false ->
    (exists c m, pending (sem i) x = Some (c, m) /\ n_cap NW c <= length (chan s c)) \/
    (pending (sem i) x = None /\ on_tau (sem i) x = None /\
     forall c, In c (wants (sem i) x) -> chan s c = []).
  Proof.
    intros s i x H Hx Hf. unfold enabled in H. rewrite Hx, Hf in H.
    destruct (pending (sem i) x) as [[c m]|] eqn:Hp.
    - left. exists c, m. split; auto. apply Nat.ltb_ge in H. exact H.
    - right. destruct (on_tau (sem i) x) as [x'|] eqn:Ht; [discriminate|].
      split; [auto|split; [auto|]]. intros c Hin.
      destruct (chan s c) as [|m q] eqn:Hq; auto. exfalso.
      assert (Hex : existsb (fun c => match chan s c with [] => false | _ => true end)
                            (wants (sem i) x) = true).
      { apply existsb_exists. exists c. rewrite Hq. auto. }
      congruence.
  Qed.

  Lemma step_enabled : forall s s', step NW s s' -> exists i, enabled NW s i = true.
  Proof.
    intros s s' H. inversion H; subst; exists i; unfold enabled;
      match goal with Hx : node_at _ _ = Some _, Hf : finished _ _ = false, Hp : pending _ _ = _ |- _ =>
        rewrite Hx, Hf, Hp end.
    - apply Nat.ltb_lt. assumption.
    - destruct (on_tau (sem i) x); auto. apply existsb_exists. exists c. split; auto.
      match goal with Hq : chan _ _ = _ :: _ |- _ => rewrite Hq end. reflexivity.
    - match goal with Ht : on_tau _ _ = Some _ |- _ => rewrite Ht end. reflexivity.
  Qed.

  Lemma enabled_scan : forall s,
    existsb (enabled NW s) (seq 0 (length (nodes s))) = false -> forall i, enabled NW s i = false.
  Proof.
    intros s E i. destruct (lt_dec i (length (nodes s))) as [Hlt|Hge].
    - destruct (enabled NW s i) eqn:Ei; auto.
      assert (existsb (enabled NW s) (seq 0 (length (nodes s))) = true).
      { apply existsb_exists. exists i. split; auto. apply in_seq. lia. }
      congruence.
    - unfold enabled, node_at.
      assert (Hn : nth_error (nodes s) i = None) by (apply nth_error_None; lia).
      rewrite Hn. reflexivity.
  Qed.

  Lemma disabled_stuck : forall s,
    existsb (enabled NW s) (seq 0 (length (nodes s))) = false -> ~ final NW s -> stuck NW s.
  Proof.
    intros s E Hnf. split; auto. intros s' Hs. destruct (step_enabled _ _ Hs) as [i Hi].
    rewrite (enabled_scan s E i) in Hi. discriminate.
  Qed.

  (** deciding whether everybody has finished *)
  Lemma scan_unfinished : forall (l : list st) (off : nat),
    (forall k x, nth_error l k = Some x -> finished (sem (off + k)) x = true) \/
    (exists k x, nth_error l k = Some x /\ finished (sem (off + k)) x = false).
  Proof.
    induction l as [|a l IH]; intros off.
    - left. intros [|k] x H; discriminate H.
    - destruct (finished (sem (off + 0)) a) eqn:Ha.
      + destruct (IH (S off)) as [Hall | [k [x [Hk Hf]]]].
        * left. intros [|k] x H; cbn [nth_error] in H.
          -- inversion H; subst. exact Ha.
          -- replace (off + S k) with (S off + k) by lia. apply Hall; auto.
        * right. exists (S k), x. split; auto. replace (off + S k) with (S off + k) by lia. exact Hf.
      + right. exists 0, a. split; auto.
  Qed.

  Lemma final_dec : forall s, final NW s \/
    exists i x, node_at s i = Some x /\ finished (sem i) x = false.
  Proof.
    intros s. destruct (scan_unfinished (nodes s) 0) as [H|H].
    - left. intros i x Hx. apply (H i x Hx).
    - right. exact H.
  Qed.

  (** * TASK A: no deadlock

      The theorem needs, as invariants of the reachable states, the obligations of
      [safe_state] (Model/Net.v). Why the engine provides each of them, for acyclic jobs on
      ONE host (every channel is a `local_channel` written directly by its producers):

      [net_ok] topological numbering: block ids are handed out in creation order
        (`EnvironmentInner::new_block_id`) and a block is created after the blocks it reads
        from (`Stream::split_block`, `binary_connection`), so producers have smaller ids;
        capacity >= 1: CHANNEL_CAPACITY = 16.
      [ob_local] O3: a replica holds the senders `network.get_senders(coord)` of its own
        outgoing connections and the receivers of its own `Start` only.
      [ob_recv_live] O1+O2 (wants_live): `Start` stops reading only when `missing_terminate == 0`,
        then it returns Terminate and the replica leaves its loop (`do_work`), so an unfinished
        replica in a receive reads at least one channel (single input: its channel; two inputs:
        [bselect_block_owes] below: every side it reads still owes a FlushAndRestart or a
        Terminate). A marker that is owed and is not in the (empty) channel has not been sent,
        and a producer sends Terminate to all its consumers before it exits (`End::next`:
        Terminate is enqueued for every sender, then `batcher.end()`), so that producer has not
        finished: a lost marker would show up exactly here. Level: the producer has not yet
        sent the marker that would complete the consumer's current round.
      [ob_consumer_alive] O4 (finish_after_inputs): a replica exits only after its `Start` has
        counted Terminate from every producer ([start_terminates_iff_all_prefix] below), and
        Terminate is the last message of every producer on every channel; so a producer that
        still has something to send on c finds its consumer alive (otherwise `send` fails and
        the producer panics: `remote_sender.send(message).unwrap()`). Level: a consumer
        broadcasts its k-th FlushAndRestart only after receiving the k-th one from every
        producer, which a producer with a message still pending on c has not sent beyond its
        own completed broadcasts.
      [ob_refusal] O5: the only operator that does not read a non-empty input is the two-input
        `Start` while one side has ended the round and the other has not
        (`BinaryStartReceiver::select`). A producer blocked on the refused channel has already
        delivered its FlushAndRestart of that round on it, hence - `End` sends FlushAndRestart
        to ALL consumers before it pulls the next element - to all its consumers: it is one
        level above the refusing consumer, which has not broadcast that round's
        FlushAndRestart yet. (So a side with more producers than the channel capacity, whose
        Terminates do not all fit while it is refused, is harmless: see [dia_safe].)
      With multiplexed remote connections [ob_refusal]/[ob_consumer_alive] can fail for the
      demultiplexer thread: see [mux_hol_deadlock]. *)
  Section NoDeadlock.
    Variable lvl : nat -> st -> nat.
    Hypothesis Hnet : net_ok NW.

    (** The core: in a state satisfying the obligations in which no node can move, nobody is
        unfinished. Let n be the least level of an unfinished node (outer induction).
        (A) No unfinished level-n node is blocked in a send: its consumer has a larger index, is
            unfinished and at level n (O4), cannot be blocked in a receive (it would either want
            the full channel, or refuse it and then be at a lower level, O5), so it is blocked
            in a send itself: go downstream, the indices are bounded.
        (B) No unfinished level-n node is blocked in a receive: one of its wanted channels has
            an unfinished producer at level n with a smaller index (O1+O2); by (A) it is not
            blocked in a send, so it is blocked in a receive: go upstream, the indices
            decrease. *)
    Lemma all_blocked_all_finished : forall s,
      length (nodes s) = n_nodes NW -> length (chans s) = n_chans NW ->
      safe_state NW lvl s ->
      (forall i, enabled NW s i = false) ->
      forall n i x, node_at s i = Some x -> finished (sem i) x = false -> lvl i x = n -> False.
    Proof.
      intros s Hln Hlc [Hloc [Hrecv [Hcons Hrefuse]]] Hdis.
      destruct Hnet as [Hch [Htopo _]].
      induction n as [n IHn] using lt_wf_ind.
      assert (Hge : forall j y, node_at s j = Some y -> finished (sem j) y = false -> n <= lvl j y).
      { intros j y Hy Hf. destruct (le_lt_dec n (lvl j y)) as [H|H]; auto.
        exfalso. eapply (IHn (lvl j y)); eauto. }
      (* (A) send-blocked nodes, by induction on the distance to the last node *)
      assert (HA : forall k i x c m, n_nodes NW - i = k ->
                 node_at s i = Some x -> finished (sem i) x = false -> lvl i x = n ->
                 pending (sem i) x = Some (c, m) -> n_cap NW c <= length (chan s c) -> False).
      { induction k as [k IHk] using lt_wf_ind. intros i x c m Hk Hx Hf Hl Hp Hfull.
        destruct (Hloc i x Hx Hf) as [Hsend _]. destruct (Hsend c m Hp) as [Hc Hprod].
        pose proof (Htopo c i Hc Hprod) as Hlt. destruct (Hch c Hc) as [HjN Hcap].
        destruct (Hcons i x c m Hx Hf Hp Hfull) as [y [Hy [Hfy Hly]]].
        assert (Hlj : lvl (n_cons NW c) y = n).
        { pose proof (Hge _ _ Hy Hfy). lia. }
        destruct (disabled_cases s _ y (Hdis _) Hy Hfy) as [[c' [m' [Hp' Hfull']]] | [Hp' [Ht' Hempty]]].
        - eapply (IHk (n_nodes NW - n_cons NW c)); eauto. lia.
        - destruct (in_dec Nat.eq_dec c (wants (sem (n_cons NW c)) y)) as [Hin|Hnin].
          + rewrite (Hempty c Hin) in Hfull. cbn [length] in Hfull. lia.
          + pose proof (Hrefuse i x c m y Hx Hf Hp Hfull Hy Hfy Hp' Ht' Hnin). lia. }
      (* (B) receive-blocked nodes, by induction on the index *)
      assert (HB : forall i x, node_at s i = Some x -> finished (sem i) x = false -> lvl i x = n ->
                 pending (sem i) x = None -> on_tau (sem i) x = None ->
                 (forall c, In c (wants (sem i) x) -> chan s c = []) -> False).
      { induction i as [i IHi] using lt_wf_ind. intros x Hx Hf Hl Hp Ht Hempty.
        destruct (Hrecv i x Hx Hf Hp Ht Hempty) as [c [p [y [Hin [Hprod [Hy [Hfy Hly]]]]]]].
        destruct (Hloc i x Hx Hf) as [_ Hw]. destruct (Hw c Hin) as [Hc Hcons'].
        pose proof (Htopo c p Hc Hprod) as Hlt. rewrite Hcons' in Hlt.
        assert (Hlp : lvl p y = n).
        { pose proof (Hge _ _ Hy Hfy). lia. }
        destruct (disabled_cases s _ y (Hdis _) Hy Hfy) as [[c' [m' [Hp' Hfull']]] | [Hp' [Ht' Hempty']]].
        - eapply (HA _ p y c' m' eq_refl); eauto.
        - eapply (IHi p Hlt y); eauto. }
      intros i x Hx Hf Hl.
      destruct (disabled_cases s _ x (Hdis _) Hx Hf) as [[c [m [Hp Hfull]]] | [Hp [Ht Hempty]]].
      - eapply (HA _ i x c m eq_refl); eauto.
      - eapply HB; eauto.
    Qed.

    (** a state satisfying the obligations is final or can move *)
    Lemma safe_state_progress : forall s,
      length (nodes s) = n_nodes NW -> length (chans s) = n_chans NW ->
      safe_state NW lvl s -> ~ final NW s -> exists s', step NW s s'.
    Proof.
      intros s Hln Hlc Hsafe Hnf.
      destruct (existsb (enabled NW s) (seq 0 (length (nodes s)))) eqn:E.
      - apply existsb_exists in E. destruct E as [i [_ Hi]]. eapply enabled_step; eauto.
      - exfalso.
        pose proof (enabled_scan s E) as Hdis.
        destruct (final_dec s) as [Hfin | [i [x [Hx Hf]]]]; [auto|].
        eapply all_blocked_all_finished; eauto.
    Qed.

    (** the node obligations, as invariants of the reachable states *)
    Hypothesis Hsafe : forall s, reachable NW s -> safe_state NW lvl s.

    Theorem no_deadlock : forall s, reachable NW s -> ~ final NW s -> exists s', step NW s s'.
    Proof.
      intros s Hr Hnf. destruct (reachable_lengths Hnet s Hr) as [Hln Hlc].
      apply safe_state_progress; auto.
    Qed.

    Corollary never_stuck : forall s, reachable NW s -> ~ stuck NW s.
    Proof.
      intros s Hr [Hnf Hno]. destruct (no_deadlock s Hr Hnf) as [s' Hs]. exact (Hno s' Hs).
    Qed.

    (** * Termination: with a measure that decreases in every step, every execution is finite
        and ends in a final state *)
    Section Terminates.
      Variable mu : State -> nat.
      Hypothesis Hmu : forall s s', reachable NW s -> step NW s s' -> mu s' < mu s.

      Theorem terminates : forall s, reachable NW s -> terminating NW s.
      Proof.
        intros s. remember (mu s) as k eqn:Hk. revert s Hk.
        induction k as [k IH] using lt_wf_ind. intros s Hk Hr.
        constructor.
        - destruct (final_dec s) as [Hfin | [i [x [Hx Hf]]]]; [left; auto|].
          right. apply no_deadlock; auto.
          intros Hfin. rewrite (Hfin i x Hx) in Hf. discriminate.
        - intros s' Hs. apply (IH (mu s')); auto.
          + subst k. apply Hmu; auto.
          + econstructor; eauto.
      Qed.

      (** consequences spelled out *)
      Lemma terminating_reaches_final : forall s, terminating NW s ->
        exists s', steps NW s s' /\ final NW s'.
      Proof.
        intros s H. induction H as [s Hprog _ IH].
        destruct (final_dec s) as [Hfin | [i [x [Hx Hf]]]].
        - exists s. split; [constructor | auto].
        - destruct Hprog as [Hfin | [s1 Hs1]].
          + rewrite (Hfin i x Hx) in Hf. discriminate.
          + destruct (IH s1 Hs1) as [s2 [Hsteps Hfin]]. exists s2. split; auto.
            econstructor; eauto.
      Qed.

      Lemma terminating_no_infinite : forall s, terminating NW s ->
        forall f : nat -> State, f 0 = s -> ~ (forall k, step NW (f k) (f (S k))).
      Proof.
        intros s H. induction H as [s _ _ IH]. intros f H0 Hinf.
        apply (IH (f 1)) with (f := fun k => f (S k)).
        - rewrite <- H0. apply Hinf.
        - reflexivity.
        - intros k. apply Hinf.
      Qed.

      (** every maximal execution from a reachable state stops, and it stops in a final
          state: a state from which no step is possible is final *)
      Corollary job_terminates :
        (exists s', steps NW (n_init NW) s' /\ final NW s') /\
        (forall f : nat -> State, f 0 = n_init NW -> ~ (forall k, step NW (f k) (f (S k)))) /\
        (forall s, reachable NW s -> (forall s', ~ step NW s s') -> final NW s).
      Proof.
        assert (Ht : terminating NW (n_init NW)) by (apply terminates; constructor).
        split; [apply terminating_reaches_final; auto|].
        split; [apply terminating_no_infinite; auto|].
        intros s Hr Hno. destruct (final_dec s) as [Hfin | [i [x [Hx Hf]]]]; auto.
        exfalso. destruct (no_deadlock s Hr) as [s' Hs].
        - intros Hfin. rewrite (Hfin i x Hx) in Hf. discriminate.
        - exact (Hno s' Hs).
      Qed.
    End Terminates.
  End NoDeadlock.

  (** ** The plain obligations (one level): O1 wants <> [], O2 wants_live, O3 locality,
      O4 finish_after_inputs, O5 never refuse a full channel somebody is blocked on *)
  Section Plain.
    Variable s : State.
    Definition O1_wants_nonempty : Prop :=
      forall i x, node_at s i = Some x -> finished (sem i) x = false ->
        pending (sem i) x = None -> on_tau (sem i) x = None -> wants (sem i) x <> [].
    Definition O2_wants_live : Prop :=
      forall i x c, node_at s i = Some x -> finished (sem i) x = false ->
        pending (sem i) x = None -> In c (wants (sem i) x) -> chan s c = [] ->
        exists p y, n_prod NW c p = true /\ node_at s p = Some y /\ finished (sem p) y = false.
    Definition O4_finish_after_inputs : Prop :=
      forall i x c m, node_at s i = Some x -> finished (sem i) x = false ->
        pending (sem i) x = Some (c, m) ->
        exists y, node_at s (n_cons NW c) = Some y /\ finished (sem (n_cons NW c)) y = false.
    Definition O5_no_refusal : Prop :=
      forall i x c m y, node_at s i = Some x -> finished (sem i) x = false ->
        pending (sem i) x = Some (c, m) -> n_cap NW c <= length (chan s c) ->
        node_at s (n_cons NW c) = Some y -> finished (sem (n_cons NW c)) y = false ->
        pending (sem (n_cons NW c)) y = None ->
        In c (wants (sem (n_cons NW c)) y).

    Lemma plain_safe :
      O1_wants_nonempty -> O2_wants_live -> ob_local NW s -> O4_finish_after_inputs -> O5_no_refusal ->
      safe_state NW (fun _ _ => 0) s.
    Proof.
      intros H1 H2 H3 H4 H5. split; [exact H3|split; [|split]].
      - intros i x Hx Hf Hp Ht Hempty.
        destruct (wants (sem i) x) as [|c l] eqn:Hw; [exfalso; apply (H1 i x); auto|].
        assert (Hin : In c (wants (sem i) x)) by (rewrite Hw; left; auto).
        destruct (H2 i x c Hx Hf Hp Hin) as [p [y [Hprod [Hy Hfy]]]].
        { apply Hempty. left; auto. }
        exists c, p, y. repeat split; auto. left; reflexivity.
      - intros i x c m Hx Hf Hp _. destruct (H4 i x c m Hx Hf Hp) as [y [Hy Hfy]].
        exists y. repeat split; auto.
      - intros i x c m y Hx Hf Hp Hfull Hy Hfy Hpy _ Hnin. exfalso. apply Hnin. apply (H5 i x c m y); auto.
    Qed.
  End Plain.

  Theorem no_deadlock_plain : net_ok NW ->
    (forall s, reachable NW s ->
       O1_wants_nonempty s /\ O2_wants_live s /\ ob_local NW s /\ O4_finish_after_inputs s /\ O5_no_refusal s) ->
    forall s, reachable NW s -> ~ final NW s -> exists s', step NW s s'.
  Proof.
    intros Hnet H. apply (no_deadlock (fun _ _ => 0) Hnet).
    intros s Hr. destruct (H s Hr) as [H1 [H2 [H3 [H4 H5]]]]. apply plain_safe; auto.
  Qed.
End Generic.

(** * TASK B: the single-input Start as a node: it keeps reading its channel until it has
    received Terminate from all its n producers, never terminates before, and then emits
    Terminate exactly once, as the last element *)
Section StartNode.
  Context {A : Type}.

  Definition is_term (e : elem A) : bool := match e with Terminate => true | _ => false end.
  (** number of Terminate arrivals *)
  Definition nterm (l : list (nat * elem A)) : nat := length (filter (fun x => is_term (snd x)) l).
  (** number of Terminate arrivals from sender s *)
  Definition nterm_of (s : nat) (l : list (nat * elem A)) : nat := length (filter is_term (from_sender s l)).

  Lemma from_sender_app : forall s (l1 l2 : list (nat * elem A)),
    from_sender s (l1 ++ l2) = from_sender s l1 ++ from_sender s l2.
  Proof. intros. unfold from_sender. rewrite filter_app, map_app. reflexivity. Qed.

  Lemma nterm_of_app : forall s l1 l2, nterm_of s (l1 ++ l2) = nterm_of s l1 + nterm_of s l2.
  Proof. intros. unfold nterm_of. rewrite from_sender_app, filter_app, app_length. reflexivity. Qed.

  Lemma nterm_of_pos_In : forall s l, 1 <= nterm_of s l <-> In (s, Terminate) l.
  Proof.
    intros s. induction l as [|[s' e] l IH].
    - cbn. split; [lia | tauto].
    - unfold nterm_of in *. rewrite from_sender_cons.
      destruct (Nat.eqb s' s) eqn:E.
      + apply Nat.eqb_eq in E. subst s'. cbn [filter].
        destruct e; cbn [is_term length]; split; intro H;
          try (right; apply IH; exact H);
          try (cbn [In] in H; match type of H with _ \/ _ => destruct H as [H|H]; [inversion H | apply IH; exact H] end);
          try (left; reflexivity); try lia.
      + apply Nat.eqb_neq in E. rewrite IH. split; [intros H; right; exact H|].
        intros [H|H]; [inversion H; congruence | exact H].
  Qed.

  (** ** the machine counts Terminates *)
  Lemma start_counts_terminates : forall n (l : list (nat * elem A)) a,
    s_done a = false -> 1 <= s_mterm a ->
    let '(a', o) := run_from (start_machine A n) a l in
    (In Terminate o <-> s_mterm a <= nterm l) /\
    (s_done a' = true <-> s_mterm a <= nterm l) /\
    (nterm l < s_mterm a -> s_mterm a' = s_mterm a - nterm l).
  Proof.
    intros n. induction l as [|[s e] l IH]; intros a Hd Hm.
    - cbn [run_from nterm filter length]. rewrite Hd. repeat split; try lia; try tauto; try discriminate.
      cbn. tauto.
    - cbn [run_from mstep start_machine]. unfold start_step. rewrite Hd.
      assert (Hplain : forall a1 o1, s_done a1 = false -> s_mterm a1 = s_mterm a ->
                ~ In Terminate o1 -> is_term e = false ->
                let '(a', o) := (let '(s2, o2) := run_from (start_machine A n) a1 l in (s2, o1 ++ o2)) in
                (In Terminate o <-> s_mterm a <= nterm ((s, e) :: l)) /\
                (s_done a' = true <-> s_mterm a <= nterm ((s, e) :: l)) /\
                (nterm ((s, e) :: l) < s_mterm a -> s_mterm a' = s_mterm a - nterm ((s, e) :: l))).
      { intros a1 o1 Hd1 Hm1 Ho1 He.
        specialize (IH a1 Hd1 ltac:(lia)).
        destruct (run_from (start_machine A n) a1 l) as [a2 o2]. rewrite Hm1 in IH.
        unfold nterm in *. cbn [filter snd]. rewrite He.
        destruct IH as [I1 [I2 I3]]. repeat split; auto; try tauto.
        - intros H. apply in_app_or in H. destruct H as [H|H]; [contradiction | tauto].
        - intros H. apply in_or_app. right. tauto. }
      destruct e as [v|v t|t| | |].
      + apply (Hplain a [Item v]); auto. intros [H|[]]; discriminate.
      + apply (Hplain a [Tst v t]); auto. intros [H|[]]; discriminate.
      + destruct (frontier_update (s_front a) s t) as [f' [w|]].
        * apply (Hplain _ [Wm w]); auto. intros [H|[]]; discriminate.
        * apply (Hplain _ []); auto.
      + apply (Hplain a [FlushBatch]); auto. intros [H|[]]; discriminate.
      + (* Terminate *)
        unfold settle. cbn [s_n s_mterm s_mfar s_front s_done].
        unfold nterm. cbn [filter snd is_term length]. fold (nterm l).
        destruct (Nat.eqb (pred (s_mterm a)) 0) eqn:E.
        * apply Nat.eqb_eq in E. rewrite start_done_run by reflexivity.
          cbn [app s_done s_mterm]. repeat split; try lia; auto.
          -- intros _. left; reflexivity.
        * apply Nat.eqb_neq in E.
          destruct (Nat.eqb (s_mfar a) 0).
          -- match goal with |- context [run_from _ ?a' l] => specialize (IH a' eq_refl) end.
             cbn [s_mterm] in IH. specialize (IH ltac:(lia)).
             destruct (run_from (start_machine A n) _ l) as [a2 o2].
             destruct IH as [I1 [I2 I3]]. cbn [app]. repeat split; try intro H; try lia.
             all: try (cbn [In] in H; match type of H with _ \/ _ => destruct H as [H|H]; [discriminate|] end).
             all: try (apply I1 in H; lia); try (apply I2 in H; lia); try (right; apply I1; lia);
               try (apply I1; lia); try (apply I2; lia); try (rewrite I3 by lia; lia).
          -- match goal with |- context [run_from _ ?a' l] => specialize (IH a' eq_refl) end.
             cbn [s_mterm] in IH. specialize (IH ltac:(lia)).
             destruct (run_from (start_machine A n) _ l) as [a2 o2].
             destruct IH as [I1 [I2 I3]]. cbn [app]. repeat split; try intro H; try lia.
             all: try (cbn [In] in H; match type of H with _ \/ _ => destruct H as [H|H]; [discriminate|] end).
             all: try (apply I1 in H; lia); try (apply I2 in H; lia); try (right; apply I1; lia);
               try (apply I1; lia); try (apply I2; lia); try (rewrite I3 by lia; lia).
      + (* FAR *)
        destruct (frontier_update (s_front a) s TS_MAX) as [f' o'].
        unfold settle. cbn [s_n s_mterm s_mfar s_front s_done].
        assert (Em : Nat.eqb (s_mterm a) 0 = false) by (apply Nat.eqb_neq; lia). rewrite Em.
        destruct (Nat.eqb (pred (s_mfar a)) 0).
        * match goal with |- context [run_from _ ?a' l] => specialize (IH a' eq_refl) end.
          cbn [s_mterm] in IH. specialize (IH Hm).
          destruct (run_from (start_machine A n) _ l) as [a2 o2].
          unfold nterm in *. cbn [filter snd is_term].
          destruct IH as [I1 [I2 I3]]. repeat split; auto; try tauto.
          -- intros [H|H]; [discriminate | tauto].
          -- intros H. right. tauto.
        * match goal with |- context [run_from _ ?a' l] => specialize (IH a' eq_refl) end.
          cbn [s_mterm] in IH. specialize (IH Hm).
          destruct (run_from (start_machine A n) _ l) as [a2 o2].
          unfold nterm in *. cbn [filter snd is_term app].
          exact IH.
  Qed.

  (** ** counting: n Terminates have arrived iff every sender's Terminate has arrived *)
  Fixpoint sum_below (n : nat) (f : nat -> nat) : nat :=
    match n with 0 => 0 | S k => sum_below k f + f k end.

  Lemma sum_below_ext : forall n f g, (forall s, s < n -> f s = g s) -> sum_below n f = sum_below n g.
  Proof. induction n as [|n IH]; intros f g H; cbn [sum_below]; auto. rewrite (IH f g), H; auto. Qed.

  Lemma sum_below_add : forall n f g, sum_below n (fun s => f s + g s) = sum_below n f + sum_below n g.
  Proof. induction n as [|n IH]; intros; cbn [sum_below]; auto. rewrite IH. lia. Qed.

  Lemma sum_below_indicator : forall n s0, s0 < n ->
    sum_below n (fun s => if Nat.eqb s0 s then 1 else 0) = 1.
  Proof.
    induction n as [|n IH]; intros s0 H; [lia|]. cbn [sum_below].
    destruct (Nat.eqb s0 n) eqn:E.
    - apply Nat.eqb_eq in E. subst s0.
      rewrite (sum_below_ext n _ (fun _ => 0)).
      + clear. induction n; cbn [sum_below]; lia.
      + intros s Hs. destruct (Nat.eqb n s) eqn:E; auto. apply Nat.eqb_eq in E. lia.
    - apply Nat.eqb_neq in E. rewrite IH by lia. lia.
  Qed.

  Lemma sum_below_zero : forall n, sum_below n (fun _ => 0) = 0.
  Proof. induction n; cbn [sum_below]; lia. Qed.

  Lemma nterm_sum : forall n (l : list (nat * elem A)),
    (forall s e, In (s, e) l -> s < n) -> nterm l = sum_below n (fun s => nterm_of s l).
  Proof.
    intros n. induction l as [|[s0 e] l IH]; intros Hs.
    - unfold nterm, nterm_of. cbn. symmetry. apply sum_below_zero.
    - assert (Hs0 : s0 < n) by (apply (Hs s0 e); left; auto).
      assert (Hs' : forall s e, In (s, e) l -> s < n) by (intros; eapply Hs; right; eauto).
      specialize (IH Hs').
      rewrite (sum_below_ext n _ (fun s => (if Nat.eqb s0 s then (if is_term e then 1 else 0) else 0) + nterm_of s l)).
      + rewrite sum_below_add, <- IH. unfold nterm. cbn [filter snd].
        destruct (is_term e); cbn [length].
        * rewrite sum_below_indicator; auto.
        * rewrite (sum_below_ext n _ (fun _ => 0)), sum_below_zero; auto.
          intros s _. destruct (Nat.eqb s0 s); auto.
      + intros s _. unfold nterm_of. rewrite from_sender_cons.
        destruct (Nat.eqb s0 s); auto. cbn [filter]. destruct (is_term e); auto.
  Qed.

  Lemma sum_below_bounded : forall n f, (forall s, s < n -> f s <= 1) ->
    sum_below n f <= n /\ (n <= sum_below n f <-> forall s, s < n -> 1 <= f s).
  Proof.
    induction n as [|n IH]; intros f H; cbn [sum_below].
    - split; [lia|]. split; intros; lia.
    - destruct (IH f) as [I1 I2]; [intros; apply H; lia|].
      pose proof (H n ltac:(lia)) as Hn. split; [lia|]. split.
      + intros Hge s Hs. destruct (Nat.eq_dec s n) as [->|Hne]; [lia|].
        apply I2; lia.
      + intros Hall. pose proof (Hall n ltac:(lia)).
        assert (n <= sum_below n f) by (apply I2; intros; apply Hall; lia). lia.
  Qed.

  (** a well-formed stream contains Terminate exactly once, as its last element *)
  Lemma wf_from_one_term : forall (l : list (elem A)) b, wf_from b l = true ->
    length (filter is_term l) = 1 /\ exists l', l = l' ++ [Terminate] /\ ~ In Terminate l'.
  Proof.
    induction l as [|e l IH]; intros b H; cbn [wf_from] in H; [discriminate|].
    destruct e as [v|v t|t| | |]; cbn [filter is_term length];
      try (destruct (IH _ H) as [I1 [l' [I2 I3]]]; split; [exact I1|];
           eexists (_ :: l'); rewrite I2; split; [reflexivity|];
           intros [Hx|Hx]; [discriminate | contradiction]).
    apply andb_true_iff in H. destruct H as [_ H]. destruct l; [|discriminate].
    split; [reflexivity|]. exists []. split; [reflexivity | intros []].
  Qed.

  (** ** the node view of the single-input Start. For every prefix [l1] of an arrival sequence
      in which every producer sends a well-formed stream:
      - Terminate has been emitted (the replica stops pulling: [s_done]) iff the Terminate of
        EVERY producer has arrived: the Start keeps wanting its channel until then, and never
        terminates before;
      - otherwise the number of Terminates it still waits for is exactly the number of
        producers whose Terminate has not arrived. *)
  Theorem start_terminates_iff_all_prefix : forall n (l1 l2 : list (nat * elem A)),
    1 <= n ->
    (forall s e, In (s, e) (l1 ++ l2) -> s < n) ->
    (forall s, s < n -> wf (from_sender s (l1 ++ l2)) = true) ->
    let '(a, o) := run_from (start_machine A n) (start_init n) l1 in
    (In Terminate o <-> forall s, s < n -> In (s, Terminate) l1) /\
    (s_done a = true <-> forall s, s < n -> In (s, Terminate) l1) /\
    (s_done a = false -> s_mterm a = n - nterm l1 /\ 1 <= s_mterm a).
  Proof.
    intros n l1 l2 Hn Hs Hwf.
    pose proof (start_counts_terminates n l1 (start_init n) eq_refl) as H.
    cbn [start_init s_mterm] in H. specialize (H Hn).
    destruct (run_from (start_machine A n) (start_init n) l1) as [a o].
    destruct H as [H1 [H2 H3]].
    assert (Hs1 : forall s e, In (s, e) l1 -> s < n).
    { intros s e Hin. apply (Hs s e). apply in_or_app. left; auto. }
    assert (Hle : forall s, s < n -> nterm_of s l1 <= 1).
    { intros s Hlt. specialize (Hwf s Hlt). unfold wf in Hwf.
      destruct (wf_from_one_term _ _ Hwf) as [Hone _].
      pose proof (nterm_of_app s l1 l2) as Happ. unfold nterm_of in *. lia. }
    assert (Hiff : n <= nterm l1 <-> forall s, s < n -> In (s, Terminate) l1).
    { rewrite (nterm_sum n l1 Hs1).
      destruct (sum_below_bounded n (fun s => nterm_of s l1) Hle) as [_ Hb].
      rewrite Hb. split; intros H s Hlt; apply nterm_of_pos_In; auto. }
    split; [rewrite H1; exact Hiff|]. split; [rewrite H2; exact Hiff|].
    intros Hd.
    assert (Hlt : nterm l1 < n).
    { destruct (le_lt_dec n (nterm l1)) as [Hge|Hlt]; auto.
      apply H2 in Hge. congruence. }
    split; [apply H3; auto | rewrite H3; lia].
  Qed.

  (** the statement for a complete arrival sequence, with the output discipline: Terminate is
      emitted exactly once, and it is the last element of the output *)
  Theorem start_terminates_iff_all : forall n (l : list (nat * elem A)),
    1 <= n -> arrivals_ok n l ->
    (forall s, s < n -> wf (from_sender s l) = true) ->
    round_sync n l = true ->
    (forall s s', s < n -> s' < n -> fars (from_sender s l) = fars (from_sender s' l)) ->
    (In Terminate (run (start_machine A n) l) <-> forall s, s < n -> In (s, Terminate) l) /\
    (exists o, run (start_machine A n) l = o ++ [Terminate] /\ ~ In Terminate o).
  Proof.
    intros n l Hn Hok Hwf Hrs Heq. split.
    - pose proof (start_terminates_iff_all_prefix n l [] Hn) as H. rewrite app_nil_r in H.
      unfold run. cbn [minit start_machine].
      destruct (run_from (start_machine A n) (start_init n) l) as [a o]. cbn [snd].
      apply H; auto. intros s e Hin. destruct (Hok s e Hin) as [Hlt _]. exact Hlt.
    - pose proof (start_wf A n l Hn Hok Hwf Hrs Heq) as H. unfold wf in H.
      destruct (wf_from_one_term _ _ H) as [_ Hex]. exact Hex.
  Qed.

  (** in particular, on a complete well-formed arrival sequence the Start does terminate *)
  Corollary start_terminates : forall n (l : list (nat * elem A)),
    1 <= n -> arrivals_ok n l ->
    (forall s, s < n -> wf (from_sender s l) = true) ->
    In Terminate (run (start_machine A n) l).
  Proof.
    intros n l Hn Hok Hwf.
    pose proof (start_terminates_iff_all_prefix n l [] Hn) as H. rewrite app_nil_r in H.
    unfold run. cbn [minit start_machine].
    destruct (run_from (start_machine A n) (start_init n) l) as [a o]. cbn [snd].
    apply H; auto.
    - intros s e Hin. destruct (Hok s e Hin) as [Hlt _]. exact Hlt.
    - intros s Hlt. specialize (Hwf s Hlt). unfold wf in Hwf.
      destruct (wf_from_one_term _ _ Hwf) as [_ [l' [Hl' _]]].
      assert (Hin : In Terminate (from_sender s l)) by (rewrite Hl'; apply in_or_app; right; left; auto).
      unfold from_sender in Hin. apply in_map_iff in Hin. destruct Hin as [[s' e] [He Hin]].
      cbn [snd] in He. subst e. apply filter_In in Hin. destruct Hin as [Hin Hs'].
      cbn [fst] in Hs'. apply Nat.eqb_eq in Hs'. subst s'. exact Hin.
  Qed.
End StartNode.

(** * TASK C: the two-input Start never waits on a side that owes nothing *)
Section BinaryWaits.
  Context {L R : Type}.
  Notation bstate := (@bstate L R).

  (** the sides [select] is willing to read when no side is cached (acyclic jobs: caching is
      only used for the side inputs of loops); [true] = left, [false] = right *)
  Definition bwants (b0 : bstate) : list bool :=
    let b := if is_ended (b_l b0) && is_ended (b_r b0) && cache_finished (b_l b0) && cache_finished (b_r b0)
             then {| b_l := side_reset (b_l b0); b_r := side_reset (b_r b0); b_first := true |}
             else b0 in
    if is_ended (b_l b) then [false]
    else if is_ended (b_r b) then [true]
    else if is_terminated (b_l b) then [false]
    else if is_terminated (b_r b) then [true]
    else [true; false].

  Definition side_empty (b : bstate) (sd : bool) : Prop :=
    if sd then sd_queue (b_l b) = [] else sd_queue (b_r b) = [].

  Definition uncached (b : bstate) : Prop :=
    sd_cached (b_l b) = false /\ sd_cached (b_r b) = false.

  Lemma recv_left_block : forall (b : bstate) f b', recv_left b f = SelBlock b' -> sd_queue (b_l b) = [].
  Proof.
    intros b f b' H. unfold recv_left in H. destruct (sd_queue (b_l b)) as [|m q]; auto.
    destruct (process_side BL BLEnd 0 (b_l b) m q). discriminate.
  Qed.
  Lemma recv_right_block : forall (b : bstate) f b', recv_right b f = SelBlock b' -> sd_queue (b_r b) = [].
  Proof.
    intros b f b' H. unfold recv_right in H. destruct (sd_queue (b_r b)) as [|m q]; auto.
    destruct (process_side BR BREnd (sd_inst (b_l b)) (b_r b) m q). discriminate.
  Qed.
  Lemma recv_left_msg : forall (b : bstate) f, sd_queue (b_l b) <> [] -> exists b' m, recv_left b f = SelMsg b' m.
  Proof.
    intros b f H. unfold recv_left. destruct (sd_queue (b_l b)) as [|m q]; [congruence|].
    destruct (process_side BL BLEnd 0 (b_l b) m q). eauto.
  Qed.
  Lemma recv_right_msg : forall (b : bstate) f, sd_queue (b_r b) <> [] -> exists b' m, recv_right b f = SelMsg b' m.
  Proof.
    intros b f H. unfold recv_right. destruct (sd_queue (b_r b)) as [|m q]; [congruence|].
    destruct (process_side BR BREnd (sd_inst (b_l b)) (b_r b) m q). eauto.
  Qed.

  (** with no cached side, [select] is the decision list [bwants] followed by a receive *)
  Lemma bselect_uncached : forall b0 : bstate, uncached b0 ->
    let b := if is_ended (b_l b0) && is_ended (b_r b0) && cache_finished (b_l b0) && cache_finished (b_r b0)
             then {| b_l := side_reset (b_l b0); b_r := side_reset (b_r b0); b_first := true |}
             else b0 in
    bselect b0 =
      if is_ended (b_l b) then recv_right b (b_first b)
      else if is_ended (b_r b) then recv_left b (b_first b)
      else if is_terminated (b_l b) then recv_right b (b_first b)
      else if is_terminated (b_r b) then recv_left b (b_first b)
      else match recv_left b (b_first b) with
           | SelBlock _ => recv_right b (b_first b)
           | r => r
           end.
  Proof.
    intros b0 [Hl Hr]. unfold bselect. rewrite Hl, Hr. cbn [negb Nat.eqb andb].
    rewrite andb_false_r.
    destruct (is_ended (b_l b0) && is_ended (b_r b0) && cache_finished (b_l b0) && cache_finished (b_r b0));
      cbn [b_l b_r b_first side_reset sd_cached]; rewrite ?Hl, ?Hr; cbn [orb andb];
      rewrite ?andb_false_r; cbn [andb]; reflexivity.
  Qed.

  (** the reset at the start of [select] does not touch the queues *)
  Lemma reset_queues : forall b0 : bstate,
    let b := if is_ended (b_l b0) && is_ended (b_r b0) && cache_finished (b_l b0) && cache_finished (b_r b0)
             then {| b_l := side_reset (b_l b0); b_r := side_reset (b_r b0); b_first := true |}
             else b0 in
    sd_queue (b_l b) = sd_queue (b_l b0) /\ sd_queue (b_r b) = sd_queue (b_r b0).
  Proof.
    intros b0. cbv zeta.
    destruct (is_ended (b_l b0) && is_ended (b_r b0) && cache_finished (b_l b0) && cache_finished (b_r b0));
      split; reflexivity.
  Qed.

  (** [select] blocks exactly when every side it is willing to read is empty: [bwants] is the
      [wants] of the node interface of Model/Net.v *)
  Theorem bselect_block_wants : forall (b b' : bstate), uncached b ->
    bselect b = SelBlock b' -> forall sd, In sd (bwants b) -> side_empty b sd.
  Proof.
    intros b0 b' Hu H sd Hin. rewrite (bselect_uncached b0 Hu) in H. unfold bwants in Hin.
    destruct (reset_queues b0) as [Hql Hqr]. cbv zeta in *.
    set (b := if is_ended (b_l b0) && is_ended (b_r b0) && cache_finished (b_l b0) && cache_finished (b_r b0)
              then {| b_l := side_reset (b_l b0); b_r := side_reset (b_r b0); b_first := true |}
              else b0) in *.
    unfold side_empty.
    destruct (is_ended (b_l b)).
    { destruct Hin as [<-|[]]. rewrite <- Hqr. eapply recv_right_block; eauto. }
    destruct (is_ended (b_r b)).
    { destruct Hin as [<-|[]]. rewrite <- Hql. eapply recv_left_block; eauto. }
    destruct (is_terminated (b_l b)).
    { destruct Hin as [<-|[]]. rewrite <- Hqr. eapply recv_right_block; eauto. }
    destruct (is_terminated (b_r b)).
    { destruct Hin as [<-|[]]. rewrite <- Hql. eapply recv_left_block; eauto. }
    destruct (recv_left b (b_first b)) as [b1 m1|b1] eqn:E; [discriminate|].
    destruct Hin as [<-|[<-|[]]].
    - rewrite <- Hql. eapply recv_left_block; eauto.
    - rewrite <- Hqr. eapply recv_right_block; eauto.
  Qed.

  Theorem bselect_msg_wants : forall (b : bstate) sd, uncached b ->
    In sd (bwants b) -> ~ side_empty b sd -> exists b' m, bselect b = SelMsg b' m.
  Proof.
    intros b0 sd Hu Hin Hne. rewrite (bselect_uncached b0 Hu). unfold bwants in Hin.
    destruct (reset_queues b0) as [Hql Hqr]. cbv zeta in *.
    set (b := if is_ended (b_l b0) && is_ended (b_r b0) && cache_finished (b_l b0) && cache_finished (b_r b0)
              then {| b_l := side_reset (b_l b0); b_r := side_reset (b_r b0); b_first := true |}
              else b0) in *.
    unfold side_empty in Hne.
    destruct (is_ended (b_l b)).
    { destruct Hin as [<-|[]]. apply recv_right_msg. rewrite Hqr. exact Hne. }
    destruct (is_ended (b_r b)).
    { destruct Hin as [<-|[]]. apply recv_left_msg. rewrite Hql. exact Hne. }
    destruct (is_terminated (b_l b)).
    { destruct Hin as [<-|[]]. apply recv_right_msg. rewrite Hqr. exact Hne. }
    destruct (is_terminated (b_r b)).
    { destruct Hin as [<-|[]]. apply recv_left_msg. rewrite Hql. exact Hne. }
    destruct (recv_left b (b_first b)) as [b1 m1|b1] eqn:E; [eauto|].
    destruct Hin as [<-|[<-|[]]].
    - exfalso. apply Hne. rewrite <- Hql. eapply recv_left_block; eauto.
    - apply recv_right_msg. rewrite Hqr. exact Hne.
  Qed.

  (** what a blocked [select] is waiting for. Hypotheses: no cached side and nothing in the
      caches (uncached sides never record messages), every side has at least one producer
      replica, and the Start on top has not yet counted all Terminates (afterwards it returns
      Terminate and [select] is not called again: `missing_terminate == 0` is checked first).
      Then one of:
      (1) the left side has ended the round (all its FlushAndRestart arrived), the right has not:
          only the right is read, it is empty and still owes a FlushAndRestart;
      (2) symmetric;
      (3)-(5) no side has ended the round (possibly because both just ended and were reset):
          every side that still owes a Terminate is read, all of those are empty, and there is
          at least one. *)
  Ltac conv H :=
    match type of H with
    | Nat.eqb _ _ = true => apply Nat.eqb_eq in H
    | Nat.eqb _ _ = false => apply Nat.eqb_neq in H
    end.
  Ltac fin Hempty :=
    repeat split; auto; try lia;
    try (apply (Hempty false); cbn [In]; auto); try (apply (Hempty true); cbn [In]; auto).

  Theorem bselect_block_owes : forall (b b' : bstate),
    uncached b ->
    cache_finished (b_l b) = true -> cache_finished (b_r b) = true ->
    1 <= sd_inst (b_l b) -> 1 <= sd_inst (b_r b) ->
    1 <= sd_mterm (b_l b) + sd_mterm (b_r b) ->
    bselect b = SelBlock b' ->
    (sd_mfar (b_l b) = 0 /\ 1 <= sd_mfar (b_r b) /\ sd_queue (b_r b) = [] /\ bwants b = [false]) \/
    (sd_mfar (b_r b) = 0 /\ 1 <= sd_mfar (b_l b) /\ sd_queue (b_l b) = [] /\ bwants b = [true]) \/
    ((sd_mfar (b_l b) = 0 <-> sd_mfar (b_r b) = 0) /\
     ((sd_mterm (b_l b) = 0 /\ 1 <= sd_mterm (b_r b) /\ sd_queue (b_r b) = [] /\ bwants b = [false]) \/
      (sd_mterm (b_r b) = 0 /\ 1 <= sd_mterm (b_l b) /\ sd_queue (b_l b) = [] /\ bwants b = [true]) \/
      (1 <= sd_mterm (b_l b) /\ 1 <= sd_mterm (b_r b) /\
       sd_queue (b_l b) = [] /\ sd_queue (b_r b) = [] /\ bwants b = [true; false]))).
  Proof.
    intros b0 b' Hu Hcl Hcr Hil Hir Hmt H.
    pose proof (bselect_block_wants b0 b' Hu H) as Hempty.
    destruct Hu as [Hl Hr].
    unfold bwants in *. unfold side_empty in Hempty.
    unfold is_ended, is_terminated in *. rewrite Hcl, Hcr, ?andb_true_r in *.
    cbn [b_l b_r side_reset sd_cached sd_mfar sd_mterm] in *.
    rewrite Hl, Hr in *.
    destruct (Nat.eqb (sd_mfar (b_l b0)) 0) eqn:Efl; destruct (Nat.eqb (sd_mfar (b_r b0)) 0) eqn:Efr;
      cbn [andb b_l b_r side_reset sd_cached sd_mfar sd_mterm] in *; rewrite ?Hl, ?Hr, ?Efl, ?Efr in *;
      conv Efl; conv Efr.
    - (* both ended: reset, nobody is ended afterwards *)
      assert (El : Nat.eqb (sd_inst (b_l b0)) 0 = false) by (apply Nat.eqb_neq; lia).
      assert (Er : Nat.eqb (sd_inst (b_r b0)) 0 = false) by (apply Nat.eqb_neq; lia).
      rewrite El, Er in *.
      right; right. split; [tauto|].
      destruct (Nat.eqb (sd_mterm (b_l b0)) 0) eqn:Etl; [|destruct (Nat.eqb (sd_mterm (b_r b0)) 0) eqn:Etr];
        conv Etl; try conv Etr.
      + left. fin Hempty.
      + right; left. fin Hempty.
      + right; right. fin Hempty.
    - left. fin Hempty.
    - right; left. fin Hempty.
    - right; right. split; [tauto|].
      destruct (Nat.eqb (sd_mterm (b_l b0)) 0) eqn:Etl; [|destruct (Nat.eqb (sd_mterm (b_r b0)) 0) eqn:Etr];
        conv Etl; try conv Etr.
      + left. fin Hempty.
      + right; left. fin Hempty.
      + right; right. fin Hempty.
  Qed.
End BinaryWaits.

(** * A deadlock of the model once remote connections are multiplexed (finding)

    The job: a source block A with 3 replicas on host 1, feeding (i) the left input of a
    two-input block B (2 replicas, host 2) and (ii) a one-input block C (1 replica, host 1)
    whose output is the right input of B: a diamond, `a.split(); b = left.join(right.map(..))`.
    All channels have capacity 1. Messages from host 1 to the replicas of B on host 2 do not
    go to B's channels directly: per (previous block, next block, pair of hosts) there is ONE
    connection (src/network/sync/multiplexer.rs, demultiplexer.rs), served at the receiving
    side by one thread which does a blocking `send` into the bounded channel of the
    destination replica. So the replicas of A on host 1 share the connection "A->B", modelled
    as channel 4 (capacity 1) read by the demultiplexer node 4; C uses the connection "C->B"
    (channel 5, node 5).

    nodes   0,1,2 = A0,A1,A2   3 = C   4 = demux(A->B)   5 = demux(C->B)   6 = B0   7 = B1
    chans   0 = B0.left  1 = B1.left  2 = B0.right  3 = B1.right  4 = conn A->B  5 = conn C->B
            6 = C.in
    Every A replica sends each marker first to B0, B1 (through the connection) and then to C.

    The schedule below leads to: B0 has received the FlushAndRestart of A0,A1,A2 on the left, so
    its left side has ended the round and it reads only the right side (`select`); its left
    channel is full with the Terminate of A0; the demultiplexer is blocked handing over the
    Terminate of A1 (both arrived after the round had ended on the left); behind it the
    connection is full (Terminate of A0 for B1), so A2 is blocked sending its FlushAndRestart
    to B1 and has not yet sent it to C; C therefore never ends the round, B0's right side
    never ends, B0 never reads its left channel again. Nobody can move.

    Which obligation fails: O5/refusal. B0 (level 0: it has not broadcast FlushAndRestart)
    refuses a full channel on which the demultiplexer is blocked; the demultiplexer carries a
    message of a level-1 sender (a Terminate) in front of a message of a level-0 sender
    (A2's FlushAndRestart): no level can be assigned to it such that both O4 (for A2 blocked
    on the connection) and O5 (for the demultiplexer blocked on B0) hold. With direct
    channels (one host) the same job satisfies all obligations. *)
Section MuxDeadlock.
  Definition cfgA : rcfg := {| r_kind := KSrc; r_outs := [(4, 0); (4, 1); (6, 6)]; r_douts := [] |}.
  Definition cfgC : rcfg := {| r_kind := KOp1 6 3; r_outs := [(5, 2); (5, 3)]; r_douts := [] |}.
  Definition cfgMA : rcfg := {| r_kind := KDemux 4; r_outs := []; r_douts := [] |}.
  Definition cfgMC : rcfg := {| r_kind := KDemux 5; r_outs := []; r_douts := [] |}.
  Definition cfgB0 : rcfg := {| r_kind := KOp2 0 3 2 1; r_outs := []; r_douts := [] |}.
  Definition cfgB1 : rcfg := {| r_kind := KOp2 1 3 3 1; r_outs := []; r_douts := [] |}.

  Definition mux_cfg (i : nat) : rcfg :=
    match i with
    | 0 | 1 | 2 => cfgA | 3 => cfgC | 4 => cfgMA | 5 => cfgMC | 6 => cfgB0 | _ => cfgB1
    end.

  Definition mux_net : net emsg rstate :=
    {| n_nodes := 8; n_chans := 7;
       n_cons := fun c => match c with 0 => 6 | 1 => 7 | 2 => 6 | 3 => 7 | 4 => 4 | 5 => 5 | _ => 3 end;
       n_prod := fun c i => match c with
                            | 0 | 1 => Nat.eqb i 4
                            | 2 | 3 => Nat.eqb i 5
                            | 4 | 6 => Nat.leb i 2
                            | _ => Nat.eqb i 3
                            end;
       n_cap := fun _ => 1;
       n_sem := fun i => r_sem (mux_cfg i);
       n_init := {| nodes := [r_src_init [] cfgA; r_src_init [] cfgA; r_src_init [] cfgA;
                              r_op_init cfgC; r_demux_init 6; r_demux_init 2;
                              r_op_init cfgB0; r_op_init cfgB1];
                    chans := [[]; []; []; []; []; []; []] |} |}.

  Lemma mux_net_ok : net_ok mux_net.
  Proof.
    split; [|split; [|split]]; try reflexivity.
    - intros c Hc. cbn in Hc. do 7 (destruct c as [|c]; [cbn; lia|]). lia.
    - intros c i Hc Hp. cbn in Hc.
      do 7 (destruct c as [|c];
            [cbn in *; try apply Nat.eqb_eq in Hp; try apply Nat.leb_le in Hp; lia|]). lia.
  Qed.

  Definition mux_schedule : list action :=
    [ ASend 0; ARecv 4 4; ASend 0; ASend 0; ARecv 3 6; ASend 4;
      ARecv 4 4; ASend 1; ASend 4; ARecv 4 4; ASend 1; ASend 1;
      ARecv 3 6; ARecv 6 0; ASend 4; ARecv 4 4; ASend 2; ARecv 6 0;
      ARecv 7 1; ASend 4; ARecv 4 4; ASend 0; ASend 4; ARecv 4 4;
      ASend 1; ARecv 6 0; ASend 4; ARecv 4 4; ASend 0; ASend 0;
      ARecv 3 6; ARecv 7 1 ].

  Definition mux_dead : state emsg rstate :=
    Eval vm_compute in
      match exec_all mux_net (n_init mux_net) mux_schedule with Some s => s | None => n_init mux_net end.

  Lemma mux_dead_reached : exec_all mux_net (n_init mux_net) mux_schedule = Some mux_dead.
  Proof. vm_compute. reflexivity. Qed.

  Theorem mux_hol_deadlock : exists s, reachable mux_net s /\ stuck mux_net s.
  Proof.
    exists mux_dead. split.
    - eapply exec_all_reachable. exact mux_dead_reached.
    - apply disabled_stuck.
      + vm_compute. reflexivity.
      + intros Hfin. specialize (Hfin 1 _ eq_refl). vm_compute in Hfin. discriminate.
  Qed.

  (** the blocked state, for the record: A0 done; A1 blocked with Terminate for B1 and A2 with
      FlushAndRestart for B1 on the full connection; the demultiplexer blocked with Terminate
      for B0 on B0's full left channel; B0 wants only its (empty) right channel; C wants its
      (empty) input and still misses one FlushAndRestart *)
  Lemma mux_dead_shape :
    map r_pending (nodes mux_dead) =
      [None; Some (4, (1, MT)); Some (4, (1, MF)); None; Some (0, (0, MT)); None; None; None] /\
    chans mux_dead = [[(0, MT)]; []; []; []; [(1, MT)]; []; []] /\
    map (fun i => wants (n_sem mux_net i) (nth i (nodes mux_dead) (r_demux_init 0))) [3; 6; 7] =
      [[6]; [2]; [1; 3]] /\
    r_mfl (nth 3 (nodes mux_dead) (r_demux_init 0)) = 1.
  Proof. vm_compute. repeat split. Qed.
End MuxDeadlock.

(** * The same mechanism on a plain join of two parallel sources (finding F13', reproduced on
    the unmodified engine: 2 hosts, `left.join(right)`)

    Producer blocks L and R (sources, 3 replicas each on host X), the two-input block B with
    replicas a < b on host Y. All messages of L's replicas for a and b travel through ONE
    connection (L->B, X->Y), served on host Y by the demultiplexer DL; R's through the
    connection (R->B, X->Y) with its own demultiplexer DR. All channels and both connections
    have capacity 1.

    nodes   0,1,2 = L0,L1,L2   3,4,5 = R0,R1,R2   6 = DL   7 = DR   8 = a   9 = b
    chans   0 = a.left  1 = b.left  2 = a.right  3 = b.right  4 = conn L->B  5 = conn R->B

    In the engine the order in which a replica's End sends a marker to its consumers is not
    fixed: `Batcher::enqueue` flushes a destination early when its batch fills while End is
    still enqueueing the marker for the others. At marker level the order is the order of
    [r_outs]: L's replicas send each marker to a, then b; R's replicas to b, then a.

    The schedule: L0 and L1 complete their FlushAndRestart broadcast, L2 delivers its
    FlushAndRestart to a only; a's left side has now ended the round, so a reads only its right
    side. L0's Terminate fills a's left channel, DL is blocked handing over L1's Terminate, and
    L2's FlushAndRestart for b is behind it in the connection. Symmetrically on the right: b's
    right side has ended, b reads only its left side, its right channel holds R0's Terminate,
    DR is blocked with R1's Terminate, R2's FlushAndRestart for a is behind it. So a waits for
    R2's FlushAndRestart (stuck behind DR's blocked message, which waits for b), b waits for
    L2's FlushAndRestart (stuck behind DL's blocked message, which waits for a).

    With capacity 1 this is the smallest instance of the shape: after a's left side has ended,
    two Terminates for a are needed (one fills the channel, one blocks DL) from two replicas
    that have completed their FlushAndRestart broadcast, and the FlushAndRestart for b behind
    them must come from a third replica. *)
Section MuxJoinDeadlock.
  Definition jL : rcfg := {| r_kind := KSrc; r_outs := [(4, 0); (4, 1)]; r_douts := [] |}.
  (** the right producers; [same_order = false]: to b first, then a (the deadlocking order) *)
  Definition jR (same_order : bool) : rcfg :=
    {| r_kind := KSrc;
       r_outs := if same_order then [(5, 2); (5, 3)] else [(5, 3); (5, 2)];
       r_douts := [] |}.
  Definition jDL : rcfg := {| r_kind := KDemux 4; r_outs := []; r_douts := [] |}.
  Definition jDR : rcfg := {| r_kind := KDemux 5; r_outs := []; r_douts := [] |}.
  Definition jBa : rcfg := {| r_kind := KOp2 0 3 2 3; r_outs := []; r_douts := [] |}.
  Definition jBb : rcfg := {| r_kind := KOp2 1 3 3 3; r_outs := []; r_douts := [] |}.

  Definition mux_join_cfg (same_order : bool) (i : nat) : rcfg :=
    match i with
    | 0 | 1 | 2 => jL | 3 | 4 | 5 => jR same_order | 6 => jDL | 7 => jDR | 8 => jBa | _ => jBb
    end.

  Definition mux_join_gen (same_order : bool) : net emsg rstate :=
    {| n_nodes := 10; n_chans := 6;
       n_cons := fun c => match c with 0 => 8 | 1 => 9 | 2 => 8 | 3 => 9 | 4 => 6 | _ => 7 end;
       n_prod := fun c i => match c with
                            | 0 | 1 => Nat.eqb i 6
                            | 2 | 3 => Nat.eqb i 7
                            | 4 => Nat.leb i 2
                            | _ => Nat.leb 3 i && Nat.leb i 5
                            end;
       n_cap := fun _ => 1;
       n_sem := fun i => r_sem (mux_join_cfg same_order i);
       n_init := {| nodes := [r_src_init [] jL; r_src_init [] jL; r_src_init [] jL;
                              r_src_init [] (jR same_order); r_src_init [] (jR same_order);
                              r_src_init [] (jR same_order);
                              r_demux_init 6; r_demux_init 6;
                              r_op_init jBa; r_op_init jBb];
                    chans := [[]; []; []; []; []; []] |} |}.

  Definition mux_join_net : net emsg rstate := mux_join_gen false.

  Lemma mux_join_gen_ok : forall o, net_ok (mux_join_gen o).
  Proof.
    intros o. split; [|split; [|split]]; try reflexivity.
    - intros c Hc. cbn in Hc. do 6 (destruct c as [|c]; [cbn; lia|]). lia.
    - intros c i Hc Hp. cbn in Hc.
      do 5 (destruct c as [|c];
            [cbn in *; try apply Nat.eqb_eq in Hp; try apply Nat.leb_le in Hp; lia|]).
      destruct c as [|c]; [|lia]. cbn in *.
      apply andb_true_iff in Hp. destruct Hp as [_ Hp]. apply Nat.leb_le in Hp. lia.
  Qed.

  Definition mux_join_schedule : list action :=
    [ (* L0, L1: FlushAndRestart to a and b; L2: to a only: a's left side has ended *)
      ASend 0; ARecv 6 4; ASend 6; ARecv 8 0;   ASend 0; ARecv 6 4; ASend 6; ARecv 9 1;
      ASend 1; ARecv 6 4; ASend 6; ARecv 8 0;   ASend 1; ARecv 6 4; ASend 6; ARecv 9 1;
      ASend 2; ARecv 6 4; ASend 6; ARecv 8 0;
      (* L0's Terminate fills a.left, L1's blocks DL, L2's FlushAndRestart for b is behind it *)
      ASend 0; ARecv 6 4; ASend 6;   ASend 1; ARecv 6 4;   ASend 2;
      (* R0, R1: FlushAndRestart to b and a; R2: to b only: b's right side has ended *)
      ASend 3; ARecv 7 5; ASend 7; ARecv 9 3;   ASend 3; ARecv 7 5; ASend 7; ARecv 8 2;
      ASend 4; ARecv 7 5; ASend 7; ARecv 9 3;   ASend 4; ARecv 7 5; ASend 7; ARecv 8 2;
      ASend 5; ARecv 7 5; ASend 7; ARecv 9 3;
      (* R0's Terminate fills b.right, R1's blocks DR, R2's FlushAndRestart for a is behind it *)
      ASend 3; ARecv 7 5; ASend 7;   ASend 4; ARecv 7 5;   ASend 5 ].

  Definition mux_join_dead : state emsg rstate :=
    Eval vm_compute in
      match exec_all mux_join_net (n_init mux_join_net) mux_join_schedule with
      | Some s => s | None => n_init mux_join_net end.

  Lemma mux_join_dead_reached :
    exec_all mux_join_net (n_init mux_join_net) mux_join_schedule = Some mux_join_dead.
  Proof. vm_compute. reflexivity. Qed.

  Theorem mux_join_deadlock : exists s, reachable mux_join_net s /\ stuck mux_join_net s.
  Proof.
    exists mux_join_dead. split.
    - eapply exec_all_reachable. exact mux_join_dead_reached.
    - apply disabled_stuck.
      + vm_compute. reflexivity.
      + intros Hfin. specialize (Hfin 0 _ eq_refl). vm_compute in Hfin. discriminate.
  Qed.

  (** the blocked state: every producer is blocked on its full connection (L0, L1 with the
      Terminate for b, L2 with the Terminate for a; R0, R1 with the Terminate for a, R2 with the
      Terminate for b); DL is blocked with a Terminate for a on a's full left channel, DR with a
      Terminate for b on b's full right channel; the connections hold the FlushAndRestart of
      L2 for b and of R2 for a; a has all 3 FlushAndRestart on the left and misses one on the
      right: it wants only its (empty) right channel; b the other way round *)
  Lemma mux_join_dead_shape :
    map r_pending (nodes mux_join_dead) =
      [Some (4, (1, MT)); Some (4, (1, MT)); Some (4, (0, MT));
       Some (5, (2, MT)); Some (5, (2, MT)); Some (5, (3, MT));
       Some (0, (0, MT)); Some (3, (3, MT)); None; None] /\
    chans mux_join_dead = [[(0, MT)]; []; []; [(3, MT)]; [(1, MF)]; [(2, MF)]] /\
    map (fun i => wants (n_sem mux_join_net i) (nth i (nodes mux_join_dead) (r_demux_init 0))) [8; 9] =
      [[2]; [1]] /\
    map (fun i => let x := nth i (nodes mux_join_dead) (r_demux_init 0) in (r_mfl x, r_mfr x)) [8; 9] =
      [(0, 1); (1, 0)].
  Proof. vm_compute. repeat split. Qed.
End MuxJoinDeadlock.

(** * Checking the obligations on a concrete finite network by enumeration *)
Section FiniteCheck.
  Context {msg st : Type} (NW : net msg st).
  Notation State := (state msg st).
  Notation sem := (n_sem NW).
  Variable lvl : nat -> st -> nat.
  Variable seqb : State -> State -> bool.
  Hypothesis seqb_sound : forall a b, seqb a b = true -> a = b.
  Hypothesis Hnet : net_ok NW.

  Definition all_actions : list action :=
    flat_map (fun i => ASend i :: ATau i :: map (ARecv i) (seq 0 (n_chans NW))) (seq 0 (n_nodes NW)).

  Definition succs (s : State) : list State :=
    flat_map (fun a => match exec NW s a with Some s' => [s'] | None => [] end) all_actions.

  Definition smem (s : State) (L : list State) : bool := existsb (seqb s) L.

  Definition closed (L : list State) : bool :=
    smem (n_init NW) L && forallb (fun s => forallb (fun s' => smem s' L) (succs s)) L.

  (** breadth-first closure with fuel *)
  Fixpoint add_new (cand seen acc : list State) : list State * list State :=
    match cand with
    | [] => (acc, seen)
    | s :: c => if smem s seen then add_new c seen acc else add_new c (s :: seen) (s :: acc)
    end.
  Fixpoint bfs (fuel : nat) (frontier seen : list State) : list State :=
    match fuel with
    | 0 => seen
    | S f =>
        match frontier with
        | [] => seen
        | _ => let '(new, seen') := add_new (flat_map succs frontier) seen [] in bfs f new seen'
        end
    end.
  Definition explore (fuel : nat) : list State := bfs fuel [n_init NW] [n_init NW].

  Lemma smem_In : forall s L, smem s L = true -> In s L.
  Proof.
    intros s L H. apply existsb_exists in H. destruct H as [x [Hin Hx]].
    apply seqb_sound in Hx. subst x. exact Hin.
  Qed.

  Lemma step_exec : forall s s', length (nodes s) = n_nodes NW -> length (chans s) = n_chans NW ->
    step NW s s' -> exists a, In a all_actions /\ exec NW s a = Some s'.
  Proof.
    intros s s' Hln Hlc H. inversion H; subst.
    - exists (ASend i). split.
      + apply in_flat_map. exists i. split; [|left; auto]. apply in_seq.
        assert (i < length (nodes s)) by (apply nth_error_Some; unfold node_at in *; congruence). lia.
      + cbn [exec]. rewrite H0, H1, H2.
        assert (E : (length (chan s c) <? n_cap NW c) = true) by (apply Nat.ltb_lt; auto).
        rewrite E. reflexivity.
    - exists (ARecv i c). split.
      + apply in_flat_map. exists i. split.
        * apply in_seq.
          assert (i < length (nodes s)) by (apply nth_error_Some; unfold node_at in *; congruence). lia.
        * right; right. apply in_map. apply in_seq.
          assert (c < length (chans s)).
          { destruct (lt_dec c (length (chans s))) as [Hlt|Hge]; auto.
            unfold chan in H4. rewrite nth_overflow in H4 by lia. discriminate. }
          lia.
      + cbn [exec]. rewrite H0, H1, H2.
        assert (E : existsb (Nat.eqb c) (wants (sem i) x) = true).
        { apply existsb_exists. exists c. split; auto. apply Nat.eqb_refl. }
        rewrite E, H4. reflexivity.
    - exists (ATau i). split.
      + apply in_flat_map. exists i. split; [|right; left; auto]. apply in_seq.
        assert (i < length (nodes s)) by (apply nth_error_Some; unfold node_at in *; congruence). lia.
      + cbn [exec]. rewrite H0, H1, H2, H3. reflexivity.
  Qed.

  Lemma closed_reachable : forall L, closed L = true -> forall s, reachable NW s -> In s L.
  Proof.
    intros L Hc s Hr. apply andb_true_iff in Hc. destruct Hc as [Hi Hcl].
    induction Hr as [|s s' Hr IH Hs].
    - apply smem_In; auto.
    - destruct (reachable_lengths NW Hnet s Hr) as [Hln Hlc].
      destruct (step_exec s s' Hln Hlc Hs) as [a [Ha He]].
      rewrite forallb_forall in Hcl. specialize (Hcl s IH).
      rewrite forallb_forall in Hcl. apply smem_In. apply Hcl.
      unfold succs. apply in_flat_map. exists a. split; auto. rewrite He. left; auto.
  Qed.

  (** ** boolean versions of the obligations *)
  Definition for_nodes (s : State) (f : nat -> st -> bool) : bool :=
    forallb (fun i => match node_at s i with
                      | Some x => finished (sem i) x || f i x
                      | None => true end) (seq 0 (n_nodes NW)).

  Lemma for_nodes_spec : forall s f, length (nodes s) = n_nodes NW -> for_nodes s f = true ->
    forall i x, node_at s i = Some x -> finished (sem i) x = false -> f i x = true.
  Proof.
    intros s f Hln H i x Hx Hf. unfold for_nodes in H. rewrite forallb_forall in H.
    assert (Hi : In i (seq 0 (n_nodes NW))).
    { apply in_seq. assert (i < length (nodes s)) by (apply nth_error_Some; unfold node_at in *; congruence). lia. }
    specialize (H i Hi). rewrite Hx, Hf in H. exact H.
  Qed.

  Definition ob_local_b (s : State) : bool :=
    for_nodes s (fun i x =>
      match pending (sem i) x with
      | Some (c, _) => (c <? n_chans NW) && n_prod NW c i
      | None => true
      end &&
      forallb (fun c => (c <? n_chans NW) && Nat.eqb (n_cons NW c) i) (wants (sem i) x)).

  Definition is_empty {X} (l : list X) : bool := match l with [] => true | _ => false end.

  Definition ob_recv_live_b (s : State) : bool :=
    for_nodes s (fun i x =>
      match pending (sem i) x, on_tau (sem i) x with
      | None, None =>
          negb (forallb (fun c => is_empty (chan s c)) (wants (sem i) x)) ||
          existsb (fun c =>
            existsb (fun p => n_prod NW c p &&
                       match node_at s p with
                       | Some y => negb (finished (sem p) y) && (lvl p y <=? lvl i x)
                       | None => false end) (seq 0 (n_nodes NW)))
            (wants (sem i) x)
      | _, _ => true
      end).

  Definition ob_consumer_alive_b (s : State) : bool :=
    for_nodes s (fun i x =>
      match pending (sem i) x with
      | Some (c, _) =>
          negb (n_cap NW c <=? length (chan s c)) ||
          match node_at s (n_cons NW c) with
          | Some y => negb (finished (sem (n_cons NW c)) y) && (lvl (n_cons NW c) y <=? lvl i x)
          | None => false
          end
      | None => true
      end).

  Definition ob_refusal_b (s : State) : bool :=
    for_nodes s (fun i x =>
      match pending (sem i) x with
      | Some (c, _) =>
          negb (n_cap NW c <=? length (chan s c)) ||
          match node_at s (n_cons NW c) with
          | Some y =>
              finished (sem (n_cons NW c)) y ||
              match pending (sem (n_cons NW c)) y, on_tau (sem (n_cons NW c)) y with
              | None, None => existsb (Nat.eqb c) (wants (sem (n_cons NW c)) y) ||
                              (lvl (n_cons NW c) y <? lvl i x)
              | _, _ => true
              end
          | None => true
          end
      | None => true
      end).

  Definition safe_b (s : State) : bool :=
    ob_local_b s && ob_recv_live_b s && ob_consumer_alive_b s && ob_refusal_b s.

  Lemma safe_b_sound : forall s, length (nodes s) = n_nodes NW -> safe_b s = true -> safe_state NW lvl s.
  Proof.
    intros s Hln H. unfold safe_b in H.
    apply andb_true_iff in H; destruct H as [H H4]. apply andb_true_iff in H; destruct H as [H H3].
    apply andb_true_iff in H; destruct H as [H1 H2].
    split; [|split; [|split]].
    - intros i x Hx Hf. pose proof (for_nodes_spec s _ Hln H1 i x Hx Hf) as Hb. cbv beta in Hb.
      apply andb_true_iff in Hb. destruct Hb as [Hp Hw]. split.
      + intros c m Hpm. rewrite Hpm in Hp. apply andb_true_iff in Hp. destruct Hp as [Hc Hpr].
        apply Nat.ltb_lt in Hc. auto.
      + intros c Hin. rewrite forallb_forall in Hw. specialize (Hw c Hin).
        apply andb_true_iff in Hw. destruct Hw as [Hc He]. apply Nat.ltb_lt in Hc. apply Nat.eqb_eq in He. auto.
    - intros i x Hx Hf Hp Ht Hempty.
      pose proof (for_nodes_spec s _ Hln H2 i x Hx Hf) as Hb. cbv beta in Hb. rewrite Hp, Ht in Hb.
      apply orb_true_iff in Hb. destruct Hb as [Hb|Hb].
      + exfalso. apply negb_true_iff in Hb.
        assert (Hall : forallb (fun c => is_empty (chan s c)) (wants (sem i) x) = true).
        { apply forallb_forall. intros c Hin. rewrite (Hempty c Hin). reflexivity. }
        congruence.
      + apply existsb_exists in Hb. destruct Hb as [c [Hin Hb]].
        apply existsb_exists in Hb. destruct Hb as [p [_ Hb]].
        apply andb_true_iff in Hb. destruct Hb as [Hpr Hb].
        destruct (node_at s p) as [y|] eqn:Hy; [|discriminate].
        apply andb_true_iff in Hb. destruct Hb as [Hfy Hl].
        apply negb_true_iff in Hfy. apply Nat.leb_le in Hl.
        exists c, p, y. repeat split; auto.
    - intros i x c m Hx Hf Hp Hfull.
      pose proof (for_nodes_spec s _ Hln H3 i x Hx Hf) as Hb. cbv beta in Hb. rewrite Hp in Hb.
      apply orb_true_iff in Hb. destruct Hb as [Hb|Hb].
      + apply negb_true_iff in Hb. apply Nat.leb_gt in Hb. lia.
      + destruct (node_at s (n_cons NW c)) as [y|] eqn:Hy; [|discriminate].
        apply andb_true_iff in Hb. destruct Hb as [Hfy Hl].
        apply negb_true_iff in Hfy. apply Nat.leb_le in Hl. exists y. repeat split; auto.
    - intros i x c m y Hx Hf Hp Hfull Hy Hfy Hpy Hty Hnin.
      pose proof (for_nodes_spec s _ Hln H4 i x Hx Hf) as Hb. cbv beta in Hb. rewrite Hp in Hb.
      apply orb_true_iff in Hb. destruct Hb as [Hb|Hb].
      + apply negb_true_iff in Hb. apply Nat.leb_gt in Hb. lia.
      + rewrite Hy, Hfy, Hpy, Hty in Hb. cbn [orb] in Hb.
        apply orb_true_iff in Hb. destruct Hb as [Hb|Hb].
        * exfalso. apply Hnin. apply existsb_exists in Hb. destruct Hb as [c' [Hin He]].
          apply Nat.eqb_eq in He. subst c'. exact Hin.
        * apply Nat.ltb_lt in Hb. exact Hb.
  Qed.

  (** if a closed set of states contains the initial state and every member passes the
      boolean obligations, they are invariants and the generic theorem applies *)
  Theorem checked_safe : forall L, closed L = true -> forallb safe_b L = true ->
    forall s, reachable NW s -> safe_state NW lvl s.
  Proof.
    intros L Hc Hs s Hr. destruct (reachable_lengths NW Hnet s Hr) as [Hln _].
    apply safe_b_sound; auto. rewrite forallb_forall in Hs. apply Hs.
    eapply closed_reachable; eauto.
  Qed.

  (** the same for a termination measure *)
  Variable mu : State -> nat.
  Definition mu_b (L : list State) : bool :=
    forallb (fun s => forallb (fun s' => mu s' <? mu s) (succs s)) L.

  Theorem checked_mu : forall L, closed L = true -> mu_b L = true ->
    forall s s', reachable NW s -> step NW s s' -> mu s' < mu s.
  Proof.
    intros L Hc Hm s s' Hr Hs. destruct (reachable_lengths NW Hnet s Hr) as [Hln Hlc].
    destruct (step_exec s s' Hln Hlc Hs) as [a [Ha He]].
    unfold mu_b in Hm. rewrite forallb_forall in Hm.
    specialize (Hm s (closed_reachable L Hc s Hr)). rewrite forallb_forall in Hm.
    apply Nat.ltb_lt. apply Hm. unfold succs. apply in_flat_map. exists a. split; auto.
    rewrite He. left; auto.
  Qed.
End FiniteCheck.

(** equality tests for the states of marker-level replicas *)
Fixpoint list_eqb {X} (e : X -> X -> bool) (a b : list X) : bool :=
  match a, b with
  | [], [] => true
  | x :: a', y :: b' => e x y && list_eqb e a' b'
  | _, _ => false
  end.
Lemma list_eqb_sound {X} (e : X -> X -> bool) :
  (forall x y, e x y = true -> x = y) -> forall a b, list_eqb e a b = true -> a = b.
Proof.
  intros He. induction a as [|x a IH]; intros [|y b] H; cbn [list_eqb] in H; try discriminate; auto.
  apply andb_true_iff in H. destruct H as [H1 H2]. f_equal; auto.
Qed.
Definition marker_eqb (a b : marker) : bool :=
  match a, b with MD, MD | MF, MF | MT, MT => true | _, _ => false end.
Definition emsg_eqb (a b : emsg) : bool := Nat.eqb (fst a) (fst b) && marker_eqb (snd a) (snd b).
Definition out_eqb (a b : nat * emsg) : bool := Nat.eqb (fst a) (fst b) && emsg_eqb (snd a) (snd b).
Definition rstate_eqb (a b : rstate) : bool :=
  list_eqb out_eqb (r_outq a) (r_outq b) && Nat.eqb (r_mfl a) (r_mfl b) && Nat.eqb (r_mfr a) (r_mfr b) &&
  Nat.eqb (r_mtl a) (r_mtl b) && Nat.eqb (r_mtr a) (r_mtr b) && Nat.eqb (r_rounds a) (r_rounds b) &&
  Bool.eqb (r_done a) (r_done b).
Definition rs_eqb (a b : state emsg rstate) : bool :=
  list_eqb rstate_eqb (nodes a) (nodes b) && list_eqb (list_eqb emsg_eqb) (chans a) (chans b).

Lemma emsg_eqb_sound : forall a b, emsg_eqb a b = true -> a = b.
Proof.
  intros [a1 a2] [b1 b2] H. unfold emsg_eqb in H. cbn [fst snd] in H.
  apply andb_true_iff in H. destruct H as [H1 H2]. apply Nat.eqb_eq in H1. subst.
  destruct a2, b2; try discriminate; reflexivity.
Qed.
Lemma out_eqb_sound : forall a b, out_eqb a b = true -> a = b.
Proof.
  intros [a1 a2] [b1 b2] H. unfold out_eqb in H. cbn [fst snd] in H.
  apply andb_true_iff in H. destruct H as [H1 H2]. apply Nat.eqb_eq in H1. apply emsg_eqb_sound in H2.
  subst. reflexivity.
Qed.
Lemma rstate_eqb_sound : forall a b, rstate_eqb a b = true -> a = b.
Proof.
  intros [q1 a1 b1 c1 d1 e1 f1] [q2 a2 b2 c2 d2 e2 f2] H. unfold rstate_eqb in H.
  cbn [r_outq r_mfl r_mfr r_mtl r_mtr r_rounds r_done] in H.
  repeat (apply andb_true_iff in H; destruct H as [H ?]).
  apply (list_eqb_sound out_eqb out_eqb_sound) in H.
  repeat match goal with E : Nat.eqb _ _ = true |- _ => apply Nat.eqb_eq in E end.
  match goal with E : Bool.eqb _ _ = true |- _ => apply Bool.eqb_prop in E end.
  subst. reflexivity.
Qed.
Lemma rs_eqb_sound : forall a b, rs_eqb a b = true -> a = b.
Proof.
  intros [n1 c1] [n2 c2] H. unfold rs_eqb in H. cbn [nodes chans] in H.
  apply andb_true_iff in H. destruct H as [H1 H2].
  apply (list_eqb_sound rstate_eqb rstate_eqb_sound) in H1.
  apply (list_eqb_sound _ (list_eqb_sound emsg_eqb emsg_eqb_sound)) in H2.
  subst. reflexivity.
Qed.

(** a measure for networks of marker-level replicas: every message is charged the number of
    steps it can still cause downstream (its own receive, plus one send and the charge of
    every message the receiver emits because of it) *)
Fixpoint msg_charge (cfg : nat -> rcfg) (cons : nat -> nat) (fuel c : nat) (m : emsg) : nat :=
  match fuel with
  | 0 => 0
  | S f =>
      let cf := cfg (cons c) in
      1 + match r_kind cf with
          | KSrc => 0
          | KDemux _ => 1 + msg_charge cfg cons f (fst m) m
          | _ => list_sum (map (fun '(w, d) => 1 + msg_charge cfg cons f w (d, snd m))
                               (match snd m with MD => r_douts cf | _ => r_outs cf end))
          end
  end.
Definition net_charge (cfg : nat -> rcfg) (NW : net emsg rstate) (s : state emsg rstate) : nat :=
  let ch := msg_charge cfg (n_cons NW) (n_nodes NW) in
  list_sum (map (fun x => list_sum (map (fun '(w, m) => 1 + ch w m) (r_outq x))) (nodes s)) +
  list_sum (map (fun '(c, q) => list_sum (map (ch c) q)) (combine (seq 0 (length (chans s))) (chans s))).

(** * The diamond on one host: direct channels of capacity 1, a side with more producers than
    capacity. Two source replicas A0, A1 feed the left input of the two-input replica B and
    the one-input replica C, whose output is B's right input.
    nodes 0,1 = A0,A1  2 = C  3 = B      chans 0 = B.left (producers A0,A1)  1 = B.right  2 = C.in
    Each source has one data batch for B and one for C; markers go first to B, then to C. *)
Section LocalDiamond.
  Definition dA : rcfg := {| r_kind := KSrc; r_outs := [(0, 0); (2, 2)]; r_douts := [] |}.
  Definition dC : rcfg := {| r_kind := KOp1 2 2; r_outs := [(1, 1)]; r_douts := [(1, 1)] |}.
  Definition dB : rcfg := {| r_kind := KOp2 0 2 1 1; r_outs := []; r_douts := [] |}.
  Definition dia_cfg (i : nat) : rcfg := match i with 0 | 1 => dA | 2 => dC | _ => dB end.
  Definition dia_net : net emsg rstate :=
    {| n_nodes := 4; n_chans := 3;
       n_cons := fun c => match c with 0 => 3 | 1 => 3 | _ => 2 end;
       n_prod := fun c i => match c with 0 | 2 => Nat.leb i 1 | _ => Nat.eqb i 2 end;
       n_cap := fun _ => 1;
       n_sem := fun i => r_sem (dia_cfg i);
       n_init := {| nodes := [r_src_init [(0, 0); (2, 2)] dA; r_src_init [(0, 0); (2, 2)] dA;
                              r_op_init dC; r_op_init dB];
                    chans := [[]; []; []] |} |}.

  Lemma dia_net_ok : net_ok dia_net.
  Proof.
    split; [|split; [|split]]; try reflexivity.
    - intros c Hc. cbn in Hc. do 3 (destruct c as [|c]; [cbn; lia|]). lia.
    - intros c i Hc Hp. cbn in Hc.
      do 3 (destruct c as [|c];
            [cbn in *; try apply Nat.eqb_eq in Hp; try apply Nat.leb_le in Hp; lia|]). lia.
  Qed.

  Definition dia_states : list (state emsg rstate) :=
    Eval vm_compute in explore dia_net rs_eqb 200.

  Definition dia_lvl (i : nat) (x : rstate) : nat := r_level x.

  Lemma dia_closed : closed dia_net rs_eqb dia_states = true.
  Proof. vm_compute. reflexivity. Qed.
  Lemma dia_all_safe : forallb (safe_b dia_net dia_lvl) dia_states = true.
  Proof. vm_compute. reflexivity. Qed.

  (** all reachable states of the one-host diamond satisfy the (level) obligations ... *)
  Theorem dia_safe : forall s, reachable dia_net s -> safe_state dia_net dia_lvl s.
  Proof.
    apply (checked_safe dia_net dia_lvl rs_eqb rs_eqb_sound dia_net_ok dia_states dia_closed dia_all_safe).
  Qed.

  (** ... hence it cannot deadlock, by the generic theorem *)
  Theorem dia_no_deadlock : forall s, reachable dia_net s -> ~ final dia_net s -> exists s', step dia_net s s'.
  Proof. apply (no_deadlock dia_net dia_lvl dia_net_ok dia_safe). Qed.

  (** ... and it terminates: every execution is finite and ends with all replicas finished *)
  Definition dia_mu : state emsg rstate -> nat := net_charge dia_cfg dia_net.
  Lemma dia_mu_decreases : mu_b dia_net dia_mu dia_states = true.
  Proof. vm_compute. reflexivity. Qed.

  Theorem dia_terminates : terminating dia_net (n_init dia_net).
  Proof.
    apply (terminates dia_net dia_lvl dia_net_ok dia_safe dia_mu).
    - apply (checked_mu dia_net rs_eqb rs_eqb_sound dia_net_ok dia_mu dia_states dia_closed dia_mu_decreases).
    - constructor.
  Qed.

  (** ... although the plain "never refuse a full channel" obligation does NOT hold: B refuses
      its full left channel (holding the Terminate of one source) while the other source is
      blocked on it with its Terminate *)
  Definition O5_b (s : state emsg rstate) : bool := ob_refusal_b dia_net (fun _ _ => 0) s.
  Lemma dia_refuses : existsb (fun s => negb (O5_b s)) dia_states = true.
  Proof. vm_compute. reflexivity. Qed.
End LocalDiamond.

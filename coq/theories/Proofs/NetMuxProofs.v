(** C04 for multi-host jobs: acyclic networks of marker-level replicas WITH demultiplexers
    (one connection per (block pair, host pair), served at the receiving side by a thread
    doing a blocking send into the destination's bounded channel, Model/Net.v [KDemux]).

    NetProofs.v exhibits two reachable deadlocks of such networks ([mux_hol_deadlock],
    [mux_join_deadlock]); both need a side of a two-input replica with MORE producers than
    its channel has capacity. This file proves the positive counterpart: when no side of a
    two-input replica has more producers than its channel holds ([mdag_ok], the capacity
    condition), the network never deadlocks and terminates, for every data volume and every
    schedule ([mux_safe_no_deadlock], [mux_safe_terminates]).

    Structure: as NetDagProofs.v (a global counting invariant [MInv], then the obligations of
    [safe_state], then the generic theorems of NetProofs.v). The accounting of the markers is
    per (written channel, final destination) pair - a connection carries messages for several
    destinations - and the message a demultiplexer holds is counted as the head of the
    connection it serves ([vchan]). Under the capacity condition the PLAIN obligations hold
    (level function constantly 0): a replica never refuses a full channel on which somebody
    is blocked, because a refused side has received all its FlushAndRestart, what is still
    addressed to it are Terminates, at most one per producer, and they all fit. *)
From Noir Require Import Model.Net Proofs.NetProofs Proofs.NetDagProofs.
From Coq Require Import List Arith Bool Lia Wf_nat.
Import ListNotations.
Local Open Scope nat_scope.

(** * Accounting by (written channel, destination) selectors *)
Definition sel := nat -> nat -> bool.
Definition dst (e : nat * emsg) : nat := fst (snd e).
Definition esel (f : sel) (k : marker) (e : nat * emsg) : bool := f (fst e) (dst e) && marker_eqb (mk e) k.
Definition osel (f : sel) (p : nat * nat) : bool := f (fst p) (snd p).

(** markers of kind k the node still has to send on the (channel, destination) pairs selected
    by f: those in its send queue plus, while the broadcast has not been queued, one per
    selected entry of [r_outs] *)
Definition owes (k : marker) (cf : rcfg) (x : rstate) (f : sel) : nat :=
  (if gate k x then cntb (osel f) (r_outs cf) else 0) + cntb (esel f k) (r_outq x).

Definition selw (w : nat) : sel := fun w' _ => Nat.eqb w' w.                   (* written to w *)
Definition selp (w d : nat) : sel := fun w' d' => Nat.eqb w' w && Nat.eqb d' d. (* written to w for d *)

Lemma cntb_le {X} : forall (p q : X -> bool) l, (forall a, In a l -> p a = true -> q a = true) ->
  cntb p l <= cntb q l.
Proof.
  intros p q. induction l as [|a l IH]; intros H; [cbn; lia|].
  rewrite !cntb_cons. pose proof (IH ltac:(intros; apply H; auto; right; auto)).
  destruct (p a) eqn:E; [rewrite (H a) by (auto; left; auto); lia|]. destruct (q a); lia.
Qed.

Lemma cntb_le_length {X} : forall (p : X -> bool) l, cntb p l <= length l.
Proof.
  intros p. induction l as [|a l IH]; [cbn; lia|]. rewrite cntb_cons. cbn [length]. destruct (p a); lia.
Qed.

Lemma cntb_all {X} : forall (p : X -> bool) l, (forall a, In a l -> p a = true) -> cntb p l = length l.
Proof.
  intros p. induction l as [|a l IH]; intros H; [reflexivity|].
  rewrite cntb_cons, IH, (H a); cbn [length]; auto; intros; [left; auto | apply H; right; auto].
Qed.

Lemma esel_bcast : forall f k k' outs,
  cntb (esel f k) (bcast outs k') = if marker_eqb k' k then cntb (osel f) outs else 0.
Proof.
  intros f k k'. induction outs as [|[w d] outs IH].
  - cbn. destruct (marker_eqb k' k); reflexivity.
  - cbn [bcast map]. rewrite !cntb_cons. unfold bcast in IH. rewrite IH.
    unfold esel, osel, mk, dst. cbn [fst snd].
    destruct (marker_eqb k' k); [|rewrite andb_false_r; reflexivity].
    rewrite andb_true_r. reflexivity.
Qed.

Lemma bcast_in2 : forall e outs k, In e (bcast outs k) -> mk e = k /\ In (fst e, dst e) outs.
Proof.
  intros e outs k H. unfold bcast in H. apply in_map_iff in H. destruct H as [[w d] [He Hin]].
  subst e. split; [reflexivity|]. cbn. exact Hin.
Qed.

Lemma owes_le : forall k cf x f g, (forall w d, f w d = true -> g w d = true) ->
  owes k cf x f <= owes k cf x g.
Proof.
  intros k cf x f g H. unfold owes.
  assert (cntb (osel f) (r_outs cf) <= cntb (osel g) (r_outs cf)).
  { apply cntb_le. intros a _. unfold osel. apply H. }
  assert (cntb (esel f k) (r_outq x) <= cntb (esel g k) (r_outq x)).
  { apply cntb_le. intros a _. unfold esel. intros E. apply andb_true_iff in E. destruct E as [E1 E2].
    rewrite (H _ _ E1), E2. reflexivity. }
  destruct (gate k x); lia.
Qed.

(** * Node invariant (sources and operators), per selector *)
Record mnode_inv (cf : rcfg) (x : rstate) : Prop := {
  mi_mono : mono (r_outq x);
  mi_rounds : r_rounds x = 0 \/ r_rounds x = 1;
  mi_done : r_done x = true -> r_rounds x = 1;
  mi_r0 : r_rounds x = 0 -> forall e, In e (r_outq x) -> mk e = MD;
  mi_nd : r_done x = false -> forall e, In e (r_outq x) -> mk e <> MT;
  mi_outs : forall e, In e (r_outq x) -> In (fst e, dst e) (r_outs cf);
  mi_kind : kind_inv cf x;
  mi_n0 : forall f e, In e (r_outq x) -> mk e = MD -> f (fst e) (dst e) = true -> 1 <= owes MF cf x f;
  mi_n1 : forall f, owes MF cf x f <= owes MT cf x f
}.

(** static facts about a source/operator configuration *)
Definition mcfg_ok (cf : rcfg) : Prop :=
  (forall p, In p (r_douts cf) -> In p (r_outs cf)) /\
  match r_kind cf with
  | KSrc => True
  | KOp1 _ k => 1 <= k
  | KOp2 l kl r kr => 1 <= kl /\ 1 <= kr /\ l <> r
  | KDemux _ => False
  end.

Lemma mcfg_cfg_ok : forall cf, mcfg_ok cf -> cfg_ok cf.
Proof.
  intros cf [H1 H2]. split; auto.
  intros e He. apply bcast_in2 in He. destruct He as [_ He]. apply H1 in He.
  unfold chs. apply in_map_iff. exists (fst e, dst e). auto.
Qed.

Lemma owes_send : forall k cf x e rest f, r_outq x = e :: rest ->
  owes k cf x f = owes k cf (r_on_send x) f + (if esel f k e then 1 else 0).
Proof.
  intros k cf x e rest f Hq. unfold owes.
  assert (Hg : gate k (r_on_send x) = gate k x) by (destruct k; reflexivity).
  rewrite Hg. cbn [r_on_send r_outq]. rewrite Hq. cbn [tl]. rewrite cntb_cons. lia.
Qed.

Lemma mnode_inv_send : forall cf x e rest, mnode_inv cf x -> r_outq x = e :: rest ->
  mnode_inv cf (r_on_send x).
Proof.
  intros cf x e rest H Hq. destruct H as [Hm Hr Hd Hr0 Hnd Ho Hk Hn0 Hn1].
  rewrite Hq in *. destruct Hm as [Hhead Hm].
  assert (Hsub : forall e', In e' rest -> In e' (e :: rest)) by (intros; right; auto).
  split; try (cbn [r_on_send r_outq r_rounds r_done]; rewrite ?Hq; cbn [tl]; now auto).
  - intros f e' Hin Hmd Hf. cbn [r_on_send r_outq] in Hin. rewrite Hq in Hin. cbn [tl] in Hin.
    pose proof (Hn0 f e' (Hsub _ Hin) Hmd Hf) as H0.
    rewrite (owes_send MF cf x e rest f Hq) in H0.
    destruct (esel f MF e) eqn:E; [|lia].
    exfalso. unfold esel in E. apply andb_true_iff in E. destruct E as [_ E].
    apply marker_eqb_eq in E. pose proof (Hhead e' Hin) as Hrk. rewrite E, Hmd in Hrk. cbn in Hrk. lia.
  - intros f. pose proof (Hn1 f) as H1.
    rewrite (owes_send MF cf x e rest f Hq), (owes_send MT cf x e rest f Hq) in H1.
    destruct (esel f MT e) eqn:ET; [|lia].
    unfold esel in ET. apply andb_true_iff in ET. destruct ET as [_ ET]. apply marker_eqb_eq in ET.
    assert (Hdone : r_done x = true).
    { destruct (r_done x) eqn:Ed; auto. exfalso. apply (Hnd eq_refl e); [left; auto | auto]. }
    assert (Hz : owes MF cf (r_on_send x) f = 0).
    { unfold owes. cbn [gate r_on_send r_rounds r_outq]. rewrite Hq. cbn [tl].
      rewrite (Hd Hdone). cbn [Nat.eqb]. rewrite cntb_zero; auto.
      intros a Ha. unfold esel. pose proof (Hhead a Ha) as Hrk. rewrite ET in Hrk.
      destruct (mk a); cbn in Hrk; try lia. cbn. apply andb_false_r. }
    lia.
Qed.

Lemma owes_nil_gate : forall k cf x f, r_outq x = [] ->
  owes k cf x f = if gate k x then cntb (osel f) (r_outs cf) else 0.
Proof. intros. unfold owes. rewrite H. cbn. lia. Qed.

Lemma cntb_osel_in : forall f outs p, In p outs -> f (fst p) (snd p) = true -> 1 <= cntb (osel f) outs.
Proof. intros f outs p Hin Hf. eapply cntb_in; eauto. Qed.

Lemma mnode_inv_count : forall cf kl kr sd m x,
  mcfg_ok cf -> mnode_inv cf x -> r_outq x = [] -> r_done x = false ->
  (m <> MT -> r_rounds x = 0) ->
  (m = MT -> r_done (r_count cf kl kr sd m x) = true -> r_rounds x = 1) ->
  kind_inv cf (r_count cf kl kr sd m x) ->
  mnode_inv cf (r_count cf kl kr sd m x) /\
  (forall f k, k <> MD -> owes k cf (r_count cf kl kr sd m x) f = owes k cf x f).
Proof.
  intros cf kl kr sd m x [Hdo _] H Hq Hd Hr0' HrT Hk'.
  destruct H as [Hm Hr Hdn Hr0 Hnd Ho Hk Hn0 Hn1].
  assert (Howe : forall f k, k <> MD -> owes k cf (r_count cf kl kr sd m x) f = owes k cf x f).
  { intros f k Hkd. rewrite (owes_nil_gate k cf x f Hq). unfold owes, r_count.
    destruct m.
    - cbn [r_outq r_rounds r_done gate]. rewrite Hq. cbn [app]. rewrite esel_bcast.
      destruct k; try congruence; cbn [marker_eqb gate r_rounds r_done]; lia.
    - specialize (Hr0' ltac:(discriminate)).
      destruct (Nat.eqb _ 0); cbn [r_outq r_rounds r_done gate]; rewrite ?Hq; cbn [app].
      + rewrite esel_bcast. destruct k; try congruence; cbn [marker_eqb gate r_rounds r_done];
          rewrite ?Hr0', ?Hd; cbn; lia.
      + destruct k; try congruence; cbn [gate r_rounds r_done]; cbn; lia.
    - destruct (Nat.eqb _ 0); cbn [r_outq r_rounds r_done gate]; rewrite ?Hq; cbn [app].
      + rewrite esel_bcast. destruct k; try congruence; cbn [marker_eqb gate r_rounds r_done];
          rewrite ?Hd; cbn; lia.
      + destruct k; try congruence; cbn [gate r_rounds r_done]; cbn; lia. }
  split; [|exact Howe].
  assert (Hn1' : forall f, owes MF cf (r_count cf kl kr sd m x) f <= owes MT cf (r_count cf kl kr sd m x) f).
  { intros f. rewrite !Howe by discriminate. apply Hn1. }
  assert (Hbc : forall e outs k, In e (bcast outs k) -> mk e = k /\ In (fst e, dst e) outs) by apply bcast_in2.
  destruct m.
  - (* data *)
    specialize (Hr0' ltac:(discriminate)).
    split; auto; unfold r_count in *; cbn [r_outq r_rounds r_done] in *; rewrite ?Hq; cbn [app]; auto.
    all: try apply mono_bcast.
    all: try (intros; match goal with He : In _ (bcast _ _) |- _ => apply Hbc in He; destruct He as [He1 He2] end;
              solve [tauto | congruence | auto]).
    intros f e He _ Hf. unfold owes. cbn [gate r_rounds]. rewrite Hr0'. cbn [Nat.eqb].
    apply Hbc in He. destruct He as [_ He]. apply Hdo in He.
    pose proof (cntb_osel_in f _ _ He Hf). lia.
  - (* FlushAndRestart *)
    specialize (Hr0' ltac:(discriminate)).
    unfold r_count in *. destruct (Nat.eqb _ 0).
    + split; auto; cbn [r_outq r_rounds r_done] in *; rewrite ?Hq; cbn [app]; auto.
      all: try apply mono_bcast.
      all: try (intros; lia).
      all: try (intros; match goal with He : In _ (bcast _ _) |- _ => apply Hbc in He; destruct He as [He1 He2] end;
                solve [tauto | congruence | auto]).
    + split; auto; cbn [r_outq r_rounds r_done] in *; rewrite ?Hq; auto; intros; contradiction.
  - (* Terminate *)
    specialize (HrT eq_refl).
    unfold r_count in *. destruct (Nat.eqb _ 0).
    + cbn [r_done] in HrT. specialize (HrT eq_refl).
      split; auto; cbn [r_outq r_rounds r_done] in *; rewrite ?Hq; cbn [app]; auto.
      all: try apply mono_bcast.
      all: try (intros; lia).
      all: try (intros; discriminate).
      all: try (intros; match goal with He : In _ (bcast _ _) |- _ => apply Hbc in He; destruct He as [He1 He2] end;
                solve [tauto | congruence | auto]).
    + split; auto; cbn [r_outq r_rounds r_done] in *; rewrite ?Hq; auto; intros; contradiction.
Qed.

Lemma mnode_inv_recv : forall cf x c m, mcfg_ok cf -> mnode_inv cf x -> is_input cf c ->
  r_outq x = [] -> r_done x = false ->
  (snd m <> MT -> r_rounds x = 0) ->
  (snd m = MT -> r_done (r_on_recv cf x c m) = true -> r_rounds x = 1) ->
  mnode_inv cf (r_on_recv cf x c m) /\
  (forall f k, k <> MD -> owes k cf (r_on_recv cf x c m) f = owes k cf x f).
Proof.
  intros cf x c m Hcf Hn Hin Hq Hd Hr HrT.
  pose proof (kind_inv_recv cf x c m (mcfg_cfg_ok _ Hcf) (mi_kind _ _ Hn) Hin Hd Hr) as Hk'.
  unfold r_on_recv, is_input in *. destruct (r_kind cf) as [|c' k|l kl r kr|p] eqn:Ek; try contradiction.
  - apply mnode_inv_count; auto.
  - apply mnode_inv_count; auto.
Qed.

(** * Acyclic networks of marker-level replicas with demultiplexers *)
Record mdag := {
  m_n : nat;                                (* number of nodes (replicas and demultiplexers) *)
  m_nc : nat;                               (* number of channels (replica inputs and connections) *)
  m_cfg : nat -> rcfg;                      (* configuration of each node *)
  m_data : nat -> list (nat * nat);         (* sources: the data batches it sends, in order *)
  m_cons : nat -> nat;                      (* consumer of each channel *)
  m_cap : nat -> nat;                       (* capacity of each channel *)
  m_nterm : nat -> nat                      (* demultiplexers: number of Terminates to forward *)
}.

Definition demuxb (cf : rcfg) : bool := match r_kind cf with KDemux _ => true | _ => false end.
(** channel c is a connection: its consumer is a demultiplexer *)
Definition m_conn (D : mdag) (c : nat) : bool := demuxb (m_cfg D (m_cons D c)).
(** some node writes to connection p messages finally meant for channel d *)
Definition routesb (D : mdag) (p d : nat) : bool :=
  existsb (fun j => existsb (osel (selp p d)) (r_outs (m_cfg D j))) (seq 0 (m_n D)).

(** node i writes to channel c: a source/operator has it in [r_outs]; a demultiplexer writes
    to the destinations routed through its connection *)
Definition m_prod (D : mdag) (c i : nat) : bool :=
  (i <? m_n D) &&
  match r_kind (m_cfg D i) with
  | KDemux p => routesb D p c
  | _ => memb c (chs (r_outs (m_cfg D i)))
  end.

Definition m_init_node (D : mdag) (i : nat) : rstate :=
  match r_kind (m_cfg D i) with
  | KSrc => r_src_init (m_data D i) (m_cfg D i)
  | KDemux _ => r_demux_init (m_nterm D i)
  | _ => r_op_init (m_cfg D i)
  end.

Definition mnet_of (D : mdag) : net emsg rstate :=
  {| n_nodes := m_n D; n_chans := m_nc D; n_cons := m_cons D; n_prod := m_prod D; n_cap := m_cap D;
     n_sem := fun i => r_sem (m_cfg D i);
     n_init := {| nodes := map (m_init_node D) (seq 0 (m_n D)); chans := repeat [] (m_nc D) |} |}.

Definition seld (d : nat) : sel := fun _ d' => Nat.eqb d' d.
(** number of FINAL producers of channel d: the source/operator replicas that write to d
    directly, plus those that write to a connection messages finally meant for d (see
    [nfin_by_dest]: under [mstruct_ok] this is the number of outputs with destination d) *)
Definition nrouted (D : mdag) (p d : nat) : nat :=
  sumn (m_n D) (fun i => cntb (osel (selp p d)) (r_outs (m_cfg D i))).
Definition nfin (D : mdag) (d : nat) : nat :=
  nrouted D d d + sumn (m_nc D) (fun p => if m_conn D p then nrouted D p d else 0).
(** number of (producer, destination) pairs routed through connection p *)
Definition nroute (D : mdag) (p : nat) : nat :=
  sumn (m_n D) (fun i => cntb (osel (selw p)) (r_outs (m_cfg D i))).

(** ** well-formedness *)
Record mnode_ok (D : mdag) (i : nat) : Prop := {
  (* every output (w, d): both channels exist, the consumer of w has a larger index
     (topological numbering), and either w = d is the input channel of a replica (direct), or
     w <> d is a connection, d is the input channel of a replica, and the demultiplexer of w
     precedes the consumer of d *)
  mo_outs : forall w d, In (w, d) (r_outs (m_cfg D i)) ->
    w < m_nc D /\ d < m_nc D /\ i < m_cons D w /\
    ((w = d /\ m_conn D w = false) \/
     (w <> d /\ m_conn D w = true /\ m_conn D d = false /\ m_cons D w < m_cons D d));
  (* one output per final destination *)
  mo_nodup : NoDup (map snd (r_outs (m_cfg D i)));
  (* data is forwarded on outputs only *)
  mo_douts : forall p, In p (r_douts (m_cfg D i)) -> In p (r_outs (m_cfg D i));
  mo_kind :
    match r_kind (m_cfg D i) with
    | KSrc => forall p, In p (m_data D i) -> In p (r_outs (m_cfg D i))
    | KOp1 c k => c < m_nc D /\ m_cons D c = i /\ k = nfin D c /\ 1 <= k
    | KOp2 l kl r kr => l < m_nc D /\ r < m_nc D /\ l <> r /\ m_cons D l = i /\ m_cons D r = i /\
                        kl = nfin D l /\ kr = nfin D r /\ 1 <= kl /\ 1 <= kr
    | KDemux p => p < m_nc D /\ m_cons D p = i /\ r_outs (m_cfg D i) = [] /\ r_douts (m_cfg D i) = [] /\
                  m_nterm D i = nroute D p /\ 1 <= m_nterm D i
    end
}.

(** the consumer of a channel is a node that reads it, and the capacity is at least 1 *)
Definition mchan_ok (D : mdag) (c : nat) : Prop :=
  m_cons D c < m_n D /\ 1 <= m_cap D c /\
  match r_kind (m_cfg D (m_cons D c)) with
  | KOp1 c' _ => c' = c
  | KOp2 l _ r _ => l = c \/ r = c
  | KDemux p => p = c
  | KSrc => False
  end.

(** THE CAPACITY CONDITION: no side of a two-input replica has more (final) producers than
    its channel holds. Single-input replicas and demultiplexers need no such condition: they
    read their only input whenever they are in a receive, they never refuse it, so a full
    input channel always drains. A two-input replica stops reading a side that has ended its
    round; what can still arrive on that side are the Terminates of its producers, one each:
    with kl <= cap l they all fit and nobody ever waits on a refused channel. *)
Definition mcap_ok (D : mdag) : Prop :=
  forall i, i < m_n D ->
    match r_kind (m_cfg D i) with
    | KOp2 l kl r kr => kl <= m_cap D l /\ kr <= m_cap D r
    | _ => True
    end.

Definition mstruct_ok (D : mdag) : Prop :=
  (forall i, i < m_n D -> mnode_ok D i) /\ (forall c, c < m_nc D -> mchan_ok D c).

Definition mdag_ok (D : mdag) : Prop := mstruct_ok D /\ mcap_ok D.

(** ** the same as a boolean check *)
Definition memp (p : nat * nat) (l : list (nat * nat)) : bool := existsb (osel (selp (fst p) (snd p))) l.
Definition nilb {X} (l : list X) : bool := match l with [] => true | _ => false end.

Definition mout_okb (D : mdag) (i : nat) (p : nat * nat) : bool :=
  (fst p <? m_nc D) && (snd p <? m_nc D) && (i <? m_cons D (fst p)) &&
  (if Nat.eqb (fst p) (snd p) then negb (m_conn D (fst p))
   else m_conn D (fst p) && negb (m_conn D (snd p)) && (m_cons D (fst p) <? m_cons D (snd p))).

Definition mnode_okb (D : mdag) (i : nat) : bool :=
  let cf := m_cfg D i in
  forallb (mout_okb D i) (r_outs cf) && nodupb (map snd (r_outs cf)) &&
  forallb (fun p => memp p (r_outs cf)) (r_douts cf) &&
  match r_kind cf with
  | KSrc => forallb (fun p => memp p (r_outs cf)) (m_data D i)
  | KOp1 c k => (c <? m_nc D) && Nat.eqb (m_cons D c) i && Nat.eqb k (nfin D c) && (1 <=? k)
  | KOp2 l kl r kr =>
      (l <? m_nc D) && (r <? m_nc D) && negb (Nat.eqb l r) && Nat.eqb (m_cons D l) i && Nat.eqb (m_cons D r) i &&
      Nat.eqb kl (nfin D l) && Nat.eqb kr (nfin D r) && (1 <=? kl) && (1 <=? kr)
  | KDemux p => (p <? m_nc D) && Nat.eqb (m_cons D p) i && nilb (r_outs cf) && nilb (r_douts cf) &&
                Nat.eqb (m_nterm D i) (nroute D p) && (1 <=? m_nterm D i)
  end.

Definition mchan_okb (D : mdag) (c : nat) : bool :=
  (m_cons D c <? m_n D) && (1 <=? m_cap D c) &&
  match r_kind (m_cfg D (m_cons D c)) with
  | KOp1 c' _ => Nat.eqb c' c
  | KOp2 l _ r _ => Nat.eqb l c || Nat.eqb r c
  | KDemux p => Nat.eqb p c
  | KSrc => false
  end.

Definition mcap_okb (D : mdag) : bool :=
  forallb (fun i => match r_kind (m_cfg D i) with
                    | KOp2 l kl r kr => (kl <=? m_cap D l) && (kr <=? m_cap D r)
                    | _ => true
                    end) (seq 0 (m_n D)).

Definition mstruct_okb (D : mdag) : bool :=
  forallb (mnode_okb D) (seq 0 (m_n D)) && forallb (mchan_okb D) (seq 0 (m_nc D)).

Definition mdag_okb (D : mdag) : bool := mstruct_okb D && mcap_okb D.

Lemma memp_In : forall p l, memp p l = true <-> In p l.
Proof.
  intros [w d] l. unfold memp. rewrite existsb_exists. cbn [fst snd]. split.
  - intros [[w' d'] [Hin He]]. unfold osel, selp in He. cbn [fst snd] in He.
    apply andb_true_iff in He. destruct He as [H1 H2]. apply Nat.eqb_eq in H1, H2. subst. exact Hin.
  - intros H. exists (w, d). split; auto. unfold osel, selp. cbn [fst snd]. rewrite !Nat.eqb_refl. reflexivity.
Qed.

Lemma forallb_memp : forall l outs, forallb (fun p => memp p outs) l = true <-> (forall p, In p l -> In p outs).
Proof.
  intros l outs. rewrite forallb_forall. split; intros H p Hp.
  - apply memp_In. apply H. exact Hp.
  - apply memp_In. apply H. exact Hp.
Qed.

Lemma nilb_nil {X} : forall l : list X, nilb l = true <-> l = [].
Proof. intros [|a l]; cbn; split; intros; congruence. Qed.

Lemma mout_okb_spec : forall D i w d, mout_okb D i (w, d) = true <->
  w < m_nc D /\ d < m_nc D /\ i < m_cons D w /\
  ((w = d /\ m_conn D w = false) \/
   (w <> d /\ m_conn D w = true /\ m_conn D d = false /\ m_cons D w < m_cons D d)).
Proof.
  intros D i w d. unfold mout_okb. cbn [fst snd]. split.
  - intros H. b2p. repeat split; auto.
    destruct (Nat.eqb w d) eqn:E; b2p; [left; auto|right]. repeat split; auto.
  - intros [H1 [H2 [H3 H4]]]. p2b; auto.
    destruct H4 as [[-> H4] | [Hne [H4 [H5 H6]]]].
    + rewrite Nat.eqb_refl. rewrite H4. reflexivity.
    + apply Nat.eqb_neq in Hne. rewrite Hne, H4, H5. cbn. apply Nat.ltb_lt. exact H6.
Qed.

Lemma mnode_okb_spec : forall D i, mnode_okb D i = true <-> mnode_ok D i.
Proof.
  intros D i. unfold mnode_okb. split.
  - intros H. b2p. split.
    + intros w d Hin. rewrite forallb_forall in H. apply mout_okb_spec. apply H. exact Hin.
    + apply nodupb_NoDup. auto.
    + apply forallb_memp. auto.
    + destruct (r_kind (m_cfg D i)).
      * apply forallb_memp. auto.
      * b2p. auto.
      * b2p. repeat split; auto.
      * b2p. repeat split; auto; apply nilb_nil; auto.
  - intros [H1 H2 H3 H4]. p2b.
    + apply forallb_forall. intros [w d] Hin. apply mout_okb_spec. auto.
    + apply nodupb_NoDup. auto.
    + apply forallb_memp. auto.
    + destruct (r_kind (m_cfg D i)).
      * apply forallb_memp. auto.
      * destruct H4 as [? [? [? ?]]]. p2b; auto.
      * destruct H4 as [? [? [? [? [? [? [? [? ?]]]]]]]]. p2b; auto.
      * destruct H4 as [? [? [? [? [? ?]]]]]. p2b; auto; apply nilb_nil; auto.
Qed.

Lemma mchan_okb_spec : forall D c, mchan_okb D c = true <-> mchan_ok D c.
Proof.
  intros D c. unfold mchan_okb, mchan_ok. split.
  - intros H. b2p. repeat split; auto.
    destruct (r_kind (m_cfg D (m_cons D c))); try discriminate; b2p; auto.
    destruct H0; b2p; auto.
  - intros [H1 [H2 H3]]. p2b; auto.
    destruct (r_kind (m_cfg D (m_cons D c))); try contradiction.
    + apply Nat.eqb_eq. auto.
    + apply orb_true_iff. destruct H3; [left|right]; apply Nat.eqb_eq; auto.
    + apply Nat.eqb_eq. auto.
Qed.

Lemma mcap_okb_spec : forall D, mcap_okb D = true <-> mcap_ok D.
Proof.
  intros D. unfold mcap_okb, mcap_ok. rewrite forallb_forall. split.
  - intros H i Hi. specialize (H i ltac:(apply in_seq; lia)).
    destruct (r_kind (m_cfg D i)); auto. b2p. auto.
  - intros H i Hi. apply in_seq in Hi. specialize (H i ltac:(lia)).
    destruct (r_kind (m_cfg D i)); auto. destruct H. p2b; auto.
Qed.

Theorem mdag_okb_spec : forall D, mdag_okb D = true <-> mdag_ok D.
Proof.
  intros D. unfold mdag_okb, mdag_ok, mstruct_okb, mstruct_ok.
  rewrite !andb_true_iff, mcap_okb_spec, !forallb_forall. split.
  - intros [[H1 H2] H3]. split; auto. split.
    + intros i Hi. apply mnode_okb_spec. apply H1. apply in_seq. lia.
    + intros c Hc. apply mchan_okb_spec. apply H2. apply in_seq. lia.
  - intros [[H1 H2] H3]. split; auto. split.
    + intros i Hi. apply mnode_okb_spec. apply H1. apply in_seq in Hi. lia.
    + intros c Hc. apply mchan_okb_spec. apply H2. apply in_seq in Hc. lia.
Qed.

(** * Messages for a destination in a channel *)
Definition msd (d : nat) (k : marker) (m : emsg) : bool := Nat.eqb (fst m) d && marker_eqb (snd m) k.
Definition mc (k : marker) (d : nat) (q : list emsg) : nat := cntb (msd d k) q.

Lemma mc_app : forall k d q1 q2, mc k d (q1 ++ q2) = mc k d q1 + mc k d q2.
Proof. intros. unfold mc. apply cntb_app. Qed.
Lemma mc_cons : forall k d m q, mc k d (m :: q) = (if msd d k m then 1 else 0) + mc k d q.
Proof. intros. unfold mc. apply cntb_cons. Qed.
Lemma mc_snoc : forall k d q m, mc k d (q ++ [m]) = mc k d q + (if msd d k m then 1 else 0).
Proof. intros. rewrite mc_app, mc_cons. cbn. lia. Qed.
Lemma mc_nil : forall k d, mc k d [] = 0.
Proof. reflexivity. Qed.
Lemma mc_le_mcount : forall k d q, mc k d q <= mcount k q.
Proof.
  intros. unfold mc, mcount. apply cntb_le. intros a _ H. unfold msd in H. apply andb_true_iff in H.
  unfold msel. tauto.
Qed.

Lemma sumn_if_elem : forall n (b : nat -> bool) f p, p < n -> b p = true ->
  f p <= sumn n (fun i => if b i then f i else 0).
Proof.
  intros n b f p Hp Hb. pose proof (sumn_elem n (fun i => if b i then f i else 0) p Hp) as H.
  cbv beta in H. rewrite Hb in H. exact H.
Qed.

Lemma sumn_if_pos : forall n (b : nat -> bool) f, 1 <= sumn n (fun i => if b i then f i else 0) ->
  exists p, p < n /\ b p = true /\ 1 <= f p.
Proof.
  intros n b f H. apply sumn_pos in H. destruct H as [p [Hp H]]. exists p. destruct (b p); [auto|lia].
Qed.

Section MDag.
  Variable D : mdag.
  Notation N := (m_n D).
  Notation C := (m_nc D).
  Notation cfg := (m_cfg D).
  Notation cons := (m_cons D).
  Notation conn := (m_conn D).
  Notation NW := (mnet_of D).
  Hypothesis Hok : mstruct_ok D.

  (** ** static facts *)
  Lemma mcfg_ok_of : forall i, i < N -> demuxb (cfg i) = false -> mcfg_ok (cfg i).
  Proof.
    intros i Hi Hd. destruct Hok as [Hn _]. destruct (Hn i Hi) as [H1 H2 H3 H4]. split; auto.
    unfold demuxb in Hd. destruct (r_kind (cfg i)); try discriminate; auto; tauto.
  Qed.

  Lemma outs_valid_m : forall i w d, i < N -> In (w, d) (r_outs (cfg i)) ->
    w < C /\ d < C /\ i < cons w /\
    ((w = d /\ conn w = false) \/ (w <> d /\ conn w = true /\ conn d = false /\ cons w < cons d)).
  Proof. intros i w d Hi Hin. destruct Hok as [Hn _]. apply (mo_outs _ _ (Hn i Hi)). exact Hin. Qed.

  Lemma is_input_nodemux : forall cf c, is_input cf c -> demuxb cf = false.
  Proof. intros cf c H. unfold is_input, demuxb in *. destruct (r_kind cf); auto; contradiction. Qed.

  Lemma input_cons_m : forall i c, i < N -> is_input (cfg i) c -> c < C /\ cons c = i.
  Proof.
    intros i c Hi Hin. destruct Hok as [Hn _]. destruct (Hn i Hi) as [_ _ _ H4].
    unfold is_input in Hin. destruct (r_kind (cfg i)); try contradiction.
    - subst c. tauto.
    - destruct Hin as [->| ->]; tauto.
  Qed.

  Lemma chan_final : forall c, c < C -> conn c = false ->
    cons c < N /\ is_input (cfg (cons c)) c /\ 1 <= m_cap D c /\ demuxb (cfg (cons c)) = false.
  Proof.
    intros c Hc Hcn. destruct Hok as [_ Hch]. destruct (Hch c Hc) as [H1 [H2 H3]].
    unfold m_conn, demuxb in Hcn. unfold is_input, demuxb.
    destruct (r_kind (cfg (cons c))); try contradiction; try discriminate; repeat split; auto.
    destruct H3; auto.
  Qed.

  Lemma chan_conn : forall c, c < C -> conn c = true ->
    cons c < N /\ r_kind (cfg (cons c)) = KDemux c /\ 1 <= m_cap D c.
  Proof.
    intros c Hc Hcn. destruct Hok as [_ Hch]. destruct (Hch c Hc) as [H1 [H2 H3]].
    unfold m_conn, demuxb in Hcn.
    destruct (r_kind (cfg (cons c))); try contradiction; try discriminate. subst. auto.
  Qed.

  Lemma demux_node : forall i p, i < N -> r_kind (cfg i) = KDemux p ->
    p < C /\ cons p = i /\ r_outs (cfg i) = [] /\ m_nterm D i = nroute D p /\ 1 <= m_nterm D i /\
    conn p = true.
  Proof.
    intros i p Hi Hk. destruct Hok as [Hn _]. destruct (Hn i Hi) as [_ _ _ H4]. rewrite Hk in H4.
    destruct H4 as [H1 [H2 [H3 [_ [H5 H6]]]]]. repeat split; auto.
    unfold m_conn, demuxb. rewrite H2, Hk. reflexivity.
  Qed.

  (** some source/operator writes to p messages for d *)
  Definition routes (p d : nat) : Prop := exists i, i < N /\ In (p, d) (r_outs (cfg i)).

  Lemma routes_facts : forall p d, routes p d -> conn p = true ->
    p < C /\ d < C /\ conn d = false /\ p <> d /\ cons p < cons d.
  Proof.
    intros p d [i [Hi Hin]] Hc. destruct (outs_valid_m i p d Hi Hin) as [H1 [H2 [H3 H4]]].
    destruct H4 as [[_ H4] | [H4 [_ [H5 H6]]]]; [congruence|]. auto.
  Qed.

  Lemma routes_routesb : forall p d, routes p d -> routesb D p d = true.
  Proof.
    intros p d [i [Hi Hin]]. unfold routesb. apply existsb_exists. exists i. split; [apply in_seq; lia|].
    apply (proj2 (memp_In (p, d) _)). exact Hin.
  Qed.

  Lemma routesb_routes : forall p d, routesb D p d = true -> routes p d.
  Proof.
    intros p d H. unfold routesb in H. apply existsb_exists in H. destruct H as [i [Hi H]].
    apply in_seq in Hi. exists i. split; [lia|]. apply (proj1 (memp_In (p, d) _)). exact H.
  Qed.

  Lemma mnet_of_ok : net_ok NW.
  Proof.
    split; [|split; [|split]].
    - intros c Hc. cbn in Hc |- *. destruct Hok as [_ Hch]. destruct (Hch c Hc) as [? [? _]]. auto.
    - intros c i Hc Hp. cbn in Hc, Hp |- *. unfold m_prod in Hp. apply andb_true_iff in Hp.
      destruct Hp as [Hi Hm]. apply Nat.ltb_lt in Hi.
      destruct (r_kind (cfg i)) as [|c' k|l kl r kr|p] eqn:Ek.
      4: { destruct (demux_node i p Hi Ek) as [_ [Hcp [_ [_ [_ Hcn]]]]].
           apply routesb_routes in Hm. destruct (routes_facts p c Hm Hcn) as [_ [_ [_ [_ H]]]]. lia. }
      all: apply memb_In in Hm; unfold chs in Hm; apply in_map_iff in Hm; destruct Hm as [[w d] [Hw Hin]];
        cbn [fst] in Hw; subst w; destruct (outs_valid_m i c d Hi Hin) as [_ [_ [H _]]]; exact H.
    - cbn. rewrite map_length, seq_length. reflexivity.
    - cbn. rewrite repeat_length. reflexivity.
  Qed.

  (** ** the invariant *)
  (** what the demultiplexer of connection p holds counts as the head of the connection *)
  Definition held (s : state emsg rstate) (p : nat) : list emsg := map snd (r_outq (nd s (cons p))).
  Definition vchan (s : state emsg rstate) (p : nat) : list emsg := held s p ++ chan s p.

  (** owed by the sources and operators on the selected outputs *)
  Definition cntk (s : state emsg rstate) (k : marker) (f : sel) : nat :=
    sumn N (fun i => if demuxb (cfg i) then 0 else owes k (cfg i) (nd s i) f).
  (** markers of kind k for destination d on the route through connection p *)
  Definition RT (s : state emsg rstate) (k : marker) (p d : nat) : nat :=
    cntk s k (selp p d) + mc k d (vchan s p).
  Definition UPS (s : state emsg rstate) (k : marker) (d : nat) : nat :=
    sumn C (fun p => if conn p then RT s k p d else 0).
  (** all markers of kind k still to be received from channel d *)
  Definition tot (s : state emsg rstate) (k : marker) (d : nat) : nat :=
    cntk s k (selp d d) + mc k d (chan s d) + UPS s k d.

  Definition conn_inv (s : state emsg rstate) (p : nat) : Prop :=
    let y := nd s (cons p) in
    ((r_done y = false -> r_mtl y = cntk s MT (selw p) + mcount MT (chan s p) /\ 1 <= r_mtl y) /\
     (r_done y = true -> cntk s MT (selw p) + mcount MT (chan s p) = 0)) /\
    (forall d q1 q2, vchan s p = q1 ++ q2 ->
       cntk s MF (selp p d) + mc MF d q2 <= cntk s MT (selp p d) + mc MT d q2) /\
    (forall q1 m q2, vchan s p = q1 ++ m :: q2 -> snd m = MD ->
       1 <= cntk s MF (selp p (fst m)) + mc MF (fst m) q2) /\
    (forall m, In m (vchan s p) -> routes p (fst m)) /\
    (forall e, In e (r_outq y) -> fst e = dst e).

  Definition fin_inv (s : state emsg rstate) (c : nat) : Prop :=
    side_conj (cfg (cons c)) (nd s (cons c)) c (tot s MF c) (tot s MT c) /\
    (forall q1 q2, chan s c = q1 ++ q2 -> tot s MF c + mc MT c q1 <= tot s MT c + mc MF c q1) /\
    (forall q1 m q2, chan s c = q1 ++ m :: q2 -> snd m = MD -> mc MF c q1 + 1 <= tot s MF c) /\
    (forall m, In m (chan s c) -> fst m = c) /\
    tot s MT c <= nfin D c.

  Record MInv (s : state emsg rstate) : Prop := {
    mv_ln : length (nodes s) = N;
    mv_lc : length (chans s) = C;
    mv_nodes : forall i, i < N -> demuxb (cfg i) = false -> mnode_inv (cfg i) (nd s i);
    mv_conn : forall p, p < C -> conn p = true -> conn_inv s p;
    mv_fin : forall c, c < C -> conn c = false -> fin_inv s c
  }.

  (** ** initially *)
  Lemma nd_init_m : forall i, i < N -> nd (n_init NW) i = m_init_node D i.
  Proof.
    intros i Hi. unfold nd. cbn [n_init mnet_of nodes].
    rewrite (nth_indep _ dflt (m_init_node D 0)) by (rewrite map_length, seq_length; auto).
    rewrite map_nth. rewrite seq_nth by auto. reflexivity.
  Qed.

  Lemma chan_init_m : forall c, chan (n_init NW) c = [].
  Proof.
    intros c. unfold chan. cbn [n_init mnet_of chans].
    destruct (lt_dec c C) as [Hc|Hc].
    - apply nth_repeat.
    - apply nth_overflow. rewrite repeat_length. lia.
  Qed.

  Lemma demuxb_kind : forall i, demuxb (cfg i) = true -> exists p, r_kind (cfg i) = KDemux p.
  Proof. intros i H. unfold demuxb in H. destruct (r_kind (cfg i)); try discriminate. eauto. Qed.

  Lemma owes_init : forall i k f, i < N -> demuxb (cfg i) = false -> k <> MD ->
    owes k (cfg i) (m_init_node D i) f = cntb (osel f) (r_outs (cfg i)).
  Proof.
    intros i k f Hi Hd Hk. unfold demuxb in Hd.
    unfold owes, m_init_node, r_op_init. destruct (r_kind (cfg i)); try discriminate.
    - unfold r_src_init. cbn [r_outq r_rounds r_done]. rewrite !cntb_app, !esel_bcast.
      destruct k; try congruence; cbn; lia.
    - cbn [r_outq r_rounds r_done]. destruct k; try congruence; cbn; lia.
    - cbn [r_outq r_rounds r_done]. destruct k; try congruence; cbn; lia.
  Qed.

  Lemma mnode_inv_init : forall i, i < N -> demuxb (cfg i) = false -> mnode_inv (cfg i) (m_init_node D i).
  Proof.
    intros i Hi Hdm. pose proof (mcfg_ok_of i Hi Hdm) as [Hdo Hc].
    destruct Hok as [Hn _]. destruct (Hn i Hi) as [_ _ _ H4].
    assert (Hn1 : forall f, owes MF (cfg i) (m_init_node D i) f <= owes MT (cfg i) (m_init_node D i) f).
    { intros f. rewrite !owes_init by (auto; discriminate). lia. }
    pose proof (fun f => owes_init i MF f Hi Hdm ltac:(discriminate)) as HoF.
    unfold m_init_node in *. unfold kind_inv, r_op_init in *.
    destruct (r_kind (cfg i)) as [|c' k|l kl r kr|p] eqn:Ek; try contradiction.
    - (* source *)
      assert (Hcase : forall e, In e (r_outq (r_src_init (m_data D i) (cfg i))) ->
                (mk e = MD /\ In (fst e, dst e) (m_data D i)) \/
                (mk e = MF /\ In (fst e, dst e) (r_outs (cfg i))) \/
                (mk e = MT /\ In (fst e, dst e) (r_outs (cfg i)))).
      { intros e He. cbn [r_src_init r_outq] in He.
        apply in_app_or in He. destruct He as [He|He].
        - left. apply bcast_in2 in He. tauto.
        - apply in_app_or in He. destruct He as [He|He]; apply bcast_in2 in He; tauto. }
      split; auto.
      + cbn [r_src_init r_outq]. apply mono_app; [apply mono_bcast | apply mono_app; try apply mono_bcast |].
        * intros a b Ha Hb. apply bcast_in in Ha. apply bcast_in in Hb. destruct Ha as [-> _], Hb as [-> _]. cbn; lia.
        * intros a b Ha Hb. apply bcast_in in Ha. destruct Ha as [-> _]. cbn [rank]. lia.
      + cbn. intros; discriminate.
      + cbn [r_src_init r_done]. intros; discriminate.
      + intros e He. destruct (Hcase e He) as [[_ H]|[[_ H]|[_ H]]]; auto.
      + unfold kind_inv. rewrite Ek. cbn. auto.
      + intros f e He Hmd Hf. destruct (Hcase e He) as [[_ H]|[[H _]|[H _]]]; try congruence.
        rewrite HoF. apply (cntb_osel_in f _ (fst e, dst e)); auto.
    - split; cbn [r_outq r_rounds r_done]; auto; try exact I; try (intros; contradiction); try (intros; discriminate).
      unfold kind_inv. rewrite Ek. cbn [r_mfl r_mfr r_mtl r_mtr r_rounds r_done].
      repeat split; intros; try lia; try discriminate.
    - split; cbn [r_outq r_rounds r_done]; auto; try exact I; try (intros; contradiction); try (intros; discriminate).
      unfold kind_inv. rewrite Ek. cbn [r_mfl r_mfr r_mtl r_mtr r_rounds r_done].
      repeat split; intros; try lia; try discriminate.
  Qed.

  Lemma cntk_init : forall k f, k <> MD ->
    cntk (n_init NW) k f = sumn N (fun i => cntb (osel f) (r_outs (cfg i))).
  Proof.
    intros k f Hk. unfold cntk. apply sumn_ext. intros i Hi. rewrite nd_init_m by auto.
    destruct (demuxb (cfg i)) eqn:Ed.
    - destruct (demuxb_kind i Ed) as [p Hp]. destruct (demux_node i p Hi Hp) as [_ [_ [Ho _]]].
      rewrite Ho. reflexivity.
    - apply owes_init; auto.
  Qed.

  Lemma vchan_init : forall p, p < C -> conn p = true -> vchan (n_init NW) p = [].
  Proof.
    intros p Hp Hc. destruct (chan_conn p Hp Hc) as [Hj [Hk _]].
    unfold vchan, held. rewrite chan_init_m, nd_init_m by auto.
    unfold m_init_node. rewrite Hk. reflexivity.
  Qed.

  Lemma tot_init : forall k c, k <> MD -> tot (n_init NW) k c = nfin D c.
  Proof.
    intros k c Hk. unfold tot, nfin, UPS, nrouted. rewrite chan_init_m, mc_nil, cntk_init by auto.
    rewrite Nat.add_0_r. f_equal. apply sumn_ext. intros p Hp.
    destruct (conn p) eqn:Ec; auto. unfold RT. rewrite vchan_init, mc_nil, cntk_init by auto. lia.
  Qed.

  Lemma minv_init : MInv (n_init NW).
  Proof.
    split.
    - cbn. rewrite map_length, seq_length. reflexivity.
    - cbn. rewrite repeat_length. reflexivity.
    - intros i Hi Hd. rewrite nd_init_m by auto. apply mnode_inv_init; auto.
    - intros p Hp Hc. destruct (chan_conn p Hp Hc) as [Hj [Hk _]].
      destruct (demux_node _ p Hj Hk) as [_ [_ [_ [Hnt [Hn1 _]]]]].
      unfold conn_inv. rewrite vchan_init, nd_init_m, chan_init_m by auto.
      unfold m_init_node. rewrite Hk. cbn [r_demux_init r_done r_mtl r_outq].
      rewrite !cntk_init by discriminate. cbn [mcount cntb filter length].
      split; [split|split; [|split; [|split]]].
      + intros _. unfold nroute in Hnt. split; [lia|exact Hn1].
      + intros; discriminate.
      + intros d q1 q2 Hs. symmetry in Hs. apply app_eq_nil in Hs. destruct Hs as [_ ->].
        rewrite !cntk_init by discriminate. cbn. lia.
      + intros q1 m q2 Hs. destruct q1; discriminate.
      + intros m [].
      + intros e [].
    - intros c Hc Hcn. destruct (chan_final c Hc Hcn) as [Hj [Hin [_ Hdm]]].
      unfold fin_inv. rewrite !tot_init by discriminate. rewrite chan_init_m.
      split; [|split; [|split; [|split]]].
      + rewrite nd_init_m by auto.
        destruct Hok as [Hn _]. destruct (Hn _ Hj) as [_ _ _ H4].
        unfold side_conj, sidef, sidet, m_init_node, r_op_init, is_input in *.
        destruct (r_kind (cfg (cons c))) as [|c' k|l kl r kr|p]; try contradiction.
        * subst c'. cbn [r_mfl r_mfr r_mtl r_mtr r_rounds r_done].
          repeat split; intros; try lia; try discriminate; tauto.
        * cbn [r_mfl r_mfr r_mtl r_mtr r_rounds r_done].
          destruct H4 as [_ [_ [Hlr [_ [_ [Hkl [Hkr _]]]]]]].
          destruct Hin as [->| ->].
          -- rewrite Nat.eqb_refl. repeat split; intros; try lia; try discriminate; auto.
          -- assert (Erl : Nat.eqb r l = false) by (apply Nat.eqb_neq; auto). rewrite Erl.
             repeat split; intros; try lia; try discriminate; auto.
      + intros q1 q2 Hs. symmetry in Hs. apply app_eq_nil in Hs. destruct Hs as [-> _]. cbn. lia.
      + intros q1 m q2 Hs. destruct q1; discriminate.
      + intros m [].
      + lia.
  Qed.

  (** ** how the counts change *)
  Lemma cntk_same : forall s s' k f,
    (forall i, i < N -> demuxb (cfg i) = false -> owes k (cfg i) (nd s' i) f = owes k (cfg i) (nd s i) f) ->
    cntk s' k f = cntk s k f.
  Proof.
    intros s s' k f H. unfold cntk. apply sumn_ext. intros i Hi.
    destruct (demuxb (cfg i)) eqn:E; auto.
  Qed.

  Lemma cntk_send : forall s s' i x e rest k f, i < N -> demuxb (cfg i) = false ->
    nd s i = x -> nd s' i = r_on_send x -> r_outq x = e :: rest ->
    (forall i', i' <> i -> nd s' i' = nd s i') ->
    cntk s k f = cntk s' k f + (if esel f k e then 1 else 0).
  Proof.
    intros s s' i x e rest k f Hi Hd Hx Hx' Hq Ho. unfold cntk.
    pose proof (sumn_except N (fun i0 => if demuxb (cfg i0) then 0 else owes k (cfg i0) (nd s i0) f)
                  (fun i0 => if demuxb (cfg i0) then 0 else owes k (cfg i0) (nd s' i0) f) i Hi) as HS.
    cbv beta in HS. rewrite Hd, Hx, Hx' in HS.
    rewrite (owes_send k (cfg i) x e rest f Hq) in HS.
    assert (Hext : forall k0, k0 < N -> k0 <> i ->
              (if demuxb (cfg k0) then 0 else owes k (cfg k0) (nd s k0) f) =
              (if demuxb (cfg k0) then 0 else owes k (cfg k0) (nd s' k0) f)).
    { intros k0 _ Hne. rewrite Ho by auto. reflexivity. }
    specialize (HS Hext). lia.
  Qed.

  Lemma tot_eq : forall s s' k d,
    cntk s' k (selp d d) + mc k d (chan s' d) = cntk s k (selp d d) + mc k d (chan s d) ->
    (forall p, p < C -> conn p = true -> RT s' k p d = RT s k p d) ->
    tot s' k d = tot s k d.
  Proof.
    intros s s' k d H1 H2. unfold tot. rewrite H1. f_equal. unfold UPS. apply sumn_ext.
    intros p Hp. destruct (conn p) eqn:E; auto.
  Qed.

  (** on every route the FlushAndRestarts still to come are matched by Terminates *)
  Lemma up_le : forall s d,
    (forall i, i < N -> demuxb (cfg i) = false -> mnode_inv (cfg i) (nd s i)) ->
    (forall p, p < C -> conn p = true -> conn_inv s p) ->
    cntk s MF (selp d d) + UPS s MF d <= cntk s MT (selp d d) + UPS s MT d.
  Proof.
    intros s d Hn Hc.
    assert (H1 : cntk s MF (selp d d) <= cntk s MT (selp d d)).
    { unfold cntk. apply sumn_le. intros i Hi. destruct (demuxb (cfg i)) eqn:E; auto.
      apply (mi_n1 _ _ (Hn i Hi E)). }
    assert (H2 : UPS s MF d <= UPS s MT d).
    { unfold UPS. apply sumn_le. intros p Hp. destruct (conn p) eqn:E; auto.
      destruct (Hc p Hp E) as [_ [C2 _]]. unfold RT. apply (C2 d [] (vchan s p)). reflexivity. }
    lia.
  Qed.

  (** ** frames: what does not concern a channel leaves its invariant alone *)
  Lemma conn_inv_frame : forall s s' p,
    nd s' (cons p) = nd s (cons p) -> chan s' p = chan s p ->
    (forall k, k <> MD -> cntk s' k (selw p) = cntk s k (selw p)) ->
    (forall k d, k <> MD -> cntk s' k (selp p d) = cntk s k (selp p d)) ->
    conn_inv s p -> conn_inv s' p.
  Proof.
    intros s s' p Hnd Hch Hw Hp [[C1a C1b] [C2 [C3 [C4 C5]]]].
    assert (Hv : vchan s' p = vchan s p) by (unfold vchan, held; rewrite Hnd, Hch; reflexivity).
    unfold conn_inv. rewrite Hnd, Hch, Hv, (Hw MT) by discriminate.
    split; [split; auto|split; [|split; [|split]]]; auto.
    - intros d q1 q2 Hs. rewrite !Hp by discriminate. apply (C2 d q1 q2 Hs).
    - intros q1 m q2 Hs Hm. rewrite Hp by discriminate. apply (C3 q1 m q2 Hs Hm).
  Qed.

  Lemma fin_inv_frame : forall s s' c,
    chan s' c = chan s c -> (forall k, k <> MD -> tot s' k c = tot s k c) ->
    (side_conj (cfg (cons c)) (nd s (cons c)) c (tot s MF c) (tot s MT c) ->
     side_conj (cfg (cons c)) (nd s' (cons c)) c (tot s MF c) (tot s MT c)) ->
    fin_inv s c -> fin_inv s' c.
  Proof.
    intros s s' c Hch Ht Hsc [F1 [F2 [F3 [F4 F5]]]]. unfold fin_inv.
    rewrite Hch, (Ht MF), (Ht MT) by discriminate.
    split; [auto|split; [auto|split; [auto|split; auto]]].
  Qed.

  (** ** a message is appended to a replica's input channel *)
  Lemma fin_inv_append : forall s s' c m,
    fin_inv s c -> chan s' c = chan s c ++ [m] -> fst m = c ->
    (forall k, k <> MD -> tot s' k c = tot s k c) ->
    side_conj (cfg (cons c)) (nd s' (cons c)) c (tot s MF c) (tot s MT c) ->
    cntk s' MF (selp c c) + UPS s' MF c <= cntk s' MT (selp c c) + UPS s' MT c ->
    (snd m = MD -> 1 <= cntk s' MF (selp c c) + UPS s' MF c) ->
    fin_inv s' c.
  Proof.
    intros s s' c m [F1 [F2 [F3 [F4 F5]]]] Hch Hm Ht Hsc Hup Hdat. unfold fin_inv.
    split; [|split; [|split; [|split]]].
    - rewrite (Ht MF), (Ht MT) by discriminate. exact Hsc.
    - intros q1 q2 Hs. rewrite Hch in Hs. apply app_snoc_split in Hs.
      destruct Hs as [[-> ->] | [q2' [-> Hs]]].
      + unfold tot. rewrite Hch. lia.
      + rewrite (Ht MF), (Ht MT) by discriminate. apply (F2 q1 q2' Hs).
    - intros q1 m0 q2 Hs Hmd. rewrite Hch in Hs. apply app_snoc_split in Hs.
      destruct Hs as [[Hs _] | [q2' [Hs2 Hs]]]; [discriminate|].
      destruct q2' as [|m1 q2'].
      + cbn [app] in Hs2. inversion Hs2; subst m0 q2. rewrite app_nil_r in Hs. subst q1.
        specialize (Hdat Hmd). unfold tot. rewrite Hch, mc_snoc.
        assert (E : msd c MF m = false).
        { unfold msd. rewrite Hmd. apply andb_false_r. }
        rewrite E. lia.
      + cbn [app] in Hs2. inversion Hs2; subst m1 q2.
        rewrite (Ht MF) by discriminate. apply (F3 q1 m0 q2' Hs Hmd).
    - intros m0 Hin. rewrite Hch in Hin. apply in_app_or in Hin. destruct Hin as [Hin|[<-|[]]]; auto.
    - rewrite (Ht MT) by discriminate. exact F5.
  Qed.

  (** ** the consumer takes the head of its input channel *)
  Lemma fin_inv_pop : forall s s' c m q,
    fin_inv s c -> chan s c = m :: q -> chan s' c = q ->
    (forall k, k <> MD -> tot s' k c + (if msd c k m then 1 else 0) = tot s k c) ->
    side_conj (cfg (cons c)) (nd s' (cons c)) c (tot s' MF c) (tot s' MT c) ->
    fin_inv s' c.
  Proof.
    intros s s' c m q [F1 [F2 [F3 [F4 F5]]]] Hch Hch' Ht Hsc. unfold fin_inv.
    pose proof (Ht MF ltac:(discriminate)) as HF. pose proof (Ht MT ltac:(discriminate)) as HT.
    split; [exact Hsc|split; [|split; [|split]]].
    - intros q1 q2 Hs. rewrite Hch' in Hs.
      pose proof (F2 (m :: q1) q2 ltac:(rewrite Hch, Hs; reflexivity)) as H. rewrite !mc_cons in H.
      destruct (msd c MF m), (msd c MT m); lia.
    - intros q1 m0 q2 Hs Hmd. rewrite Hch' in Hs.
      pose proof (F3 (m :: q1) m0 q2 ltac:(rewrite Hch, Hs; reflexivity) Hmd) as H. rewrite mc_cons in H.
      destruct (msd c MF m); lia.
    - intros m0 Hin. apply F4. rewrite Hch. right. rewrite <- Hch'. exact Hin.
    - destruct (msd c MT m); lia.
  Qed.

  (** ** a producer appends a message to a connection *)
  Lemma conn_inv_append : forall s s' p m,
    conn_inv s p -> nd s' (cons p) = nd s (cons p) -> chan s' p = chan s p ++ [m] ->
    (forall k, k <> MD -> cntk s k (selw p) = cntk s' k (selw p) + (if msel k m then 1 else 0)) ->
    (forall k d, k <> MD -> cntk s k (selp p d) = cntk s' k (selp p d) + (if msd d k m then 1 else 0)) ->
    (forall d, cntk s' MF (selp p d) <= cntk s' MT (selp p d)) ->
    (snd m = MD -> 1 <= cntk s' MF (selp p (fst m))) ->
    routes p (fst m) ->
    conn_inv s' p.
  Proof.
    intros s s' p m [[C1a C1b] [C2 [C3 [C4 C5]]]] Hnd Hch Hw Hp Hn1 Hn0 Hrt.
    assert (Hv : vchan s' p = vchan s p ++ [m]).
    { unfold vchan, held. rewrite Hnd, Hch, app_assoc. reflexivity. }
    unfold conn_inv. rewrite Hnd, Hch, Hv, mcount_snoc.
    pose proof (Hw MT ltac:(discriminate)) as HwT.
    split; [split|split; [|split; [|split]]]; auto.
    - intros Hd. destruct (C1a Hd). split; [lia|auto].
    - intros Hd. specialize (C1b Hd). lia.
    - intros d q1 q2 Hs. apply app_snoc_split in Hs. destruct Hs as [[-> _] | [q2' [-> Hs]]].
      + rewrite !mc_nil. pose proof (Hn1 d). lia.
      + pose proof (C2 d q1 q2' Hs) as H.
        rewrite (Hp MF d), (Hp MT d) in H by discriminate. rewrite !mc_snoc. lia.
    - intros q1 m0 q2 Hs Hmd. apply app_snoc_split in Hs.
      destruct Hs as [[Hs _] | [q2' [Hs2 Hs]]]; [discriminate|].
      destruct q2' as [|m1 q2'].
      + cbn [app] in Hs2. inversion Hs2; subst m0 q2. specialize (Hn0 Hmd). rewrite mc_nil. lia.
      + cbn [app] in Hs2. inversion Hs2; subst m1 q2.
        pose proof (C3 q1 m0 q2' Hs Hmd) as H. rewrite (Hp MF) in H by discriminate.
        rewrite mc_snoc. lia.
    - intros m0 Hin. apply in_app_or in Hin. destruct Hin as [Hin|[<-|[]]]; auto.
  Qed.

  (** ** the demultiplexer hands over the message it holds *)
  Lemma conn_inv_pop : forall s s' p m,
    conn_inv s p -> vchan s p = m :: vchan s' p -> chan s' p = chan s p ->
    r_done (nd s' (cons p)) = r_done (nd s (cons p)) -> r_mtl (nd s' (cons p)) = r_mtl (nd s (cons p)) ->
    (forall e, In e (r_outq (nd s' (cons p))) -> In e (r_outq (nd s (cons p)))) ->
    (forall k f, cntk s' k f = cntk s k f) ->
    conn_inv s' p.
  Proof.
    intros s s' p m [[C1a C1b] [C2 [C3 [C4 C5]]]] Hv Hch Hdn Hmt Hq Hc.
    unfold conn_inv. rewrite Hch, Hdn, Hmt, Hc.
    split; [split; auto|split; [|split; [|split]]]; auto.
    - intros d q1 q2 Hs. rewrite !Hc. apply (C2 d (m :: q1) q2). rewrite Hv, Hs. reflexivity.
    - intros q1 m0 q2 Hs Hmd. rewrite Hc. apply (C3 (m :: q1) m0 q2); auto. rewrite Hv, Hs. reflexivity.
    - intros m0 Hin. apply C4. rewrite Hv. right. exact Hin.
  Qed.

  Lemma cntk_n1 : forall s f, (forall i, i < N -> demuxb (cfg i) = false -> mnode_inv (cfg i) (nd s i)) ->
    cntk s MF f <= cntk s MT f.
  Proof.
    intros s f Hn. unfold cntk. apply sumn_le. intros i Hi. destruct (demuxb (cfg i)) eqn:E; auto.
    apply (mi_n1 _ _ (Hn i Hi E)).
  Qed.

  Lemma cntk_elem : forall s k f i, i < N -> demuxb (cfg i) = false ->
    owes k (cfg i) (nd s i) f <= cntk s k f.
  Proof.
    intros s k f i Hi Hd. unfold cntk.
    pose proof (sumn_elem N (fun i0 => if demuxb (cfg i0) then 0 else owes k (cfg i0) (nd s i0) f) i Hi) as H.
    cbv beta in H. rewrite Hd in H. exact H.
  Qed.

  Lemma conn_cons_demux : forall p, conn p = true -> demuxb (cfg (cons p)) = true.
  Proof. intros p H. exact H. Qed.

  Lemma esel_pair : forall f k w m, esel f k (w, m) = f w (fst m) && marker_eqb (snd m) k.
  Proof. reflexivity. Qed.

  (** ** a source or operator sends *)
  Lemma minv_send_node : forall s i x w m, MInv s -> node_at s i = Some x -> demuxb (cfg i) = false ->
    r_pending x = Some (w, m) ->
    MInv {| nodes := upd i (r_on_send x) (nodes s); chans := upd w (chan s w ++ [m]) (chans s) |}.
  Proof.
    intros s i x w m HI Hx Hdi Hp. destruct HI as [Hln Hlc Hnodes Hconn Hfin].
    destruct (node_at_nd s i x Hx) as [Hi Hxi]. rewrite Hln in Hi.
    unfold r_pending in Hp. destruct (r_outq x) as [|e rest] eqn:Hq; [discriminate|].
    inversion Hp; subst e. clear Hp.
    pose proof (Hnodes i Hi Hdi) as Hni. rewrite Hxi in Hni.
    assert (Hwin : In (w, fst m) (r_outs (cfg i))).
    { apply (mi_outs _ _ Hni (w, m)). rewrite Hq. left; auto. }
    destruct (outs_valid_m i w (fst m) Hi Hwin) as [Hw [Hd [Hlt Hcase]]].
    set (s' := {| nodes := upd i (r_on_send x) (nodes s); chans := upd w (chan s w ++ [m]) (chans s) |}).
    assert (Hnd_i : nd s' i = r_on_send x).
    { unfold nd, s'. cbn [nodes]. apply nth_upd_eq. lia. }
    assert (Hnd_o : forall i', i' <> i -> nd s' i' = nd s i').
    { intros i' Hne. unfold nd, s'. cbn [nodes]. apply nth_upd_neq. auto. }
    assert (Hch_c : chan s' w = chan s w ++ [m]).
    { unfold chan, s'. cbn [chans]. apply nth_upd_eq. lia. }
    assert (Hch_o : forall c0, c0 <> w -> chan s' c0 = chan s c0).
    { intros c0 Hne. unfold chan, s'. cbn [chans]. apply nth_upd_neq. auto. }
    assert (Hnodes' : forall i', i' < N -> demuxb (cfg i') = false -> mnode_inv (cfg i') (nd s' i')).
    { intros i' Hi' Hd'. destruct (Nat.eq_dec i' i) as [->|Hne].
      - rewrite Hnd_i. eapply mnode_inv_send; eauto.
      - rewrite Hnd_o by auto. auto. }
    assert (Hcnt : forall k f, cntk s k f = cntk s' k f + (if f w (fst m) && marker_eqb (snd m) k then 1 else 0)).
    { intros k f. rewrite <- esel_pair. eapply cntk_send; eauto. }
    assert (Hnd_p : forall p, conn p = true -> nd s' (cons p) = nd s (cons p)).
    { intros p Hc. apply Hnd_o. intros E. rewrite <- E in Hdi. apply conn_cons_demux in Hc. congruence. }
    assert (Hvw : forall p, conn p = true -> vchan s' p = vchan s p ++ (if Nat.eqb p w then [m] else [])).
    { intros p Hc. unfold vchan, held. rewrite (Hnd_p p Hc). destruct (Nat.eqb p w) eqn:E.
      - apply Nat.eqb_eq in E. subst p. rewrite Hch_c, app_assoc. reflexivity.
      - apply Nat.eqb_neq in E. rewrite Hch_o, app_nil_r by auto. reflexivity. }
    assert (HRT : forall k p d, conn p = true -> RT s' k p d = RT s k p d).
    { intros k p d Hc. unfold RT. rewrite (Hcnt k (selp p d)), (Hvw p Hc). unfold selp, msd.
      rewrite (Nat.eqb_sym w p). destruct (Nat.eqb p w); cbn [andb].
      - rewrite mc_snoc. unfold msd. lia.
      - rewrite app_nil_r. lia. }
    assert (Htot : forall k d, tot s' k d = tot s k d).
    { intros k d. apply tot_eq; [|intros; apply HRT; auto].
      rewrite (Hcnt k (selp d d)). unfold selp. destruct (Nat.eq_dec d w) as [->|Hne].
      - rewrite Hch_c, mc_snoc, Nat.eqb_refl. unfold msd. cbn [andb]. lia.
      - rewrite Hch_o by auto. assert (E : Nat.eqb w d = false) by (apply Nat.eqb_neq; auto).
        rewrite E. cbn [andb]. lia. }
    (* behind a data batch of the sender its FlushAndRestart is still owed *)
    assert (Hdat : snd m = MD -> 1 <= cntk s' MF (selp w (fst m))).
    { intros Hmd.
      pose proof (mi_n0 _ _ Hni (selp w (fst m)) (w, m)) as H0. rewrite Hq in H0.
      specialize (H0 ltac:(left; reflexivity) Hmd).
      unfold selp in H0 at 1. cbn [fst snd dst] in H0. rewrite !Nat.eqb_refl in H0. specialize (H0 eq_refl).
      rewrite (owes_send MF (cfg i) x (w, m) rest _ Hq), esel_pair in H0.
      rewrite Hmd in H0. cbn [marker_eqb] in H0. rewrite andb_false_r in H0.
      pose proof (cntk_elem s' MF (selp w (fst m)) i Hi Hdi) as He. rewrite Hnd_i in He. lia. }
    assert (Hconn' : forall p, p < C -> conn p = true -> conn_inv s' p).
    { intros p Hp Hc. destruct (Nat.eq_dec p w) as [->|Hne].
      - apply (conn_inv_append s s' w m); auto.
        + intros k _. rewrite (Hcnt k (selw w)). unfold selw, msel. rewrite Nat.eqb_refl. reflexivity.
        + intros k d _. rewrite (Hcnt k (selp w d)). unfold selp, msd. rewrite Nat.eqb_refl. reflexivity.
        + intros d. apply cntk_n1. exact Hnodes'.
        + exists i. auto.
      - apply (conn_inv_frame s s' p); auto.
        + intros k _. rewrite (Hcnt k (selw p)). unfold selw.
          assert (E : Nat.eqb w p = false) by (apply Nat.eqb_neq; auto). rewrite E. cbn [andb]. lia.
        + intros k d _. rewrite (Hcnt k (selp p d)). unfold selp.
          assert (E : Nat.eqb w p = false) by (apply Nat.eqb_neq; auto). rewrite E. cbn [andb]. lia. }
    split; auto.
    - unfold s'. cbn [nodes]. rewrite upd_length. auto.
    - unfold s'. cbn [chans]. rewrite upd_length. auto.
    - intros c Hc Hcn.
      assert (Hsc : side_conj (cfg (cons c)) (nd s (cons c)) c (tot s MF c) (tot s MT c) ->
                    side_conj (cfg (cons c)) (nd s' (cons c)) c (tot s MF c) (tot s MT c)).
      { intros H. destruct (Nat.eq_dec (cons c) i) as [E|E].
        - rewrite E, Hnd_i. apply side_conj_send. rewrite <- Hxi, <- E. exact H.
        - rewrite Hnd_o by auto. exact H. }
      destruct (Nat.eq_dec c w) as [->|Hne].
      + assert (Hwd : fst m = w) by (destruct Hcase as [[-> _]|[_ [Hc1 _]]]; [reflexivity|congruence]).
        pose proof (Hfin w Hc Hcn) as Hf.
        apply (fin_inv_append s s' w m); auto.
        * apply Hsc. apply Hf.
        * apply up_le; auto.
        * intros Hmd. specialize (Hdat Hmd). rewrite Hwd in Hdat. lia.
      + apply (fin_inv_frame s s' c); auto.
  Qed.

  (** ** a demultiplexer hands a message over to its destination *)
  Lemma minv_send_demux : forall s j y w m p, MInv s -> node_at s j = Some y -> r_kind (cfg j) = KDemux p ->
    r_pending y = Some (w, m) ->
    MInv {| nodes := upd j (r_on_send y) (nodes s); chans := upd w (chan s w ++ [m]) (chans s) |}.
  Proof.
    intros s j y w m p HI Hy Hk Hp. destruct HI as [Hln Hlc Hnodes Hconn Hfin].
    destruct (node_at_nd s j y Hy) as [Hj Hyj]. rewrite Hln in Hj.
    unfold r_pending in Hp. destruct (r_outq y) as [|e rest] eqn:Hq; [discriminate|].
    inversion Hp; subst e. clear Hp.
    destruct (demux_node j p Hj Hk) as [Hpc [Hcp [_ [_ [_ Hcn]]]]].
    assert (Hdj : demuxb (cfg j) = true) by (unfold demuxb; rewrite Hk; reflexivity).
    pose proof (Hconn p Hpc Hcn) as Hcv. destruct Hcv as [_ [_ [C3 [C4 C5]]]].
    rewrite Hcp, Hyj in C5.
    assert (Hwm : w = fst m).
    { specialize (C5 (w, m)). rewrite Hq in C5. apply C5. left; auto. }
    assert (Hvs : vchan s p = m :: map snd rest ++ chan s p).
    { unfold vchan, held. rewrite Hcp, Hyj, Hq. reflexivity. }
    assert (Hrt : routes p w).
    { rewrite Hwm. apply C4. rewrite Hvs. left; auto. }
    destruct (routes_facts p w Hrt Hcn) as [_ [Hw [Hcw [Hpw Hlt]]]].
    set (s' := {| nodes := upd j (r_on_send y) (nodes s); chans := upd w (chan s w ++ [m]) (chans s) |}).
    assert (Hnd_j : nd s' j = r_on_send y).
    { unfold nd, s'. cbn [nodes]. apply nth_upd_eq. lia. }
    assert (Hnd_o : forall i', i' <> j -> nd s' i' = nd s i').
    { intros i' Hne. unfold nd, s'. cbn [nodes]. apply nth_upd_neq. auto. }
    assert (Hch_c : chan s' w = chan s w ++ [m]).
    { unfold chan, s'. cbn [chans]. apply nth_upd_eq. lia. }
    assert (Hch_o : forall c0, c0 <> w -> chan s' c0 = chan s c0).
    { intros c0 Hne. unfold chan, s'. cbn [chans]. apply nth_upd_neq. auto. }
    assert (Hnodes' : forall i', i' < N -> demuxb (cfg i') = false -> mnode_inv (cfg i') (nd s' i')).
    { intros i' Hi' Hd'. rewrite Hnd_o by (intros ->; congruence). auto. }
    assert (Hcnt : forall k f, cntk s' k f = cntk s k f).
    { intros k f. apply cntk_same. intros i Hi Hd. rewrite Hnd_o by (intros ->; congruence). reflexivity. }
    assert (Hvs' : vchan s' p = map snd rest ++ chan s p).
    { unfold vchan, held. rewrite Hcp, Hnd_j, Hch_o by auto. cbn [r_on_send r_outq]. rewrite Hq. reflexivity. }
    assert (Hother : forall p', p' < C -> conn p' = true -> p' <> p ->
              nd s' (cons p') = nd s (cons p') /\ chan s' p' = chan s p').
    { intros p' Hp' Hc' Hne. split.
      - apply Hnd_o. intros E. destruct (chan_conn p' Hp' Hc') as [_ [Hk' _]]. rewrite E, Hk in Hk'. congruence.
      - apply Hch_o. intros ->. congruence. }
    assert (HRTp : forall k d, RT s k p d = RT s' k p d + (if msd d k m then 1 else 0)).
    { intros k d. unfold RT. rewrite Hcnt, Hvs, Hvs', mc_cons. lia. }
    assert (HRTo : forall k p' d, p' < C -> conn p' = true -> p' <> p -> RT s' k p' d = RT s k p' d).
    { intros k p' d Hp' Hc' Hne. destruct (Hother p' Hp' Hc' Hne) as [H1 H2].
      unfold RT, vchan, held. rewrite Hcnt, H1, H2. reflexivity. }
    assert (HUPS : forall k d, UPS s k d = UPS s' k d + (if msd d k m then 1 else 0)).
    { intros k d. unfold UPS.
      pose proof (sumn_except C (fun p0 => if conn p0 then RT s k p0 d else 0)
                    (fun p0 => if conn p0 then RT s' k p0 d else 0) p Hpc) as HS.
      cbv beta in HS. rewrite Hcn in HS. rewrite (HRTp k d) in HS.
      assert (Hext : forall k0, k0 < C -> k0 <> p ->
                (if conn k0 then RT s k k0 d else 0) = (if conn k0 then RT s' k k0 d else 0)).
      { intros k0 Hk0 Hne. destruct (conn k0) eqn:E; auto. symmetry. apply HRTo; auto. }
      specialize (HS Hext). lia. }
    assert (Htot : forall k d, tot s' k d = tot s k d).
    { intros k d. unfold tot. rewrite Hcnt, (HUPS k d). destruct (Nat.eq_dec d w) as [->|Hne].
      - rewrite Hch_c, mc_snoc. lia.
      - rewrite Hch_o by auto. assert (E : msd d k m = false).
        { unfold msd. rewrite <- Hwm. assert (E : Nat.eqb w d = false) by (apply Nat.eqb_neq; auto).
          rewrite E. reflexivity. }
        rewrite E. lia. }
    assert (Hconn' : forall p', p' < C -> conn p' = true -> conn_inv s' p').
    { intros p' Hp' Hc'. destruct (Nat.eq_dec p' p) as [->|Hne].
      - apply (conn_inv_pop s s' p m); auto.
        + rewrite Hvs, Hvs'. reflexivity.
        + rewrite Hcp, Hnd_j, Hyj. reflexivity.
        + rewrite Hcp, Hnd_j, Hyj. reflexivity.
        + rewrite Hcp, Hnd_j, Hyj. cbn [r_on_send r_outq]. rewrite Hq. cbn [tl]. intros e He. right. exact He.
      - destruct (Hother p' Hp' Hc' Hne) as [H1 H2]. apply (conn_inv_frame s s' p'); auto. }
    split; auto.
    - unfold s'. cbn [nodes]. rewrite upd_length. auto.
    - unfold s'. cbn [chans]. rewrite upd_length. auto.
    - intros c Hc Hcc. destruct (chan_final c Hc Hcc) as [_ [_ [_ Hdc]]].
      assert (Hndc : nd s' (cons c) = nd s (cons c)) by (apply Hnd_o; intros E; rewrite E in Hdc; congruence).
      destruct (Nat.eq_dec c w) as [->|Hne].
      + pose proof (Hfin w Hc Hcc) as Hf.
        apply (fin_inv_append s s' w m); auto.
        * rewrite Hndc. apply Hf.
        * apply up_le; auto.
        * intros Hmd. pose proof (C3 [] m (vchan s' p)) as H3. rewrite Hvs, Hvs' in H3.
          specialize (H3 eq_refl Hmd). rewrite <- Hwm in H3.
          pose proof (sumn_if_elem C (fun p0 => conn p0) (fun p0 => RT s' MF p0 w) p Hpc Hcn) as He.
          cbv beta in He. unfold UPS. unfold RT in He at 1. rewrite Hcnt, Hvs' in He. lia.
      + apply (fin_inv_frame s s' c); auto. rewrite Hndc. auto.
  Qed.

  (** ** a demultiplexer takes the next message from its connection *)
  Lemma minv_recv_demux : forall s j y p m q, MInv s -> node_at s j = Some y -> r_kind (cfg j) = KDemux p ->
    r_finished y = false -> r_pending y = None -> chan s p = m :: q ->
    MInv {| nodes := upd j (r_on_recv (cfg j) y p m) (nodes s); chans := upd p q (chans s) |}.
  Proof.
    intros s j y p m q HI Hy Hk Hfy Hp Hch. destruct HI as [Hln Hlc Hnodes Hconn Hfin].
    destruct (node_at_nd s j y Hy) as [Hj Hyj]. rewrite Hln in Hj.
    unfold r_pending in Hp. destruct (r_outq y) as [|e rest] eqn:Hq; [|discriminate]. clear Hp.
    assert (Hd : r_done y = false).
    { unfold r_finished in Hfy. rewrite Hq in Hfy. rewrite andb_true_r in Hfy. exact Hfy. }
    destruct (demux_node j p Hj Hk) as [Hpc [Hcp [_ [_ [_ Hcn]]]]].
    assert (Hdj : demuxb (cfg j) = true) by (unfold demuxb; rewrite Hk; reflexivity).
    set (y' := r_on_recv (cfg j) y p m).
    set (s' := {| nodes := upd j y' (nodes s); chans := upd p q (chans s) |}).
    assert (Hnd_j : nd s' j = y').
    { unfold nd, s'. cbn [nodes]. apply nth_upd_eq. lia. }
    assert (Hnd_o : forall i', i' <> j -> nd s' i' = nd s i').
    { intros i' Hne. unfold nd, s'. cbn [nodes]. apply nth_upd_neq. auto. }
    assert (Hch_c : chan s' p = q).
    { unfold chan, s'. cbn [chans]. apply nth_upd_eq. lia. }
    assert (Hch_o : forall c0, c0 <> p -> chan s' c0 = chan s c0).
    { intros c0 Hne. unfold chan, s'. cbn [chans]. apply nth_upd_neq. auto. }
    assert (Hcnt : forall k f, cntk s' k f = cntk s k f).
    { intros k f. apply cntk_same. intros i Hi Hdi. rewrite Hnd_o by (intros ->; congruence). reflexivity. }
    assert (Hy' : r_outq y' = [(fst m, m)] /\
                  r_mtl y' = (match snd m with MT => pred (r_mtl y) | _ => r_mtl y end) /\
                  r_done y' = Nat.eqb (r_mtl y') 0).
    { unfold y', r_on_recv. rewrite Hk. cbn [r_outq r_mtl r_done]. rewrite Hq. auto. }
    destruct Hy' as [Hq' [Hmt' Hdn']].
    assert (Hv : vchan s' p = vchan s p).
    { unfold vchan, held. rewrite Hcp, Hnd_j, Hyj, Hq, Hq', Hch_c, Hch. reflexivity. }
    assert (Hother : forall p', p' < C -> conn p' = true -> p' <> p ->
              nd s' (cons p') = nd s (cons p') /\ chan s' p' = chan s p').
    { intros p' Hp' Hc' Hne. split; [|apply Hch_o; auto].
      apply Hnd_o. intros E. destruct (chan_conn p' Hp' Hc') as [_ [Hk' _]]. rewrite E, Hk in Hk'. congruence. }
    assert (HRT : forall k p' d, p' < C -> conn p' = true -> RT s' k p' d = RT s k p' d).
    { intros k p' d Hp' Hc'. unfold RT. rewrite Hcnt. destruct (Nat.eq_dec p' p) as [->|Hne].
      - rewrite Hv. reflexivity.
      - destruct (Hother p' Hp' Hc' Hne) as [H1 H2]. unfold vchan, held. rewrite H1, H2. reflexivity. }
    split.
    - unfold s'. cbn [nodes]. rewrite upd_length. auto.
    - unfold s'. cbn [chans]. rewrite upd_length. auto.
    - intros i Hi Hdi. rewrite Hnd_o by (intros ->; congruence). auto.
    - intros p' Hp' Hc'. destruct (Nat.eq_dec p' p) as [->|Hne].
      + destruct (Hconn p Hpc Hcn) as [[C1a _] [C2 [C3 [C4 _]]]]. rewrite Hcp, Hyj in C1a.
        destruct (C1a Hd) as [Hm1 Hm2]. rewrite Hch, mcount_cons in Hm1. unfold msel in Hm1.
        unfold conn_inv. rewrite Hcp, Hnd_j, Hv, Hch_c, Hcnt.
        split; [split|split; [|split; [|split]]]; auto.
        * intros Hdf. rewrite Hdn' in Hdf. apply Nat.eqb_neq in Hdf.
          rewrite Hmt' in *. destruct (snd m); cbn [marker_eqb] in Hm1; lia.
        * intros Hdt. rewrite Hdn' in Hdt. apply Nat.eqb_eq in Hdt.
          rewrite Hmt' in *. destruct (snd m); cbn [marker_eqb] in Hm1; lia.
        * intros d q1 q2 Hs. rewrite !Hcnt. apply (C2 d q1 q2 Hs).
        * intros q1 m0 q2 Hs Hmd. rewrite Hcnt. apply (C3 q1 m0 q2 Hs Hmd).
        * intros e0 He. rewrite Hq' in He. destruct He as [<-|[]]. reflexivity.
      + destruct (Hother p' Hp' Hc' Hne) as [H1 H2]. apply (conn_inv_frame s s' p'); auto.
    - intros c Hc Hcc. destruct (chan_final c Hc Hcc) as [_ [_ [_ Hdc]]].
      assert (Hndc : nd s' (cons c) = nd s (cons c)) by (apply Hnd_o; intros E; rewrite E in Hdc; congruence).
      assert (Hcp' : c <> p) by (intros ->; congruence).
      apply (fin_inv_frame s s' c); auto.
      + intros k _. apply tot_eq; [|intros; apply HRT; auto]. rewrite Hcnt, Hch_o by auto. reflexivity.
      + rewrite Hndc. auto.
  Qed.

  (** ** an operator receives *)
  Lemma minv_recv_op : forall s j y c m q, MInv s -> node_at s j = Some y -> demuxb (cfg j) = false ->
    r_finished y = false -> r_pending y = None -> In c (r_wants (cfg j) y) -> chan s c = m :: q ->
    MInv {| nodes := upd j (r_on_recv (cfg j) y c m) (nodes s); chans := upd c q (chans s) |}.
  Proof.
    intros s j y c m q HI Hy Hdj Hfy Hp Hw Hch. destruct HI as [Hln Hlc Hnodes Hconn Hfin].
    destruct (node_at_nd s j y Hy) as [Hj Hyj]. rewrite Hln in Hj.
    unfold r_pending in Hp. destruct (r_outq y) as [|e rest] eqn:Hq; [|discriminate]. clear Hp.
    assert (Hd : r_done y = false).
    { unfold r_finished in Hfy. rewrite Hq in Hfy. rewrite andb_true_r in Hfy. exact Hfy. }
    pose proof (mcfg_ok_of j Hj Hdj) as Hmcf. pose proof (mcfg_cfg_ok _ Hmcf) as Hcf.
    pose proof (wants_input _ _ _ Hcf Hw) as Hin.
    destruct (input_cons_m j c Hj Hin) as [Hc Hcj].
    assert (Hcc : conn c = false) by (unfold m_conn; rewrite Hcj; exact Hdj).
    pose proof (Hnodes j Hj Hdj) as Hnj. rewrite Hyj in Hnj.
    destruct (Hfin c Hc Hcc) as [Hsc [F2 [F3 [F4 F5]]]]. rewrite Hcj, Hyj in Hsc.
    destruct Hsc as [S1 [S2 [S3 S4]]].
    assert (Hmc : fst m = c) by (apply F4; rewrite Hch; left; auto).
    assert (Hmsd : forall k, msd c k m = msel k m).
    { intros k. unfold msd, msel. rewrite Hmc, Nat.eqb_refl. reflexivity. }
    assert (Htc : forall k, tot s k c = cntk s k (selp c c) + ((if msel k m then 1 else 0) + mc k c q) + UPS s k c).
    { intros k. unfold tot. rewrite Hch, mc_cons, Hmsd. reflexivity. }
    (* a data batch or a FlushAndRestart arrives in round 0 *)
    assert (PF : snd m <> MT -> r_rounds y = 0).
    { intros Hm. destruct (mi_rounds _ _ Hnj) as [R|R]; auto. exfalso.
      specialize (S2 ltac:(lia)).
      destruct (snd m) eqn:Em; try congruence.
      - pose proof (F3 [] m q Hch Em). rewrite mc_nil in H. lia.
      - rewrite Htc in S2. unfold msel in S2. rewrite Em in S2. cbn in S2. lia. }
    (* the last Terminate arrives after the round has ended *)
    assert (PT : snd m = MT -> r_done (r_on_recv (cfg j) y c m) = true -> r_rounds y = 1).
    { intros Hm Hdone. destruct (mi_rounds _ _ Hnj) as [R|R]; auto. exfalso.
      pose proof (mt_complete_sides _ y c m Hcf (mi_kind _ _ Hnj) Hin Hd Hm Hdone) as Hsides.
      destruct (sidef_pos _ y Hcf (mi_kind _ _ Hnj) Hd R) as [c0 [Hin0 Hpos]].
      destruct (input_cons_m j c0 Hj Hin0) as [Hc0 Hc0j].
      assert (Hcc0 : conn c0 = false) by (unfold m_conn; rewrite Hc0j; exact Hdj).
      destruct (Hfin c0 Hc0 Hcc0) as [Hsc0 [F20 _]]. rewrite Hc0j, Hyj in Hsc0.
      destruct Hsc0 as [T1 [_ [T3 _]]]. specialize (T1 R). specialize (T3 Hd).
      rewrite (Hsides c0 Hin0) in T3.
      destruct (Nat.eq_dec c0 c) as [->|Hne].
      - rewrite Nat.eqb_refl in T3.
        pose proof (F2 [m] q Hch) as H. rewrite !mc_cons, !mc_nil, !Hmsd in H. unfold msel in H.
        rewrite Hm in H. cbn [marker_eqb] in H. lia.
      - assert (E : Nat.eqb c0 c = false) by (apply Nat.eqb_neq; auto). rewrite E in T3.
        pose proof (F20 [] (chan s c0) eq_refl) as H. rewrite !mc_nil in H. lia. }
    destruct (mnode_inv_recv _ y c m Hmcf Hnj Hin Hq Hd PF PT) as [Hnj' Howe].
    set (y' := r_on_recv (cfg j) y c m) in *.
    set (s' := {| nodes := upd j y' (nodes s); chans := upd c q (chans s) |}).
    assert (Hnd_j : nd s' j = y').
    { unfold nd, s'. cbn [nodes]. apply nth_upd_eq. lia. }
    assert (Hnd_o : forall i', i' <> j -> nd s' i' = nd s i').
    { intros i' Hne. unfold nd, s'. cbn [nodes]. apply nth_upd_neq. auto. }
    assert (Hch_c : chan s' c = q).
    { unfold chan, s'. cbn [chans]. apply nth_upd_eq. lia. }
    assert (Hch_o : forall c0, c0 <> c -> chan s' c0 = chan s c0).
    { intros c0 Hne. unfold chan, s'. cbn [chans]. apply nth_upd_neq. auto. }
    assert (Hcnt : forall k f, k <> MD -> cntk s' k f = cntk s k f).
    { intros k f Hk. apply cntk_same. intros i Hi Hdi.
      destruct (Nat.eq_dec i j) as [->|Hne].
      - rewrite Hnd_j, Hyj. apply Howe. auto.
      - rewrite Hnd_o by auto. reflexivity. }
    assert (Hother : forall p, p < C -> conn p = true ->
              nd s' (cons p) = nd s (cons p) /\ chan s' p = chan s p).
    { intros p Hp Hcp. split.
      - apply Hnd_o. intros E. rewrite <- E in Hdj. apply conn_cons_demux in Hcp. congruence.
      - apply Hch_o. intros ->. congruence. }
    assert (HRT : forall k p d, k <> MD -> p < C -> conn p = true -> RT s' k p d = RT s k p d).
    { intros k p d Hk Hp Hcp. destruct (Hother p Hp Hcp) as [H1 H2].
      unfold RT, vchan, held. rewrite Hcnt, H1, H2 by auto. reflexivity. }
    assert (Htot : forall k c0, k <> MD ->
              tot s' k c0 + (if Nat.eqb c0 c && msel k m then 1 else 0) = tot s k c0).
    { intros k c0 Hk. destruct (Nat.eq_dec c0 c) as [->|Hne].
      - rewrite Nat.eqb_refl. cbn [andb]. rewrite Htc. unfold tot. rewrite Hcnt, Hch_c by auto.
        assert (E : UPS s' k c = UPS s k c).
        { unfold UPS. apply sumn_ext. intros p Hp. destruct (conn p) eqn:Ep; auto. }
        rewrite E. lia.
      - assert (E : Nat.eqb c0 c = false) by (apply Nat.eqb_neq; auto). rewrite E. cbn [andb].
        rewrite Nat.add_0_r. apply tot_eq; [|intros; apply HRT; auto].
        rewrite Hcnt, Hch_o by auto. reflexivity. }
    split.
    - unfold s'. cbn [nodes]. rewrite upd_length. auto.
    - unfold s'. cbn [chans]. rewrite upd_length. auto.
    - intros i Hi Hdi. destruct (Nat.eq_dec i j) as [->|Hne].
      + rewrite Hnd_j. exact Hnj'.
      + rewrite Hnd_o by auto. auto.
    - intros p Hp Hcp. destruct (Hother p Hp Hcp) as [H1 H2].
      apply (conn_inv_frame s s' p); auto.
    - intros c0 Hc0 Hcc0. destruct (chan_final c0 Hc0 Hcc0) as [_ [Hin0 _]].
      pose proof (Hfin c0 Hc0 Hcc0) as Hf0.
      assert (Hsc0 : forall TF' TT',
                TF' + (if Nat.eqb c0 c && msel MF m then 1 else 0) = tot s MF c0 ->
                TT' + (if Nat.eqb c0 c && msel MT m then 1 else 0) = tot s MT c0 ->
                side_conj (cfg (cons c0)) (nd s' (cons c0)) c0 TF' TT').
      { intros TF' TT' HF HT. destruct Hf0 as [Hs0 _].
        destruct (Nat.eq_dec (cons c0) j) as [E|E].
        - rewrite E, Hnd_j. rewrite E in Hin0. rewrite E, Hyj in Hs0.
          apply (side_conj_recv _ y c m c0 (tot s MF c0) (tot s MT c0)); auto.
          intros Hm. apply PF. congruence.
        - rewrite Hnd_o by auto.
          assert (Hne : c0 <> c) by (intros ->; auto).
          assert (E2 : Nat.eqb c0 c = false) by (apply Nat.eqb_neq; auto).
          rewrite E2 in HF, HT. cbn [andb] in HF, HT. rewrite Nat.add_0_r in HF, HT.
          rewrite HF, HT. exact Hs0. }
      destruct (Nat.eq_dec c0 c) as [->|Hne].
      + apply (fin_inv_pop s s' c m q); auto.
        * intros k Hk. rewrite Hmsd. pose proof (Htot k c Hk) as H.
          rewrite Nat.eqb_refl in H. exact H.
        * apply Hsc0; apply Htot; discriminate.
      + assert (E2 : Nat.eqb c0 c = false) by (apply Nat.eqb_neq; auto).
        apply (fin_inv_frame s s' c0); auto.
        * intros k Hk. pose proof (Htot k c0 Hk) as H. rewrite E2 in H. cbn [andb] in H. lia.
        * intros _. apply Hsc0; rewrite E2; cbn [andb]; lia.
  Qed.

  (** ** the invariant holds in every reachable state *)
  Lemma minv_step : forall s s', MInv s -> step NW s s' -> MInv s'.
  Proof.
    intros s s' HI Hs. inversion Hs; subst.
    - cbn [mnet_of n_sem r_sem on_send pending] in *.
      destruct (demuxb (cfg i)) eqn:Ed.
      + destruct (demuxb_kind i Ed) as [p Hp]. eapply minv_send_demux; eauto.
      + apply minv_send_node; auto.
    - cbn [mnet_of n_sem r_sem on_recv pending finished wants] in *.
      destruct (demuxb (cfg i)) eqn:Ed.
      + destruct (demuxb_kind i Ed) as [p Hp].
        assert (c = p).
        { unfold r_wants in H2. rewrite Hp in H2. destruct H2 as [<-|[]]. reflexivity. }
        subst c. eapply minv_recv_demux; eauto.
      + apply minv_recv_op; auto.
    - cbn [mnet_of n_sem r_sem on_tau] in *. discriminate.
  Qed.

  Theorem minv_reachable : forall s, reachable NW s -> MInv s.
  Proof.
    intros s Hr. induction Hr.
    - apply minv_init.
    - eapply minv_step; eauto.
  Qed.
End MDag.

(** * From the invariant to the obligations *)
(** a source/operator that owes a marker on a selected output has not finished, and has such
    an output *)
Lemma owes_pos_facts : forall k cf x f, mnode_inv cf x -> k <> MD -> 1 <= owes k cf x f ->
  r_finished x = false /\ exists w d, In (w, d) (r_outs cf) /\ f w d = true.
Proof.
  intros k cf x f H Hk Ho. unfold owes in Ho.
  destruct (le_lt_dec 1 (cntb (esel f k) (r_outq x))) as [Hq|Hq].
  - apply cntb_pos in Hq. destruct Hq as [e [Hin Hs]]. unfold esel in Hs.
    apply andb_true_iff in Hs. destruct Hs as [Hf _]. split.
    + destruct (r_outq x) eqn:E; [destruct Hin|]. eapply finished_nonempty; eauto.
    + exists (fst e), (dst e). split; auto. apply (mi_outs _ _ H e Hin).
  - destruct (gate k x) eqn:Eg; [|lia]. assert (Hc : 1 <= cntb (osel f) (r_outs cf)) by lia.
    apply cntb_pos in Hc. destruct Hc as [[w d] [Hin Hf]]. split; [|exists w, d; auto].
    apply finished_not_done. destruct k; try congruence; cbn [gate] in Eg.
    + apply Nat.eqb_eq in Eg. destruct (r_done x) eqn:Ed; auto.
      pose proof (mi_done _ _ H Ed). lia.
    + apply negb_true_iff in Eg. exact Eg.
Qed.

(** what a pending send tells about a source/operator *)
Lemma pending_facts_m : forall cf x c m, mnode_inv cf x -> r_pending x = Some (c, m) ->
  In (c, fst m) (r_outs cf) /\
  forall f : sel, f c (fst m) = true ->
    1 <= owes MT cf x f /\ (snd m <> MT -> 1 <= owes MF cf x f).
Proof.
  intros cf x c m H Hp. unfold r_pending in Hp. destruct (r_outq x) as [|e rest] eqn:Hq; [discriminate|].
  inversion Hp; subst e. clear Hp. split.
  { apply (mi_outs _ _ H (c, m)). rewrite Hq. left; auto. }
  intros f Hf.
  assert (Hhead : forall k, snd m = k -> 1 <= cntb (esel f k) (r_outq x)).
  { intros k Hk. rewrite Hq, cntb_cons. unfold esel, mk, dst. cbn [fst snd].
    rewrite Hf, Hk, marker_eqb_refl. cbn. lia. }
  assert (HF : snd m <> MT -> 1 <= owes MF cf x f).
  { intros Hm. destruct (snd m) eqn:Em; try congruence.
    - pose proof (mi_n0 _ _ H f (c, m)) as Hn0. rewrite Hq in Hn0. apply Hn0; [left; auto | exact Em | exact Hf].
    - pose proof (Hhead MF eq_refl). unfold owes. lia. }
  split; auto.
  destruct (snd m) eqn:Em.
  - pose proof (HF ltac:(discriminate)). pose proof (mi_n1 _ _ H f). lia.
  - pose proof (HF ltac:(discriminate)). pose proof (mi_n1 _ _ H f). lia.
  - pose proof (Hhead MT eq_refl). unfold owes. lia.
Qed.

Section MSafe.
  Variable D : mdag.
  Notation N := (m_n D).
  Notation C := (m_nc D).
  Notation cfg := (m_cfg D).
  Notation cons := (m_cons D).
  Notation conn := (m_conn D).
  Notation NW := (mnet_of D).
  Hypothesis Hdok : mdag_ok D.
  Let Hok : mstruct_ok D := proj1 Hdok.

  Lemma cntk_le : forall s k (f g : sel), (forall w d, f w d = true -> g w d = true) ->
    cntk D s k f <= cntk D s k g.
  Proof.
    intros s k f g H. unfold cntk. apply sumn_le. intros i _. destruct (demuxb (cfg i)); auto.
    apply owes_le. exact H.
  Qed.

  Lemma cntk_pos_m : forall s k f, MInv D s -> k <> MD -> 1 <= cntk D s k f ->
    exists i, i < N /\ demuxb (cfg i) = false /\ node_at s i = Some (nd s i) /\
              r_finished (nd s i) = false /\ exists w d, In (w, d) (r_outs (cfg i)) /\ f w d = true.
  Proof.
    intros s k f HI Hk Hpos. unfold cntk in Hpos. apply sumn_pos in Hpos. destruct Hpos as [i [Hi Ho]].
    destruct (demuxb (cfg i)) eqn:Ed; [lia|].
    pose proof (mv_nodes D s HI i Hi Ed) as Hni.
    destruct (owes_pos_facts k _ _ f Hni Hk Ho) as [Hf Hex].
    exists i. repeat split; auto. apply nd_node_at. rewrite (mv_ln D s HI). exact Hi.
  Qed.

  Lemma prod_node : forall i w d, i < N -> demuxb (cfg i) = false -> In (w, d) (r_outs (cfg i)) ->
    m_prod D w i = true.
  Proof.
    intros i w d Hi Hd Hin. unfold m_prod. apply andb_true_iff. split; [apply Nat.ltb_lt; auto|].
    assert (Hm : memb w (chs (r_outs (cfg i))) = true).
    { apply memb_In. unfold chs. apply in_map_iff. exists (w, d). auto. }
    unfold demuxb in Hd. destruct (r_kind (cfg i)); auto. discriminate.
  Qed.

  Lemma prod_demux : forall p d, p < C -> conn p = true -> routes D p d -> m_prod D d (cons p) = true.
  Proof.
    intros p d Hp Hc Hr. destruct (chan_conn D Hok p Hp Hc) as [Hj [Hk _]].
    unfold m_prod. rewrite Hk. apply andb_true_iff. split; [apply Nat.ltb_lt; auto|].
    apply routes_routesb. exact Hr.
  Qed.

  Lemma RT_F_T : forall s p d, conn_inv D s p -> RT D s MF p d <= RT D s MT p d.
  Proof. intros s p d [_ [C2 _]]. unfold RT. apply (C2 d [] (vchan D s p)). reflexivity. Qed.

  Lemma RT_routes : forall s k p d, MInv D s -> p < C -> conn p = true -> k <> MD ->
    1 <= RT D s k p d -> routes D p d.
  Proof.
    intros s k p d HI Hp Hc Hk H. unfold RT in H.
    destruct (le_lt_dec 1 (cntk D s k (selp p d))) as [H1|H1].
    - destruct (cntk_pos_m s k _ HI Hk H1) as [i [Hi [_ [_ [_ [w [d' [Hin Hf]]]]]]]].
      unfold selp in Hf. apply andb_true_iff in Hf. destruct Hf as [E1 E2].
      apply Nat.eqb_eq in E1, E2. subst. exists i. auto.
    - assert (H2 : 1 <= mc k d (vchan D s p)) by lia. apply cntb_pos in H2.
      destruct H2 as [m [Hin Hm]]. unfold msd in Hm. apply andb_true_iff in Hm. destruct Hm as [E _].
      apply Nat.eqb_eq in E. subst d.
      destruct (mv_conn D s HI p Hp Hc) as [_ [_ [_ [C4 _]]]]. apply C4. exact Hin.
  Qed.

  (** a demultiplexer through which a Terminate still has to pass has not finished *)
  Lemma demux_alive : forall s p d, MInv D s -> p < C -> conn p = true -> 1 <= RT D s MT p d ->
    r_finished (nd s (cons p)) = false.
  Proof.
    intros s p d HI Hp Hc H.
    destruct (mv_conn D s HI p Hp Hc) as [[_ C1b] _].
    destruct (r_outq (nd s (cons p))) as [|e rest] eqn:Hq; [|eapply finished_nonempty; eauto].
    apply finished_not_done. destruct (r_done (nd s (cons p))) eqn:Ed; auto. exfalso.
    specialize (C1b eq_refl). unfold RT, vchan, held in H. rewrite Hq in H. cbn [map app] in H.
    pose proof (cntk_le s MT (selp p d) (selw p)) as H1.
    specialize (H1 ltac:(unfold selp, selw; intros w d' E; apply andb_true_iff in E; tauto)).
    pose proof (mc_le_mcount MT d (chan s p)). lia.
  Qed.

  Lemma UPS_elem : forall s k p d, p < C -> conn p = true -> RT D s k p d <= UPS D s k d.
  Proof.
    intros s k p d Hp Hc. unfold UPS.
    apply (sumn_if_elem C (fun p0 => conn p0) (fun p0 => RT D s k p0 d) p Hp Hc).
  Qed.

  (** what a pending send into the input channel of a replica tells: a Terminate for that
      channel is still upstream, and unless the message is a Terminate, a FlushAndRestart *)
  Lemma pending_final : forall s i x c m, MInv D s -> node_at s i = Some x -> r_pending x = Some (c, m) ->
    c < C -> conn c = false ->
    fst m = c /\
    1 <= cntk D s MT (selp c c) + UPS D s MT c /\
    (snd m <> MT -> 1 <= cntk D s MF (selp c c) + UPS D s MF c).
  Proof.
    intros s i x c m HI Hx Hp Hc Hcc. pose proof HI as [Hln Hlc Hnodes Hconn Hfin].
    destruct (node_at_nd s i x Hx) as [Hi Hxi]. rewrite Hln in Hi.
    destruct (demuxb (cfg i)) eqn:Ed.
    - (* a demultiplexer *)
      destruct (demuxb_kind D i Ed) as [p Hk].
      destruct (demux_node D Hok i p Hi Hk) as [Hpc [Hcp [_ [_ [_ Hcn]]]]].
      pose proof (Hconn p Hpc Hcn) as Hcv. destruct Hcv as [_ [C2 [C3 [C4 C5]]]].
      rewrite Hcp, Hxi in C5.
      unfold r_pending in Hp. destruct (r_outq x) as [|e rest] eqn:Hq; [discriminate|].
      inversion Hp; subst e. clear Hp.
      assert (Hcm : c = fst m) by (apply (C5 (c, m)); left; auto).
      assert (Hvs : vchan D s p = m :: map snd rest ++ chan s p).
      { unfold vchan, held. rewrite Hcp, Hxi, Hq. reflexivity. }
      assert (HF : snd m <> MT -> 1 <= RT D s MF p c).
      { intros Hm. unfold RT. rewrite Hvs, mc_cons. unfold msd at 1. rewrite <- Hcm, Nat.eqb_refl.
        destruct (snd m) eqn:Em; try congruence; cbn [andb marker_eqb]; [|lia].
        pose proof (C3 [] m (map snd rest ++ chan s p) Hvs Em) as H. rewrite <- Hcm in H.
        rewrite mc_app in *. lia. }
      assert (HT : 1 <= RT D s MT p c).
      { destruct (snd m) eqn:Em.
        - pose proof (HF ltac:(discriminate)). pose proof (RT_F_T s p c (Hconn p Hpc Hcn)). lia.
        - pose proof (HF ltac:(discriminate)). pose proof (RT_F_T s p c (Hconn p Hpc Hcn)). lia.
        - unfold RT. rewrite Hvs, mc_cons. unfold msd at 1. rewrite <- Hcm, Nat.eqb_refl, Em. cbn. lia. }
      pose proof (UPS_elem s MT p c Hpc Hcn). pose proof (UPS_elem s MF p c Hpc Hcn).
      split; [auto|]. split; [lia|]. intros Hm. specialize (HF Hm). lia.
    - (* a source or operator *)
      pose proof (Hnodes i Hi Ed) as Hni. rewrite Hxi in Hni.
      destruct (pending_facts_m _ x c m Hni Hp) as [Hin Hf].
      destruct (outs_valid_m D Hok i c (fst m) Hi Hin) as [_ [_ [_ Hcase]]].
      assert (Hcm : fst m = c) by (destruct Hcase as [[-> _]|[_ [Hc1 _]]]; [reflexivity|congruence]).
      destruct (Hf (selp c c)) as [HT HF].
      { unfold selp. rewrite Hcm, !Nat.eqb_refl. reflexivity. }
      pose proof (cntk_elem D s MT (selp c c) i Hi Ed) as H1. rewrite Hxi in H1.
      pose proof (cntk_elem D s MF (selp c c) i Hi Ed) as H2. rewrite Hxi in H2.
      split; [auto|]. split; [lia|]. intros Hm. specialize (HF Hm). lia.
  Qed.

  (** the capacity condition, per channel: a channel that its consumer may refuse holds the
      Terminates of all the final producers of that side *)
  Lemma refused_cap : forall c y, c < C -> conn c = false ->
    ~ In c (r_wants (cfg (cons c)) y) -> nfin D c <= m_cap D c.
  Proof.
    intros c y Hc Hcc Hnw. destruct (chan_final D Hok c Hc Hcc) as [Hj [Hin _]].
    pose proof Hdok as [[Hn _] Hcap]. specialize (Hcap _ Hj). destruct (Hn _ Hj) as [_ _ _ H4].
    unfold is_input, r_wants in *. destruct (r_kind (cfg (cons c))) as [|c' k|l kl r kr|p]; try contradiction.
    - exfalso. apply Hnw. left. auto.
    - destruct H4 as [_ [_ [_ [_ [_ [Hkl [Hkr _]]]]]]]. destruct Hcap as [H1 H2].
      destruct Hin as [->| ->]; lia.
  Qed.

  (** what a demultiplexer holds is meant for a destination routed through its connection *)
  Lemma demux_pending : forall s i x p c m, MInv D s -> node_at s i = Some x ->
    r_kind (cfg i) = KDemux p -> r_pending x = Some (c, m) ->
    c = fst m /\ routes D p c /\ p < C /\ conn p = true /\ cons p = i /\ c < C /\ conn c = false.
  Proof.
    intros s i x p c m HI Hx Hk Hp. pose proof HI as [Hln Hlc Hnodes Hconn Hfin].
    destruct (node_at_nd s i x Hx) as [Hi Hxi]. rewrite Hln in Hi.
    destruct (demux_node D Hok i p Hi Hk) as [Hpc [Hcp [_ [_ [_ Hcn]]]]].
    pose proof (Hconn p Hpc Hcn) as [_ [_ [_ [C4 C5]]]]. rewrite Hcp, Hxi in C5.
    unfold r_pending in Hp. destruct (r_outq x) as [|e rest] eqn:Hq; [discriminate|].
    inversion Hp; subst e. clear Hp.
    assert (Hcm : c = fst m) by (apply (C5 (c, m)); left; auto).
    assert (Hr : routes D p c).
    { rewrite Hcm. apply C4. unfold vchan, held. rewrite Hcp, Hxi, Hq. left; auto. }
    destruct (routes_facts D Hok p c Hr Hcn) as [_ [Hc [Hcf _]]]. repeat split; auto.
  Qed.

  Lemma minv_local : forall s, MInv D s -> ob_local NW s.
  Proof.
    intros s HI. pose proof HI as [Hln Hlc Hnodes Hconn Hfin].
    intros i x Hx Hf. destruct (node_at_nd s i x Hx) as [Hi Hxi]. rewrite Hln in Hi.
    cbn [mnet_of n_sem r_sem pending wants n_chans n_prod n_cons].
    destruct (demuxb (cfg i)) eqn:Ed.
    - destruct (demuxb_kind D i Ed) as [p Hk].
      destruct (demux_node D Hok i p Hi Hk) as [Hpc [Hcp [_ [_ [_ Hcn]]]]]. split.
      + intros c m Hp.
        destruct (demux_pending s i x p c m HI Hx Hk Hp) as [_ [Hr [_ [_ [_ [Hc _]]]]]]. split; auto.
        rewrite <- Hcp. apply prod_demux; auto.
      + intros c Hw. unfold r_wants in Hw. rewrite Hk in Hw. destruct Hw as [Hw|[]]. subst c. auto.
    - pose proof (Hnodes i Hi Ed) as Hni. rewrite Hxi in Hni. split.
      + intros c m Hp. destruct (pending_facts_m _ x c m Hni Hp) as [Hin _].
        destruct (outs_valid_m D Hok i c (fst m) Hi Hin) as [Hc _]. split; auto.
        eapply prod_node; eauto.
      + intros c Hw. apply (input_cons_m D Hok i c Hi). eapply wants_input; eauto.
        apply mcfg_cfg_ok. apply mcfg_ok_of; auto.
  Qed.

  (** ** the plain obligations (level 0 everywhere) hold in every state satisfying the invariant *)
  Lemma minv_safe : forall s, MInv D s -> safe_state NW (fun _ _ => 0) s.
  Proof.
    intros s HI. pose proof HI as [Hln Hlc Hnodes Hconn Hfin].
    pose proof (minv_local s HI) as Hlocal.
    split; [exact Hlocal|split; [|split]].
    - (* receive-liveness *)
      intros i x Hx Hf Hp _ Hempty. destruct (node_at_nd s i x Hx) as [Hi Hxi]. rewrite Hln in Hi.
      cbn [mnet_of n_sem r_sem pending wants finished n_prod] in *.
      unfold r_pending in Hp. destruct (r_outq x) as [|e rest] eqn:Hq; [|discriminate].
      assert (Hd : r_done x = false).
      { unfold r_finished in Hf. rewrite Hq, andb_true_r in Hf. exact Hf. }
      destruct (demuxb (cfg i)) eqn:Ed.
      + (* a demultiplexer waits for a Terminate some producer of the connection still owes *)
        destruct (demuxb_kind D i Ed) as [p Hk].
        destruct (demux_node D Hok i p Hi Hk) as [Hpc [Hcp [_ [_ [_ Hcn]]]]].
        assert (Hw : In p (r_wants (cfg i) x)) by (unfold r_wants; rewrite Hk; left; auto).
        pose proof (Hconn p Hpc Hcn) as [[C1a _] _]. rewrite Hcp, Hxi in C1a.
        destruct (C1a Hd) as [Hm1 Hm2]. rewrite (Hempty p Hw) in Hm1. cbn [mcount cntb filter length] in Hm1.
        destruct (cntk_pos_m s MT (selw p) HI ltac:(discriminate) ltac:(lia))
          as [i' [Hi' [Hd' [Hy' [Hf' [w [d [Hin Hsel]]]]]]]].
        unfold selw in Hsel. apply Nat.eqb_eq in Hsel. subst w.
        exists p, i', (nd s i'). repeat split; auto. eapply prod_node; eauto.
      + pose proof (Hnodes i Hi Ed) as Hni. rewrite Hxi in Hni.
        pose proof (mcfg_cfg_ok _ (mcfg_ok_of D Hok i Hi Ed)) as Hcf.
        destruct (wants_owed _ x Hcf (mi_kind _ _ Hni) Hd) as [c [Hw [HF HT]]].
        destruct (input_cons_m D Hok i c Hi (wants_input _ _ _ Hcf Hw)) as [Hc Hci].
        assert (Hcc : conn c = false) by (unfold m_conn; rewrite Hci; exact Ed).
        destruct (Hfin c Hc Hcc) as [[S1 [_ [S3 _]]] _]. rewrite Hci, Hxi in S1, S3.
        (* a marker of kind k is still to come on c *)
        assert (Hk : exists k, k <> MD /\ 1 <= tot D s k c).
        { destruct (mi_rounds _ _ Hni) as [R|R].
          - exists MF. split; [discriminate|]. specialize (S1 R). specialize (HF R). lia.
          - exists MT. split; [discriminate|]. specialize (S3 Hd). specialize (HT R). lia. }
        destruct Hk as [k [Hk Hpos]]. unfold tot in Hpos. rewrite (Hempty c Hw), mc_nil in Hpos.
        destruct (le_lt_dec 1 (cntk D s k (selp c c))) as [H1|H1].
        * destruct (cntk_pos_m s k _ HI Hk H1) as [i' [Hi' [Hd' [Hy' [Hf' [w [d [Hin Hsel]]]]]]]].
          unfold selp in Hsel. apply andb_true_iff in Hsel. destruct Hsel as [E _].
          apply Nat.eqb_eq in E. subst w.
          exists c, i', (nd s i'). repeat split; auto. eapply prod_node; eauto.
        * assert (H2 : 1 <= UPS D s k c) by lia. unfold UPS in H2. apply sumn_if_pos in H2.
          destruct H2 as [p [Hpc [Hcp HR]]].
          pose proof (RT_routes s k p c HI Hpc Hcp Hk HR) as Hrt.
          assert (HRT : 1 <= RT D s MT p c).
          { destruct k; try congruence; auto. pose proof (RT_F_T s p c (Hconn p Hpc Hcp)). lia. }
          destruct (chan_conn D Hok p Hpc Hcp) as [Hj _].
          exists c, (cons p), (nd s (cons p)). repeat split; auto.
          -- apply prod_demux; auto.
          -- apply nd_node_at. lia.
          -- eapply demux_alive; eauto.
    - (* the consumer of a channel somebody still writes to is alive *)
      intros i x c m Hx Hf Hp _. destruct (node_at_nd s i x Hx) as [Hi Hxi]. rewrite Hln in Hi.
      cbn [mnet_of n_sem r_sem pending wants finished n_prod n_cons] in *.
      assert (Hc : c < C).
      { destruct (Hlocal i x Hx Hf) as [H _]. destruct (H c m Hp) as [H' _]. exact H'. }
      destruct (conn c) eqn:Hcc.
      + (* a connection: its demultiplexer still has to forward the sender's Terminate *)
        destruct (chan_conn D Hok c Hc Hcc) as [Hj _].
        exists (nd s (cons c)). split; [apply nd_node_at; lia|]. split; [|lia].
        destruct (demuxb (cfg i)) eqn:Ed.
        { exfalso. destruct (demuxb_kind D i Ed) as [p Hk].
          destruct (demux_pending s i x p c m HI Hx Hk Hp) as [_ [_ [_ [_ [_ [_ Hcf]]]]]]. congruence. }
        pose proof (Hnodes i Hi Ed) as Hni. rewrite Hxi in Hni.
        destruct (pending_facts_m _ x c m Hni Hp) as [Hin Hfa].
        destruct (Hfa (selw c)) as [HT _]; [unfold selw; apply Nat.eqb_refl|].
        pose proof (cntk_elem D s MT (selw c) i Hi Ed) as H1. rewrite Hxi in H1.
        pose proof (Hconn c Hc Hcc) as [[_ C1b] _].
        destruct (r_outq (nd s (cons c))) as [|e rest] eqn:Hq; [|eapply finished_nonempty; eauto].
        apply finished_not_done. destruct (r_done (nd s (cons c))) eqn:Edn; auto.
        specialize (C1b eq_refl). lia.
      + destruct (chan_final D Hok c Hc Hcc) as [Hj _].
        destruct (pending_final s i x c m HI Hx Hp Hc Hcc) as [_ [HT _]].
        destruct (Hfin c Hc Hcc) as [[_ [_ [_ S4]]] _].
        exists (nd s (cons c)). split; [apply nd_node_at; lia|]. split; [|lia].
        apply finished_not_done. destruct (r_done (nd s (cons c))) eqn:Edn; auto.
        specialize (S4 eq_refl). unfold tot in S4. lia.
    - (* refusal: never *)
      intros i x c m y Hx Hf Hp Hfull Hy Hfy Hpy _ Hnw. exfalso.
      cbn [mnet_of n_sem r_sem pending wants finished n_prod n_cons n_cap] in *.
      assert (Hc : c < C).
      { destruct (Hlocal i x Hx Hf) as [H _]. destruct (H c m Hp) as [H' _]. exact H'. }
      destruct (node_at_nd s _ y Hy) as [Hj Hyj]. rewrite Hln in Hj.
      destruct (conn c) eqn:Hcc.
      + (* a demultiplexer always reads its connection *)
        destruct (chan_conn D Hok c Hc Hcc) as [_ [Hk _]].
        apply Hnw. unfold r_wants. rewrite Hk. left; auto.
      + destruct (chan_final D Hok c Hc Hcc) as [_ [Hinp [_ Hdc]]].
        destruct (pending_final s i x c m HI Hx Hp Hc Hcc) as [Hcm [HT HF]].
        pose proof (Hnodes _ Hj Hdc) as Hnj. rewrite Hyj in Hnj.
        destruct (Hfin c Hc Hcc) as [[S1 [_ [S3 _]]] [_ [F3 [F4 F5]]]]. rewrite Hyj in S1, S3.
        unfold r_pending in Hpy. destruct (r_outq y) as [|e rest] eqn:Hq; [|discriminate].
        assert (Hd : r_done y = false).
        { unfold r_finished in Hfy. rewrite Hq, andb_true_r in Hfy. exact Hfy. }
        specialize (S3 Hd).
        pose proof (mcfg_cfg_ok _ (mcfg_ok_of D Hok _ Hj Hdc)) as Hcf.
        destruct (refusal_cases _ y c Hcf (mi_kind _ _ Hnj) Hinp Hnw) as [[R Hz] | Hz].
        2: { unfold tot in S3. lia. }
        destruct (mi_rounds _ _ Hnj) as [R'|R']; [|contradiction].
        specialize (S1 R').
        (* the side has ended its round: no FlushAndRestart is to come, the channel holds
           Terminates only, and the sender's message is one more *)
        assert (Hz' : tot D s MF c = 0) by lia.
        assert (Hall : forall m0, In m0 (chan s c) -> msd c MT m0 = true).
        { intros m0 Hin. unfold msd. rewrite (F4 m0 Hin), Nat.eqb_refl. cbn [andb].
          destruct (snd m0) eqn:Em; auto; exfalso.
          - apply in_split in Hin. destruct Hin as [q1 [q2 Hs]].
            pose proof (F3 q1 m0 q2 Hs Em). lia.
          - assert (1 <= mc MF c (chan s c)).
            { eapply cntb_in; eauto. unfold msd. rewrite (F4 m0 Hin), Nat.eqb_refl, Em. reflexivity. }
            unfold tot in Hz'. lia. }
        pose proof (cntb_all (msd c MT) (chan s c) Hall) as Hlen. fold (mc MT c (chan s c)) in Hlen.
        assert (HmT : snd m = MT).
        { destruct (snd m) eqn:Em; auto; specialize (HF ltac:(discriminate)); unfold tot in Hz'; lia. }
        pose proof (refused_cap c y Hc Hcc Hnw) as Hcap.
        unfold tot in F5. lia.
  Qed.
End MSafe.

(** * Termination measure (as in NetDagProofs.v): a queued send of node i weighs K^(2(N-i)),
    a message in flight to node j weighs K^(2(N-j)+1); a demultiplexer turns one message in
    flight to it into one queued send *)
Section MMeasure.
  Variable D : mdag.
  Notation N := (m_n D).
  Notation C := (m_nc D).
  Notation cfg := (m_cfg D).
  Notation cons := (m_cons D).
  Notation NW := (mnet_of D).
  Hypothesis Hdok : mdag_ok D.
  Let Hok : mstruct_ok D := proj1 Hdok.

  Definition mux_K : nat := 2 + sumn N (fun i => length (r_outs (cfg i)) + length (r_douts (cfg i))).
  Definition mux_W (i : nat) : nat := mux_K ^ (2 * (N - i)).
  Definition mux_V (j : nat) : nat := mux_K ^ (2 * (N - j) + 1).
  Definition mux_mu (s : state emsg rstate) : nat :=
    sumn N (fun i => length (r_outq (nd s i)) * mux_W i) +
    sumn C (fun c => length (chan s c) * mux_V (cons c)).

  Lemma mux_K_gt1 : 1 < mux_K.
  Proof. unfold mux_K. lia. Qed.

  Lemma mux_W_pos : forall i, 1 <= mux_W i.
  Proof.
    intros i. unfold mux_W. pose proof mux_K_gt1.
    assert (mux_K ^ (2 * (N - i)) <> 0) by (apply Nat.pow_nonzero; lia). lia.
  Qed.

  Lemma mux_V_W : forall j, mux_V j = mux_K * mux_W j.
  Proof. intros j. unfold mux_V, mux_W. rewrite Nat.add_1_r. apply Nat.pow_succ_r'. Qed.

  Lemma mux_V_lt_W : forall i j, i < j -> j < N -> mux_V j < mux_W i.
  Proof.
    intros i j Hij Hj. unfold mux_V, mux_W. apply Nat.pow_lt_mono_r; [apply mux_K_gt1 | lia].
  Qed.

  Lemma mux_mu_decreases : forall s s', MInv D s -> step NW s s' -> mux_mu s' < mux_mu s.
  Proof.
    intros s s' HI Hs. pose proof HI as [Hln Hlc Hnodes Hconn Hfin].
    pose proof (minv_local D Hdok s HI) as Hloc.
    destruct (mnet_of_ok D Hok) as [Hchk [Htopo _]].
    inversion Hs as [s0 i x c m Hx Hf Hp Hlen | s0 i x c m q Hx Hf Hp Hw Hch | s0 i x x' Hx Hf Hp Ht]; subst.
    - (* send *)
      destruct (Hloc i x Hx Hf) as [Hl1 _]. destruct (Hl1 c m Hp) as [Hc Hprod].
      pose proof (Htopo c i Hc Hprod) as Hlt. destruct (Hchk c Hc) as [Hj _].
      cbn [mnet_of n_sem r_sem on_send pending n_cons n_nodes n_chans] in *.
      destruct (node_at_nd s i x Hx) as [Hi Hxi]. rewrite Hln in Hi.
      unfold r_pending in Hp. destruct (r_outq x) as [|e rest] eqn:Hq; [discriminate|].
      set (s' := {| nodes := upd i (r_on_send x) (nodes s); chans := upd c (chan s c ++ [m]) (chans s) |}).
      assert (Hnd_i : nd s' i = r_on_send x).
      { unfold nd, s'. cbn [nodes]. apply nth_upd_eq. lia. }
      assert (Hnd_o : forall i', i' <> i -> nd s' i' = nd s i').
      { intros i' Hne. unfold nd, s'. cbn [nodes]. apply nth_upd_neq. auto. }
      assert (Hch_c : chan s' c = chan s c ++ [m]).
      { unfold chan, s'. cbn [chans]. apply nth_upd_eq. lia. }
      assert (Hch_o : forall c0, c0 <> c -> chan s' c0 = chan s c0).
      { intros c0 Hne. unfold chan, s'. cbn [chans]. apply nth_upd_neq. auto. }
      unfold mux_mu.
      pose proof (sumn_except N (fun i0 => length (r_outq (nd s i0)) * mux_W i0)
                    (fun i0 => length (r_outq (nd s' i0)) * mux_W i0) i Hi) as HS1.
      cbv beta in HS1. rewrite Hnd_i, Hxi in HS1. cbn [r_on_send r_outq] in HS1. rewrite Hq in HS1.
      cbn [tl length] in HS1. rewrite Nat.mul_succ_l in HS1.
      specialize (HS1 ltac:(intros k0 _ Hne; rewrite Hnd_o by auto; reflexivity)).
      pose proof (sumn_except C (fun c0 => length (chan s c0) * mux_V (cons c0))
                    (fun c0 => length (chan s' c0) * mux_V (cons c0)) c Hc) as HS2.
      cbv beta in HS2. rewrite Hch_c in HS2. rewrite app_length in HS2. cbn [length] in HS2.
      rewrite Nat.mul_add_distr_r, Nat.mul_1_l in HS2.
      specialize (HS2 ltac:(intros k0 _ Hne; rewrite Hch_o by auto; reflexivity)).
      pose proof (mux_V_lt_W i (cons c) Hlt Hj). lia.
    - (* receive *)
      destruct (Hloc i x Hx Hf) as [_ Hl2]. destruct (Hl2 c Hw) as [Hc Hci].
      cbn [mnet_of n_sem r_sem on_recv pending wants n_cons n_nodes n_chans] in *.
      destruct (node_at_nd s i x Hx) as [Hi Hxi]. rewrite Hln in Hi.
      unfold r_pending in Hp. destruct (r_outq x) as [|e rest] eqn:Hq; [|discriminate].
      set (s' := {| nodes := upd i (r_on_recv (cfg i) x c m) (nodes s); chans := upd c q (chans s) |}).
      assert (Hnd_i : nd s' i = r_on_recv (cfg i) x c m).
      { unfold nd, s'. cbn [nodes]. apply nth_upd_eq. lia. }
      assert (Hnd_o : forall i', i' <> i -> nd s' i' = nd s i').
      { intros i' Hne. unfold nd, s'. cbn [nodes]. apply nth_upd_neq. auto. }
      assert (Hch_c : chan s' c = q).
      { unfold chan, s'. cbn [chans]. apply nth_upd_eq. lia. }
      assert (Hch_o : forall c0, c0 <> c -> chan s' c0 = chan s c0).
      { intros c0 Hne. unfold chan, s'. cbn [chans]. apply nth_upd_neq. auto. }
      unfold mux_mu.
      pose proof (sumn_except N (fun i0 => length (r_outq (nd s i0)) * mux_W i0)
                    (fun i0 => length (r_outq (nd s' i0)) * mux_W i0) i Hi) as HS1.
      cbv beta in HS1. rewrite Hnd_i, Hxi in HS1. rewrite Hq in HS1. cbn [length] in HS1.
      rewrite Nat.mul_0_l in HS1.
      specialize (HS1 ltac:(intros k0 _ Hne; rewrite Hnd_o by auto; reflexivity)).
      pose proof (sumn_except C (fun c0 => length (chan s c0) * mux_V (cons c0))
                    (fun c0 => length (chan s' c0) * mux_V (cons c0)) c Hc) as HS2.
      cbv beta in HS2. rewrite Hch_c, Hch in HS2. cbn [length] in HS2. rewrite Nat.mul_succ_l in HS2.
      specialize (HS2 ltac:(intros k0 _ Hne; rewrite Hch_o by auto; reflexivity)).
      rewrite Hci in HS2.
      pose proof (recv_outq_len (cfg i) x c m Hq) as Hlen.
      pose proof (sumn_elem N (fun i0 => length (r_outs (cfg i0)) + length (r_douts (cfg i0))) i Hi) as Hel.
      cbv beta in Hel.
      assert (Hlt : length (r_outq (r_on_recv (cfg i) x c m)) * mux_W i < mux_V i).
      { rewrite mux_V_W. apply Nat.mul_lt_mono_pos_r; [pose proof (mux_W_pos i); lia|].
        unfold mux_K. lia. }
      lia.
    - cbn [mnet_of n_sem r_sem on_tau] in Ht. discriminate.
  Qed.
End MMeasure.

(** * Main theorems *)
(** every reachable state of a well-formed multi-host network satisfies the plain obligations
    of NetProofs.v (level 0 everywhere): in particular nobody ever waits on a channel its
    consumer refuses *)
Theorem mux_safe : forall D, mdag_ok D ->
  forall s, reachable (mnet_of D) s -> safe_state (mnet_of D) (fun _ _ => 0) s.
Proof. intros D Hok s Hr. apply minv_safe; auto. apply minv_reachable; auto. apply Hok. Qed.

Theorem mux_safe_progress : forall D, mdag_ok D ->
  forall s, reachable (mnet_of D) s -> ~ final (mnet_of D) s -> exists s', step (mnet_of D) s s'.
Proof.
  intros D Hok. apply (no_deadlock (mnet_of D) (fun _ _ => 0) (mnet_of_ok D (proj1 Hok)) (mux_safe D Hok)).
Qed.

Theorem mux_safe_no_deadlock : forall D, mdag_ok D ->
  forall s, reachable (mnet_of D) s -> ~ stuck (mnet_of D) s.
Proof.
  intros D Hok. apply (never_stuck (mnet_of D) (fun _ _ => 0) (mnet_of_ok D (proj1 Hok)) (mux_safe D Hok)).
Qed.

Lemma mux_mu_reachable : forall D, mdag_ok D ->
  forall s s', reachable (mnet_of D) s -> step (mnet_of D) s s' -> mux_mu D s' < mux_mu D s.
Proof. intros D Hok s s' Hr Hs. apply mux_mu_decreases; auto. apply minv_reachable; auto. apply Hok. Qed.

Theorem mux_safe_terminates : forall D, mdag_ok D -> terminating (mnet_of D) (n_init (mnet_of D)).
Proof.
  intros D Hok.
  apply (terminates (mnet_of D) (fun _ _ => 0) (mnet_of_ok D (proj1 Hok)) (mux_safe D Hok) (mux_mu D)
           (mux_mu_reachable D Hok)).
  constructor.
Qed.

(** a final state is reachable, there is no infinite execution, and a reachable state
    without steps is final *)
Theorem mux_safe_job_terminates : forall D, mdag_ok D ->
  (exists s', steps (mnet_of D) (n_init (mnet_of D)) s' /\ final (mnet_of D) s') /\
  (forall f : nat -> state emsg rstate, f 0 = n_init (mnet_of D) ->
     ~ (forall k, step (mnet_of D) (f k) (f (S k)))) /\
  (forall s, reachable (mnet_of D) s -> (forall s', ~ step (mnet_of D) s s') -> final (mnet_of D) s).
Proof.
  intros D Hok.
  apply (job_terminates (mnet_of D) (fun _ _ => 0) (mnet_of_ok D (proj1 Hok)) (mux_safe D Hok) (mux_mu D)
           (mux_mu_reachable D Hok)).
Qed.

(** the boolean check is enough *)
Corollary mdag_okb_no_deadlock : forall D, mdag_okb D = true ->
  forall s, reachable (mnet_of D) s -> ~ stuck (mnet_of D) s.
Proof. intros D H. apply mux_safe_no_deadlock. apply mdag_okb_spec. exact H. Qed.

Corollary mdag_okb_terminates : forall D, mdag_okb D = true -> terminating (mnet_of D) (n_init (mnet_of D)).
Proof. intros D H. apply mux_safe_terminates. apply mdag_okb_spec. exact H. Qed.

(** * The producer counts are counts of final producers
    [nfin D d] (direct writers of d plus, per connection, the writers of messages for d) is the
    number of outputs with final destination d, i.e. - one output per destination and
    replica, [mo_nodup] - the number of source/operator replicas that send to d. *)
Lemma sumn_add : forall n f g, sumn n (fun i => f i + g i) = sumn n f + sumn n g.
Proof. induction n as [|n IH]; intros; cbn [sumn]; auto. rewrite IH. lia. Qed.

Lemma sumn_swap : forall n m (g : nat -> nat -> nat),
  sumn n (fun i => sumn m (fun p => g i p)) = sumn m (fun p => sumn n (fun i => g i p)).
Proof.
  induction n as [|n IH]; intros m g; cbn [sumn].
  - symmetry. apply sumn_zero. auto.
  - rewrite IH, <- sumn_add. reflexivity.
Qed.

Lemma sumn_indicator : forall n (b : nat -> bool) p0, p0 < n ->
  sumn n (fun p => if b p && Nat.eqb p0 p then 1 else 0) = if b p0 then 1 else 0.
Proof.
  induction n as [|n IH]; intros b p0 H; [lia|]. cbn [sumn].
  destruct (Nat.eq_dec p0 n) as [->|Hne].
  - rewrite Nat.eqb_refl, andb_true_r. rewrite (sumn_zero n); [lia|].
    intros i Hi. assert (E : Nat.eqb n i = false) by (apply Nat.eqb_neq; lia).
    rewrite E, andb_false_r. reflexivity.
  - assert (E : Nat.eqb p0 n = false) by (apply Nat.eqb_neq; auto).
    rewrite E, andb_false_r, IH by lia. lia.
Qed.

Lemma osel_seld : forall d w d', osel (seld d) (w, d') = Nat.eqb d' d.
Proof. reflexivity. Qed.
Lemma osel_selp : forall a b w d', osel (selp a b) (w, d') = Nat.eqb w a && Nat.eqb d' b.
Proof. reflexivity. Qed.

Lemma split_count : forall D d l,
  (forall w d', In (w, d') l -> d' = d ->
     (w = d /\ m_conn D d = false) \/ (w < m_nc D /\ w <> d /\ m_conn D w = true)) ->
  cntb (osel (seld d)) l =
  cntb (osel (selp d d)) l + sumn (m_nc D) (fun p => if m_conn D p then cntb (osel (selp p d)) l else 0).
Proof.
  intros D d. induction l as [|[w d'] l IH]; intros H.
  - cbn. rewrite sumn_zero; auto. intros i _. destruct (m_conn D i); reflexivity.
  - rewrite (sumn_ext _ _ (fun p => (if m_conn D p && Nat.eqb w p && Nat.eqb d' d then 1 else 0) +
                                     (if m_conn D p then cntb (osel (selp p d)) l else 0))).
    2: { intros p _. rewrite cntb_cons, osel_selp.
         destruct (m_conn D p); cbn [andb]; auto. }
    rewrite sumn_add. rewrite !cntb_cons, IH by (intros; eapply H; eauto; right; auto).
    rewrite osel_seld, osel_selp.
    set (S0 := sumn (m_nc D) (fun p => if m_conn D p then cntb (osel (selp p d)) l else 0)).
    destruct (Nat.eqb d' d) eqn:E.
    + apply Nat.eqb_eq in E. specialize (H w d' ltac:(left; auto) E).
      destruct H as [[-> Hc] | [Hw [Hne Hc]]].
      * assert (Z : sumn (m_nc D) (fun i => if m_conn D i && Nat.eqb d i && true then 1 else 0) = 0).
        { apply sumn_zero. intros p _. destruct (Nat.eqb d p) eqn:E2; [|rewrite andb_false_r; reflexivity].
          apply Nat.eqb_eq in E2. subst p. rewrite Hc. reflexivity. }
        rewrite Z, Nat.eqb_refl. cbn [andb]. lia.
      * assert (Z : sumn (m_nc D) (fun i => if m_conn D i && Nat.eqb w i && true then 1 else 0) = 1).
        { rewrite (sumn_ext _ _ (fun p => if m_conn D p && Nat.eqb w p then 1 else 0))
            by (intros; rewrite andb_true_r; reflexivity).
          rewrite sumn_indicator by auto. rewrite Hc. reflexivity. }
        assert (E2 : Nat.eqb w d = false) by (apply Nat.eqb_neq; auto).
        rewrite Z, E2. cbn [andb]. lia.
    + assert (Z : sumn (m_nc D) (fun i => if m_conn D i && Nat.eqb w i && false then 1 else 0) = 0).
      { apply sumn_zero. intros p _. rewrite andb_false_r. reflexivity. }
      rewrite Z, andb_false_r. lia.
Qed.

Theorem nfin_by_dest : forall D d, mstruct_ok D -> d < m_nc D -> m_conn D d = false ->
  nfin D d = sumn (m_n D) (fun i => cntb (osel (seld d)) (r_outs (m_cfg D i))).
Proof.
  intros D d Hok Hd Hcd. unfold nfin, nrouted.
  rewrite (sumn_ext (m_n D) (fun i => cntb (osel (seld d)) (r_outs (m_cfg D i)))
             (fun i => cntb (osel (selp d d)) (r_outs (m_cfg D i)) +
                       sumn (m_nc D) (fun p => if m_conn D p then cntb (osel (selp p d)) (r_outs (m_cfg D i)) else 0))).
  2: { intros i Hi. apply split_count. intros w d' Hin ->.
       destruct (outs_valid_m D Hok i w d Hi Hin) as [Hw [_ [_ [[-> Hc]|[Hne [Hc _]]]]]]; auto. }
  rewrite sumn_add. f_equal. rewrite sumn_swap. apply sumn_ext. intros p _.
  destruct (m_conn D p); auto. symmetry. apply sumn_zero. auto.
Qed.

(** * Instances: non-vacuity and the boundary *)

(** ** the join of two parallel sources on two hosts ([mux_join_gen] of NetProofs.v), as a
    description. nodes 0,1,2 = L  3,4,5 = R  6 = DL  7 = DR  8 = a  9 = b;
    chans 0 = a.left  1 = b.left  2 = a.right  3 = b.right  4 = conn L->B  5 = conn R->B *)
Definition mux_join_dag (same_order : bool) : mdag :=
  {| m_n := 10; m_nc := 6; m_cfg := mux_join_cfg same_order; m_data := fun _ => [];
     m_cons := fun c => match c with 0 => 8 | 1 => 9 | 2 => 8 | 3 => 9 | 4 => 6 | _ => 7 end;
     m_cap := fun _ => 1;
     m_nterm := fun _ => 6 |}.

(** it denotes the network of NetProofs.v *)
Lemma mux_join_dag_same : forall o,
  n_init (mnet_of (mux_join_dag o)) = n_init (mux_join_gen o) /\
  n_nodes (mnet_of (mux_join_dag o)) = n_nodes (mux_join_gen o) /\
  n_chans (mnet_of (mux_join_dag o)) = n_chans (mux_join_gen o) /\
  (forall c, c < 6 -> n_cons (mnet_of (mux_join_dag o)) c = n_cons (mux_join_gen o) c /\
                      n_cap (mnet_of (mux_join_dag o)) c = n_cap (mux_join_gen o) c /\
                      forall i, i < 10 -> n_prod (mnet_of (mux_join_dag o)) c i = n_prod (mux_join_gen o) c i) /\
  (forall i, n_sem (mnet_of (mux_join_dag o)) i = n_sem (mux_join_gen o) i).
Proof.
  intros o. split; [destruct o; reflexivity|]. split; [reflexivity|]. split; [reflexivity|].
  split; [|reflexivity].
  intros c Hc. do 6 (destruct c as [|c]; [split; [reflexivity|split; [reflexivity|]];
    intros i Hi; do 10 (destruct i as [|i]; [destruct o; reflexivity|]); lia|]). lia.
Qed.

(** the description is well-formed EXCEPT for the capacity condition: each side of a and b
    has 3 producers, its channel holds 1 *)
Lemma mux_join_dag_struct : forall o, mstruct_okb (mux_join_dag o) = true.
Proof. intros [|]; vm_compute; reflexivity. Qed.
Lemma mux_join_dag_cap : forall o, mcap_okb (mux_join_dag o) = false.
Proof. intros [|]; vm_compute; reflexivity. Qed.
Lemma mux_join_dag_not_ok : forall o, mdag_okb (mux_join_dag o) = false.
Proof. intros o. unfold mdag_okb. rewrite mux_join_dag_cap. apply andb_false_r. Qed.

(** and the deadlock of [mux_join_deadlock] is a deadlock of the denoted network: the
    capacity condition cannot be dropped from [mux_safe_no_deadlock] *)
Theorem mux_join_dag_deadlock :
  exists s, reachable (mnet_of (mux_join_dag false)) s /\ stuck (mnet_of (mux_join_dag false)) s.
Proof.
  exists mux_join_dead. split.
  - apply (exec_all_reachable _ mux_join_schedule). vm_compute. reflexivity.
  - apply disabled_stuck.
    + vm_compute. reflexivity.
    + intros Hfin. specialize (Hfin 0 _ eq_refl). vm_compute in Hfin. discriminate.
Qed.

(** with the capacity of the four input channels raised to the number of producers of a
    side (3; the connections keep capacity 1) the description is well-formed, in both orders *)
Definition mux_join_dag3 (same_order : bool) : mdag :=
  {| m_n := 10; m_nc := 6; m_cfg := mux_join_cfg same_order; m_data := fun _ => [];
     m_cons := fun c => match c with 0 => 8 | 1 => 9 | 2 => 8 | 3 => 9 | 4 => 6 | _ => 7 end;
     m_cap := fun c => match c with 4 | 5 => 1 | _ => 3 end;
     m_nterm := fun _ => 6 |}.
Lemma mux_join_dag3_ok : forall o, mdag_okb (mux_join_dag3 o) = true.
Proof. intros [|]; vm_compute; reflexivity. Qed.

Theorem mux_join3_no_deadlock : forall o s,
  reachable (mnet_of (mux_join_dag3 o)) s -> ~ stuck (mnet_of (mux_join_dag3 o)) s.
Proof. intros o. apply mdag_okb_no_deadlock. apply mux_join_dag3_ok. Qed.

(** ** the same shape with 2 + 2 producers and capacity 2 on the consumers' channels
    (connections: capacity 1), with data.
    nodes 0,1 = L  2,3 = R  4 = DL  5 = DR  6 = a  7 = b;  chans as above *)
Definition j2_cfg (same_order : bool) (i : nat) : rcfg :=
  match i with
  | 0 | 1 => jL | 2 | 3 => jR same_order | 4 => jDL | 5 => jDR
  | 6 => {| r_kind := KOp2 0 2 2 2; r_outs := []; r_douts := [] |}
  | _ => {| r_kind := KOp2 1 2 3 2; r_outs := []; r_douts := [] |}
  end.
Definition j2_dag (same_order : bool) (cap : nat) : mdag :=
  {| m_n := 8; m_nc := 6; m_cfg := j2_cfg same_order;
     m_data := fun i => match i with 0 => [(4, 0); (4, 1); (4, 0)] | 1 => [(4, 1)] | 2 => [(5, 2)] | _ => [] end;
     m_cons := fun c => match c with 0 => 6 | 1 => 7 | 2 => 6 | 3 => 7 | 4 => 4 | _ => 5 end;
     m_cap := fun c => match c with 4 | 5 => 1 | _ => cap end;
     m_nterm := fun _ => 4 |}.

Lemma j2_dag_ok : forall o, mdag_okb (j2_dag o 2) = true.
Proof. intros [|]; vm_compute; reflexivity. Qed.

Theorem j2_no_deadlock : forall o s, reachable (mnet_of (j2_dag o 2)) s -> ~ stuck (mnet_of (j2_dag o 2)) s.
Proof. intros o. apply mdag_okb_no_deadlock. apply j2_dag_ok. Qed.

Theorem j2_terminates : forall o, terminating (mnet_of (j2_dag o 2)) (n_init (mnet_of (j2_dag o 2))).
Proof. intros o. apply mdag_okb_terminates. apply j2_dag_ok. Qed.

(** with capacity 1 the same description fails the check, again only for the capacity *)
Lemma j2_dag_cap1 : forall o, mstruct_okb (j2_dag o 1) = true /\ mcap_okb (j2_dag o 1) = false.
Proof. intros [|]; split; vm_compute; reflexivity. Qed.

(** ** the diamond on two hosts ([mux_net] of NetProofs.v, head-of-line deadlock).
    nodes 0,1,2 = A  3 = C  4 = demux(A->B)  5 = demux(C->B)  6 = B0  7 = B1;
    chans 0 = B0.left 1 = B1.left 2 = B0.right 3 = B1.right 4 = conn A->B 5 = conn C->B 6 = C.in *)
Definition mux_dia_dag (capl : nat) : mdag :=
  {| m_n := 8; m_nc := 7; m_cfg := mux_cfg; m_data := fun _ => [];
     m_cons := fun c => match c with 0 => 6 | 1 => 7 | 2 => 6 | 3 => 7 | 4 => 4 | 5 => 5 | _ => 3 end;
     m_cap := fun c => match c with 0 | 1 => capl | _ => 1 end;
     m_nterm := fun i => match i with 4 => 6 | _ => 2 end |}.

Lemma mux_dia_dag_same :
  n_init (mnet_of (mux_dia_dag 1)) = n_init mux_net /\
  (forall c, c < 7 -> n_cons (mnet_of (mux_dia_dag 1)) c = n_cons mux_net c /\
                      n_cap (mnet_of (mux_dia_dag 1)) c = n_cap mux_net c /\
                      forall i, i < 8 -> n_prod (mnet_of (mux_dia_dag 1)) c i = n_prod mux_net c i) /\
  (forall i, n_sem (mnet_of (mux_dia_dag 1)) i = n_sem mux_net i).
Proof.
  split; [reflexivity|]. split; [|reflexivity].
  intros c Hc. do 7 (destruct c as [|c]; [split; [reflexivity|split; [reflexivity|]];
    intros i Hi; do 8 (destruct i as [|i]; [reflexivity|]); lia|]). lia.
Qed.

(** [mux_net] (capacity 1 on the left inputs of B0, B1, 3 producers) fails the capacity
    condition only; with capacity 3 there it is deadlock-free *)
Lemma mux_dia_dag1 : mstruct_okb (mux_dia_dag 1) = true /\ mcap_okb (mux_dia_dag 1) = false.
Proof. split; vm_compute; reflexivity. Qed.
Lemma mux_dia_dag3_ok : mdag_okb (mux_dia_dag 3) = true.
Proof. vm_compute. reflexivity. Qed.
Theorem mux_dia3_no_deadlock : forall s, reachable (mnet_of (mux_dia_dag 3)) s -> ~ stuck (mnet_of (mux_dia_dag 3)) s.
Proof. apply mdag_okb_no_deadlock. apply mux_dia_dag3_ok. Qed.

(** the check rejects ill-formed descriptions: a wrong Terminate count of a demultiplexer, a
    wrong producer count of a consumer behind a demultiplexer *)
Example bad_nterm : mstruct_okb
  {| m_n := 8; m_nc := 6; m_cfg := j2_cfg true; m_data := fun _ => [];
     m_cons := fun c => match c with 0 => 6 | 1 => 7 | 2 => 6 | 3 => 7 | 4 => 4 | _ => 5 end;
     m_cap := fun _ => 2; m_nterm := fun _ => 2 |} = false.
Proof. vm_compute. reflexivity. Qed.
Example bad_kl : mstruct_okb
  {| m_n := 8; m_nc := 6;
     m_cfg := fun i => match i with 6 => {| r_kind := KOp2 0 1 2 2; r_outs := []; r_douts := [] |}
                                   | _ => j2_cfg true i end;
     m_data := fun _ => [];
     m_cons := fun c => match c with 0 => 6 | 1 => 7 | 2 => 6 | 3 => 7 | 4 => 4 | _ => 5 end;
     m_cap := fun _ => 2; m_nterm := fun _ => 4 |} = false.
Proof. vm_compute. reflexivity. Qed.

(** the main theorems depend on no axiom *)
Print Assumptions mux_safe.
Print Assumptions mux_safe_no_deadlock.
Print Assumptions mux_safe_terminates.
Print Assumptions mux_safe_job_terminates.
Print Assumptions mux_join_dag_deadlock.

(** Proofs about the scheduler model [Model/Sched.v]: placement (S1), global ids (S2),
    forward / fragile / all-to-all wiring (S3), socket ports (S4), order independence (S5). *)
From Coq Require Import List ZArith Arith Bool Lia Permutation Sorting.Sorted.
From Noir Require Import Model.Sched.
Import ListNotations.
Open Scope nat_scope.

(* ------------------------------------------------------------------------- *)
(** * Generic list helpers *)

Lemma NoDup_app_intro {A} (l1 l2 : list A) :
  NoDup l1 -> NoDup l2 -> (forall x, In x l1 -> In x l2 -> False) -> NoDup (l1 ++ l2).
Proof.
  induction l1 as [|a l1 IH]; intros H1 H2 Hd.
  - exact H2.
  - rewrite <- app_comm_cons. inversion H1; subst. constructor.
    + rewrite in_app_iff. intros [Hin|Hin].
      * contradiction.
      * apply (Hd a); [left; reflexivity | exact Hin].
    + apply IH; auto. intros x Hx1 Hx2. apply (Hd x); [right; exact Hx1 | exact Hx2].
Qed.

Lemma fold_add_acc : forall l a, fold_left Nat.add l a = a + fold_left Nat.add l 0.
Proof.
  induction l as [|x l IH]; intros a.
  - cbn [fold_left]. lia.
  - cbn [fold_left]. rewrite (IH (a + x)), (IH (0 + x)). lia.
Qed.

Lemma fold_add_cons : forall x l, fold_left Nat.add (x :: l) 0 = x + fold_left Nat.add l 0.
Proof. intros. cbn [fold_left]. rewrite fold_add_acc. lia. Qed.

Lemma filter_unique {A} (p : A -> bool) (l : list A) (x : A) :
  NoDup l -> In x l -> p x = true -> (forall y, In y l -> p y = true -> y = x) ->
  filter p l = [x].
Proof.
  induction l as [|a l IH]; intros Hnd Hin Hpx Huniq.
  - destruct Hin.
  - inversion Hnd as [|? ? Hnotin Hnd']; subst. cbn [filter].
    destruct Hin as [->|Hin].
    + rewrite Hpx. f_equal.
      assert (Hnone : forall y, In y l -> p y = false).
      { intros y Hy. destruct (p y) eqn:E; [|reflexivity].
        exfalso. apply Hnotin. rewrite <- (Huniq y (or_intror Hy) E). exact Hy. }
      clear -Hnone. induction l as [|b l IH]; [reflexivity|].
      cbn [filter]. rewrite (Hnone b (or_introl eq_refl)). apply IH.
      intros y Hy. apply Hnone. right. exact Hy.
    + destruct (p a) eqn:E.
      * exfalso. apply Hnotin. rewrite (Huniq a (or_introl eq_refl) E). exact Hin.
      * apply IH; auto. intros y Hy. apply Huniq. right. exact Hy.
Qed.

(* ------------------------------------------------------------------------- *)
(** * S2 (part 1): [coord_eqb] reflects equality; [index_of] *)

Lemma coord_eqb_eq : forall a b, coord_eqb a b = true <-> a = b.
Proof.
  intros [ab ah ar] [bb bh br]. unfold coord_eqb. cbn [c_block c_host c_replica].
  rewrite !andb_true_iff, !Nat.eqb_eq. split.
  - intros [[-> ->] ->]. reflexivity.
  - intros H. inversion H. auto.
Qed.

Lemma coord_eqb_refl : forall a, coord_eqb a a = true.
Proof. intros a. apply coord_eqb_eq. reflexivity. Qed.

Lemma coord_eqb_neq : forall a b, coord_eqb a b = false <-> a <> b.
Proof.
  intros a b. split.
  - intros H E. apply coord_eqb_eq in E. congruence.
  - intros H. destruct (coord_eqb a b) eqn:E; [|reflexivity].
    apply coord_eqb_eq in E. contradiction.
Qed.

Lemma index_of_some : forall c l i,
  index_of c l = Some i -> i < length l /\ nth_error l i = Some c.
Proof.
  intros c l. induction l as [|x l IH]; intros i H.
  - discriminate H.
  - cbn [index_of] in H. destruct (coord_eqb c x) eqn:E.
    + apply coord_eqb_eq in E. subst x. inversion H; subst. cbn [length nth_error]. split; [lia|reflexivity].
    + destruct (index_of c l) as [j|] eqn:Ej; cbn [option_map] in H; [|discriminate H].
      inversion H; subst. destruct (IH j eq_refl) as [Hlt Hnth].
      cbn [length nth_error]. split; [lia|exact Hnth].
Qed.

Lemma index_of_in : forall c l, In c l -> exists i, index_of c l = Some i.
Proof.
  intros c l. induction l as [|x l IH]; intros Hin.
  - destruct Hin.
  - cbn [index_of]. destruct (coord_eqb c x) eqn:E.
    + exists 0. reflexivity.
    + destruct Hin as [->|Hin].
      * rewrite coord_eqb_refl in E. discriminate E.
      * destruct (IH Hin) as [j Hj]. rewrite Hj. exists (S j). reflexivity.
Qed.

(** every member has a global id, it is in range, and the id designates the member *)
Lemma index_of_spec_gen : forall l c, In c l ->
  exists i, index_of c l = Some i /\ i < length l /\ nth_error l i = Some c.
Proof.
  intros l c Hin. destruct (index_of_in c l Hin) as [i Hi].
  exists i. split; [exact Hi|]. apply index_of_some. exact Hi.
Qed.

(** global ids are injective (for any list, no [NoDup] needed: the id designates the member) *)
Theorem index_of_inj : forall l c c' i,
  index_of c l = Some i -> index_of c' l = Some i -> c = c'.
Proof.
  intros l c c' i H1 H2.
  apply index_of_some in H1. apply index_of_some in H2.
  destruct H1 as [_ H1]. destruct H2 as [_ H2]. congruence.
Qed.

(** with [NoDup], the id is the unique position of the member: ids and positions are in bijection *)
Lemma index_of_nth_error : forall l i c, NoDup l -> nth_error l i = Some c -> index_of c l = Some i.
Proof.
  intros l. induction l as [|x l IH]; intros i c Hnd Hn.
  - destruct i; discriminate Hn.
  - inversion Hnd as [|? ? Hnotin Hnd']; subst. destruct i as [|i]; cbn [nth_error] in Hn.
    + inversion Hn; subst. cbn [index_of]. rewrite coord_eqb_refl. reflexivity.
    + cbn [index_of]. destruct (coord_eqb c x) eqn:E.
      * apply coord_eqb_eq in E. subst x. exfalso. apply Hnotin. eapply nth_error_In. exact Hn.
      * rewrite (IH i c Hnd' Hn). reflexivity.
Qed.

(* ------------------------------------------------------------------------- *)
(** * S1: placement *)

Lemma limited_fill_length : forall cores n, length (limited_fill n cores) = length cores.
Proof.
  induction cores as [|c cs IH]; intros n.
  - reflexivity.
  - cbn [limited_fill length]. rewrite IH. reflexivity.
Qed.

Lemma per_host_length : forall r cores, length (per_host r cores) = length cores.
Proof.
  intros r cores. destruct r as [|n| |]; unfold per_host.
  - reflexivity.
  - apply limited_fill_length.
  - apply map_length.
  - destruct cores as [|c cs]; [reflexivity|]. cbn [length]. rewrite map_length. reflexivity.
Qed.

Theorem placement_unlimited : forall cores h,
  nth h (per_host RUnlimited cores) 0 = nth h cores 0.
Proof. reflexivity. Qed.

Lemma limited_fill_nth : forall cores n h,
  nth h (limited_fill n cores) 0 = Nat.min (nth h cores 0) (n - fold_left Nat.add (firstn h cores) 0).
Proof.
  induction cores as [|c cs IH]; intros n h.
  - cbn [limited_fill]. destruct h; reflexivity.
  - cbn [limited_fill]. destruct h as [|h].
    + cbn [nth firstn fold_left]. lia.
    + cbn [nth firstn]. rewrite IH, fold_add_cons. lia.
Qed.

Theorem placement_limited : forall n cores h, h < length cores ->
  nth h (per_host (RLimited n) cores) 0
  = Nat.min (nth h cores 0) (n - fold_left Nat.add (firstn h cores) 0).
Proof. intros n cores h _. unfold per_host. apply limited_fill_nth. Qed.

Theorem placement_limited_total : forall n cores,
  fold_left Nat.add (per_host (RLimited n) cores) 0 = Nat.min n (fold_left Nat.add cores 0).
Proof.
  intros n cores. unfold per_host. revert n.
  induction cores as [|c cs IH]; intros n.
  - cbn [limited_fill fold_left]. lia.
  - cbn [limited_fill]. rewrite !fold_add_cons, IH. lia.
Qed.

Theorem placement_host : forall cores h, h < length cores ->
  nth h (per_host RHost cores) 0 = 1.
Proof.
  intros cores. unfold per_host. induction cores as [|c cs IH]; intros h Hh.
  - cbn [length] in Hh. lia.
  - cbn [map]. destruct h as [|h]; [reflexivity|]. cbn [nth]. apply IH. cbn [length] in Hh. lia.
Qed.

Theorem placement_one : forall cores h, cores <> [] ->
  nth h (per_host ROne cores) 0 = if Nat.eqb h 0 then 1 else 0.
Proof.
  intros cores h Hne. unfold per_host. destruct cores as [|c cs]; [contradiction|].
  destruct h as [|h]; [reflexivity|]. cbn [nth Nat.eqb]. clear.
  revert h. induction cs as [|x cs IH]; intros h.
  - destruct h; reflexivity.
  - cbn [map]. destruct h as [|h]; [reflexivity|]. cbn [nth]. apply IH.
Qed.

(** ** link to [block_replicas] *)

(** replicas of a block over an explicit (host, count) list *)
Definition hr (b : nat) (l : list (nat * nat)) : list coord :=
  concat (map (fun '(h, n) => host_replicas b h n) l).

Lemma block_replicas_remote : forall cores b r,
  block_replicas (Remote cores) b r = hr b (combine (seq 0 (length cores)) (per_host r cores)).
Proof. reflexivity. Qed.

Theorem block_replicas_local : forall p b r,
  block_replicas (Local p) b r
  = host_replicas b 0 (match r with RUnlimited => p | RLimited q => Nat.min p q | RHost | ROne => 1 end).
Proof. reflexivity. Qed.

Lemma hr_cons : forall b h n l, hr b ((h, n) :: l) = host_replicas b h n ++ hr b l.
Proof. reflexivity. Qed.

Lemma in_host_replicas : forall b h n c,
  In c (host_replicas b h n) <-> c_block c = b /\ c_host c = h /\ c_replica c < n.
Proof.
  intros b h n c. unfold host_replicas. rewrite in_map_iff. split.
  - intros [r [<- Hr]]. apply in_seq in Hr. cbn [c_block c_host c_replica]. repeat split; lia.
  - intros [Hb [Hh Hr]]. exists (c_replica c). split.
    + destruct c as [cb ch cr]. cbn [c_block c_host c_replica] in *. subst. reflexivity.
    + apply in_seq. lia.
Qed.

Lemma host_replicas_nodup : forall b h n, NoDup (host_replicas b h n).
Proof.
  intros b h n. unfold host_replicas. apply FinFun.Injective_map_NoDup.
  - intros x y H. inversion H. reflexivity.
  - apply seq_NoDup.
Qed.

Lemma in_hr : forall b l c,
  In c (hr b l) <-> c_block c = b /\ exists n, In (c_host c, n) l /\ c_replica c < n.
Proof.
  intros b l c. induction l as [|[h n] l IH].
  - cbn. split; [intros []|intros [_ [n [[] _]]]].
  - rewrite hr_cons, in_app_iff, IH, in_host_replicas. split.
    + intros [[Hb [Hh Hr]]|[Hb [m [Hin Hr]]]].
      * split; [exact Hb|]. exists n. split; [left; congruence|exact Hr].
      * split; [exact Hb|]. exists m. split; [right; exact Hin|exact Hr].
    + intros [Hb [m [[Heq|Hin] Hr]]].
      * inversion Heq; subst. left. auto.
      * right. split; [exact Hb|]. exists m. auto.
Qed.

Lemma hr_nodup : forall b l, NoDup (map fst l) -> NoDup (hr b l).
Proof.
  intros b l. induction l as [|[h n] l IH]; intros Hnd.
  - constructor.
  - cbn [map fst] in Hnd. inversion Hnd as [|? ? Hnotin Hnd']; subst.
    rewrite hr_cons. apply NoDup_app_intro.
    + apply host_replicas_nodup.
    + apply IH. exact Hnd'.
    + intros c H1 H2. apply in_host_replicas in H1. apply in_hr in H2.
      destruct H1 as [_ [Hh _]]. destruct H2 as [_ [m [Hin _]]].
      apply Hnotin. rewrite <- Hh. apply (in_map fst) in Hin. exact Hin.
Qed.

Lemma combine_fst_nodup {A B} : forall (l : list A) (l' : list B),
  NoDup l -> NoDup (map fst (combine l l')).
Proof.
  induction l as [|a l IH]; intros l' Hnd.
  - constructor.
  - destruct l' as [|b l']; [constructor|].
    inversion Hnd as [|? ? Hnotin Hnd']; subst. cbn [combine map fst]. constructor.
    + intros Hin. apply Hnotin. apply in_map_iff in Hin. destruct Hin as [[x y] [Hx Hin]].
      cbn [fst] in Hx. subst x. eapply in_combine_l. exact Hin.
    + apply IH. exact Hnd'.
Qed.

Theorem replicas_block : forall d b r c, In c (block_replicas d b r) -> c_block c = b.
Proof.
  intros [p|cores] b r c Hin.
  - rewrite block_replicas_local in Hin. apply in_host_replicas in Hin. tauto.
  - rewrite block_replicas_remote in Hin. apply in_hr in Hin. tauto.
Qed.

Lemma filter_host_replicas : forall b s n h,
  filter (fun c => Nat.eqb (c_host c) h) (host_replicas b s n)
  = if Nat.eqb s h then host_replicas b s n else [].
Proof.
  intros b s n h. unfold host_replicas. generalize (seq 0 n) as l.
  induction l as [|x l IH].
  - destruct (Nat.eqb s h); reflexivity.
  - cbn [map filter c_host]. rewrite IH. destruct (Nat.eqb s h); reflexivity.
Qed.

Lemma map_replica_host_replicas : forall b s n, map c_replica (host_replicas b s n) = seq 0 n.
Proof.
  intros b s n. unfold host_replicas. rewrite map_map. cbn [c_replica]. apply map_id.
Qed.

Lemma hr_on_host : forall b ns s h,
  map c_replica (filter (fun c => Nat.eqb (c_host c) h) (hr b (combine (seq s (length ns)) ns)))
  = if Nat.leb s h then seq 0 (nth (h - s) ns 0) else [].
Proof.
  intros b ns. induction ns as [|n ns IH]; intros s h.
  - cbn [length seq combine]. unfold hr. cbn [map concat filter].
    destruct (Nat.leb s h); [|reflexivity]. destruct (h - s); reflexivity.
  - cbn [length seq combine]. rewrite hr_cons, filter_app, map_app, IH, filter_host_replicas.
    destruct (Nat.eqb_spec s h) as [->|Hne].
    + rewrite map_replica_host_replicas.
      replace (Nat.leb (S h) h) with false by (symmetry; apply Nat.leb_gt; lia).
      rewrite Nat.leb_refl, Nat.sub_diag, app_nil_r. reflexivity.
    + cbn [map app]. destruct (Nat.leb_spec (S s) h) as [Hle|Hgt].
      * replace (Nat.leb s h) with true by (symmetry; apply Nat.leb_le; lia).
        replace (h - s) with (S (h - S s)) by lia. reflexivity.
      * replace (Nat.leb s h) with false by (symmetry; apply Nat.leb_gt; lia). reflexivity.
Qed.

(** the replica ids of a block on host [h] are [0 .. k-1], [k] the per-host count.
    (No [h < length cores] needed: beyond the host list both sides are empty.) *)
Theorem replicas_on_host : forall cores b r h,
  map c_replica (filter (fun c => Nat.eqb (c_host c) h) (block_replicas (Remote cores) b r))
  = seq 0 (nth h (per_host r cores) 0).
Proof.
  intros cores b r h. rewrite block_replicas_remote, <- (per_host_length r cores), hr_on_host.
  cbn [Nat.leb]. rewrite Nat.sub_0_r. reflexivity.
Qed.

(** hosts of the replicas are real hosts *)
Theorem replicas_host_in_range : forall cores b r c,
  In c (block_replicas (Remote cores) b r) -> c_host c < length cores.
Proof.
  intros cores b r c Hin. rewrite block_replicas_remote in Hin. apply in_hr in Hin.
  destruct Hin as [_ [n [Hin _]]]. apply in_combine_l in Hin. apply in_seq in Hin. lia.
Qed.

(* ------------------------------------------------------------------------- *)
(** * S2 (part 2): global ids of [block_replicas] are a bijection *)

Theorem replicas_nodup : forall d b r, NoDup (block_replicas d b r).
Proof.
  intros [p|cores] b r.
  - rewrite block_replicas_local. apply host_replicas_nodup.
  - rewrite block_replicas_remote. apply hr_nodup. apply combine_fst_nodup. apply seq_NoDup.
Qed.

Theorem index_of_spec : forall d b r c, In c (block_replicas d b r) ->
  exists i, index_of c (block_replicas d b r) = Some i /\
            i < length (block_replicas d b r) /\
            nth_error (block_replicas d b r) i = Some c.
Proof. intros d b r c. apply index_of_spec_gen. Qed.

(** every position is the id of exactly the replica at that position *)
Theorem index_of_surj : forall d b r i, i < length (block_replicas d b r) ->
  exists c, nth_error (block_replicas d b r) i = Some c /\ index_of c (block_replicas d b r) = Some i.
Proof.
  intros d b r i Hi. destruct (nth_error (block_replicas d b r) i) as [c|] eqn:E.
  - exists c. split; [reflexivity|]. apply index_of_nth_error; [apply replicas_nodup|exact E].
  - apply nth_error_None in E. lia.
Qed.

(* ------------------------------------------------------------------------- *)
(** * S3: wiring of one edge *)

Lemma cinsert_perm : forall x l, Permutation (cinsert x l) (x :: l).
Proof.
  intros x l. induction l as [|y l IH].
  - apply Permutation_refl.
  - cbn [cinsert]. destruct (coord_ltb x y).
    + apply Permutation_refl.
    + eapply perm_trans; [apply perm_skip; exact IH|apply perm_swap].
Qed.

Theorem csort_perm : forall l, Permutation (csort l) l.
Proof.
  induction l as [|x l IH].
  - apply perm_nil.
  - unfold csort. cbn [fold_right]. fold (csort l).
    eapply perm_trans; [apply cinsert_perm|apply perm_skip; exact IH].
Qed.

Lemma csort_nodup : forall l, NoDup l -> NoDup (csort l).
Proof. intros l H. eapply Permutation_NoDup; [apply Permutation_sym, csort_perm|exact H]. Qed.

Lemma csort_length : forall l, length (csort l) = length l.
Proof. intros l. apply Permutation_length, csort_perm. Qed.

Lemma csort_in : forall l x, In x (csort l) <-> In x l.
Proof.
  intros l x. split; apply Permutation_in; [apply csort_perm|apply Permutation_sym, csort_perm].
Qed.

Lemma same_index_trans_l : forall f a b,
  same_index f a = true -> same_index f b = true -> same_index a b = true.
Proof.
  intros f a b. unfold same_index. rewrite !andb_true_iff, !Nat.eqb_eq. intros [-> ->] [-> ->]. auto.
Qed.

(** within the replicas of one block, (host, replica) identifies the replica *)
Lemma replicas_same_index_unique : forall d b r a c,
  In a (block_replicas d b r) -> In c (block_replicas d b r) -> same_index a c = true -> a = c.
Proof.
  intros d b r a c Ha Hc Hs. apply replicas_block in Ha. apply replicas_block in Hc.
  unfold same_index in Hs. rewrite andb_true_iff, !Nat.eqb_eq in Hs. destruct Hs as [Hh Hr].
  destruct a as [ab ah ar], c as [cb ch cr]. cbn [c_block c_host c_replica] in *. subst. reflexivity.
Qed.

(** the hypothesis [same_index]-uniqueness is necessary: with consumers from two blocks the
    same-index filter keeps both *)
Example forward_needs_unique :
  consumers true false {| c_block := 0; c_host := 0; c_replica := 0 |} 0
    [ {| c_block := 1; c_host := 0; c_replica := 0 |}; {| c_block := 2; c_host := 0; c_replica := 0 |} ]
  = [ {| c_block := 1; c_host := 0; c_replica := 0 |}; {| c_block := 2; c_host := 0; c_replica := 0 |} ].
Proof. vm_compute. reflexivity. Qed.

Theorem forward_exactly_one : forall f gid to,
  to <> [] -> NoDup to ->
  (forall a b, In a to -> In b to -> same_index a b = true -> a = b) ->
  exists t, consumers true false f gid to = [t] /\ In t to /\
            ((exists t', In t' to /\ same_index f t' = true) -> same_index f t = true).
Proof.
  intros f gid to Hne Hnd Huniq. unfold consumers. cbn [orb negb].
  pose proof (csort_nodup to Hnd) as Hnds.
  pose proof (csort_length to) as Hlen.
  assert (Huniqs : forall a b, In a (csort to) -> In b (csort to) -> same_index a b = true -> a = b).
  { intros a b Ha Hb. apply Huniq; apply csort_in; assumption. }
  assert (Hpos : 0 < length (csort to)).
  { rewrite Hlen. destruct to; [contradiction|cbn [length]; lia]. }
  remember (csort to) as st eqn:Est.
  assert (Hin : forall x, In x st <-> In x to) by (intros x; subst st; apply csort_in).
  clear Est Hlen.
  destruct (Nat.eqb_spec (length st) 1) as [H1|H1].
  - (* the only consumer *)
    destruct st as [|t [|t2 st]]; cbn [length] in H1; try lia.
    exists t. split; [reflexivity|]. split; [apply Hin; left; reflexivity|].
    intros [t' [Ht' Hs]]. apply Hin in Ht'. destruct Ht' as [<-|[]]. exact Hs.
  - destruct (existsb (same_index f) st) eqn:Hex.
    + (* a same-index consumer exists: exactly it *)
      apply existsb_exists in Hex. destruct Hex as [t [Ht Hs]].
      exists t. split; [|split; [apply Hin; exact Ht|intros _; exact Hs]].
      apply filter_unique; [exact Hnds|exact Ht| |].
      * rewrite Hs. reflexivity.
      * intros y Hy Hp. cbn [negb andb] in Hp. rewrite orb_false_r in Hp.
        symmetry. apply Huniqs; [exact Ht|exact Hy|]. eapply same_index_trans_l; eassumption.
    + (* none: the fallback [gid mod |to|] of the sorted list *)
      assert (Hnone : forall x, In x st -> same_index f x = false).
      { intros x Hx. destruct (same_index f x) eqn:E; [|reflexivity].
        assert (existsb (same_index f) st = true) by (apply existsb_exists; exists x; auto).
        congruence. }
      assert (Hk : gid mod length st < length st) by (apply Nat.mod_upper_bound; lia).
      set (k := gid mod length st) in *.
      set (t := nth k st f).
      assert (Ht : In t st) by (apply nth_In; exact Hk).
      exists t. split; [|split; [apply Hin; exact Ht|]].
      * assert (Hlt : Nat.ltb 1 (length st) = true) by (apply Nat.ltb_lt; lia).
        rewrite Hlt. cbn [negb andb].
        rewrite (filter_ext_in _ (fun x => coord_eqb x t)).
        -- apply filter_unique; [exact Hnds|exact Ht|apply coord_eqb_refl|].
           intros y _ Hy. apply coord_eqb_eq. exact Hy.
        -- intros x Hx. rewrite (Hnone x Hx). cbn [orb].
           unfold t. rewrite (nth_indep st x f Hk). reflexivity.
      * intros [t' [Ht' Hs]]. apply Hin in Ht'. rewrite (Hnone t' Ht') in Hs. discriminate Hs.
Qed.

(** instance for the replicas of a consumer block *)
Corollary forward_exactly_one_replicas : forall f gid d b r,
  block_replicas d b r <> [] ->
  exists t, consumers true false f gid (block_replicas d b r) = [t] /\ In t (block_replicas d b r) /\
            ((exists t', In t' (block_replicas d b r) /\ same_index f t' = true) -> same_index f t = true).
Proof.
  intros f gid d b r Hne. apply forward_exactly_one.
  - exact Hne.
  - apply replicas_nodup.
  - apply replicas_same_index_unique.
Qed.

Theorem fragile_same_index_only : forall fw f gid to t,
  In t (consumers fw true f gid to) -> length to = 1 \/ same_index f t = true.
Proof.
  intros fw f gid to t. unfold consumers. rewrite orb_true_r.
  destruct (Nat.eqb_spec (length (csort to)) 1) as [H1|H1].
  - intros _. left. rewrite <- csort_length. exact H1.
  - intros Hin. right. apply filter_In in Hin. destruct Hin as [_ Hp].
    cbn [negb] in Hp. rewrite andb_false_r in Hp. cbn [andb] in Hp. rewrite orb_false_r in Hp. exact Hp.
Qed.

(** fragile consumers are consumers *)
Theorem consumers_subset : forall fw fr f gid to t, In t (consumers fw fr f gid to) -> In t to.
Proof.
  intros fw fr f gid to t. unfold consumers.
  destruct (fw || fr); [destruct (Nat.eqb (length (csort to)) 1)|].
  - apply csort_in.
  - intros H. apply filter_In in H. apply csort_in. tauto.
  - apply csort_in.
Qed.

Theorem all_to_all : forall f gid to, Permutation (consumers false false f gid to) to.
Proof. intros f gid to. unfold consumers. cbn [orb]. apply csort_perm. Qed.

(* ------------------------------------------------------------------------- *)
(** * S4: socket ports *)

Lemma demux_eqb_eq : forall a b, demux_eqb a b = true <-> a = b.
Proof.
  intros [ab ah ap] [bb bh bp]. unfold demux_eqb. cbn [d_block d_host d_prev].
  rewrite !andb_true_iff, !Nat.eqb_eq. split.
  - intros [[-> ->] ->]. reflexivity.
  - intros H. inversion H. auto.
Qed.

Definition dlt (a b : demux) : Prop := demux_ltb a b = true.

Lemma demux_ltb_lex : forall a b,
  dlt a b <->
  (d_block a < d_block b \/
   (d_block a = d_block b /\ (d_host a < d_host b \/ (d_host a = d_host b /\ d_prev a < d_prev b)))).
Proof.
  intros a b. unfold dlt, demux_ltb.
  destruct (Nat.ltb_spec (d_block a) (d_block b)); [split; [lia|reflexivity]|].
  destruct (Nat.ltb_spec (d_block b) (d_block a)); [split; [discriminate|lia]|].
  destruct (Nat.ltb_spec (d_host a) (d_host b)); [split; [lia|reflexivity]|].
  destruct (Nat.ltb_spec (d_host b) (d_host a)); [split; [discriminate|lia]|].
  rewrite Nat.ltb_lt. lia.
Qed.

Lemma dlt_irrefl : forall a, ~ dlt a a.
Proof. intros a H. apply demux_ltb_lex in H. lia. Qed.

Lemma dlt_trans : forall a b c, dlt a b -> dlt b c -> dlt a c.
Proof. intros a b c H1 H2. apply demux_ltb_lex in H1, H2. apply demux_ltb_lex. lia. Qed.

Lemma dlt_total : forall a b, dlt a b \/ a = b \/ dlt b a.
Proof.
  intros a b.
  destruct (lt_eq_lt_dec (d_block a) (d_block b)) as [[H|H]|H];
    [left; apply demux_ltb_lex; lia| |right; right; apply demux_ltb_lex; lia].
  destruct (lt_eq_lt_dec (d_host a) (d_host b)) as [[H'|H']|H'];
    [left; apply demux_ltb_lex; lia| |right; right; apply demux_ltb_lex; lia].
  destruct (lt_eq_lt_dec (d_prev a) (d_prev b)) as [[H''|H'']|H''];
    [left; apply demux_ltb_lex; lia| |right; right; apply demux_ltb_lex; lia].
  right; left. destruct a as [ab ah ap], b as [bb bh bp]. cbn [d_block d_host d_prev] in *. subst. reflexivity.
Qed.

Lemma dinsert_in : forall x l d, In d (dinsert x l) <-> d = x \/ In d l.
Proof.
  intros x l d. induction l as [|y l IH].
  - cbn. intuition.
  - cbn [dinsert]. destruct (demux_eqb x y) eqn:E.
    + apply demux_eqb_eq in E. subst y. cbn [In]. intuition.
    + destruct (demux_ltb x y).
      * cbn [In]. intuition.
      * cbn [In]. rewrite IH. intuition.
Qed.

Lemma dinsert_sorted : forall x l, StronglySorted dlt l -> StronglySorted dlt (dinsert x l).
Proof.
  intros x l. induction l as [|y l IH]; intros Hs.
  - cbn [dinsert]. constructor; constructor.
  - cbn [dinsert]. inversion Hs as [|? ? Hs' Hall]; subst.
    destruct (demux_eqb x y) eqn:E; [exact Hs|].
    destruct (demux_ltb x y) eqn:L.
    + constructor; [exact Hs|]. constructor; [exact L|].
      rewrite Forall_forall in *. intros z Hz. eapply dlt_trans; [exact L|apply Hall; exact Hz].
    + constructor; [apply IH; exact Hs'|].
      rewrite Forall_forall in *. intros z Hz. apply dinsert_in in Hz. destruct Hz as [->|Hz].
      * destruct (dlt_total x y) as [H|[H|H]].
        -- unfold dlt in H. congruence.
        -- subst y. assert (demux_eqb x x = true) by (apply demux_eqb_eq; reflexivity). congruence.
        -- exact H.
      * apply Hall. exact Hz.
Qed.

Lemma dsort_dedup_in : forall l d, In d (dsort_dedup l) <-> In d l.
Proof.
  intros l d. induction l as [|x l IH].
  - reflexivity.
  - unfold dsort_dedup. cbn [fold_right]. fold (dsort_dedup l).
    rewrite dinsert_in, IH. cbn [In]. intuition.
Qed.

Lemma dsort_dedup_sorted : forall l, StronglySorted dlt (dsort_dedup l).
Proof.
  induction l as [|x l IH].
  - constructor.
  - unfold dsort_dedup. cbn [fold_right]. fold (dsort_dedup l). apply dinsert_sorted. exact IH.
Qed.

Lemma sorted_nodup : forall l, StronglySorted dlt l -> NoDup l.
Proof.
  induction l as [|x l IH]; intros Hs.
  - constructor.
  - inversion Hs as [|? ? Hs' Hall]; subst. constructor; [|apply IH; exact Hs'].
    intros Hin. rewrite Forall_forall in Hall. exact (dlt_irrefl x (Hall x Hin)).
Qed.

(** a strictly sorted list is determined by its set of elements *)
Lemma sorted_unique : forall l1 l2,
  StronglySorted dlt l1 -> StronglySorted dlt l2 -> (forall d, In d l1 <-> In d l2) -> l1 = l2.
Proof.
  induction l1 as [|a l1 IH]; intros l2 H1 H2 Heq.
  - destruct l2 as [|b l2]; [reflexivity|]. exfalso. apply (Heq b). left. reflexivity.
  - destruct l2 as [|b l2]; [exfalso; apply (Heq a); left; reflexivity|].
    inversion H1 as [|? ? H1' Ha]; subst. inversion H2 as [|? ? H2' Hb]; subst.
    rewrite Forall_forall in Ha, Hb.
    assert (Hab : a = b).
    { destruct (proj1 (Heq a) (or_introl eq_refl)) as [E|Hin]; [congruence|].
      destruct (proj2 (Heq b) (or_introl eq_refl)) as [E|Hin']; [congruence|].
      exfalso. apply (dlt_irrefl a). eapply dlt_trans; [apply Ha; exact Hin'|apply Hb; exact Hin]. }
    subst b. f_equal. apply IH; [exact H1'|exact H2'|].
    intros d. split; intros Hd.
    + destruct (proj1 (Heq d) (or_intror Hd)) as [E|Hin]; [|exact Hin].
      subst d. exfalso. exact (dlt_irrefl a (Ha a Hd)).
    + destruct (proj2 (Heq d) (or_intror Hd)) as [E|Hin]; [|exact Hin].
      subst d. exfalso. exact (dlt_irrefl a (Hb a Hd)).
Qed.

Lemma dsort_dedup_set : forall l l', (forall d, In d l <-> In d l') -> dsort_dedup l = dsort_dedup l'.
Proof.
  intros l l' H. apply sorted_unique; try apply dsort_dedup_sorted.
  intros d. rewrite !dsort_dedup_in. apply H.
Qed.

(** the port assignment depends only on the SET of demultiplexers *)
Theorem ports_set_deterministic : forall ls ls',
  (forall d, In d (map demux_of ls) <-> In d (map demux_of ls')) -> port_offsets ls = port_offsets ls'.
Proof. intros ls ls' H. unfold port_offsets. rewrite (dsort_dedup_set _ _ H). reflexivity. Qed.

Theorem ports_deterministic : forall ls ls', Permutation ls ls' -> port_offsets ls = port_offsets ls'.
Proof.
  intros ls ls' HP. apply ports_set_deterministic. intros d.
  split; apply Permutation_in; [|apply Permutation_sym]; apply Permutation_map; exact HP.
Qed.

Lemma assign_ports_fst : forall l used, map fst (assign_ports used l) = l.
Proof.
  induction l as [|x l IH]; intros used.
  - reflexivity.
  - cbn [assign_ports map fst]. rewrite IH. reflexivity.
Qed.

Theorem ports_cover : forall ls l, In l ls -> exists off, In (demux_of l, off) (port_offsets ls).
Proof.
  intros ls l Hin. unfold port_offsets.
  assert (H : In (demux_of l) (map fst (assign_ports [] (dsort_dedup (map demux_of ls))))).
  { rewrite assign_ports_fst. apply dsort_dedup_in. apply in_map. exact Hin. }
  apply in_map_iff in H. destruct H as [[d off] [Hd H]]. cbn [fst] in Hd. subst d.
  exists off. exact H.
Qed.

(** every demultiplexer with a port is the demultiplexer of some link, and has exactly one port *)
Theorem ports_sound : forall ls d off, In (d, off) (port_offsets ls) -> In d (map demux_of ls).
Proof.
  intros ls d off H. unfold port_offsets in H. apply (in_map fst) in H.
  rewrite assign_ports_fst in H. cbn [fst] in H. apply (proj1 (dsort_dedup_in _ _)) in H. exact H.
Qed.

Theorem ports_functional : forall ls, NoDup (map fst (port_offsets ls)).
Proof.
  intros ls. unfold port_offsets. rewrite assign_ports_fst.
  apply sorted_nodup, dsort_dedup_sorted.
Qed.

(** [used] as a function: ports already handed out on host [h] *)
Definition lookup (used : list (nat * nat)) (h : nat) : nat :=
  match find (fun p => Nat.eqb (fst p) h) used with Some p => snd p | None => 0 end.

Lemma find_filter_other : forall (used : list (nat * nat)) h h', h' <> h ->
  find (fun p => Nat.eqb (fst p) h') (filter (fun p => negb (Nat.eqb (fst p) h)) used)
  = find (fun p => Nat.eqb (fst p) h') used.
Proof.
  intros used h h' Hne. induction used as [|[a n] used IH].
  - reflexivity.
  - cbn [filter find fst]. destruct (Nat.eqb_spec a h) as [->|Ha]; cbn [negb].
    + destruct (Nat.eqb_spec h h') as [E|_]; [congruence|]. exact IH.
    + cbn [find fst]. destruct (Nat.eqb a h'); [reflexivity|exact IH].
Qed.

Lemma lookup_update : forall used h h',
  lookup ((h, S (lookup used h)) :: filter (fun p => negb (Nat.eqb (fst p) h)) used) h'
  = if Nat.eqb h h' then S (lookup used h) else lookup used h'.
Proof.
  intros used h h'. unfold lookup at 1. cbn [find fst].
  destruct (Nat.eqb_spec h h') as [->|Hne]; [reflexivity|].
  rewrite find_filter_other by congruence. reflexivity.
Qed.

Lemma assign_ports_cons : forall used x l,
  assign_ports used (x :: l)
  = (x, lookup used (d_host x))
    :: assign_ports ((d_host x, S (lookup used (d_host x)))
                     :: filter (fun p => negb (Nat.eqb (fst p) (d_host x))) used) l.
Proof. reflexivity. Qed.

(** offsets handed out later on a host are at least the number already used there *)
Lemma assign_ports_lower : forall l used d off,
  In (d, off) (assign_ports used l) -> lookup used (d_host d) <= off.
Proof.
  induction l as [|x l IH]; intros used d off Hin.
  - destruct Hin.
  - rewrite assign_ports_cons in Hin. destruct Hin as [E|Hin].
    + inversion E; subst. lia.
    + apply IH in Hin. rewrite lookup_update in Hin.
      destruct (Nat.eqb_spec (d_host x) (d_host d)) as [E|_]; [rewrite <- E; lia|exact Hin].
Qed.

Lemma assign_ports_injective : forall l used d1 d2 off,
  In (d1, off) (assign_ports used l) -> In (d2, off) (assign_ports used l) ->
  d_host d1 = d_host d2 -> d1 = d2.
Proof.
  induction l as [|x l IH]; intros used d1 d2 off H1 H2 Hh.
  - destruct H1.
  - rewrite assign_ports_cons in H1, H2. destruct H1 as [E1|H1], H2 as [E2|H2].
    + congruence.
    + exfalso. inversion E1; subst. apply assign_ports_lower in H2.
      rewrite lookup_update, <- Hh, Nat.eqb_refl in H2. lia.
    + exfalso. inversion E2; subst. apply assign_ports_lower in H1.
      rewrite lookup_update, Hh, Nat.eqb_refl in H1. lia.
    + eapply IH; eassumption.
Qed.

(** no two demultiplexers of one host share a port *)
Theorem ports_injective : forall ls d1 d2 off,
  In (d1, off) (port_offsets ls) -> In (d2, off) (port_offsets ls) ->
  d_host d1 = d_host d2 -> d1 = d2.
Proof. intros ls d1 d2 off. unfold port_offsets. apply assign_ports_injective. Qed.

(** the ports of a host are dense: [0 .. k-1] *)
Lemma assign_ports_dense : forall l used d off k,
  In (d, off) (assign_ports used l) -> lookup used (d_host d) <= k -> k < off ->
  exists d', d_host d' = d_host d /\ In (d', k) (assign_ports used l).
Proof.
  induction l as [|x l IH]; intros used d off k Hin Hlo Hk.
  - destruct Hin.
  - rewrite assign_ports_cons in *. destruct Hin as [E|Hin].
    + inversion E; subst. lia.
    + destruct (Nat.eqb_spec (d_host x) (d_host d)) as [Eh|Hne].
      * destruct (Nat.eq_dec k (lookup used (d_host x))) as [->|Hk'].
        -- exists x. split; [exact Eh|left; reflexivity].
        -- destruct (IH _ d off k Hin) as [d' [Hd' Hin']].
           ++ rewrite lookup_update. rewrite (proj2 (Nat.eqb_eq _ _) Eh). rewrite Eh in *. lia.
           ++ exact Hk.
           ++ exists d'. split; [exact Hd'|right; exact Hin'].
      * destruct (IH _ d off k Hin) as [d' [Hd' Hin']].
        -- rewrite lookup_update. rewrite (proj2 (Nat.eqb_neq _ _) Hne). exact Hlo.
        -- exact Hk.
        -- exists d'. split; [exact Hd'|right; exact Hin'].
Qed.

Theorem ports_dense : forall ls d off k,
  In (d, off) (port_offsets ls) -> k < off ->
  exists d', d_host d' = d_host d /\ In (d', k) (port_offsets ls).
Proof.
  intros ls d off k Hin Hk. unfold port_offsets in *.
  eapply assign_ports_dense; [exact Hin|cbn; lia|exact Hk].
Qed.

(* ------------------------------------------------------------------------- *)
(** * S5: order independence of the wiring *)

Theorem links_perm_edges : forall d bs es es',
  Permutation es es' -> Permutation (links d bs es) (links d bs es').
Proof. intros d bs es es' HP. unfold links. apply Permutation_flat_map. exact HP. Qed.

Lemma find_all_false {A} (p : A -> bool) (l : list A) :
  (forall x, In x l -> p x = false) -> find p l = None.
Proof.
  induction l as [|a l IH]; intros H.
  - reflexivity.
  - cbn [find]. rewrite (H a (or_introl eq_refl)). apply IH. intros x Hx. apply H. right. exact Hx.
Qed.

Lemma find_block_unique : forall bs b,
  NoDup (map b_id bs) -> In b bs -> find (fun x => Nat.eqb (b_id x) (b_id b)) bs = Some b.
Proof.
  induction bs as [|a bs IH]; intros b Hnd Hin.
  - destruct Hin.
  - cbn [map] in Hnd. inversion Hnd as [|? ? Hnotin Hnd']; subst. cbn [find].
    destruct Hin as [->|Hin].
    + rewrite Nat.eqb_refl. reflexivity.
    + destruct (Nat.eqb_spec (b_id a) (b_id b)) as [E|_].
      * exfalso. apply Hnotin. rewrite E. apply in_map. exact Hin.
      * apply IH; assumption.
Qed.

Theorem repl_of_perm : forall bs bs' id,
  NoDup (map b_id bs) -> Permutation bs bs' -> repl_of bs id = repl_of bs' id.
Proof.
  intros bs bs' id Hnd HP. unfold repl_of.
  assert (Hnd' : NoDup (map b_id bs')).
  { eapply Permutation_NoDup; [apply Permutation_map; exact HP|exact Hnd]. }
  destruct (find (fun b => Nat.eqb (b_id b) id) bs) as [b|] eqn:E.
  - apply find_some in E. destruct E as [Hin Hid]. apply Nat.eqb_eq in Hid. subst id.
    rewrite (find_block_unique bs' b Hnd' (Permutation_in _ HP Hin)). reflexivity.
  - rewrite find_all_false; [reflexivity|].
    intros x Hx. apply (find_none _ _ E). eapply Permutation_in; [apply Permutation_sym; exact HP|exact Hx].
Qed.

Theorem links_perm_blocks : forall d bs bs' es,
  NoDup (map b_id bs) -> Permutation bs bs' -> links d bs es = links d bs' es.
Proof.
  intros d bs bs' es Hnd HP. unfold links. apply flat_map_ext. intros e.
  rewrite !(repl_of_perm bs bs' _ Hnd HP). reflexivity.
Qed.

(** the port assignment does not depend on the enumeration order of blocks, edges or links *)
Theorem ports_order_independent : forall d bs bs' es es' ls',
  NoDup (map b_id bs) -> Permutation bs bs' -> Permutation es es' ->
  Permutation (links d bs' es') ls' ->
  port_offsets (links d bs es) = port_offsets ls'.
Proof.
  intros d bs bs' es es' ls' Hnd HPb HPe HPl. apply ports_deterministic.
  rewrite (links_perm_blocks d bs bs' es Hnd HPb).
  eapply perm_trans; [apply links_perm_edges; exact HPe|exact HPl].
Qed.

(** * Intersection of replication requirements *)
Lemma intersect_comm : forall a b, intersect a b = intersect b a.
Proof. intros [| n | |] [| m | |]; cbn; try reflexivity. now rewrite Nat.min_comm. Qed.
Lemma intersect_assoc : forall a b c, intersect a (intersect b c) = intersect (intersect a b) c.
Proof. intros [| n | |] [| m | |] [| k | |]; cbn; try reflexivity. now rewrite Nat.min_assoc. Qed.
Lemma intersect_idem : forall a, intersect a a = a.
Proof. intros [| n | |]; cbn; try reflexivity. now rewrite Nat.min_id. Qed.
Lemma intersect_one : forall a, intersect ROne a = ROne /\ intersect a ROne = ROne.
Proof. intros [| n | |]; cbn; auto. Qed.
Lemma intersect_unlimited : forall a, intersect RUnlimited a = a /\ intersect a RUnlimited = a.
Proof. intros [| n | |]; cbn; auto. Qed.
Lemma intersect_host : forall a, a <> ROne -> intersect RHost a = RHost /\ intersect a RHost = RHost.
Proof. intros [| n | |] H; cbn; auto. contradiction. Qed.

(** Statement-level definitions for the count-window theorems (no proofs here). *)
From Noir Require Export Base.Elem Model.WinCount Model.WindowOp.
Open Scope nat_scope.

Section Defs.
  Context {A B C : Type}.
  Variable (acc0 : B) (proc : B -> A -> B) (out : B -> C).

  (** an arriving data element: payload and optional timestamp *)
  Definition tel : Type := (A * option Z)%type.
  Definition to_elem (x : tel) : elem A :=
    match x with (v, Some t) => Tst v t | (v, None) => Item v end.

  (** data elements of a stream, in order *)
  Fixpoint data_of (l : list (elem A)) : list tel :=
    match l with
    | [] => []
    | Item v :: l' => (v, None) :: data_of l'
    | Tst v t :: l' => (v, Some t) :: data_of l'
    | _ :: l' => data_of l'
    end.

  (** no FlushAndRestart / Terminate inside *)
  Definition no_end (l : list (elem A)) : Prop :=
    forall e, In e l -> e <> FAR /\ e <> Terminate.

  (** the result the accumulator must give for a group: the fold of exactly the group's
      elements in order, stamped with the maximum timestamp *)
  Definition gres (g : list tel) : wres C :=
    (out (fold_left proc (map fst g) acc0), omax_list (map snd g)).
End Defs.

(** * C10 — loops: the leader and the state publication protocol (Model/Loop.v) *)
From Coq Require Import Arith Bool List Lia Permutation.
From Noir Require Import Model.Loop.
Import ListNotations.

(** ** (a) The leader *)
Section LeaderProofs.
  Variables St D : Type.
  Variable global : St -> D -> St.
  Variable cond : St -> bool.
  Variable init : St.
  Variable max : nat.

  (** the deltas may be folded in any order *)
  Hypothesis global_comm : forall s a b, global (global s a) b = global (global s b) a.

  Notation lround := (lround St D global cond init max).
  Notation lrun := (lrun St D global cond init max).
  Notation linit := (linit St init).

  Lemma fold_left_perm : forall l l', Permutation l l' ->
    forall s, fold_left global l s = fold_left global l' s.
  Proof.
    intros l l' Hp. induction Hp; intros s; cbn.
    - reflexivity.
    - apply IHHp.
    - now rewrite global_comm.
    - now rewrite IHHp1.
  Qed.

  (** the leader's behaviour does not depend on the order in which the deltas of a round
      arrive *)
  Theorem leader_order_irrelevant : forall rounds rounds', Forall2 (@Permutation D) rounds rounds' ->
    forall st, lrun st rounds = lrun st rounds'.
  Proof.
    intros rounds rounds' HF. induction HF as [|ds ds' rest rest' Hp _ IH]; intros st; [reflexivity|].
    cbn. unfold Loop.lround. rewrite (fold_left_perm _ _ Hp).
    destruct (cond (fold_left global ds' (l_state St st)) && (S (l_index St st) <? max));
      now rewrite IH.
  Qed.

  (** one round: the new state is the global fold of the round's deltas into the previous
      state; the loop goes on iff the condition holds on the NEW state and the number of
      completed rounds is below the bound; when it stops the result is emitted, the heads
      are told `(Finished, initial state)` and the leader is back in its initial state *)
  Theorem leader_round_spec : forall st ds,
    let s' := fold_left global ds (l_state St st) in
    let k := S (l_index St st) in
    (cond s' = true /\ k < max ->
       lround st ds = ({| l_state := s'; l_index := k |}, (true, s'), None)) /\
    (cond s' = false \/ max <= k ->
       lround st ds = (linit, (false, init), Some s')).
  Proof.
    intros st ds s' k. unfold Loop.lround. fold s'. fold k. split.
    - intros [Hc Hk]. rewrite Hc. apply Nat.ltb_lt in Hk. now rewrite Hk.
    - intros [Hc | Hk]; [now rewrite Hc|].
      apply Nat.ltb_ge in Hk. rewrite Hk. now rewrite andb_false_r.
  Qed.

  (** state after [j] rounds from [s] (deltas folded in the listed order) *)
  Fixpoint state_at (s : St) (rounds : list (list D)) (j : nat) {struct j} : St :=
    match j, rounds with
    | S j', ds :: rest => state_at (fold_left global ds s) rest j'
    | _, _ => s
    end.

  Lemma state_at_perm : forall rounds rounds', Forall2 (@Permutation D) rounds rounds' ->
    forall j s, state_at s rounds j = state_at s rounds' j.
  Proof.
    intros rounds rounds' HF. induction HF as [|ds ds' rest rest' Hp _ IH]; intros j s; [reflexivity|].
    destruct j; [reflexivity|]. cbn. rewrite (fold_left_perm _ _ Hp). apply IH.
  Qed.

  Lemma lrun_stops_at : forall K rounds s i, 1 <= K <= length rounds ->
    (forall j, 1 <= j < K -> cond (state_at s rounds j) = true /\ i + j < max) ->
    (cond (state_at s rounds K) = false \/ max <= i + K) ->
    lrun {| l_state := s; l_index := i |} rounds =
      (map (fun j => (true, state_at s rounds j)) (seq 1 (K - 1)) ++
         (false, init) :: fst (lrun linit (skipn K rounds)),
       state_at s rounds K :: snd (lrun linit (skipn K rounds))).
  Proof.
    induction K as [|K IH]; intros rounds s i HK Hgo Hstop; [lia|].
    destruct rounds as [|ds rest]; [cbn in HK; lia|].
    destruct K as [|K].
    - (* stops in this round *)
      cbn [lrun]. destruct (leader_round_spec {| l_state := s; l_index := i |} ds) as [_ Hs].
      cbn in Hs. rewrite Hs.
      + cbn. destruct (lrun linit rest). reflexivity.
      + cbn in Hstop. destruct Hstop; [now left | right; lia].
    - (* goes on *)
      cbn [lrun]. destruct (leader_round_spec {| l_state := s; l_index := i |} ds) as [Hc _].
      cbn in Hc. rewrite Hc.
      + rewrite (IH rest (fold_left global ds s) (S i)).
        * replace (S (S K) - 1) with (S K) by lia. replace (S K - 1) with K by lia.
          change (skipn (S (S K)) (ds :: rest)) with (skipn (S K) rest).
          change (state_at s (ds :: rest) (S (S K))) with (state_at (fold_left global ds s) rest (S K)).
          change (seq 1 (S K)) with (1 :: seq 2 K).
          rewrite <- (seq_shift K 1), map_cons, map_map. reflexivity.
        * cbn in HK. lia.
        * intros j Hj. specialize (Hgo (S j)). cbn in Hgo. split; [apply Hgo; lia|].
          assert (i + S j < max) by (apply Hgo; lia). lia.
        * cbn in Hstop. destruct Hstop; [now left | right; lia].
      + specialize (Hgo 1). cbn in Hgo. split; [apply Hgo; lia|].
        assert (i + 1 < max) by (apply Hgo; lia). lia.
  Qed.

  (** The leader computes the sequential loop, for ANY arrival order of the deltas:
      with [crounds] the rounds' deltas (in any fixed order) and [rounds] the same in arrival
      order, state_k = fold global state_(k-1) (deltas of round k); the loop stops at the
      first K >= 1 with [cond state_K = false] or [K >= max] (a bound of 0 still runs one
      round); rounds 1..K-1 are answered `(Continue, state_k)`, round K is answered
      `(Finished, initial state)` and state_K is emitted; then the leader starts afresh from
      the initial state on the remaining rounds (nested loops restart cleanly). *)
  Theorem leader_spec : forall K crounds rounds, Forall2 (@Permutation D) crounds rounds ->
    1 <= K <= length crounds ->
    (forall j, 1 <= j < K -> cond (state_at init crounds j) = true /\ j < max) ->
    (cond (state_at init crounds K) = false \/ max <= K) ->
    lrun linit rounds =
      (map (fun j => (true, state_at init crounds j)) (seq 1 (K - 1)) ++
         (false, init) :: fst (lrun linit (skipn K crounds)),
       state_at init crounds K :: snd (lrun linit (skipn K crounds))).
  Proof.
    intros K crounds rounds HF HK Hgo Hstop.
    rewrite <- (leader_order_irrelevant _ _ HF). apply (lrun_stops_at K crounds init 0); auto.
  Qed.

  (** N1: whatever the bound - even 0 - the first round is executed, and a loop whose bound
      is at most 1 runs exactly one round *)
  Corollary leader_bound_zero_one_round : forall ds rest, max <= 1 ->
    lrun linit (ds :: rest) =
      ((false, init) :: fst (lrun linit rest), fold_left global ds init :: snd (lrun linit rest)).
  Proof.
    intros ds rest Hm.
    apply (lrun_stops_at 1 (ds :: rest) init 0); [cbn; lia | intros; lia | right; lia].
  Qed.
End LeaderProofs.

(** ** (b) Publication of the state on one host *)
Lemma lock_even : forall c, lock (2 * c) = S (2 * c).
Proof. intros c. unfold lock. rewrite Nat.even_mul. reflexivity. Qed.
Lemma lock_odd : forall c, lock (S (2 * c)) = S (2 * c).
Proof. intros c. unfold lock. rewrite Nat.even_succ, Nat.odd_mul. reflexivity. Qed.
Lemma lock_ge : forall g, g <= lock g.
Proof. intros g. unfold lock. destruct (Nat.even g); lia. Qed.
Lemma lock_odd' : forall g r, S g = 2 * r -> lock g = g.
Proof.
  intros g r Hr. destruct r as [|r]; [lia|]. replace g with (S (2 * r)) by lia. apply lock_odd.
Qed.

Lemma upd_same : forall X (f : nat -> X) i v, upd f i v i = v.
Proof. intros. unfold upd. now rewrite Nat.eqb_refl. Qed.
Lemma upd_other : forall X (f : nat -> X) i v j, j <> i -> upd f i v j = f j.
Proof. intros X f i v j Hn. unfold upd. destruct (Nat.eqb_spec j i); [contradiction | reflexivity]. Qed.

Section HostProofs.
  Variable H B : nat.
  Notation hstep := (hstep H B).
  Notation hreach := (hreach H B).

  (** the barrier epoch the other heads are in, seen from the local leader *)
  Definition epoch (ph : hphase) : nat :=
    match ph with HPost r => S r | HRun r | HFar r | HWriting r | HBar r => r end.

  (** what the local leader's position says about the cell, the feedbacks and the generation:
      [cell] = rounds whose state was published here; generation = 2 * cell while the
      state is unlocked, odd from the first `lock()` of the round until `unlock()` *)
  Definition lead_ok (s : host) : Prop :=
    match lead s with
    | HRun r => S (cell s) = r /\ writing s = false /\ S (fb s) = r /\
                (gen s = 2 * cell s \/ gen s = S (2 * cell s))
    | HFar r => S (cell s) = r /\ writing s = false /\ (S (fb s) = r \/ fb s = r) /\
                gen s = S (2 * cell s)
    | HWriting r => S (cell s) = r /\ writing s = true /\ fb s = r /\ S (gen s) = 2 * r
    | HBar r | HPost r => cell s = r /\ writing s = false /\ fb s = r /\ S (gen s) = 2 * r
    end.

  Definition head_ok (e fbk : nat) (ph : hphase) : Prop :=
    match ph with
    | HRun r => r = e /\ S fbk = r
    | HFar r => r = e /\ (S fbk = r \/ fbk = r)
    | HBar r => r = e /\ fbk = r
    | HWriting _ | HPost _ => False
    end.

  Definition hinv (s : host) : Prop :=
    (forall b, sgen s b = 2 * fars s b) /\
    (forall b, b < B -> fb s <= fars s b <= S (fb s)) /\
    (forall b, bwait s b = false -> sgen s b <= gen s) /\
    lead_ok s /\
    (forall h, h < H -> head_ok (epoch (lead s)) (fb s) (heads s h)).

  Lemma hinv_init : hinv (hinit).
  Proof.
    unfold hinv, lead_ok. cbn. repeat split; auto; try lia.
  Qed.

  Lemma hstep_inv : forall s s', hstep s s' -> hinv s -> hinv s'.
  Proof.
    intros s s' Hst (J1 & J2 & J3 & J4 & J5). unfold lead_ok in J4.
    inversion Hst; subst; clear Hst; unfold hinv, lead_ok; cbn -[Nat.ltb Nat.mul].
    - (* T_far_lead *)
      rewrite H0 in J4, J5. cbn in J5. destruct J4 as (Jc & Jw & Jf & Jg).
      repeat split; auto; try (apply J2; assumption).
      + intros b Hb. specialize (J3 b Hb). pose proof (lock_ge (gen s)). lia.
      + destruct Jg as [-> | ->]; [apply lock_even | apply lock_odd].
    - (* T_far_head *)
      repeat split; auto; try (apply J2; assumption).
      + intros b Hb. specialize (J3 b Hb). pose proof (lock_ge (gen s)). lia.
      + destruct (lead s) eqn:E.
        * destruct J4 as (Jc & Jw & Jf & Jg). repeat split; auto; try (apply J2; assumption).
          right. destruct Jg as [-> | ->]; [apply lock_even | apply lock_odd].
        * destruct J4 as (Jc & Jw & Jf & Jg). repeat split; auto; try (apply J2; assumption). rewrite Jg. apply lock_odd.
        * destruct J4 as (Jc & Jw & Jf & Jg). repeat split; auto; try (apply J2; assumption). rewrite (lock_odd' _ _ Jg). exact Jg.
        * destruct J4 as (Jc & Jw & Jf & Jg). repeat split; auto; try (apply J2; assumption). rewrite (lock_odd' _ _ Jg). exact Jg.
        * destruct J4 as (Jc & Jw & Jf & Jg). repeat split; auto; try (apply J2; assumption). rewrite (lock_odd' _ _ Jg). exact Jg.
      + intros h' Hh'. destruct (Nat.eq_dec h' h) as [->|Hne].
        * rewrite upd_same. specialize (J5 h H0). rewrite H1 in J5. cbn in J5 |- *.
          destruct J5 as [-> Hf]. split; [reflexivity | now left].
        * rewrite upd_other by assumption. apply J5, Hh'.
    - (* T_feedback *)
      repeat split; auto; try (apply J2; assumption).
      + specialize (J2 b H3). lia.
      + destruct (lead s) eqn:E; cbn in H1.
        * destruct J4 as (Jc & Jw & Jf & Jg). lia.
        * destruct J4 as (Jc & Jw & Jf & Jg). repeat split; auto; try (apply J2; assumption). right. lia.
        * destruct J4 as (Jc & Jw & Jf & Jg). lia.
        * destruct J4 as (Jc & Jw & Jf & Jg). lia.
        * destruct J4 as (Jc & Jw & Jf & Jg). lia.
      + intros h Hh. specialize (J5 h Hh). specialize (H2 h Hh).
        destruct (heads s h); cbn in *; try contradiction.
        * lia.
        * destruct J5 as [-> Hf]. split; [reflexivity | right; lia].
        * lia.
    - (* T_write_begin *)
      rewrite H0 in J4, J5. cbn in J5. destruct J4 as (Jc & Jw & Jf & Jg).
      repeat split; auto; try (apply J2; assumption); lia.
    - (* T_write_end *)
      rewrite H0 in J4, J5. cbn in J5. destruct J4 as (Jc & Jw & Jf & Jg).
      repeat split; auto; try (apply J2; assumption).
    - (* T_bar_head *)
      repeat split; auto; try (apply J2; assumption).
      intros h' Hh'. destruct (Nat.eq_dec h' h) as [->|Hne].
      + rewrite upd_same. specialize (J5 h H0). rewrite H1 in J5. cbn in J5 |- *.
        destruct J5 as [-> Hf]. split; [reflexivity | lia].
      + rewrite upd_other by assumption. apply J5, Hh'.
    - (* T_release *)
      rewrite H0 in J4. destruct J4 as (Jc & Jw & Jf & Jg).
      repeat split; auto; try (apply J2; assumption).
      intros h Hh. apply Nat.ltb_lt in Hh. rewrite Hh. cbn. split; [reflexivity | lia].
    - (* T_unlock *)
      rewrite H0 in J4, J5. cbn in J5. destruct J4 as (Jc & Jw & Jf & Jg).
      repeat split; auto; try (apply J2; assumption); try lia.
    - (* T_body_pass *)
      repeat split; auto; try (apply J2; assumption).
      + intros b' Hb'. destruct (Nat.eq_dec b' b) as [->|Hne]; [assumption|].
        rewrite upd_other in Hb' by assumption. apply J3, Hb'.
    - (* T_body_far *)
      repeat split; auto; try (apply J2; assumption).
      + intros b'. destruct (Nat.eq_dec b' b) as [->|Hne].
        * rewrite !upd_same. rewrite J1. lia.
        * rewrite !upd_other by assumption. apply J1.
      + match goal with Hb : b0 < B |- _ => pose proof (J2 _ Hb) as J2b end.
        destruct (Nat.eq_dec b0 b) as [E|Hne]; [subst b0; rewrite upd_same; lia|].
        rewrite upd_other by assumption. lia.
      + match goal with Hb : b0 < B |- _ => pose proof (J2 _ Hb) as J2b end.
        destruct (Nat.eq_dec b0 b) as [E|Hne]; [subst b0; rewrite upd_same; lia|].
        rewrite upd_other by assumption. lia.
      + intros b' Hb'. destruct (Nat.eq_dec b' b) as [->|Hne].
        * rewrite upd_same in Hb'. discriminate.
        * rewrite upd_other in Hb' |- * by assumption. apply J3, Hb'.
  Qed.

  Lemma hreach_inv : forall s, hreach s -> hinv s.
  Proof. intros s Hr. induction Hr; [apply hinv_init | eapply hstep_inv; eauto]. Qed.

  (** A body replica of this host that processes an element of round [r] reads the cell
      while no write is in progress, and the cell holds the state of feedback [r-1] - the
      initial state for round 1 -, never an older and never a newer one. *)
  Theorem state_read_is_previous : forall s b r, hreach s -> body_reads B s b r ->
    writing s = false /\ S (cell s) = r.
  Proof.
    intros s b r Hr (Hb & Hw & Hf & ->).
    destruct (hreach_inv s Hr) as (J1 & J2 & J3 & J4 & _).
    specialize (J2 b Hb). specialize (J3 b Hw). rewrite J1 in J3.
    unfold lead_ok in J4. destruct (lead s); destruct J4 as (Jc & Jw & Jf & Jg); split; try assumption; try lia.
    all: destruct Jf; lia.
  Qed.

  Corollary no_read_during_write : forall s b r, hreach s -> body_reads B s b r -> writing s = false.
  Proof. intros s b r Hr Hb. apply (state_read_is_previous s b r Hr Hb). Qed.

  (** the same for the operators that run in a head's own block while it emits round [r] *)
  Theorem head_read_is_previous : forall s r, hreach s -> head_reads H s r ->
    writing s = false /\ S (cell s) = r.
  Proof.
    intros s r Hr Hrd. destruct (hreach_inv s Hr) as (_ & _ & _ & J4 & J5). unfold lead_ok in J4.
    destruct Hrd as [Hl | [h [Hh Hhd]]].
    - rewrite Hl in J4. destruct J4 as (Jc & Jw & _). auto.
    - specialize (J5 h Hh). rewrite Hhd in J5. cbn in J5. destruct J5 as [He Hf].
      destruct (lead s); cbn in He; destruct J4 as (Jc & Jw & Jf & Jg); split; try assumption; try lia.
      all: destruct Jf; lia.
  Qed.

  (** the local leader writes only when nobody on the host can read: no body replica is
      processing an element and no head is emitting *)
  Theorem write_excludes_reads : forall s, hreach s -> writing s = true ->
    (forall b r, ~ body_reads B s b r) /\ (forall r, ~ head_reads H s r).
  Proof.
    intros s Hr Hw. split.
    - intros b r Hb. rewrite (no_read_during_write s b r Hr Hb) in Hw. discriminate.
    - intros r Hh. destruct (head_read_is_previous s r Hr Hh) as [Hw' _]. congruence.
  Qed.

  (** `unlock()` never hits its assertion ("cannot unlock a non-locked lock"), and the
      generation is twice the number of states published on this host, plus one while
      locked *)
  Theorem unlock_is_locked : forall s r, hreach s -> lead s = HPost r -> Nat.odd (gen s) = true.
  Proof.
    intros s r Hr Hl. destruct (hreach_inv s Hr) as (_ & _ & _ & J4 & _). unfold lead_ok in J4.
    rewrite Hl in J4. destruct J4 as (_ & _ & _ & Jg).
    destruct r as [|r]; [lia|]. replace (gen s) with (S (2 * r)) by lia.
    rewrite Nat.odd_succ, Nat.even_mul. reflexivity.
  Qed.

  Theorem generation_meaning : forall s, hreach s ->
    gen s = 2 * cell s \/ gen s = S (2 * cell s) \/ (S (gen s) = 2 * cell s /\ exists r, lead s = HBar r \/ lead s = HPost r).
  Proof.
    intros s Hr. destruct (hreach_inv s Hr) as (_ & _ & _ & J4 & _). unfold lead_ok in J4.
    destruct (lead s) eqn:E; destruct J4 as (Jc & Jw & Jf & Jg).
    - destruct Jg; auto.
    - auto.
    - right. left. lia.
    - right. right. split; [lia | eauto].
    - right. right. split; [lia | eauto].
  Qed.
End HostProofs.

(** ** The protocol is live enough to be meaningful: with two heads and one body replica a
    full round goes through and the body reads state 1 in round 2. *)
Module Example.
  Definition s0 := hinit.
  Definition s1 := set_body s0 (upd (fars s0) 0 1) (upd (sgen s0) 0 2) (upd (bwait s0) 0 true).
  Definition s2 := set_gen (set_lead s1 (HFar 1)) (lock (gen s1)).
  Definition s3 := set_gen (set_heads s2 (upd (heads s2) 0 (HFar 1))) (lock (gen s2)).
  Definition s4 := set_fb s3 1.
  Definition s5 := set_cell (set_lead s4 (HWriting 1)) (cell s4) true.
  Definition s6 := set_cell (set_lead s5 (HBar 1)) 1 false.
  Definition s7 := set_heads s6 (upd (heads s6) 0 (HBar 1)).
  Definition s8 := set_heads (set_lead s7 (HPost 1)) (fun h => if h <? 1 then HRun 2 else heads s7 h).
  Definition s9 := set_gen (set_lead s8 (HRun 2)) (S (gen s8)).
  Definition s10 := set_body s9 (fars s9) (sgen s9) (upd (bwait s9) 0 false).

  Lemma lt1 : forall x, x < 1 -> x = 0. Proof. intros; lia. Qed.

  Lemma reach10 : hreach 1 1 s10.
  Proof.
    assert (R1 : hreach 1 1 s1).
    { eapply hreach_step; [apply hreach_init|]. apply (T_body_far 1 1 s0 0). cbn. lia. }
    assert (R2 : hreach 1 1 s2).
    { eapply hreach_step; [exact R1|]. apply (T_far_lead 1 1 s1 1). reflexivity. }
    assert (R3 : hreach 1 1 s3).
    { eapply hreach_step; [exact R2|]. apply (T_far_head 1 1 s2 0 1); [lia | reflexivity]. }
    assert (R4 : hreach 1 1 s4).
    { eapply hreach_step; [exact R3|]. apply (T_feedback 1 1 s3).
      - intros b Hb. apply lt1 in Hb. subst b. cbn. lia.
      - cbn. lia.
      - intros h Hh. apply lt1 in Hh. subst h. cbn. lia. }
    assert (R5 : hreach 1 1 s5).
    { eapply hreach_step; [exact R4|]. apply (T_write_begin 1 1 s4 1); [reflexivity | cbn; lia]. }
    assert (R6 : hreach 1 1 s6).
    { eapply hreach_step; [exact R5|]. apply (T_write_end 1 1 s5 1). reflexivity. }
    assert (R7 : hreach 1 1 s7).
    { eapply hreach_step; [exact R6|]. apply (T_bar_head 1 1 s6 0 1); [lia | reflexivity | cbn; lia]. }
    assert (R8 : hreach 1 1 s8).
    { eapply hreach_step; [exact R7|]. apply (T_release 1 1 s7 1); [reflexivity|].
      intros h Hh. apply lt1 in Hh. subst h. reflexivity. }
    assert (R9 : hreach 1 1 s9).
    { eapply hreach_step; [exact R8|]. apply (T_unlock 1 1 s8 1). reflexivity. }
    eapply hreach_step; [exact R9|]. apply (T_body_pass 1 1 s9 0); [reflexivity | cbn; lia].
  Qed.

  Lemma body_reads_round2 : body_reads 1 s10 0 2 /\ cell s10 = 1 /\ gen s10 = 2.
  Proof. unfold body_reads. cbn. repeat split; lia. Qed.
End Example.

(** Statement-level definitions for the join theorems (C08). *)
From Noir Require Export Base.Elem Model.BinaryStart Model.Joins.
From Coq Require Export Permutation.
Open Scope Z_scope.

(** [merge2 a b s]: [s] is an interleaving of [a] and [b] (each keeps its order) *)
Inductive merge2 {X} : list X -> list X -> list X -> Prop :=
| m2_nil : merge2 [] [] []
| m2_l : forall x a b s, merge2 a b s -> merge2 (x :: a) b (x :: s)
| m2_r : forall y a b s, merge2 a b s -> merge2 a (y :: b) (y :: s).

(** what the two-input Start hands to a join within one round: the left items then the
    left end marker, the right items then the right end marker, interleaved arbitrarily *)
Definition left_stream {A B} (ls : list A) : list (elem (bin A B)) := map (fun x => Item (BL x)) ls ++ [Item BLEnd].
Definition right_stream {A B} (rs : list B) : list (elem (bin A B)) := map (fun y => Item (BR y)) rs ++ [Item BREnd].

(** inner-join pairs, as the keyed inner join emits them *)
Definition inner_pairs {A B} (kl : A -> Z) (kr : B -> Z) (ls : list A) (rs : list B) : list (Z * (A * B)) :=
  flat_map (fun l => map (fun r => (kl l, (l, r))) (filter (fun r => Z.eqb (kr r) (kl l)) rs)) ls.

(** a stream of keyed, timestamped merged elements in non-decreasing timestamp order, all
    timestamps >= 0 (the interval join sits behind a Reorder) *)
Fixpoint ts_sorted_from {A B} (last : Z) (l : list (elem (Z * merged A B))) : Prop :=
  match l with
  | [] => True
  | Tst _ t :: l' => last <= t /\ ts_sorted_from t l'
  | Wm t :: l' => last <= t /\ ts_sorted_from t l'
  | Item _ :: _ => False
  | FAR :: _ | Terminate :: _ => False
  | FlushBatch :: l' => ts_sorted_from last l'
  end.
Definition lefts {A B} (l : list (elem (Z * merged A B))) : list (Z * (Z * A)) :=
  flat_map (fun e => match e with Tst (k, ML a) t => [(t, (k, a))] | _ => [] end) l.
Definition rights {A B} (l : list (elem (Z * merged A B))) : list (Z * (Z * B)) :=
  flat_map (fun e => match e with Tst (k, MR b) t => [(k, (t, b))] | _ => [] end) l.

(** C15 (integer ranges): the chunks handed to the replicas by
    `IntoParallelSource for Range<T>` partition the range; reversed ranges are empty. *)
From Noir Require Import Model.SrcRange Proofs.SrcSpec.
From Coq Require Import ZArith List Lia Bool.
Import ListNotations.
Open Scope Z_scope.

(** ** numeric constants *)
Lemma p62 : 2 ^ 62 = 4611686018427387904. Proof. reflexivity. Qed.
Lemma p32 : 2 ^ 32 = 4294967296. Proof. reflexivity. Qed.
Lemma i64_min_val : i64_min = -9223372036854775808. Proof. reflexivity. Qed.
Lemma i64_max_val : i64_max = 9223372036854775807. Proof. reflexivity. Qed.
Lemma u64_max_val : u64_max = 18446744073709551615. Proof. reflexivity. Qed.

Lemma sat_i64_id x :
  -9223372036854775808 <= x <= 9223372036854775807 -> sat_i64 x = x.
Proof. intros. unfold sat_i64. rewrite i64_min_val, i64_max_val. lia. Qed.

Lemma sat_i64_min_hi x hi :
  -9223372036854775808 <= x -> hi <= 9223372036854775807 ->
  Z.min (sat_i64 x) hi = Z.min x hi.
Proof. intros. unfold sat_i64. rewrite i64_min_val, i64_max_val. lia. Qed.

Lemma in_i64_true x :
  -9223372036854775808 <= x <= 9223372036854775807 -> in_i64 x = true.
Proof.
  intros. unfold in_i64. rewrite i64_min_val, i64_max_val.
  apply andb_true_iff. split; apply Z.leb_le; lia.
Qed.

Lemma sat_u64_id x : 0 <= x <= 18446744073709551615 -> sat_u64 x = x.
Proof. intros. unfold sat_u64. rewrite u64_max_val. lia. Qed.

Lemma sat_u64_min_hi x hi :
  0 <= x -> hi <= 18446744073709551615 -> Z.min (sat_u64 x) hi = Z.min x hi.
Proof. intros. unfold sat_u64. rewrite u64_max_val. lia. Qed.

Lemma in_ty_iff t x : in_ty t x = true <-> ty_lo t <= x <= ty_hi t.
Proof. unfold in_ty. rewrite andb_true_iff, !Z.leb_le. tauto. Qed.

(** ** the chunk size: ceil(n / peers) *)
Definition chunk_of (n peers : Z) : Z := (n + (peers - 1)) / peers.

Lemma chunk_of_spec n peers :
  0 <= n -> 1 <= peers ->
  0 <= chunk_of n peers /\ n <= chunk_of n peers * peers < n + peers.
Proof.
  intros Hn Hp. unfold chunk_of.
  pose proof (Z.div_mod (n + (peers - 1)) peers ltac:(lia)) as E.
  pose proof (Z.mod_pos_bound (n + (peers - 1)) peers ltac:(lia)) as B.
  assert (0 <= (n + (peers - 1)) / peers) by (apply Z.div_pos; lia).
  split; [assumption|]. nia.
Qed.

Lemma chunk_of_zero peers : 1 <= peers -> chunk_of 0 peers = 0.
Proof. intros. unfold chunk_of. apply Z.div_small. lia. Qed.

Lemma mul_chunk_bound i c n peers :
  0 <= i < peers -> 0 <= c -> c * peers < n + peers -> 0 <= i * c <= n + peers.
Proof. intros. nia. Qed.

(** ** closed forms of the generators under the hypotheses *)
Lemma gen_signed_eq (t : ity) (lo hi peers i : Z) :
  fits_i64 t -> in_ty t lo = true -> in_ty t hi = true ->
  lo <= hi -> hi - lo <= 2 ^ 62 -> 1 <= peers <= 2 ^ 32 -> 0 <= i < peers ->
  let c := chunk_of (hi - lo) peers in
  gen_signed t lo hi i peers =
    Some (Z.min (lo + i * c) hi, Z.min (Z.min (lo + i * c) hi + c) hi).
Proof.
  intros [Ft1 Ft2] Hlo Hhi Hle Hn Hp Hi c.
  rewrite p62 in Hn. rewrite p32 in Hp.
  rewrite i64_min_val in Ft1. rewrite i64_max_val in Ft2.
  apply in_ty_iff in Hlo. apply in_ty_iff in Hhi.
  destruct (chunk_of_spec (hi - lo) peers ltac:(lia) ltac:(lia)) as [Hc0 Hc].
  fold c in Hc0, Hc.
  pose proof (mul_chunk_bound i c (hi - lo) peers Hi Hc0 (proj2 Hc)) as Hic.
  unfold gen_signed, chk_i64.
  rewrite (in_i64_true (hi - lo)) by lia.
  rewrite (Z.max_l (hi - lo) 0) by lia.
  rewrite (sat_i64_id (hi - lo + (peers - 1))) by lia.
  rewrite Z.quot_div_nonneg by lia.
  change ((hi - lo + (peers - 1)) / peers) with c.
  rewrite (in_i64_true (i * c)) by lia.
  rewrite (sat_i64_min_hi (lo + i * c) hi) by lia.
  rewrite (Z.max_l (Z.min (lo + i * c) hi) lo) by lia.
  rewrite (sat_i64_min_hi (Z.min (lo + i * c) hi + c) hi) by lia.
  rewrite (Z.max_l (Z.min (Z.min (lo + i * c) hi + c) hi) lo) by lia.
  assert (E1 : in_ty t (Z.min (lo + i * c) hi) = true) by (apply in_ty_iff; lia).
  assert (E2 : in_ty t (Z.min (Z.min (lo + i * c) hi + c) hi) = true)
    by (apply in_ty_iff; lia).
  rewrite E1, E2. reflexivity.
Qed.

Lemma gen_u64_eq (lo hi peers i : Z) :
  0 <= lo -> lo <= hi -> hi <= u64_max -> hi - lo <= 2 ^ 62 ->
  1 <= peers <= 2 ^ 32 -> 0 <= i < peers ->
  let c := chunk_of (hi - lo) peers in
  gen_u64 lo hi i peers =
    Some (Z.min (lo + i * c) u64_max,
          Z.max (Z.min (Z.min (lo + i * c) u64_max + c) hi) lo).
Proof.
  intros Hlo Hle Hhi Hn Hp Hi c.
  rewrite p62 in Hn. rewrite p32 in Hp.
  destruct (chunk_of_spec (hi - lo) peers ltac:(lia) ltac:(lia)) as [Hc0 Hc].
  fold c in Hc0, Hc.
  pose proof (mul_chunk_bound i c (hi - lo) peers Hi Hc0 (proj2 Hc)) as Hic.
  rewrite u64_max_val in *.
  unfold gen_u64.
  rewrite (Z.max_l (hi - lo) 0) by lia.
  rewrite (sat_u64_id (hi - lo + (peers - 1))) by lia.
  rewrite Z.quot_div_nonneg by lia.
  change ((hi - lo + (peers - 1)) / peers) with c.
  rewrite u64_max_val.
  replace (i * c <=? 18446744073709551615) with true by (symmetry; apply Z.leb_le; lia).
  assert (E : sat_u64 (lo + i * c) = Z.min (lo + i * c) 18446744073709551615)
    by (unfold sat_u64; rewrite u64_max_val; lia).
  rewrite E.
  rewrite (sat_u64_min_hi (Z.min (lo + i * c) 18446744073709551615 + c) hi) by lia.
  reflexivity.
Qed.

(** ** arithmetic core of the partition argument *)
Lemma chunk_index_exists (n c peers d : Z) :
  1 <= c -> n <= c * peers -> 0 <= d < n ->
  0 <= d / c < peers /\ (d / c) * c <= d < (d / c) * c + c.
Proof.
  intros Hc Hn Hd.
  pose proof (Z.div_mod d c ltac:(lia)) as E.
  pose proof (Z.mod_pos_bound d c ltac:(lia)) as B.
  assert (0 <= d / c) by (apply Z.div_pos; lia).
  split; [|nia].
  split; [assumption|].
  apply Z.div_lt_upper_bound; nia.
Qed.

Lemma chunk_index_unique (c d i j : Z) :
  1 <= c -> i * c <= d < i * c + c -> j * c <= d < j * c + c -> j = i.
Proof. intros. nia. Qed.

Lemma chunk_pos (n peers : Z) : 1 <= n -> 1 <= peers -> 1 <= chunk_of n peers.
Proof.
  intros Hn Hp.
  destruct (chunk_of_spec n peers ltac:(lia) Hp) as [H0 H1]. nia.
Qed.

(** ** A1 *)
Theorem range_signed_partition : forall (t : ity) (lo hi peers : Z),
  fits_i64 t -> in_ty t lo = true -> in_ty t hi = true ->
  lo <= hi -> hi - lo <= 2 ^ 62 -> 1 <= peers <= 2 ^ 32 ->
  partitions (fun i => gen_signed t lo hi i peers) lo hi peers.
Proof.
  intros t lo hi peers Ft Hlo Hhi Hle Hn Hp.
  pose proof (fun i (Hi : 0 <= i < peers) =>
                gen_signed_eq t lo hi peers i Ft Hlo Hhi Hle Hn Hp Hi) as G.
  cbv zeta in G.
  set (c := chunk_of (hi - lo) peers) in *.
  destruct (chunk_of_spec (hi - lo) peers ltac:(lia) ltac:(lia)) as [Hc0 Hc].
  fold c in Hc0, Hc.
  unfold partitions. split; [|split].
  - intros i Hi. rewrite (G i Hi). eauto.
  - intros x Hx.
    assert (Hc1 : 1 <= c) by (apply chunk_pos; lia).
    destruct (chunk_index_exists (hi - lo) c peers (x - lo) Hc1 ltac:(lia) ltac:(lia))
      as [Hi Hin].
    set (i := (x - lo) / c) in *.
    exists i. split; [assumption|]. split.
    + eexists. split; [apply (G i Hi)|]. unfold in_range; cbn [fst snd]. lia.
    + intros j r' Hj Hg Hr. rewrite (G j Hj) in Hg. inversion Hg; subst r'; clear Hg.
      unfold in_range in Hr; cbn [fst snd] in Hr.
      apply (chunk_index_unique c (x - lo)); lia.
  - intros i r x Hi Hg Hr. rewrite (G i Hi) in Hg. inversion Hg; subst r; clear Hg.
    unfold in_range in Hr; cbn [fst snd] in Hr.
    pose proof (mul_chunk_bound i c (hi - lo) peers Hi Hc0 (proj2 Hc)). lia.
Qed.

(** ** A2 *)
Theorem range_signed_reversed : forall (t : ity) (lo hi peers i : Z),
  fits_i64 t -> in_ty t lo = true -> in_ty t hi = true ->
  hi < lo -> lo - hi <= 2 ^ 62 -> 1 <= peers <= 2 ^ 32 -> 0 <= i < peers ->
  exists r, gen_signed t lo hi i peers = Some r /\ forall x, ~ in_range r x.
Proof.
  intros t lo hi peers i [Ft1 Ft2] Hlo Hhi Hlt Hn Hp Hi.
  rewrite p62 in Hn. rewrite p32 in Hp.
  rewrite i64_min_val in Ft1. rewrite i64_max_val in Ft2.
  pose proof Hlo as Hlo'. apply in_ty_iff in Hlo'. apply in_ty_iff in Hhi.
  exists (lo, lo). split.
  - unfold gen_signed, chk_i64.
    rewrite (in_i64_true (hi - lo)) by lia.
    rewrite (Z.max_r (hi - lo) 0) by lia.
    rewrite (sat_i64_id (0 + (peers - 1))) by lia.
    rewrite Z.quot_div_nonneg by lia.
    fold (chunk_of 0 peers). rewrite chunk_of_zero by lia.
    rewrite Z.mul_0_r. rewrite (in_i64_true 0) by lia.
    rewrite Z.add_0_r.
    rewrite (sat_i64_id lo) by lia.
    rewrite (Z.min_r lo hi) by lia.
    rewrite (Z.max_r hi lo) by lia.
    rewrite Z.add_0_r.
    rewrite (sat_i64_id lo) by lia.
    rewrite (Z.min_r lo hi) by lia.
    rewrite (Z.max_r hi lo) by lia.
    rewrite Hlo. reflexivity.
  - intros x. unfold in_range; cbn [fst snd]. lia.
Qed.

(** ** A3 *)
Theorem range_u64_partition : forall (lo hi peers : Z),
  0 <= lo -> lo <= hi -> hi <= u64_max -> hi - lo <= 2 ^ 62 -> 1 <= peers <= 2 ^ 32 ->
  partitions (fun i => gen_u64 lo hi i peers) lo hi peers.
Proof.
  intros lo hi peers Hlo Hle Hhi Hn Hp.
  pose proof (fun i (Hi : 0 <= i < peers) =>
                gen_u64_eq lo hi peers i Hlo Hle Hhi Hn Hp Hi) as G.
  cbv zeta in G.
  set (c := chunk_of (hi - lo) peers) in *.
  rewrite p62 in Hn. rewrite p32 in Hp.
  destruct (chunk_of_spec (hi - lo) peers ltac:(lia) ltac:(lia)) as [Hc0 Hc].
  fold c in Hc0, Hc.
  rewrite u64_max_val in *.
  unfold partitions. split; [|split].
  - intros i Hi. rewrite (G i Hi). eauto.
  - intros x Hx.
    assert (Hc1 : 1 <= c) by (apply chunk_pos; lia).
    destruct (chunk_index_exists (hi - lo) c peers (x - lo) Hc1 ltac:(lia) ltac:(lia))
      as [Hi Hin].
    set (i := (x - lo) / c) in *.
    exists i. split; [assumption|]. split.
    + eexists. split; [apply (G i Hi)|]. unfold in_range; cbn [fst snd]. lia.
    + intros j r' Hj Hg Hr. rewrite (G j Hj) in Hg. inversion Hg; subst r'; clear Hg.
      unfold in_range in Hr; cbn [fst snd] in Hr.
      pose proof (mul_chunk_bound j c (hi - lo) peers Hj Hc0 (proj2 Hc)).
      apply (chunk_index_unique c (x - lo)); lia.
  - intros i r x Hi Hg Hr. rewrite (G i Hi) in Hg. inversion Hg; subst r; clear Hg.
    unfold in_range in Hr; cbn [fst snd] in Hr.
    pose proof (mul_chunk_bound i c (hi - lo) peers Hi Hc0 (proj2 Hc)). lia.
Qed.

(** ** A4 *)
Theorem range_u64_reversed : forall (lo hi peers i : Z),
  0 <= hi -> hi < lo -> lo <= u64_max -> 1 <= peers <= 2 ^ 32 -> 0 <= i < peers ->
  exists r, gen_u64 lo hi i peers = Some r /\ forall x, ~ in_range r x.
Proof.
  intros lo hi peers i Hhi Hlt Hlo Hp Hi.
  rewrite p32 in Hp. rewrite u64_max_val in Hlo.
  exists (lo, lo). split.
  - unfold gen_u64.
    rewrite (Z.max_r (hi - lo) 0) by lia.
    rewrite (sat_u64_id (0 + (peers - 1))) by lia.
    rewrite Z.quot_div_nonneg by lia.
    fold (chunk_of 0 peers). rewrite chunk_of_zero by lia.
    rewrite Z.mul_0_r, !Z.add_0_r.
    rewrite !(sat_u64_id lo) by lia. change (0 <=? u64_max) with true. cbv iota.
    rewrite (Z.min_r lo hi) by lia.
    rewrite (Z.max_r hi lo) by lia.
    reflexivity.
  - intros x. unfold in_range; cbn [fst snd]. lia.
Qed.

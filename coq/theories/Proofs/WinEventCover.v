(** C13, coverage for EVERY arrival order with exactly the known class (F4) excluded.

    The class.  [dropped_at s ts]: the per-key manager is in state [s], holds at least one
    slot, and [ts] lies below the start of its FIRST (oldest) slot.  `alloc_windows` only
    appends slots after the last one, so such an element is fed to no slot at all although
    no watermark has passed it.  [dropped_indices l] lists the positions (in [tdata l]) of
    the elements of the run [l] that arrive in such a state.

    X0  [contig], [et_cinv]       consecutive slots overlap or touch (no gaps), always
    X1  [dropped_at_spec]         an in-contract element is fed to >= 1 slot  iff
                                  [dropped_at] is false (and to none iff it is true)
    X2  [et_inorder_nothing_dropped]   timestamp order + monotone watermarks: class empty
    X3  [et_sliding_cover_outside_class]   every arrival order: a position is in no result
                                  iff it is in the class; otherwise in 1..ceil(size/slide)
    X4  [et_tumbling_exactly_once_outside_class]   tumbling: the results partition exactly
                                  the elements outside the class
    Neither [wm_sorted] nor [no_end] is needed for X1, X3, X4. *)
From Noir Require Import Proofs.WinEventSpec Proofs.WinEventProofs.
From Coq Require Import ZifyBool Sorted.
Ltac Zify.zify_post_hook ::= Z.div_mod_to_equations.
Open Scope Z_scope.

(** * The known class, executable *)
Section Class.
  Context {A B C : Type}.
  Variable (acc0 : B) (proc : B -> A -> B) (out : B -> C).
  Variable (size slide : Z).

  (** the element with timestamp [ts] arriving in state [s] is older than the key's oldest
      allocated slot *)
  Definition dropped_at (s : @estate B) (ts : Z) : bool :=
    match e_ws s with
    | [] => false
    | w :: _ => ts <? e_start w
    end.

  (** contribution of one input element, which would get index [n] in [tdata] *)
  Definition drop1 (st : option (@estate B)) (n : nat) (e : elem A) : list nat :=
    match e, st with
    | Tst _ ts, Some s => if dropped_at s ts then [n] else []
    | _, _ => []
    end.

  Definition bumpn (n : nat) (e : elem A) : nat :=
    match e with Tst _ _ => S n | _ => n end.

  (** run the manager from [st]; [n] = number of timestamped elements seen so far *)
  Fixpoint dropped_from (st : option (@estate B)) (n : nat) (l : list (elem A)) : list nat :=
    match l with
    | [] => []
    | e :: l' =>
        drop1 st n e ++
        dropped_from (fst (et_step acc0 proc out size slide st e)) (bumpn n e) l'
    end.

  (** positions in [tdata l] of the elements dropped during the run of [l] *)
  Definition dropped_indices (l : list (elem A)) : list nat :=
    dropped_from (Some {| e_lw := None; e_ws := [] |}) 0%nat l.

  (** the other positions, in arrival order, and the elements there *)
  Definition kept_indices (l : list (elem A)) : list nat :=
    filter (fun i => negb (has i (dropped_indices l))) (seq 0 (length (tdata l))).
  Definition kept_data (l : list (elem A)) : list (A * Z) :=
    pick (tdata l) (kept_indices l).
End Class.

(** * X0/X1/X2: structural facts, generic in the accumulator *)
Section CoverGen.
  Context {A B C : Type}.
  Variable (acc0 : B) (proc : B -> A -> B) (out : B -> C).
  Variable (size slide : Z).
  Hypothesis Hslide : 0 < slide.
  Hypothesis Hss : slide <= size.
  #[local] Set Default Proof Using "All".

  Notation slot := (@eslot B).
  Notation state := (@estate B).
  Notation gen L := (L A B C acc0 proc out size slide Hslide Hss).
  Notation step := (et_step acc0 proc out size slide).
  Notation RM := (EM acc0 proc out size slide).

  (** ** no gaps: each slot starts no later than the end of its predecessor *)
  Fixpoint contig (prev : option Z) (ws : list slot) : Prop :=
    match ws with
    | [] => True
    | a :: ws' =>
        match prev with Some p => e_start a <= p + size | None => True end /\
        contig (Some (e_start a)) ws'
    end.

  Lemma contig_weaken p ws : contig p ws -> contig None ws.
  Proof. destruct ws as [|a ws]; cbn [contig]; [trivial|]. intros [_ H]. split; [exact I|exact H]. Qed.

  Lemma contig_app : forall a b p,
    contig p (a ++ b) <->
    contig p a /\ contig (match last_start a with Some s => Some s | None => p end) b.
  Proof.
    induction a as [|x a IH]; intros b p.
    - cbn. tauto.
    - cbn [app contig]. rewrite IH, last_start_cons.
      destruct (last_start a); tauto.
  Qed.

  Lemma contig_map_feed1 x ts : forall ws p, contig p ws -> contig p (map (feed1 proc x ts) ws).
  Proof.
    induction ws as [|a ws IH]; intros p H; [exact I|].
    destruct H as [H1 H2]. cbn [map contig]. rewrite (gen (@feed1_start)). split.
    - exact H1.
    - now apply IH.
  Qed.

  (** the last slot ends above the last watermark *)
  Lemma above_last lw (ws : list slot) s w :
    Forall (wf_slot acc0 size) ws -> above lw ws -> last_start ws = Some s -> lw = Some w ->
    w < s + size.
  Proof.
    intros Hwf Hab HL Hw. destruct (last_start_inv _ _ HL) as (ws0 & a & -> & Ea).
    specialize (Hab w Hw). apply Forall_app in Hab, Hwf.
    destruct Hab as [_ Hab], Hwf as [_ Hwf].
    inversion Hab; subst. inversion Hwf as [|? ? [He _] _]; subst. lia.
  Qed.

  Lemma alloc_contig : forall f lw ws ts,
    (forall w, lw = Some w -> w < ts) ->
    Forall (wf_slot acc0 size) ws -> above lw ws -> contig None ws ->
    contig None (alloc acc0 size slide f lw ws ts).
  Proof.
    induction f as [|f IH]; intros lw ws ts Hlw Hwf Hab Hg; [exact Hg|].
    rewrite (gen (@alloc_S)). destruct (need ws ts) eqn:EN; [|exact Hg].
    pose proof (gen (@next_start_spec) lw ws ts Hlw) as HNS. cbv zeta in HNS.
    set (ns := next_start slide lw ws ts) in *.
    destruct HNS as (HN1 & HN2 & HN3).
    apply IH; [assumption| | |].
    - apply Forall_app. split; [assumption|]. constructor; [apply (gen (@fresh_wf))|constructor].
    - intros w Hw. apply Forall_app. split; [now apply Hab|].
      constructor; [|constructor]. cbn [fresh e_end]. now apply HN3.
    - apply contig_app. split; [assumption|]. cbn [contig]. split; [|exact I].
      destruct (last_start ws) as [s|] eqn:EL; [|exact I].
      destruct (HN2 s eq_refl) as (q & Hq & Ens & Hskip). cbn [fresh e_start].
      destruct (Z.eq_dec q 0) as [->|Hq0]; [lia|].
      destruct Hskip as (w & Hw & Hle); [lia|].
      pose proof (above_last lw ws s w Hwf Hab EL Hw). lia.
  Qed.

  (** ** what a gap-free slot list covers *)
  Lemma contig_cover t : forall (ws : list slot) p a L,
    chain slide p ws -> Forall (wf_slot acc0 size) ws -> contig None ws ->
    hd_error ws = Some a -> e_start a <= t -> last_start ws = Some L -> t <= L ->
    covered ws t.
  Proof.
    induction ws as [|x ws IH]; intros p a L Hc Hwf Hg Hhd Ha HL Ht; [discriminate|].
    injection Hhd as ->.
    inversion Hwf as [|? ? [Hxe _] Hwf']; subst. destruct Hc as [_ Hc].
    destruct (Z.lt_ge_cases t (e_end a)) as [Hlt|Hge].
    - left. lia.
    - right. destruct ws as [|b ws].
      + cbn in HL. injection HL as <-. lia.
      + destruct Hg as [_ Hg]. pose proof Hg as [Hb _]. cbn in Hb.
        apply (IH (Some (e_start a)) b L); auto.
        * eapply contig_weaken; eauto.
        * lia.
        * rewrite last_start_cons in HL. destruct (last_start (b :: ws)) eqn:E; [assumption|].
          apply last_start_none in E. discriminate.
  Qed.

  Lemma below_first_no_hit t (a : slot) ws p :
    chain slide p (a :: ws) -> Forall (wf_slot acc0 size) (a :: ws) -> t < e_start a ->
    Forall (fun sl => hit t sl = false) (a :: ws).
  Proof.
    intros Hc Hwf Hlt. pose proof (gen (@sorted_tail) _ _ _ Hc Hwf) as Hs.
    constructor; [unfold hit; lia|].
    eapply Forall_impl; [|exact Hs]. cbn. unfold hit. intros; lia.
  Qed.

  (** ** the strengthened invariant *)
  Definition CInv (s : state) : Prop := Inv acc0 size slide s /\ contig None (e_ws s).

  (** the slot list of the element's step, before feeding *)
  Definition alloc_of (s : state) (ts : Z) : list slot :=
    alloc acc0 size slide (alloc_fuel slide (e_ws s) ts) (e_lw s) (e_ws s) ts.

  Lemma alloc_of_facts s ts :
    CInv s -> (forall w, e_lw s = Some w -> w < ts) ->
    exists new L, alloc_of s ts = e_ws s ++ new /\
      chain slide None (alloc_of s ts) /\ Forall (wf_slot acc0 size) (alloc_of s ts) /\
      above (e_lw s) (alloc_of s ts) /\ contig None (alloc_of s ts) /\
      Forall (is_fresh acc0) new /\
      last_start (alloc_of s ts) = Some L /\ ts <= L /\
      (e_ws s = [] -> exists a, hd_error (alloc_of s ts) = Some a /\ e_start a = ts).
  Proof.
    intros [(Hc & Hwf & Hab) Hg] Hlw. unfold alloc_of.
    destruct (gen (@alloc_inv) (alloc_fuel slide (e_ws s) ts) (e_lw s) (e_ws s) ts Hlw Hc Hwf Hab)
      as (new & E & H1 & H2 & H3 & H4).
    destruct (gen (@alloc_fuel_ok) (e_lw s) (e_ws s) ts Hlw) as (L & EL & HL).
    pose proof (alloc_contig (alloc_fuel slide (e_ws s) ts) (e_lw s) (e_ws s) ts Hlw Hwf Hab Hg) as H5.
    exists new, L. rewrite <- E in H1, H2, H3.
    repeat (split; [assumption|]).
    intros Ews. rewrite Ews in *. unfold alloc_fuel. cbn [last_start rev].
    change 2%nat with (S 1). rewrite (gen (@alloc_S)). cbn [need last_start rev].
    pose proof (gen (@next_start_spec) (e_lw s) (@nil slot) ts Hlw) as HNS. cbv zeta in HNS.
    destruct HNS as (HN1 & _). rewrite (HN1 eq_refl).
    cbn [app].
    destruct (gen (@alloc_inv) 1%nat (e_lw s) [fresh acc0 size ts] ts Hlw) as (new' & E' & _).
    - cbn. tauto.
    - constructor; [apply (gen (@fresh_wf))|constructor].
    - intros w Hw. constructor; [|constructor]. cbn. specialize (Hlw w Hw). lia.
    - rewrite E'. cbn [app hd_error]. eexists. split; [reflexivity|reflexivity].
  Qed.

  (** X1: the characterisation of the class.  In a reachable state, for an in-contract
      arriving element: feeding updates exactly the slots containing [ts]; there is at
      least one of them iff [dropped_at] is false, and none iff it is true. *)
  Lemma dropped_at_step s x ts :
    CInv s -> (forall w, e_lw s = Some w -> w < ts) ->
    fst (step (Some s) (Tst x ts)) =
      Some {| e_lw := e_lw s; e_ws := map (feed1 proc x ts) (alloc_of s ts) |} /\
    (dropped_at s ts = false <-> covered (alloc_of s ts) ts) /\
    (dropped_at s ts = true <-> Forall (fun sl => hit ts sl = false) (alloc_of s ts)).
  Proof.
    intros HCI Hlw.
    destruct (alloc_of_facts s ts HCI Hlw) as (new & L & E & H1 & H2 & H3 & H4 & H5 & EL & HL & Hnil).
    assert (Hstep : fst (step (Some s) (Tst x ts)) =
      Some {| e_lw := e_lw s; e_ws := map (feed1 proc x ts) (alloc_of s ts) |}).
    { cbn [et_step].
      replace (match e_lw s with Some w => ts <? w | None => false end) with false.
      2:{ destruct (e_lw s) as [w|]; [|reflexivity]. specialize (Hlw w eq_refl). lia. }
      cbn [fst]. fold (alloc_of s ts). now rewrite (gen (@feed_map) x ts _ None H1 H2). }
    split; [exact Hstep|].
    assert (Hex : covered (alloc_of s ts) ts ->
                  Forall (fun sl => hit ts sl = false) (alloc_of s ts) -> False).
    { unfold covered. intros Hcv Hno. apply Exists_exists in Hcv. destruct Hcv as (sl & Hin & Hsl).
      rewrite Forall_forall in Hno. specialize (Hno sl Hin). unfold hit in Hno. lia. }
    unfold dropped_at. destruct (e_ws s) as [|a ws] eqn:Ews.
    - destruct (Hnil eq_refl) as (a & Hhd & Ha).
      assert (Hcv : covered (alloc_of s ts) ts).
      { apply (contig_cover ts _ None a L); auto. lia. }
      split; [tauto|]. split; [discriminate|]. intros Hno. exfalso. now apply Hex.
    - destruct (ts <? e_start a) eqn:Elt.
      + assert (Hno : Forall (fun sl => hit ts sl = false) (alloc_of s ts)).
        { rewrite E in *. cbn [app] in *. apply (below_first_no_hit ts a (ws ++ new) None); auto. lia. }
        split; [|tauto]. split; [discriminate|]. intros Hcv. exfalso. now apply Hex.
      + assert (Hcv : covered (alloc_of s ts) ts).
        { apply (contig_cover ts _ None a L); auto.
          - rewrite E. reflexivity.
          - lia. }
        split; [tauto|]. split; [discriminate|]. intros Hno. exfalso. now apply Hex.
  Qed.

  Lemma et_step_cinv s e :
    CInv s -> ok_elem (e_lw s) e ->
    exists s', fst (step (Some s) e) = Some s' /\ CInv s' /\ e_lw s' = next_lw (e_lw s) e.
  Proof.
    intros HCI Hok. pose proof HCI as [HI Hg].
    destruct (gen (@et_step_inv) s e HI Hok) as (s' & E & HI' & Elw).
    exists s'. split; [assumption|]. split; [|assumption]. split; [assumption|].
    destruct e as [v|v t|w| | | ]; cbn [ok_elem] in Hok.
    - contradiction.
    - destruct (dropped_at_step s v t HCI Hok) as (Es & _).
      rewrite Es in E. injection E as <-. cbn [e_ws].
      destruct (alloc_of_facts s t HCI Hok) as (new & L & _ & _ & _ & _ & H4 & _).
      now apply contig_map_feed1.
    - cbn [et_step] in E. destruct (fire_split (e_ws s) w) as [a b] eqn:EF.
      cbn [fst] in E. injection E as <-. cbn [e_ws].
      destruct (gen (@fire_split_app) _ _ _ _ EF) as [Eab _]. rewrite Eab in Hg.
      apply contig_app in Hg. destruct Hg as [_ Hg]. eapply contig_weaken; eauto.
    - cbn [et_step fst] in E. injection E as <-. assumption.
    - cbn [et_step fst] in E. injection E as <-. exact I.
    - cbn [et_step fst] in E. injection E as <-. exact I.
  Qed.

  Lemma CInv_init : CInv init_state.
  Proof. split; [apply (gen (@Inv_init))|exact I]. Qed.

  Lemma et_run_cinv : forall l s,
    CInv s -> in_contract (e_lw s) l ->
    exists s', fst (run_from RM (Some s) l) = Some s' /\ CInv s'.
  Proof.
    induction l as [|e l IH]; intros s HI HC.
    - exists s. now split.
    - apply (gen (@in_contract_cons)) in HC. destruct HC as [Hok HC].
      destruct (et_step_cinv s e HI Hok) as (s1 & E1 & HI1 & Elw).
      rewrite run_from_cons_fst.
      assert (E1' : fst (mstep RM (Some s) e) = Some s1) by exact E1. rewrite E1'.
      apply IH; [assumption|]. now rewrite Elw.
  Qed.

  (** X0 *)
  Theorem et_cinv : forall l,
    in_contract None l -> exists s, fst (run_from RM (minit RM) l) = Some s /\ CInv s.
  Proof. intros l H. apply (et_run_cinv l init_state CInv_init H). Qed.

  (** X1, on the states reached by in-contract runs *)
  Theorem dropped_at_spec : forall l s x ts,
    in_contract None l -> fst (run_from RM (minit RM) l) = Some s ->
    (forall w, e_lw s = Some w -> w < ts) ->
    fst (step (Some s) (Tst x ts)) =
      Some {| e_lw := e_lw s; e_ws := map (feed1 proc x ts) (alloc_of s ts) |} /\
    (dropped_at s ts = false <-> Exists (fun sl => e_start sl <= ts < e_end sl) (alloc_of s ts)) /\
    (dropped_at s ts = true <-> Forall (fun sl => hit ts sl = false) (alloc_of s ts)).
  Proof.
    intros l s x ts HC Hrun Hlw. destruct (et_cinv l HC) as (s0 & E0 & HCI).
    assert (s0 = s) by congruence. subst s0. now apply dropped_at_step.
  Qed.

  (** ** X2: in timestamp order (with monotone watermarks) nothing is dropped *)
  Definition FI (T : option Z) (s : state) : Prop :=
    match e_ws s with
    | [] => True
    | a :: _ => (exists u, T = Some u /\ e_start a <= u) \/ (exists w, e_lw s = Some w /\ e_start a <= w)
    end.

  Lemma sorted_not_dropped T s t :
    FI T s -> (forall u, T = Some u -> u <= t) -> (forall w, e_lw s = Some w -> w < t) ->
    dropped_at s t = false.
  Proof.
    unfold FI, dropped_at. destruct (e_ws s) as [|a ws]; [reflexivity|].
    intros [(u & Hu & Ha)|(w & Hw & Ha)] HT Hlw.
    - specialize (HT u Hu). lia.
    - specialize (Hlw w Hw). lia.
  Qed.

  Lemma FI_step T s e s' :
    CInv s -> FI T s -> ok_elem (e_lw s) e -> sorted_elem T (e_lw s) e ->
    fst (step (Some s) e) = Some s' -> FI (next_T T e) s'.
  Proof.
    intros HCI HF Hok Hso E. pose proof HCI as [(Hc & Hwf & Hab) Hg].
    destruct e as [v|v t|w| | | ]; cbn [ok_elem sorted_elem next_T] in *.
    - contradiction.
    - destruct (dropped_at_step s v t HCI Hok) as (Es & _).
      rewrite Es in E. injection E as <-.
      destruct (alloc_of_facts s t HCI Hok) as (new & L & Ea & _ & _ & _ & _ & _ & _ & _ & Hnil).
      unfold FI in *. cbn [e_ws e_lw]. destruct (e_ws s) as [|a ws] eqn:Ews.
      + destruct (Hnil eq_refl) as (a & Hhd & Ha).
        destruct (alloc_of s t) as [|a' ws']; [discriminate|]. injection Hhd as ->.
        cbn [map]. rewrite (gen (@feed1_start)). left. exists t. split; [reflexivity|lia].
      + rewrite Ea. cbn [app map]. rewrite (gen (@feed1_start)).
        destruct HF as [(u & Hu & Ha)|(w & Hw & Ha)].
        * left. exists t. split; [reflexivity|]. specialize (Hso u Hu). lia.
        * right. now exists w.
    - cbn [et_step] in E. destruct (fire_split (e_ws s) w) as [a b] eqn:EF.
      cbn [fst] in E. injection E as <-. unfold FI in *. cbn [e_ws e_lw].
      destruct (gen (@fire_split_app) _ _ _ _ EF) as [Eab Ha].
      destruct b as [|b0 b]; [exact I|].
      destruct a as [|a0 a] using rev_ind.
      + cbn [app] in Eab. rewrite Eab in HF.
        destruct HF as [(u & Hu & Hb)|(w0 & Hw & Hb)].
        * left. now exists u.
        * right. exists w. split; [reflexivity|]. specialize (Hso w0 Hw). lia.
      + clear IHa. right. exists w. split; [reflexivity|].
        rewrite Eab in Hg, Hwf. apply contig_app in Hg. destruct Hg as [_ Hg].
        rewrite last_start_snoc in Hg. destruct Hg as [Hg _].
        apply Forall_app in Ha. destruct Ha as [_ Ha]. inversion Ha; subst.
        apply Forall_app in Hwf. destruct Hwf as [Hwf _].
        apply Forall_app in Hwf. destruct Hwf as [_ Hwf].
        inversion Hwf as [|? ? [He _] _]; subst. lia.
    - cbn [et_step fst] in E. injection E as <-. assumption.
    - cbn [et_step fst] in E. injection E as <-. exact I.
    - cbn [et_step fst] in E. injection E as <-. exact I.
  Qed.

  Lemma sorted_run_nothing_dropped : forall l T s n,
    CInv s -> FI T s -> in_contract (e_lw s) l -> ts_sorted T l -> wm_sorted (e_lw s) l ->
    dropped_from acc0 proc out size slide (Some s) n l = [].
  Proof.
    induction l as [|e l IH]; intros T s n HCI HF HC HT HW; [reflexivity|].
    apply (gen (@in_contract_cons)) in HC. destruct HC as [Hok HC].
    destruct (gen (@sorted_cons) T (e_lw s) e l HT HW) as (Hso & HT' & HW').
    destruct (et_step_cinv s e HCI Hok) as (s1 & E1 & HI1 & Elw).
    cbn [dropped_from]. rewrite E1.
    rewrite (IH (next_T T e) s1 (bumpn n e) HI1).
    - rewrite app_nil_r. destruct e; try reflexivity. cbn [drop1].
      cbn [ok_elem sorted_elem] in *. now rewrite (sorted_not_dropped T s t).
    - exact (FI_step T s e s1 HCI HF Hok Hso E1).
    - now rewrite Elw.
    - assumption.
    - now rewrite Elw.
  Qed.

  Theorem et_inorder_nothing_dropped : forall l,
    in_contract None l -> wm_sorted None l -> ts_sorted None l ->
    dropped_indices acc0 proc out size slide l = [].
  Proof.
    intros l HC HW HT. unfold dropped_indices.
    apply (sorted_run_nothing_dropped l None init_state 0%nat); auto.
    - apply CInv_init.
    - exact I.
  Qed.
End CoverGen.

(** * list facts *)
Lemma has_app i a b : has i (a ++ b) = has i a || has i b.
Proof. unfold has. apply existsb_app. Qed.
Lemma has_false_iff i g : has i g = false <-> ~ In i g.
Proof.
  rewrite <- has_In. destruct (has i g); split; intros H;
    first [congruence | exfalso; now apply H].
Qed.

Lemma filter_none_length {X} (f : X -> bool) (l : list X) :
  Forall (fun x => f x = false) l -> length (filter f l) = 0%nat.
Proof.
  induction 1 as [|x l Hx _ IH]; [reflexivity|]. cbn [filter]. now rewrite Hx.
Qed.

(** * X3/X4: every arrival order, through the index-tagged run *)
Section CoverGhost.
  Context {A B C : Type}.
  Variable (acc0 : B) (proc : B -> A -> B) (out : B -> C).
  Variable (size slide : Z).
  Hypothesis Hslide : 0 < slide.
  Hypothesis Hss : slide <= size.
  #[local] Set Default Proof Using "All".

  Notation A' := (A * nat)%type.
  Notation B' := (B * list nat)%type.
  Notation g0 := (gacc0 acc0).
  Notation gp := (gproc proc).
  Notation inst L := (L A' B' B' g0 gp (@gout B) size slide Hslide Hss).
  Notation real L := (L A B C acc0 proc out size slide Hslide Hss).
  Notation gstep := (et_step g0 gp (@gout B) size slide).
  Notation GMm := (GM acc0 proc size slide).
  Notation RM := (EM acc0 proc out size slide).
  Notation GIv := (GI acc0 proc size slide).
  Notation gdrop := (dropped_from g0 gp (@gout B) size slide).
  Notation rdrop := (dropped_from acc0 proc out size slide).
  Notation dropped := (dropped_indices acc0 proc out size slide).

  (** ** the class is the same on the tagged run *)
  Lemma dropped_at_pstate (s : @estate B') ts : dropped_at (pstate s) ts = dropped_at s ts.
  Proof. unfold dropped_at, pstate. cbn [e_ws]. destruct (e_ws s); reflexivity. Qed.
  Lemma drop1_proj (st : option (@estate B')) n (e : elem A') :
    drop1 (option_map pstate st) n (emap fst e) = drop1 st n e.
  Proof.
    destruct e, st; cbn [drop1 emap option_map]; try reflexivity.
    now rewrite dropped_at_pstate.
  Qed.
  Lemma bumpn_emap n (e : elem A') : bumpn n (emap fst e) = bumpn n e.
  Proof. destruct e; reflexivity. Qed.
  Lemma dropped_proj : forall (l : list (elem A')) st n,
    rdrop (option_map pstate st) n (map (emap fst) l) = gdrop st n l.
  Proof.
    induction l as [|e l IH]; intros st n; [reflexivity|].
    cbn [map dropped_from]. rewrite drop1_proj, bumpn_emap, (real (@sim_step)). cbn [fst].
    now rewrite IH.
  Qed.
  Lemma dropped_tag l : gdrop (Some init_state) 0%nat (tag 0 l) = dropped l.
  Proof.
    unfold dropped_indices. rewrite <- (real (@untag_tag) l 0%nat) at 2.
    rewrite <- dropped_proj. reflexivity.
  Qed.

  (** ** how one step changes the number of groups (emitted or pending) holding an index *)
  Notation N i done ws := (cnt i (grp_done done ++ grp_ws ws)).

  Lemma cnt_step D done s e s1 :
    GIv D done s -> contig size None (e_ws s) -> ok_elem (e_lw s) e ->
    fst (gstep (Some s) (tag1 (length D) e)) = Some s1 ->
    (forall i, (i < length D)%nat ->
       N i (done ++ snd (gstep (Some s) (tag1 (length D) e))) (e_ws s1) = N i done (e_ws s)) /\
    (forall v t, e = Tst v t ->
       N (length D) (done ++ snd (gstep (Some s) (tag1 (length D) e))) (e_ws s1) =
       length (filter (hit t) (alloc_of g0 size slide s t))).
  Proof.
    intros (HI & Hws & Hdn & _) Hg Hok E1.
    assert (HCI : CInv g0 size slide s) by (split; assumption).
    destruct HI as (Hc & Hwf & Hab).
    destruct e as [v|v t|w| | | ]; cbn [ok_elem] in Hok; [contradiction| | | | | ];
      cbn [tag1] in *.
    - (* data *)
      destruct (inst (@dropped_at_step) s (v, length D) t HCI Hok) as (Es & _).
      rewrite Es in E1. injection E1 as <-. cbn [e_ws].
      rewrite (et_data_emits_nothing g0 gp (@gout B) size slide), app_nil_r.
      destruct (inst (@alloc_of_facts) s t HCI Hok) as (new & L & Ea & _ & _ & _ & _ & H4 & _).
      split.
      + intros i Hi. rewrite !cnt_app. f_equal.
        rewrite (real (@cnt_feed_old)) by lia.
        now rewrite Ea, (real (@grp_ws_app)), cnt_app, (real (@cnt_fresh) i new H4), Nat.add_0_r.
      + intros v' t' [= <- <-]. rewrite cnt_app, (real (@cnt_done_new) D done Hdn).
        cbn [Nat.add]. apply (real (@cnt_feed_new)). rewrite Ea. apply Forall_app. split.
        * eapply Forall_impl; [|exact Hws]. now intros sl (_ & Hlt & _).
        * eapply Forall_impl; [|exact H4]. intros sl [-> _]. constructor.
    - (* watermark *)
      split; [|discriminate].
      cbn [et_step] in E1 |- *. destruct (fire_split (e_ws s) w) as [a b] eqn:EF.
      cbn [fst snd] in E1 |- *. injection E1 as <-. cbn [e_ws].
      destruct (inst (@fire_split_app) _ _ _ _ EF) as [E _].
      rewrite E in Hws. apply Forall_app in Hws. rewrite E.
      intros i Hi. rewrite (real (@grp_ws_app)), (real (@grp_done_app)), !cnt_app.
      rewrite (real (@cnt_results) D i a) by tauto. lia.
    - (* flush batch *)
      split; [|discriminate]. cbn [et_step fst snd] in E1 |- *. injection E1 as <-.
      intros i Hi. now rewrite app_nil_r.
    - (* terminate *)
      split; [|discriminate]. cbn [et_step fst snd] in E1 |- *. injection E1 as <-. cbn [e_ws].
      intros i Hi. rewrite (real (@grp_done_app)), !cnt_app.
      rewrite (real (@cnt_results) D i (e_ws s)) by assumption.
      cbn [grp_ws map cnt filter length]. lia.
    - (* flush and restart *)
      split; [|discriminate]. cbn [et_step fst snd] in E1 |- *. injection E1 as <-. cbn [e_ws].
      intros i Hi. rewrite (real (@grp_done_app)), !cnt_app.
      rewrite (real (@cnt_results) D i (e_ws s)) by assumption.
      cbn [grp_ws map cnt filter length]. lia.
  Qed.

  (** ** the invariant: an index is in no group iff it is in the class *)
  Definition DI (D : list (A * Z)) (dr : list nat) (done : list (wres B')) (s : @estate B') : Prop :=
    contig size None (e_ws s) /\ Forall (fun j => (j < length D)%nat) dr /\
    forall i, (i < length D)%nat ->
      if has i dr then N i done (e_ws s) = 0%nat else (1 <= N i done (e_ws s))%nat.

  Lemma drop_step D dr done s e s1 :
    GIv D done s -> DI D dr done s -> ok_elem (e_lw s) e ->
    fst (gstep (Some s) (tag1 (length D) e)) = Some s1 ->
    DI (D ++ tdata [e]) (dr ++ drop1 (Some s) (length D) (tag1 (length D) e))
       (done ++ snd (gstep (Some s) (tag1 (length D) e))) s1.
  Proof.
    intros HG (Hg & Hdr & Hcnt) Hok E1.
    destruct (cnt_step D done s e s1 HG Hg Hok E1) as [Hold Hnew].
    assert (HCI : CInv g0 size slide s) by (split; [apply HG|assumption]).
    split; [|split].
    - destruct (inst (@et_step_cinv) s (tag1 (length D) e) HCI) as (s' & E' & [_ Hg'] & _).
      + now apply (real (@ok_elem_tag1)).
      + rewrite E1 in E'. injection E' as <-. assumption.
    - apply Forall_app. split.
      + eapply Forall_impl; [|exact Hdr]. intros j Hj. cbn beta in Hj |- *. rewrite app_length. lia.
      + destruct e; cbn [tag1 drop1 tdata]; try constructor.
        destruct (dropped_at s t); constructor; [|constructor].
        rewrite app_length. cbn. lia.
    - intros i Hi. rewrite has_app.
      destruct (Nat.lt_ge_cases i (length D)) as [Hlt|Hge].
      + rewrite (Hold i Hlt).
        replace (has i (drop1 (Some s) (length D) (tag1 (length D) e))) with false.
        * rewrite orb_false_r. now apply Hcnt.
        * symmetry. destruct e; cbn [tag1 drop1]; try reflexivity.
          destruct (dropped_at s t); [|reflexivity].
          cbn [has existsb]. rewrite orb_false_r. apply Nat.eqb_neq. lia.
      + destruct e as [v|v t|w| | | ]; cbn [tdata] in Hi; rewrite ?app_nil_r in Hi; try lia.
        rewrite app_length in Hi. cbn [length] in Hi.
        assert (i = length D) by lia. subst i.
        rewrite (has_lt _ _ Hdr), orb_false_l, (Hnew v t eq_refl).
        cbn [ok_elem] in Hok.
        destruct (inst (@dropped_at_step) s (v, length D) t HCI Hok) as (_ & Hf & Ht).
        cbn [tag1 drop1]. destruct (dropped_at s t).
        * cbn [has existsb]. rewrite Nat.eqb_refl. cbn [orb].
          destruct Ht as [Ht _]. specialize (Ht eq_refl).
          now apply filter_none_length.
        * cbn [has existsb]. apply (real (@covered_hit)). now apply Hf.
  Qed.

  Lemma bumpn_tag1 n (e : elem A) : bumpn n (tag1 n e) = bump n e.
  Proof. destruct e; reflexivity. Qed.

  Lemma drop_run : forall l D dr done s s1,
    GIv D done s -> DI D dr done s -> in_contract (e_lw s) l ->
    fst (run_from GMm (Some s) (tag (length D) l)) = Some s1 ->
    DI (D ++ tdata l) (dr ++ gdrop (Some s) (length D) (tag (length D) l))
       (done ++ snd (run_from GMm (Some s) (tag (length D) l))) s1.
  Proof.
    induction l as [|e l IH]; intros D dr done s s1 HG HD HC E.
    - cbn [tag run_from fst snd tdata dropped_from] in *. injection E as <-.
      now rewrite !app_nil_r.
    - apply (real (@in_contract_cons)) in HC. destruct HC as [Hok HC].
      destruct (real (@ghost_step) D done s e HG Hok) as (s0 & E0 & HG0 & Elw).
      pose proof (drop_step D dr done s e s0 HG HD Hok E0) as HD0.
      cbn [tag dropped_from] in E |- *. rewrite run_from_cons_fst in E. rewrite run_from_cons_snd.
      assert (E0' : fst (mstep GMm (Some s) (tag1 (length D) e)) = Some s0) by exact E0.
      rewrite E0' in *. rewrite E0.
      change (snd (mstep GMm (Some s) (tag1 (length D) e)))
        with (snd (gstep (Some s) (tag1 (length D) e))).
      rewrite bumpn_tag1. rewrite (real (@bump_length)) in *.
      rewrite (real (@tdata_cons) e l), !app_assoc.
      apply IH; auto. now rewrite Elw.
  Qed.

  Lemma DI_init : DI [] [] [] init_state.
  Proof.
    split; [exact I|]. split; [constructor|]. cbn [length]. intros i Hi. lia.
  Qed.

  (** ** the results of one round as index groups, with the class *)
  Lemma round_idxs_class l e :
    (e = FAR \/ e = Terminate) -> in_contract None l ->
    exists idxs : list (list nat * Z),
      run RM (l ++ [e]) =
        map (fun ie => eres_of acc0 proc out (pick (tdata l) (fst ie)) (snd ie)) idxs /\
      Forall (group_ok size l) idxs /\
      forall i, (i < length (tdata l))%nat ->
        Z.of_nat (cnt i (map fst idxs)) <= nwin size slide /\
        if has i (dropped l) then cnt i (map fst idxs) = 0%nat
        else (1 <= cnt i (map fst idxs))%nat.
  Proof.
    intros He HC.
    destruct (real (@round_outputs) l e He HC) as (s1 & E1 & HG & Erun).
    pose proof (drop_run l [] [] [] init_state s1 (real (@GI_init)) DI_init HC E1) as HD.
    cbn [length app] in HD. rewrite dropped_tag in HD.
    set (outs1 := snd (run_from GMm (Some init_state) (tag 0 l))) in *.
    pose proof HG as (HI & Hws & Hdn & Hcnt). destruct HI as (_ & Hwf & _).
    destruct HD as (_ & _ & HD).
    set (outs := outs1 ++ results gout (e_ws s1)) in *.
    assert (Hok : Forall (gd_ok acc0 proc size (tdata l)) outs).
    { apply Forall_app. split; [assumption|]. now apply (real (@gd_ok_results)). }
    assert (Ec : forall i, cnt i (grp_done outs) = cnt i (grp_done outs1 ++ grp_ws (e_ws s1))).
    { intros i. unfold outs.
      now rewrite (real (@grp_done_app)), !cnt_app, (real (@cnt_results) (tdata l) i (e_ws s1)). }
    exists (map to_idx outs).
    assert (Eg : map fst (map to_idx outs) = grp_done outs).
    { rewrite map_map. reflexivity. }
    rewrite Eg. split; [|split].
    - rewrite Erun, map_map. apply map_ext_in. intros r Hr.
      rewrite Forall_forall in Hok. now apply (real (@pres_to_idx)), Hok.
    - rewrite Forall_map. eapply Forall_impl; [|exact Hok].
      intros r Hr. now apply (real (@gd_ok_group)).
    - intros i Hi. rewrite Ec. split; [now apply Hcnt|now apply HD].
  Qed.

  (** X3.  Every in-contract arrival order, sliding or tumbling: a position of the class is
      in no result; every other position is in at least one and at most ceil(size/slide). *)
  Theorem et_sliding_cover_outside_class : forall l,
    in_contract None l ->
    exists idxs : list (list nat * Z),
      run RM (l ++ [FAR]) =
        map (fun ie => eres_of acc0 proc out (pick (tdata l) (fst ie)) (snd ie)) idxs /\
      Forall (group_ok size l) idxs /\
      forall i, (i < length (tdata l))%nat ->
        (In i (dropped l) -> cnt i (map fst idxs) = 0%nat) /\
        (~ In i (dropped l) ->
           (1 <= cnt i (map fst idxs))%nat /\
           Z.of_nat (cnt i (map fst idxs)) <= (size + slide - 1) / slide).
  Proof.
    intros l HC.
    destruct (round_idxs_class l FAR (or_introl eq_refl) HC) as (idxs & H1 & H2 & H3).
    exists idxs. split; [assumption|]. split; [assumption|].
    intros i Hi. destruct (H3 i Hi) as [Hup Hcl].
    destruct (has i (dropped l)) eqn:Eh.
    - apply has_In in Eh. split; [intros _; assumption|]. intros Hn. contradiction.
    - apply has_false_iff in Eh. split; [intros Hin; contradiction|]. intros _. now split.
  Qed.

  (** ** tumbling windows *)
  Lemma concat_perm_filter gl n (keep : nat -> bool) :
    (forall g, In g gl -> NoDup g /\ Forall (fun i => (i < n)%nat) g) ->
    (forall i, (i < n)%nat -> cnt i gl = if keep i then 1%nat else 0%nat) ->
    Permutation (concat gl) (filter keep (seq 0 n)).
  Proof.
    intros Hg Hc. apply NoDup_Permutation.
    - apply (real (@concat_nodup)); [intros g Hin; now apply Hg|].
      intros i. destruct (Nat.lt_ge_cases i n) as [Hi|Hi].
      + rewrite (Hc i Hi). destruct (keep i); lia.
      + rewrite cnt_zero; [lia|]. rewrite Forall_forall. intros g Hin.
        destruct (Hg g Hin) as [_ Hlt]. destruct (has i g) eqn:Eh; [|reflexivity].
        apply has_In in Eh. rewrite Forall_forall in Hlt. specialize (Hlt _ Eh). lia.
    - apply NoDup_filter, seq_NoDup.
    - intros x. rewrite filter_In, in_seq. split.
      + intros Hin. apply in_concat in Hin. destruct Hin as (g & Hgin & Hx).
        destruct (Hg g Hgin) as [_ Hlt]. rewrite Forall_forall in Hlt. specialize (Hlt _ Hx).
        split; [lia|].
        pose proof (real (@cnt_pos) x g gl Hgin (proj2 (has_In x g) Hx)) as Hp.
        rewrite (Hc x Hlt) in Hp. destruct (keep x); [reflexivity|lia].
      + intros [[_ Hx] Hk]. cbn in Hx.
        destruct (real (@cnt_pos_inv) x gl) as (g & Hgin & Hi); [rewrite (Hc x Hx), Hk; lia|].
        apply in_concat. now exists g.
  Qed.

  (** X4.  Tumbling windows, every in-contract arrival order: the results are interval
      groups whose concatenation is a permutation of exactly the elements outside the
      class — each of them in exactly one result, and nothing else. *)
  Theorem et_tumbling_exactly_once_outside_class : forall l,
    slide = size -> in_contract None l ->
    exists groups : list (list (A * Z) * Z),
      run RM (l ++ [FAR]) = map (fun ge => eres_of acc0 proc out (fst ge) (snd ge)) groups /\
      Forall (fun ge => in_interval size (fst ge) (snd ge)) groups /\
      Permutation (concat (map fst groups)) (kept_data acc0 proc out size slide l).
  Proof.
    intros l Heq HC.
    destruct (round_idxs_class l FAR (or_introl eq_refl) HC) as (idxs & Erun & Hok & Hcnt).
    exists (map (fun ie => (pick (tdata l) (fst ie), snd ie)) idxs). split; [|split].
    - rewrite Erun, map_map. reflexivity.
    - rewrite Forall_map. eapply Forall_impl; [|exact Hok]. now intros ie (H & _).
    - rewrite map_map. cbn [fst].
      rewrite <- (map_map fst (pick (tdata l))), <- (real (@pick_concat)).
      unfold kept_data, kept_indices, pick. apply Permutation_flat_map.
      apply concat_perm_filter.
      + intros g Hin. apply in_map_iff in Hin. destruct Hin as (ie & <- & Hin).
        rewrite Forall_forall in Hok. destruct (Hok ie Hin) as (_ & Hs & Hlt).
        split; [now apply (real (@ssorted_nodup))|assumption].
      + intros i Hi. destruct (Hcnt i Hi) as [H1 H2].
        assert (nwin size slide = 1) as E1.
        { unfold nwin. subst slide. symmetry. apply Z.div_unique with (r := size - 1); lia. }
        rewrite E1 in H1. destruct (has i (dropped l)); cbn [negb]; lia.
  Qed.

  (** ** the in-order theorems are corollaries *)
  Lemma kept_all l : dropped l = [] -> kept_data acc0 proc out size slide l = tdata l.
  Proof.
    intros E. unfold kept_data, kept_indices. rewrite E.
    replace (filter (fun i : nat => negb (has i [])) (seq 0 (length (tdata l))))
      with (seq 0 (length (tdata l))); [apply pick_seq|].
    induction (seq 0 (length (tdata l))) as [|x xs IH]; [reflexivity|].
    cbn [filter has existsb negb]. f_equal. exact IH.
  Qed.

  Corollary et_tumbling_exactly_once_inorder' : forall l,
    slide = size -> in_contract None l -> wm_sorted None l -> ts_sorted None l ->
    exists groups : list (list (A * Z) * Z),
      run RM (l ++ [FAR]) = map (fun ge => eres_of acc0 proc out (fst ge) (snd ge)) groups /\
      Forall (fun ge => in_interval size (fst ge) (snd ge)) groups /\
      Permutation (concat (map fst groups)) (tdata l).
  Proof.
    intros l Heq HC HW HT.
    destruct (et_tumbling_exactly_once_outside_class l Heq HC) as (groups & H1 & H2 & H3).
    exists groups. split; [assumption|]. split; [assumption|].
    now rewrite (kept_all l (real (@et_inorder_nothing_dropped) l HC HW HT)) in H3.
  Qed.

  Corollary et_sliding_cover_inorder' : forall l,
    in_contract None l -> wm_sorted None l -> ts_sorted None l ->
    exists idxs : list (list nat * Z),
      run RM (l ++ [FAR]) =
        map (fun ie => eres_of acc0 proc out (pick (tdata l) (fst ie)) (snd ie)) idxs /\
      Forall (group_ok size l) idxs /\
      forall i, (i < length (tdata l))%nat ->
        (1 <= cnt i (map fst idxs))%nat /\
        Z.of_nat (cnt i (map fst idxs)) <= (size + slide - 1) / slide.
  Proof.
    intros l HC HW HT.
    destruct (et_sliding_cover_outside_class l HC) as (idxs & H1 & H2 & H3).
    exists idxs. split; [assumption|]. split; [assumption|].
    intros i Hi. apply (H3 i Hi).
    rewrite (real (@et_inorder_nothing_dropped) l HC HW HT). intros [].
  Qed.
End CoverGhost.

(** * Witnesses *)
Notation droppedZ size slide :=
  (dropped_indices (@nil Z) (fun b x => b ++ [x]) (fun b : list Z => b) size slide).

(** F4 is in the class: position 1 (timestamp 5) arrives below the key's only slot [10,20) *)
Example dropped_F4 : droppedZ 10 10 [Tst 1 10; Tst 2 5; Wm 30; FAR] = [1%nat].
Proof. vm_compute. reflexivity. Qed.

(** out of order but not below the oldest slot: not in the class, and covered *)
Example out_of_order_covered :
  let l := [Tst 1 10; Tst 2 25; Tst 3 12; Wm 40] in
  droppedZ 10 10 l = [] /\
  run (EMZ 10 10) (l ++ [FAR]) = [([1; 3], Some 20); ([2], Some 30)].
Proof. split; vm_compute; reflexivity. Qed.

(** the loss under a regressing watermark ([et_cover_needs_monotone_watermarks]) is the same
    class: after `Wm 11` fired [0,10) the oldest slot is [2,12), and 1 < 2 *)
Example dropped_wm_regress :
  droppedZ 10 2 [Tst 1 0; Tst 2 1; Wm 11; Wm 0; Tst 3 1] = [2%nat].
Proof. vm_compute. reflexivity. Qed.

(** sliding windows: the dropped element would belong to windows that were never allocated *)
Example dropped_sliding :
  let l := [Tst 1 10; Tst 2 9; Tst 3 11; Wm 50] in
  droppedZ 10 5 l = [1%nat] /\
  run (EMZ 10 5) (l ++ [FAR]) = [([1; 3], Some 20)].
Proof. split; vm_compute; reflexivity. Qed.

Print Assumptions dropped_at_spec.
Print Assumptions et_inorder_nothing_dropped.
Print Assumptions et_sliding_cover_outside_class.
Print Assumptions et_tumbling_exactly_once_outside_class.
Print Assumptions et_tumbling_exactly_once_inorder'.
Print Assumptions et_sliding_cover_inorder'.

(** * C10 — Loops compute the sequential fixed point; each round sees the previous state
    Statements only; proofs in Proofs/PipeProofs.v (round-by-round semantics of loops over
    distributed bodies) and Proofs/LoopProofs.v (leader and state-publication protocol).
    Sequential meaning (Model/Pipe.v): state_0 = initial; round k runs the body on the
    (replay: original; iterate: previous round's) input with state_(k-1) visible;
    state_k = state_(k-1) + sum of the body's output values (global fold of the local folds);
    stop exactly when the condition fails or k reaches the bound; at least one round (N1). *)
From Noir Require Import Model.Pipe Model.PipeDist Model.Loop Proofs.PipeProofs Proofs.LoopProofs.
From Coq Require Import Permutation.
Open Scope Z_scope.

(** replay: whatever the distribution of the body in every round, the loop result is the
    sequential fixed point *)
Theorem C10_replay : forall n limit body d fuel k st res, dloop n limit body d fuel k st res ->
  forall xs, Permutation (flat d) xs -> res = ev_replay fuel k n limit st body xs.
Proof. exact dloop_sound_replay. Qed.

(** iterate: round k's output is round k+1's input; the final state and the last round's
    elements are the sequential ones *)
Theorem C10_iterate : forall n limit body d fuel k st res, diter n limit body d fuel k st res ->
  forall xs, Permutation (flat d) xs ->
    fst res = fst (ev_iterate fuel k n limit st body xs) /\
    Permutation (flat (snd res)) (snd (ev_iterate fuel k n limit st body xs)).
Proof. exact diter_sound. Qed.

(** nested loops restart cleanly for each outer round: the nested operator is a function of
    its input only (its own state starts from the initial value every time) *)
Theorem C10_nested_restarts : forall st n limit body xs,
  ev1 st (ONested n limit body) xs = [(0, seq_loop (Z.to_nat (Z.max n 1)) 0 n limit 0 body xs)].
Proof. exact ev1_nested. Qed.

(** loops inside whole pipelines: C01_transparency covers PReplay / PIterate / ONested, and
    bodies that join with a side input defined outside the loop ([OJoinSide] / [OJoinSideL]: every round may
    see another distribution of the cached side input) *)
Theorem C10_in_pipelines : forall (p : pipe) (d : dist), dexec p d -> Permutation (flat d) (denote p).
Proof. exact dexec_sound. Qed.

(** ** The leader: next state = global fold of that round's deltas, whatever their arrival
    order; the loop stops at the first round K >= 1 where the condition is false or the bound
    is reached, then restarts from the initial state (nested loops restart cleanly) *)
Theorem C10_leader : forall (St D : Type) (global : St -> D -> St) (cond : St -> bool) (init : St) (max : nat),
  (forall s a b, global (global s a) b = global (global s b) a) ->
  forall (K : nat) (crounds rounds : list (list D)),
  Forall2 (@Permutation D) crounds rounds -> (1 <= K <= length crounds)%nat ->
  (forall j, (1 <= j < K)%nat -> cond (state_at St D global init crounds j) = true /\ (j < max)%nat) ->
  cond (state_at St D global init crounds K) = false \/ (max <= K)%nat ->
  lrun St D global cond init max (linit St init) rounds =
  (map (fun j => (true, state_at St D global init crounds j)) (seq 1 (K - 1)) ++
     (false, init) :: fst (lrun St D global cond init max (linit St init) (skipn K crounds)),
   state_at St D global init crounds K :: snd (lrun St D global cond init max (linit St init) (skipn K crounds))).
Proof. exact leader_spec. Qed.

(** ** State publication on a host (generation counter + barrier): whenever a body replica
    reads the shared state while processing round r, no write is in progress and the cell
    holds exactly the state produced by round r-1 — never an older or a newer one — for any
    number of loop heads and body replicas on the host. The guards of the model's feedback
    rule are the engine's causality (the leader answers round k only after every body-end
    replica delivered its delta of round k); Condvar/Barrier are trusted primitives. *)
Theorem C10_state_read_is_previous : forall (H B : nat) (s : host) (b r : nat),
  hreach H B s -> body_reads B s b r -> writing s = false /\ S (cell s) = r.
Proof. exact state_read_is_previous. Qed.
Theorem C10_unlock_is_locked : forall (H B : nat) (s : host) (r : nat),
  hreach H B s -> lead s = HPost r -> Nat.odd (gen s) = true.
Proof. exact unlock_is_locked. Qed.

(** N1: a bound of 0 still runs one round *)
Example C10_bound_zero_runs_once :
  denote (PReplay (PSrc true [(0, 3); (1, 4)]) 0 1000 [OAddState]) = [(0, 7)].
Proof. vm_compute. reflexivity. Qed.
Example C10_state_feeds_next_round :
  denote (PReplay (PSrc true [(0, 1); (0, 2)]) 3 1000 [OAddState]) = [(0, 39)].
Proof. vm_compute. reflexivity. Qed.

(** a side input joined inside the body is the same in every round; the left side moves with
    the state *)
Example C10_side_input_in_loop :
  denote (PReplay (PSrc true [(1, 5); (3, 7)]) 2 1000000 [OAddState; OJoinSide JvInner LoHash [(1, 10)]])
  = [(0, 131697)].
Proof. vm_compute. reflexivity. Qed.

Print Assumptions C10_leader.
Print Assumptions C10_state_read_is_previous.
Print Assumptions C10_replay.
Print Assumptions C10_iterate.

(** * C10 — Loops compute the sequential fixed point; each round sees the previous state
    Statements only; proofs in Proofs/PipeProofs.v (round-by-round semantics of loops over
    distributed bodies) and Proofs/LoopProofs.v (leader and state-publication protocol).
    Sequential meaning (Model/Pipe.v): state_0 = initial; round k runs the body on the
    (replay: original; iterate: previous round's) input with state_(k-1) visible;
    state_k = state_(k-1) + sum of the body's output values (global fold of the local folds);
    stop exactly when the condition fails or k reaches the bound; at least one round (N1). *)
From Noir Require Import Model.Pipe Model.PipeDist Proofs.PipeProofs.
Open Scope Z_scope.

(** replay: whatever the distribution of the body in every round, the loop result is the
    sequential fixed point *)
Theorem C10_replay : forall n limit body d fuel k st res, dloop n limit body d fuel k st res ->
  forall xs, Permutation (flat d) xs -> res = ev_replay fuel k n limit st body xs.
Proof. exact dloop_sound_replay. Qed.

(** iterate: round k's output is round k+1's input; the final state and the last round's
    elements are the sequential ones *)
Theorem C10_iterate : forall n limit body d fuel k st res, diter n limit body d fuel k st res ->
  forall xs, Permutation (flat d) xs ->
    fst res = fst (ev_iterate fuel k n limit st body xs) /\
    Permutation (flat (snd res)) (snd (ev_iterate fuel k n limit st body xs)).
Proof. exact diter_sound. Qed.

(** nested loops restart cleanly for each outer round: the nested operator is a function of
    its input only (its own state starts from the initial value every time) *)
Theorem C10_nested_restarts : forall st n limit body xs,
  ev1 st (ONested n limit body) xs = [(0, seq_loop (Z.to_nat (Z.max n 1)) 0 n limit 0 body xs)].
Proof. exact ev1_nested. Qed.

(** loops inside whole pipelines: C01_transparency covers PReplay / PIterate / ONested *)
Theorem C10_in_pipelines : forall (p : pipe) (d : dist), dexec p d -> Permutation (flat d) (denote p).
Proof. exact dexec_sound. Qed.

(** N1: a bound of 0 still runs one round *)
Example C10_bound_zero_runs_once :
  denote (PReplay (PSrc true [(0, 3); (1, 4)]) 0 1000 [OAddState]) = [(0, 7)].
Proof. vm_compute. reflexivity. Qed.
Example C10_state_feeds_next_round :
  denote (PReplay (PSrc true [(0, 1); (0, 2)]) 3 1000 [OAddState]) = [(0, 39)].
Proof. vm_compute. reflexivity. Qed.

Print Assumptions C10_replay.
Print Assumptions C10_iterate.

(** * C02 — Every link delivers each element exactly once and in sending order
    Statements only; proofs in Proofs/LinkProofs.v. Models: Model/End.v (`End` + `Batcher`:
    the producer side of every link), Model/Framing.v (wire format of multiplexed TCP links),
    Model/Start.v (consumer side; sequential-link identity in C16). In-memory channels and
    TCP connections are assumed reliable FIFO byte/message streams (trusted base). *)
From Noir Require Import Base.Elem Model.End Model.Framing Proofs.LinkProofs.
From Coq Require Import NArith.
Open Scope nat_scope.

(** Batcher: whatever the batch mode and WHATEVER THE CLOCK ([clock k] is the reading at the
    k-th enqueue; only the adaptive mode looks at it), the concatenation of the batches sent
    plus the buffer is exactly the enqueued sequence — nothing lost, duplicated, reordered
    or altered. A batcher state is (buffer, last_send). *)
Theorem C02_batcher_sequence : forall {A} (clock : nat -> N) (m : batch_mode) (k : nat)
    (bs : list (elem A) * N) (l : list (elem A)) (bs' : list (elem A) * N) sent,
  mode_ok m (fst bs) -> brun clock m k bs l = (bs', sent) -> concat sent ++ fst bs' = fst bs ++ l.
Proof. exact @batcher_sequence. Qed.
Theorem C02_batches_nonempty_and_bounded : forall {A} (clock : nat -> N) (n k : nat)
    (bs : list (elem A) * N) (l : list (elem A)) (bs' : list (elem A) * N) sent,
  1 <= n -> length (fst bs) < n -> brun clock (BFixed n) k bs l = (bs', sent) ->
  Forall (fun b => length b <= n) sent /\ length (fst bs') < n.
Proof. exact @batcher_fixed_bound. Qed.
(** the engine's default mode, `Adaptive(n, d)`: every batch has between 1 and n elements,
    for every clock — one batcher, and every batch sent by an `End` *)
Theorem C02_adaptive_batches_bounded : forall {A} (clock : nat -> N) (n : nat) (d : N) (k : nat)
    (bs : list (elem A) * N) (l : list (elem A)) (bs' : list (elem A) * N) sent,
  1 <= n -> length (fst bs) < n -> brun clock (BAdaptive n d) k bs l = (bs', sent) ->
  Forall (fun b => 1 <= length b <= n) sent /\ length (fst bs') < n.
Proof. exact @batcher_adaptive_bound. Qed.
Theorem C02_adaptive_batch_bound : forall {A} (clock : nat -> N) (t0 : N) (s : strategy) (n : nat) (d : N)
    (blocks : list nat) (l : list (elem A * N * N)),
  1 <= n ->
  Forall (fun '(b, r, batch) => 1 <= length batch <= n)
         (run (end_machine clock t0 s (BAdaptive n d) blocks) l).
Proof. exact @adaptive_batch_bound. Qed.

(** End: every receiving replica of every downstream block gets exactly the sequence of
    elements addressed to it ([addressed]: the strategy's choice for data, every replica for
    control), in emission order, for every strategy, batch mode, number of downstream
    blocks and EVERY clock ([t0]: reading at setup, [clock k]: reading while the k-th pulled
    element is processed); everything is delivered at the latest at Terminate. *)
Theorem C02_link_sequence : forall {A} (clock : nat -> N) (t0 : N) (s : strategy) (m : batch_mode)
    (blocks : list nat) (l : list (elem A * N * N)) (hash rnd : N) (b r : nat),
  b < length blocks -> r < nth b blocks 0 ->
  (forall x, In x l -> fst (fst x) <> Terminate) ->
  match m with BFixed n => 1 <= n | BAdaptive n _ => 1 <= n | BSingle => True end ->
  received (run (end_machine clock t0 s m blocks) (l ++ [(Terminate, hash, rnd)])) b r
  = map (fun x => fst (fst x)) (filter (addressed s blocks b r) l) ++ [Terminate].
Proof. exact @end_link_sequence. Qed.
(** in particular in the adaptive mode: the clock influences only WHERE the batches are cut,
    never their content or order — two runs under arbitrary clocks (and adaptive parameters)
    deliver the same sequence to every receiver *)
Theorem C02_adaptive_link_sequence : forall {A} (clock : nat -> N) (t0 : N) (s : strategy) (n : nat) (d : N)
    (blocks : list nat) (l : list (elem A * N * N)) (hash rnd : N) (b r : nat),
  b < length blocks -> r < nth b blocks 0 ->
  received (run (end_machine clock t0 s (BAdaptive n d) blocks) (l ++ [(Terminate, hash, rnd)])) b r
  = map (fun x => fst (fst x)) (filter (addressed s blocks b r) l) ++ [Terminate].
Proof. exact @adaptive_link_sequence. Qed.
Theorem C02_adaptive_clock_irrelevant : forall {A} (clock1 : nat -> N) (t01 : N) (clock2 : nat -> N) (t02 : N)
    (s : strategy) (n1 : nat) (d1 : N) (n2 : nat) (d2 : N)
    (blocks : list nat) (l : list (elem A * N * N)) (hash rnd : N) (b r : nat),
  b < length blocks -> r < nth b blocks 0 ->
  received (run (end_machine clock1 t01 s (BAdaptive n1 d1) blocks) (l ++ [(Terminate, hash, rnd)])) b r
  = received (run (end_machine clock2 t02 s (BAdaptive n2 d2) blocks) (l ++ [(Terminate, hash, rnd)])) b r.
Proof. exact @adaptive_clock_irrelevant. Qed.

(** Wire format: the frames of several replicas sharing one connection are decoded back to
    exactly the sequence sent — destination replica, sender block and body of each — for all
    payload sizes below 2^32 (larger ones hit the `try_into().unwrap()` panic). *)
Theorem C02_wire_round_trip : forall (msgs : list (Z * Z * list Z)) (rest : list Z) fuel,
  length msgs < fuel -> length rest < HEADER_SIZE ->
  Forall (fun '(r, b, body) => (0 <= r < 2 ^ 64)%Z /\ (0 <= b < 2 ^ 64)%Z /\ (Z.of_nat (length body) < 2 ^ 32)%Z) msgs ->
  decode_stream fuel (concat (map (fun '(r, b, body) => frame r b body) msgs) ++ rest)
  = Some (map (fun '(r, b, body) =>
            ({| h_size := Z.of_nat (length body); h_replica := r; h_block := b |}, body)) msgs).
Proof. exact decode_encode_stream. Qed.
Theorem C02_header_size : forall h, length (encode_header h) = HEADER_SIZE.
Proof. exact encode_header_length. Qed.

Example C02_example :
  received (run (end_machine (fun _ => 0%N) 0%N SGroupBy (BFixed 2) [2])
             [(Item 10%Z, 4%N, 0%N); (Item 11%Z, 5%N, 0%N); (Wm 3%Z, 0%N, 0%N); (Item 12%Z, 6%N, 0%N);
              (FAR, 0%N, 0%N); (@Terminate Z, 0%N, 0%N)]) 0 0
  = [Item 10%Z; Wm 3%Z; Item 12%Z; FAR; Terminate].
Proof. vm_compute. reflexivity. Qed.

(** `Adaptive(3, 10ms)`, batchers created at 0 ms, the five elements pulled at 0, 5, 20, 21
    and 40 ms, one receiver. By the rules of `Batcher::enqueue`:
      k=0 (0 ms)  push 1: 1 < 3, 0 - 0 = 0 is not > 10          -> buffered
      k=1 (5 ms)  push 2: 2 < 3, 5 - 0 = 5 is not > 10          -> buffered
      k=2 (20 ms) push 3: 3 >= 3                                 -> batch [1;2;3], last_send := 20
      k=3 (21 ms) push 4: 1 < 3, 21 - 20 = 1 is not > 10        -> buffered
      k=4 (40 ms) push 5: 2 < 3, but 40 - 20 = 20 > 10          -> batch [4;5], last_send := 40
    whereas `Fixed(3)` still holds [4;5] back. *)
Definition ex_clock (k : nat) : N := nth k [0; 5; 20; 21; 40]%N 0%N.
Definition ex_items : list (elem Z * N * N) :=
  [(Item 1%Z, 0%N, 0%N); (Item 2%Z, 0%N, 0%N); (Item 3%Z, 0%N, 0%N); (Item 4%Z, 0%N, 0%N); (Item 5%Z, 0%N, 0%N)].
Example C02_adaptive_example :
  run (end_machine ex_clock 0%N SOnlyOne (BAdaptive 3 10) [1]) ex_items
  = [(0, 0, [Item 1%Z; Item 2%Z; Item 3%Z]); (0, 0, [Item 4%Z; Item 5%Z])] /\
  run (end_machine ex_clock 0%N SOnlyOne (BFixed 3) [1]) ex_items
  = [(0, 0, [Item 1%Z; Item 2%Z; Item 3%Z])].
Proof. vm_compute. split; reflexivity. Qed.

Print Assumptions C02_batcher_sequence.
Print Assumptions C02_link_sequence.
Print Assumptions C02_adaptive_batch_bound.
Print Assumptions C02_adaptive_batches_bounded.
Print Assumptions C02_adaptive_link_sequence.
Print Assumptions C02_adaptive_clock_irrelevant.
Print Assumptions C02_wire_round_trip.

(** * C02 — Every link delivers each element exactly once and in sending order
    Statements only; proofs in Proofs/LinkProofs.v. Models: Model/End.v (`End` + `Batcher`:
    the producer side of every link), Model/Framing.v (wire format of multiplexed TCP links),
    Model/Start.v (consumer side; sequential-link identity in C16). In-memory channels and
    TCP connections are assumed reliable FIFO byte/message streams (trusted base). *)
From Noir Require Import Base.Elem Model.End Model.Framing Proofs.LinkProofs.
From Coq Require Import NArith.
Open Scope nat_scope.

(** Batcher: whatever the batch mode, the concatenation of the batches sent plus the buffer
    is exactly the enqueued sequence — nothing lost, duplicated, reordered or altered. *)
Theorem C02_batcher_sequence : forall {A} (m : batch_mode) (buf l buf' : list (elem A)) sent,
  mode_ok m buf -> brun m buf l = (buf', sent) -> concat sent ++ buf' = buf ++ l.
Proof. exact @batcher_sequence. Qed.
Theorem C02_batches_nonempty_and_bounded : forall {A} (n : nat) (buf l buf' : list (elem A)) sent,
  1 <= n -> length buf < n -> brun (BFixed n) buf l = (buf', sent) ->
  Forall (fun b => length b <= n) sent /\ length buf' < n.
Proof. exact @batcher_fixed_bound. Qed.

(** End: every receiving replica of every downstream block gets exactly the sequence of
    elements addressed to it ([addressed]: the strategy's choice for data, every replica for
    control), in emission order, for every strategy, batch mode and number of downstream
    blocks; everything is delivered at the latest at Terminate. *)
Theorem C02_link_sequence : forall {A} (s : strategy) (m : batch_mode) (blocks : list nat)
    (l : list (elem A * N * N)) (hash rnd : N) (b r : nat),
  b < length blocks -> r < nth b blocks 0 ->
  (forall x, In x l -> fst (fst x) <> Terminate) ->
  match m with BFixed n => 1 <= n | BSingle => True end ->
  received (run (end_machine s m blocks) (l ++ [(Terminate, hash, rnd)])) b r
  = map (fun x => fst (fst x)) (filter (addressed s blocks b r) l) ++ [Terminate].
Proof. exact @end_link_sequence. Qed.

(** Wire format: the frames of several replicas sharing one connection are decoded back to
    exactly the sequence sent — destination replica, sender block and body of each — for all
    payload sizes below 2^32 (larger ones hit the `try_into().unwrap()` panic). *)
Theorem C02_wire_round_trip : forall (msgs : list (Z * Z * list Z)) (rest : list Z) fuel,
  length msgs < fuel -> length rest < HEADER_SIZE ->
  Forall (fun '(r, b, body) => (0 <= r < 2 ^ 64)%Z /\ (0 <= b < 2 ^ 64)%Z /\ (Z.of_nat (length body) < 2 ^ 32)%Z) msgs ->
  decode_stream fuel (concat (map (fun '(r, b, body) => frame r b body) msgs) ++ rest)
  = Some (map (fun '(r, b, body) =>
            ({| h_size := Z.of_nat (length body); h_replica := r; h_block := b |}, body)) msgs).
Proof. exact decode_encode_stream. Qed.
Theorem C02_header_size : forall h, length (encode_header h) = HEADER_SIZE.
Proof. exact encode_header_length. Qed.

Example C02_example :
  received (run (end_machine SGroupBy (BFixed 2) [2])
             [(Item 10%Z, 4%N, 0%N); (Item 11%Z, 5%N, 0%N); (Wm 3%Z, 0%N, 0%N); (Item 12%Z, 6%N, 0%N);
              (FAR, 0%N, 0%N); (@Terminate Z, 0%N, 0%N)]) 0 0
  = [Item 10%Z; Wm 3%Z; Item 12%Z; FAR; Terminate].
Proof. vm_compute. reflexivity. Qed.

Print Assumptions C02_batcher_sequence.
Print Assumptions C02_link_sequence.
Print Assumptions C02_wire_round_trip.

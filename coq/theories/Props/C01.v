(** * C01 — Deployment transparency: a job's result equals its sequential meaning
    Statements only; proofs in Proofs/PipeProofs.v. Model/Pipe.v: the pipeline language and its
    sequential meaning [denote]; Model/PipeDist.v: the distributed meaning [dexec] — streams as
    lists of partitions (any number of replicas, any partitioning of the sources), operators
    partition-wise, every block boundary an exchange constrained only by what the connection
    kind guarantees (multiset preserved: C02; group-by keeps equal keys together: C03; arrival
    order arbitrary: C05), aggregations single- or two-phase, joins local on co-partitioned or
    broadcast inputs, loops round by round with a global state.
    What [dexec] abstracts (threads, channels, sockets, batching) is tied to the engine by the
    component theorems C02/C03/C05/C07/C08/C10 and, end to end, by running random pipelines
    on the real engine under many deployments and batch modes (correspondence of this check). *)
From Noir Require Import Model.Pipe Model.PipeDist Proofs.PipeProofs.
Open Scope Z_scope.

(** For every pipeline of the algebra (map / filter / flat_map, shuffles, replication
    changes, global and keyed aggregations in single- and two-phase form, joins inner / left /
    outer with hash or broadcast shipping, joins of a stream with a constant side input on either
    side (also inside loop bodies), merge, split diamonds closed by merge or join,
    replay and iterate loops with state-dependent bodies, nested loops) and EVERY distributed
    execution the semantics admits — whatever the parallelism, the partitioning and the order
    in which elements cross the exchanges — the multiset delivered to the sink equals the
    sequential evaluation of the same pipeline. *)
Theorem C01_transparency : forall (p : pipe) (d : dist), dexec p d -> Permutation (flat d) (denote p).
Proof. exact dexec_sound. Qed.

(** the ingredients, reusable per operator class *)
Theorem C01_stateless_partitionwise : forall st o d, stateless o = true ->
  flat (map (ev1 st o) d) = ev1 st o (flat d).
Proof. exact local_flat. Qed.
Theorem C01_keyed_over_key_partition : forall f d, key_partitioned d ->
  Permutation (flat (map (per_key f) d)) (per_key f (flat d)).
Proof. exact per_key_partitioned. Qed.
Theorem C01_join_copartitioned : forall v dl dr, length dl = length dr ->
  key_partitioned (map (fun lr => fst lr ++ snd lr) (combine dl dr)) ->
  Permutation (flat (map (fun lr => ev_join v (fst lr) (snd lr)) (combine dl dr))) (ev_join v (flat dl) (flat dr)).
Proof. exact join_partitioned. Qed.
Theorem C01_join_broadcast : forall v dl rs, v <> JvOuter ->
  flat (map (fun lp => ev_join v lp rs) dl) = ev_join v (flat dl) rs.
Proof. exact join_broadcast. Qed.
Theorem C01_order_insensitive : forall o st xs ys, Permutation xs ys -> Permutation (ev1 st o xs) (ev1 st o ys).
Proof. exact ev1_perm. Qed.

(** Non-vacuity: a concrete distributed execution (two source partitions, exchange by key,
    two-phase fold) derivable in the semantics *)
Example C01_example : dexec (POp (POp (PSrc true [(1, 5); (2, 7); (1, 1)]) OGroupBySum) OFoldAssocSum) [[(0, 13)]].
Proof. exact dexec_example. Qed.

(** Count windows and zip consume ARRIVAL ORDER: they are a function of the input only
    behind single-producer links (C12, C09, C16); they are therefore not part of the
    order-insensitive algebra above (two producers of one key race, by design). *)

Print Assumptions C01_transparency.

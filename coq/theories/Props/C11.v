(** * C11 — Side inputs of a loop are replayed completely and identically every round
    Statements only; proofs in Proofs/BinaryStartProofs.v. Model: Model/BinaryStart.v
    (`BinaryStartReceiver::select`, `SideReceiver`, `process_side`, cache) under the generic
    `Start::next`. The property is the decidable predicate [c11_pred] (Proofs/BinSpec.v):
    as many rounds as the loop side ran, then Terminate and nothing else; in EVERY round the
    whole side input, exactly once, in its original order, and each end-of-side marker
    exactly once; the loop side's own data all there, in order.
    History: on the pinned tree the statement was false as soon as the loop side had two
    replicas (finding F10: the first Terminate batch consumed `first_message` and the cache
    was replayed once more after the final FlushAndRestart); repaired by a `fix:` commit,
    after which the general theorem below holds. *)
From Noir Require Import Base.Elem Model.Start Model.BinaryStart Corr.BinCorr
  Proofs.BinSpec Proofs.BinaryStartProofs.
Open Scope Z_scope.

(** The side input (left, [nl] replicas, any batching: empty, one batch, many batches) is
    cached during the first round — in ANY interleaving with the first round of the [nr]
    loop-side replicas — and presented completely, identically and exactly once in every one
    of the [1 + length later] rounds, each later round being ANY interleaving of the loop-side
    replicas' batches; the loop terminates (the Terminates of the loop side in any order) and
    the end of the outside stream is propagated once ([Terminate] once, last). *)
Theorem C11_replay_general : forall (nl nr : nat) (round1 : list del) (later : list (list del)) (terms : list nat),
  (1 <= nl)%nat -> (1 <= nr)%nat -> c11_shape_n nl nr round1 later terms = true ->
  c11_pred nl nr true false (c11_deliveries_n round1 later terms)
           (brun nl nr true false (c11_deliveries_n round1 later terms)) = true.
Proof. exact c11_replay_general. Qed.

(** the one-loop-replica instance in the original formulation *)
Theorem C11_replay : forall (nl : nat) (round1 : list del) (later : list (list (list (elem Z)))),
  (1 <= nl)%nat -> c11_shape nl round1 later = true ->
  c11_pred nl 1 true false (c11_deliveries round1 later)
           (brun nl 1 true false (c11_deliveries round1 later)) = true.
Proof. exact c11_replay. Qed.

(** regression witness for F10: two loop-side replicas, Terminates arriving one by one *)
Theorem C11_two_loop_replicas_witness :
  let ds : list del := [DL 0%nat [Item 1; FAR]; DL 0%nat [Terminate]; DR 0%nat [Item 10; FAR];
                        DR 1%nat [FAR]; DR 0%nat [Terminate]; DR 1%nat [Terminate]] in
  c11_pred 1 2 true false ds (brun 1 2 true false ds) = true.
Proof. exact c11_two_loop_replicas_witness. Qed.

(** Non-vacuity: two side replicas, interleaved first round, three loop rounds *)
Example C11_example :
  let r1 : list del := [DL 0%nat [Item 1; Wm 3]; DR 0%nat [Item 10; FAR]; DL 1%nat [FAR];
                        DL 0%nat [Item 2; FAR]; DL 1%nat [Terminate]; DL 0%nat [Terminate]] in
  let later : list (list (list (elem Z))) := [[[Item 11]; [Item 12; FAR]]; [[FAR]]] in
  c11_shape 2 r1 later = true /\
  brun 2 1 true false (c11_deliveries r1 later) =
    [Item (BL 1); Item (BR 10); Item BREnd; Item (BL 2); Item BLEnd; FAR;
     Item (BR 11); Item (BL 1); Item (BL 2); Item BLEnd; Item (BR 12); Item BREnd; FAR;
     Item BREnd; Item (BL 1); Item (BL 2); Item BLEnd; FAR; Terminate].
Proof. split; vm_compute; reflexivity. Qed.

Print Assumptions C11_replay_general.
Print Assumptions C11_replay.

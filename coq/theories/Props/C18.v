(** * C18 — Batching never withholds data: bounded delay if adaptive, flushed at round end
    Statements only; proofs in Proofs/LinkProofs.v (the producer's `End` + `Batcher`s) and
    Proofs/IdleProofs.v (idle behaviour of `Start::next` and `ChannelSource::next`, linear
    pipelines). The real-time bound itself (k x max_delay plus processing) is a consequence
    stated in comments and observed by the timing part of the check; the theorems are about
    the logic that makes it hold. That the batch mode never changes a job's result is C01. *)
From Noir Require Import Base.Elem Model.End Model.Idle Proofs.LinkProofs Proofs.IdleProofs.
From Coq Require Import NArith.
Open Scope nat_scope.

(** With ANY batch mode and ANY clock ([t0]: the reading when the batchers are created,
    [clock k]: the reading while `End` processes the k-th element it pulls) every buffered
    element is delivered at the latest when its iteration ends ... *)
Theorem C18_round_end_flushes : forall {A} (clock : nat -> N) (t0 : N) (s : strategy) (m : batch_mode)
    (blocks : list nat) (l : list (elem A * N * N)) (hash rnd : N) (b r : nat),
  b < length blocks -> r < nth b blocks 0 ->
  (forall x, In x l -> fst (fst x) <> Terminate) ->
  match m with BFixed n => 1 <= n | BAdaptive n _ => 1 <= n | BSingle => True end ->
  received (run (end_machine clock t0 s m blocks) (l ++ [(FAR, hash, rnd)])) b r
  = map (fun x => fst (fst x)) (filter (addressed s blocks b r) l) ++ [FAR].
Proof. exact @end_round_flushed. Qed.

(** ... and whenever the block signals idleness (a FlushBatch reaches its End) *)
Theorem C18_idle_flushes : forall {A} (clock : nat -> N) (t0 : N) (s : strategy) (m : batch_mode)
    (blocks : list nat) (l : list (elem A * N * N)) (hash rnd : N) (b r : nat),
  b < length blocks -> r < nth b blocks 0 ->
  (forall x, In x l -> fst (fst x) <> Terminate) ->
  match m with BFixed n => 1 <= n | BAdaptive n _ => 1 <= n | BSingle => True end ->
  received (run (end_machine clock t0 s m blocks) (l ++ [(FlushBatch, hash, rnd)])) b r
  = map (fun x => fst (fst x)) (filter (addressed s blocks b r) l).
Proof. exact @end_flushbatch_flushed. Qed.

(** The adaptive mode `Adaptive(n, d)` (the engine's default). [end_state .. l] is the state
    of `End` after pulling [l]; [buffer_of] / [last_send_of] are the `buffer` / `last_send`
    of the batcher towards replica r of block b. The buffer is exactly what was addressed to
    the receiver and not yet sent ... *)
Theorem C18_buffer_is_pending : forall {A} (clock : nat -> N) (t0 : N) (s : strategy) (m : batch_mode)
    (blocks : list nat) (l : list (elem A * N * N)) (b r : nat),
  b < length blocks -> r < nth b blocks 0 ->
  received (run (end_machine clock t0 s m blocks) l) b r ++ buffer_of (end_state clock t0 s m blocks l) b r
  = map (fun x => fst (fst x)) (filter (addressed s blocks b r) l).
Proof. exact @end_buffer_pending. Qed.

(** ... `last_send` is the reading at setup until a batch is sent to the receiver, then the
    reading of the last step that sent it one (an EMPTY flush leaves it alone) ... *)
Theorem C18_last_send_init : forall {A} (clock : nat -> N) (t0 : N) (s : strategy) (m : batch_mode)
    (blocks : list nat) (b r : nat),
  b < length blocks -> r < nth b blocks 0 ->
  last_send_of (@end_state A clock t0 s m blocks []) b r = t0.
Proof. exact @last_send_init. Qed.
Theorem C18_last_send_step : forall {A} (clock : nat -> N) (t0 : N) (s : strategy) (m : batch_mode)
    (blocks : list nat) (l : list (elem A * N * N)) (x : elem A * N * N) (b r : nat),
  m <> BSingle -> b < length blocks -> r < nth b blocks 0 ->
  last_send_of (end_state clock t0 s m blocks (l ++ [x])) b r
  = match received (snd (end_step clock s m blocks (end_state clock t0 s m blocks l) x)) b r with
    | [] => last_send_of (end_state clock t0 s m blocks l) b r
    | _ => clock (length l)
    end.
Proof. exact @last_send_step. Qed.

(** ... and an element (data or watermark) enqueued towards a receiver more than [d] after
    that receiver's `last_send` is sent at once, with everything buffered before it: the
    buffer is empty afterwards, the receiver has got everything addressed to it so far.
    Hence under a steady input no element waits in a batcher for more than [d] plus the
    time to the next element for the same receiver; when the input stops, the idle flush
    (C18_idle_flushes, C18_start_flushes_before_blocking) takes over. *)
Theorem C18_adaptive_late_flush : forall {A} (clock : nat -> N) (t0 : N) (s : strategy) (n : nat) (d : N)
    (blocks : list nat) (l : list (elem A * N * N)) (x : elem A * N * N) (b r : nat),
  b < length blocks -> r < nth b blocks 0 ->
  addressed s blocks b r x = true ->
  (d < clock (length l) - last_send_of (end_state clock t0 s (BAdaptive n d) blocks l) b r)%N ->
  buffer_of (end_state clock t0 s (BAdaptive n d) blocks (l ++ [x])) b r = [] /\
  received (run (end_machine clock t0 s (BAdaptive n d) blocks) (l ++ [x])) b r
  = map (fun x => fst (fst x)) (filter (addressed s blocks b r) (l ++ [x])).
Proof. exact @adaptive_late_flush. Qed.

(** every adaptive batch has between 1 and n elements, whatever the clock *)
Theorem C18_adaptive_batch_bound : forall {A} (clock : nat -> N) (t0 : N) (s : strategy) (n : nat) (d : N)
    (blocks : list nat) (l : list (elem A * N * N)),
  1 <= n ->
  Forall (fun '(b, r, batch) => 1 <= length batch <= n)
         (run (end_machine clock t0 s (BAdaptive n d) blocks) l).
Proof. exact @adaptive_batch_bound. Qed.

(** `Adaptive(3, 10ms)`, batchers created at 0 ms, five elements pulled at 0, 5, 20, 21, 40 ms.
    (1) a non-empty flush at FlushBatch RESETS `last_send` (one receiver):
      k=0 (0 ms)  push 1: 0 - 0 = 0, not > 10                   -> buffered
      k=1 (5 ms)  push 2: 5 - 0 = 5, not > 10                   -> buffered
      k=2 (20 ms) FlushBatch                                     -> batch [1;2], last_send := 20
      k=3 (21 ms) push 3: 21 - 20 = 1, not > 10                 -> buffered
                  (with the old last_send = 0, 21 > 10 would have sent [3] alone)
      k=4 (40 ms) push 4: 2 < 3 but 40 - 20 = 20 > 10           -> batch [3;4], last_send := 40 *)
Definition ex_clock (k : nat) : N := nth k [0; 5; 20; 21; 40]%N 0%N.
Example C18_flush_resets_last_send :
  let input := [(Item 1%Z, 0%N, 0%N); (Item 2%Z, 0%N, 0%N); (FlushBatch, 0%N, 0%N);
                (Item 3%Z, 0%N, 0%N); (Item 4%Z, 0%N, 0%N)] in
  run (end_machine ex_clock 0%N SOnlyOne (BAdaptive 3 10) [1]) input
  = [(0, 0, [Item 1%Z; Item 2%Z]); (0, 0, [Item 3%Z; Item 4%Z])] /\
  last_send_of (end_state ex_clock 0%N SOnlyOne (BAdaptive 3 10) [1] (firstn 3 input)) 0 0 = 20%N /\
  buffer_of (end_state ex_clock 0%N SOnlyOne (BAdaptive 3 10) [1] (firstn 4 input)) 0 0 = [Item 3%Z].
Proof. vm_compute. repeat split; reflexivity. Qed.

(** (2) an EMPTY flush does NOT touch `last_send` (group-by towards two replicas; hash 0 goes
    to replica 0, hash 1 to replica 1):
      k=0 (0 ms)  push 1 to r0: 0 - 0 = 0                        -> buffered in r0
      k=1 (5 ms)  push 2 to r0: 5 - 0 = 5                        -> buffered in r0
      k=2 (20 ms) FlushBatch: r0 sends [1;2], last_send(r0) := 20; r1 is EMPTY: nothing is
                  sent and last_send(r1) stays 0
      k=3 (21 ms) push 3 to r1: 1 < 3 but 21 - 0 = 21 > 10       -> batch [3] at once, last_send(r1) := 21
                  (had the empty flush set last_send(r1) to 20, 21 - 20 = 1: 3 would be withheld)
      k=4 (40 ms) push 4 to r0: 40 - 20 = 20 > 10                -> batch [4], last_send(r0) := 40 *)
Example C18_empty_flush_keeps_last_send :
  let input := [(Item 1%Z, 0%N, 0%N); (Item 2%Z, 0%N, 0%N); (FlushBatch, 0%N, 0%N);
                (Item 3%Z, 1%N, 0%N); (Item 4%Z, 0%N, 0%N)] in
  run (end_machine ex_clock 0%N SGroupBy (BAdaptive 3 10) [2]) input
  = [(0, 0, [Item 1%Z; Item 2%Z]); (0, 1, [Item 3%Z]); (0, 0, [Item 4%Z])] /\
  last_send_of (end_state ex_clock 0%N SGroupBy (BAdaptive 3 10) [2] (firstn 3 input)) 0 0 = 20%N /\
  last_send_of (end_state ex_clock 0%N SGroupBy (BAdaptive 3 10) [2] (firstn 3 input)) 0 1 = 0%N /\
  last_send_of (end_state ex_clock 0%N SGroupBy (BAdaptive 3 10) [2] input) 0 1 = 21%N.
Proof. vm_compute. repeat split; reflexivity. Qed.

(** With adaptive batching a block input performs an UNTIMED blocking receive only after it
    has emitted FlushBatch since the last batch it received (so its batchers are empty
    whenever it blocks indefinitely) ... *)
Theorem C18_start_flushes_before_blocking : forall {A} (evs : list (@start_ev A)) (pre post : list (@act A)),
  start_run (start_init true) evs = pre ++ Block :: post ->
  exists a b, pre = a ++ OutFlush :: b /\ Forall quiet b.
Proof. exact @start_flush_before_block. Qed.

(** ... and so does the streaming (channel) source *)
Theorem C18_source_flushes_before_blocking : forall {A} (evs : list (@src_ev A)) (pre post : list (@act A)),
  src_run src_init evs = pre ++ Block :: post ->
  exists a x b, pre = a ++ x :: b /\ is_flush x /\ Forall quiet b.
Proof. exact @source_flush_before_block. Qed.

(** In a pipeline of k block boundaries, once input stops every element handed to the source
    reaches the last block, in order, with at most one expired timed wait per boundary. *)
Theorem C18_quiescent_delivered : forall {A} (k : nat), 1 <= k ->
  forall (xs : list A) (ls : list label) (s : pstate),
  pexec k (pstart xs) ls s -> quiescent k s ->
  held s k = xs /\ (forall i, i < k -> held s i = []) /\ (forall i, i <= k -> inq s i = []).
Proof. exact @quiescent_delivered. Qed.
Theorem C18_one_timeout_per_boundary : forall {A} (k : nat), 1 <= k ->
  forall (s : @pstate A) (ls : list label) (s' : pstate) (j : nat), 1 <= j ->
  pexec k s ls s' -> upstream_settled s j -> timeouts j ls <= 1.
Proof. exact @one_timeout_per_boundary. Qed.

Print Assumptions C18_round_end_flushes.
Print Assumptions C18_idle_flushes.
Print Assumptions C18_buffer_is_pending.
Print Assumptions C18_last_send_step.
Print Assumptions C18_adaptive_late_flush.
Print Assumptions C18_adaptive_batch_bound.
Print Assumptions C18_start_flushes_before_blocking.
Print Assumptions C18_quiescent_delivered.

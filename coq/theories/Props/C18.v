(** * C18 — Batching never withholds data: bounded delay if adaptive, flushed at round end
    Statements only; proofs in Proofs/LinkProofs.v (the producer's `End` + `Batcher`s) and
    Proofs/IdleProofs.v (idle behaviour of `Start::next` and `ChannelSource::next`, linear
    pipelines). The real-time bound itself (k x max_delay plus processing) is a consequence
    stated in comments and observed by the timing part of the check; the theorems are about
    the logic that makes it hold. That the batch mode never changes a job's result is C01. *)
From Noir Require Import Base.Elem Model.End Model.Idle Proofs.LinkProofs Proofs.IdleProofs.
From Coq Require Import NArith.
Open Scope nat_scope.

(** With ANY batch mode every buffered element is delivered at the latest when its
    iteration ends ... *)
Theorem C18_round_end_flushes : forall {A} (s : strategy) (m : batch_mode) (blocks : list nat)
    (l : list (elem A * N * N)) (hash rnd : N) (b r : nat),
  b < length blocks -> r < nth b blocks 0 ->
  (forall x, In x l -> fst (fst x) <> Terminate) ->
  match m with BFixed n => 1 <= n | BSingle => True end ->
  received (run (end_machine s m blocks) (l ++ [(FAR, hash, rnd)])) b r
  = map (fun x => fst (fst x)) (filter (addressed s blocks b r) l) ++ [FAR].
Proof. exact @end_round_flushed. Qed.

(** ... and whenever the block signals idleness (a FlushBatch reaches its End) *)
Theorem C18_idle_flushes : forall {A} (s : strategy) (m : batch_mode) (blocks : list nat)
    (l : list (elem A * N * N)) (hash rnd : N) (b r : nat),
  b < length blocks -> r < nth b blocks 0 ->
  (forall x, In x l -> fst (fst x) <> Terminate) ->
  match m with BFixed n => 1 <= n | BSingle => True end ->
  received (run (end_machine s m blocks) (l ++ [(FlushBatch, hash, rnd)])) b r
  = map (fun x => fst (fst x)) (filter (addressed s blocks b r) l).
Proof. exact @end_flushbatch_flushed. Qed.

(** With adaptive batching a block input performs an UNTIMED blocking receive only after it
    has emitted FlushBatch since the last batch it received (so its batchers are empty
    whenever it blocks indefinitely) ... *)
Theorem C18_start_flushes_before_blocking : forall {A} (evs : list (@start_ev A)) (pre post : list (@act A)),
  start_run (start_init true) evs = pre ++ Block :: post ->
  exists a b, pre = a ++ OutFlush :: b /\ Forall quiet b.
Proof. exact @start_flush_before_block. Qed.

(** ... and so does the streaming (channel) source *)
Theorem C18_source_flushes_before_blocking : forall {A} (evs : list (@src_ev A)) (pre post : list (@act A)),
  src_run src_init evs = pre ++ Block :: post ->
  exists a x b, pre = a ++ x :: b /\ is_flush x /\ Forall quiet b.
Proof. exact @source_flush_before_block. Qed.

(** In a pipeline of k block boundaries, once input stops every element handed to the source
    reaches the last block, in order, with at most one expired timed wait per boundary. *)
Theorem C18_quiescent_delivered : forall {A} (k : nat), 1 <= k ->
  forall (xs : list A) (ls : list label) (s : pstate),
  pexec k (pstart xs) ls s -> quiescent k s ->
  held s k = xs /\ (forall i, i < k -> held s i = []) /\ (forall i, i <= k -> inq s i = []).
Proof. exact @quiescent_delivered. Qed.
Theorem C18_one_timeout_per_boundary : forall {A} (k : nat), 1 <= k ->
  forall (s : @pstate A) (ls : list label) (s' : pstate) (j : nat), 1 <= j ->
  pexec k s ls s' -> upstream_settled s j -> timeouts j ls <= 1.
Proof. exact @one_timeout_per_boundary. Qed.

Print Assumptions C18_round_end_flushes.
Print Assumptions C18_start_flushes_before_blocking.
Print Assumptions C18_quiescent_delivered.

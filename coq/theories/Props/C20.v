(** * C20 — Fail-stop: a panicking user function is never masked by a partial result
    Statements only; proofs in Proofs/CrashProofs.v. Model: Model/Crash.v — an acyclic execution
    graph of replicas (`Running | Done | Crashed`), per-link "Terminate delivered" flags, and
    the rules of the engine: a user panic kills the thread and drops its channel endpoints
    (worker.rs); a replica finishes only after Terminate from every producer and delivers
    Terminate on every outgoing link (`Start::next`, `End::next`, `Batcher::end`); a receive
    fails — and the receiver panics (`expect("Network receiver failed")`) — when Terminate is
    missing from a producer and every holder of a sender handle of that channel is gone; a
    send to a crashed consumer fails (`send(..).unwrap()`); a sink publishes only when it
    finishes (`CollectVecSink` on Terminate); `execute_blocking` unwraps every join.
    Reading of "no sink publishes": sinks DOWNSTREAM of the failed replica (the only place a
    partial result could mask the failure) never publish; a component of the job that is not
    downstream may finish normally, while `execute_blocking` still fails on every host that
    runs the failed replica or anything downstream of it. Unwinding and `join` are Rust's. *)
From Noir Require Import Model.Crash Proofs.CrashProofs.
From Coq Require Import List.

Theorem C20_fail_stop : forall (n : nat) (link keeps : nat -> nat -> bool) (blk : nat -> nat) (faulty : nat -> bool),
  (forall p c, link p c = true -> keeps p c = true) ->
  (forall p c, keeps p c = true -> p < c < n) ->          (* acyclic, finite *)
  forall (s : state) (r : nat),
  steps n link keeps blk faulty init s -> final n link keeps blk faulty s ->   (* a maximal execution *)
  died_in_user_code s r ->
  (* all other workers unwind instead of blocking forever *)
  (forall x, x < n -> st s x = Done \/ st s x = Crashed) /\
  (* everything downstream of the failed replica failed *)
  (forall d, downstream link r d -> st s d = Crashed) /\
  (* no downstream sink published, at any point of the run *)
  (forall s1 d, steps n link keeps blk faulty init s1 -> steps n link keeps blk faulty s1 s ->
                downstream link r d -> ~ published s1 d) /\
  (* execute_blocking fails on every host running the failed replica or anything downstream *)
  (forall host d, In d host -> d = r \/ downstream link r d -> host_fails s host = true).
Proof. exact CrashProofs.C20_fail_stop. Qed.

(** every execution is finite: maximal executions exist and end in a final state *)
Theorem C20_executions_finite : forall (n : nat) (link keeps : nat -> nat -> bool) (blk : nat -> nat) (faulty : nat -> bool),
  (forall p c, link p c = true -> keeps p c = true) ->
  (forall p c, keeps p c = true -> p < c < n) ->
  well_founded (fun s' s => step n link keeps blk faulty s s').
Proof. exact step_terminates. Qed.

Print Assumptions C20_fail_stop.
Print Assumptions C20_executions_finite.

(** * C17 — Watermark progress: the minimum over active upstream replicas is forwarded
    Statements only; proofs in Proofs/StartProofs.v. Model: Model/Start.v (`WatermarkFrontier`,
    `Start::next`); specification: [ispec_machine] in Proofs/StartSpec.v — at every arrival,
    if the minimum over the replicas that have not ended their round of their latest
    watermark ([active_min]) has changed, a watermark with the new minimum is emitted
    before the element itself is forwarded or the round is closed. *)
From Noir Require Import Base.Elem Model.Start Proofs.StartSpec Proofs.StartProofs.
Open Scope Z_scope.

(** The full statement of the property on the model: the real Start behaves like the
    specification machine on every arrival sequence.

      Definition C17_progress := forall A n (l : list (nat * elem A)),
        (1 <= n)%nat -> arrivals_ok n l ->
        run (start_machine A n) l = run (ispec_machine A n) l.

    It is FALSE of the faithful model (and of the implementation): known finding F1. *)
Theorem C17_progress_refuted :
  exists (l : list (nat * elem Z)),
    arrivals_ok 2 l /\ run (start_machine Z 2) l <> run (ispec_machine Z 2) l.
Proof. exact start_ideal_refuted. Qed.

(** Proved form: outside the known class — no FlushAndRestart arrival raises the active
    minimum while other replicas are still active ([far_raises_min], decidable) — the real
    Start emits exactly the watermarks of the specification, at exactly the same points of
    the stream, for any number of upstream replicas and any arrival interleaving
    (replicas ending early or having no data at all included). *)
Theorem C17_progress_outside_known_class :
  forall (A : Type) (n : nat) (l : list (nat * elem A)),
    (1 <= n)%nat -> arrivals_ok n l -> far_raises_min n l = false ->
    run (start_machine A n) l = run (ispec_machine A n) l.
Proof. exact start_eq_ideal. Qed.

(** Non-vacuity: an arrival sequence in the proved class on which watermarks are released
    incrementally, and the F1 history in the known class. *)
Example C17_example_progress :
  far_raises_min 2 [(0%nat, Tst 1 10); (0%nat, Wm 20); (1%nat, Wm 100); (1%nat, Wm 110); (0%nat, Wm 120);
                    (0%nat, FAR); (1%nat, FAR); (0%nat, @Terminate Z); (1%nat, Terminate)] = false /\
  run (start_machine Z 2) [(0%nat, Tst 1 10); (0%nat, Wm 20); (1%nat, Wm 100); (1%nat, Wm 110); (0%nat, Wm 120);
                           (0%nat, FAR); (1%nat, FAR); (0%nat, Terminate); (1%nat, Terminate)]
  = [Tst 1 10; Wm 20; Wm 110; FAR; Terminate].
Proof. split; vm_compute; reflexivity. Qed.
Example C17_example_known_class :
  far_raises_min 2 [(0%nat, Wm 20); (1%nat, Wm 100); (0%nat, @FAR Z); (1%nat, Tst 5 105); (1%nat, FAR)] = true /\
  run (start_machine Z 2) [(0%nat, Wm 20); (1%nat, Wm 100); (0%nat, FAR); (1%nat, Tst 5 105); (1%nat, FAR)]
    = [Wm 20; Tst 5 105; FAR] /\
  run (ispec_machine Z 2) [(0%nat, Wm 20); (1%nat, Wm 100); (0%nat, FAR); (1%nat, Tst 5 105); (1%nat, FAR)]
    = [Wm 20; Wm 100; Tst 5 105; FAR].
Proof. repeat split; vm_compute; reflexivity. Qed.

Print Assumptions C17_progress_refuted.
Print Assumptions C17_progress_outside_known_class.

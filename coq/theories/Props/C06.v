(** * C06 — Watermark safety: no element at or below an already emitted watermark
    Statements only. [wm_safe]: within an iteration, after Watermark(t) no element with
    timestamp <= t and no watermark <= t. Proofs: Proofs/StartProofs.v, Proofs/OpsProofs.v,
    Proofs/FanProofs.v. *)
From Noir Require Import Base.Elem Model.Start Model.Ops Model.WinCount Model.WindowOp Model.WinEvent
  Model.BinaryStart Model.Fan
  Proofs.StartSpec Proofs.WinCountSpec Proofs.OpsSpec
  Proofs.StartProofs Proofs.OpsProofs Proofs.FanProofs Model.Ops2 Proofs.Ops2Proofs.
Open Scope Z_scope.

(** A block fed by n replicas forwards only what is safe for all of them: for ANY arrival
    interleaving (round-synchronised) of streams that each respect the contract, the sequence
    handed to the operators respects it (the forwarded watermark never exceeds the minimum of
    the latest watermarks of the replicas that are still active). *)
Theorem C06_block_input : forall (A : Type) (n : nat) (l : list (nat * elem A)),
  (1 <= n)%nat -> arrivals_ok n l ->
  (forall s, (s < n)%nat -> wm_safe (from_sender s l) = true) ->
  (forall s, (s < n)%nat -> wf (from_sender s l) = true) ->
  round_sync n l = true ->
  wm_safe (run (start_machine A n) l) = true.
Proof. exact start_wm_safe. Qed.

(** every operator preserves the contract on its output *)
Theorem C06_map : forall {A B} (f : A -> B) l, wm_safe l = true -> wm_safe (run (map_machine f) l) = true.
Proof. exact @map_wm_safe. Qed.
Theorem C06_filter : forall {A} (p : A -> bool) l, wm_safe l = true -> wm_safe (run (filter_machine p) l) = true.
Proof. exact @filter_wm_safe. Qed.
Theorem C06_flat_map : forall {A B} (g : A -> list B) l, wm_safe l = true -> wm_safe (run (flat_map_machine g) l) = true.
Proof. exact @flat_map_wm_safe. Qed.
Theorem C06_fold : forall {A O} (init : O) (f : O -> A -> O) l, wm_safe l = true -> wm_safe (run (fold_machine init f) l) = true.
Proof. exact @fold_wm_safe. Qed.
Theorem C06_keyed_fold : forall {A O} (init : O) (f : O -> A -> O) l, wm_safe l = true -> wm_safe (run (kfold_machine init f) l) = true.
Proof. exact @kfold_wm_safe. Qed.
Theorem C06_reorder : forall {A} (l : list (elem A)), wm_safe l = true -> wm_safe (run reorder_machine l) = true.
Proof. exact @reorder_wm_safe. Qed.
Theorem C06_zip : forall {A B} (l : list (elem (bin A B))), wm_safe l = true -> wm_safe (run zip_machine l) = true.
Proof. exact @zip_wm_safe. Qed.
Theorem C06_merge : forall {A} (l : list (elem (bin A A))), wm_safe l = true -> wm_safe (run merge_machine l) = true.
Proof. exact @merge_wm_safe. Qed.
Theorem C06_event_time_window : forall {A B C} (acc0 : B) (proc : B -> A -> B) (out : B -> C) size slide,
  0 < slide -> slide <= size -> forall l : list (elem (Z * A)), wm_safe l = true ->
  wm_safe (run (wop_machine (et_mgr acc0 proc out size slide)) l) = true.
Proof. exact @et_wop_wm_safe. Qed.
Theorem C06_count_window_exact : forall {A B C} (acc0 : B) (proc : B -> A -> B) (out : B -> C) size slide
    (l : list (elem (Z * A))), only_tst l -> wm_safe l = true ->
  wm_safe (run (wop_machine (wc_mgr acc0 proc out size slide true)) l) = true.
Proof. exact @wc_wop_wm_safe_exact. Qed.
(** every element-wise API operator (filter_map, flatten, inspect, rich_map, rich_flat_map,
    rich_filter_map, plain or keyed: instances of [sflat_machine]) preserves the contract *)
Theorem C06_elementwise : forall {S A B} (f : S -> A -> S * list B) (s0 : S) l,
  wm_safe l = true -> wm_safe (run (sflat_machine f s0) l) = true.
Proof. exact @sflat_wm_safe. Qed.
(** add_timestamps CREATES the watermarks from user functions: with timestamps increasing
    strictly within each iteration and the generator "timestamp minus a fixed lag, or nothing"
    its output respects the contract; the monotonicity is the user's obligation
    ([C06_add_timestamps_needs_monotone]: the operator does not enforce it). *)
Theorem C06_add_timestamps : forall {A} (tg : A -> Z) (wg : A -> Z -> option Z) (d : Z),
  0 <= d -> (forall v t w, wg v t = Some w -> w = t - d) ->
  forall l, no_ts l -> inc_from tg None l = true ->
  wm_safe (run (add_ts_machine tg wg) l) = true.
Proof. exact @add_ts_wm_safe. Qed.
Theorem C06_add_timestamps_needs_monotone :
  wm_safe (run (add_ts_machine (fun v : Z => v) (fun _ t => Some t)) [Item 5; Item 3]) = false.
Proof. exact add_ts_unsafe_when_not_increasing. Qed.
Example C06_add_timestamps_nonvacuous :
  no_ts ([Item 1; Item 4; FAR; Item 2; Terminate] : list (elem Z)) /\
  (inc_from (fun v : Z => v) None [Item 1; Item 4; FAR; Item 2; Terminate] = true).
Proof. split; [|reflexivity]. intros e [<-|[<-|[<-|[<-|[<-|[]]]]]]; exact I. Qed.
Theorem C06_drop_timestamps : forall {A} (l : list (elem A)), wm_safe (run drop_ts_machine l) = true.
Proof. exact @drop_ts_wm_safe. Qed.
Theorem C06_chain : forall {A B C} (m1 : machine (elem A) (elem B)) (m2 : machine (elem B) (elem C)),
  (forall l, wm_safe l = true -> wm_safe (run m1 l) = true) -> (forall l, wm_safe l = true -> wm_safe (run m2 l) = true) ->
  forall l, wm_safe l = true -> wm_safe (run (compose m1 m2) l) = true.
Proof. exact @compose_wm_safe. Qed.

(** The full statement "every operator preserves the contract" is FALSE for count windows
    in non-exact mode (known finding F6): the partial group flushed at the end of the
    iteration is stamped with the maximum timestamp of its elements although a larger
    watermark has already been forwarded. *)
Theorem C06_count_window_nonexact_refuted :
  wm_safe (run (wop_machine (wc_mgr ([] : list Z) (fun b x => b ++ [x]) (fun b => b) 3 3 false))
               [Tst (0, 1) 1; Tst (0, 2) 2; Wm 5; FAR]) = false.
Proof. exact wc_nonexact_wm_unsafe. Qed.

Print Assumptions C06_block_input.
Print Assumptions C06_event_time_window.
Print Assumptions C06_reorder.
Print Assumptions C06_elementwise.
Print Assumptions C06_add_timestamps.

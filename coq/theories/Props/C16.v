(** * C16 — Sequential paths preserve order; reorder() sorts by timestamp without loss
    Statements only; proofs in Proofs/OpsProofs.v and Proofs/SeqPathProofs.v.
    Models: Model/Start.v (consumer side of a link), Model/Ops.v (operator chains, Reorder). *)
From Noir Require Import Base.Elem Model.Start Model.Ops Proofs.StartSpec Proofs.WinCountSpec
  Proofs.OpsSpec Proofs.OpsProofs Proofs.SeqPathProofs Model.Ops2 Proofs.Ops2Proofs Corr.ZooCorr Proofs.ZooProofs.
Open Scope Z_scope.

(** A single producer replica's stream, cut into batches in ANY way (fixed 1..n, adaptive,
    single: every batch mode is such a cutting), reaches the operators behind the consumer's
    Start unchanged and in order: every element, every watermark, one FAR per round,
    Terminate once and last. *)
Theorem C16_sequential_link : forall {A} (l : list (elem A)) (bs : list (list (elem A))),
  concat bs = l -> wf l = true -> wm_safe l = true ->
  (forall e, In e l -> e <> FlushBatch) -> (forall t, In (Wm t) l -> t < TS_MAX) ->
  run (start_machine A 1) (flatten_batches (map (fun b => (0%nat, b)) bs)) = l.
Proof. exact @seq_path_identity. Qed.

(** Inside an operator chain elements are handed on one at a time: a chain is the
    composition of its operators' element-wise semantics. *)
Theorem C16_chain_is_composition : forall {I M O} (m1 : machine I M) (m2 : machine M O) (l : list I),
  run (compose m1 m2) l = run m2 (run m1 l).
Proof. exact @run_compose. Qed.

(** reorder(): all timestamped elements leave in non-decreasing timestamp order ... *)
Theorem C16_reorder_sorted : forall {A} (l : list (elem A)), wm_safe l = true ->
  ts_nondecreasing None (run reorder_machine l) = true.
Proof. exact @reorder_sorted_strong. Qed.

(** ... nothing is lost or duplicated within a round ... *)
Theorem C16_reorder_permutation : forall {A} (l : list (elem A)), no_end l ->
  Permutation (tdata_of (run reorder_machine (l ++ [FAR]))) (tdata_of l).
Proof. exact @reorder_perm. Qed.

(** ... an element is released only once a watermark (or the end of the round) covers it ... *)
Theorem C16_reorder_released_when_covered : forall {A} (l : list (elem A)),
  covered [] (run reorder_machine l) = true.
Proof. exact @reorder_release_covered. Qed.

(** ... and elements with equal timestamps keep their arrival order. *)
Theorem C16_reorder_stable : forall {A} (l : list (A * Z)) (t : Z),
  filter (fun x => snd x =? t) (rsort l) = filter (fun x => snd x =? t) l.
Proof. exact @rsort_stable. Qed.

(** Every element-wise operator of the API (filter_map, flatten, inspect, rich_map,
    rich_flat_map, rich_filter_map, keyed flat_map / filter_map / flatten ... — all instances
    of [sflat_machine], Model/Ops2.v) behaves like the iterator adaptor of the same name: the
    values that leave are the sequential scan of the closure over the values that enter, in
    arrival order, whatever control elements are interleaved and however many rounds pass. *)
Theorem C16_elementwise_is_iterator_chain : forall {S A B} (f : S -> A -> S * list B) (s0 : S) (l : list (elem A)),
  payloads (run (sflat_machine f s0) l) = sscan f s0 (payloads l).
Proof. exact @sflat_payloads. Qed.
Theorem C16_filter_map : forall {A B} (g : A -> option B) (l : list (elem A)),
  payloads (run (filter_map_machine g) l) = flat_map (fun v => olist (g v)) (payloads l).
Proof. exact @filter_map_payloads. Qed.
Theorem C16_flatten : forall {B} (l : list (elem (list B))),
  payloads (run flatten_machine l) = concat (payloads l).
Proof. exact @flatten_payloads. Qed.
Theorem C16_inspect_identity : forall {A} (l : list (elem A)), run inspect_machine l = l.
Proof. exact @inspect_identity. Qed.
(** keyed stateful operators: the outputs of key k are the scan of the closure over k's
    values only — the states of two keys never mix *)
Theorem C16_keyed_elementwise_per_key : forall {S A B} (f : S -> Z -> A -> S * list B) (s0 : S)
    (l : list (elem (Z * A))) (k : Z),
  vals_of k (payloads (run (keyed_sflat_machine f s0) l))
  = sscan (fun s v => f s k v) s0 (vals_of k (payloads l)).
Proof. exact @keyed_sflat_payloads_per_key. Qed.
(** add_timestamps / drop_timestamps keep every value in place; add_timestamps stamps each
    with the user's timestamp (input without timestamps: the operator panics otherwise) *)
Theorem C16_add_timestamps : forall {A} (tg : A -> Z) (wg : A -> Z -> option Z) (l : list (elem A)),
  no_ts l ->
  payloads (run (add_ts_machine tg wg) l) = payloads l /\
  tdata_of (run (add_ts_machine tg wg) l) = map (fun v => (v, tg v)) (payloads l).
Proof. intros A tg wg l H. split; [exact (add_ts_payloads tg wg l H)|exact (add_ts_stamps tg wg l H)]. Qed.
Theorem C16_drop_timestamps : forall {A} (l : list (elem A)),
  payloads (run drop_ts_machine l) = payloads l /\ no_ts (run drop_ts_machine l).
Proof. intros A l. split; [exact (drop_ts_payloads l)|exact (drop_ts_no_ts l)]. Qed.
(** The chains of the correspondence check ("operator zoo"): the model the implementation is
    compared with element by element ([zoo_machine], a composition of push machines) and the
    oracle its values are compared with ([zoo_spec], plain list functions) agree for EVERY
    chain without add_timestamps and every input. *)
Theorem C16_zoo_model_is_iterator_chain : forall (ops : list zop) (l : list (elem Z)),
  has_add_ts ops = false -> payloads (run (zoo_machine ops) l) = zoo_spec ops (payloads l).
Proof. exact zoo_sound. Qed.
Example C16_elementwise_example :
  run (rich_flat_map1_machine (fun c v => (c + 1, if Z.odd (c + 1) then [v; c + 1] else [v])) 0)
      [Tst 7 1; Wm 1; Item 8; FAR; Tst 9 4; FAR; Terminate]
  = ([Tst 7 1; Tst 1 1; Wm 1; Item 8; FAR; Tst 9 4; Tst 3 4; FAR; Terminate] : list (elem Z)).
Proof. vm_compute. reflexivity. Qed.

Example C16_reorder_example :
  run reorder_machine [Tst 1 5; Tst 2 3; Tst 3 5; Wm 4; Tst 4 4; FAR; Terminate]
  = [Tst 2 3; Wm 4; Tst 4 4; Tst 1 5; Tst 3 5; FAR; Terminate].
Proof. vm_compute. reflexivity. Qed.

Print Assumptions C16_sequential_link.
Print Assumptions C16_reorder_sorted.
Print Assumptions C16_reorder_permutation.
Print Assumptions C16_reorder_released_when_covered.
Print Assumptions C16_elementwise_is_iterator_chain.
Print Assumptions C16_keyed_elementwise_per_key.
Print Assumptions C16_add_timestamps.
Print Assumptions C16_drop_timestamps.
Print Assumptions C16_zoo_model_is_iterator_chain.

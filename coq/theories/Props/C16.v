(** * C16 — Sequential paths preserve order; reorder() sorts by timestamp without loss
    Statements only; proofs in Proofs/OpsProofs.v and Proofs/SeqPathProofs.v.
    Models: Model/Start.v (consumer side of a link), Model/Ops.v (operator chains, Reorder). *)
From Noir Require Import Base.Elem Model.Start Model.Ops Proofs.StartSpec Proofs.WinCountSpec
  Proofs.OpsSpec Proofs.OpsProofs Proofs.SeqPathProofs.
Open Scope Z_scope.

(** A single producer replica's stream, cut into batches in ANY way (fixed 1..n, adaptive,
    single: every batch mode is such a cutting), reaches the operators behind the consumer's
    Start unchanged and in order: every element, every watermark, one FAR per round,
    Terminate once and last. *)
Theorem C16_sequential_link : forall {A} (l : list (elem A)) (bs : list (list (elem A))),
  concat bs = l -> wf l = true -> wm_safe l = true ->
  (forall e, In e l -> e <> FlushBatch) -> (forall t, In (Wm t) l -> t < TS_MAX) ->
  run (start_machine A 1) (flatten_batches (map (fun b => (0%nat, b)) bs)) = l.
Proof. exact @seq_path_identity. Qed.

(** Inside an operator chain elements are handed on one at a time: a chain is the
    composition of its operators' element-wise semantics. *)
Theorem C16_chain_is_composition : forall {I M O} (m1 : machine I M) (m2 : machine M O) (l : list I),
  run (compose m1 m2) l = run m2 (run m1 l).
Proof. exact @run_compose. Qed.

(** reorder(): all timestamped elements leave in non-decreasing timestamp order ... *)
Theorem C16_reorder_sorted : forall {A} (l : list (elem A)), wm_safe l = true ->
  ts_nondecreasing None (run reorder_machine l) = true.
Proof. exact @reorder_sorted_strong. Qed.

(** ... nothing is lost or duplicated within a round ... *)
Theorem C16_reorder_permutation : forall {A} (l : list (elem A)), no_end l ->
  Permutation (tdata_of (run reorder_machine (l ++ [FAR]))) (tdata_of l).
Proof. exact @reorder_perm. Qed.

(** ... an element is released only once a watermark (or the end of the round) covers it ... *)
Theorem C16_reorder_released_when_covered : forall {A} (l : list (elem A)),
  covered [] (run reorder_machine l) = true.
Proof. exact @reorder_release_covered. Qed.

(** ... and elements with equal timestamps keep their arrival order. *)
Theorem C16_reorder_stable : forall {A} (l : list (A * Z)) (t : Z),
  filter (fun x => snd x =? t) (rsort l) = filter (fun x => snd x =? t) l.
Proof. exact @rsort_stable. Qed.

Example C16_reorder_example :
  run reorder_machine [Tst 1 5; Tst 2 3; Tst 3 5; Wm 4; Tst 4 4; FAR; Terminate]
  = [Tst 2 3; Wm 4; Tst 4 4; Tst 1 5; Tst 3 5; FAR; Terminate].
Proof. vm_compute. reflexivity. Qed.

Print Assumptions C16_sequential_link.
Print Assumptions C16_reorder_sorted.
Print Assumptions C16_reorder_permutation.
Print Assumptions C16_reorder_released_when_covered.

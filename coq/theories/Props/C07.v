(** * C07 — Aggregations equal a sequential fold; two-phase forms change nothing
    Statements only; proofs in Proofs/AggProofs.v. Models: Model/Ops.v (`Fold`, `KeyedFold`,
    keyed `RichMap`), Model/Start.v (the consumer-side merge of n producer replicas). *)
From Noir Require Import Base.Elem Model.Start Model.Ops Proofs.StartSpec Proofs.WinCountSpec
  Proofs.OpsSpec Proofs.StartProofs Proofs.AggProofs.
Open Scope Z_scope.

Section C07.
  Context {A O : Type}.
  Variable (init : O) (f : O -> A -> O).

  (** Global fold: per iteration exactly one result — none for an empty input — equal to
      the sequential fold of all elements, stamped with the maximum input timestamp, emitted
      before the iteration's end marker; nothing is carried into the next iteration. *)
  Theorem C07_fold_round : forall (l rest : list (elem A)), no_end l ->
    run (fold_machine init f) (l ++ FAR :: rest)
    = fold_round_out init f l FAR ++ run (fold_machine init f) rest.
  Proof. exact (fold_round init f). Qed.

  (** Keyed fold: exactly one result per key that occurs, equal to folding that key's
      elements in order, stamped with that key's maximum timestamp. *)
  Theorem C07_keyed_fold_round : forall (l rest : list (elem (Z * A))), no_end l ->
    run (kfold_machine init f) (l ++ FAR :: rest)
    = kfold_round_out init f l FAR ++ run (kfold_machine init f) rest.
  Proof. exact (kfold_round init f). Qed.
End C07.

(** Associative-commutative functions: the result does not depend on the order of the
    elements nor on how they are partitioned over replicas. *)
Theorem C07_fold_permutation : forall {O} (op : O -> O -> O) (e : O), comm_monoid op e ->
  forall l l', Permutation l l' -> fold_left op l e = fold_left op l' e.
Proof. intros O op e CM. exact (fold_perm op e CM). Qed.

Theorem C07_fold_partition : forall {O} (op : O -> O -> O) (e : O), comm_monoid op e ->
  forall parts : list (list O),
    fold_left op (concat parts) e = fold_left op (map (fun p => fold_left op p e) parts) e.
Proof. intros O op e CM. exact (fold_partition op e CM). Qed.

(** The locally pre-aggregated (two-phase) forms are indistinguishable from the sequential
    fold whenever the global function continues the local fold (N2: in particular [init]
    must be neutral for [global]). *)
Theorem C07_two_phase : forall {A O} (local : O -> A -> O) (global : O -> O -> O) (init : O),
  (forall acc xs, global acc (fold_left local xs init) = fold_left local xs acc) ->
  forall parts : list (list A),
    fold_left global (map (fun p => fold_left local p init) parts) init
    = fold_left local (concat parts) init.
Proof. intros A O local global init H. exact (two_phase_eq local global init H). Qed.

(** reduce / sum / count / min / max are folds over the Option-lifted function *)
Theorem C07_option_lift : forall {A} (g : A -> A -> A),
  (forall a b c, g a (g b c) = g (g a b) c) -> (forall a b, g a b = g b a) ->
  comm_monoid (olift g) None.
Proof. exact @option_lift_monoid. Qed.

(** End to end: n replicas fold their partitions locally, the consumer's Start merges their
    results in ANY arrival interleaving, the global fold combines them — the outcome is the
    sequential fold over the whole input, exactly once, for every partition (empty parts
    included) and every interleaving. *)
Theorem C07_two_phase_all_interleavings :
  forall {A O} (op : O -> O -> O) (e : O) (h : A -> O), comm_monoid op e ->
  forall (parts : list (list A)) (sigma : list (nat * elem O)),
  (1 <= length parts)%nat ->
  interleaving (map (fun p => run (fold_machine e (fun acc x => op acc (h x))) (items p ++ [FAR; Terminate])) parts) sigma ->
  run (fold_machine e op) (run (start_machine O (length parts)) sigma) =
  (match concat parts with [] => [] | xs => [Item (fold_left (fun acc x => op acc (h x)) xs e)] end)
  ++ [FAR; Terminate].
Proof. exact @two_phase_fold_explicit. Qed.

(** N2: with a non-neutral [init] the two-phase form differs (documented API contract). *)
Example C07_init_not_neutral :
  fold_left Z.add (map (fun p => fold_left Z.add p 1) [[1; 2]; [3]]) 1 <> fold_left Z.add [1; 2; 3] 1.
Proof. vm_compute. discriminate. Qed.
Example C07_example :
  run (kfold_machine 0 Z.add) [Item (5, 1); Tst (7, 3) 10; Item (5, 3); Wm 4; FAR; Terminate]
  = [Item (5, 4); Tst (7, 3) 10; Wm 4; FAR; Terminate].
Proof. vm_compute. reflexivity. Qed.

Print Assumptions C07_fold_round.
Print Assumptions C07_keyed_fold_round.
Print Assumptions C07_two_phase_all_interleavings.

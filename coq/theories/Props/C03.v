(** * C03 — Each connection kind routes elements to exactly the replicas it promises
    Statements only; proofs in Proofs/LinkProofs.v (choice made by `End`) and
    Proofs/SchedProofs.v (wiring of forward edges, C19). Model: Model/End.v. A target is an
    index into the downstream block's replica list sorted by coordinate, which every producer
    of that block computes identically (`setup_senders` sorts the same endpoint set). *)
From Noir Require Import Base.Elem Model.End Model.Sched Proofs.LinkProofs Proofs.SchedProofs.
From Coq Require Import NArith.
Open Scope nat_scope.

(** shuffle / group-by / forward: exactly one replica per downstream block *)
Theorem C03_exactly_one_replica : forall {A} (s : strategy) (blocks : list nat) (b : nat) (x : elem A * N * N),
  is_data (fst (fst x)) = true -> s <> SAll -> 1 <= nth b blocks 0 ->
  exists r0, r0 < nth b blocks 0 /\ forall r, addressed s blocks b r x = true <-> r = r0.
Proof. exact @end_data_once_per_block. Qed.

(** broadcast: every replica *)
Theorem C03_broadcast_all : forall {A} (blocks : list nat) (b r : nat) (x : elem A * N * N),
  is_data (fst (fst x)) = true -> (addressed SAll blocks b r x = true <-> r < nth b blocks 0).
Proof. exact @end_data_all. Qed.

(** group-by: the replica depends only on the key's hash and the number of replicas — hence
    equal keys coming from ANY producer, and from both inputs of a join (both `End`s use
    `group_by_hash` of the key and the same replica list), meet on one replica *)
Theorem C03_group_by_key_only : forall (hash rnd rnd' : N) (n : nat),
  targets SGroupBy hash rnd n = targets SGroupBy hash rnd' n.
Proof. exact targets_group_by_key_only. Qed.
Theorem C03_equal_keys_meet : forall {A} (blocks : list nat) (b r : nat) (e1 e2 : elem A) (hash rnd1 rnd2 : N),
  is_data e1 = true -> is_data e2 = true ->
  addressed SGroupBy blocks b r (e1, hash, rnd1) = addressed SGroupBy blocks b r (e2, hash, rnd2).
Proof. exact @group_by_same_replica. Qed.

(** watermarks, end-of-iteration and termination markers reach every connected replica
    (every batch mode, every clock) *)
Theorem C03_control_reaches_all : forall {A} (clock : nat -> N) (t0 : N) (s : strategy) (m : batch_mode)
    (blocks : list nat) (l : list (elem A * N * N)) (hash rnd : N) (b r : nat),
  b < length blocks -> r < nth b blocks 0 ->
  (forall x, In x l -> fst (fst x) <> Terminate) ->
  match m with BFixed n => 1 <= n | BAdaptive n _ => 1 <= n | BSingle => True end ->
  filter is_ctrl (received (run (end_machine clock t0 s m blocks) (l ++ [(Terminate, hash, rnd)])) b r)
  = filter is_ctrl (map (fun x => fst (fst x)) l) ++ [Terminate].
Proof. exact @end_control_reaches_all. Qed.

(** forward connections are wired to exactly one consumer replica: the same-index one when
    it exists, some single replica when the consumer has fewer replicas (execution graph) *)
Theorem C03_forward_wiring : forall f gid d b r, block_replicas d b r <> [] ->
  exists t, consumers true false f gid (block_replicas d b r) = [t] /\ In t (block_replicas d b r) /\
    ((exists t', In t' (block_replicas d b r) /\ same_index f t' = true) -> same_index f t = true).
Proof. exact forward_exactly_one_replicas. Qed.

Print Assumptions C03_exactly_one_replica.
Print Assumptions C03_equal_keys_meet.
Print Assumptions C03_control_reaches_all.

(** * C19 — All hosts derive the same, well-formed execution graph
    Statements only; proofs in Proofs/SchedProofs.v. Model: Model/Sched.v — placement
    (`local_block_info`, `remote_block_info`), wiring (`build_execution_graph`) and socket
    assignment (`NetworkTopology::build`) as pure functions of (deployment, job graph):
    none of them takes the evaluating host's identity as an input, so every host computes
    the same value; independence of enumeration (hash-map) order is proved below. *)
From Noir Require Import Model.Sched Proofs.SchedProofs.
From Coq Require Import List Arith Permutation.
Import ListNotations.

(** ** Placement: the replicas per block *)
Theorem C19_unlimited_all_cores : forall cores h,
  nth h (per_host RUnlimited cores) 0 = nth h cores 0.
Proof. exact placement_unlimited. Qed.
Theorem C19_limited_filled_host_by_host : forall n cores h, h < length cores ->
  nth h (per_host (RLimited n) cores) 0 = Nat.min (nth h cores 0) (n - fold_left Nat.add (firstn h cores) 0).
Proof. exact placement_limited. Qed.
Theorem C19_limited_total : forall n cores,
  fold_left Nat.add (per_host (RLimited n) cores) 0 = Nat.min n (fold_left Nat.add cores 0).
Proof. exact placement_limited_total. Qed.
Theorem C19_one_per_host : forall cores h, h < length cores -> nth h (per_host RHost cores) 0 = 1.
Proof. exact placement_host. Qed.
Theorem C19_one : forall cores h, cores <> [] -> nth h (per_host ROne cores) 0 = if Nat.eqb h 0 then 1 else 0.
Proof. exact placement_one. Qed.
Theorem C19_replica_ids_on_host : forall cores b r h,
  map c_replica (filter (fun c => Nat.eqb (c_host c) h) (block_replicas (Remote cores) b r))
  = seq 0 (nth h (per_host r cores) 0).
Proof. exact replicas_on_host. Qed.

(** ** Global indices: a bijection between a block's replicas and [0, #replicas) *)
Theorem C19_replicas_distinct : forall d b r, NoDup (block_replicas d b r).
Proof. exact replicas_nodup. Qed.
Theorem C19_global_index_total : forall d b r c, In c (block_replicas d b r) ->
  exists i, index_of c (block_replicas d b r) = Some i /\ i < length (block_replicas d b r) /\
            nth_error (block_replicas d b r) i = Some c.
Proof. exact index_of_spec. Qed.
Theorem C19_global_index_injective : forall l c c' i,
  index_of c l = Some i -> index_of c' l = Some i -> c = c'.
Proof. exact index_of_inj. Qed.
Theorem C19_global_index_onto : forall d b r i, i < length (block_replicas d b r) ->
  exists c, nth_error (block_replicas d b r) i = Some c /\ index_of c (block_replicas d b r) = Some i.
Proof. exact index_of_surj. Qed.

(** ** Links: forward edges give every producer replica exactly one consumer — the
    same-index one when it exists; all-to-all otherwise *)
Theorem C19_forward_exactly_one : forall f gid d b r, block_replicas d b r <> [] ->
  exists t, consumers true false f gid (block_replicas d b r) = [t] /\ In t (block_replicas d b r) /\
    ((exists t', In t' (block_replicas d b r) /\ same_index f t' = true) -> same_index f t = true).
Proof. exact forward_exactly_one_replicas. Qed.
Theorem C19_all_to_all : forall f gid to, Permutation (consumers false false f gid to) to.
Proof. exact all_to_all. Qed.

(** ** Socket addresses: deterministic (a function of the SET of demultiplexers only, hence
    equal on all hosts whatever their enumeration order), total and collision-free per host *)
Theorem C19_ports_depend_on_set_only : forall ls ls',
  (forall d, In d (map demux_of ls) <-> In d (map demux_of ls')) -> port_offsets ls = port_offsets ls'.
Proof. exact ports_set_deterministic. Qed.
Theorem C19_ports_cover : forall ls l, In l ls -> exists off, In (demux_of l, off) (port_offsets ls).
Proof. exact ports_cover. Qed.
Theorem C19_ports_collision_free : forall ls d1 d2 off,
  In (d1, off) (port_offsets ls) -> In (d2, off) (port_offsets ls) -> d_host d1 = d_host d2 -> d1 = d2.
Proof. exact ports_injective. Qed.

(** ** Independence of the order in which blocks, edges and links are enumerated *)
Theorem C19_order_independent : forall d bs bs' es es' ls',
  NoDup (map b_id bs) -> Permutation bs bs' -> Permutation es es' ->
  Permutation (links d bs' es') ls' -> port_offsets (links d bs es) = port_offsets ls'.
Proof. exact ports_order_independent. Qed.
Theorem C19_links_order_independent : forall d bs es es', Permutation es es' ->
  Permutation (links d bs es) (links d bs es').
Proof. exact links_perm_edges. Qed.

(** Non-vacuity / regression witness for F2: Limited(2) consumer behind 4 producers *)
Example C19_limited2_of_4 :
  map (fun g => consumers true false {| c_block := 0; c_host := 0; c_replica := g |} g
                 (block_replicas (Local 4) 1 (RLimited 2))) [0; 1; 2; 3]
  = [[{| c_block := 1; c_host := 0; c_replica := 0 |}]; [{| c_block := 1; c_host := 0; c_replica := 1 |}];
     [{| c_block := 1; c_host := 0; c_replica := 0 |}]; [{| c_block := 1; c_host := 0; c_replica := 1 |}]].
Proof. vm_compute. reflexivity. Qed.

(** requirements combine by intersection: a semilattice with `One` at the bottom, `Unlimited`
    at the top and `Host` below every `Limited` *)
Theorem C19_intersect_semilattice : forall a b c,
  intersect a b = intersect b a /\ intersect a (intersect b c) = intersect (intersect a b) c /\ intersect a a = a.
Proof. intros a b c. split; [apply intersect_comm | split; [apply intersect_assoc | apply intersect_idem]]. Qed.
Theorem C19_intersect_one_absorbs : forall a, intersect ROne a = ROne /\ intersect a ROne = ROne.
Proof. exact intersect_one. Qed.
Theorem C19_intersect_unlimited_neutral : forall a, intersect RUnlimited a = a /\ intersect a RUnlimited = a.
Proof. exact intersect_unlimited. Qed.
Theorem C19_intersect_host : forall a, a <> ROne -> intersect RHost a = RHost /\ intersect a RHost = RHost.
Proof. exact intersect_host. Qed.

Print Assumptions C19_forward_exactly_one.
Print Assumptions C19_ports_depend_on_set_only.
Print Assumptions C19_order_independent.

(** * C09 — Fan-out and fan-in operators: split, route, merge, zip, broadcast
    Statements only; proofs in Proofs/FanProofs.v (zip, merge) and Proofs/LinkProofs.v
    (broadcast, split: the producer's `End` towards one or several downstream blocks).
    `route` (first matching predicate, unmatched dropped) is a per-element choice made by
    `RoutingEnd` with the same batching/flush structure as `End`: modelled in Model/Route.v
    (one batcher per route, clock as input), proofs in Proofs/RouteProofs.v, recorded-run
    correspondence in Corr/RouteCorr.v. *)
From Noir Require Import Base.Elem Model.BinaryStart Model.Fan Model.End Proofs.StartSpec Proofs.JoinSpec
  Proofs.FanProofs Proofs.LinkProofs Proofs.RouteProofs Model.Route.
From Coq Require Import NArith.
Open Scope nat_scope.

(** zip: for EVERY interleaving of the two inputs (whatever their relative speed), exactly
    min(|a|,|b|) pairs, the i-th element of one side with the i-th of the other (so
    positional when both inputs are sequential), no element used twice; what is left over is
    forgotten at the end of the iteration and nothing is carried over. *)
Theorem C09_zip_pairs : forall {A B} (ls : list A) (rs : list B) (s rest : list (elem (bin A B))),
  merge2 (left_stream ls) (right_stream rs) s ->
  run zip_machine (s ++ FAR :: rest) = map Item (combine ls rs) ++ FAR :: run zip_machine rest.
Proof. exact @zip_pairs. Qed.

(** merge: the multiset union of its inputs, for every interleaving *)
Theorem C09_merge_union : forall {A} (ls rs : list A) (s : list (elem (bin A A))),
  merge2 (left_stream ls) (right_stream rs) s ->
  Permutation (payloads (run merge_machine s)) (ls ++ rs).
Proof. exact @merge_perm. Qed.

(** broadcast: every element to every downstream replica *)
Theorem C09_broadcast_every_replica : forall {A} (blocks : list nat) (b r : nat) (x : elem A * N * N),
  is_data (fst (fst x)) = true -> (addressed SAll blocks b r x = true <-> r < nth b blocks 0).
Proof. exact @end_data_all. Qed.

(** split(n): the producer's End sends to EVERY downstream block (branch); each branch
    receives, over its replicas, every element exactly once: the received sequence of replica
    r of branch b is the sub-sequence addressed to it, and every data element is addressed to
    exactly one replica of EACH branch. *)
Theorem C09_split_each_branch_once : forall {A} (s : strategy) (blocks : list nat) (b : nat) (x : elem A * N * N),
  is_data (fst (fst x)) = true -> s <> SAll -> 1 <= nth b blocks 0 ->
  exists r0, r0 < nth b blocks 0 /\ forall r, addressed s blocks b r x = true <-> r = r0.
Proof. exact @end_data_once_per_block. Qed.
Theorem C09_split_branch_sequence : forall {A} (clock : nat -> N) (t0 : N) (s : strategy) (m : batch_mode)
    (blocks : list nat) (l : list (elem A * N * N)) (hash rnd : N) (b r : nat),
  b < length blocks -> r < nth b blocks 0 ->
  (forall x, In x l -> fst (fst x) <> Terminate) ->
  match m with BFixed n => 1 <= n | BAdaptive n _ => 1 <= n | BSingle => True end ->
  received (run (end_machine clock t0 s m blocks) (l ++ [(Terminate, hash, rnd)])) b r
  = map (fun x => fst (fst x)) (filter (addressed s blocks b r) l) ++ [Terminate].
Proof. exact @end_link_sequence. Qed.

(** route: every route's receiver gets exactly the elements addressed to it ([routed_to]),
    in order, then the Terminate — for every batch mode, every clock and every list of
    predicates. *)
Theorem C09_route_sequence : forall {A} (clock : nat -> N) (t0 : N) (m : batch_mode)
    (preds : list (A -> bool)) (l : list (elem A)) (i : nat),
  i < length preds ->
  (forall e, In e l -> e <> Terminate) ->
  match m with BFixed n => 1 <= n | BAdaptive n _ => 1 <= n | BSingle => True end ->
  route_received (run (route_machine clock t0 m preds) (l ++ [Terminate])) i
  = filter (routed_to preds i) l ++ [Terminate].
Proof. exact @route_sequence. Qed.

(** route: when a round ends (FlushAndRestart) everything of the round, and the
    FlushAndRestart itself, has been sent to every route; after a FlushBatch everything
    pulled so far has been sent (the FlushBatch is not forwarded). *)
Theorem C09_route_round_flushed : forall {A} (clock : nat -> N) (t0 : N) (m : batch_mode)
    (preds : list (A -> bool)) (l : list (elem A)) (i : nat),
  i < length preds ->
  (forall e, In e l -> e <> Terminate) ->
  match m with BFixed n => 1 <= n | BAdaptive n _ => 1 <= n | BSingle => True end ->
  route_received (run (route_machine clock t0 m preds) (l ++ [FAR])) i
    = filter (routed_to preds i) l ++ [FAR] /\
  route_received (run (route_machine clock t0 m preds) (l ++ [FlushBatch])) i
    = filter (routed_to preds i) l.
Proof. exact @route_round_flushed. Qed.

(** route: a data element is addressed to route i iff i is the FIRST route whose predicate
    holds for its payload; to no route (dropped) iff no predicate holds; never to two. *)
Theorem C09_route_first_match_only : forall {A} (preds : list (A -> bool)) (e : elem A) (v : A),
  payload e = Some v ->
  (forall i, routed_to preds i e = true <-> first_match preds v = Some i) /\
  (forall i, first_match preds v = Some i <->
     (i < length preds /\ nth i preds (fun _ => false) v = true /\
      forall j, j < i -> nth j preds (fun _ => false) v = false)) /\
  ((forall i, routed_to preds i e = false) <->
     (forall j, j < length preds -> nth j preds (fun _ => false) v = false)) /\
  (forall i j, routed_to preds i e = true -> routed_to preds j e = true -> i = j).
Proof. exact @route_first_match_only. Qed.

(** route: Watermark / FlushAndRestart / Terminate go to every route, FlushBatch to none *)
Theorem C09_route_control_all : forall {A} (preds : list (A -> bool)) (i : nat),
  (forall t, routed_to preds i (Wm t) = true) /\
  routed_to preds i FAR = true /\
  routed_to preds i Terminate = true /\
  routed_to preds i FlushBatch = false.
Proof. exact @route_control_all. Qed.

Example C09_zip_example :
  run zip_machine [Item (BL 1); Item (BL 2); Item (BR 10); Item BREnd; Item (BL 3); Item BLEnd; FAR]
  = [Item (1, 10); @FAR (nat * nat)].
Proof. vm_compute. reflexivity. Qed.

Print Assumptions C09_zip_pairs.
Print Assumptions C09_merge_union.
Print Assumptions C09_split_branch_sequence.
Print Assumptions C09_route_sequence.
Print Assumptions C09_route_round_flushed.
Print Assumptions C09_route_first_match_only.
Print Assumptions C09_route_control_all.

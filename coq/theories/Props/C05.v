(** * C05 — Stream control protocol holds at every operator boundary
    Statements only. [wf] recognises ((Item|Timestamped|Watermark|FlushBatch)* FlushAndRestart)+ Terminate.
    Proofs: Proofs/StartProofs.v (block input), Proofs/OpsProofs.v (chain operators),
    Proofs/FanProofs.v (windows, merge), Proofs/WinCountProofs.v, Proofs/AggProofs.v,
    Proofs/JoinProofs.v, Proofs/BinaryStartProofs.v. *)
From Noir Require Model.Ops2 Proofs.Ops2Proofs.
From Noir Require Import Base.Elem Model.Start Model.Ops Model.WinCount Model.WindowOp Model.WinEvent
  Model.BinaryStart Model.Fan Model.Joins
  Proofs.StartSpec Proofs.WinCountSpec Proofs.OpsSpec Proofs.JoinSpec Proofs.BinSpec
  Proofs.StartProofs Proofs.OpsProofs Proofs.FanProofs Proofs.AggProofs Proofs.JoinProofs
  Proofs.WinCountProofs Proofs.BinaryStartProofs.
Open Scope Z_scope.

(** ** Block input: for any number n of upstream replicas and ANY arrival interleaving of
    their elements and markers (round-synchronised, same number of iterations), the sequence
    handed to the operators matches the grammar: each iteration's FlushAndRestart only after
    that iteration's FlushAndRestart of all replicas (hence after all their data), Terminate
    once and last. *)
Theorem C05_block_input : forall (A : Type) (n : nat) (l : list (nat * elem A)),
  (1 <= n)%nat -> arrivals_ok n l ->
  (forall s, (s < n)%nat -> wf (from_sender s l) = true) ->
  round_sync n l = true ->
  (forall s s', (s < n)%nat -> (s' < n)%nat -> fars (from_sender s l) = fars (from_sender s' l)) ->
  wf (run (start_machine A n) l) = true.
Proof. exact start_wf. Qed.

(** without the "same number of iterations" hypothesis the statement is false *)
Theorem C05_block_input_needs_equal_rounds :
  exists l : list (nat * elem Z), arrivals_ok 2 l /\
    (forall s, (s < 2)%nat -> wf (from_sender s l) = true) /\ round_sync 2 l = true /\
    wf (run (start_machine Z 2) l) = false.
Proof. exact start_wf_needs_equal_rounds. Qed.

(** two-input block input with a cached side: C11_replay (grammar, markers once per round) *)

(** ** Operators preserve the grammar *)
Theorem C05_map : forall {A B} (f : A -> B) l, wf l = true -> wf (run (map_machine f) l) = true.
Proof. exact @map_wf. Qed.
Theorem C05_filter : forall {A} (p : A -> bool) l, wf l = true -> wf (run (filter_machine p) l) = true.
Proof. exact @filter_wf. Qed.
Theorem C05_flat_map : forall {A B} (g : A -> list B) l, wf l = true -> wf (run (flat_map_machine g) l) = true.
Proof. exact @flat_map_wf. Qed.
Theorem C05_fold : forall {A O} (init : O) (f : O -> A -> O) l, wf l = true -> wf (run (fold_machine init f) l) = true.
Proof. exact @fold_wf. Qed.
Theorem C05_keyed_fold : forall {A O} (init : O) (f : O -> A -> O) l, wf l = true -> wf (run (kfold_machine init f) l) = true.
Proof. exact @kfold_wf. Qed.
Theorem C05_reorder : forall {A} (l : list (elem A)), wf l = true -> wf (run reorder_machine l) = true.
Proof. exact @reorder_wf. Qed.
Theorem C05_count_window : forall {A B C} (acc0 : B) (proc : B -> A -> B) (out : B -> C) size slide exact l,
  wf l = true -> wf (run (wop_machine (wc_mgr acc0 proc out size slide exact)) l) = true.
Proof. exact @wc_wop_wf. Qed.
Theorem C05_event_time_window : forall {A B C} (acc0 : B) (proc : B -> A -> B) (out : B -> C) size slide l,
  wf l = true -> wf (run (wop_machine (et_mgr acc0 proc out size slide)) l) = true.
Proof. exact @et_wop_wf. Qed.
Theorem C05_merge : forall {A} (l : list (elem (bin A A))), wf l = true -> wf (run merge_machine l) = true.
Proof. exact @merge_wf. Qed.
(** whole chains *)
(** every element-wise API operator (filter_map, flatten, inspect, the rich_* family, plain or
    keyed — instances of [sflat_machine], Model/Ops2.v), add_timestamps (on an input without
    timestamps; it panics otherwise) and drop_timestamps preserve the grammar *)
Theorem C05_elementwise : forall {S A B} (f : S -> A -> S * list B) (s0 : S) l,
  wf l = true -> wf (run (Ops2.sflat_machine f s0) l) = true.
Proof. exact @Ops2Proofs.sflat_wf. Qed.
Theorem C05_add_timestamps : forall {A} (tg : A -> Z) (wg : A -> Z -> option Z) (l : list (elem A)),
  Ops2Proofs.no_ts l -> wf l = true -> wf (run (Ops2.add_ts_machine tg wg) l) = true.
Proof. exact @Ops2Proofs.add_ts_wf. Qed.
Theorem C05_drop_timestamps : forall {A} (l : list (elem A)), wf l = true -> wf (run Ops2.drop_ts_machine l) = true.
Proof. exact @Ops2Proofs.drop_ts_wf. Qed.
Theorem C05_chain : forall {A B C} (m1 : machine (elem A) (elem B)) (m2 : machine (elem B) (elem C)),
  (forall l, wf l = true -> wf (run m1 l) = true) -> (forall l, wf l = true -> wf (run m2 l) = true) ->
  forall l, wf l = true -> wf (run (compose m1 m2) l) = true.
Proof. exact @compose_wf. Qed.

(** ** Stateful operators output all results of an iteration before forwarding its
    FlushAndRestart and carry nothing over into the next one:
    run M (l ++ FAR :: rest) = run M (l ++ [FAR]) ++ run M rest *)
Theorem C05_fold_round_local : forall {A O} (init : O) (f : O -> A -> O) l rest, no_end l ->
  run (fold_machine init f) (l ++ FAR :: rest) = run (fold_machine init f) (l ++ [FAR]) ++ run (fold_machine init f) rest.
Proof. exact @fold_round_local. Qed.
Theorem C05_keyed_fold_round_local : forall {A O} (init : O) (f : O -> A -> O) l rest, no_end l ->
  run (kfold_machine init f) (l ++ FAR :: rest) = run (kfold_machine init f) (l ++ [FAR]) ++ run (kfold_machine init f) rest.
Proof. exact @kfold_round_local. Qed.
Theorem C05_reorder_round_local : forall {A} (l rest : list (elem A)), no_end l ->
  run reorder_machine (l ++ FAR :: rest) = run reorder_machine (l ++ [FAR]) ++ run reorder_machine rest.
Proof. exact @reorder_round_local. Qed.
Theorem C05_count_window_round_local : forall {A B C} (acc0 : B) (proc : B -> A -> B) (out : B -> C) size slide exact,
  (1 <= slide)%nat -> (slide <= size)%nat -> forall s1 rest : list (elem A), no_end s1 ->
  run (wc_machine acc0 proc out size slide exact) (s1 ++ FAR :: rest) =
    map (gres acc0 proc out) (groups size slide (data_of s1)) ++
    (if exact then [] else map (gres acc0 proc out) (tail_group size slide (data_of s1))) ++
    run (wc_machine acc0 proc out size slide exact) rest.
Proof. exact @wc_round. Qed.
Theorem C05_hash_join_round_local : forall (A B : Type) (kl : A -> Z) (kr : B -> Z) (v : variant)
    (ls : list A) (rs : list B) (s rest : list (elem (bin A B))),
  merge2 (left_stream ls) (right_stream rs) s ->
  exists out, run (hash_join_machine kl kr v) (s ++ FAR :: rest)
              = map Item out ++ FAR :: run (hash_join_machine kl kr v) rest /\
              Permutation out (rel_join kl kr v ls rs).
Proof. exact @hash_join_correct. Qed.
Theorem C05_zip_round_local : forall {A B} (ls : list A) (rs : list B) (s rest : list (elem (bin A B))),
  merge2 (left_stream ls) (right_stream rs) s ->
  run zip_machine (s ++ FAR :: rest) = map Item (combine ls rs) ++ FAR :: run zip_machine rest.
Proof. exact @zip_pairs. Qed.

(** by design NOT round-local: the keyed rich_map state (the clearing line is commented out
    in the source); recorded so that the exception is visible *)
Theorem C05_rich_map_keeps_state :
  exists (s0 : Z) (f : Z -> Z -> unit -> Z * Z) (l rest : list (elem (Z * unit))), no_end l /\
    run (rich_map_machine s0 f) (l ++ FAR :: rest)
    <> run (rich_map_machine s0 f) (l ++ [FAR]) ++ run (rich_map_machine s0 f) rest.
Proof. exact rich_map_not_round_local. Qed.

Print Assumptions C05_block_input.
Print Assumptions C05_count_window.
Print Assumptions C05_hash_join_round_local.
Print Assumptions C05_elementwise.
Print Assumptions C05_add_timestamps.

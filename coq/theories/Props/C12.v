(** * C12 — Count windows are exactly the sliding groups of each key's arrival sequence
    Only statements here; proofs are in Proofs/WinCountProofs.v and Proofs/WindowOpProofs.v.
    Model: Model/WinCount.v (`CountWindowManager`), Model/WindowOp.v (`WindowOperator`). *)
From Noir Require Import Base.Elem Model.WinCount Model.WindowOp
  Proofs.WinCountSpec Proofs.WinCountProofs Proofs.WindowOpProofs.
Open Scope nat_scope.

Section C12.
  Context {A B C : Type}.
  (** an arbitrary window accumulator *)
  Variable (acc0 : B) (proc : B -> A -> B) (out : B -> C).
  Variable (size slide : nat) (exact : bool).
  Hypothesis Hslide : 1 <= slide.
  Hypothesis Hsize : slide <= size.

  Let M := wc_machine acc0 proc out size slide exact.
  Let G := gres acc0 proc out.

  (** Over any arrival sequence of one key the manager has emitted exactly the complete
      groups [j*slide, j*slide+size), j = 0,1,.., in order; the aggregator was applied to
      exactly the group's elements; the timestamp is the group's maximum. *)
  Theorem C12_groups : forall xs : list (@tel A),
    run M (map to_elem xs) = map G (groups size slide xs).
  Proof. exact (wc_run_data acc0 proc out size slide exact Hslide Hsize). Qed.

  (** A group is emitted as soon as its size-th element arrives, and nothing else is. *)
  Theorem C12_emission : forall (xs : list (@tel A)) (x : @tel A),
    run M (map to_elem (xs ++ [x])) =
    run M (map to_elem xs) ++
      (if andb (Nat.leb size (length xs + 1)) (Nat.eqb ((length xs + 1 - size) mod slide) 0)
       then [G (slice (xs ++ [x]) (length xs + 1 - size) size)] else []).
  Proof. exact (wc_emission acc0 proc out size slide exact Hslide Hsize). Qed.

  (** End of an iteration: nothing more in exact mode, exactly the oldest incomplete
      non-empty group otherwise; whatever follows is processed from the initial state
      (groups never mix iterations). Watermarks and FlushBatch inside [s1] are ignored. *)
  Theorem C12_round : forall s1 rest : list (elem A), no_end s1 ->
    run M (s1 ++ FAR :: rest) =
      map G (groups size slide (data_of s1)) ++
      (if exact then [] else map G (tail_group size slide (data_of s1))) ++ run M rest.
  Proof. exact (wc_round acc0 proc out size slide exact Hslide Hsize). Qed.

  Theorem C12_tail_is_oldest_incomplete : forall (xs : list (@tel A)) g,
    In g (tail_group size slide xs) ->
    g <> [] /\ length g < size /\ g = skipn (complete size slide (length xs) * slide) xs.
  Proof. exact (tail_group_incomplete size slide Hslide). Qed.

  Theorem C12_complete_spec : forall c j, j < complete size slide c <-> j * slide + size <= c.
  Proof. exact (complete_spec size slide Hslide). Qed.
End C12.

(** Keyed lifting: what the operator emits for key [k] is exactly what [k]'s own manager
    emits on [k]'s subsequence (groups never mix keys), for ANY window manager whose fresh
    state ignores control elements and that is recycled only in its initial state. *)
Theorem C12_per_key : forall {A C} (W : wmgr A C),
  (forall e : elem A, is_data e = false -> wstep W (winit W) e = (winit W, [])) ->
  (forall s, wrecycle W s = true -> s = winit W) ->
  forall (l : list (elem (Z * A))) (k : Z),
    proj_out k (run (wop_machine W) l) =
    map wres_elem (run (Build_machine _ _ (wst W) (winit W) (wstep W)) (proj_in k l)).
Proof. exact @wop_per_key. Qed.

Theorem C12_controls_forwarded : forall {A C} (W : wmgr A C) (l : list (elem (Z * A))),
  controls (run (wop_machine W) l) = controls l.
Proof. exact @wop_controls. Qed.

(** the count manager satisfies the two side conditions of [C12_per_key] *)
Theorem C12_count_mgr_ok : forall {A B C} (acc0 : B) (proc : B -> A -> B) (out : B -> C) size slide exact,
  (forall e : elem A, is_data e = false ->
     wstep (wc_mgr acc0 proc out size slide exact) (winit (wc_mgr acc0 proc out size slide exact)) e
     = (winit (wc_mgr acc0 proc out size slide exact), [])) /\
  (forall s, wrecycle (wc_mgr acc0 proc out size slide exact) s = true ->
     s = winit (wc_mgr acc0 proc out size slide exact)).
Proof. intros; split; [apply wc_mgr_noop | apply wc_mgr_recycle]. Qed.

(** Non-vacuity: the hypotheses are met and the statement says something. *)
Example C12_example_3_2 :
  run (wc_machine [] (fun b x => b ++ [x]) (fun b => b) 3 2 false)
      (map Item [1;2;3;4;5;6;7;8]%Z ++ [FAR])
  = [([1;2;3], None); ([3;4;5], None); ([5;6;7], None); ([7;8], None)]%Z.
Proof. vm_compute. reflexivity. Qed.
Example C12_example_tumbling_exact :
  run (wc_machine [] (fun b x => b ++ [x]) (fun b => b) 2 2 true)
      ([Tst 1 10; Tst 2 5; Tst 3 7; FAR; Item 4; Item 5; Terminate])%Z
  = [([1;2], Some 10); ([4;5], None)]%Z.
Proof. vm_compute. reflexivity. Qed.

Print Assumptions C12_groups.
Print Assumptions C12_emission.
Print Assumptions C12_round.
Print Assumptions C12_tail_is_oldest_incomplete.
Print Assumptions C12_complete_spec.
Print Assumptions C12_per_key.
Print Assumptions C12_controls_forwarded.
Print Assumptions C12_count_mgr_ok.

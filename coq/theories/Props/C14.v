(** * C14 — Processing-time and session windows conserve elements whatever the timing
    Statements only; proofs in Proofs/WinClockProofs.v. Model: Model/WinClock.v
    (`SessionWindowManager`, `ProcessingTimeWindowManager`, keyed `WindowOperator` with the
    wall-clock reading as an explicit input). The clock is any non-decreasing sequence of
    readings (for sessions: any sequence at all). *)
From Noir Require Import Base.Elem Model.WinCount Model.WindowOp Model.WinClock
  Proofs.WinCountSpec Proofs.WinClockSpec Proofs.WinClockProofs.
Open Scope Z_scope.

Definition mgr_machine {A C} (M : cmgr A C) : machine (@cin A) (wres C) :=
  Build_machine _ _ (cst M) (cinit M) (fun s (x : cin) => cstep M s (fst x) (snd x)).

Section C14.
  Context {A B C : Type}.
  (** an arbitrary window accumulator *)
  Variable (acc0 : B) (proc : B -> A -> B) (out : B -> C).

  (** Session windows: whatever the timing, within a round the results are the folds of
      consecutive non-empty segments that partition the key's elements in arrival order;
      everything pending is flushed at the end of the round and nothing is carried over. *)
  Theorem C14_session_partition : forall (gap : Z) (l : list (@cin A)) (t : Z) (rest : list (@cin A)),
    cno_end l ->
    exists segs, is_partition (cdata l) segs /\
      run (mgr_machine (se_mgr acc0 proc out gap)) (l ++ (t, FAR) :: rest)
      = map (wfold acc0 proc out) segs ++ run (mgr_machine (se_mgr acc0 proc out gap)) rest.
  Proof. intros gap. exact (session_partition acc0 proc out gap). Qed.

  (** Tumbling processing-time windows: the same partition statement, for any
      non-decreasing clock. *)
  Theorem C14_proctime_tumbling_partition : forall (size : Z), 0 < size ->
    forall (l : list (@cin A)) (t0 t : Z) (rest : list (@cin A)),
    cno_end l -> clock_mono t0 (l ++ [(t, FAR)]) ->
    exists segs, is_partition (cdata l) segs /\
      run (mgr_machine (pt_mgr acc0 proc out size size)) (l ++ (t, FAR) :: rest)
      = map (wfold acc0 proc out) segs ++ run (mgr_machine (pt_mgr acc0 proc out size size)) rest.
  Proof. intros size Hs. exact (proctime_tumbling_partition acc0 proc out size Hs). Qed.

  (** Sliding processing-time windows (slide <= size): every element is covered between
      once and ceil(size/slide) times, each result is the fold of an increasing
      sub-sequence of the round's elements, all pending windows are flushed at the end. *)
  Theorem C14_proctime_sliding_cover : forall (size slide : Z), 0 < slide -> slide <= size ->
    forall (l : list (@cin A)) (t0 t : Z) (rest : list (@cin A)),
    cno_end l -> clock_mono t0 (l ++ [(t, FAR)]) ->
    exists groups, covers (length (cdata l)) groups ((size + slide - 1) / slide) /\
      run (mgr_machine (pt_mgr acc0 proc out size slide)) (l ++ (t, FAR) :: rest)
      = map (fun g => wfold acc0 proc out (pick (cdata l) g)) groups
        ++ run (mgr_machine (pt_mgr acc0 proc out size slide)) rest.
  Proof. intros size slide H1 H2. exact (proctime_sliding_cover acc0 proc out size slide H1 H2). Qed.
End C14.

(** Per key: what the operator emits for key [k] is what [k]'s own manager emits on [k]'s
    sub-stream (with the same clock readings). *)
Theorem C14_per_key : forall {A C} (M : cmgr A C),
  (forall t (e : elem A), is_data e = false -> cstep M (cinit M) t e = (cinit M, [])) ->
  forall (l : list (Z * elem (Z * A))) (k : Z),
    proj_out k (run (cop_machine M) l) = map wres_elem (run (mgr_machine M) (cproj_in k l)).
Proof. exact @cop_per_key. Qed.

Example C14_session_example :
  run (mgr_machine (se_mgr [] (fun b x => b ++ [x]) (fun b => b) 5))
      [(0, Item 1); (3, Item 2); (9, Item 3); (9, Item 4); (20, FAR)]%Z
  = [([1; 2], None); ([3; 4], None)]%Z.
Proof. vm_compute. reflexivity. Qed.
Example C14_proctime_example :
  run (mgr_machine (pt_mgr [] (fun b x => b ++ [x]) (fun b => b) 4 2))
      [(0, Item 1); (1, Item 2); (3, Item 3); (9, Item 4); (9, FAR)]%Z
  = [([1; 2; 3], None); ([3], None); ([4], None); ([4], None)]%Z.
Proof. vm_compute. reflexivity. Qed.

Print Assumptions C14_session_partition.
Print Assumptions C14_proctime_tumbling_partition.
Print Assumptions C14_proctime_sliding_cover.
Print Assumptions C14_per_key.

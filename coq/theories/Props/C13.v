(** * C13 — Event-time windows never lose, duplicate or mix elements; fire on watermarks
    Statements only; proofs in Proofs/WinEventProofs.v (per-key manager),
    Proofs/WinEventCover.v (coverage for every arrival order outside the known class F4) and
    Proofs/WindowOpProofs.v (keyed lifting, shared with C12). Model: Model/WinEvent.v
    (`EventTimeWindowManager`, `TransactionWindowManager`). *)
From Noir Require Import Base.Elem Model.WinCount Model.WindowOp Model.WinEvent
  Proofs.WinCountSpec Proofs.WinEventSpec Proofs.WinEventProofs Proofs.WinEventCover
  Proofs.WindowOpProofs.
Open Scope Z_scope.

Section C13.
  Context {A B C : Type}.
  Variable (acc0 : B) (proc : B -> A -> B) (out : B -> C).   (* arbitrary accumulator *)
  Variable (size slide : Z).
  Hypothesis Hslide : 0 < slide.
  Hypothesis Hss : slide <= size.

  (** On any in-contract input (timestamped data, nothing at or below an earlier watermark)
      the manager never hits its late-element assertion. *)
  Theorem C13_no_panic : forall l : list (elem A), in_contract None l ->
    exists s, fst (run_from (EM acc0 proc out size slide) (minit (EM acc0 proc out size slide)) l) = Some s.
  Proof. exact (et_no_panic acc0 proc out size slide Hslide Hss). Qed.

  (** Every result is computed from elements whose timestamps lie inside ONE interval of the
      window length, taken in arrival order from the manager's own (= one key's) input. *)
  Theorem C13_result_interval : forall (l : list (elem A)) (r : wres C),
    in_contract None l -> In r (run (EM acc0 proc out size slide) l) ->
    exists (g : list (A * Z)) (e : Z),
      r = eres_of acc0 proc out g e /\ in_interval size g e /\
      (forall x, In x g -> In x (tdata l)) /\
      (exists idx, Sorted.StronglySorted lt idx /\ g = pick (tdata l) idx).
  Proof. exact (et_result_interval acc0 proc out size slide Hslide Hss). Qed.

  (** Fire time: data never emits; a watermark w emits exactly the pending windows with
      end <= w and leaves none of them behind; the end of the round flushes everything. So a
      result is emitted no earlier than a watermark reaching its end (or the end of the
      iteration) and no later than the first watermark beyond it. *)
  Theorem C13_fire_on_watermark : forall (l : list (elem A)) (w : Z) (s s' : estate) (rs : list (wres C)),
    in_contract None l ->
    fst (run_from (EM acc0 proc out size slide) (minit (EM acc0 proc out size slide)) l) = Some s ->
    et_step acc0 proc out size slide (Some s) (Wm w) = (Some s', rs) ->
    (forall r, In r rs -> exists e, snd r = Some e /\ e <= w) /\
    (forall sl, In sl (e_ws s') -> w < e_end sl).
  Proof. exact (et_fire_on_watermark acc0 proc out size slide Hslide Hss). Qed.
  Theorem C13_data_emits_nothing : forall st (x : A) t,
    snd (et_step acc0 proc out size slide st (Tst x t)) = [].
  Proof. exact (et_data_emits_nothing acc0 proc out size slide). Qed.
  Theorem C13_round_end_flushes : forall (s : estate) (e : elem A), e = FAR \/ e = Terminate ->
    exists s', fst (et_step acc0 proc out size slide (Some s) e) = Some s' /\ e_ws s' = [].
  Proof. exact (et_round_end_flushes acc0 proc out size slide). Qed.

  (** At most ceil(size/slide) results contain any element — for EVERY arrival order. *)
  Theorem C13_at_most_ceil : forall l : list (elem A), in_contract None l ->
    exists idxs : list (list nat * Z),
      run (EM acc0 proc out size slide) (l ++ [FAR])
      = map (fun ie => eres_of acc0 proc out (pick (tdata l) (fst ie)) (snd ie)) idxs /\
      Forall (group_ok size l) idxs /\
      forall i, (i < length (tdata l))%nat ->
        Z.of_nat (cnt i (map fst idxs)) <= (size + slide - 1) / slide.
  Proof. exact (et_sliding_upper acc0 proc out size slide Hslide Hss). Qed.

  (** Full statement: "every element that is not late is assigned to exactly one result
      (tumbling) / at least one (sliding), independently of arrival order". It is FALSE of
      the faithful model and of the implementation (known finding F4, [C13_refuted] below):
      an element older than the oldest pending slot of its key is dropped although it is not
      late.

      Proved form: the full statement for EVERY in-contract arrival order (no [ts_sorted], no
      [wm_sorted]) with exactly that class excluded, in the shape
      "forall input, forall element outside the known class, P".
      The class is executable: [dropped_at s ts] = the manager, in state [s], holds at least
      one slot and [ts] is below the start of its first (oldest) slot;
      [dropped_indices l] = the positions in [tdata l] of the elements that arrive in such a
      state during the run of [l]; [kept_data l] = the elements at the other positions.
      - [C13_known_class_characterised]: in any reachable state an in-contract element is fed
        to at least one slot iff [dropped_at] is false, and to none iff it is true;
      - [C13_tumbling_exactly_once_outside_known_class]: the results of a tumbling round
        partition exactly the elements outside the class (each exactly once, nothing else);
      - [C13_sliding_cover_outside_known_class]: a position is in no result iff it is in the
        class; every other position is in 1..ceil(size/slide) results;
      - [C13_inorder_nothing_dropped]: for arrivals in timestamp order with non-decreasing
        watermarks the class is empty, so the two [*_inorder_partial] theorems below are
        corollaries (Proofs/WinEventCover.v, [et_*_inorder']).
      No second class of lost elements exists: the slot list never has gaps (each slot starts
      no later than the end of its predecessor, [et_cinv]), also across the windows that
      `alloc_windows` skips below the watermark and under regressing watermarks; the loss
      under a regressing watermark ([et_cover_needs_monotone_watermarks]) is an instance of
      the same class ([dropped_wm_regress]).
      What is missing: nothing for the per-key manager outside F4; [no_end l] is not used by
      the proofs (kept for the one-round reading of [tdata l]). *)
  Theorem C13_known_class_characterised : forall (l : list (elem A)) (s : estate) (x : A) (ts : Z),
    in_contract None l ->
    fst (run_from (EM acc0 proc out size slide) (minit (EM acc0 proc out size slide)) l) = Some s ->
    (forall w, e_lw s = Some w -> w < ts) ->
    fst (et_step acc0 proc out size slide (Some s) (Tst x ts)) =
      Some {| e_lw := e_lw s; e_ws := map (feed1 proc x ts) (alloc_of acc0 size slide s ts) |} /\
    (dropped_at s ts = false <->
       Exists (fun sl => e_start sl <= ts < e_end sl) (alloc_of acc0 size slide s ts)) /\
    (dropped_at s ts = true <->
       Forall (fun sl => hit ts sl = false) (alloc_of acc0 size slide s ts)).
  Proof. exact (dropped_at_spec acc0 proc out size slide Hslide Hss). Qed.

  Theorem C13_tumbling_exactly_once_outside_known_class : forall l : list (elem A),
    slide = size -> no_end l -> in_contract None l ->
    exists groups : list (list (A * Z) * Z),
      run (EM acc0 proc out size slide) (l ++ [FAR])
      = map (fun ge => eres_of acc0 proc out (fst ge) (snd ge)) groups /\
      Forall (fun ge => in_interval size (fst ge) (snd ge)) groups /\
      Permutation (concat (map fst groups)) (kept_data acc0 proc out size slide l).
  Proof.
    exact (fun l Heq _ =>
             et_tumbling_exactly_once_outside_class acc0 proc out size slide Hslide Hss l Heq).
  Qed.

  Theorem C13_sliding_cover_outside_known_class : forall l : list (elem A),
    no_end l -> in_contract None l ->
    exists idxs : list (list nat * Z),
      run (EM acc0 proc out size slide) (l ++ [FAR])
      = map (fun ie => eres_of acc0 proc out (pick (tdata l) (fst ie)) (snd ie)) idxs /\
      Forall (group_ok size l) idxs /\
      forall i, (i < length (tdata l))%nat ->
        (In i (dropped_indices acc0 proc out size slide l) -> cnt i (map fst idxs) = 0%nat) /\
        (~ In i (dropped_indices acc0 proc out size slide l) ->
           (1 <= cnt i (map fst idxs))%nat /\
           Z.of_nat (cnt i (map fst idxs)) <= (size + slide - 1) / slide).
  Proof.
    exact (fun l _ => et_sliding_cover_outside_class acc0 proc out size slide Hslide Hss l).
  Qed.

  Theorem C13_inorder_nothing_dropped : forall l : list (elem A),
    in_contract None l -> wm_sorted None l -> ts_sorted None l ->
    dropped_indices acc0 proc out size slide l = [].
  Proof. exact (et_inorder_nothing_dropped acc0 proc out size slide Hslide Hss). Qed.

  Theorem C13_tumbling_exactly_once_inorder_partial : forall l : list (elem A),
    slide = size -> no_end l -> in_contract None l -> wm_sorted None l -> ts_sorted None l ->
    exists groups : list (list (A * Z) * Z),
      run (EM acc0 proc out size slide) (l ++ [FAR])
      = map (fun ge => eres_of acc0 proc out (fst ge) (snd ge)) groups /\
      Forall (fun ge => in_interval size (fst ge) (snd ge)) groups /\
      Permutation (concat (map fst groups)) (tdata l).
  Proof. exact (et_tumbling_exactly_once_inorder acc0 proc out size slide Hslide Hss). Qed.

  Theorem C13_sliding_cover_inorder_partial : forall l : list (elem A),
    no_end l -> in_contract None l -> wm_sorted None l -> ts_sorted None l ->
    exists idxs : list (list nat * Z),
      run (EM acc0 proc out size slide) (l ++ [FAR])
      = map (fun ie => eres_of acc0 proc out (pick (tdata l) (fst ie)) (snd ie)) idxs /\
      Forall (group_ok size l) idxs /\
      forall i, (i < length (tdata l))%nat ->
        (1 <= cnt i (map fst idxs))%nat /\
        Z.of_nat (cnt i (map fst idxs)) <= (size + slide - 1) / slide.
  Proof. exact (et_sliding_cover_inorder acc0 proc out size slide Hslide Hss). Qed.

  (** Transaction windows commit exactly as the user logic dictates. *)
  Theorem C13_transaction_commits : forall (logic : A -> txop) (l : list (elem A)), no_items l ->
    run (TM acc0 proc out logic) l
    = map (fun g => (out (fold_left proc g acc0), None)) (tx_segments logic [] None l).
  Proof. intros logic. exact (tx_commits acc0 proc out logic). Qed.
End C13.

(** F4 witness: tumbling(10); the element with timestamp 5 is not late (no watermark yet)
    but is lost because the key's first slot starts at the first seen timestamp 10. *)
Theorem C13_refuted :
  run (EM ([] : list Z) (fun b x => b ++ [x]) (fun b => b) 10 10) [Tst 1 10; Tst 2 5; Wm 30; FAR]
  = [([1], Some 20)].
Proof. vm_compute. reflexivity. Qed.

(** the same witness is in the known class (position 1 = the element with timestamp 5) *)
Example C13_refuted_in_known_class :
  dropped_indices ([] : list Z) (fun b x => b ++ [x]) (fun b => b) 10 10
    [Tst 1 10; Tst 2 5; Wm 30; FAR] = [1%nat].
Proof. vm_compute. reflexivity. Qed.

(** an out-of-order element that is not below the oldest slot is outside the class and is
    covered (element 3, timestamp 12, arrives after timestamp 25) *)
Example C13_out_of_order_covered :
  dropped_indices ([] : list Z) (fun b x => b ++ [x]) (fun b => b) 10 10
    [Tst 1 10; Tst 2 25; Tst 3 12; Wm 40; FAR] = [] /\
  run (EM ([] : list Z) (fun b x => b ++ [x]) (fun b => b) 10 10)
    [Tst 1 10; Tst 2 25; Tst 3 12; Wm 40; FAR] = [([1; 3], Some 20); ([2], Some 30)].
Proof. split; vm_compute; reflexivity. Qed.

Example C13_example_tumbling :
  run (EM ([] : list Z) (fun b x => b ++ [x]) (fun b => b) 10 10)
      [Tst 1 0; Tst 2 5; Wm 10; Tst 3 12; Wm 20; FAR]
  = [([1; 2], Some 10); ([3], Some 20)].
Proof. vm_compute. reflexivity. Qed.

Print Assumptions C13_result_interval.
Print Assumptions C13_fire_on_watermark.
Print Assumptions C13_at_most_ceil.
Print Assumptions C13_tumbling_exactly_once_inorder_partial.
Print Assumptions C13_sliding_cover_inorder_partial.
Print Assumptions C13_known_class_characterised.
Print Assumptions C13_tumbling_exactly_once_outside_known_class.
Print Assumptions C13_sliding_cover_outside_known_class.
Print Assumptions C13_inorder_nothing_dropped.
Print Assumptions C13_transaction_commits.

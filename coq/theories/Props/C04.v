(** * C04 — Every finite job terminates and every sink is completed exactly once
    Statements only; proofs in Proofs/NetProofs.v (bounded-FIFO network of replicas, Model/Net.v),
    Proofs/StartProofs.v / Proofs/BinaryStartProofs.v (marker accounting of block inputs) and
    Proofs/PipeProofs.v (the sink receives the complete result: C01).

    Shape of the argument. A running job is a network of replicas (nodes) connected by bounded
    FIFO channels; a node is blocked either in a `send` on a full channel or in a `recv` on
    empty channels. [C04_no_deadlock] / [C04_job_terminates] prove, for EVERY network, every
    capacity >= 1 and every schedule, that no reachable state is stuck and every execution is
    finite and ends with all replicas exited — provided four obligations hold in every
    reachable state (locality; a blocked receiver waits for somebody alive that is not ahead
    of it; a blocked sender's consumer is alive and not ahead of it; a consumer refuses a full
    channel only if it is strictly behind the blocked producer), where "ahead" is a per-node
    level — for the engine, the number of FlushAndRestart broadcasts completed.
    The obligations are DISCHARGED for every acyclic network of marker-level replicas without
    demultiplexers (every non-iterative job on one host: sources, single-input and two-input
    blocks incl. self-joins, any number of producers per channel, any capacity >= 1, any
    amount of data): [C04_dag_no_deadlock], [C04_dag_job_terminates] hold for all of them with
    no side condition beyond the static well-formedness [dag_ok] (decidable: [dag_okb]).
    The operator-level facts that justify the marker-level replica ([r_sem]) are proved on the
    detailed models of the real block inputs ([C04_start_waits_for_all],
    [C04_start_terminate_once_last], [C04_binary_block_owes]). Loops are C10's models.
    [C04_mux_deadlock_in_model] records that with remote connections multiplexed per
    (block pair, host pair) the obligations cannot hold: the model has a reachable stuck state. *)
From Noir Require Import Base.Elem Model.Start Model.BinaryStart Model.Net
  Proofs.StartSpec Proofs.NetProofs Proofs.NetDagProofs Proofs.NetLoopProofs Proofs.NetMuxProofs.
From Coq Require Import List Arith.
Import ListNotations.
Open Scope nat_scope.

(** no reachable state is a deadlock *)
Theorem C04_no_deadlock : forall (msg st : Type) (NW : net msg st) (lvl : nat -> st -> nat),
  net_ok NW ->
  (forall s, reachable NW s -> safe_state NW lvl s) ->
  forall s, reachable NW s -> ~ final NW s -> exists s', step NW s s'.
Proof. exact @no_deadlock. Qed.

(** with a step measure (finite sources: every step consumes part of a finite budget) every
    execution is finite, a final state is reached, and a state without steps is final *)
Theorem C04_job_terminates : forall (msg st : Type) (NW : net msg st) (lvl : nat -> st -> nat),
  net_ok NW ->
  (forall s, reachable NW s -> safe_state NW lvl s) ->
  forall mu : state msg st -> nat,
  (forall s s', reachable NW s -> step NW s s' -> mu s' < mu s) ->
  (exists s', steps NW (n_init NW) s' /\ final NW s') /\
  (forall f : nat -> state msg st, f 0 = n_init NW -> ~ (forall k, step NW (f k) (f (S k)))) /\
  (forall s, reachable NW s -> (forall s', ~ step NW s s') -> final NW s).
Proof. exact @job_terminates. Qed.

(** single-level corollary: the plain obligations suffice when nobody refuses a channel *)
Theorem C04_no_deadlock_plain : forall (msg st : Type) (NW : net msg st),
  net_ok NW ->
  (forall s, reachable NW s ->
     O1_wants_nonempty NW s /\ O2_wants_live NW s /\ ob_local NW s /\
     O4_finish_after_inputs NW s /\ O5_no_refusal NW s) ->
  forall s, reachable NW s -> ~ final NW s -> exists s', step NW s s'.
Proof. exact @no_deadlock_plain. Qed.

(** ---- every acyclic one-host job: obligations discharged, unconditional theorems ---- *)
Theorem C04_dag_safe : forall D, dag_ok D ->
  forall s, reachable (net_of D) s -> safe_state (net_of D) (fun _ => r_level) s.
Proof. exact dag_safe. Qed.
Theorem C04_dag_no_deadlock : forall D, dag_ok D ->
  forall s, reachable (net_of D) s -> ~ final (net_of D) s -> exists s', step (net_of D) s s'.
Proof. exact dag_no_deadlock. Qed.
Theorem C04_dag_job_terminates : forall D, dag_ok D ->
  (exists s', steps (net_of D) (n_init (net_of D)) s' /\ final (net_of D) s') /\
  (forall f : nat -> state emsg rstate, f 0 = n_init (net_of D) -> ~ (forall k, step (net_of D) (f k) (f (S k)))) /\
  (forall s, reachable (net_of D) s -> (forall s', ~ step (net_of D) s s') -> final (net_of D) s).
Proof. exact dag_job_terminates. Qed.
(** the well-formedness condition is decidable, and met by concrete networks: the diamond
    below and a 7-node job with a 3-producer channel and a self-join, all capacities 1 *)
Theorem C04_dag_ok_decidable : forall D, dag_okb D = true <-> dag_ok D.
Proof. exact dag_okb_spec. Qed.
Example C04_dag_ok_selfjoin : dag_ok sj_dag.
Proof. exact sj_dag_ok. Qed.
Example C04_dag_ok_diamond : dag_ok dia_dag.
Proof. exact dia_dag_ok. Qed.

(** a block input keeps reading until Terminate has arrived from ALL its producers, never
    exits before, and no end-of-stream marker is lost: after any prefix of any well-formed
    arrival sequence, it has emitted Terminate / is done iff every producer's Terminate is in *)
Theorem C04_start_waits_for_all : forall (A : Type) (n : nat) (l1 l2 : list (nat * elem A)),
  1 <= n ->
  (forall s e, In (s, e) (l1 ++ l2) -> s < n) ->
  (forall s, s < n -> wf (from_sender s (l1 ++ l2)) = true) ->
  let '(a, o) := run_from (start_machine A n) (start_init n) l1 in
  (In Terminate o <-> (forall s, s < n -> In (s, Terminate) l1)) /\
  (s_done a = true <-> (forall s, s < n -> In (s, Terminate) l1)) /\
  (s_done a = false -> s_mterm a = n - nterm l1 /\ 1 <= s_mterm a).
Proof. exact @start_terminates_iff_all_prefix. Qed.

(** ... and on a complete arrival sequence Terminate is emitted exactly once, last *)
Theorem C04_start_terminate_once_last : forall (A : Type) (n : nat) (l : list (nat * elem A)),
  1 <= n -> arrivals_ok n l ->
  (forall s, s < n -> wf (from_sender s l) = true) ->
  round_sync n l = true ->
  (forall s s', s < n -> s' < n -> fars (from_sender s l) = fars (from_sender s' l)) ->
  (In Terminate (run (start_machine A n) l) <-> (forall s, s < n -> In (s, Terminate) l)) /\
  (exists o, run (start_machine A n) l = o ++ [Terminate] /\ ~ In Terminate o).
Proof. exact @start_terminates_iff_all. Qed.

(** a two-input block input that blocks is reading exactly sides that still owe it a marker,
    and every side it reads is empty (it never sleeps on a non-empty wanted side) *)
Theorem C04_binary_block_wants_empty : forall (L R : Type) (b b' : @bstate L R),
  uncached b -> bselect b = SelBlock b' -> forall sd, In sd (bwants b) -> side_empty b sd.
Proof. exact @bselect_block_wants. Qed.
Theorem C04_binary_nonempty_wanted_progress : forall (L R : Type) (b : @bstate L R) (sd : bool),
  uncached b -> In sd (bwants b) -> ~ side_empty b sd -> exists b' m, bselect b = SelMsg b' m.
Proof. exact @bselect_msg_wants. Qed.
Theorem C04_binary_block_owes : forall (L R : Type) (b b' : @bstate L R),
  uncached b -> cache_finished (b_l b) = true -> cache_finished (b_r b) = true ->
  1 <= sd_inst (b_l b) -> 1 <= sd_inst (b_r b) -> 1 <= sd_mterm (b_l b) + sd_mterm (b_r b) ->
  bselect b = SelBlock b' ->
  sd_mfar (b_l b) = 0 /\ 1 <= sd_mfar (b_r b) /\ sd_queue (b_r b) = [] /\ bwants b = [false] \/
  sd_mfar (b_r b) = 0 /\ 1 <= sd_mfar (b_l b) /\ sd_queue (b_l b) = [] /\ bwants b = [true] \/
  (sd_mfar (b_l b) = 0 <-> sd_mfar (b_r b) = 0) /\
  (sd_mterm (b_l b) = 0 /\ 1 <= sd_mterm (b_r b) /\ sd_queue (b_r b) = [] /\ bwants b = [false] \/
   sd_mterm (b_r b) = 0 /\ 1 <= sd_mterm (b_l b) /\ sd_queue (b_l b) = [] /\ bwants b = [true] \/
   1 <= sd_mterm (b_l b) /\ 1 <= sd_mterm (b_r b) /\ sd_queue (b_l b) = [] /\ sd_queue (b_r b) = [] /\
   bwants b = [true; false]).
Proof. exact @bselect_block_owes. Qed.

(** the obligations discharged on a concrete network: a diamond whose two-input consumer
    refuses a side that has more producers than the channel has capacity (capacity 1):
    every reachable state (794 of them, enumerated inside Coq) satisfies them, so the diamond
    never deadlocks and terminates under every schedule — although the plain "never refuse"
    obligation is false there (non-vacuity of the level refinement) *)
Theorem C04_diamond_safe : forall s, reachable dia_net s -> safe_state dia_net dia_lvl s.
Proof. exact dia_safe. Qed.
Theorem C04_diamond_no_deadlock : forall s, reachable dia_net s -> ~ final dia_net s -> exists s', step dia_net s s'.
Proof. exact dia_no_deadlock. Qed.
Theorem C04_diamond_terminates : terminating dia_net (n_init dia_net).
Proof. exact dia_terminates. Qed.
Theorem C04_diamond_refuses : existsb (fun s => negb (O5_b s)) dia_states = true.
Proof. exact dia_refuses. Qed.

(** model-level refutation for multiplexed remote connections (one connection per block pair
    and host pair, demultiplexer blocking on a full destination): a reachable stuck state *)
Theorem C04_mux_deadlock_in_model : exists s, reachable mux_net s /\ stuck mux_net s.
Proof. exact mux_hol_deadlock. Qed.

(** the same mechanism in the shape that WAS reproduced on the engine (known finding F13): two
    producer blocks L and R on one host, a two-input block with replicas a, b on another, one
    connection per producer block; L's replicas deliver their markers to a before b, R's to b
    before a (some destination flushed early); capacity 1, 3 + 3 producers *)
Theorem C04_mux_join_deadlock_in_model : exists s, reachable mux_join_net s /\ stuck mux_join_net s.
Proof. exact mux_join_deadlock. Qed.

(** ---- several hosts: networks WITH demultiplexers (one connection per block pair and host
    pair, blocking hand-over to the destination's channel). Every such acyclic network is
    deadlock-free and terminates for every schedule, data volume and capacity PROVIDED no side
    of a two-input block has more producers than its channel holds ([mcap_ok]: kl <= cap l and
    kr <= cap r; single-input blocks and demultiplexers never refuse their input and need no
    condition). The condition cannot be dropped: the description of [mux_join_net] satisfies
    everything else and deadlocks — that is known finding F13 (engine: capacity 16, 17+
    producers). ---- *)
Theorem C04_multi_host_no_deadlock : forall D, mdag_ok D ->
  forall s, reachable (mnet_of D) s -> ~ stuck (mnet_of D) s.
Proof. exact mux_safe_no_deadlock. Qed.
Theorem C04_multi_host_job_terminates : forall D, mdag_ok D ->
  (exists s', steps (mnet_of D) (n_init (mnet_of D)) s' /\ final (mnet_of D) s') /\
  (forall f : nat -> state emsg rstate, f 0 = n_init (mnet_of D) -> ~ (forall k, step (mnet_of D) (f k) (f (S k)))) /\
  (forall s, reachable (mnet_of D) s -> (forall s', ~ step (mnet_of D) s s') -> final (mnet_of D) s).
Proof. exact mux_safe_job_terminates. Qed.
Theorem C04_multi_host_ok_decidable : forall D, mdag_okb D = true <-> mdag_ok D.
Proof. exact mdag_okb_spec. Qed.
(** boundary: the F13 shape meets every structural condition, fails only the capacity
    condition, and deadlocks; with 2 + 2 producers and capacity 2 the theorem applies *)
Theorem C04_capacity_condition_needed : forall o,
  mstruct_okb (mux_join_dag o) = true /\ mcap_okb (mux_join_dag o) = false.
Proof. intros o. split; [apply mux_join_dag_struct | apply mux_join_dag_cap]. Qed.
Theorem C04_capacity_condition_deadlock :
  exists s, reachable (mnet_of (mux_join_dag false)) s /\ stuck (mnet_of (mux_join_dag false)) s.
Proof. exact mux_join_dag_deadlock. Qed.
Example C04_multi_host_example : forall o, mdag_ok (j2_dag o 2).
Proof. intros o. apply mdag_okb_spec. apply j2_dag_ok. Qed.

(** ---- loops (instances of the same network model with the loop heads, the feedback edge and
    the leader as nodes; Proofs/NetLoopProofs.v) ----
    replay: head, 2 body replicas behind a shuffle, leader, 2 rounds, capacity 1 — for EVERY
    routing of the data no reachable state is stuck and every execution terminates (exhaustive
    enumeration inside Coq, lifted by [check_net_sound]) *)
Theorem C04_replay_instance_no_deadlock : forall rt, length rt = 4 -> Forall (fun c => c < 2) rt ->
  terminating (replay_gen rt 2 1 2) (n_init (replay_gen rt 2 1 2)) /\
  (forall s, reachable (replay_gen rt 2 1 2) s -> ~ stuck (replay_gen rt 2 1 2) s).
Proof. exact replay_any_routing. Qed.
(** iterate: with a body that does not expand, no deadlock and termination ... *)
Theorem C04_iterate_instance_no_expansion : 
  (forall s, reachable iter_net_k1 s -> ~ stuck iter_net_k1 s) /\ terminating iter_net_k1 (n_init iter_net_k1).
Proof. split; [exact iter_net_k1_no_deadlock | exact iter_net_k1_terminates]. Qed.
(** ... but a body that emits more per pulled element than the channels on the feedback cycle
    hold deadlocks (known finding F9): the head blocks sending into the body while it is the
    only reader of the full feedback channel. Capacity 1 and 2 outputs per element; with
    capacity 2, 2 outputs are safe and 3 deadlock (threshold capacity + 1; the engine: 17),
    under the semantics in which the head leaves its non-blocking drain only with an empty
    feedback channel ([greachable _ iter_guard]) *)
Theorem C04_iterate_feedback_deadlock_in_model :
  exists s, greachable iter_net iter_guard s /\ stuck iter_net s.
Proof. exact iterate_feedback_deadlock_faithful. Qed.
Theorem C04_iterate_threshold_safe :
  forall s, greachable iter_net_c2_k2 iter_guard s -> ~ gstuck iter_net_c2_k2 iter_guard s.
Proof. exact iter_net_c2_k2_faithful_no_deadlock. Qed.

Print Assumptions C04_no_deadlock.
Print Assumptions C04_multi_host_no_deadlock.
Print Assumptions C04_multi_host_job_terminates.
Print Assumptions C04_capacity_condition_deadlock.
Print Assumptions C04_replay_instance_no_deadlock.
Print Assumptions C04_iterate_feedback_deadlock_in_model.
Print Assumptions C04_mux_join_deadlock_in_model.
Print Assumptions C04_dag_no_deadlock.
Print Assumptions C04_dag_job_terminates.
Print Assumptions C04_job_terminates.
Print Assumptions C04_start_waits_for_all.
Print Assumptions C04_binary_block_owes.
Print Assumptions C04_diamond_terminates.
Print Assumptions C04_mux_deadlock_in_model.

(** * C08 — Joins output exactly the relational join, whatever the arrival order
    Statements only; proofs in Proofs/JoinProofs.v. Models: Model/Joins.v (`JoinLocalHash` /
    `JoinKeyedOuter`, `JoinKeyedInner`, `JoinLocalSortMerge`, `IntervalJoin`). [merge2 a b s]:
    [s] is ANY interleaving of the two sides, end-of-side markers included (so either side
    may end first). *)
From Noir Require Import Base.Elem Model.BinaryStart Model.Joins Proofs.JoinSpec Proofs.JoinProofs.
Open Scope Z_scope.

(** Hash join (and the keyed outer join, same algorithm), inner / left / outer: within one
    iteration, for EVERY interleaving of the arrivals of the two sides, the output is a
    permutation of the relational join — every matching pair once, each unmatched row of an
    outer side once, padded with None; the assertions at the end of the iteration hold and
    the next iteration starts from the initial state. *)
Theorem C08_hash_join : forall (A B : Type) (kl : A -> Z) (kr : B -> Z) (v : variant)
    (ls : list A) (rs : list B) (s rest : list (elem (bin A B))),
  merge2 (left_stream ls) (right_stream rs) s ->
  exists out : list jout,
    run (hash_join_machine kl kr v) (s ++ FAR :: rest)
    = map Item out ++ FAR :: run (hash_join_machine kl kr v) rest /\
    Permutation out (rel_join kl kr v ls rs).
Proof. exact @hash_join_correct. Qed.

Theorem C08_keyed_inner_join : forall (A B : Type) (kl : A -> Z) (kr : B -> Z)
    (ls : list A) (rs : list B) (s rest : list (elem (bin A B))),
  merge2 (left_stream ls) (right_stream rs) s ->
  exists out : list (Z * (A * B)),
    run (kinner_machine kl kr) (s ++ FAR :: rest)
    = map Item out ++ FAR :: run (kinner_machine kl kr) rest /\
    Permutation out (inner_pairs kl kr ls rs).
Proof. exact @kinner_correct. Qed.

Theorem C08_sort_merge_join : forall (A B : Type) (kl : A -> Z) (kr : B -> Z) (v : variant)
    (ls : list A) (rs : list B) (s rest : list (elem (bin A B))),
  merge2 (left_stream ls) (right_stream rs) s ->
  exists out : list jout,
    run (sort_merge_machine kl kr v) (s ++ FAR :: rest)
    = map Item out ++ FAR :: run (sort_merge_machine kl kr v) rest /\
    Permutation out (rel_join kl kr v ls rs).
Proof. exact @sort_merge_correct. Qed.

(** Interval join, on input sorted by timestamp (it sits behind reorder(), C16): exactly the
    same-key pairs with  l.ts - lower <= r.ts <= l.ts + upper, each once; for all bounds. *)
Theorem C08_interval_join : forall (A B : Type) (lb ub : Z) (l rest : list (elem (Z * merged A B))),
  ts_sorted_from 0 l -> no_flush_batch l ->
  exists out : list (elem iout),
    run (interval_machine lb ub) (l ++ FAR :: rest)
    = out ++ FAR :: run (interval_machine lb ub) rest /\
    Permutation out (interval_spec lb ub (lefts l) (rights l)).
Proof. exact @interval_join_correct. Qed.

(** Non-vacuity: a left-outer hash join where the right side ends first *)
Example C08_example :
  run (hash_join_machine (fun x => x mod 2) (fun y => y mod 2) JLeft)
      [Item (BR 11); Item BREnd; Item (BL 4); Item (BL 7); Item BLEnd; FAR]
  = [Item (0, (Some 4, None)); Item (1, (Some 7, Some 11)); FAR].
Proof. vm_compute. reflexivity. Qed.

Print Assumptions C08_hash_join.
Print Assumptions C08_keyed_inner_join.
Print Assumptions C08_sort_merge_join.
Print Assumptions C08_interval_join.

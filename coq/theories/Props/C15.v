(** * C15 — Parallel sources split their input exactly once across replicas
    Statements only; proofs in Proofs/SrcRangeProofs.v and Proofs/SrcFileProofs.v.
    Models: Model/SrcRange.v (`IntoParallelSource for Range<T>`), Model/SrcFile.v
    (`FileSource`, byte ranges of `CsvSource::setup`). *)
From Noir Require Import Model.SrcRange Model.SrcFile Proofs.SrcSpec
  Proofs.SrcRangeProofs Proofs.SrcFileProofs.
From Coq Require Import ZArith List Lia.
Import ListNotations.

(** ** Integer ranges *)
Open Scope Z_scope.

(** For every integer type that fits in i64 (u8..u32, i8..i64, isize), every forward range of
    up to 2^62 elements and every number of replicas: no replica panics and the chunks are
    disjoint sub-ranges whose union is the range ([partitions], Proofs/SrcSpec.v). *)
Theorem C15_range_signed : forall (t : ity) (lo hi peers : Z),
  fits_i64 t -> in_ty t lo = true -> in_ty t hi = true -> lo <= hi -> hi - lo <= 2^62 ->
  1 <= peers <= 2^32 ->
  partitions (fun i => gen_signed t lo hi i peers) lo hi peers.
Proof. exact range_signed_partition. Qed.

(** a reversed range yields nothing on every replica (and does not panic) *)
Theorem C15_range_signed_reversed : forall (t : ity) (lo hi peers i : Z),
  fits_i64 t -> in_ty t lo = true -> in_ty t hi = true -> hi < lo -> lo - hi <= 2^62 ->
  1 <= peers <= 2^32 -> 0 <= i < peers ->
  exists r, gen_signed t lo hi i peers = Some r /\ forall x, ~ in_range r x.
Proof. exact range_signed_reversed. Qed.

(** u64 and usize (which delegates to the u64 implementation) *)
Theorem C15_range_u64 : forall (lo hi peers : Z),
  0 <= lo -> lo <= hi -> hi <= u64_max -> hi - lo <= 2^62 -> 1 <= peers <= 2^32 ->
  partitions (fun i => gen_u64 lo hi i peers) lo hi peers.
Proof. exact range_u64_partition. Qed.

Theorem C15_range_u64_reversed : forall (lo hi peers i : Z),
  0 <= hi -> hi < lo -> lo <= u64_max -> 1 <= peers <= 2^32 -> 0 <= i < peers ->
  exists r, gen_u64 lo hi i peers = Some r /\ forall x, ~ in_range r x.
Proof. exact range_u64_reversed. Qed.

(** the concrete types are instances *)
Example C15_types_fit : fits_i64 ty_u8 /\ fits_i64 ty_u16 /\ fits_i64 ty_u32 /\ fits_i64 ty_i8 /\
  fits_i64 ty_i16 /\ fits_i64 ty_i32 /\ fits_i64 ty_i64.
Proof. unfold fits_i64, i64_min, i64_max; cbn; repeat split; lia. Qed.

(** previously failing inputs, now inside the theorem (regression witnesses) *)
Example C15_reversed_i32 : map (fun i => gen_signed ty_i32 10 0 i 2) [0; 1] = [Some (10, 10); Some (10, 10)].
Proof. vm_compute. reflexivity. Qed.
Example C15_u8_near_max : map (fun i => gen_signed ty_u8 250 255 i 4) [0; 1; 2; 3]
  = [Some (250, 252); Some (252, 254); Some (254, 255); Some (255, 255)].
Proof. vm_compute. reflexivity. Qed.

(** ** Line-based file source *)
Open Scope nat_scope.

(** For every file content and every number of replicas, the concatenation of what the
    replicas emit (in replica order) is exactly the list of the file's lines: every line
    once, never a partial, duplicated or skipped one — including the empty file, files
    smaller than the number of replicas, a missing final newline, lines longer than a
    replica's byte range and CRLF (the '\r' stays in the line). *)
Theorem C15_file_lines : forall (bytes : list Z) (n : nat), 1 <= n ->
  concat (map (file_replica bytes n) (seq 0 n)) = lines bytes.
Proof. exact file_lines_partition. Qed.

(** ** CSV source: byte ranges handed to the record parser *)
Theorem C15_csv_contiguous : forall (bytes : list Z) (h : bool) (n : nat), 1 <= n ->
  fst (csv_range bytes h n 0) = csv_header_size bytes h /\
  snd (csv_range bytes h n (n - 1)) = length bytes /\
  (forall i, i + 1 < n -> snd (csv_range bytes h n i) = fst (csv_range bytes h n (i + 1))) /\
  (forall i, i < n -> fst (csv_range bytes h n i) <= snd (csv_range bytes h n i) <= length bytes).
Proof. exact csv_ranges_contiguous. Qed.

(** the replicas' byte ranges concatenate to exactly the body (header excluded) *)
Theorem C15_csv_bytes : forall (bytes : list Z) (h : bool) (n : nat), 1 <= n ->
  concat (map (csv_bytes bytes h n) (seq 0 n)) = skipn (csv_header_size bytes h) bytes.
Proof. exact csv_bytes_partition. Qed.

(** every range starts and ends on a record boundary: never a partial record *)
Theorem C15_csv_aligned : forall (bytes : list Z) (h : bool) (n i : nat), 1 <= n -> i < n ->
  at_boundary bytes (csv_header_size bytes h) (fst (csv_range bytes h n i)) /\
  at_boundary bytes (csv_header_size bytes h) (snd (csv_range bytes h n i)).
Proof. exact csv_ranges_aligned. Qed.

Example C15_file_example :
  map (file_replica [97; 10; 98; 98; 98; 98; 10; 99]%Z 3) [0; 1; 2]
  = [[[97; 10]; [98; 98; 98; 98; 10]]; []; [[99]]]%Z.
Proof. vm_compute. reflexivity. Qed.

//! `nvh <PROPERTY> --tier quick|thorough --seed N --out DIR`
//! Generates inputs, runs the REAL renoir code on them and writes Coq case files.
mod cases;
mod coqfmt;
mod dynop;
mod pipe;
mod props;
mod rng;
mod script;
mod startdrv;

use std::path::PathBuf;

pub struct Opts {
    pub prop: String,
    pub thorough: bool,
    pub seed: u64,
    pub out: PathBuf,
    pub replay: Option<PathBuf>,
    /// divide the number of random cases by this (used when several generators share a check)
    pub scale: usize,
}

fn main() {
    let args: Vec<String> = std::env::args().collect();
    let mut opts = Opts { prop: String::new(), thorough: false, seed: 1, out: PathBuf::from("."), replay: None, scale: 1 };
    let mut i = 1;
    while i < args.len() {
        match args[i].as_str() {
            "--tier" => { opts.thorough = args[i + 1] == "thorough"; i += 1; }
            "--seed" => { opts.seed = args[i + 1].parse().unwrap_or(1); i += 1; }
            "--out" => { opts.out = PathBuf::from(&args[i + 1]); i += 1; }
            "--only" => { i += 1; }
            "--replay" => { opts.replay = Some(PathBuf::from(&args[i + 1])); i += 1; }
            p => opts.prop = p.to_string(),
        }
        i += 1;
    }
    // panics of the code under test are caught and reported as data; keep stderr readable
    if std::env::var("NVH_DEBUG").is_err() {
        std::panic::set_hook(Box::new(|_| {}));
    }
    match opts.prop.as_str() {
        "C12" => {
            let mut sink = cases::CaseSink::new("C12", "Corr.C12", &opts.out, 400);
            props::c12::generate(&opts, &mut sink);
            sink.finish(props::c12::RULE, serde_json::json!({}));
        }
        "C15" => {
            let mut sink = cases::CaseSink::new("C15", "Corr.C15 Proofs.SrcSpec Model.SrcRange", &opts.out, 500);
            props::c15::generate(&opts, &mut sink);
            sink.finish(props::c15::RULE, serde_json::json!({}));
        }
        "C17" => {
            let mut sink = cases::CaseSink::new("C17", "Corr.C17", &opts.out, 300);
            props::c17::generate(&opts, &mut sink);
            sink.finish(props::c17::RULE, serde_json::json!({}));
        }
        "C11" => {
            let mut sink = cases::CaseSink::new("C11", "Corr.C11 Corr.BinCorr Model.BinaryStart", &opts.out, 200);
            sink.wrap = Some(("XBin".into(), "C11".into()));
            props::c11::generate(&opts, &mut sink);
            sink.wrap = None;
            props::c11::generate_zip_loops(&opts, &mut sink);
            sink.finish(props::c11::RULE, serde_json::json!({}));
        }
        "C13" => {
            let mut sink = cases::CaseSink::new("C13", "Corr.C13", &opts.out, 300);
            props::c13::generate(&opts, &mut sink);
            sink.finish(props::c13::RULE, serde_json::json!({}));
        }
        "C14" => {
            let mut sink = cases::CaseSink::new("C14", "Corr.C14", &opts.out, 300);
            props::c14::generate(&opts, &mut sink);
            sink.finish(props::c14::RULE, serde_json::json!({}));
        }
        "C07" => {
            let mut sink = cases::CaseSink::new("C07", "Corr.C07", &opts.out, 150);
            props::c07::generate(&opts, &mut sink);
            // whole jobs through every aggregation entry point of the API and every kind of sink
            let mut r2 = rng::Rng::new(opts.seed ^ 0x77);
            props::aggjobs::generate(&mut r2, &mut sink, if opts.thorough { 1400 } else { 210 });
            sink.finish(props::c07::RULE, serde_json::json!({}));
        }
        "C19" => {
            let mut sink = cases::CaseSink::new("C19", "Corr.C19 Model.Sched", &opts.out, 100);
            props::c19::generate(&opts, &mut sink);
            sink.finish(props::c19::RULE, serde_json::json!({}));
        }
        "C16" => {
            let mut sink = cases::CaseSink::new("C16", "Corr.ZooCorr Corr.C16", &opts.out, 200);
            props::c16::generate(&opts, &mut sink);
            sink.finish(props::c16::RULE, serde_json::json!({}));
        }
        "C08" => {
            let mut sink = cases::CaseSink::new("C08", "Model.Pipe Corr.C01 Corr.C08 Corr.BinCorr Model.BinaryStart Model.Joins", &opts.out, 100);
            props::c08::generate(&opts, &mut sink);
            // shipping strategies are only visible in whole jobs
            sink.wrap = Some(("CJoinJob".into(), "C01".into()));
            let mut r2 = rng::Rng::new(opts.seed ^ 0x88);
            props::c08::generate_jobs(&mut r2, &mut sink, if opts.thorough { 6 } else { 1 });
            sink.wrap = None;
            sink.finish(props::c08::RULE, serde_json::json!({}));
        }
        "C05" | "C06" => {
            // the component cases re-evaluated against the protocol grammar (C05) /
            // watermark safety (C06); fewer cases per component than in their own checks
            let c05 = opts.prop == "C05";
            let module = if c05 { "Corr.C05" } else { "Corr.C06" };
            let mut sink = cases::CaseSink::new(&opts.prop, &format!("Corr.BinCorr Model.BinaryStart Model.Joins Model.End Corr.LinkCorr Model.Route Corr.RouteCorr Corr.ZooCorr Model.Pipe Corr.C01 Corr.C08 Corr.C09 {module}"), &opts.out, 150);
            let sub = Opts { prop: opts.prop.clone(), thorough: opts.thorough, seed: opts.seed, out: opts.out.clone(), replay: None, scale: 3 };
            sink.wrap = Some(("KStart".into(), "C17".into()));
            props::c17::generate(&sub, &mut sink);
            if c05 {
                sink.wrap = Some(("KBin".into(), "C11".into()));
                props::c11::generate_plain(&sub, &mut sink);
                sink.wrap = Some(("KJoin".into(), "C08".into()));
                props::c08::generate(&sub, &mut sink);
            }
            sink.wrap = Some(("KAgg".into(), "C07".into()));
            props::c07::generate(&sub, &mut sink);
            sink.wrap = Some(("KCount".into(), "C12".into()));
            props::c12::generate_random(&sub, &mut sink);
            sink.wrap = Some(("KEvent".into(), "C13".into()));
            props::c13::generate(&sub, &mut sink);
            sink.wrap = Some(("KReorder".into(), "C16".into()));
            props::c16::generate(&sub, &mut sink);
            sink.wrap = Some(("KFan".into(), "C09".into()));
            if c05 {
                props::c09::generate_zip_merge(&sub, &mut sink);
            } else {
                let mut r2 = rng::Rng::new(opts.seed ^ 0x66);
                props::c09::zip_ts_cases(&mut r2, &mut sink, if opts.thorough { 1500 } else { 150 });
            }
            sink.finish(if c05 { props::RULE_C05 } else { props::RULE_C06 }, serde_json::json!({}));
        }
        "C03" => {
            let mut sink = cases::CaseSink::new("C03", "Model.Sched Corr.C19 Model.End Corr.LinkCorr Corr.C03", &opts.out, 150);
            sink.wrap = Some(("KLink".into(), "LinkCorr".into()));
            props::link::generate_c03(&opts, &mut sink);
            // forward edges are wired by the scheduler: execution graphs of random jobs
            let sub = Opts { prop: opts.prop.clone(), thorough: opts.thorough, seed: opts.seed, out: opts.out.clone(), replay: None, scale: 2 };
            sink.wrap = Some(("KGraph".into(), "C19".into()));
            props::c19::generate(&sub, &mut sink);
            // equal keys from any group-by entry point meet (keyed join of two partitionings)
            sink.wrap = None;
            let mut rng = rng::Rng::new(opts.seed ^ 0x33);
            props::meet::generate(&opts, &mut sink, &mut rng);
            sink.finish(props::link::RULE_C03, serde_json::json!({}));
        }
        "C02" => {
            let mut sink = cases::CaseSink::new("C02", "Model.End Corr.LinkCorr Corr.C02", &opts.out, 100);
            props::link::generate_c02(&opts, &mut sink);
            sink.finish(props::link::RULE_C02, serde_json::json!({}));
        }
        "C09" => {
            let mut sink = cases::CaseSink::new("C09", "Model.End Corr.LinkCorr Corr.BinCorr Model.BinaryStart Model.Route Corr.RouteCorr Corr.C09", &opts.out, 100);
            props::c09::generate(&opts, &mut sink);
            sink.finish(props::c09::RULE, serde_json::json!({}));
        }
        "C01" => {
            let mut sink = cases::CaseSink::new("C01", "Model.Pipe Corr.C01", &opts.out, 40);
            props::c01::generate(&opts, &mut sink);
            sink.finish(props::c01::RULE, serde_json::json!({}));
        }
        "C04" => {
            let mut sink = cases::CaseSink::new("C04", "Model.Pipe Model.Net Corr.C01 Corr.C04", &opts.out, 3);
            // known finding F13: the engineered two-host join that deadlocks (and, in the thorough
            // tier, its control); time unit 250 ms: user sleeps end at 12.5 s
            props::muxjoin::emit(&mut sink, 20, true, 250, opts.seed);
            if opts.thorough {
                props::muxjoin::emit(&mut sink, 20, false, 250, opts.seed + 1);
                props::muxjoin::emit(&mut sink, 14, true, 250, opts.seed + 2);
            }
            sink.wrap = Some(("KJob".into(), "C01".into()));
            props::jobs::generate_c04(&opts, &mut sink);
            sink.finish(props::jobs::RULE_C04, serde_json::json!({}));
        }
        "C10" => {
            let mut sink = cases::CaseSink::new("C10", "Model.Pipe Corr.C01 Corr.C10", &opts.out, 20);
            props::jobs::generate_c10(&opts, &mut sink);
            sink.finish(props::jobs::RULE_C10, serde_json::json!({}));
        }
        "C18" => {
            let mut sink = cases::CaseSink::new("C18", "Model.Pipe Model.End Corr.LinkCorr Corr.C18", &opts.out, 60);
            props::jobs::generate_c18(&opts, &mut sink);
            sink.finish(props::jobs::RULE_C18, serde_json::json!({}));
        }
        "C20" => {
            let mut sink = cases::CaseSink::new("C20", "Model.Pipe Corr.C20", &opts.out, 30);
            props::jobs::generate_c20(&opts, &mut sink);
            sink.finish(props::jobs::RULE_C20, serde_json::json!({}));
        }
        "PROBE_NESTED" => {
            // candidate finding: an operator inside an INNER loop body, behind a shuffle, reads the
            // OUTER loop's state; on several hosts it may see a stale outer state
            use renoir::config::ConfigBuilder;
            use renoir::{RuntimeConfig, StreamContext};
            let mut bad = 0;
            for trial in 0..20u64 {
                let hosts = 3u64;
                let (tx, rx) = std::sync::mpsc::channel();
                for h in 0..hosts {
                    let tx = tx.clone();
                    std::thread::spawn(move || {
                        let mut toml = String::new();
                        for i in 0..hosts { toml.push_str(&format!("[[host]]\naddress = \"127.99.{}.{}\"\nbase_port = 23000\nnum_cores = 2\n\n", 10 + trial, i + 1)); }
                        let mut b = ConfigBuilder::new_remote(); b.parse_toml_str(&toml).unwrap(); b.host_id(h);
                        let cfg: RuntimeConfig = b.build().unwrap();
                        let env = StreamContext::new(cfg);
                        let out = env.stream_par_iter(0..40i64).shuffle().replay(
                            4, 0i64,
                            |s, outer| {
                                s.shuffle().replay(
                                    2, 0i64,
                                    move |s2, _inner| { let o = outer.clone(); s2.shuffle().map(move |x: i64| x + *o.get()) },
                                    |d: &mut i64, x: i64| *d += x,
                                    |st: &mut i64, d: i64| *st += d,
                                    |_st: &mut i64| true,
                                )
                            },
                            |d: &mut i64, x: i64| *d += x,
                            |st: &mut i64, d: i64| *st += d,
                            |_st: &mut i64| true,
                        ).collect_vec();
                        env.execute_blocking();
                        let _ = tx.send(out.get());
                    });
                }
                drop(tx);
                let mut res = None;
                for _ in 0..hosts { if let Ok(Some(v)) = rx.recv_timeout(std::time::Duration::from_secs(60)) { res = Some(v); } }
                // sequential meaning: inner(outer_state) = 2 rounds: r1 = sum(x + o) = 780 + 40 o; inner state after 2 rounds = 2*(780+40 o)
                let mut o = 0i64; for _ in 0..4 { o += 2 * (780 + 40 * o); }
                println!("trial {trial}: got {:?} expected [{o}]", res);
                if res != Some(vec![o]) { bad += 1; }
            }
            println!("mismatches: {bad}/20");
        }
        "PROBE_F13" => {
            for (ny, early) in [(20u64, true), (20, false), (14, true), (16, true), (15, true)] {
                let t = std::time::Instant::now();
                let o = props::muxjoin::run(ny, early, 250, 100 + ny + early as u64);
                println!("ny {ny} early_flush {early}: {:?} after {:.1}s", o, t.elapsed().as_secs_f32());
            }
            std::process::exit(0);
        }
        "PROBE_C10B" => {
            use pipe::*;
            let src = Pipe::Src(true, (0..40).map(|v| (v % 9, v)).collect());
            let side: Vec<(i64, i64)> = (0..9).map(|k| (k, 100 + k)).collect();
            for body in [vec![Op1::JoinSideL(JVar::Inner, JLocal::Hash, side.clone()), Op1::AddState],
                         vec![Op1::JoinSide(JVar::Inner, JLocal::Hash, side.clone()), Op1::AddState],
                         vec![Op1::JoinSideL(JVar::Left, JLocal::SortMerge, side.clone()), Op1::AddState, Op1::Shuffle, Op1::MapAdd(1)]] {
                let p = Pipe::Replay(Box::new(src.clone()), 4, 1_000_000_000_000, body.clone());
                let good = match run(&p, &Deploy::Local(1), Mode::Fixed(1024), std::time::Duration::from_secs(60)) { Outcome::Done(v) => v, o => panic!("{:?}", o) };
                for mode in [Mode::Single, Mode::Fixed(1), Mode::Adaptive(4, 5), Mode::Fixed(1024)] {
                    for cores in [vec![2u64, 2, 2], vec![1, 1, 1], vec![1, 2]] {
                        let mut bad = 0;
                        for _ in 0..10 {
                            match run(&p, &Deploy::Remote(cores.clone()), mode, std::time::Duration::from_secs(60)) { Outcome::Done(v) if v == good => {}, _ => bad += 1 }
                        }
                        println!("body {:?} mode {:?} cores {:?}: wrong {bad}/10", body.iter().map(|o| o.coq().chars().take(14).collect::<String>()).collect::<Vec<_>>(), mode, cores);
                    }
                }
            }
        }
        "PROBE_F12" => {
            use pipe::*;
            let src = Pipe::Src(true, (0..40).map(|v| (v % 5, v)).collect());
            for (rounds, inner) in [(3i64, vec![Op1::Shuffle, Op1::AddState]), (4, vec![Op1::Shuffle, Op1::AddState]), (4, vec![Op1::Shuffle, Op1::AddState, Op1::Shuffle])] {
                let p = Pipe::Replay(Box::new(src.clone()), rounds, 1_000_000_000_000, vec![Op1::NestedO(2, 1_000_000_000_000, inner.clone())]);
                let good = match run(&p, &Deploy::Local(1), Mode::Fixed(1024), std::time::Duration::from_secs(60)) { Outcome::Done(v) => v, o => panic!("{:?}", o) };
                for mode in [Mode::Single, Mode::Fixed(1), Mode::Fixed(3), Mode::Fixed(1024), Mode::Adaptive(1024, 50), Mode::Adaptive(4, 5)] {
                    for cores in [vec![2u64, 2, 2], vec![1, 1, 1], vec![2, 2]] {
                        let mut bad = 0;
                        for _ in 0..10 {
                            match run(&p, &Deploy::Remote(cores.clone()), mode, std::time::Duration::from_secs(60)) { Outcome::Done(v) if v == good => {}, _ => bad += 1 }
                        }
                        println!("rounds {rounds} inner {:?} mode {:?} cores {:?}: wrong {bad}/10", inner, mode, cores);
                    }
                }
            }
        }
        "DEBUG20" => {
            use pipe::*;
            for trig in 0..7 {
                let p = Pipe::Op(Box::new(Pipe::Op(Box::new(Pipe::Op(Box::new(Pipe::Src(true, vec![(0, 9)])), Op1::ReduceMax)), Op1::GroupByMin)), Op1::PanicAt(trig));
                let o = run_crash(&p, &Deploy::Local(1), Mode::Fixed(1024), std::time::Duration::from_secs(20));
                println!("trigger {trig}: {:?}", o);
            }
        }
        p => {
            eprintln!("unknown property {p}");
            std::process::exit(2);
        }
    }
}

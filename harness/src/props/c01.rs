//! C01 (and the whole-job parts of C04, C10, C18): random pipelines on the real engine.
use std::time::Duration;

use serde_json::json;

use crate::cases::CaseSink;
use crate::pipe::{self, Deploy, Mode, Outcome, Pipe};
use crate::rng::Rng;
use crate::Opts;

fn outcome_coq(o: &Outcome, remote: bool, batch: usize, par: u64) -> String {
    match o {
        Outcome::Done(v) => format!("({} [{}])", if remote { "ODoneR" } else { "ODone" }, v.iter().map(|(k, x)| format!("({}, {})", if *k < 0 { format!("({k})") } else { k.to_string() }, if *x < 0 { format!("({x})") } else { x.to_string() })).collect::<Vec<_>>().join("; ")),
        Outcome::Hang => format!("(OHangB {} {})", batch, par),
        _ => "OPanic".into(),
    }
}

pub fn emit(sink: &mut CaseSink, p: &Pipe, configs: &[(Deploy, Mode)], watchdog: Duration) {
    let mut runs = vec![];
    let mut descr = vec![];
    for (d, m) in configs {
        let o = pipe::run(p, d, *m, watchdog);
        if let Outcome::Rejected(_) = o {
            sink.count("plan_rejected_by_api");
            return;
        }
        sink.count(match &o { Outcome::Done(_) => "run_done", Outcome::Hang => "run_hang", _ => "run_panicked" });
        sink.count(match d { Deploy::Local(_) => "deploy_local", Deploy::Remote(_) => "deploy_multi_host" });
        sink.count(&format!("mode_{}", match m { Mode::Single => "single", Mode::Fixed(_) => "fixed", Mode::Adaptive(_, _) => "adaptive" }));
        descr.push(json!({"deployment": d.describe(), "batch_mode": format!("{:?}", m), "outcome": match &o { Outcome::Done(v) => format!("{} elements: {:?}", v.len(), &v[..v.len().min(12)]), x => format!("{:?}", x) }}));
        if let Outcome::Panicked(m) = &o { eprintln!("C01 run panicked: {m}"); }
        runs.push(outcome_coq(&o, matches!(d, Deploy::Remote(_)), match m { Mode::Single => 1, Mode::Fixed(n) => *n as usize, Mode::Adaptive(n, _) => *n as usize }, match d { Deploy::Local(p) => *p, Deploy::Remote(c) => c.iter().sum() }));
    }
    sink.count(if p.has_loop() { "with_loop" } else { "acyclic" });
    let term = format!("(Build_case {} [{}])", p.coq(), runs.join("; "));
    sink.push(term, json!({"pipeline": p.coq(), "runs": descr}), p.input_len() >= 2 && configs.len() >= 2);
}

pub fn generate(opts: &Opts, sink: &mut CaseSink) {
    let mut rng = Rng::new(opts.seed);
    let n = (if opts.thorough { 1500 } else { 120 }) / opts.scale;
    let watchdog = Duration::from_secs(60);
    for _ in 0..n {
        let p = pipe::random_pipe(&mut rng, 2);
        // every pipeline: the sequential reference deployment, plus two random ones
        let mut configs = vec![(Deploy::Local(1), Mode::Fixed(1024))];
        for _ in 0..2 {
            configs.push((pipe::random_deploy(&mut rng), pipe::random_mode(&mut rng)));
        }
        emit(sink, &p, &configs, watchdog);
    }
    // loops with a side input joined inside the body (tiny loop sides, many keys)
    crate::props::jobs::side_input_cases(&mut rng, sink, (if opts.thorough { 100 } else { 16 }) / opts.scale, watchdog);
}

pub const RULE: &str = "random pipelines (sources parallel or sequential, 0..600 elements with skewed keys; map/filter/flat_map/shuffle/replication changes; every aggregation form; joins inner/left/outer x hash/broadcast shipping x hash/sort-merge; merge; split diamonds closed by merge or join; replay and iterate loops with state-dependent bodies, internal shuffles, aggregations and joins with side inputs defined outside the loop, bounds 0..4 and state conditions), each executed to completion under local(1), and two random deployments (local 1..8 or 2..3 loopback hosts with 1..4 cores) x batch modes (single, fixed 1/3/1024, adaptive); a watchdog of 60 s turns a job that does not finish into a hang. Non-trivial: >=2 input elements and >=2 runs; distinct = distinct case terms";

//! C07: whole jobs through EVERY aggregation entry point of the public API named by the
//! property (fold, fold_assoc, reduce, reduce_assoc, group_by_fold / _reduce / _sum / _count /
//! _avg / _min_element / _max_element, group_by + fold / reduce, unique_assoc), on local(par)
//! with several batch modes, observed through every kind of sink (collect_vec, collect,
//! collect_channel, for_each, collect_count). Compared in Coq with the sequential meaning
//! (`agg_spec`, Corr/C07.v).
use std::sync::{Arc, Mutex};

use renoir::operator::Operator;
use renoir::{BatchMode, RuntimeConfig, Stream, StreamContext};
use serde_json::json;

use crate::cases::CaseSink;
use crate::coqfmt::ToCoq;
use crate::rng::Rng;
use crate::script::catch;

type P = (i64, i64);

fn zero<Op: Operator<Out = i64> + 'static>(s: Stream<Op>) -> Stream<impl Operator<Out = P>> {
    s.map(|v: i64| (0i64, v))
}

/// attach sink number `sink`, run the job, return the observed results
fn finish<Op: Operator<Out = P> + 'static>(env: StreamContext, st: Stream<Op>, sink: u64) -> Vec<P> {
    match sink {
        0 => { let r = st.collect_vec(); env.execute_blocking(); r.get().unwrap_or_default() }
        1 => { let r = st.collect::<Vec<P>>(); env.execute_blocking(); r.get().unwrap_or_default() }
        2 => { let rx = st.collect_channel(); env.execute_blocking(); let mut v = vec![]; while let Ok(x) = rx.recv() { v.push(x); } v }
        3 => {
            let acc = Arc::new(Mutex::new(Vec::new()));
            let a2 = acc.clone();
            st.for_each(move |x| a2.lock().unwrap().push(x));
            env.execute_blocking();
            let v = acc.lock().unwrap().clone();
            v
        }
        _ => { let r = st.collect_count(); env.execute_blocking(); vec![(0, r.get().unwrap_or(usize::MAX) as i64)] }
    }
}

pub fn run_job(form: u64, sink: u64, par: u64, bm: BatchMode, data: Vec<P>) -> Vec<P> {
    let env = StreamContext::new(RuntimeConfig::local(par).unwrap());
    let counts: std::collections::HashMap<i64, i64> = data.iter().fold(Default::default(), |mut m, p| { *m.entry(p.0).or_insert(0) += 1; m });
    let n = data.len() as u64;
    // a parallel source: replica i of p takes the elements with index = i mod p
    let d2 = data.clone();
    let src = env
        .stream_par_iter(move |i, p| { let d = d2.clone(); (0..n).filter(move |j| j % p == i).map(move |j| d[j as usize]) })
        .batch_mode(bm);
    let mut out = match form {
        0 => finish(env, zero(src.fold(0i64, |a, p: P| *a += p.1)), sink),
        1 => finish(env, zero(src.fold_assoc(0i64, |a, p: P| *a += p.1, |a, b| *a += b)), sink),
        2 => finish(env, zero(src.map(|p: P| p.1).reduce(|a, b| a.max(b))), sink),
        3 => finish(env, zero(src.map(|p: P| p.1).reduce_assoc(|a, b| a.max(b))), sink),
        4 => finish(env, src.group_by_fold(|p: &P| p.0, 0i64, |a, p: P| *a += p.1, |a, b| *a += b).unkey(), sink),
        5 => finish(env, src.group_by_reduce(|p: &P| p.0, |a, b| { if b.1 > a.1 { *a = b; } }).unkey().map(|(k, p): (i64, P)| (k, p.1)), sink),
        6 => finish(env, src.group_by_sum(|p: &P| p.0, |p: P| p.1).unkey(), sink),
        7 => finish(env, src.group_by_count(|p: &P| p.0).unkey().map(|(k, c): (i64, usize)| (k, c as i64)), sink),
        8 => {
            let c2 = counts.clone();
            finish(env, src.group_by_avg(|p: &P| p.0, |p: &P| p.1 as f64).unkey().map(move |(k, a): (i64, f64)| (k, (a * c2[&k] as f64).round() as i64)), sink)
        }
        9 => finish(env, src.group_by_min_element(|p: &P| p.0, |p: &P| p.1).unkey().map(|(k, p): (i64, P)| (k, p.1)), sink),
        10 => finish(env, src.group_by_max_element(|p: &P| p.0, |p: &P| p.1).unkey().map(|(k, p): (i64, P)| (k, p.1)), sink),
        11 => finish(env, src.group_by(|p: &P| p.0).fold(0i64, |a, p: P| *a += p.1).unkey(), sink),
        12 => finish(env, src.group_by(|p: &P| p.0).map(|(_, p): (&i64, P)| p.1).reduce(|a, b| { if b < *a { *a = b; } }).unkey(), sink),
        _ => finish(env, zero(src.map(|p: P| p.1).unique_assoc()), sink),
    };
    out.sort();
    out
}

pub fn generate(rng: &mut Rng, sink: &mut CaseSink, n: usize) {
    for i in 0..n {
        let form = (i as u64) % 14;
        let snk = ((i as u64) / 14 + rng.below(5)) % 5;
        let par = *rng.pick(&[1u64, 2, 3, 4, 8]);
        let len = if rng.chance(1, 8) { 0 } else { rng.below(40) };
        let nk = rng.range(1, 6);
        // negative values and keys too; skewed keys; many ties (min / max elements with equal values)
        let data: Vec<P> = (0..len).map(|_| (if rng.chance(1, 3) { 0 } else { rng.range(-1, nk) }, rng.range(-9, 9))).collect();
        let bm = match rng.below(4) { 0 => BatchMode::single(), 1 => BatchMode::fixed(3), 2 => BatchMode::adaptive(8, std::time::Duration::from_millis(3)), _ => BatchMode::fixed(1024) };
        let d2 = data.clone();
        let out = catch(move || run_job(form, snk, par, bm, d2)).unwrap_or_else(|e| { eprintln!("aggjob: {e}"); vec![(i64::MIN, i64::MIN)] });
        sink.count("aggregation_job");
        sink.count(&format!("agg_form_{form}"));
        sink.count(&format!("agg_sink_{snk}"));
        sink.push(format!("(CAggJob {}%N {}%N {} {} {})", form, snk, (par as i64).coq(), data.coq(), out.coq()),
                  json!({"kind": "aggregation job", "form": form, "sink": snk, "parallelism": par, "data": format!("{:?}", data), "impl_output": format!("{:?}", out)}),
                  data.len() >= 3 && par >= 2);
    }
}

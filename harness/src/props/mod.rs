pub mod c12;
pub mod c15;
pub mod c17;
pub mod c11;
pub mod c13;
pub mod c14;
pub mod c07;

pub mod c12;
pub mod c15;
pub mod c17;
pub mod c11;

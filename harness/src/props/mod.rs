pub mod link;
pub mod c01;
pub mod jobs;
pub mod c12;
pub mod c15;
pub mod c17;
pub mod c11;
pub mod c13;
pub mod c14;
pub mod c07;
pub mod c19;
pub mod c16;
pub mod c08;
pub mod c09;

pub const RULE_C05: &str = "the generated cases of the component checks (real single-input Start with arbitrary arrival orders, two-input Start without cache, fold / keyed fold / second-phase fold, count windows, event-time and transaction windows, every join algorithm, reorder and sequential chains), each re-evaluated against the protocol grammar at the component's output and against the component's per-round exactness predicate; non-trivial / distinct as in the component checks";
pub const RULE_C06: &str = "the generated cases of the component checks that carry timestamps and watermarks (real single-input Start, fold / keyed fold, count windows, event-time windows, reorder, flat_map chains), re-evaluated against watermark safety of the component's output whenever its inputs are safe; non-trivial / distinct as in the component checks";
pub mod muxjoin;
pub mod meet;

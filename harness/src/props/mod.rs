pub mod c12;
pub mod c15;

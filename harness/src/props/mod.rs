pub mod c12;

//! The "operator zoo": random chains of the element-wise operators of the public API
//! (filter_map, flatten, inspect, rich_map / rich_flat_map / rich_filter_map on plain and keyed
//! streams, keyed flat_map / filter_map / flatten, key_by / unkey / drop_key, add_timestamps,
//! drop_timestamps, map / filter / flat_map) built through the API in ONE block, driven by a
//! script on the calling thread. Model: Corr/ZooCorr.v (`zoo_machine`), oracle `zoo_spec`.
use renoir::operator::StreamElement as E;
use serde_json::json;

use crate::cases::CaseSink;
use crate::coqfmt::{app, ToCoq};
use crate::dynop::{erase, DynStream};
use crate::rng::Rng;
use crate::script::{catch, run_chain};
use crate::startdrv::gen;

#[derive(Clone, Debug)]
pub enum ZOp {
    Map(i64), Filter(i64), FlatMap(i64), FilterMap(i64, i64), Flatten(i64),
    Inspect, RichMap, RichFlatMap, RichFilterMap(i64),
    KRichMap(i64), KFlatMap(i64, i64), KFilterMap(i64, i64), KRichFlatMap(i64),
    KRichFilterMap(i64, i64), KFlatten(i64, i64), Unkey(i64),
    AddTs(i64, i64, i64, i64), DropTs,
}

impl ToCoq for ZOp {
    fn coq(&self) -> String {
        use ZOp::*;
        match self {
            Map(a) => app("ZMap", &[a.coq()]),
            Filter(m) => app("ZFilter", &[m.coq()]),
            FlatMap(r) => app("ZFlatMap", &[r.coq()]),
            FilterMap(m, a) => app("ZFilterMap", &[m.coq(), a.coq()]),
            Flatten(r) => app("ZFlatten", &[r.coq()]),
            Inspect => "ZInspect".into(),
            RichMap => "ZRichMap".into(),
            RichFlatMap => "ZRichFlatMap".into(),
            RichFilterMap(m) => app("ZRichFilterMap", &[m.coq()]),
            KRichMap(m) => app("ZKRichMap", &[m.coq()]),
            KFlatMap(m, r) => app("ZKFlatMap", &[m.coq(), r.coq()]),
            KFilterMap(m, a) => app("ZKFilterMap", &[m.coq(), a.coq()]),
            KRichFlatMap(m) => app("ZKRichFlatMap", &[m.coq()]),
            KRichFilterMap(m, q) => app("ZKRichFilterMap", &[m.coq(), q.coq()]),
            KFlatten(m, r) => app("ZKFlatten", &[m.coq(), r.coq()]),
            Unkey(m) => app("ZUnkey", &[m.coq()]),
            AddTs(mul, off, d, wmod) => app("ZAddTs", &[mul.coq(), off.coq(), d.coq(), wmod.coq()]),
            DropTs => "ZDropTs".into(),
        }
    }
}

fn rep(v: i64, r: i64) -> Vec<i64> {
    std::iter::repeat(v).take(r.max(0) as usize).collect()
}

/// append one operator to the chain through the public API
pub fn apply(st: DynStream<i64>, op: &ZOp) -> DynStream<i64> {
    use ZOp::*;
    match op.clone() {
        Map(a) => erase(st.map(move |v| v + a)),
        Filter(m) => erase(st.filter(move |v| v.rem_euclid(m) != 0)),
        FlatMap(r) => erase(st.flat_map(move |v| rep(v, r))),
        FilterMap(m, a) => erase(st.filter_map(move |v| if v.rem_euclid(m) != 0 { Some(v + a) } else { None })),
        Flatten(r) => erase(st.map(move |v| rep(v, r)).flatten()),
        Inspect => {
            let mut seen = 0u64;
            erase(st.inspect(move |_v| { seen += 1; let _ = seen; }))
        }
        RichMap => {
            let mut s = 0i64;
            erase(st.rich_map(move |v| { s += v; s }))
        }
        RichFlatMap => {
            let mut c = 0i64;
            erase(st.rich_flat_map(move |v| { c += 1; if c % 2 != 0 { vec![v, c] } else { vec![v] } }))
        }
        RichFilterMap(m) => {
            let mut c = 0i64;
            erase(st.rich_filter_map(move |v| { c += 1; if c.rem_euclid(m) == 0 { None } else { Some(v + c) } }))
        }
        KRichMap(m) => {
            let mut s = 0i64;
            erase(st.key_by(move |v| v.rem_euclid(m)).rich_map(move |(_k, v)| { s += v; s }).drop_key())
        }
        KFlatMap(m, r) => erase(st.key_by(move |v| v.rem_euclid(m)).flat_map(move |(k, v)| rep(v + k, r)).drop_key()),
        KFilterMap(m, a) => erase(
            st.key_by(move |v| v.rem_euclid(m))
                .filter_map(move |(k, v)| if v.rem_euclid(m + 1) != 0 { Some(v + a + *k) } else { None })
                .drop_key(),
        ),
        KRichFlatMap(m) => {
            let mut c = 0i64;
            erase(
                st.key_by(move |v| v.rem_euclid(m))
                    .rich_flat_map(move |(_k, v)| { c += 1; if c % 2 != 0 { vec![v, c] } else { vec![v] } })
                    .drop_key(),
            )
        }
        KRichFilterMap(m, q) => {
            let mut c = 0i64;
            erase(
                st.key_by(move |v| v.rem_euclid(m))
                    .rich_filter_map(move |(_k, v)| { c += 1; if c.rem_euclid(q) == 0 { None } else { Some(v + c) } })
                    .drop_key(),
            )
        }
        KFlatten(m, r) => erase(st.key_by(move |v| v.rem_euclid(m)).map(move |(_k, v)| rep(v, r)).flatten().drop_key()),
        Unkey(m) => erase(st.key_by(move |v| v.rem_euclid(m)).unkey().map(|(k, v)| k * 1000 + v)),
        AddTs(mul, off, d, wmod) => erase(st.add_timestamps(
            move |v| v * mul + off,
            move |v, ts| if v.rem_euclid(wmod) == 0 { Some(*ts - d) } else { None },
        )),
        DropTs => erase(st.drop_timestamps()),
    }
}

fn gen_op(rng: &mut Rng, timestamped: &mut bool) -> ZOp {
    use ZOp::*;
    loop {
        let m = rng.range(2, 4);
        return match rng.below(19) {
            0 => Map(rng.range(-3, 3)),
            1 => Filter(m),
            2 => FlatMap(rng.range(0, 3)),
            3 => FilterMap(m, rng.range(-2, 2)),
            4 => Flatten(rng.range(0, 3)),
            5 => Inspect,
            6 => RichMap,
            7 => RichFlatMap,
            8 => RichFilterMap(m),
            9 => KRichMap(m),
            10 => KFlatMap(m, rng.range(0, 2)),
            11 => KFilterMap(m, rng.range(-2, 2)),
            12 => KRichFlatMap(m),
            13 => KRichFilterMap(m, rng.range(2, 3)),
            14 => KFlatten(m, rng.range(0, 2)),
            15 => Unkey(m),
            16 | 17 => {
                if *timestamped { *timestamped = false; DropTs } else {
                    *timestamped = true;
                    AddTs(rng.range(1, 3), rng.range(-5, 5), rng.range(0, 3), rng.range(1, 3))
                }
            }
            _ => { if !*timestamped { continue; } *timestamped = false; DropTs }
        };
    }
}

/// a multi-round script; `timestamped` = false: only items / FlushBatch / markers
fn script(rng: &mut Rng, timestamped: bool) -> Vec<E<i64>> {
    if timestamped {
        let rounds = rng.range(1, 3) as usize;
        let id = rng.range(0, 3);
        let mut v = gen::sender_stream(rng, rounds, 12, id);
        // sprinkle FlushBatch
        let mut i = 0;
        while i < v.len() {
            if !matches!(v[i], E::Terminate) && rng.chance(1, 9) { v.insert(i, E::FlushBatch); i += 1; }
            i += 1;
        }
        v
    } else {
        let mut v = vec![];
        for _ in 0..rng.range(1, 3) {
            for _ in 0..rng.below(12) {
                if rng.chance(1, 9) { v.push(E::FlushBatch); } else { v.push(E::Item(rng.range(-20, 60))); }
            }
            v.push(E::FlushAndRestart);
        }
        v.push(E::Terminate);
        v
    }
}

pub fn generate(rng: &mut Rng, sink: &mut CaseSink, n: usize) {
    for i in 0..n {
        let mut ts = rng.chance(1, 2);
        let input = script(rng, ts);
        let nops = if i < 40 { 1 } else { rng.range(1, 5) as usize };
        let ops: Vec<ZOp> = (0..nops).map(|_| gen_op(rng, &mut ts)).collect();
        let (inp2, ops2) = (input.clone(), ops.clone());
        let out = catch(move || run_chain(inp2, move |st| {
            let mut s = erase(st);
            for o in &ops2 { s = apply(s, o); }
            s
        }))
        .unwrap_or_else(|e| { eprintln!("zoo: {e}"); vec![E::Item(i64::MIN)] });
        let nd = input.iter().filter(|e| matches!(e, E::Item(_) | E::Timestamped(_, _))).count();
        sink.count("zoo_chain");
        sink.count(&format!("zoo_ops_{}", ops.len()));
        for o in &ops { sink.count(&format!("zoo_{}", format!("{:?}", o).split('(').next().unwrap_or(""))); }
        sink.push(format!("(CZoo {} {} {})", ops.coq(), input.coq(), out.coq()),
                  json!({"kind": "operator zoo", "ops": format!("{:?}", ops), "input": format!("{:?}", input), "impl_output": format!("{:?}", out)}),
                  nd >= 3);
    }
}

//! C07: aggregations — real chains that begin with the real `Start`, fed by n replicas.
use renoir::operator::StreamElement as E;
use serde_json::json;

use crate::cases::CaseSink;
use crate::coqfmt::ToCoq;
use crate::rng::Rng;
use crate::script::{catch, run_chain};
use crate::startdrv::{drive_after_start, gen, Batch};
use crate::Opts;

fn arrivals(rng: &mut Rng, n: usize, rounds: usize, keyed_vals: bool) -> Vec<Batch<i64>> {
    let per: Vec<Vec<Vec<E<i64>>>> = (0..n)
        .map(|s| {
            let maxlen = if rng.chance(1, 4) { 0 } else { 9 };
            let mut st = gen::sender_stream(rng, rounds, maxlen, s as i64 + 1);
            if keyed_vals {
                // small values so that keys collide across replicas (skew: many zeros)
                for e in st.iter_mut() {
                    match e {
                        E::Item(v) | E::Timestamped(v, _) => *v = if rng.chance(1, 3) { 0 } else { rng.range(0, 12) },
                        _ => {}
                    }
                }
            }
            gen::batches(rng, &st)
        })
        .collect();
    gen::interleave(rng, per, true)
}

fn bad<T>(x: T) -> Vec<E<T>> {
    vec![E::Item(x)]
}

pub fn generate(opts: &Opts, sink: &mut CaseSink) {
    let mut rng = Rng::new(opts.seed);
    let n_cases = (if opts.thorough { 3000 } else { 350 }) / opts.scale;
    for _ in 0..n_cases {
        let n = rng.range(1, 5) as usize;
        let rounds = *rng.pick(&[1usize, 1, 2, 3]);
        // global fold
        let arr = arrivals(&mut rng, n, rounds, false);
        let out = drive_after_start(n as u64, arr.clone(), |s| s.fold(Vec::new(), |v: &mut Vec<i64>, x: i64| v.push(x)))
            .unwrap_or_else(|m| { eprintln!("C07 fold: {m}"); bad(vec![i64::MIN]) });
        sink.count("fold");
        let nd = arr.iter().flat_map(|b| b.1.iter()).filter(|e| matches!(e, E::Item(_) | E::Timestamped(_, _))).count();
        sink.push(format!("(CFold {} {} {})", n.coq(), arr.coq(), out.coq()),
                  json!({"kind": "fold", "replicas": n, "arrivals": format!("{:?}", arr), "impl_output": format!("{:?}", out)}), nd >= 2 && n >= 2);
        // group_by + keyed fold
        let m = *rng.pick(&[1i64, 2, 3, 7]);
        let arr = arrivals(&mut rng, n, rounds, true);
        let out = drive_after_start(n as u64, arr.clone(), move |s| {
            s.group_by(move |v: &i64| v.rem_euclid(m)).fold(Vec::new(), |v: &mut Vec<i64>, x: i64| v.push(x)).0
        })
        .unwrap_or_else(|e| { eprintln!("C07 keyed: {e}"); bad((i64::MIN, vec![])) });
        sink.count("group_by_fold_keyed");
        let nd = arr.iter().flat_map(|b| b.1.iter()).filter(|e| matches!(e, E::Item(_) | E::Timestamped(_, _))).count();
        sink.push(format!("(CKeyed {} {} {} {})", n.coq(), m.coq(), arr.coq(), out.coq()),
                  json!({"kind": "group_by+fold", "replicas": n, "modulus": m, "arrivals": format!("{:?}", arr), "impl_output": format!("{:?}", out)}), nd >= 2 && n >= 2);
        // second phase of group_by_fold: (key, partial sum) pairs from n local folds
        let arr0 = arrivals(&mut rng, n, rounds, true);
        let arr: Vec<Batch<(i64, i64)>> = arr0
            .iter()
            .map(|(s, b)| {
                (*s, b.iter().map(|e| match e {
                    E::Item(v) => E::Item((v.rem_euclid(4), *v * 3 + 1)),
                    E::Timestamped(v, t) => E::Timestamped((v.rem_euclid(4), *v * 3 + 1), *t),
                    E::Watermark(t) => E::Watermark(*t),
                    E::FlushAndRestart => E::FlushAndRestart,
                    E::Terminate => E::Terminate,
                    E::FlushBatch => E::FlushBatch,
                }).collect())
            })
            .collect();
        let out = drive_after_start(n as u64, arr.clone(), |s| {
            // the first phase runs in the (never executed) source block; the chain under test is the
            // second phase `Start -> KeyedFold(global)`
            s.group_by_fold(|x: &(i64, i64)| x.0, 0i64, |acc: &mut i64, x: (i64, i64)| *acc += x.1, |acc: &mut i64, p: i64| *acc += p).0
        });
        // group_by_fold's second block receives (key, partial) pairs of type (i64, i64)
        let out = out.unwrap_or_else(|e| { eprintln!("C07 global: {e}"); bad((i64::MIN, 0)) });
        sink.count("group_by_fold_global_phase");
        sink.push(format!("(CGlobalSum {} {} {})", n.coq(), arr.coq(), out.coq()),
                  json!({"kind": "group_by_fold second phase", "replicas": n, "arrivals": format!("{:?}", arr), "impl_output": format!("{:?}", out)}), n >= 2);
    }
    // keyed rich_map state
    for _ in 0..((if opts.thorough { 1000 } else { 150 }) / opts.scale) {
        let m = *rng.pick(&[1i64, 2, 3, 5]);
        let rr = rng.range(1, 2) as usize;
        let st = gen::sender_stream(&mut rng, rr, 12, 1);
        let st2 = st.clone();
        let out = catch(move || {
            run_chain(st2, move |s| {
                s.key_by(move |v: &i64| v.rem_euclid(m))
                    .rich_map({
                        let mut count = 0i64;
                        move |(_k, v): (&i64, i64)| {
                            count += 1;
                            (v, count)
                        }
                    })
                    .0
            })
        })
        .unwrap_or_else(|_| bad((i64::MIN, (0, 0))));
        sink.count("keyed_rich_map");
        sink.push(format!("(CRich {} {} {})", m.coq(), st.coq(), out.coq()),
                  json!({"kind": "keyed rich_map", "modulus": m, "input": format!("{:?}", st), "impl_output": format!("{:?}", out)}), st.len() >= 4);
    }
}

pub const RULE: &str = "real chains behind the real Start with 1..5 upstream replicas, 1..3 rounds, arbitrary round-synchronised arrival interleavings and batchings, empty partitions, skewed/single keys, more keys than replicas: global fold (collect), group_by+keyed fold (collect), second phase of group_by_fold (sum of partial sums), keyed rich_map running count; non-trivial: >=2 data elements and >=2 replicas; distinct = distinct case terms";

//! C15: sources. Ranges through the public `IntoParallelSource::generate_iterator`;
//! file / csv sources through `setup` with the metadata of replica `id` of `n`.
use std::io::Write;
use std::ops::Range;
use std::path::PathBuf;

use renoir::operator::source::{ChannelSource, CsvSource, FileSource, IntoParallelSource, IteratorSource};
use renoir::operator::{Operator, StreamElement as E};
use renoir::verif::Net;
use renoir::BatchMode;
use serde_json::json;

use crate::cases::CaseSink;
use crate::coqfmt::{app, ToCoq};
use crate::rng::Rng;
use crate::script::{catch, pull_all};
use crate::Opts;

fn z(x: i128) -> String {
    if x < 0 { format!("({})", x) } else { format!("{}", x) }
}
fn zpair(o: &Option<(i128, i128)>) -> String {
    match o {
        Some((a, b)) => format!("(Some ({}, {}))", z(*a), z(*b)),
        None => "None".into(),
    }
}

macro_rules! range_case {
    ($t:ty, $lo:expr, $hi:expr, $peers:expr) => {{
        let lo: $t = $lo;
        let hi: $t = $hi;
        (0..$peers)
            .map(|i| {
                catch(move || {
                    let r: Range<$t> = (lo..hi).generate_iterator(i, $peers);
                    (r.start as i128, r.end as i128)
                })
                .ok()
            })
            .collect::<Vec<Option<(i128, i128)>>>()
    }};
}

const TYPES: [&str; 10] = ["u8", "u16", "u32", "u64", "usize", "i8", "i16", "i32", "i64", "isize"];

fn ty_bounds(t: &str) -> (i128, i128) {
    match t {
        "u8" => (0, u8::MAX as i128),
        "u16" => (0, u16::MAX as i128),
        "u32" => (0, u32::MAX as i128),
        "u64" | "usize" => (0, u64::MAX as i128),
        "i8" => (i8::MIN as i128, i8::MAX as i128),
        "i16" => (i16::MIN as i128, i16::MAX as i128),
        "i32" => (i32::MIN as i128, i32::MAX as i128),
        _ => (i64::MIN as i128, i64::MAX as i128),
    }
}
fn ty_coq(t: &str) -> String {
    match t {
        "u64" | "usize" => "KU64".into(),
        "isize" => "(KSigned ty_i64)".into(),
        t => format!("(KSigned ty_{})", t),
    }
}

fn run_range(t: &str, lo: i128, hi: i128, peers: u64) -> Vec<Option<(i128, i128)>> {
    match t {
        "u8" => range_case!(u8, lo as u8, hi as u8, peers),
        "u16" => range_case!(u16, lo as u16, hi as u16, peers),
        "u32" => range_case!(u32, lo as u32, hi as u32, peers),
        "u64" => range_case!(u64, lo as u64, hi as u64, peers),
        "usize" => range_case!(usize, lo as usize, hi as usize, peers),
        "i8" => range_case!(i8, lo as i8, hi as i8, peers),
        "i16" => range_case!(i16, lo as i16, hi as i16, peers),
        "i32" => range_case!(i32, lo as i32, hi as i32, peers),
        "i64" => range_case!(i64, lo as i64, hi as i64, peers),
        _ => range_case!(isize, lo as isize, hi as isize, peers),
    }
}

fn emit_range(sink: &mut CaseSink, t: &str, lo: i128, hi: i128, peers: u64) {
    let outs = run_range(t, lo, hi, peers);
    let outs_s: Vec<String> = outs.iter().map(zpair).collect();
    let term = format!("(CRange {} {} {} {} [{}])", ty_coq(t), z(lo), z(hi), peers, outs_s.join("; "));
    sink.count(&format!("range_{}", t));
    sink.count(if lo > hi { "range_reversed" } else if lo == hi { "range_empty" } else { "range_forward" });
    if outs.iter().any(|o| o.is_none()) {
        sink.count("range_impl_panicked");
    }
    let d = json!({"kind": "range", "type": t, "lo": lo.to_string(), "hi": hi.to_string(), "peers": peers,
                   "impl_chunks": format!("{:?}", outs)});
    sink.push(term, d, hi - lo >= 2 && peers >= 2);
}

fn tmp_path(opts: &Opts, name: &str) -> PathBuf {
    let d = opts.out.join("tmp");
    std::fs::create_dir_all(&d).unwrap();
    d.join(name)
}

fn bytes_coq(b: &[u8]) -> String {
    let v: Vec<String> = b.iter().map(|x| x.to_string()).collect();
    format!("[{}]", v.join("; "))
}

fn emit_file(opts: &Opts, sink: &mut CaseSink, bytes: &[u8], n: u64) {
    let path = tmp_path(opts, "file.txt");
    std::fs::File::create(&path).unwrap().write_all(bytes).unwrap();
    let mut outs = vec![];
    for id in 0..n {
        let p = path.clone();
        let r = catch(move || {
            let mut src = FileSource::new(p);
            let mut net = Net::new(0);
            src.setup(&mut net.metadata_of(id, n, BatchMode::fixed(1024)));
            let out = pull_all(&mut src);
            out.into_iter()
                .filter_map(|e| match e { E::Item(s) => Some(s.into_bytes()), _ => None })
                .collect::<Vec<Vec<u8>>>()
        })
        .ok();
        outs.push(r);
    }
    let outs_s: Vec<String> = outs
        .iter()
        .map(|o| match o {
            Some(ls) => format!("(Some [{}])", ls.iter().map(|l| bytes_coq(l)).collect::<Vec<_>>().join("; ")),
            None => "None".into(),
        })
        .collect();
    let term = format!("(CFile {} {}%nat [{}])", bytes_coq(bytes), n, outs_s.join("; "));
    let nlines = bytes.iter().filter(|b| **b == b'\n').count();
    sink.count("file");
    sink.count(if bytes.is_empty() { "file_empty" } else if (bytes.len() as u64) < n { "file_smaller_than_replicas" } else if *bytes.last().unwrap() != b'\n' { "file_no_final_newline" } else { "file_regular" });
    let d = json!({"kind": "file", "bytes": String::from_utf8_lossy(bytes), "replicas": n,
                   "impl_lines_per_replica": format!("{:?}", outs.iter().map(|o| o.as_ref().map(|ls| ls.iter().map(|l| String::from_utf8_lossy(l).to_string()).collect::<Vec<_>>())).collect::<Vec<_>>())});
    sink.push(term, d, nlines >= 2 && n >= 2);
}

fn emit_csv(opts: &Opts, sink: &mut CaseSink, bytes: &[u8], header: bool, n: u64) {
    let path = tmp_path(opts, "file.csv");
    std::fs::File::create(&path).unwrap().write_all(bytes).unwrap();
    let mut outs = vec![];
    for id in 0..n {
        let p = path.clone();
        let r = catch(move || {
            let mut src = CsvSource::<(i64, i64)>::new(p).has_headers(header);
            let mut net = Net::new(0);
            src.setup(&mut net.metadata_of(id, n, BatchMode::fixed(1024)));
            let out = pull_all(&mut src);
            out.into_iter()
                .filter_map(|e| match e { E::Item(s) => Some(s), _ => None })
                .collect::<Vec<(i64, i64)>>()
        })
        .ok();
        outs.push(r);
    }
    let term = format!("(CCsv {} {} {}%nat {})", bytes_coq(bytes), header.coq(), n, outs.coq());
    sink.count("csv");
    sink.count(if header { "csv_with_header" } else { "csv_without_header" });
    let nrec: usize = outs.iter().map(|o| o.as_ref().map(|v| v.len()).unwrap_or(0)).sum();
    let d = json!({"kind": "csv", "bytes": String::from_utf8_lossy(bytes), "has_header": header, "replicas": n,
                   "impl_records_per_replica": format!("{:?}", outs)});
    sink.push(term, d, nrec >= 2 && n >= 2);
}

fn emit_seq(sink: &mut CaseSink, xs: Vec<i64>, channel: bool) {
    let xs2 = xs.clone();
    let out: Vec<E<i64>> = if channel {
        let (tx, mut src) = ChannelSource::<i64>::new(xs.len().max(1));
        for x in &xs2 {
            tx.send(*x).unwrap();
        }
        drop(tx);
        pull_all(&mut src)
    } else {
        let mut src = IteratorSource::new(xs2.into_iter());
        let mut net = Net::new(0);
        src.setup(&mut net.metadata(BatchMode::fixed(1024)));
        pull_all(&mut src)
    };
    let term = app("CSeq", &[xs.coq(), out.coq()]);
    sink.count(if channel { "channel_source" } else { "iterator_source" });
    let d = json!({"kind": if channel {"channel"} else {"iterator"}, "input": format!("{:?}", xs), "impl_output": format!("{:?}", out)});
    sink.push(term, d, xs.len() >= 2);
}

fn gen_text(rng: &mut Rng, len: usize) -> Vec<u8> {
    let mut v = vec![];
    while v.len() < len {
        match rng.below(10) {
            0..=2 => v.push(b'\n'),
            3 => { v.push(b'\r'); v.push(b'\n'); }
            4 => v.push(b','),
            5 => v.extend_from_slice("é".as_bytes()),
            6 => v.push(b' '),
            _ => v.push(b'a' + rng.below(3) as u8),
        }
    }
    v
}

fn gen_csv(rng: &mut Rng, header: bool) -> Vec<u8> {
    let mut s = String::new();
    let crlf = rng.chance(1, 3);
    let eol = if crlf { "\r\n" } else { "\n" };
    if header {
        s.push_str("a,b");
        s.push_str(eol);
    }
    let n = rng.below(14);
    for i in 0..n {
        if rng.chance(1, 8) {
            s.push_str(eol); // empty line
        }
        let a = if rng.chance(1, 4) { rng.below(100000) } else { i };
        s.push_str(&format!("{},{}", a, rng.below(50)));
        if i + 1 < n || rng.chance(3, 4) {
            s.push_str(eol);
        }
    }
    s.into_bytes()
}

pub fn generate(opts: &Opts, sink: &mut CaseSink) {
    let mut rng = Rng::new(opts.seed);
    // ---- corpus (previously failing inputs first)
    emit_range(sink, "i32", 10, 0, 2); // F8
    emit_range(sink, "u64", 10, 0, 3); // F8
    emit_range(sink, "u8", 250, 255, 4); // F8c
    emit_range(sink, "i8", 122, 127, 4); // F8c
    emit_range(sink, "usize", u64::MAX as i128 - 10, u64::MAX as i128, 3); // F8b
    emit_range(sink, "i64", -5, 5, 4);
    // ---- ranges: boundary-heavy
    let n_ranges = if opts.thorough { 20000 } else { 1500 };
    for _ in 0..n_ranges {
        let t = *rng.pick(&TYPES);
        let (tlo, thi) = ty_bounds(t);
        let span_max: i128 = (thi - tlo).min(1i128 << 62);
        let len: i128 = match rng.below(6) {
            0 => 0,
            1 => rng.below(12) as i128,
            2 => rng.below(300) as i128,
            3 => span_max,
            4 => span_max - rng.below(5) as i128,
            _ => (rng.next() as i128 % (span_max + 1)).abs(),
        }
        .min(span_max)
        .max(0);
        let lo: i128 = match rng.below(5) {
            0 => tlo,
            1 => thi - len,
            2 => thi - len - rng.below(3).min((thi - len - tlo) as u64) as i128,
            3 => (tlo + rng.below(10) as i128).min(thi - len),
            _ => tlo + ((rng.next() as i128).abs() % (thi - len - tlo + 1)),
        };
        let hi = lo + len;
        let peers = match rng.below(5) {
            0 => 1,
            1 => rng.range(2, 9) as u64,
            2 => (len as u64).saturating_add(rng.below(3)).clamp(1, 64),
            3 => rng.range(10, 200) as u64,
            _ => rng.range(1, 17) as u64,
        };
        if rng.chance(1, 8) {
            emit_range(sink, t, hi, lo, peers); // reversed
        } else {
            emit_range(sink, t, lo, hi, peers);
        }
    }
    // ---- files: exhaustive over {a, \n} up to length L, replicas 1..R
    let (max_len, max_rep) = if opts.thorough { (10, 7) } else { (7, 5) };
    for len in 0..=max_len {
        for code in 0..(1u32 << len) {
            let bytes: Vec<u8> = (0..len).map(|i| if code >> i & 1 == 1 { b'\n' } else { b'a' }).collect();
            for n in 1..=max_rep {
                emit_file(opts, sink, &bytes, n);
                sink.count("file_exhaustive");
            }
        }
    }
    let n_files = if opts.thorough { 4000 } else { 400 };
    for _ in 0..n_files {
        let len = if rng.chance(1, 5) { rng.below(6) } else { rng.below(120) } as usize;
        let bytes = gen_text(&mut rng, len);
        let n = if rng.chance(1, 4) { rng.range(1, 40) } else { rng.range(1, 9) } as u64;
        emit_file(opts, sink, &bytes, n);
    }
    // ---- csv
    let n_csv = if opts.thorough { 4000 } else { 500 };
    for _ in 0..n_csv {
        let header = rng.chance(1, 2);
        let bytes = gen_csv(&mut rng, header);
        let n = if rng.chance(1, 4) { rng.range(1, 30) } else { rng.range(1, 9) } as u64;
        emit_csv(opts, sink, &bytes, header, n);
    }
    // ---- records / lines LONGER than the readers' buffers (BufReader: 8 KiB; csv crate: 8 KiB):
    // a few records of 9-20 KB (numbers padded with leading zeros) among short ones, split over
    // 2..5 replicas so that range boundaries fall inside long records
    for i in 0..(if opts.thorough { 12 } else { 4 }) {
        let header = i % 2 == 0;
        let mut s = String::new();
        if header { s.push_str("a,b\n"); }
        let nrec = rng.range(3, 6);
        for r in 0..nrec {
            let pad = if rng.chance(1, 2) { rng.range(8500, 20000) as usize } else { rng.range(0, 30) as usize };
            s.push_str(&format!("{}{},{}\n", "0".repeat(pad), r + 1, rng.below(50)));
        }
        let n = rng.range(2, 5) as u64;
        sink.count("csv_long_records");
        emit_csv(opts, sink, s.as_bytes(), header, n);
        let mut t = String::new();
        for r in 0..nrec {
            let pad = if rng.chance(1, 2) { rng.range(8500, 20000) as usize } else { rng.range(0, 30) as usize };
            t.push_str(&format!("{}{}\n", "x".repeat(pad), r));
        }
        sink.count("file_long_lines");
        emit_file(opts, sink, t.as_bytes(), n);
    }
    // ---- non-parallel sources
    for i in 0..(if opts.thorough { 300 } else { 60 }) {
        let len = rng.below(40) as usize;
        let xs: Vec<i64> = (0..len).map(|_| rng.range(-1000, 1000)).collect();
        emit_seq(sink, xs, i % 2 == 0);
    }
}

pub const RULE: &str = "ranges: 10 integer types x boundary-biased (lo,hi,peers) incl. empty, reversed, near type limits, spans up to 2^62, peers up to 200; files: exhaustive byte strings over {a,\\n} up to length 7 (10 thorough) x replicas 1..5 (7) plus random text with CRLF/multibyte/long lines and up to 40 replicas; csv: generated numeric records with/without header, CRLF, empty lines, missing final newline; csv records and text lines of 9-20 KB (longer than the 8 KiB reader buffers) split over 2..5 replicas; iterator/channel sources. Non-trivial: >=2 elements/lines/records and >=2 replicas (>=2 items for sequential sources); distinct = distinct case terms";

//! C13: event-time and transaction windows, through the real keyed window operator.
use renoir::operator::window::{EventTimeWindow, TransactionOp, TransactionWindow};
use renoir::operator::StreamElement as E;
use serde_json::json;

use crate::cases::CaseSink;
use crate::coqfmt::ToCoq;
use crate::rng::Rng;
use crate::script::{catch, run_chain};
use crate::Opts;

type In = (i64, i64);
type Out = (i64, Vec<i64>);

fn tx_logic(x: &In) -> TransactionOp {
    match x.1.rem_euclid(4) {
        1 => TransactionOp::Commit,
        2 => TransactionOp::CommitAfter(x.1.div_euclid(1000) + 2),
        3 => TransactionOp::Discard,
        _ => TransactionOp::Continue,
    }
}

fn run_event(size: i64, slide: i64, input: Vec<E<In>>) -> Result<Vec<E<Out>>, String> {
    catch(move || {
        run_chain(input, move |s| {
            s.key_by(|x: &In| x.0)
                .window(EventTimeWindow::sliding(size, slide))
                .fold(Vec::new(), |v: &mut Vec<i64>, x: In| v.push(x.1))
                .0
        })
    })
}
fn run_txn(input: Vec<E<In>>) -> Result<Vec<E<Out>>, String> {
    catch(move || {
        run_chain(input, move |s| {
            s.key_by(|x: &In| x.0)
                .window(TransactionWindow::new(tx_logic))
                .fold(Vec::new(), |v: &mut Vec<i64>, x: In| v.push(x.1))
                .0
        })
    })
}

fn failed() -> Vec<E<Out>> {
    vec![E::Item((i64::MIN, vec![]))]
}

/// timestamped keyed script respecting the watermark contract (ts > last watermark),
/// out of order within the bound, with sparse gaps and watermarks on window boundaries
fn script(rng: &mut Rng, size: i64, slide: i64, in_order: bool) -> Vec<E<In>> {
    let nkeys = *rng.pick(&[1i64, 2, 3]);
    let rounds = *rng.pick(&[1usize, 1, 2]);
    let mut v = vec![];
    let mut seq = 0i64;
    for _ in 0..rounds {
        let mut wm: i64 = -1; // last watermark
        let mut hi: i64 = rng.range(0, 5); // current "now" of the event clock
        let len = rng.below(25);
        for _ in 0..len {
            match rng.below(8) {
                0 | 1 => {
                    // watermark: often exactly on a window boundary / equal to an element ts
                    let cand = match rng.below(4) {
                        0 => (hi / slide.max(1)) * slide,
                        1 => (hi / slide.max(1)) * slide + size,
                        2 => hi,
                        _ => hi - rng.range(0, 3),
                    };
                    if cand > wm {
                        wm = cand;
                        v.push(E::Watermark(wm));
                        if hi <= wm { hi = wm + 1; }
                    }
                }
                2 => hi += rng.range(0, 3 * size), // idle gap
                _ => {
                    let lo = if in_order { hi } else { (wm + 1).max(hi - rng.range(0, size + 2)) };
                    let ts = rng.range(lo.min(hi), hi).max(wm + 1);
                    seq = (seq + 1) % 1000;
                    let k = rng.range(0, nkeys - 1);
                    v.push(E::Timestamped((k, ts * 1000 + seq), ts));
                    if rng.chance(1, 2) { hi += rng.range(0, 2); }
                }
            }
            if rng.chance(1, 15) { v.push(E::FlushBatch); }
        }
        v.push(E::FlushAndRestart);
    }
    v.push(E::Terminate);
    v
}

pub fn generate(opts: &Opts, sink: &mut CaseSink) {
    let mut rng = Rng::new(opts.seed);
    // corpus: F5 (watermark equal to a window end) and F4 (older than first seen)
    let f5 = vec![E::Timestamped((0, 1), 0), E::Timestamped((0, 5002), 5), E::Watermark(10),
                  E::Timestamped((0, 12003), 12), E::Watermark(20), E::FlushAndRestart, E::Terminate];
    emit_event(sink, 10, 10, f5, "corpus");
    let f4 = vec![E::Timestamped((0, 10001), 10), E::Timestamped((0, 5002), 5), E::Watermark(30),
                  E::FlushAndRestart, E::Terminate];
    emit_event(sink, 10, 10, f4, "corpus");
    let n = (if opts.thorough { 8000 } else { 900 }) / opts.scale;
    for i in 0..n {
        let size = rng.range(1, 12);
        let slide = match rng.below(3) { 0 => size, 1 => 1.max(size / 2), _ => rng.range(1, size) };
        // out-of-order arrivals (which may hit the known finding F4) are a minority
        let in_order = i % 4 != 0;
        let s = script(&mut rng, size, slide, in_order);
        emit_event(sink, size, slide, s, if in_order { "event_in_order" } else { "event_out_of_order" });
    }
    for _ in 0..((if opts.thorough { 3000 } else { 300 }) / opts.scale) {
        let s = script(&mut rng, 5, 5, true);
        let out = run_txn(s.clone()).unwrap_or_else(|_| failed());
        let term = format!("(CTxn {} {})", s.coq(), out.coq());
        sink.count("transaction");
        let nres = out.iter().filter(|e| matches!(e, E::Item(_) | E::Timestamped(_, _))).count();
        sink.push(term, json!({"kind": "transaction", "input": format!("{:?}", s), "impl_output": format!("{:?}", out)}), nres >= 1);
    }
}

fn emit_event(sink: &mut CaseSink, size: i64, slide: i64, s: Vec<E<In>>, tag: &str) {
    let out = run_event(size, slide, s.clone()).unwrap_or_else(|m| { eprintln!("C13: impl panicked: {m}"); failed() });
    let term = format!("(CEvent {} {} {} {})", size.coq(), slide.coq(), s.coq(), out.coq());
    sink.count(tag);
    sink.count(if size == slide { "tumbling" } else { "sliding" });
    let nres = out.iter().filter(|e| matches!(e, E::Item(_) | E::Timestamped(_, _))).count();
    let nwm = s.iter().filter(|e| matches!(e, E::Watermark(_))).count();
    sink.count_n("results", nres as u64);
    sink.push(term, json!({"kind": "event_time", "size": size, "slide": slide, "input": format!("{:?}", s), "impl_output": format!("{:?}", out)}), nres >= 2 && nwm >= 1);
}

pub const RULE: &str = "event-time: random keyed timestamped scripts respecting the watermark contract, 1..3 keys, 1..2 rounds, size 1..12 and slide<=size, watermarks biased to window boundaries / element timestamps, idle gaps up to 3 window lengths, 25% with out-of-order arrivals within the bound; transaction windows with a fixed logic (commit / commit-after / discard by value). Non-trivial: >=2 results and >=1 watermark (>=1 result for transactions); distinct = distinct case terms";

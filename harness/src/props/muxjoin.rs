//! C04, known finding F13: a distributed hash join of two parallel sources on two hosts that
//! never returns from `execute_blocking` although its input is finite and every sleep in
//! user code ends. Remote messages of one (block pair, host pair) share one connection whose
//! demultiplexer blocks on a full destination channel; a two-input block stops reading the
//! side that has ended its round, so the Terminates of that side's > 16 producers fill the
//! channel, the demultiplexer blocks, and a FlushAndRestart another replica of the join is
//! waiting for sits behind it — on both inputs, crosswise.
//!
//! Layout (one process, one thread per host): host X with 2 cores, host Y with `ny` cores.
//! Both sources use `BatchMode::fixed(2)`; replica 0 on X is the straggler (one late item, so
//! that its End flushes ONE destination early), replica 1 on X the helper (gate items and
//! fillers that park three join replicas in a user sleep and fill their channels), the
//! replicas on Y the herd (no items; they supply the first 16 Terminates).
//! `early_flush = false` is the control: the stragglers emit no item, nothing else changes.
//!
//! All times are multiples of `unit` (the engineered schedule needs the phases apart, not a
//! particular speed).
use std::sync::atomic::{AtomicUsize, Ordering};
use std::sync::Arc;
use std::time::{Duration, Instant};

use renoir::config::ConfigBuilder;
use renoir::prelude::*;
use serde_json::json;

use crate::cases::CaseSink;

const BX0: u64 = 0;
const BX1: u64 = 1;
const A: u64 = 2; // first join replica on Y
const B: u64 = 3; // second join replica on Y
const BY2: u64 = 4;

#[derive(Clone)]
struct Ctx {
    start: Instant,
    unit: Duration,
    joined: Arc<AtomicUsize>,
}
impl Ctx {
    fn sleep_until(&self, units: u32) {
        let target = self.start + self.unit * units;
        let now = Instant::now();
        if target > now {
            std::thread::sleep(target - now);
        }
    }
}

/// The `n`-th key that the join's group_by routes to replica `dest` of the `nb` join replicas.
fn key_for(dest: u64, n: u64, nb: u64) -> u64 {
    let mut found = 0;
    let mut k = 1u64;
    loop {
        if renoir::group_by_hash(&k) % nb == dest {
            if found == n {
                return k;
            }
            found += 1;
        }
        k += 1;
    }
}

const T_FILL: u32 = 6;
const T_HERD: u32 = 12;
const T_STRAGGLER: u32 = 20;
const T_GATES: [u32; 3] = [50, 40, 30];

fn script(id: u64, nb: u64, early_flush: bool, straggler_dest: u64, ctx: Ctx) -> impl Iterator<Item = u64> + Send {
    let mut items: Vec<(u32, u64)> = vec![]; // (not before, key)
    match id {
        0 => {
            if early_flush {
                items.push((T_STRAGGLER, key_for(straggler_dest, 1000, nb)));
            }
        }
        1 => {
            for g in [BX0, BX1, BY2] {
                items.push((0, key_for(g, 0, nb))); // gate key: the join's consumer sleeps on it
                items.push((0, key_for(g, 1, nb))); // completes the batch of 2
            }
            for (g, batches) in [(BX0, 14u64), (BX1, 15), (BY2, 15)] {
                for n in 0..2 * batches {
                    items.push((T_FILL, key_for(g, 2 + n, nb)));
                }
            }
        }
        _ => {}
    }
    let end_at = match id { 0 => T_STRAGGLER, 1 => T_FILL, _ => T_HERD };
    let mut it = items.into_iter();
    let mut done = false;
    std::iter::from_fn(move || match it.next() {
        Some((at, k)) => {
            ctx.sleep_until(at);
            Some(k)
        }
        None => {
            if !done {
                done = true;
                ctx.sleep_until(end_at);
            }
            None
        }
    })
}

fn build_job(env: &StreamContext, ny: u64, early_flush: bool, ctx: Ctx) {
    let nb = 2 + ny;
    let wake = [(key_for(BX0, 0, nb), T_GATES[0]), (key_for(BX1, 0, nb), T_GATES[1]), (key_for(BY2, 0, nb), T_GATES[2])];
    let bm = BatchMode::fixed(2);
    let c1 = ctx.clone();
    let left = env.stream_par_iter(move |id, _n| script(id, nb, early_flush, A, c1.clone())).batch_mode(bm);
    let c2 = ctx.clone();
    let right = env.stream_par_iter(move |id, _n| script(id, nb, early_flush, B, c2.clone())).batch_mode(bm);
    let c3 = ctx;
    left.join(right, |l: &u64| *l, |r: &u64| *r)
        .map(move |(k, _)| {
            let k = *k;
            c3.joined.fetch_add(1, Ordering::Relaxed);
            for (gate_key, until) in wake {
                if k == gate_key {
                    c3.sleep_until(until);
                }
            }
            k
        })
        .for_each(|_| {});
}

/// number of joined pairs the job must produce (every key occurs once on each side)
fn expected() -> usize {
    6 + 2 * (14 + 15 + 15) // the stragglers' single items have different keys on the two sides
}

#[derive(Debug)]
pub enum MjOutcome { Done(usize), Hang(usize) }

pub fn run(ny: u64, early_flush: bool, unit_ms: u64, run_id: u64) -> MjOutcome {
    let ctx = Ctx { start: Instant::now(), unit: Duration::from_millis(unit_ms), joined: Arc::new(AtomicUsize::new(0)) };
    let cores = [2u64, ny];
    let done = Arc::new(AtomicUsize::new(0));
    for host_id in 0..2u64 {
        let mut toml = String::new();
        for (i, c) in cores.iter().enumerate() {
            toml.push_str(&format!("[[host]]\naddress = \"127.202.{}.{}\"\nbase_port = 24100\nnum_cores = {}\n\n", run_id % 250, i + 1, c));
        }
        let mut b = ConfigBuilder::new_remote();
        b.parse_toml_str(&toml).unwrap();
        b.host_id(host_id);
        let config = b.build().unwrap();
        let (done, ctx) = (done.clone(), ctx.clone());
        std::thread::Builder::new().name(format!("mj-host{host_id}")).spawn(move || {
            let env = StreamContext::new(config);
            build_job(&env, ny, early_flush, ctx);
            env.execute_blocking();
            done.fetch_add(1, Ordering::SeqCst);
        }).unwrap();
    }
    // every user sleep ends at T_GATES[0]; allow 20 more units and 5 s afterwards
    let limit = ctx.unit * (T_GATES[0] + 20) + Duration::from_secs(5);
    while ctx.start.elapsed() < limit {
        if done.load(Ordering::SeqCst) == 2 {
            return MjOutcome::Done(ctx.joined.load(Ordering::SeqCst));
        }
        std::thread::sleep(Duration::from_millis(100));
    }
    // the blocked threads are left behind; they die with the process
    MjOutcome::Hang(ctx.joined.load(Ordering::SeqCst))
}

pub fn emit(sink: &mut CaseSink, ny: u64, early_flush: bool, unit_ms: u64, run_id: u64) {
    let o = run(ny, early_flush, unit_ms, run_id);
    sink.count(match (&o, early_flush) {
        (MjOutcome::Done(_), true) => "muxjoin_early_flush_done",
        (MjOutcome::Hang(_), true) => "muxjoin_early_flush_hang",
        (MjOutcome::Done(_), false) => "muxjoin_control_done",
        (MjOutcome::Hang(_), false) => "muxjoin_control_hang",
    });
    let oc = match &o { MjOutcome::Done(n) => format!("(MJDone {}%N)", n), MjOutcome::Hang(_) => "MJHang".to_string() };
    let term = format!("(KMuxJoin [2%nat; {}%nat] {} {}%N {})", ny, early_flush, expected(), oc);
    sink.push(term, json!({"kind": "two-host hash join of two parallel sources, fixed(2) batches, engineered schedule (see harness/src/props/muxjoin.rs)",
        "hosts_cores": [2, ny], "stragglers_flush_one_destination_early": early_flush, "time_unit_ms": unit_ms, "outcome": format!("{:?}", o)}), true);
}

//! C12: count windows. Drives the real chain
//! `key_by(k).window(CountWindow::new(size, slide, exact)).fold(vec![], push)`.
use renoir::operator::window::CountWindow;
use renoir::operator::StreamElement as E;
use serde_json::json;

use crate::cases::CaseSink;
use crate::coqfmt::{app, ToCoq};
use crate::rng::Rng;
use crate::script::{catch, run_chain};
use crate::Opts;

pub type In = (i64, i64);
pub type Out = (i64, Vec<i64>);

pub fn run_impl(size: usize, slide: usize, exact: bool, input: Vec<E<In>>) -> Result<Vec<E<Out>>, String> {
    catch(move || {
        run_chain(input, move |s| {
            s.key_by(|x: &In| x.0)
                .window(CountWindow::new(size, slide, exact))
                .fold(Vec::new(), |v: &mut Vec<i64>, x: In| v.push(x.1))
                .0
        })
    })
}

fn describe(size: usize, slide: usize, exact: bool, input: &[E<In>], out: &[E<Out>]) -> serde_json::Value {
    json!({"size": size, "slide": slide, "exact": exact,
           "input": format!("{:?}", input), "impl_output": format!("{:?}", out)})
}

/// the same input through the other window aggregators of the API; each yields (key, i64)
pub fn run_aggs(size: usize, slide: usize, exact: bool, input: &[E<In>]) -> Vec<(u64, Vec<E<(i64, i64)>>)> {
    let mut res = vec![];
    for a in 0..8u64 {
        let inp = input.to_vec();
        let out = catch(move || {
            macro_rules! w { ($s:expr) => { $s.key_by(|x: &In| x.0).map(|(_, x): (&i64, In)| x.1).window(CountWindow::new(size, slide, exact)) } }
            match a {
                0 => run_chain(inp, move |s| w!(s).count().map(|(_, c): (&i64, usize)| c as i64).0),
                1 => run_chain(inp, move |s| w!(s).sum::<i64>().0),
                2 => run_chain(inp, move |s| w!(s).max().0),
                3 => run_chain(inp, move |s| w!(s).min().0),
                4 => run_chain(inp, move |s| w!(s).first().0),
                5 => run_chain(inp, move |s| w!(s).last().0),
                6 => run_chain(inp, move |s| w!(s).fold_first(|a: &mut i64, x: i64| *a += x).0),
                _ => run_chain(inp, move |s| w!(s).map(|v: Vec<i64>| v.into_iter().sum::<i64>()).0),
            }
        })
        .unwrap_or_else(|e| { eprintln!("C12 aggregator {a}: {e}"); vec![E::Item((i64::MIN, i64::MIN))] });
        res.push((a, out));
    }
    res
}

fn aggs_coq(aggs: &[(u64, Vec<E<(i64, i64)>>)]) -> String {
    let v: Vec<String> = aggs.iter().map(|(a, o)| format!("({}%N, {})", a, o.coq())).collect();
    format!("[{}]", v.join("; "))
}

fn emit(sink: &mut CaseSink, size: usize, slide: usize, exact: bool, input: Vec<E<In>>) {
    emit_with(sink, size, slide, exact, input, false)
}

fn emit_with(sink: &mut CaseSink, size: usize, slide: usize, exact: bool, input: Vec<E<In>>, with_aggs: bool) {
    let out = match run_impl(size, slide, exact, input.clone()) {
        Ok(o) => o,
        Err(msg) => {
            // a panic inside the parameter range the property covers: report as an
            // (impossible to match) output so that both comparisons fail
            sink.count("impl_panicked");
            eprintln!("C12: implementation panicked: {msg}");
            vec![E::Item((i64::MIN, vec![]))]
        }
    };
    let n_data = input.iter().filter(|e| matches!(e, E::Item(_) | E::Timestamped(_, _))).count();
    let n_res = out.iter().filter(|e| matches!(e, E::Item(_) | E::Timestamped(_, _))).count();
    sink.count(&format!("size_class_{}", match size { 1 => "1", 2..=4 => "2-4", 5..=8 => "5-8", _ => "9+" }));
    sink.count(if slide == size { "tumbling" } else if slide == 1 { "slide_1" } else if size % slide == 0 { "slide_divides" } else { "slide_not_divides" });
    sink.count(if exact { "exact" } else { "non_exact" });
    sink.count_n("input_data_elements", n_data as u64);
    sink.count_n("output_windows", n_res as u64);
    let term = app(
        "Build_case",
        &[size.coq(), slide.coq(), exact.coq(), input.coq(), out.coq(), {
            let aggs = if with_aggs { sink.count("all_window_aggregators"); run_aggs(size, slide, exact, &input) } else { vec![] };
            aggs_coq(&aggs)
        }],
    );
    let d = describe(size, slide, exact, &input, &out);
    sink.push(term, d, n_data >= 2 && n_res >= 1);
}

fn random_script(rng: &mut Rng, size: usize) -> Vec<E<In>> {
    let nkeys = *rng.pick(&[1u64, 1, 2, 3, 5]);
    let rounds = *rng.pick(&[1u64, 1, 2, 3]);
    let timestamped = rng.chance(1, 2);
    let mut v = vec![];
    let mut seq = 0i64;
    let mut ts = 0i64;
    for _ in 0..rounds {
        let len = rng.below((3 * size as u64 + 3) * nkeys);
        for _ in 0..len {
            seq += 1;
            // skewed keys
            let k = if rng.chance(1, 2) { 0 } else { rng.below(nkeys) as i64 };
            if timestamped {
                ts += rng.below(3) as i64;
                v.push(E::Timestamped((k, seq), ts));
                if rng.chance(1, 6) {
                    v.push(E::Watermark(ts));
                    ts += 1;
                }
            } else {
                v.push(E::Item((k, seq)));
            }
            if rng.chance(1, 10) {
                v.push(E::FlushBatch);
            }
        }
        v.push(E::FlushAndRestart);
    }
    v.push(E::Terminate);
    v
}

/// only the random multi-key scripts (used by C05 / C06)
pub fn generate_random(opts: &Opts, sink: &mut CaseSink) {
    let mut rng = Rng::new(opts.seed ^ 0x12);
    let n_random = (if opts.thorough { 6000 } else { 500 }) / opts.scale;
    for _ in 0..n_random {
        let size = rng.range(1, 8) as usize;
        let slide = match rng.below(4) {
            0 => size,
            1 => 1,
            _ => rng.range(1, size as i64) as usize,
        };
        // non-exact mode (which may hit the known finding F6 of C06) is a minority
        let exact = !rng.chance(1, 5);
        let script = random_script(&mut rng, size);
        emit(sink, size, slide, exact, script);
        sink.count("count_window");
    }
}

pub fn generate(opts: &Opts, sink: &mut CaseSink) {
    let mut rng = Rng::new(opts.seed);
    // corpus: hand-picked shapes first
    for (size, slide, exact, n) in [(3usize, 2usize, true, 8i64), (3, 2, false, 8), (4, 4, false, 6), (5, 1, false, 3), (2, 1, true, 5)] {
        let mut input: Vec<E<In>> = (1..=n).map(|i| E::Item((0, i))).collect();
        input.push(E::FlushAndRestart);
        input.push(E::Terminate);
        emit(sink, size, slide, exact, input);
    }
    // exhaustive small scope: single key, all lengths
    let max_n = if opts.thorough { 10 } else { 6 };
    for size in 1..=max_n {
        for slide in 1..=size {
            for len in 0..=(3 * size + 2) {
                for exact in [true, false] {
                    let mut input: Vec<E<In>> = (1..=len as i64).map(|i| E::Item((7, i))).collect();
                    input.push(E::FlushAndRestart);
                    input.push(E::Terminate);
                    emit(sink, size, slide, exact, input);
                    sink.count("exhaustive_single_key");
                }
            }
        }
    }
    // random: multi-key, multi-round, timestamps, watermarks, FlushBatch
    let n_random = if opts.thorough { 6000 } else { 500 };
    for _ in 0..n_random {
        let size = if rng.chance(1, 10) { rng.range(9, 40) as usize } else { rng.range(1, 8) as usize };
        let slide = match rng.below(4) {
            0 => size,
            1 => 1,
            _ => rng.range(1, size as i64) as usize,
        };
        let exact = rng.chance(1, 2);
        let script = random_script(&mut rng, size);
        // a third of the random cases also go through every other window aggregator
        let wa = rng.chance(1, 3);
        emit_with(sink, size, slide, exact, script, wa);
        sink.count("random_multi_key");
    }
}

pub const RULE: &str = "cases = corpus + exhaustive single-key (size<=6 (10 thorough), slide<=size, len<=3*size+2, exact/non-exact) + random multi-key multi-round scripts with timestamps/watermarks/FlushBatch, a third of them also through the window aggregators count, sum, max, min, first, last, fold_first and collect_vec+map (each output must be the aggregate of exactly the collected window); a case is non-trivial if it has >=2 data elements and the implementation emitted >=1 window; distinct = distinct Coq case terms";

//! C02 / C03: the producer side of links — the real `End` operator with its `Batcher`s,
//! closing a scripted chain and sending to hand-made downstream replicas — and the wire
//! format of remote links (`remote_send` / `remote_recv` over byte buffers).
use renoir::operator::{Operator, StreamElement as E};
use renoir::verif::{self, EndStrategy, Net, NetReceiver};
use renoir::{group_by_hash, BatchMode, RuntimeConfig, StreamContext};
use serde_json::json;

use crate::cases::CaseSink;
use crate::coqfmt::ToCoq;
use crate::rng::Rng;
use crate::script::{catch, Script};
use crate::startdrv::gen;
use crate::Opts;

#[derive(Clone, Copy, Debug, PartialEq)]
pub enum Strat { OnlyOne, Random, GroupBy, All }

type Recv = Vec<Vec<Vec<Vec<E<i64>>>>>; // block, replica, batches

/// Batch mode of a link case; the delay of the adaptive mode is in milliseconds.
#[derive(Clone, Copy, Debug, PartialEq)]
pub enum LMode { Single, Fixed(usize), Adaptive(usize, u64) }
impl LMode {
    pub fn batch_mode(&self) -> BatchMode {
        match self {
            LMode::Single => BatchMode::single(),
            LMode::Fixed(n) => BatchMode::fixed(*n),
            LMode::Adaptive(n, d) => BatchMode::adaptive(*n, std::time::Duration::from_millis(*d)),
        }
    }
    pub fn coq(&self) -> String {
        match self {
            LMode::Single => "BSingle".to_string(),
            LMode::Fixed(n) => format!("(BFixed {}%nat)", n),
            LMode::Adaptive(n, d) => format!("(BAdaptive {}%nat {}%N)", n, d),
        }
    }
    /// delays are odd multiples of 5 ms and clock readings multiples of 10 ms, so that a
    /// reading is never exactly `delay` after an earlier one (coarsetime rounds there)
    pub fn random(rng: &mut Rng) -> LMode {
        match rng.below(7) {
            0 => LMode::Single,
            1 => LMode::Fixed(1),
            2 => LMode::Fixed(rng.range(2, 5) as usize),
            3 => LMode::Fixed(1024),
            4 => LMode::Adaptive(1024, *rng.pick(&[5u64, 15, 45])),
            5 => LMode::Adaptive(rng.range(2, 5) as usize, *rng.pick(&[5u64, 15, 45])),
            _ => LMode::Adaptive(1, 15),
        }
    }
}

/// Mock clock of a link case: the reading at `End::setup` and while the k-th element is pulled.
#[derive(Clone, Debug)]
pub struct Clock { pub t0: u64, pub times: Vec<u64> }
impl Clock {
    pub fn random(rng: &mut Rng, len: usize) -> Clock {
        let t0 = 10 * rng.below(4);
        let mut t = t0 + 10 * rng.below(3);
        let times = (0..len).map(|_| {
            t += match rng.below(10) { 0..=5 => 0, 6 | 7 => 10, 8 => 20, _ => 10 * rng.range(3, 12) as u64 };
            t
        }).collect();
        Clock { t0, times }
    }
    pub fn coq(&self) -> String {
        format!("{}%N [{}]", self.t0, self.times.iter().map(|t| format!("{}%N", t)).collect::<Vec<_>>().join("; "))
    }
}

pub fn drive_end(strat: Strat, mode: BatchMode, blocks: &[u64], script: Vec<E<i64>>, clock: &Clock) -> Result<Recv, String> {
    let blocks = blocks.to_vec();
    let clock = clock.clone();
    catch(move || {
        let env = StreamContext::new(RuntimeConfig::local(1).unwrap());
        let stream = env.stream(Script::new(script));
        let id = verif::block_id(&stream);
        let mut net = Net::new(id);
        let receivers: Vec<Vec<NetReceiver<i64>>> = blocks.iter().enumerate().map(|(i, n)| net.add_next::<i64>(10 + i as u64, *n)).collect();
        let mut recv: Recv = blocks.iter().map(|n| vec![vec![]; *n as usize]).collect();
        // the same pulling loop for every strategy
        fn pull<Op: Operator<Out = ()>>(mut end: Op, net: &mut Net, mode: BatchMode, receivers: &[Vec<NetReceiver<i64>>], recv: &mut Recv, clock: &Clock) {
            let ms = std::time::Duration::from_millis;
            verif::set_mock_clock(Some(ms(clock.t0)));
            end.setup(&mut net.metadata(mode));
            let mut k = 0;
            loop {
                // the clock stands still while End handles one element
                verif::set_mock_clock(Some(ms(*clock.times.get(k).unwrap_or(clock.times.last().unwrap_or(&clock.t0)))));
                k += 1;
                let e = end.next();
                for (b, rs) in receivers.iter().enumerate() {
                    for (r, rx) in rs.iter().enumerate() {
                        recv[b][r].extend(rx.drain());
                    }
                }
                if matches!(e, E::Terminate) {
                    break;
                }
            }
            verif::set_mock_clock(None);
        }
        match strat {
            Strat::OnlyOne => pull(verif::end_chain(stream, EndStrategy::OnlyOne, mode), &mut net, mode, &receivers, &mut recv, &clock),
            Strat::Random => pull(verif::end_chain(stream, EndStrategy::Random, mode), &mut net, mode, &receivers, &mut recv, &clock),
            Strat::All => pull(verif::end_chain(stream, EndStrategy::All, mode), &mut net, mode, &receivers, &mut recv, &clock),
            Strat::GroupBy => pull(verif::end_chain_group_by(stream, |v: &i64| *v % 100, mode), &mut net, mode, &receivers, &mut recv, &clock),
        }
        recv
    })
}

/// predicates of the route cases: `v mod m == r` (fn items: the router takes fn pointers)
macro_rules! modp { ($name:ident, $m:expr, $r:expr) => { fn $name(v: &i64) -> bool { v.rem_euclid($m) == $r } }; }
modp!(p2_0, 2, 0); modp!(p2_1, 2, 1); modp!(p3_0, 3, 0); modp!(p3_1, 3, 1); modp!(p5_0, 5, 0); modp!(p7_3, 7, 3); modp!(p1_0, 1, 0); modp!(p4_9, 4, 9);
pub const ROUTE_PREDS: [(i64, i64, fn(&i64) -> bool); 8] =
    [(2, 0, p2_0), (2, 1, p2_1), (3, 0, p3_0), (3, 1, p3_1), (5, 0, p5_0), (7, 3, p7_3), (1, 0, p1_0), (4, 9, p4_9)];

/// Drive the real `RoutingEnd` (one downstream block with one replica per route) under the
/// mock clock; returns, per route, the batches that arrived.
pub fn drive_route(preds: &[usize], mode: BatchMode, script: Vec<E<i64>>, clock: &Clock) -> Result<Vec<Vec<Vec<E<i64>>>>, String> {
    let preds = preds.to_vec();
    let clock = clock.clone();
    catch(move || {
        let env = StreamContext::new(RuntimeConfig::local(1).unwrap());
        let stream = env.stream(Script::new(script));
        let id = verif::block_id(&stream);
        let mut net = Net::new(id);
        let receivers: Vec<Vec<NetReceiver<i64>>> = (0..preds.len()).map(|i| net.add_next::<i64>(10 + i as u64, 1)).collect();
        let routes: Vec<(u64, fn(&i64) -> bool)> = preds.iter().enumerate().map(|(i, p)| (10 + i as u64, ROUTE_PREDS[*p].2)).collect();
        let mut end = verif::route_chain(stream, routes, mode);
        let ms = std::time::Duration::from_millis;
        verif::set_mock_clock(Some(ms(clock.t0)));
        end.setup(&mut net.metadata(mode));
        let mut recv: Vec<Vec<Vec<E<i64>>>> = vec![vec![]; preds.len()];
        let mut k = 0;
        loop {
            verif::set_mock_clock(Some(ms(*clock.times.get(k).unwrap_or(clock.times.last().unwrap_or(&clock.t0)))));
            k += 1;
            let e = end.next();
            for (i, rs) in receivers.iter().enumerate() {
                recv[i].extend(rs[0].drain());
            }
            if matches!(e, E::Terminate) {
                break;
            }
        }
        verif::set_mock_clock(None);
        recv
    })
}

pub fn rcase_term(preds: &[usize], lmode: LMode, script: &[E<i64>], recv: &Vec<Vec<Vec<E<i64>>>>, clock: &Clock) -> String {
    let mods: Vec<String> = preds.iter().map(|p| format!("({}, {})", ROUTE_PREDS[*p].0, ROUTE_PREDS[*p].1)).collect();
    let input: Vec<String> = script.iter().map(|e| e.coq()).collect();
    format!("(Build_rcase {} [{}] [{}] {} {})", lmode.coq(), mods.join("; "), input.join("; "), recv.coq(), clock.coq())
}

fn strat_coq(s: Strat) -> &'static str {
    match s { Strat::OnlyOne => "SOnlyOne", Strat::Random => "SRandom", Strat::GroupBy => "SGroupBy", Strat::All => "SAll" }
}

/// the hash `NextStrategy::group_by(|v| v % 100)` uses for a value
fn hash_of(v: i64) -> u64 { group_by_hash(&(v % 100)) }

pub fn lcase_term(strat: Strat, lmode: LMode, blocks: &[u64], script: &[E<i64>], recv: &Recv, clock: &Clock) -> String {
    let input: Vec<String> = script.iter().map(|e| {
        let h = match e { E::Item(v) | E::Timestamped(v, _) => hash_of(*v), _ => 0 };
        format!("({}, {}%N)", e.coq(), h)
    }).collect();
    let mode = lmode.coq();
    let bl: Vec<String> = blocks.iter().map(|n| format!("{}%nat", n)).collect();
    format!("(Build_lcase {} {} [{}] [{}] {} {})", strat_coq(strat), mode, bl.join("; "), input.join("; "), recv.coq(), clock.coq())
}

/// distinct values (sequence numbers in the high part, a small key in the low part)
pub fn link_script(rng: &mut Rng) -> Vec<E<i64>> {
    let rounds = rng.range(1, 3) as usize;
    let mut st = gen::sender_stream(rng, rounds, 25, 1);
    let mut seq = 0i64;
    let nkeys = *rng.pick(&[1i64, 2, 5, 40]);
    for e in st.iter_mut() {
        match e {
            E::Item(v) | E::Timestamped(v, _) => { seq += 1; *v = seq * 100 + rng.range(0, nkeys - 1); }
            _ => {}
        }
    }
    // FlushBatch elements (idle source) in between
    let mut out = vec![];
    for e in st { if rng.chance(1, 12) { out.push(E::FlushBatch); } out.push(e); }
    out
}

pub fn random_link_case(rng: &mut Rng) -> (Strat, LMode, Vec<u64>, Vec<E<i64>>) {
    let strat = *rng.pick(&[Strat::OnlyOne, Strat::Random, Strat::GroupBy, Strat::GroupBy, Strat::All]);
    let fixed = LMode::random(rng);
    let nblocks = *rng.pick(&[1usize, 1, 2, 3]);
    let blocks: Vec<u64> = (0..nblocks).map(|_| if strat == Strat::OnlyOne { 1 } else { rng.range(1, 5) as u64 }).collect();
    (strat, fixed, blocks, link_script(rng))
}

pub fn emit_link(sink: &mut CaseSink, rng: &mut Rng, wrap_ctor: Option<&str>, strat: Strat, fixed: LMode, blocks: Vec<u64>, script: Vec<E<i64>>) {
    let mode = fixed.batch_mode();
    let clock = Clock::random(rng, script.len());
    let recv = drive_end(strat, mode, &blocks, script.clone(), &clock).unwrap_or_else(|m| { eprintln!("End drive: {m}"); sink.count("impl_failed"); blocks.iter().map(|n| vec![vec![]; *n as usize]).collect() });
    let t = lcase_term(strat, fixed, &blocks, &script, &recv, &clock);
    let term = match wrap_ctor { Some(c) => format!("({} {})", c, t), None => t };
    sink.count(&format!("end_{:?}", strat));
    sink.count(match fixed { LMode::Single => "batch_single", LMode::Fixed(1) => "batch_fixed_1", LMode::Fixed(1024) => "batch_fixed_1024", LMode::Fixed(_) => "batch_fixed_small", LMode::Adaptive(1024, _) => "batch_adaptive_1024", LMode::Adaptive(_, _) => "batch_adaptive_small" });
    sink.count(&format!("downstream_blocks_{}", blocks.len()));
    let nd = script.iter().filter(|e| matches!(e, E::Item(_) | E::Timestamped(_, _))).count();
    sink.push(term, json!({"kind": "End", "strategy": format!("{:?}", strat), "batch": format!("{:?}", fixed), "downstream_replicas": blocks,
                           "clock_ms": format!("{:?}", clock), "input": format!("{:?}", script), "received": format!("{:?}", recv)}), nd >= 3 && blocks.iter().sum::<u64>() >= 2);
}

pub fn generate_c03(opts: &Opts, sink: &mut CaseSink) {
    let mut rng = Rng::new(opts.seed);
    let n = (if opts.thorough { 6000 } else { 800 }) / opts.scale;
    for _ in 0..n {
        let (strat, fixed, blocks, script) = random_link_case(&mut rng);
        emit_link(sink, &mut rng, None, strat, fixed, blocks, script);
    }
}

pub fn generate_c02(opts: &Opts, sink: &mut CaseSink) {
    let mut rng = Rng::new(opts.seed ^ 0x2);
    let n = (if opts.thorough { 5000 } else { 600 }) / opts.scale;
    for _ in 0..n {
        let (strat, fixed, blocks, script) = random_link_case(&mut rng);
        emit_link(sink, &mut rng, Some("CLink"), strat, fixed, blocks, script);
    }
    // wire format: several replicas share one connection
    for _ in 0..n {
        let (db, dh, pb) = (rng.range(0, 40) as u64, rng.range(0, 5) as u64, rng.range(0, 40) as u64);
        let nmsg = rng.range(1, 6);
        let mut msgs: Vec<(u64, Vec<E<i64>>)> = vec![];
        let mut bytes: Vec<u8> = vec![];
        for _ in 0..nmsg {
            let replica = if rng.chance(1, 6) { rng.next() >> rng.below(40) } else { rng.below(8) };
            let len = match rng.below(5) { 0 => 0, 1 => 1, 2 => rng.below(40), _ => rng.below(6) };
            let batch: Vec<E<i64>> = (0..len).map(|_| match rng.below(6) {
                0 => E::Watermark(rng.range(-5, 1 << 40)),
                1 => E::FlushAndRestart,
                2 => E::Timestamped(rng.range(-(1i64 << 60), 1i64 << 60), rng.range(0, 1 << 50)),
                3 => E::Terminate,
                _ => E::Item(rng.range(-300, 70000)),
            }).collect();
            bytes.extend(verif::frame::<i64>(batch.clone(), (pb, rng.below(3), rng.below(9)), (db, dh, replica), pb));
            msgs.push((replica, batch));
        }
        let decoded = catch({ let b = bytes.clone(); move || verif::unframe::<i64>((db, dh, pb), &b) }).unwrap_or_default();
        let msgs_s: Vec<String> = msgs.iter().map(|(r, b)| format!("({}, {})", r, b.coq())).collect();
        let bytes_s: Vec<String> = bytes.iter().map(|b| b.to_string()).collect();
        let dec_s: Vec<String> = decoded.iter().map(|(d, p, _s, b)| format!("({}, {}, {}, {}, {})", d.0, d.1, d.2, p, b.coq())).collect();
        let term = format!("(CFrame {} {} {} [{}] [{}] [{}])", db, dh, pb, msgs_s.join("; "), bytes_s.join("; "), dec_s.join("; "));
        sink.count("wire_format");
        sink.count_n("wire_bytes", bytes.len() as u64);
        sink.push(term, json!({"kind": "framing", "demux": [db, dh, pb], "messages": format!("{:?}", msgs), "n_bytes": bytes.len(), "decoded": format!("{:?}", decoded)}), msgs.len() >= 2);
    }
    // frames far larger than the multiplexer's buffers mixed with tiny ones on a shared TCP
    // connection: per sender, everything arrives once and in sending order
    for mode in if opts.thorough { vec![0u64, 1, 2, 0, 1] } else { vec![0u64, 1] } {
        let n = 90i64;
        let got = big_frames_job(n, mode, opts.seed + 7 + mode);
        let (got_s, ok) = match &got { Ok(v) => (v.coq(), true), Err(_) => ("[]".to_string(), false) };
        sink.count("big_frames_tcp_link");
        sink.push(format!("(CBig 4 {} {} {})", n, got_s, ok),
                  json!({"kind": "big frames over a shared TCP link", "hosts": "2 x 2 cores", "mode": mode, "per_sender": n, "outcome": match &got { Ok(v) => format!("{} elements", v.len()), Err(m) => m.clone() }}), true);
    }
    // a real TCP link that stays idle for a while and is then used again: nothing may be lost
    for pause_ms in if opts.thorough { vec![12_000u64, 35_000] } else { vec![12_000u64] } {
        let (first, second) = (200i64, 200i64);
        let got = idle_link_job(pause_ms, first, second, opts.seed);
        let (got_s, ok) = match &got { Ok(v) => (format!("[{}]", v.iter().map(|x| x.to_string()).collect::<Vec<_>>().join("; ")), true), Err(_) => ("[]".to_string(), false) };
        sink.count("idle_tcp_link");
        sink.push(format!("(CIdle {} {} {} {})", pause_ms, first + second, got_s, ok),
                  json!({"kind": "idle TCP link", "hosts": "2 x 2 cores", "pause_ms": pause_ms, "sent": first + second, "outcome": match &got { Ok(v) => format!("{} elements", v.len()), Err(m) => m.clone() }}), true);
    }
}

/// 2 hosts x 2 cores: every replica of a parallel source emits `n` messages (one element per
/// message) whose sizes alternate between a few bytes and ~70 KB (more than any buffer of the
/// multiplexer); all of them go over a forward connection to ONE replica on host 0, so two of
/// the four senders share one multiplexed TCP connection. Observed: (sender, seq, length) in
/// arrival order at the single consumer.
pub fn big_frames_job(n: i64, mode: u64, seed: u64) -> Result<Vec<(i64, i64, i64)>, String> {
    use renoir::config::ConfigBuilder;
    let (tx, rx) = std::sync::mpsc::channel::<Result<Option<Vec<(i64, i64, i64)>>, String>>();
    for h in 0..2u64 {
        let tx = tx.clone();
        std::thread::spawn(move || {
            let r = catch(move || {
                let mut toml = String::new();
                for i in 0..2 { toml.push_str(&format!("[[host]]\naddress = \"127.204.{}.{}\"\nbase_port = 24500\nnum_cores = 2\n\n", seed % 250, i + 1)); }
                let mut b = ConfigBuilder::new_remote();
                b.parse_toml_str(&toml).unwrap();
                b.host_id(h);
                let env = StreamContext::new(b.build().unwrap());
                let bm = match mode { 0 => BatchMode::single(), 1 => BatchMode::fixed(2), _ => BatchMode::adaptive(3, std::time::Duration::from_millis(2)) };
                let out = env
                    .stream_par_iter(move |id, _p| (0..n).map(move |i| (id as i64, i, vec![7u8; if i % 3 == 2 { 70_000 } else { 10 + i as usize }])))
                    .batch_mode(bm)
                    .replication(renoir::Replication::One)
                    .map(|(id, i, v): (i64, i64, Vec<u8>)| (id, i, v.len() as i64))
                    .collect_vec();
                env.execute_blocking();
                out.get()
            });
            let _ = tx.send(r);
        });
    }
    drop(tx);
    let mut res = None;
    for _ in 0..2 {
        match rx.recv_timeout(std::time::Duration::from_secs(90)) {
            Ok(Ok(Some(v))) => res = Some(v),
            Ok(Ok(None)) => {}
            Ok(Err(m)) => return Err(format!("a host failed: {m}")),
            Err(_) => return Err("hang".to_string()),
        }
    }
    res.ok_or_else(|| "no host held the result".to_string())
}

/// 2 hosts x 2 cores: a single source on host 0 emits `first` elements, pauses, emits `second`
/// more; the elements are shuffled (so they cross the TCP links) and collected.
fn idle_link_job(pause_ms: u64, first: i64, second: i64, seed: u64) -> Result<Vec<i64>, String> {
    use renoir::config::ConfigBuilder;
    let (tx, rx) = std::sync::mpsc::channel::<Result<Option<Vec<i64>>, String>>();
    for h in 0..2u64 {
        let tx = tx.clone();
        std::thread::spawn(move || {
            let r = catch(move || {
                let mut toml = String::new();
                for i in 0..2 { toml.push_str(&format!("[[host]]\naddress = \"127.203.{}.{}\"\nbase_port = 24300\nnum_cores = 2\n\n", seed % 250, i + 1)); }
                let mut b = ConfigBuilder::new_remote();
                b.parse_toml_str(&toml).unwrap();
                b.host_id(h);
                let env = StreamContext::new(b.build().unwrap());
                let mut sent = 0i64;
                let src = std::iter::from_fn(move || {
                    if sent == first { std::thread::sleep(std::time::Duration::from_millis(pause_ms)); }
                    if sent < first + second { sent += 1; Some(sent - 1) } else { None }
                });
                let out = env.stream_iter(src).shuffle().map(|x: i64| x).collect_vec();
                env.execute_blocking();
                out.get()
            });
            let _ = tx.send(r);
        });
    }
    drop(tx);
    let mut res: Option<Vec<i64>> = None;
    for _ in 0..2 {
        match rx.recv_timeout(std::time::Duration::from_millis(pause_ms + 60_000)) {
            Ok(Ok(Some(v))) => res = Some(v),
            Ok(Ok(None)) => {}
            Ok(Err(m)) => return Err(format!("a host failed: {m}")),
            Err(_) => return Err("hang".to_string()),
        }
    }
    let mut v = res.ok_or_else(|| "no host held the result".to_string())?;
    v.sort();
    Ok(v)
}

pub const RULE_C03: &str = "the real End operator closing a scripted chain, every strategy (OnlyOne, Random, GroupBy on value mod 100, All/broadcast), batch modes single / fixed(1) / fixed(2..5) / fixed(1024) / adaptive(1024 | 2..5 | 1, 5 | 15 | 45 ms) under a mock clock (readings in multiples of 10 ms: bursts, short and long pauses), 1..3 downstream blocks with 1..5 replicas each (several downstream blocks per producer), 1..3 rounds with data, timestamps, watermarks and FlushBatch; distinct values so that each delivery is attributable; plus, for the scheduler's wiring of forward edges, the execution graphs of random jobs on local and heterogeneous multi-host deployments (generator of C19, every host's graph). Non-trivial: >=3 data elements and >=2 receivers / >=3 blocks and >=4 links; distinct = distinct case terms";
pub const RULE_C02: &str = "links in memory: as C03, comparing per receiver the exact batch sequence with the model (batch boundaries included) and the conservation of elements; wire format: 1..6 messages (empty, single, up to 40 elements, extreme payloads / timestamps / replica ids) framed by the real remote_send for several destination replicas on one connection, decoded by the real remote_recv, header bytes compared with the model encoder; one whole job over real TCP links (2 hosts) whose single source pauses 12 s (thorough: also 35 s) between two bursts: every element must still arrive exactly once; whole jobs (2 hosts x 2 cores) whose four source replicas send 90 one-element messages each, every third ~70 KB, over a forward connection to one replica (two senders share a multiplexed connection): per sender, the exact sequence must arrive in order. Non-trivial: as C03 / >=2 frames; distinct = distinct case terms";

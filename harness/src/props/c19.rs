//! C19: the execution graph. Random jobs are built with the public API under a given
//! deployment, once per host id, and each host's derived graph is dumped through the
//! `verif_execution_graph` hook (no worker is started).
use renoir::config::ConfigBuilder;
use renoir::verif::GraphDump;
use renoir::{Replication, RuntimeConfig, StreamContext};
use serde_json::json;

use crate::cases::CaseSink;
use crate::dynop::{erase, DynStream};
use crate::rng::Rng;
use crate::Opts;

#[derive(Clone, Debug)]
enum Step {
    Repl(Replication),
    Shuffle,
    GroupBySum,
    Broadcast,
    Map,
    Fold,
}

#[derive(Clone, Debug)]
struct Plan {
    par_source: bool,
    pre: Vec<Step>,
    shape: u64, // 0 linear, 1 split+merge, 2 split+join, 3 split+zip, 4 replay loop, 5 route, 6 two sinks, 7 iterate
    a: Vec<Step>,
    b: Vec<Step>,
    post: Vec<Step>,
}

fn random_repl(rng: &mut Rng) -> Replication {
    match rng.below(6) {
        0 => Replication::One,
        1 => Replication::Host,
        2 => Replication::Unlimited,
        _ => Replication::new_limited(rng.range(1, 7) as u64),
    }
}
fn random_steps(rng: &mut Rng, max: u64) -> Vec<Step> {
    (0..rng.below(max + 1))
        .map(|_| match rng.below(8) {
            0 | 1 => Step::Repl(random_repl(rng)),
            2 => Step::Shuffle,
            3 => Step::GroupBySum,
            4 => Step::Broadcast,
            5 => Step::Fold,
            _ => Step::Map,
        })
        .collect()
}

thread_local! {
    /// blocks that, by the API call that closed them, must be wired to their successors with a
    /// FORWARD connection (`.replication(..)`, `.route()`): recorded while the job is built, on
    /// the building thread, independently of the scheduler's own flag
    static EXPECT_FWD: std::cell::RefCell<Vec<u64>> = std::cell::RefCell::new(vec![]);
}
fn expect_forward(s: &DynStream<i64>) {
    let id = renoir::verif::block_id(s);
    EXPECT_FWD.with(|v| v.borrow_mut().push(id as u64));
}

fn apply(mut s: DynStream<i64>, steps: &[Step]) -> DynStream<i64> {
    for st in steps {
        s = match st {
            Step::Repl(r) => { expect_forward(&s); erase(s.replication(*r)) }
            Step::Shuffle => erase(s.shuffle()),
            Step::GroupBySum => erase(s.group_by_sum(|x: &i64| x % 3, |x: i64| x).drop_key()),
            Step::Broadcast => erase(s.broadcast()),
            Step::Map => erase(s.map(|x: i64| x + 1)),
            Step::Fold => erase(s.fold(0i64, |a: &mut i64, x: i64| *a += x)),
        };
    }
    s
}

/// make sure a stream can enter an iteration (which requires unlimited replication)
fn unlimited(s: DynStream<i64>) -> DynStream<i64> {
    erase(s.shuffle())
}

fn build(env: &StreamContext, plan: &Plan) {
    let src: DynStream<i64> = if plan.par_source {
        erase(env.stream_par_iter(0..20i64))
    } else {
        erase(env.stream_iter(0..20i64))
    };
    let s = apply(src, &plan.pre);
    match plan.shape {
        1 => {
            let mut v = s.split(2);
            let b = apply(erase(v.pop().unwrap()), &plan.b);
            let a = apply(erase(v.pop().unwrap()), &plan.a);
            apply(erase(a.merge(b)), &plan.post).for_each(|_| {});
        }
        2 => {
            let mut v = s.split(2);
            let b = apply(erase(v.pop().unwrap()), &plan.b);
            let a = apply(erase(v.pop().unwrap()), &plan.a);
            let j = a.join(b, |x: &i64| x % 5, |y: &i64| y % 5).drop_key().map(|(x, y): (i64, i64)| x + y);
            apply(erase(j), &plan.post).for_each(|_| {});
        }
        3 => {
            let mut v = s.split(2);
            let b = apply(erase(v.pop().unwrap()), &plan.b);
            let a = apply(erase(v.pop().unwrap()), &plan.a);
            let z = a.zip(b).map(|(x, y): (i64, i64)| x + y);
            apply(erase(z), &plan.post).for_each(|_| {});
        }
        4 => {
            let a = plan.a.clone();
            let st = unlimited(s).replay(
                3,
                0i64,
                move |s, _state| apply(erase(s), &a),
                |d: &mut i64, x: i64| *d += x,
                |st: &mut i64, d: i64| *st += d,
                |_st: &mut i64| true,
            );
            apply(erase(st), &plan.post).for_each(|_| {});
        }
        5 => {
            expect_forward(&s);
            let mut routes = s
                .route()
                .add_route(|x: &i64| x % 2 == 0)
                .add_route(|x: &i64| x % 3 == 0)
                .build()
                .into_iter();
            apply(erase(routes.next().unwrap()), &plan.a).for_each(|_| {});
            apply(erase(routes.next().unwrap()), &plan.b).for_each(|_| {});
        }
        6 => {
            let mut v = s.split(2);
            apply(erase(v.pop().unwrap()), &plan.b).for_each(|_| {});
            apply(erase(v.pop().unwrap()), &plan.a).for_each(|_| {});
        }
        7 => {
            let a = plan.a.clone();
            let (state, out) = unlimited(s).iterate(
                2,
                0i64,
                move |s, _state| unlimited(apply(erase(s), &a)),
                |d: &mut i64, x: i64| *d += x,
                |st: &mut i64, d: i64| *st += d,
                |_st: &mut i64| true,
            );
            state.for_each(|_| {});
            apply(erase(out), &plan.post).for_each(|_| {});
        }
        _ => {
            apply(s, &plan.post).for_each(|_| {});
        }
    }
}

fn repl_coq(r: &Replication) -> String {
    match r {
        Replication::Unlimited => "RUnlimited".into(),
        Replication::Limited(n) => format!("(RLimited {}%nat)", n),
        Replication::Host => "RHost".into(),
        Replication::One => "ROne".into(),
    }
}
fn coord_coq(c: &(u64, u64, u64)) -> String {
    format!("(Build_coord {}%nat {}%nat {}%nat)", c.0, c.1, c.2)
}

fn dump_coq(host: u64, d: &GraphDump, base_port: u16) -> String {
    let reps: Vec<String> = d.blocks.iter().flat_map(|b| b.replicas.iter().map(|(c, g)| format!("({}, {}%nat)", coord_coq(c), g))).collect();
    let links: Vec<String> = d.links.iter().map(|(f, t, fr)| format!("({}, {}, {})", coord_coq(f), coord_coq(t), fr)).collect();
    let ports: Vec<String> = d.ports.iter().map(|((b, h, p), _a, port)| format!("(Build_demux {}%nat {}%nat {}%nat, {}%nat)", b, h, p, port - base_port)).collect();
    format!("(Build_dump {}%nat [{}] [{}] [{}])", host, reps.join("; "), links.join("; "), ports.join("; "))
}

fn remote_config(cores: &[u64], host_id: u64, base_port: u16) -> RuntimeConfig {
    let mut toml = String::new();
    for (i, c) in cores.iter().enumerate() {
        toml.push_str(&format!("[[host]]\naddress = \"127.77.9.{}\"\nbase_port = {}\nnum_cores = {}\n\n", i, base_port, c));
    }
    let mut b = ConfigBuilder::new_remote();
    b.parse_toml_str(&toml).unwrap();
    b.host_id(host_id);
    b.build().unwrap()
}

pub fn generate(opts: &Opts, sink: &mut CaseSink) {
    let mut rng = Rng::new(opts.seed);
    let n = (if opts.thorough { 3000 } else { 400 }) / opts.scale;
    let base_port = 21000u16;
    for i in 0..n {
        let plan = Plan {
            par_source: rng.chance(3, 4),
            pre: random_steps(&mut rng, 3),
            shape: if i < 8 { i as u64 } else { rng.below(8) },
            a: random_steps(&mut rng, 2),
            b: random_steps(&mut rng, 2),
            post: random_steps(&mut rng, 2),
        };
        // deployment: local(p) or 1..4 hosts with heterogeneous core counts (1-core hosts included)
        let local = rng.chance(1, 4);
        let cores: Vec<u64> = if local { vec![rng.range(1, 8) as u64] } else { (0..rng.range(1, 4)).map(|_| *rng.pick(&[1u64, 1, 2, 3, 4, 6])).collect() };
        let mut dumps = vec![];
        let mut expect_fwd: Vec<u64> = vec![];
        let mut first: Option<GraphDump> = None;
        let hosts = if local { 1 } else { cores.len() as u64 };
        let mut failed = false;
        for h in 0..hosts {
            let cfg = if local { RuntimeConfig::local(cores[0]).unwrap() } else { remote_config(&cores, h, base_port) };
            let p2 = plan.clone();
            let r = crate::script::catch(move || {
                let env = StreamContext::new(cfg);
                EXPECT_FWD.with(|v| v.borrow_mut().clear());
                build(&env, &p2);
                let fwd = EXPECT_FWD.with(|v| v.borrow().clone());
                (env.verif_execution_graph(), fwd)
            });
            match r {
                Ok((d, fwd)) => {
                    expect_fwd = fwd;
                    dumps.push(dump_coq(h, &d, base_port));
                    if first.is_none() {
                        first = Some(d);
                    }
                }
                Err(m) => {
                    // e.g. the API rejects the plan (iteration on limited parallelism, unequal Y parallelism)
                    if h == 0 {
                        sink.count("plan_rejected_by_api");
                    } else {
                        eprintln!("C19: host {h} panicked while host 0 did not: {m}");
                    }
                    failed = true;
                    break;
                }
            }
        }
        if failed && dumps.is_empty() {
            continue;
        }
        let d0 = first.unwrap();
        let dep = if local { format!("(Local {}%nat)", cores[0]) } else { format!("(Remote [{}])", cores.iter().map(|c| format!("{}%nat", c)).collect::<Vec<_>>().join("; ")) };
        let blocks: Vec<String> = d0.blocks.iter().map(|b| format!("(Build_block {}%nat {})", b.id, repl_coq(&b.replication))).collect();
        let only_one: std::collections::HashMap<u64, bool> = d0.blocks.iter().map(|b| (b.id, b.only_one)).collect();
        let edges: Vec<String> = d0.edges.iter().map(|(f, t, fr)| format!("(Build_edge {}%nat {}%nat {} {})", f, t, only_one[f], fr)).collect();
        // the real intersection of requirements on a table of pairs (a block that inherits two
        // requirements gets their intersection)
        let table = [Replication::One, Replication::Host, Replication::Unlimited, Replication::new_limited(1), Replication::new_limited(3), Replication::new_limited(rng.range(1, 9) as u64)];
        let inter: Vec<String> = table.iter().flat_map(|a| table.iter().map(move |b| (*a, *b))).map(|(a, b)| format!("({}, {}, {})", repl_coq(&a), repl_coq(&b), repl_coq(&a.intersect(b)))).collect();
        let fwd_s: Vec<String> = expect_fwd.iter().map(|b| format!("{}%nat", b)).collect();
        let term = format!("(Build_case {} [{}] [{}] [{}] [{}] [{}])", dep, blocks.join("; "), edges.join("; "), dumps.join("; "), inter.join("; "), fwd_s.join("; "));
        sink.count(&format!("shape_{}", plan.shape));
        sink.count(if local { "local" } else { "remote" });
        sink.count(&format!("hosts_{}", hosts));
        sink.count_n("links", d0.links.len() as u64);
        let descr = json!({"plan": format!("{:?}", plan), "deployment": if local { format!("local({})", cores[0]) } else { format!("hosts with cores {:?}", cores) },
                           "blocks": format!("{:?}", d0.blocks.iter().map(|b| (b.id, b.replication, b.only_one, b.replicas.len())).collect::<Vec<_>>()),
                           "edges": format!("{:?}", d0.edges), "n_links": d0.links.len(), "ports": format!("{:?}", d0.ports)});
        sink.push(term, descr, d0.blocks.len() >= 3 && d0.links.len() >= 4);
    }
}

pub const RULE: &str = "random job graphs built with the public API (linear, split+merge/join/zip diamonds, replay and iterate loops, route, multi-sink; replication changes One/Host/Limited(1..7)/Unlimited, shuffles, group_by, broadcast, folds) on local(1..8) or 1..4 hosts with heterogeneous core counts incl. 1-core hosts; every host id derives its graph separately; the blocks closed by `.replication(..)` or `.route()` are recorded while the job is built and must be wired forward. Non-trivial: >=3 blocks and >=4 links; distinct = distinct case terms";

//! C08: joins — real `Start::multiple -> local join` chains driven with explicit delivery
//! orders on both inputs.
use renoir::operator::StreamElement as E;
use renoir::verif::block_id;
use serde_json::json;

use crate::cases::CaseSink;
use crate::coqfmt::ToCoq;
use crate::rng::Rng;
use crate::startdrv::{drive_binary_chain, gen, Del};
use crate::Opts;

type JO = (i64, (Option<i64>, Option<i64>));

fn item_stream(rng: &mut Rng, rounds: usize, maxlen: u64, base: i64, keyspace: i64) -> Vec<E<i64>> {
    let mut v = vec![];
    for _ in 0..rounds {
        let len = if rng.chance(1, 5) { 0 } else { rng.below(maxlen + 1) };
        for _ in 0..len {
            // values collide on keys (value mod m), with duplicates
            v.push(E::Item(base + rng.range(0, keyspace)));
        }
        v.push(E::FlushAndRestart);
    }
    v.push(E::Terminate);
    v
}

fn per_round(rng: &mut Rng, stream: &[E<i64>]) -> Vec<Vec<Vec<E<i64>>>> {
    let mut rounds = vec![];
    let mut cur = vec![];
    for e in stream {
        match e {
            E::Terminate => {}
            E::FlushAndRestart => {
                cur.push(e.clone());
                rounds.push(gen::batches(rng, &cur));
                cur.clear();
            }
            _ => cur.push(e.clone()),
        }
    }
    rounds
}

fn merge_lists(rng: &mut Rng, mut lists: Vec<(bool, usize, Vec<Vec<E<i64>>>)>) -> Vec<Del<i64, i64>> {
    let mut out = vec![];
    // bias which side runs ahead / ends first
    let bias = rng.below(3);
    loop {
        let live: Vec<usize> = (0..lists.len()).filter(|&i| !lists[i].2.is_empty()).collect();
        if live.is_empty() {
            break;
        }
        let pref: Vec<usize> = live.iter().cloned().filter(|&i| (bias == 1 && lists[i].0) || (bias == 2 && !lists[i].0)).collect();
        let i = if !pref.is_empty() && rng.chance(3, 4) { *rng.pick(&pref) } else { *rng.pick(&live) };
        let b = lists[i].2.remove(0);
        out.push(if lists[i].0 { Del::L(lists[i].1, b) } else { Del::R(lists[i].1, b) });
    }
    out
}

pub fn deliveries(rng: &mut Rng, nl: usize, nr: usize, rounds: usize, keyspace: i64) -> Vec<Del<i64, i64>> {
    let l: Vec<_> = (0..nl).map(|_| { let st = item_stream(rng, rounds, 5, 0, keyspace); per_round(rng, &st) }).collect();
    let r: Vec<_> = (0..nr).map(|_| { let st = item_stream(rng, rounds, 5, 100, keyspace); per_round(rng, &st) }).collect();
    let mut dels = vec![];
    for k in 0..rounds {
        let mut lists = vec![];
        for s in 0..nl { lists.push((true, s, l[s][k].clone())); }
        for s in 0..nr { lists.push((false, s, r[s][k].clone())); }
        dels.extend(merge_lists(rng, lists));
    }
    let mut lists = vec![];
    for s in 0..nl { lists.push((true, s, vec![vec![E::Terminate]])); }
    for s in 0..nr { lists.push((false, s, vec![vec![E::Terminate]])); }
    dels.extend(merge_lists(rng, lists));
    dels
}

fn norm_inner(out: Vec<E<(i64, (i64, i64))>>) -> Vec<E<JO>> {
    out.into_iter().map(|e| e.map(|(k, (a, b))| (k, (Some(a), Some(b))))).collect()
}
fn norm_left(out: Vec<E<(i64, (i64, Option<i64>))>>) -> Vec<E<JO>> {
    out.into_iter().map(|e| e.map(|(k, (a, b))| (k, (Some(a), b)))).collect()
}

fn run_join(algo: &str, variant: &str, m: i64, nl: u64, nr: u64, dels: Vec<Del<i64, i64>>) -> Result<Vec<E<JO>>, String> {
    macro_rules! ids { ($a:expr, $b:expr) => { (block_id(&$a), block_id(&$b)) }; }
    match (algo, variant) {
        ("AHash", "JInner") => drive_binary_chain(nl, nr, dels, move |a, b| { let (i, j) = ids!(a, b); (a.join(b, move |x: &i64| x.rem_euclid(m), move |y: &i64| y.rem_euclid(m)).0, i, j) }).map(norm_inner),
        ("AHash", "JLeft") => drive_binary_chain(nl, nr, dels, move |a, b| { let (i, j) = ids!(a, b); (a.left_join(b, move |x: &i64| x.rem_euclid(m), move |y: &i64| y.rem_euclid(m)).0, i, j) }).map(norm_left),
        ("AHash", "JOuter") => drive_binary_chain(nl, nr, dels, move |a, b| { let (i, j) = ids!(a, b); (a.outer_join(b, move |x: &i64| x.rem_euclid(m), move |y: &i64| y.rem_euclid(m)).0, i, j) }),
        ("ASortMerge", "JInner") => drive_binary_chain(nl, nr, dels, move |a, b| { let (i, j) = ids!(a, b); (a.join_with(b, move |x: &i64| x.rem_euclid(m), move |y: &i64| y.rem_euclid(m)).ship_hash().local_sort_merge().inner().0, i, j) }).map(norm_inner),
        ("ASortMerge", "JLeft") => drive_binary_chain(nl, nr, dels, move |a, b| { let (i, j) = ids!(a, b); (a.join_with(b, move |x: &i64| x.rem_euclid(m), move |y: &i64| y.rem_euclid(m)).ship_hash().local_sort_merge().left().0, i, j) }).map(norm_left),
        ("ASortMerge", "JOuter") => drive_binary_chain(nl, nr, dels, move |a, b| { let (i, j) = ids!(a, b); (a.join_with(b, move |x: &i64| x.rem_euclid(m), move |y: &i64| y.rem_euclid(m)).ship_hash().local_sort_merge().outer().0, i, j) }),
        ("ABroadcastHash", "JInner") => drive_binary_chain(nl, nr, dels, move |a, b| { let (i, j) = ids!(a, b); (a.join_with(b, move |x: &i64| x.rem_euclid(m), move |y: &i64| y.rem_euclid(m)).ship_broadcast_right().local_hash().inner(), i, j) }).map(norm_inner),
        ("ABroadcastHash", "JLeft") => drive_binary_chain(nl, nr, dels, move |a, b| { let (i, j) = ids!(a, b); (a.join_with(b, move |x: &i64| x.rem_euclid(m), move |y: &i64| y.rem_euclid(m)).ship_broadcast_right().local_hash().left(), i, j) }).map(norm_left),
        _ => Err("unsupported".into()),
    }
}

/// keyed joins: both inputs are keyed streams of (key, value)
fn run_keyed(outer: bool, nl: u64, nr: u64, dels: Vec<Del<(i64, i64), (i64, i64)>>) -> Result<Vec<E<JO>>, String> {
    if outer {
        drive_binary_chain(nl, nr, dels, |a, b| {
            let (i, j) = (block_id(&a), block_id(&b));
            (a.to_keyed().join_outer(b.to_keyed()).0, i, j)
        })
    } else {
        drive_binary_chain(nl, nr, dels, |a, b| {
            let (i, j) = (block_id(&a), block_id(&b));
            (a.to_keyed().join(b.to_keyed()).0, i, j)
        })
        .map(norm_inner)
    }
}

fn keyed_dels(m: i64, dels: &[Del<i64, i64>]) -> Vec<Del<(i64, i64), (i64, i64)>> {
    let conv = |b: &Vec<E<i64>>| b.iter().map(|e| e.clone().map(|v| (v.rem_euclid(m), v))).collect::<Vec<_>>();
    dels.iter().map(|d| match d { Del::L(s, b) => Del::L(*s, conv(b)), Del::R(s, b) => Del::R(*s, conv(b)) }).collect()
}

fn del_coq(d: &Del<i64, i64>) -> String {
    match d { Del::L(s, b) => format!("DL {} {}", s.coq(), b.coq()), Del::R(s, b) => format!("DR {} {}", s.coq(), b.coq()) }
}
fn del2_coq(d: &Del<(i64, i64), (i64, i64)>) -> String {
    match d { Del::L(s, b) => format!("DL {} {}", s.coq(), b.coq()), Del::R(s, b) => format!("DR {} {}", s.coq(), b.coq()) }
}
fn list_coq(v: Vec<String>) -> String { format!("[{}]", v.join("; ")) }

pub fn generate(opts: &Opts, sink: &mut CaseSink) {
    let mut rng = Rng::new(opts.seed);
    let n = (if opts.thorough { 4000 } else { 500 }) / opts.scale;
    let combos = [("AHash", "JInner"), ("AHash", "JLeft"), ("AHash", "JOuter"), ("ASortMerge", "JInner"), ("ASortMerge", "JLeft"),
                  ("ASortMerge", "JOuter"), ("ABroadcastHash", "JInner"), ("ABroadcastHash", "JLeft"), ("AKeyedInner", "JInner"), ("AKeyedOuter", "JOuter")];
    for i in 0..n {
        let (algo, variant) = combos[i % combos.len()];
        let (nl, nr) = (rng.range(1, 3) as usize, rng.range(1, 3) as usize);
        let rounds = *rng.pick(&[1usize, 1, 2, 3]);
        let m = *rng.pick(&[1i64, 2, 3, 5]);
        let ks = *rng.pick(&[2i64, 4, 9]);
        let dels = deliveries(&mut rng, nl, nr, rounds, ks);
        let out = match algo {
            "AKeyedInner" => run_keyed(false, nl as u64, nr as u64, keyed_dels(m, &dels)),
            "AKeyedOuter" => run_keyed(true, nl as u64, nr as u64, keyed_dels(m, &dels)),
            _ => run_join(algo, variant, m, nl as u64, nr as u64, dels.clone()),
        }
        .unwrap_or_else(|e| { eprintln!("C08 {algo} {variant}: {e}"); vec![E::Item((i64::MIN, (None, None)))] });
        let coq_algo = if algo == "ABroadcastHash" { "AHash" } else { algo };
        let term = format!("(CJoin {} {} {} {} {} {} {})", coq_algo, variant, m.coq(), nl.coq(), nr.coq(),
                           list_coq(dels.iter().map(del_coq).collect()), out.coq());
        sink.count(&format!("{}_{}", algo, variant));
        let nres = out.iter().filter(|e| matches!(e, E::Item(_))).count();
        sink.count_n("result_tuples", nres as u64);
        sink.push(term, json!({"kind": "join", "algorithm": algo, "variant": variant, "key": format!("v mod {m}"), "left_replicas": nl, "right_replicas": nr,
                               "deliveries": format!("{:?}", dels), "impl_output": format!("{:?}", out)}), nres >= 2 && dels.len() >= 4);
    }
    // keyed interval join over timestamped (key, value) streams
    for _ in 0..((if opts.thorough { 1500 } else { 200 }) / opts.scale) {
        let (nl, nr) = (rng.range(1, 2) as usize, rng.range(1, 2) as usize);
        let (lb, ub) = (rng.range(0, 4), rng.range(0, 4));
        let mk = |rng: &mut Rng, base: i64| -> Vec<Vec<E<(i64, i64)>>> {
            let mut st = vec![];
            let mut ts = rng.range(0, 3);
            let mut j = 0;
            for _ in 0..rng.below(8) {
                if rng.chance(1, 4) { st.push(E::Watermark(ts)); ts += 1; }
                else { ts += rng.range(0, 2); j += 1; st.push(E::Timestamped((rng.range(0, 1), base + j), ts + 1)); }
            }
            st.push(E::Watermark(ts + 1));
            st.push(E::FlushAndRestart);
            let mut bs: Vec<Vec<E<(i64, i64)>>> = vec![];
            let mut cur = vec![];
            for e in st { let far = matches!(e, E::FlushAndRestart); cur.push(e); if far || rng.chance(1, 3) { bs.push(std::mem::take(&mut cur)); } }
            if !cur.is_empty() { bs.push(cur); }
            bs.push(vec![E::Terminate]);
            bs
        };
        let mut lists: Vec<(bool, usize, Vec<Vec<E<(i64, i64)>>>)> = vec![];
        for s in 0..nl { lists.push((true, s, mk(&mut rng, 0))); }
        for s in 0..nr { lists.push((false, s, mk(&mut rng, 100))); }
        // data+FAR first (any interleaving), Terminates last
        let mut dels: Vec<Del<(i64, i64), (i64, i64)>> = vec![];
        let mut terms = vec![];
        for l in lists.iter_mut() { let t = l.2.pop().unwrap(); terms.push((l.0, l.1, t)); }
        loop {
            let live: Vec<usize> = (0..lists.len()).filter(|&i| !lists[i].2.is_empty()).collect();
            if live.is_empty() { break; }
            let i = *rng.pick(&live);
            let b = lists[i].2.remove(0);
            dels.push(if lists[i].0 { Del::L(lists[i].1, b) } else { Del::R(lists[i].1, b) });
        }
        for (left, s, t) in terms { dels.push(if left { Del::L(s, t) } else { Del::R(s, t) }); }
        // the block in front of the join receives (key, MergeElement) pairs: the Left/Right
        // wrapping happens in the producers' blocks (`merge_distinct`)
        type ME = (i64, renoir::operator::VerifMergeElement<i64, i64>);
        let wrapped: Vec<Del<ME, ME>> = dels
            .iter()
            .map(|d| match d {
                Del::L(s, b) => Del::L(*s, b.iter().map(|e| e.clone().map(|(k, v)| (k, renoir::operator::VerifMergeElement::Left(v)))).collect()),
                Del::R(s, b) => Del::R(*s, b.iter().map(|e| e.clone().map(|(k, v)| (k, renoir::operator::VerifMergeElement::Right(v)))).collect()),
            })
            .collect();
        let out = crate::startdrv::drive_interval(nl as u64, nr as u64, wrapped, lb, ub)
            .unwrap_or_else(|e| { eprintln!("C08 interval: {e}"); vec![E::Item((i64::MIN, (0, 0)))] });
        let term = format!("(CInterval {} {} {} {} {} {})", lb.coq(), ub.coq(), nl.coq(), nr.coq(), list_coq(dels.iter().map(del2_coq).collect()), out.coq());
        sink.count("interval_join");
        let nres = out.iter().filter(|e| matches!(e, E::Timestamped(_, _))).count();
        sink.push(term, json!({"kind": "interval_join", "lower": lb, "upper": ub, "deliveries": format!("{:?}", dels), "impl_output": format!("{:?}", out)}), nres >= 1);
    }
}

pub const RULE: &str = "whole jobs left.join(right) through the public API: inner / left / outer x hash / broadcast shipping x hash / sort-merge, partially overlapping keys, on local(1), local(3..8) and two loopback hosts with random batch modes, sink multiset against the relational join; real two-input chains (hash inner/left/outer, sort-merge inner/left/outer, broadcast-right hash inner/left, keyed inner/outer, keyed interval join) with 1..3 replicas per side, 1..3 rounds, duplicate keys, keys on one side only, empty sides, every interleaving of the two sides' batches and end markers (biased to let one side run ahead / end first). Non-trivial: >=2 result tuples and >=4 deliveries; distinct = distinct case terms";

/// whole jobs `left.join(right)` through the public API: every variant x hash / broadcast
/// shipping x hash / sort-merge local algorithm, on local(1), local(3..8) and two loopback
/// hosts; keys overlap partially so that left / outer variants have unmatched rows on both sides
pub fn generate_jobs(rng: &mut crate::rng::Rng, sink: &mut CaseSink, rounds: usize) {
    use crate::pipe::{Deploy, JLocal, JShip, JVar, Mode, Pipe};
    for _ in 0..rounds {
        for var in [JVar::Inner, JVar::Left, JVar::Outer] {
            for ship in [JShip::Hash, JShip::Broadcast] {
                for local in [JLocal::Hash, JLocal::SortMerge] {
                    let nl = rng.range(0, 25);
                    let nr = rng.range(0, 25);
                    let l: Vec<(i64, i64)> = (0..nl).map(|i| (rng.range(0, 7), 100 + i)).collect();
                    let r: Vec<(i64, i64)> = (0..nr).map(|i| (rng.range(3, 10), 200 + i)).collect();
                    let p = Pipe::Join(Box::new(Pipe::Src(rng.chance(3, 4), l)), Box::new(Pipe::Src(rng.chance(3, 4), r)), var, ship, local);
                    let configs = vec![
                        (Deploy::Local(1), Mode::Fixed(1024)),
                        (Deploy::Local(rng.range(3, 8) as u64), crate::pipe::random_mode(rng)),
                        (Deploy::Remote(vec![2, *rng.pick(&[1u64, 2, 3])]), crate::pipe::random_mode(rng)),
                    ];
                    sink.count("join_job");
                    crate::props::c01::emit(sink, &p, &configs, std::time::Duration::from_secs(60));
                }
            }
        }
    }
}

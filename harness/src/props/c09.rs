//! C09: zip / merge behind the real two-input Start; broadcast and split through the real End.
use renoir::operator::StreamElement as E;
use renoir::verif::block_id;
use serde_json::json;

use crate::cases::CaseSink;
use crate::coqfmt::ToCoq;
use crate::props::link::{drive_end, drive_route, lcase_term, link_script, rcase_term, Clock, LMode, Strat, ROUTE_PREDS};
use crate::rng::Rng;
use crate::startdrv::{drive_binary_chain, Del};
use crate::Opts;

fn del_coq(d: &Del<i64, i64>) -> String {
    match d { Del::L(s, b) => format!("DL {} {}", s.coq(), b.coq()), Del::R(s, b) => format!("DR {} {}", s.coq(), b.coq()) }
}
fn list_coq(v: Vec<String>) -> String { format!("[{}]", v.join("; ")) }

/// make every data element timestamped (zip cannot mix kinds)
fn timestamp_all(dels: &mut [Del<i64, i64>]) {
    let mut ts = 0;
    for d in dels.iter_mut() {
        let b = match d { Del::L(_, b) => b, Del::R(_, b) => b };
        for e in b.iter_mut() {
            if let E::Item(v) = e { ts += 1; *e = E::Timestamped(*v, ts); }
        }
    }
}

pub fn generate(opts: &Opts, sink: &mut CaseSink) {
    let mut rng = Rng::new(opts.seed);
    let n = (if opts.thorough { 4000 } else { 500 }) / opts.scale;
    zip_merge_cases(&mut rng, sink, n);
    zip_ts_cases(&mut rng, sink, n / 4);
    generate_rest(opts, sink, rng, n);
}

/// only the zip / merge chains (re-evaluated by C05: per-round pairing, nothing carried over)
pub fn generate_zip_merge(opts: &Opts, sink: &mut CaseSink) {
    let mut rng = Rng::new(opts.seed ^ 0x9);
    let n = (if opts.thorough { 4000 } else { 500 }) / opts.scale;
    zip_merge_cases(&mut rng, sink, n);
}

fn zip_merge_cases(rng: &mut Rng, sink: &mut CaseSink, n: usize) {
    for i in 0..n {
        let (nl, nr) = (rng.range(1, 3) as usize, rng.range(1, 3) as usize);
        let rounds = rng.range(1, 3) as usize;
        let mut dels = crate::props::c08::deliveries(rng, nl, nr, rounds, 50);
        // distinct values: left 1000+i, right 5000+i
        let (mut a, mut b) = (1000, 5000);
        for d in dels.iter_mut() {
            match d {
                Del::L(_, bt) => for e in bt.iter_mut() { if let E::Item(v) = e { a += 1; *v = a; } },
                Del::R(_, bt) => for e in bt.iter_mut() { if let E::Item(v) = e { b += 1; *v = b; } },
            }
        }
        if i % 3 == 0 { timestamp_all(&mut dels); }
        if i % 2 == 0 {
            let out = drive_binary_chain(nl as u64, nr as u64, dels.clone(), |x, y| { let (p, q) = (block_id(&x), block_id(&y)); (x.zip(y), p, q) })
                .unwrap_or_else(|e| { eprintln!("C09 zip: {e}"); vec![E::Item((i64::MIN, 0))] });
            let np = out.iter().filter(|e| matches!(e, E::Item(_) | E::Timestamped(_, _))).count();
            sink.count("zip");
            sink.push(format!("(CZip {} {} {} {})", nl.coq(), nr.coq(), list_coq(dels.iter().map(del_coq).collect()), out.coq()),
                      json!({"kind": "zip", "left_replicas": nl, "right_replicas": nr, "deliveries": format!("{:?}", dels), "impl_output": format!("{:?}", out)}), np >= 2);
        } else {
            let out = drive_binary_chain(nl as u64, nr as u64, dels.clone(), |x, y| { let (p, q) = (block_id(&x), block_id(&y)); (x.merge(y), p, q) })
                .unwrap_or_else(|e| { eprintln!("C09 merge: {e}"); vec![E::Item(i64::MIN)] });
            let np = out.iter().filter(|e| matches!(e, E::Item(_) | E::Timestamped(_, _))).count();
            sink.count("merge");
            sink.push(format!("(CMerge {} {} {} {})", nl.coq(), nr.coq(), list_coq(dels.iter().map(del_coq).collect()), out.coq()),
                      json!({"kind": "merge", "left_replicas": nl, "right_replicas": nr, "deliveries": format!("{:?}", dels), "impl_output": format!("{:?}", out)}), np >= 2);
        }
    }
}

/// zip of two TIMESTAMPED inputs whose senders emit consistent timestamps and watermarks (a
/// watermark is below every later timestamp of its sender), one side often running ahead of
/// the other, so that stashed elements are paired after watermarks have passed (C06: the pair
/// carries the LATER of the two timestamps)
pub fn zip_ts_cases(rng: &mut Rng, sink: &mut CaseSink, n: usize) {
    for _ in 0..n {
        let (nl, nr) = (rng.range(1, 2) as usize, rng.range(1, 2) as usize);
        let mk = |rng: &mut Rng, base: i64, lag: i64| -> Vec<Vec<E<i64>>> {
            let mut st = vec![];
            let mut ts = rng.range(0, 3) + lag;
            let mut j = 0;
            for _ in 0..rng.below(9) {
                if rng.chance(1, 3) { st.push(E::Watermark(ts)); ts += 1; }
                else { ts += rng.range(0, 3); j += 1; st.push(E::Timestamped(base + j, ts + 1)); }
            }
            st.push(E::Watermark(ts + 1));
            st.push(E::FlushAndRestart);
            let mut bs: Vec<Vec<E<i64>>> = vec![];
            let mut cur = vec![];
            for e in st { let far = matches!(e, E::FlushAndRestart); cur.push(e); if far || rng.chance(1, 3) { bs.push(std::mem::take(&mut cur)); } }
            if !cur.is_empty() { bs.push(cur); }
            bs.push(vec![E::Terminate]);
            bs
        };
        let lag = if rng.chance(1, 2) { rng.range(3, 12) } else { 0 };
        let mut lists: Vec<(bool, usize, Vec<Vec<E<i64>>>)> = vec![];
        for s in 0..nl { lists.push((true, s, mk(rng, 1000 * (s as i64 + 1), 0))); }
        for s in 0..nr { lists.push((false, s, mk(rng, 5000 + 1000 * s as i64, lag))); }
        let mut dels: Vec<Del<i64, i64>> = vec![];
        let mut terms = vec![];
        for l in lists.iter_mut() { let t = l.2.pop().unwrap(); terms.push((l.0, l.1, t)); }
        loop {
            let live: Vec<usize> = (0..lists.len()).filter(|&i| !lists[i].2.is_empty()).collect();
            if live.is_empty() { break; }
            // biased: keep delivering from the same list for a while (one side runs ahead)
            let i = if rng.chance(1, 2) { live[0] } else { *rng.pick(&live) };
            let b = lists[i].2.remove(0);
            dels.push(if lists[i].0 { Del::L(lists[i].1, b) } else { Del::R(lists[i].1, b) });
        }
        for (left, s, t) in terms { dels.push(if left { Del::L(s, t) } else { Del::R(s, t) }); }
        let out = drive_binary_chain(nl as u64, nr as u64, dels.clone(), |x, y| { let (p, q) = (block_id(&x), block_id(&y)); (x.zip(y), p, q) })
            .unwrap_or_else(|e| { eprintln!("C09 zip(ts): {e}"); vec![E::Item((i64::MIN, 0))] });
        let np = out.iter().filter(|e| matches!(e, E::Timestamped(_, _))).count();
        sink.count("zip_timestamped_with_watermarks");
        sink.push(format!("(CZip {} {} {} {})", nl.coq(), nr.coq(), list_coq(dels.iter().map(del_coq).collect()), out.coq()),
                  json!({"kind": "zip, timestamped inputs with watermarks", "left_replicas": nl, "right_replicas": nr, "deliveries": format!("{:?}", dels), "impl_output": format!("{:?}", out)}), np >= 2);
    }
}

fn generate_rest(opts: &Opts, sink: &mut CaseSink, mut rng: Rng, n: usize) {
    // broadcast (All) and split (several downstream blocks)
    for i in 0..n {
        let broadcast = i % 2 == 0;
        let strat = if broadcast { Strat::All } else { *rng.pick(&[Strat::GroupBy, Strat::Random]) };
        let blocks: Vec<u64> = if broadcast { vec![rng.range(1, 5) as u64] } else { (0..rng.range(2, 4)).map(|_| rng.range(1, 4) as u64).collect() };
        let fixed = LMode::random(&mut rng);
        let script = link_script(&mut rng);
        let mode = fixed.batch_mode();
        let clock = Clock::random(&mut rng, script.len());
        let recv = drive_end(strat, mode, &blocks, script.clone(), &clock).unwrap_or_else(|m| { eprintln!("C09 End: {m}"); blocks.iter().map(|k| vec![vec![]; *k as usize]).collect() });
        sink.count(if broadcast { "broadcast" } else { "split_branches" });
        let nd = script.iter().filter(|e| matches!(e, E::Item(_) | E::Timestamped(_, _))).count();
        sink.push(format!("(CFan {})", lcase_term(strat, fixed, &blocks, &script, &recv, &clock)),
                  json!({"kind": if broadcast {"broadcast"} else {"split"}, "downstream_replicas": blocks, "input": format!("{:?}", script), "received": format!("{:?}", recv)}), nd >= 3);
    }
    generate_routes(opts, sink, &mut rng);
    for (i, n) in [200i64, 37].iter().enumerate() {
        let pairs = zip_job(*n, opts.seed + i as u64).unwrap_or_else(|m| { eprintln!("C09 zip job: {m}"); vec![] });
        sink.count("zip_job_two_hosts");
        sink.push(format!("(CZipJob {} [{}])", n, pairs.iter().map(|(a, b)| format!("({}, {})", a, b)).collect::<Vec<_>>().join("; ")),
                  json!({"kind": "zip of two one-per-host replicated streams on 2 hosts x 2 cores", "n": n, "pairs": pairs.len()}), true);
    }
}

/// zip on two hosts with inputs replicated one-per-host: the zip block must still be ONE replica
fn zip_job(n: i64, seed: u64) -> Result<Vec<(i64, i64)>, String> {
    use renoir::config::ConfigBuilder;
    use renoir::{Replication, StreamContext};
    let (tx, rx) = std::sync::mpsc::channel::<Result<Option<Vec<(i64, i64)>>, String>>();
    for h in 0..2u64 {
        let tx = tx.clone();
        std::thread::spawn(move || {
            let r = crate::script::catch(move || {
                let mut toml = String::new();
                for i in 0..2 { toml.push_str(&format!("[[host]]\naddress = \"127.204.{}.{}\"\nbase_port = 24400\nnum_cores = 2\n\n", seed % 250, i + 1)); }
                let mut b = ConfigBuilder::new_remote();
                b.parse_toml_str(&toml).unwrap();
                b.host_id(h);
                let env = StreamContext::new(b.build().unwrap());
                // left: everything on one host's replica; right: spread over both hosts
                let a = env.stream_iter(0..n).repartition_by(Replication::Host, |_x: &i64| 0u64);
                let b2 = env.stream_iter(1000..1000 + n).repartition_by(Replication::Host, |x: &i64| *x as u64);
                let out = a.zip(b2).collect_vec();
                env.execute_blocking();
                out.get()
            });
            let _ = tx.send(r);
        });
    }
    drop(tx);
    let mut res = None;
    for _ in 0..2 {
        match rx.recv_timeout(std::time::Duration::from_secs(60)) {
            Ok(Ok(Some(v))) => res = Some(v),
            Ok(Ok(None)) => {}
            Ok(Err(m)) => return Err(m),
            Err(_) => return Err("hang".into()),
        }
    }
    res.ok_or_else(|| "no result".to_string())
}

/// route: the real `RoutingEnd` towards 1..4 routes (first matching predicate wins, elements
/// matching none are dropped), every batch mode
pub fn generate_routes(opts: &Opts, sink: &mut CaseSink, rng: &mut Rng) {
    let n = (if opts.thorough { 3000 } else { 300 }) / opts.scale;
    for _ in 0..n {
        let k = rng.range(1, 4) as usize;
        let preds: Vec<usize> = (0..k).map(|_| rng.below(ROUTE_PREDS.len() as u64) as usize).collect();
        let lmode = LMode::random(rng);
        let script = link_script(rng);
        let clock = Clock::random(rng, script.len());
        let recv = drive_route(&preds, lmode.batch_mode(), script.clone(), &clock).unwrap_or_else(|m| { eprintln!("C09 route: {m}"); vec![vec![]; k] });
        sink.count("route");
        sink.count(&format!("routes_{}", k));
        let nd = script.iter().filter(|e| matches!(e, E::Item(_) | E::Timestamped(_, _))).count();
        sink.push(format!("(CRoute {})", rcase_term(&preds, lmode, &script, &recv, &clock)),
                  json!({"kind": "route", "predicates_mod_rem": preds.iter().map(|p| (ROUTE_PREDS[*p].0, ROUTE_PREDS[*p].1)).collect::<Vec<_>>(), "batch": format!("{:?}", lmode),
                         "clock_ms": format!("{:?}", clock), "input": format!("{:?}", script), "received": format!("{:?}", recv)}), nd >= 3 && k >= 2);
    }
}

pub const RULE: &str = "zip and merge behind the real two-input Start: 1..3 replicas per side, 1..3 rounds, unequal lengths, empty sides, every interleaving of the two sides (one side running ahead), timestamped and plain; broadcast: the real End with the All strategy towards 1..5 replicas; split: the real End towards 2..4 downstream blocks (branches); route: the real RoutingEnd towards 1..4 routes with predicates v mod m = r (overlapping, always-true and never-true ones included), every batch mode incl. adaptive under a mock clock, exact batch sequences; zip job: two streams replicated one-per-host on 2 hosts zipped (the zip block must have one replica). Non-trivial: >=2 pairs/elements (>=3 data elements for fan-out); distinct = distinct case terms";

//! C11: side inputs of a loop — the real two-input `Start` with one cached side.
use renoir::operator::StreamElement as E;
use renoir::verif::Bin;
use serde_json::json;

use crate::cases::CaseSink;
use crate::coqfmt::{app, paren, ToCoq};
use crate::rng::Rng;
use crate::startdrv::{drive_binary_start, gen, Del};
use crate::Opts;

impl ToCoq for Bin<i64, i64> {
    fn coq(&self) -> String {
        match self {
            Bin::Left(v) => format!("BL {}", paren(v.coq())),
            Bin::Right(v) => format!("BR {}", paren(v.coq())),
            Bin::LeftEnd => "BLEnd".into(),
            Bin::RightEnd => "BREnd".into(),
        }
    }
}
impl ToCoq for Del<i64, i64> {
    fn coq(&self) -> String {
        match self {
            Del::L(s, b) => format!("DL {} {}", s.coq(), b.coq()),
            Del::R(s, b) => format!("DR {} {}", s.coq(), b.coq()),
        }
    }
}

static CASE_NO: std::sync::atomic::AtomicUsize = std::sync::atomic::AtomicUsize::new(0);

pub fn emit(sink: &mut CaseSink, nl: usize, nr: usize, lc: bool, rc: bool, dels: Vec<Del<i64, i64>>, tag: &str) {
    // one case in four runs with adaptive batching (2 ms) and 8 ms between deliveries: the
    // receiver's timed waits expire in every state (they must be invisible but for FlushBatch)
    let n = CASE_NO.fetch_add(1, std::sync::atomic::Ordering::Relaxed);
    let adaptive = if n % 4 == 3 && dels.len() <= 40 { Some(2) } else { None };
    sink.count(if adaptive.is_some() { "adaptive_with_timeouts" } else { "fixed_batching" });
    let out = match drive_binary_start(nl as u64, nr as u64, lc, rc, dels.clone(), adaptive) {
        Ok(o) => o,
        Err(msg) => {
            sink.count("impl_failed");
            eprintln!("binary start driver: {msg}");
            vec![E::Item(Bin::Left(i64::MIN))]
        }
    };
    let rounds = out.iter().filter(|e| matches!(e, E::FlushAndRestart)).count();
    sink.count(tag);
    sink.count(if lc { "left_cached" } else if rc { "right_cached" } else { "no_cache" });
    sink.count(&format!("rounds_{}", rounds.min(4)));
    sink.count(&format!("loop_side_replicas_{}", if lc { nr } else { nl }));
    let term = app("Build_case", &[nl.coq(), nr.coq(), lc.coq(), rc.coq(), dels.coq(), out.coq()]);
    let d = json!({"left_replicas": nl, "right_replicas": nr, "left_cache": lc, "right_cache": rc,
                   "deliveries": format!("{:?}", dels), "impl_output": format!("{:?}", out)});
    sink.push(term, d, rounds >= 2 && dels.len() >= 4);
}

/// per-sender batch lists of one round -> random interleaving preserving per-sender order
fn merge_round(rng: &mut Rng, mut lists: Vec<(bool, usize, Vec<Vec<E<i64>>>)>) -> Vec<Del<i64, i64>> {
    let mut out = vec![];
    loop {
        let live: Vec<usize> = (0..lists.len()).filter(|&i| !lists[i].2.is_empty()).collect();
        if live.is_empty() {
            break;
        }
        let i = *rng.pick(&live);
        let b = lists[i].2.remove(0);
        out.push(if lists[i].0 { Del::L(lists[i].1, b) } else { Del::R(lists[i].1, b) });
    }
    out
}

/// split a sender stream (several rounds + Terminate) into per-round batch lists
fn per_round(rng: &mut Rng, stream: &[E<i64>]) -> (Vec<Vec<Vec<E<i64>>>>, Vec<E<i64>>) {
    let mut rounds = vec![];
    let mut cur = vec![];
    for e in stream {
        match e {
            E::Terminate => {}
            E::FlushAndRestart => {
                cur.push(e.clone());
                rounds.push(gen::batches(rng, &cur));
                cur.clear();
            }
            _ => cur.push(e.clone()),
        }
    }
    (rounds, vec![E::Terminate])
}

/// A consumable delivery order for a Start with the cached side `cached_left`:
/// round 1 interleaves the whole side input (data, FAR, Terminate) with the loop side's
/// first round; later rounds only carry the loop side; the loop side's Terminates come last.
pub fn cached_case(rng: &mut Rng, ncached: usize, nloop: usize, rounds: usize, cached_left: bool) -> Vec<Del<i64, i64>> {
    let mut lists = vec![];
    for s in 0..ncached {
        let st = gen::sender_stream(rng, 1, 5, 10 + s as i64);
        let mut bs = gen::batches(rng, &st[..st.len() - 1]);
        bs.push(vec![E::Terminate]);
        lists.push((cached_left, s, bs));
    }
    let mut loop_rounds = vec![];
    for s in 0..nloop {
        let st = gen::sender_stream(rng, rounds, 4, 50 + s as i64);
        loop_rounds.push(per_round(rng, &st).0);
    }
    for s in 0..nloop {
        lists.push((!cached_left, s, loop_rounds[s][0].clone()));
    }
    let mut dels = merge_round(rng, lists);
    for r in 1..rounds {
        let lists = (0..nloop).map(|s| (!cached_left, s, loop_rounds[s][r].clone())).collect();
        dels.extend(merge_round(rng, lists));
    }
    let lists = (0..nloop).map(|s| (!cached_left, s, vec![vec![E::Terminate]])).collect();
    dels.extend(merge_round(rng, lists));
    dels
}

/// no cache: both sides run the same number of rounds
pub fn plain_case(rng: &mut Rng, nl: usize, nr: usize, rounds: usize) -> Vec<Del<i64, i64>> {
    let l: Vec<_> = (0..nl).map(|s| { let st = gen::sender_stream(rng, rounds, 4, 10 + s as i64); per_round(rng, &st).0 }).collect();
    let r: Vec<_> = (0..nr).map(|s| { let st = gen::sender_stream(rng, rounds, 4, 50 + s as i64); per_round(rng, &st).0 }).collect();
    let mut dels = vec![];
    for k in 0..rounds {
        let mut lists = vec![];
        for s in 0..nl { lists.push((true, s, l[s][k].clone())); }
        for s in 0..nr { lists.push((false, s, r[s][k].clone())); }
        dels.extend(merge_round(rng, lists));
    }
    let mut lists = vec![];
    for s in 0..nl { lists.push((true, s, vec![vec![E::Terminate]])); }
    for s in 0..nr { lists.push((false, s, vec![vec![E::Terminate]])); }
    dels.extend(merge_round(rng, lists));
    dels
}

pub fn generate(opts: &Opts, sink: &mut CaseSink) {
    let mut rng = Rng::new(opts.seed);
    // corpus: the F10 history (left cached, two loop-side replicas)
    let f10 = vec![
        Del::L(0, vec![E::Item(1), E::FlushAndRestart]),
        Del::L(0, vec![E::Terminate]),
        Del::R(0, vec![E::Item(10), E::FlushAndRestart]),
        Del::R(1, vec![E::FlushAndRestart]),
        Del::R(0, vec![E::Terminate]),
        Del::R(1, vec![E::Terminate]),
    ];
    emit(sink, 1, 2, true, false, f10, "corpus");
    let n = if opts.thorough { 6000 } else { 700 };
    for i in 0..n {
        let cached_left = rng.chance(1, 2);
        let ncached = rng.range(1, 3) as usize;
        let nloop = if i % 2 == 0 { rng.range(2, 3) as usize } else { 1 };
        let rounds = rng.range(1, 4) as usize;
        let dels = cached_case(&mut rng, ncached, nloop, rounds, cached_left);
        let (nl, nr) = if cached_left { (ncached, nloop) } else { (nloop, ncached) };
        emit(sink, nl, nr, cached_left, !cached_left, dels, "random_cached");
    }
}

/// two-input Start without cache (both sides run the same rounds)
pub fn generate_plain(opts: &Opts, sink: &mut CaseSink) {
    let mut rng = Rng::new(opts.seed ^ 0x51);
    let n = (if opts.thorough { 3000 } else { 400 }) / opts.scale;
    for _ in 0..n {
        let (nl, nr) = (rng.range(1, 3) as usize, rng.range(1, 3) as usize);
        let rounds = rng.range(1, 3) as usize;
        let dels = plain_case(&mut rng, nl, nr, rounds);
        emit(sink, nl, nr, false, false, dels, "binary_no_cache");
    }
}

/// whole jobs on local(1): a replay loop whose body zips the loop stream with a side input
/// defined outside the loop (longer, shorter or as long as the loop stream)
pub fn generate_zip_loops(opts: &Opts, sink: &mut CaseSink) {
    use renoir::{RuntimeConfig, StreamContext};
    let shapes: Vec<(i64, i64, usize)> = if opts.thorough {
        vec![(3, 5, 3), (5, 3, 3), (4, 4, 2), (1, 6, 4), (6, 1, 2), (10, 25, 3), (0, 3, 2), (3, 0, 2)]
    } else { vec![(3, 5, 3), (5, 3, 3), (4, 4, 2), (1, 6, 4)] };
    for (n, m, rounds) in shapes {
        let r = crate::script::catch(move || {
            let env = StreamContext::new(RuntimeConfig::local(1).unwrap());
            let side = env.stream_iter(100..100 + m).shuffle();
            let st = env.stream_iter(1..1 + n).shuffle().replay(
                rounds,
                0i64,
                move |s, _| s.zip(side).map(|(a, b): (i64, i64)| a * 1000 + b),
                |d: &mut i64, x: i64| *d += x,
                |s: &mut i64, d: i64| *s += d,
                |_s: &mut i64| true,
            ).collect_vec();
            env.execute_blocking();
            st.get().and_then(|v| v.first().copied())
        });
        let st = r.unwrap_or(None);
        sink.count("zip_with_side_input_in_loop");
        sink.push(format!("(XZipLoop {} {} {} {})", n, m, rounds, match st { Some(v) => format!("(Some {})", if v < 0 { format!("({v})") } else { v.to_string() }), None => "None".into() }),
                  json!({"kind": "replay loop zipping the loop stream with a side input, local(1)", "loop_stream": n, "side_input": m, "rounds": rounds, "final_state": st}), true);
    }
}

pub const RULE: &str = "cases = corpus (F10 history) + random delivery orders for the two-input Start with one cached side: 1..3 side-input replicas (empty / one / many batches), loop side with 1 replica (50%) or 2..3, 1..4 rounds, every interleaving respecting per-sender order and round structure (a quarter with adaptive batching and expiring timed waits); whole jobs on local(1): replay loops zipping the loop stream with a longer / shorter / equal side input; non-trivial: >=2 rounds and >=4 deliveries; distinct = distinct case terms";

//! Whole-job checks that share the pipeline runner: C04 (termination), C10 (loops),
//! C18 (batching), C20 (fail-stop).
use std::time::{Duration, Instant};

use renoir::operator::source::ChannelSource;
use renoir::operator::StreamElement as E;
use renoir::{BatchMode, RuntimeConfig, StreamContext};
use serde_json::json;

use crate::cases::CaseSink;
use crate::pipe::{self, CrashOutcome, Deploy, JLocal, JShip, JVar, Mode, Op1, Pipe, Repl, P};
use crate::props::c01::emit;
use crate::props::link::{drive_end, lcase_term, link_script, Clock, LMode, Strat};
use crate::rng::Rng;
use crate::Opts;

fn big_data(rng: &mut Rng, n: u64) -> Vec<P> {
    (0..n).map(|i| (rng.range(0, 6), (i % 90) as i64 + rng.range(0, 9))).collect()
}

// ---------------------------------------------------------------- C04
/// The execution graph the real scheduler derives for an acyclic pipeline on SEVERAL hosts, as
/// an `mdag` of Proofs/NetMuxProofs.v: replicas, one demultiplexer per (block pair, host pair)
/// with remote links, final channels per (consumer replica, previous block), one connection
/// channel per demultiplexer. Nodes are numbered: for every block in id order, first the
/// demultiplexers feeding it, then its replicas.
pub fn mdag_case(sink: &mut CaseSink, p: &Pipe, cores: &[u64]) {
    use std::collections::BTreeMap;
    let (p2, cores2) = (p.clone(), cores.to_vec());
    let r = crate::script::catch(move || {
        let env = StreamContext::new(pipe::remote_config_pub(&cores2, 0, 9_000));
        pipe::build(&env, &p2, BatchMode::fixed(1024)).for_each(|_| {});
        env.verif_execution_graph()
    });
    let d = match r { Ok(d) => d, Err(_) => { sink.count("mdag_plan_rejected_by_api"); return; } };
    type C = (u64, u64, u64);
    // node keys: (2*block, prev block, src host, dst host) for demultiplexers, (2*block+1, host, replica, 0) for replicas
    let mut keys: Vec<(u64, u64, u64, u64)> = vec![];
    for b in &d.blocks { for (c, _) in &b.replicas { keys.push((2 * c.0 + 1, c.1, c.2, 0)); } }
    for (f, t, _) in &d.links { if f.1 != t.1 { keys.push((2 * t.0, f.0, f.1, t.1)); } }
    keys.sort(); keys.dedup();
    let idx: BTreeMap<(u64, u64, u64, u64), usize> = keys.iter().enumerate().map(|(i, k)| (*k, i)).collect();
    let rep_idx = |c: &C| idx[&(2 * c.0 + 1, c.1, c.2, 0)];
    // channels: final ones per (consumer replica, previous block) in node order, then connections
    let mut chans: Vec<(usize, Option<(C, u64)>)> = vec![]; // (consumer node, Some((replica, prev block)) for final channels)
    let mut fin: BTreeMap<(C, u64), usize> = BTreeMap::new();
    for b in &d.blocks {
        for (c, _) in &b.replicas {
            for (ef, et, _) in &d.edges { if *et == b.id { fin.insert((*c, *ef), chans.len()); chans.push((rep_idx(c), Some((*c, *ef)))); } }
        }
    }
    let mut conn: BTreeMap<(u64, u64, u64, u64), usize> = BTreeMap::new();
    for k in &keys { if k.0 % 2 == 0 { conn.insert(*k, chans.len()); chans.push((idx[k], None)); } }
    let mut cfgs: Vec<String> = vec![];
    let mut nterms: Vec<String> = vec![];
    for k in &keys {
        if k.0 % 2 == 0 {
            let n = d.links.iter().filter(|(f, t, _)| f.0 == k.1 && f.1 == k.2 && t.0 * 2 == k.0 && t.1 == k.3).count();
            cfgs.push(format!("(Build_rcfg (KDemux {}%nat) [] [])", conn[k]));
            nterms.push(format!("{}%nat", n));
        } else {
            let c: C = ((k.0 - 1) / 2, k.1, k.2);
            let outs: Vec<String> = d.links.iter().filter(|(f, _, _)| *f == c).map(|(f, t, _)| {
                let fch = fin[&(*t, f.0)];
                let w = if f.1 == t.1 { fch } else { conn[&(2 * t.0, f.0, f.1, t.1)] };
                format!("({}%nat, {}%nat)", w, fch)
            }).collect();
            let ins: Vec<usize> = d.edges.iter().filter(|(_, et, _)| *et == c.0).map(|(ef, _, _)| fin[&(c, *ef)]).collect();
            let nprod = |ch: usize| { let (rc, pb) = chans[ch].1.unwrap(); d.links.iter().filter(|(f, t, _)| *t == rc && f.0 == pb).count() };
            let kind = match ins.len() {
                0 => "KSrc".to_string(),
                1 => format!("(KOp1 {}%nat {}%nat)", ins[0], nprod(ins[0])),
                2 => format!("(KOp2 {}%nat {}%nat {}%nat {}%nat)", ins[0], nprod(ins[0]), ins[1], nprod(ins[1])),
                _ => "(KDemux 0%nat)".to_string(),
            };
            cfgs.push(format!("(Build_rcfg {} [{}] [{}])", kind, outs.join("; "), outs.join("; ")));
            nterms.push("0%nat".to_string());
        }
    }
    let cons: Vec<String> = chans.iter().map(|(n, _)| format!("{}%nat", n)).collect();
    let term = format!("(KMDag (Build_mdump [{}] [{}] [{}]))", cfgs.join("; "), cons.join("; "), nterms.join("; "));
    sink.count("mdag_graph");
    sink.count_n("mdag_demultiplexers", keys.iter().filter(|k| k.0 % 2 == 0).count() as u64);
    sink.push(term, json!({"kind": "execution graph of an acyclic job on several hosts (with demultiplexers)", "pipeline": p.coq(), "cores": cores,
        "nodes": keys.len(), "channels": chans.len(), "links": d.links.len()}), keys.len() >= 6);
}

/// The execution graph the real scheduler derives for an acyclic pipeline on `local(par)`,
/// as a Coq `gdump` (C04: premise `dag_ok` of the network theorems).
pub fn dag_case(sink: &mut CaseSink, p: &Pipe, par: u64) {
    let p2 = p.clone();
    let r = crate::script::catch(move || {
        let env = StreamContext::new(RuntimeConfig::local(par).unwrap());
        pipe::build(&env, &p2, BatchMode::fixed(1024)).for_each(|_| {});
        env.verif_execution_graph()
    });
    let d = match r {
        Ok(d) => d,
        Err(_) => { sink.count("dag_plan_rejected_by_api"); return; }
    };
    let n = |x: u64| format!("{}%nat", x);
    let mut nodes: Vec<(u64, u64)> = d.blocks.iter().flat_map(|b| b.replicas.iter().map(|(c, _)| (c.0, c.2))).collect();
    nodes.sort();
    let nodes_s: Vec<String> = nodes.iter().map(|(b, r)| format!("({}, {})", n(*b), n(*r))).collect();
    let edges_s: Vec<String> = d.edges.iter().map(|(f, t, _)| format!("({}, {})", n(*f), n(*t))).collect();
    let links_s: Vec<String> = d.links.iter().map(|(f, t, _)| format!("(({}, {}), ({}, {}))", n(f.0), n(f.2), n(t.0), n(t.2))).collect();
    let term = format!("(KDag (Build_gdump [{}] [{}] [{}]))", nodes_s.join("; "), edges_s.join("; "), links_s.join("; "));
    sink.count("dag_graph");
    sink.count_n("dag_replicas", nodes.len() as u64);
    sink.push(term, json!({"kind": "execution graph of an acyclic job on one host", "pipeline": p.coq(), "parallelism": par,
        "blocks": format!("{:?}", d.blocks.iter().map(|b| (b.id, b.replicas.len())).collect::<Vec<_>>()), "edges": format!("{:?}", d.edges), "links": d.links.len()}),
        nodes.len() >= 4 && d.edges.len() >= 2);
}

pub fn generate_c04(opts: &Opts, sink: &mut CaseSink) {
    let mut rng = Rng::new(opts.seed);
    let n = (if opts.thorough { 400 } else { 36 }) / opts.scale;
    let watchdog = Duration::from_secs(90);
    // iterate and expansion. (1) known finding F9 exhibited: 24 outputs per pulled element,
    // one element per message: more than the feedback cycle holds -> hang with `Single`,
    // fine with large batches. (2) 64 outputs per element in batches of 8 (8 messages per
    // element: within the cycle's capacity) but 64 messages per input batch: must terminate
    // (the head keeps draining the feedback channel while it forwards an input batch).
    {
        let src = Pipe::Src(true, big_data(&mut rng, 6));
        let p = Pipe::Iterate(Box::new(src), 2, 1_000_000_000_000, vec![Op1::FlatRep(8), Op1::FlatRep(3)], false);
        emit(sink, &p, &[(Deploy::Local(1), Mode::Fixed(1024)), (Deploy::Local(1), Mode::Single)], Duration::from_secs(20));
        for (size, par, mode) in [(40u64, 1u64, Mode::Fixed(8)), (64, 1, Mode::Fixed(8)), (48, 1, Mode::Fixed(16))] {
            let src = Pipe::Src(true, big_data(&mut rng, size));
            let p = Pipe::Iterate(Box::new(src), 1, 1_000_000_000_000, vec![Op1::FlatRep(8), Op1::FlatRep(8)], false);
            emit(sink, &p, &[(Deploy::Local(1), Mode::Fixed(1024)), (Deploy::Local(par), mode)], Duration::from_secs(30));
        }
    }
    for i in 0..n {
        // shapes that stress end-of-stream accounting and back-pressure
        let size = match i % 4 { 0 => 0, 1 => rng.range(1, 3) as u64, _ => rng.range(120, 400) as u64 };
        let src = Pipe::Src(i % 3 != 0, big_data(&mut rng, size));
        let p = match i % 6 {
            0 => Pipe::Split(Box::new(src), vec![Op1::Shuffle, Op1::MapAdd(1)], vec![Op1::GroupBySum], None),
            1 => Pipe::Split(Box::new(src), vec![Op1::SetKey(3)], vec![Op1::Shuffle, Op1::SetKey(3)], Some(JVar::Outer)),
            2 => Pipe::Join(Box::new(src), Box::new(Pipe::Src(true, big_data(&mut rng, size / 3))), JVar::Left, JShip::Broadcast, JLocal::Hash),
            3 => Pipe::Replay(Box::new(src), 3, 1_000_000_000, vec![Op1::AddState, Op1::Shuffle, Op1::FilterNe(3)]),
            4 => Pipe::Op(Box::new(Pipe::Merge(Box::new(src), Box::new(Pipe::Src(true, vec![])))), Op1::FoldAssocSum),
            _ => pipe::random_pipe(&mut rng, 2),
        };
        // tiny batches so that the 16-slot channels really fill up
        let configs = vec![
            (Deploy::Local(rng.range(1, 8) as u64), *rng.pick(&[Mode::Single, Mode::Fixed(1), Mode::Fixed(3)])),
            (pipe::random_deploy(&mut rng), pipe::random_mode(&mut rng)),
        ];
        emit(sink, &p, &configs, watchdog);
        // the execution graph of the same job, as premise of the network theorems
        if !p.has_loop() {
            sink.wrap = None;
            dag_case(sink, &p, rng.range(1, 6) as u64);
            sink.wrap = Some(("KJob".into(), "C01".into()));
        }
    }
    // forward connections that NARROW across hosts: the consumers of a host receive from
    // different remote hosts each (Limited(k) filled host by host), so a demultiplexer serves
    // receivers with different sets of remote producers
    {
        let layouts: Vec<(Vec<u64>, u64)> = if opts.thorough {
            vec![(vec![2, 2, 2], 3), (vec![2, 2, 2], 2), (vec![1, 2, 2], 2), (vec![3, 1, 2], 2), (vec![2, 2], 3), (vec![3, 3, 3], 4), (vec![2, 1, 1], 3), (vec![4, 2, 2], 3)]
        } else {
            vec![(vec![2, 2, 2], 3), (vec![3, 1, 2], 2), (vec![2, 2], 3)]
        };
        for (cores, k) in layouts {
            let src = Pipe::Src(true, big_data(&mut rng, 120));
            let p = Pipe::Op(Box::new(Pipe::Op(Box::new(Pipe::Op(Box::new(src), Op1::MapAdd(1))), Op1::Repl(pipe::Repl::Limited(k)))), Op1::MapAdd(2));
            sink.count("narrowing_forward_multi_host");
            emit(sink, &p, &[(Deploy::Local(1), Mode::Fixed(1024)), (Deploy::Remote(cores), pipe::random_mode(&mut rng))], Duration::from_secs(40));
        }
    }
    // multi-host graphs (demultiplexers), incl. layouts with more than 16 producers per input
    sink.wrap = None;
    for i in 0..(if opts.thorough { 120 } else { 16 }) {
        let p = pipe::random_pipe(&mut rng, 2);
        if !p.has_loop() {
            let cores: Vec<u64> = if i % 4 == 0 { vec![6, 6, 6] } else { (0..rng.range(2, 3)).map(|_| rng.range(1, 4) as u64).collect() };
            mdag_case(sink, &p, &cores);
        }
    }
    // more graphs: random acyclic pipelines, several parallelisms each
    sink.wrap = None;
    for _ in 0..(if opts.thorough { 300 } else { 40 }) {
        let p = pipe::random_pipe(&mut rng, 2);
        if !p.has_loop() {
            dag_case(sink, &p, rng.range(1, 8) as u64);
        }
    }
}
pub const RULE_C04: &str = "the engineered two-host hash join of known finding F13 (2 + 20 cores, fixed(2) batches; thorough: also its control without the early flush and a 2 + 14 core layout), then whole jobs on the real engine: empty and tiny inputs, inputs of 120..400 elements with batch size 1/3 (more than the total channel capacity: real back-pressure), split diamonds closed by merge and by outer join, broadcast joins, merges with an empty side, forward connections narrowing to Limited(k) replicas across 2..3 hosts (consumers of one host fed by different remote hosts), replay loops with internal shuffles, plus random pipelines; local 1..8 and 2..3-host deployments; watchdog 90 s; for every acyclic pipeline and 40 (thorough 300) further random ones the execution graph derived by the real scheduler on local(1..8), checked against dag_okb (premise of C04_dag_*); the same on 2..3-host layouts (16, thorough 120 graphs; every fourth on 3 x 6 cores) against mstruct_okb and the capacity condition (premise of C04_multi_host_*). A run counts as good only if every host returned, exactly one sink handle held a result and the result is complete. Non-trivial: >=2 input elements and >=2 runs; distinct = distinct case terms";

// ---------------------------------------------------------------- C10
/// Loops with a side input: a join inside the loop body whose loop side changes from round to
/// round (it depends on the loop state), every join variant and local algorithm.
pub fn side_input_cases(rng: &mut Rng, sink: &mut CaseSink, n: usize, watchdog: Duration) {
    for i in 0..n {
        // few elements and many keys: a key present on the loop side in one round is often
        // absent in the next, while the side input still has it
        let size = *rng.pick(&[1u64, 2, 3, 5, 12]);
        let src = Pipe::Src(true, big_data(rng, size));
        let js = match pipe::random_join_side(rng) {
            Op1::JoinSide(_, _, side) if i % 2 == 0 => Op1::JoinSide(JVar::Outer, JLocal::SortMerge, side),
            o => o,
        };
        let mut body = vec![Op1::AddState, Op1::FilterNe(rng.range(2, 4)), Op1::SetKey(rng.range(5, 9)), js];
        if i % 3 == 0 { body.insert(1, Op1::Shuffle); }
        if i % 4 == 1 { body.push(Op1::MapAdd(1)); }
        if i % 4 == 3 {
            // the side input on the LEFT of the join and the loop state read in the block that the
            // join starts: that block must wait for the state of the round like any other
            let side = match pipe::random_join_side(rng) { Op1::JoinSide(_, _, s) | Op1::JoinSideL(_, _, s) => s, _ => vec![] };
            body = vec![Op1::SetKey(9), Op1::JoinSideL(*rng.pick(&[JVar::Inner, JVar::Inner, JVar::Left]), *rng.pick(&[JLocal::Hash, JLocal::SortMerge]), side), Op1::AddState];
        }
        let p = Pipe::Replay(Box::new(src), rng.range(2, 5), 1_000_000_000_000, body);
        let configs = vec![
            (Deploy::Local(1), Mode::Fixed(1024)),
            (Deploy::Local(rng.range(2, 6) as u64), pipe::random_mode(rng)),
            (Deploy::Remote(vec![1, 2]), pipe::random_mode(rng)),
            (Deploy::Remote(vec![2, 2, 2]), *rng.pick(&[Mode::Single, Mode::Fixed(1), Mode::Adaptive(4, 5)])),
        ];
        emit(sink, &p, &configs, watchdog);
    }
}

pub fn generate_c10(opts: &Opts, sink: &mut CaseSink) {
    let mut rng = Rng::new(opts.seed);
    let n = (if opts.thorough { 600 } else { 60 }) / opts.scale;
    let watchdog = Duration::from_secs(90);
    for i in 0..n {
        let sz = *rng.pick(&[0u64, 1, 5, 40, 120]);
        let src = Pipe::Src(true, big_data(&mut rng, sz));
        let mut body = pipe::loop_body(&mut rng, 3, true);
        // the body reads the state, so a stale or too new state changes the result
        body.insert(rng.below(body.len() as u64 + 1) as usize, Op1::AddState);
        let bound = rng.range(0, 6);
        let limit = *rng.pick(&[30i64, 500, 20000, 1_000_000_000]);
        let p = if i % 4 == 3 {
            // iterate: small bodies without expansion (large expansions deadlock: known finding F9)
            let body: Vec<Op1> = body.into_iter().filter(|o| !matches!(o, Op1::FlatRep(_) | Op1::Nested(_, _, _) | Op1::NestedO(_, _, _))).collect();
            Pipe::Iterate(Box::new(src), bound, limit, body, rng.chance(1, 2))
        } else {
            Pipe::Replay(Box::new(src), bound, limit, body)
        };
        let p = if rng.chance(1, 3) { Pipe::Op(Box::new(p), Op1::MapAdd(1)) } else { p };
        let configs = vec![
            (Deploy::Local(1), Mode::Fixed(1024)),
            (Deploy::Local(rng.range(2, 8) as u64), pipe::random_mode(&mut rng)),
            (Deploy::Remote((0..rng.range(2, 3)).map(|_| rng.range(1, 3) as u64).collect()), pipe::random_mode(&mut rng)),
        ];
        emit(sink, &p, &configs, watchdog);
    }
    side_input_cases(&mut rng, sink, if opts.thorough { 150 } else { 24 }, watchdog);
    // nested loops whose inner body reads the INNER state: they must restart from the initial
    // state in every outer round, on every replica
    for i in 0..(if opts.thorough { 40 } else { 6 }) {
        let size = *rng.pick(&[3u64, 10, 40]);
        let src = Pipe::Src(true, big_data(&mut rng, size));
        let mut inner = vec![Op1::AddState];
        if i % 2 == 1 { inner.insert(rng.below(2) as usize, Op1::Shuffle); }
        if i % 3 == 2 { inner.push(Op1::GroupBySum); }
        let nested = Op1::Nested(rng.range(2, 3), *rng.pick(&[5_000i64, 1_000_000_000_000]), inner);
        let mut body = vec![nested];
        if i % 4 == 3 { body.insert(0, Op1::AddState); }
        let p = Pipe::Replay(Box::new(src), rng.range(2, 4), 1_000_000_000_000, body);
        let configs = vec![
            (Deploy::Local(1), Mode::Fixed(1024)),
            (Deploy::Local(rng.range(2, 6) as u64), pipe::random_mode(&mut rng)),
            (Deploy::Remote(vec![2, 1]), pipe::random_mode(&mut rng)),
        ];
        emit(sink, &p, &configs, watchdog);
    }
    // nested loops whose inner body, behind a shuffle, reads the OUTER loop's state: right on
    // one host, possibly stale on several (known finding F12) — several multi-host runs each
    for i in 0..(if opts.thorough { 6 } else { 2 }) {
        let src = Pipe::Src(true, (0..40).map(|v| (v % 5, v)).collect());
        let inner = if i % 2 == 0 { vec![Op1::Shuffle, Op1::AddState, Op1::Shuffle] } else { vec![Op1::Shuffle, Op1::AddState, Op1::MapAdd(1)] };
        let p = Pipe::Replay(Box::new(src), 4, 1_000_000_000_000, vec![Op1::NestedO(2, 1_000_000_000_000, inner)]);
        let mut configs = vec![(Deploy::Local(1), Mode::Fixed(1024)), (Deploy::Local(4), pipe::random_mode(&mut rng))];
        // small batches and several hosts: measured to go wrong in most runs (nvh PROBE_F12)
        for j in 0..6 {
            configs.push((Deploy::Remote(if j % 2 == 0 { vec![2, 2, 2] } else { vec![1, 1, 1] }), [Mode::Single, Mode::Fixed(1), Mode::Adaptive(4, 5)][j % 3]));
        }
        emit(sink, &p, &configs, watchdog);
    }
}
pub const RULE_C10: &str = "replay (75%) and iterate (25%) loops on the real engine: bodies that add the loop state to every value plus random maps / filters / flat_maps / shuffles / keyed aggregations and, for replay, nested replay loops (half of them reading their own loop state in the inner body — plus dedicated cases of that shape with 2..4 outer rounds —, a quarter of them reading the enclosing loop's state in the inner body, plus dedicated cases of that shape run six times on 3 hosts); bounds 0..6, stop conditions on the state (30 .. never), joins with a side input defined outside the loop (all variants, hash and sort-merge) whose loop side depends on the state; inputs of 0..120 elements; each under local(1), local(2..8) and a 2..3-host deployment with random batch modes. Non-trivial: >=2 input elements; distinct = distinct case terms";

// ---------------------------------------------------------------- C18
/// shape 0: linear pipeline; 1: the channel source is the LEFT input of a merge whose right
/// input (an empty bounded source) has finished; 2: the same with the sides swapped
fn measure_delay(depth: usize, delay_ms: u64, shape: u64) -> (u64, bool) {
    let (tx, source) = ChannelSource::<i64>::new(8);
    let env = StreamContext::new(RuntimeConfig::local(2).unwrap());
    let bm = BatchMode::adaptive(1024, Duration::from_millis(delay_ms));
    let live = env.stream(source).batch_mode(bm);
    let mut s = match shape {
        0 => crate::dynop::erase(live),
        1 => crate::dynop::erase(live.merge(env.stream_iter(0..0i64).batch_mode(bm))),
        _ => crate::dynop::erase(env.stream_iter(0..0i64).batch_mode(bm).merge(live)),
    };
    for _ in 0..depth {
        s = crate::dynop::erase(s.shuffle().map(|x: i64| x + 1));
    }
    let rx = s.collect_channel();
    let handle = std::thread::spawn(move || env.execute_blocking());
    // let the workers start; the element is sent well within the first max_delay when that is long
    std::thread::sleep(Duration::from_millis(30));
    let t0 = Instant::now();
    tx.send(7).unwrap();
    // no further input: the element must still come out
    let bound = Duration::from_millis(delay_ms * 20 * (depth as u64 + 1) + 2000);
    let got = rx.recv_timeout(bound);
    let elapsed = t0.elapsed().as_millis() as u64;
    drop(tx);
    let _ = handle.join();
    (elapsed, got.is_ok())
}

pub fn generate_c18(opts: &Opts, sink: &mut CaseSink) {
    let mut rng = Rng::new(opts.seed);
    let watchdog = Duration::from_secs(90);
    // (a) the batch mode never changes a job's result
    let n = (if opts.thorough { 200 } else { 20 }) / opts.scale;
    for _ in 0..n {
        let p = pipe::random_pipe(&mut rng, 1);
        let d = pipe::random_deploy(&mut rng);
        let configs: Vec<(Deploy, Mode)> = [Mode::Single, Mode::Fixed(1), Mode::Fixed(7), Mode::Fixed(1024), Mode::Adaptive(1024, 50), Mode::Adaptive(3, 2)]
            .iter().map(|m| (d.clone(), *m)).collect();
        let before = sink.total;
        sink.wrap = None;
        // reuse the C01 emitter, then wrap the produced term
        let mut tmp_runs = vec![];
        let mut rejected = false;
        for (dd, m) in &configs {
            match pipe::run(&p, dd, *m, watchdog) {
                pipe::Outcome::Rejected(_) => { rejected = true; break; }
                o => tmp_runs.push(o),
            }
        }
        if rejected { sink.count("plan_rejected_by_api"); continue; }
        let runs: Vec<String> = tmp_runs.iter().zip(configs.iter()).map(|(o, (dd, m))| match o {
            pipe::Outcome::Done(v) => format!("(C01.ODone [{}])", v.iter().map(|(k, x)| format!("({}, {})", if *k < 0 { format!("({k})") } else { k.to_string() }, if *x < 0 { format!("({x})") } else { x.to_string() })).collect::<Vec<_>>().join("; ")),
            pipe::Outcome::Hang => format!("(C01.OHangB {} {})", match m { Mode::Single => 1, Mode::Fixed(n) => *n, Mode::Adaptive(n, _) => *n }, match dd { Deploy::Local(p) => *p, Deploy::Remote(c) => c.iter().sum() }),
            _ => "C01.OPanic".into(),
        }).collect();
        let _ = before;
        sink.count("all_batch_modes");
        sink.push(format!("(CModes (C01.Build_case {} [{}]))", p.coq(), runs.join("; ")),
                  json!({"kind": "all batch modes", "pipeline": p.coq(), "deployment": d.describe(), "outcomes": tmp_runs.iter().map(|o| match o { pipe::Outcome::Done(v) => format!("{} elements", v.len()), x => format!("{:?}", x) }).collect::<Vec<_>>()}), p.input_len() >= 2);
    }
    // (b) round end / idleness flushes every buffer, for every mode (real End)
    let n = (if opts.thorough { 3000 } else { 300 }) / opts.scale;
    for _ in 0..n {
        let strat = *rng.pick(&[Strat::GroupBy, Strat::Random, Strat::All, Strat::OnlyOne]);
        let blocks: Vec<u64> = if strat == Strat::OnlyOne { vec![1] } else { (0..rng.range(1, 2)).map(|_| rng.range(1, 4) as u64).collect() };
        let fixed = LMode::random(&mut rng);
        let script = link_script(&mut rng);
        let mode = fixed.batch_mode();
        let clock = Clock::random(&mut rng, script.len());
        let recv = drive_end(strat, mode, &blocks, script.clone(), &clock).unwrap_or_else(|m| { eprintln!("C18 End: {m}"); blocks.iter().map(|k| vec![vec![]; *k as usize]).collect() });
        sink.count("round_end_flush");
        sink.push(format!("(CFlush {})", lcase_term(strat, fixed, &blocks, &script, &recv, &clock)),
                  json!({"kind": "flush at round end / idleness", "strategy": format!("{:?}", strat), "batch": format!("{:?}", fixed), "input": format!("{:?}", script), "received": format!("{:?}", recv)}),
                  script.iter().filter(|e| matches!(e, E::Item(_) | E::Timestamped(_, _))).count() >= 3);
    }
    // (c) adaptive batching: an element sent alone arrives although no further input comes
    let n = if opts.thorough { 36 } else { 9 };
    for i in 0..n {
        let depth = 1 + (i % 4) as usize;
        // with the long delay the element arrives before the first max_delay has elapsed, so no
        // batcher flushes it on its own: only the idle signal of the block inputs gets it out
        let delay = if i < 3 { 300 } else { *rng.pick(&[5u64, 20, 50, 300]) };
        let shape = (i % 3) as u64;
        let (elapsed, delivered) = measure_delay(depth, delay, shape);
        let shape_name = ["linear", "merge, right input finished", "merge, left input finished"][shape as usize];
        let bound = delay * 20 * (depth as u64 + 1) + 2000;
        sink.count("adaptive_delay");
        sink.push(format!("(CDelay {} {} {} {} {})", depth, delay, elapsed, bound, delivered),
                  json!({"kind": "adaptive delay", "shape": shape_name, "depth": depth, "max_delay_ms": delay, "observed_ms": elapsed, "bound_ms": bound, "delivered": delivered}), true);
    }
}
pub const RULE_C18: &str = "(a) random pipelines, each under single / fixed(1) / fixed(7) / fixed(1024) / adaptive(1024,50ms) / adaptive(3,2ms) on one deployment: all six results equal the sequential meaning; (b) the real End operator with every strategy and batch mode over multi-round scripts with FlushBatch: every control element and every data element has arrived once its round ended; (c) a channel source with adaptive(1024, 5..300 ms) — alone, or as the left / right input of a merge whose other input has finished — through 1..4 block boundaries: one element (sent before the first max_delay has elapsed when that is 300 ms), then silence; it must reach the sink within 20 x delay x (depth+1) + 2 s. Non-trivial: >=2 input elements / >=3 data elements / every timing case; distinct = distinct case terms";

// ---------------------------------------------------------------- C20
fn strip_repl(p: Pipe) -> Pipe {
    let keep = |o: &Op1| !matches!(o, Op1::Repl(r) if *r != Repl::One);
    match p {
        Pipe::Op(q, o) => { let q = strip_repl(*q); if keep(&o) { Pipe::Op(Box::new(q), o) } else { q } }
        Pipe::Join(l, r, v, s, lo) => Pipe::Join(Box::new(strip_repl(*l)), Box::new(strip_repl(*r)), v, s, lo),
        Pipe::Merge(l, r) => Pipe::Merge(Box::new(strip_repl(*l)), Box::new(strip_repl(*r))),
        Pipe::Split(q, a, b, v) => Pipe::Split(Box::new(strip_repl(*q)), a.into_iter().filter(|o| keep(o)).collect(), b.into_iter().filter(|o| keep(o)).collect(), v),
        other => other,
    }
}

pub fn generate_c20(opts: &Opts, sink: &mut CaseSink) {
    let mut rng = Rng::new(opts.seed);
    let n = (if opts.thorough { 800 } else { 80 }) / opts.scale;
    let watchdog = Duration::from_secs(60);
    // dedicated shapes: the panic happens on a host that runs NO replica of the next block (a
    // forward edge to a block limited to 2 replicas, all on host 0): the failure must still
    // reach that block, its host must fail and the sink must not publish
    let mut dedicated: Vec<(Pipe, Deploy, Mode)> = vec![];
    for trig in 0..(if opts.thorough { 6 } else { 3 }) {
        let other = (trig + 1) % 7;
        let data: Vec<P> = (0..40).map(|i| (i % 5, 7 * (i / 4) + if i % 4 >= 2 { trig } else { other })).collect();
        let p = Pipe::Op(Box::new(Pipe::Op(Box::new(Pipe::Op(Box::new(Pipe::Src(true, data)), Op1::PanicAt(trig))), Op1::Repl(Repl::Limited(2)))), Op1::MapAdd(1));
        dedicated.push((p, Deploy::Remote(vec![2, 2]), *rng.pick(&[Mode::Fixed(1024), Mode::Adaptive(1024, 50), Mode::Fixed(3)])));
    }
    for i in 0..n + dedicated.len() {
        let (p, d, m) = if i < dedicated.len() { dedicated[i].clone() } else {
            (strip_repl(pipe::random_acyclic_with_panic(&mut rng)), pipe::random_deploy(&mut rng), pipe::random_mode(&mut rng)) };
        let o = pipe::run_crash(&p, &d, m, watchdog);
        let (term, descr, fired) = match &o {
            CrashOutcome::Rejected => { sink.count("plan_rejected_by_api"); continue; }
            CrashOutcome::Hang => ("OHung".to_string(), json!("hang"), true),
            CrashOutcome::Finished { fired, hosts, result } => {
                let hs: Vec<String> = hosts.iter().map(|h| format!("({}, {})", h.failed, h.published)).collect();
                let res = match result {
                    Some(v) => format!("(Some [{}])", v.iter().map(|(k, x)| format!("({}, {})", if *k < 0 { format!("({k})") } else { k.to_string() }, if *x < 0 { format!("({x})") } else { x.to_string() })).collect::<Vec<_>>().join("; ")),
                    None => "None".into(),
                };
                (format!("(OFinished {} [{}] {})", fired, hs.join("; "), res), json!({"fired": fired, "hosts": format!("{:?}", hosts), "published_elements": result.as_ref().map(|v| v.len())}), *fired)
            }
        };
        sink.count(if fired { "panic_fired" } else { "panic_not_reached" });
        sink.count(match &d { Deploy::Local(_) => "deploy_local", Deploy::Remote(_) => "deploy_multi_host" });
        sink.push(format!("(Build_case {} {})", p.coq(), term),
                  json!({"pipeline (PanicAt printed as the identity map)": p.coq(), "deployment": d.describe(), "batch_mode": format!("{:?}", m), "observed": descr}), fired);
    }
}
pub const RULE_C20: &str = "random acyclic pipelines (joins, merges, diamonds, every aggregation form) on the real engine with a user function that panics on one chosen element value, inserted at a random operator position — so the failing replica and the element position follow from the data and the routing; local 1..8 and 2..3-host deployments, all batch modes; plus dedicated two-host jobs in which the panicking replica's host runs no replica of the next block (forward edge to a block limited to 2 replicas); observed per host: execute_blocking failed / sink handle holds a result. Non-trivial: the panic actually fired; distinct = distinct case terms";

//! C14: session and processing-time windows, driven with a mocked clock.
use std::time::Duration;

use renoir::operator::window::{ProcessingTimeWindow, SessionWindow};
use renoir::operator::StreamElement as E;
use serde_json::json;

use crate::cases::CaseSink;
use crate::coqfmt::ToCoq;
use crate::rng::Rng;
use crate::script::{catch, run_timed_chain};
use crate::Opts;

type In = (i64, i64);
type Out = (i64, Vec<i64>);

fn timed_script(rng: &mut Rng, unit: u64) -> Vec<(u64, E<In>)> {
    let nkeys = *rng.pick(&[1i64, 2, 3]);
    let rounds = *rng.pick(&[1usize, 1, 2]);
    let mut now = rng.below(5);
    let mut v = vec![];
    let mut seq = 0;
    for _ in 0..rounds {
        for _ in 0..rng.below(30) {
            // bursts, pauses longer than the window, readings exactly on boundaries
            now += match rng.below(6) {
                0 | 1 => 0,
                2 => 1,
                3 => unit,
                4 => unit + 1,
                _ => rng.below(3 * unit + 2),
            };
            seq += 1;
            match rng.below(10) {
                0 => v.push((now, E::Watermark(now as i64))),
                1 => v.push((now, E::FlushBatch)),
                _ => v.push((now, E::Item((rng.range(0, nkeys - 1), seq)))),
            }
        }
        now += rng.below(2 * unit);
        v.push((now, E::FlushAndRestart));
    }
    v.push((now, E::Terminate));
    v
}

fn timed_coq(s: &[(u64, E<In>)]) -> String {
    let v: Vec<String> = s.iter().map(|(t, e)| format!("({}, {})", t, e.coq())).collect();
    format!("[{}]", v.join("; "))
}

pub fn generate(opts: &Opts, sink: &mut CaseSink) {
    let mut rng = Rng::new(opts.seed);
    let n = if opts.thorough { 6000 } else { 700 };
    for _ in 0..n {
        let gap = rng.range(1, 10) as u64;
        let s = timed_script(&mut rng, gap);
        let s2 = s.clone();
        let out: Vec<E<Out>> = catch(move || {
            run_timed_chain(s2, move |st| {
                st.key_by(|x: &In| x.0)
                    .window(SessionWindow::new(Duration::from_millis(gap)))
                    .fold(Vec::new(), |v: &mut Vec<i64>, x: In| v.push(x.1))
                    .0
            })
        })
        .unwrap_or_else(|_| vec![E::Item((i64::MIN, vec![]))]);
        let nres = out.iter().filter(|e| matches!(e, E::Item(_))).count();
        sink.count("session");
        sink.push(format!("(CSession {} {} {})", gap, timed_coq(&s), out.coq()),
                  json!({"kind": "session", "gap_ms": gap, "input": format!("{:?}", s), "impl_output": format!("{:?}", out)}), nres >= 2);
    }
    for _ in 0..n {
        let size = rng.range(1, 10) as u64;
        let slide = match rng.below(3) { 0 => size, 1 => 1.max(size / 2), _ => rng.range(1, size as i64) as u64 };
        let s = timed_script(&mut rng, size);
        let s2 = s.clone();
        let out: Vec<E<Out>> = catch(move || {
            run_timed_chain(s2, move |st| {
                st.key_by(|x: &In| x.0)
                    .window(ProcessingTimeWindow::sliding(Duration::from_millis(size), Duration::from_millis(slide)))
                    .fold(Vec::new(), |v: &mut Vec<i64>, x: In| v.push(x.1))
                    .0
            })
        })
        .unwrap_or_else(|_| vec![E::Item((i64::MIN, vec![]))]);
        let nres = out.iter().filter(|e| matches!(e, E::Item(_))).count();
        sink.count(if size == slide { "processing_time_tumbling" } else { "processing_time_sliding" });
        sink.push(format!("(CProc {} {} {} {})", size, slide, timed_coq(&s), out.coq()),
                  json!({"kind": "processing_time", "size_ms": size, "slide_ms": slide, "input": format!("{:?}", s), "impl_output": format!("{:?}", out)}), nres >= 2);
    }
}

pub const RULE: &str = "random keyed scripts with an explicit clock reading per element (mock clock hook): bursts (equal readings), pauses longer than the window/gap, readings exactly one window/gap apart, 1..3 keys, 1..2 rounds, watermarks/FlushBatch interspersed; session gaps and window sizes 1..10 ms, slide<=size. Non-trivial: >=2 results; distinct = distinct case terms";

//! C03: equal keys coming from ANY group-by entry point of the API meet on one replica.
//! Two keyed streams over the same key space are partitioned through two different entry
//! points (`group_by_count` / `group_by_sum` / `group_by_fold` / `group_by_reduce` on one side,
//! plain `group_by` on the other) and joined with the keyed join `KeyedStream::join`, which
//! uses forward (same-index) connections on both inputs and therefore relies on every group-by
//! connection sending a key to the same replica index. Whole job on the real engine.
use renoir::prelude::*;
use renoir::RuntimeConfig;
use serde_json::json;

use crate::cases::CaseSink;
use crate::rng::Rng;
use crate::script::catch;
use crate::Opts;

type P = (i64, i64);

fn run(variant: u64, par: u64, ldata: Vec<P>, rdata: Vec<P>) -> Result<Vec<(i64, (i64, i64))>, String> {
    catch(move || {
        let env = StreamContext::new(RuntimeConfig::local(par).unwrap());
        let l = env.stream_par_iter(move |id, n| ldata.clone().into_iter().skip(id as usize).step_by(n as usize));
        let r = env.stream_par_iter(move |id, n| rdata.clone().into_iter().skip(id as usize).step_by(n as usize))
            .group_by(|x: &P| x.0).map(|(_, x)| x.1);
        let out = match variant {
            0 => l.group_by_count(|x: &P| x.0).map(|(_, c)| c as i64).join(r).unkey().collect_vec(),
            1 => l.group_by_sum(|x: &P| x.0, |x: P| x.1).join(r).unkey().collect_vec(),
            2 => l.group_by_fold(|x: &P| x.0, 0i64, |a: &mut i64, x: P| *a += x.1, |a: &mut i64, b: i64| *a += b).join(r).unkey().collect_vec(),
            3 => l.group_by_reduce(|x: &P| x.0, |a: &mut P, b: P| { if b.1 > a.1 { *a = b; } }).map(|(_, x)| x.1).join(r).unkey().collect_vec(),
            // control: both sides through plain group_by, aggregated afterwards
            _ => l.group_by(|x: &P| x.0).fold(0i64, |a: &mut i64, x: P| *a += x.1).join(r).unkey().collect_vec(),
        };
        env.execute_blocking();
        out.get().unwrap_or_default()
    })
}

pub fn generate(opts: &Opts, sink: &mut CaseSink, rng: &mut Rng) {
    let n = (if opts.thorough { 200 } else { 20 }) / opts.scale;
    for i in 0..n {
        let variant = (i % 5) as u64;
        let nkeys = *rng.pick(&[3i64, 11, 40, 97]);
        let ldata: Vec<P> = (0..rng.range(1, 3) * nkeys).map(|j| (j % nkeys, rng.range(0, 50))).collect();
        let rdata: Vec<P> = (0..nkeys).filter(|_| !rng.chance(1, 5)).map(|k| (k, 1000 + k)).collect();
        let par = rng.range(2, 7) as u64;
        let got = match run(variant, par, ldata.clone(), rdata.clone()) {
            Ok(v) => v,
            Err(m) => { eprintln!("C03 meet: {m}"); sink.count("impl_failed"); vec![] }
        };
        let pl = |v: &Vec<P>| format!("[{}]", v.iter().map(|(a, b)| format!("({}, {})", a, b)).collect::<Vec<_>>().join("; "));
        let g = format!("[{}]", got.iter().map(|(k, (a, b))| format!("({}, {}, {})", k, a, b)).collect::<Vec<_>>().join("; "));
        sink.count(&format!("meet_variant_{}", variant));
        let entry = ["group_by_count", "group_by_sum", "group_by_fold", "group_by_reduce(max)", "group_by + fold (control)"][variant as usize];
        sink.push(format!("(KMeet {}%N {} {} {})", variant, pl(&ldata), pl(&rdata), g),
                  json!({"kind": "keys meet: keyed join of two differently produced partitionings", "left_entry_point": entry,
                         "right_entry_point": "group_by", "parallelism": par, "keys": nkeys, "left": format!("{:?}", ldata), "right": format!("{:?}", rdata), "joined": got.len()}), nkeys >= 11);
    }
}

//! C16: sequential paths keep order; reorder() sorts by timestamp.
use renoir::operator::StreamElement as E;
use serde_json::json;

use crate::cases::CaseSink;
use crate::coqfmt::ToCoq;
use crate::rng::Rng;
use crate::script::{catch, run_chain};
use crate::startdrv::{drive_after_start, gen, Batch};
use crate::Opts;

/// out-of-order timestamped script consistent with its watermarks (every element is above
/// the last watermark), many equal timestamps
fn reorder_script(rng: &mut Rng) -> Vec<E<i64>> {
    let mut v = vec![];
    let mut seq = 0;
    for _ in 0..rng.range(1, 3) {
        let mut wm = -1i64;
        let mut hi = rng.range(0, 4);
        for _ in 0..rng.below(30) {
            match rng.below(7) {
                0 => {
                    let w = rng.range(wm + 1, hi.max(wm + 1));
                    wm = w;
                    v.push(E::Watermark(w));
                    if hi <= wm { hi = wm + 1; }
                }
                1 if rng.chance(1, 3) => { seq += 1; v.push(E::Item(seq)); }
                2 if rng.chance(1, 4) => v.push(E::FlushBatch),
                _ => {
                    seq += 1;
                    let ts = rng.range(wm + 1, hi + 3);
                    v.push(E::Timestamped(seq, ts));
                    if rng.chance(1, 3) { hi += rng.range(0, 3); }
                }
            }
        }
        v.push(E::FlushAndRestart);
    }
    v.push(E::Terminate);
    v
}

pub fn generate(opts: &Opts, sink: &mut CaseSink) {
    let mut rng = Rng::new(opts.seed);
    let n = (if opts.thorough { 6000 } else { 700 }) / opts.scale;
    for _ in 0..n {
        let s = reorder_script(&mut rng);
        let s2 = s.clone();
        let out = catch(move || run_chain(s2, |st| st.reorder())).unwrap_or_else(|_| vec![E::Item(i64::MIN)]);
        let nts = s.iter().filter(|e| matches!(e, E::Timestamped(_, _))).count();
        sink.count("reorder");
        sink.push(format!("(CReorder {} {})", s.coq(), out.coq()),
                  json!({"kind": "reorder", "input": format!("{:?}", s), "impl_output": format!("{:?}", out)}), nts >= 3);
    }
    for _ in 0..n {
        // one producer replica, any batching: the consumer sees one sender
        let rounds = rng.range(1, 3) as usize;
        let st = gen::sender_stream(&mut rng, rounds, 15, 1);
        let bs: Vec<Batch<i64>> = gen::batches(&mut rng, &st).into_iter().map(|b| (0usize, b)).collect();
        let (a, m, r) = (rng.range(-3, 3), rng.range(1, 4), rng.range(0, 3));
        let out = drive_after_start(1, bs.clone(), move |s| {
            s.shuffle() // block boundary: producer -> consumer over a real Start
                .map(move |v: i64| v + a)
                .filter(move |v: &i64| v.rem_euclid(m) != 0)
                .flat_map(move |v: i64| std::iter::repeat(v).take(r as usize).collect::<Vec<_>>())
        })
        .unwrap_or_else(|e| { eprintln!("C16 seq: {e}"); vec![E::Item(i64::MIN)] });
        let nd = bs.iter().flat_map(|b| b.1.iter()).filter(|e| matches!(e, E::Item(_) | E::Timestamped(_, _))).count();
        sink.count("sequential_path");
        sink.count(&format!("batches_{}", bs.len().min(10)));
        sink.push(format!("(CSeq {} {} {} {} {})", a.coq(), m.coq(), r.coq(), bs.coq(), out.coq()),
                  json!({"kind": "sequential path", "add": a, "mod": m, "repeat": r, "batches": format!("{:?}", bs), "impl_output": format!("{:?}", out)}), nd >= 3 && bs.len() >= 2);
    }
    // random chains of the element-wise API operators in one block (Corr/ZooCorr.v)
    crate::props::zoo::generate(&mut rng, sink, (if opts.thorough { 5000 } else { 600 }) / opts.scale);
    // whole sequential jobs through the real producer side (End + Batcher) and consumer side of
    // two block boundaries with one replica each, batch sizes below, at and ABOVE the default
    // 1024, input lengths around a multiple of the batch size
    let modes: [(usize, u64); 7] = [(1, 0), (7, 0), (1024, 0), (2048, 0), (4096, 0), (1024, 50), (4096, 50)];
    for (i, (b, adaptive_ms)) in modes.iter().enumerate() {
        if !opts.thorough && i % 2 == 1 && *b < 2048 { continue; }
        let n = (*b as i64 + *rng.pick(&[0i64, 1, 100, 700])).min(6000);
        let (a, m, r) = (rng.range(-3, 3), rng.range(2, 4), rng.range(1, 2));
        let par = rng.range(1, 4) as u64;
        let bm = if *adaptive_ms > 0 { renoir::BatchMode::adaptive(*b, std::time::Duration::from_millis(*adaptive_ms)) } else { renoir::BatchMode::fixed(*b) };
        let out = catch(move || {
            let env = renoir::StreamContext::new(renoir::RuntimeConfig::local(par).unwrap());
            let res = env.stream_iter(0..n).batch_mode(bm)
                .map(move |v: i64| v + a)
                .replication(renoir::Replication::One)
                .filter(move |v: &i64| v.rem_euclid(m) != 0)
                .replication(renoir::Replication::One)
                .flat_map(move |v: i64| std::iter::repeat(v).take(r as usize).collect::<Vec<_>>())
                .collect_vec();
            env.execute_blocking();
            res.get().unwrap_or_default()
        }).unwrap_or_else(|e| { eprintln!("C16 job: {e}"); vec![i64::MIN] });
        sink.count("sequential_job");
        sink.push(format!("(CJob {} {} {} {} {})", a.coq(), m.coq(), r.coq(), n.coq(), out.coq()),
                  json!({"kind": "sequential job", "batch": b, "adaptive_ms": adaptive_ms, "n": n, "parallelism": par, "add": a, "mod": m, "repeat": r, "output_len": out.len()}), true);
    }
}

pub const RULE: &str = "operator zoo: chains of 1-5 operators drawn from map, filter, flat_map, filter_map, flatten, inspect, rich_map, rich_flat_map, rich_filter_map (plain and keyed), keyed flat_map / filter_map / flatten, key_by+unkey, add_timestamps (any multiplier / offset / lag: timestamps need not be monotone), drop_timestamps, built through the public API in one block and driven by multi-round scripts (timestamped with watermarks, or plain items; FlushBatch sprinkled), output compared element by element with the model and value by value with the iterator-chain oracle; reorder: random multi-round scripts, out-of-order timestamps above the last watermark, many ties, watermarks placed anywhere, untimestamped items and FlushBatch mixed in; sequential path: one producer stream cut into batches of size 1/2/3/unbounded (every batch mode is such a cutting) delivered to the real consumer-side Start followed by map/filter/flat_map; sequential jobs: stream_iter(0..n) -> map -> filter -> flat_map over two one-replica block boundaries, executed on the engine with fixed / adaptive batch sizes 1, 7, 1024, 2048, 4096 and n = size + 0/1/100/700, output compared IN ORDER. Non-trivial: >=3 data elements (and >=2 batches); distinct = distinct case terms";

//! C17: watermark progress at a block input — the real `Start` over a single previous block
//! with n replicas, driven with explicit arrival orders.
use renoir::operator::StreamElement as E;
use serde_json::json;

use crate::cases::CaseSink;
use crate::coqfmt::{app, ToCoq};
use crate::rng::Rng;
use crate::startdrv::{drive_single, gen, Batch};
use crate::Opts;

pub fn emit(sink: &mut CaseSink, n: usize, arrivals: Vec<Batch<i64>>, tag: &str) {
    let out = match drive_single::<i64>(n as u64, arrivals.clone()) {
        Ok(o) => o,
        Err(msg) => {
            sink.count("impl_failed");
            eprintln!("start driver: {msg}");
            vec![E::Item(i64::MIN)]
        }
    };
    let n_wm_in = arrivals.iter().flat_map(|b| b.1.iter()).filter(|e| matches!(e, E::Watermark(_))).count();
    let n_wm_out = out.iter().filter(|e| matches!(e, E::Watermark(_))).count();
    sink.count(tag);
    sink.count(&format!("senders_{}", n));
    sink.count_n("watermarks_in", n_wm_in as u64);
    sink.count_n("watermarks_out", n_wm_out as u64);
    let term = app("Build_case", &[n.coq(), arrivals.coq(), out.coq()]);
    let d = json!({"senders": n, "arrivals": format!("{:?}", arrivals), "impl_output": format!("{:?}", out)});
    sink.push(term, d, n >= 2 && n_wm_in >= 2 && n_wm_out >= 1);
}

pub fn random_case(rng: &mut Rng, max_senders: i64) -> (usize, Vec<Batch<i64>>, bool) {
    let n = rng.range(1, max_senders) as usize;
    let rounds = *rng.pick(&[1usize, 1, 2, 3]);
    let per: Vec<Vec<Vec<E<i64>>>> = (0..n)
        .map(|s| {
            let st = gen::sender_stream(rng, rounds, 8, s as i64 + 1);
            gen::batches(rng, &st)
        })
        .collect();
    let sync = rng.chance(4, 5);
    (n, gen::interleave(rng, per, sync), sync)
}

pub fn generate(opts: &Opts, sink: &mut CaseSink) {
    let mut rng = Rng::new(opts.seed);
    // corpus: the F1 history and neighbours
    let f1: Vec<Batch<i64>> = vec![
        (0, vec![E::Watermark(20)]),
        (1, vec![E::Watermark(100)]),
        (0, vec![E::FlushAndRestart]),
        (1, vec![E::Timestamped(5, 105), E::FlushAndRestart]),
        (0, vec![E::Terminate]),
        (1, vec![E::Terminate]),
    ];
    emit(sink, 2, f1, "corpus");
    let ok: Vec<Batch<i64>> = vec![
        (0, vec![E::Timestamped(1, 10), E::Watermark(20)]),
        (1, vec![E::Watermark(100)]),
        (1, vec![E::Watermark(110)]),
        (0, vec![E::Watermark(120), E::FlushAndRestart]),
        (1, vec![E::FlushAndRestart]),
        (0, vec![E::Terminate]),
        (1, vec![E::Terminate]),
    ];
    emit(sink, 2, ok, "corpus");
    let n_random = (if opts.thorough { 12000 } else { 1200 }) / opts.scale;
    for _ in 0..n_random {
        let (n, arr, sync) = random_case(&mut rng, 5);
        emit(sink, n, arr, if sync { "random_round_sync" } else { "random_unsynchronised" });
    }
}

pub const RULE: &str = "cases = corpus (F1 history) + random arrival orders: 1..5 upstream replicas, 1..3 rounds, per-replica streams with increasing watermarks / timestamped data / empty rounds, cut into batches like End+Batcher (FAR ends a batch, Terminate alone), interleaved arbitrarily (80% round-synchronised); non-trivial: >=2 replicas, >=2 watermarks in, >=1 watermark out; distinct = distinct case terms";

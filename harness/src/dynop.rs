//! Type erasure for operator chains, so that pipelines can be assembled at run time from a
//! random description: every stream is a `Stream<BoxOp<T>>`.
use std::fmt::Display;

use renoir::operator::{Operator, StreamElement};
use renoir::structure::BlockStructure;
use renoir::{ExecutionMetadata, Stream};

pub trait DynOp<T>: Send {
    fn setup_dyn(&mut self, metadata: &mut ExecutionMetadata);
    fn next_dyn(&mut self) -> StreamElement<T>;
    fn structure_dyn(&self) -> BlockStructure;
    fn clone_dyn(&self) -> Box<dyn DynOp<T>>;
    fn fmt_dyn(&self) -> String;
}

impl<T: Send, O: Operator<Out = T> + 'static> DynOp<T> for O {
    fn setup_dyn(&mut self, metadata: &mut ExecutionMetadata) {
        self.setup(metadata)
    }
    fn next_dyn(&mut self) -> StreamElement<T> {
        self.next()
    }
    fn structure_dyn(&self) -> BlockStructure {
        self.structure()
    }
    fn clone_dyn(&self) -> Box<dyn DynOp<T>> {
        Box::new(self.clone())
    }
    fn fmt_dyn(&self) -> String {
        self.to_string()
    }
}

pub struct BoxOp<T>(Box<dyn DynOp<T>>);

impl<T> Clone for BoxOp<T> {
    fn clone(&self) -> Self {
        BoxOp(self.0.clone_dyn())
    }
}
impl<T> Display for BoxOp<T> {
    fn fmt(&self, f: &mut std::fmt::Formatter<'_>) -> std::fmt::Result {
        write!(f, "{}", self.0.fmt_dyn())
    }
}
impl<T: Send> Operator for BoxOp<T> {
    type Out = T;
    fn setup(&mut self, metadata: &mut ExecutionMetadata) {
        self.0.setup_dyn(metadata)
    }
    fn next(&mut self) -> StreamElement<T> {
        self.0.next_dyn()
    }
    fn structure(&self) -> BlockStructure {
        self.0.structure_dyn()
    }
}

pub type DynStream<T> = Stream<BoxOp<T>>;

/// erase the operator type of a stream (adds one pass-through layer to the chain)
pub fn erase<T: Send + 'static, O: Operator<Out = T> + 'static>(s: Stream<O>) -> DynStream<T> {
    s.add_operator(|prev| BoxOp(Box::new(prev)))
}
